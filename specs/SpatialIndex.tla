---------------------------- MODULE SpatialIndex ----------------------------
(***************************************************************************)
(* C16 - spatial index queries agree with exhaustive search.               *)
(*                                                                         *)
(* Elements are ids 1..n with integer bounding boxes [lo, hi] (sequences   *)
(* of the same length: 3 for the real code, 2 in the bounded model).       *)
(* A query comes with per-element FACTS - the result of the element-level  *)
(* primitive applied to EVERY element, i.e. the exhaustive scan of the     *)
(* property statement:                                                     *)
(*   hit  : the elements whose bounds contain the point / are within the   *)
(*          radius / are crossed by the ray inside [tmin, tmax]            *)
(*   d2[e]: squared distance from the query point to e's closest point     *)
(*   cp[e]: that closest point                                             *)
(*   te[e]: distance of the ray's hit on e, or None                        *)
(* Reals are fixed point (units of 1/65536); two values that differ by at  *)
(* most Band units are a TIE (the statement leaves ties free; Band covers  *)
(* the rounding of the projection, nothing else).                          *)
(*                                                                         *)
(* Contract level (verdicts on the code):                                  *)
(*   SetAgrees, ClosestOK, NearestOK, HitOK                                *)
(* Structure (on the dumped real tree, and on the model's trees):          *)
(*   TreeSound  ==  the cells form a tree, every element is stored in      *)
(*   exactly one cell, and every cell's bounds contain the bounds of every *)
(*   element stored in or below it.                                        *)
(* Implementation shaped (design level only, never a verdict on code):     *)
(*   TravPruned (recursive descent that skips a cell whose bounds fail the *)
(*   test), used by SpatialIndexMC together with the best-first machine.   *)
(*                                                                         *)
(* int32 budget: fixed-point values < 32767 * 65536; lattice coordinates   *)
(* are small integers; only comparisons, +Band and min are used on them.   *)
(***************************************************************************)
EXTENDS Integers, Sequences, FiniteSets, FiniteSetsExt, SequencesExt

None == -2000000000
Band == 1

\* Range(s) = {s[i] : i \in DOMAIN s} comes from Functions (via SequencesExt)
NoDup(s) == Cardinality(Range(s)) = Len(s)

(* ------------------------------ boxes ---------------------------------- *)
BoxIn(inner, outer) ==
    \A d \in DOMAIN inner.lo : outer.lo[d] <= inner.lo[d] /\ inner.hi[d] <= outer.hi[d]
PtIn(p, b) == \A d \in DOMAIN p : b.lo[d] <= p[d] /\ p[d] <= b.hi[d]
BoxOf(c) == [lo |-> c.lo, hi |-> c.hi]
WellFormedBox(b) == \A d \in DOMAIN b.lo : b.lo[d] <= b.hi[d]

(* ------------------------------- trees --------------------------------- *)
(* cells: sequence of [lo, hi, el (element ids), ch (cell indices)];       *)
(* cell 1 is the root; children have larger indices (pre-order dump).      *)
Shape(cells) ==
    /\ Len(cells) >= 1
    /\ \A c \in DOMAIN cells : \A k \in DOMAIN cells[c].ch :
          cells[c].ch[k] \in (c + 1)..Len(cells)
    /\ LET kids == FlattenSeq([c \in DOMAIN cells |-> cells[c].ch])
       IN Len(kids) = Len(cells) - 1 /\ Range(kids) = 2..Len(cells)

RECURSIVE Below(_, _)
\* the element ids stored in cell c or below it (well defined when Shape holds)
Below(cells, c) ==
    cells[c].el \o FlattenSeq([k \in DOMAIN cells[c].ch |-> Below(cells, cells[c].ch[k])])

Stored(cells) == FlattenSeq([c \in DOMAIN cells |-> cells[c].el])

Partition(cells, n) == LET s == Stored(cells) IN Len(s) = n /\ Range(s) = 1..n

Contained(cells, eb) ==
    \A c \in DOMAIN cells : \A e \in Range(Below(cells, c)) :
        e \in DOMAIN eb => BoxIn(eb[e], BoxOf(cells[c]))

\* names of the violated parts (empty set = sound)
TreeUnsound(cells, eb, n) ==
    IF ~Shape(cells) THEN {"shape"}
    ELSE (IF Partition(cells, n) THEN {} ELSE {"partition"})
         \cup (IF Contained(cells, eb) THEN {} ELSE {"contained"})
TreeSound(cells, eb, n) == TreeUnsound(cells, eb, n) = {}

(* ----------------------------- contract -------------------------------- *)
\* a set-valued query: exactly the elements the exhaustive scan finds, each once
SetAgrees(res, hit) == NoDup(res) /\ Range(res) = Range(hit)

MinOf(f) == Min({f[e] : e \in DOMAIN f})

\* closest element ri and closest point rp
ClosestOK(d2, cp, ri, rp) ==
    /\ ri \in DOMAIN d2
    /\ d2[ri] <= MinOf(d2) + Band
    /\ rp = cp[ri]

Cand(te) == {e \in DOMAIN te : te[e] # None}
MinHit(te) == Min({te[e] : e \in Cand(te)})

\* nearest ray hit with identity ri (0 = none) and distance rt
NearestOK(te, ri, rt) ==
    IF Cand(te) = {} THEN ri = 0
    ELSE ri \in Cand(te) /\ te[ri] <= MinHit(te) + Band /\ rt = te[ri]

\* nearest ray hit reported as [h (hit anything), t (distance), e (identity, 0 = not observable)]
HitOK(te, r) ==
    IF Cand(te) = {} THEN ~r.h
    ELSE /\ r.h
         /\ r.t <= MinHit(te) + Band /\ r.t >= MinHit(te) - Band
         /\ r.e # 0 => (r.e \in Cand(te) /\ te[r.e] = r.t)

SameHit(a, b) == a.h = b.h /\ (a.h => (a.t - b.t <= Band /\ b.t - a.t <= Band))

(* ------------------- implementation-shaped traversal ------------------- *)
\* ehit[e]: element e passes the element-level test; chit[c]: the bounds of
\* cell c pass the same test. Descend only into cells that pass.
RECURSIVE TravPruned(_, _, _, _)
TravPruned(cells, c, ehit, chit) ==
    IF ~chit[c] THEN <<>>
    ELSE SelectSeq(cells[c].el, LAMBDA e : ehit[e])
         \o FlattenSeq([k \in DOMAIN cells[c].ch |-> TravPruned(cells, cells[c].ch[k], ehit, chit)])
=============================================================================
