---------------------------- MODULE SpatialIndex ----------------------------
(***************************************************************************)
(* C16 - spatial index queries agree with exhaustive search.               *)
(*                                                                         *)
(* Elements are ids 1..n with integer bounding boxes [lo, hi] (sequences   *)
(* of the same length: 3 for the real code, 2 in the bounded model).       *)
(* A query comes with per-element FACTS - the result of the element-level  *)
(* primitive applied to EVERY element, i.e. the exhaustive scan of the     *)
(* property statement:                                                     *)
(*   hit  : the elements whose bounds contain the point / are within the   *)
(*          radius / are crossed by the ray inside [tmin, tmax]            *)
(*   d2[e]: squared distance from the query point to e's closest point     *)
(*   cp[e]: that closest point                                             *)
(*   te[e]: distance of the ray's hit on e, or None                        *)
(* Reals are fixed point (units of 1/65536); two values that differ by at  *)
(* most Band units are a TIE (the statement leaves ties free; Band covers  *)
(* the rounding of the projection, nothing else).                          *)
(*                                                                         *)
(* Contract level (verdicts on the code):                                  *)
(*   SetAgrees, ClosestOK, NearestOK, HitOK                                *)
(* Structure (on the dumped real tree, and on the model's trees):          *)
(*   TreeSound  ==  the cells form a tree, every element is stored in      *)
(*   exactly one cell, and every cell's bounds contain the bounds of every *)
(*   element stored in or below it.                                        *)
(* Implementation shaped (design level only, never a verdict on code):     *)
(*   TravPruned (recursive descent that skips a cell whose bounds fail the *)
(*   test), used by SpatialIndexMC together with the best-first machine.   *)
(*                                                                         *)
(* int32 budget: fixed-point values < 32767 * 65536; lattice coordinates   *)
(* are small integers; only comparisons, +Band and min are used on them.   *)
(***************************************************************************)
EXTENDS Integers, Sequences, FiniteSets, FiniteSetsExt, SequencesExt

None == -2000000000
Band == 1

\* Range(s) = {s[i] : i \in DOMAIN s} comes from Functions (via SequencesExt)
NoDup(s) == Cardinality(Range(s)) = Len(s)

(* ------------------------------ boxes ---------------------------------- *)
BoxIn(inner, outer) ==
    \A d \in DOMAIN inner.lo : outer.lo[d] <= inner.lo[d] /\ inner.hi[d] <= outer.hi[d]
PtIn(p, b) == \A d \in DOMAIN p : b.lo[d] <= p[d] /\ p[d] <= b.hi[d]
BoxOf(c) == [lo |-> c.lo, hi |-> c.hi]
WellFormedBox(b) == \A d \in DOMAIN b.lo : b.lo[d] <= b.hi[d]

(* ------------------------------- trees --------------------------------- *)
(* cells: sequence of [lo, hi, el (element ids), ch (cell indices)];       *)
(* cell 1 is the root; children have larger indices (pre-order dump).      *)
Shape(cells) ==
    /\ Len(cells) >= 1
    /\ \A c \in DOMAIN cells : \A k \in DOMAIN cells[c].ch :
          cells[c].ch[k] \in (c + 1)..Len(cells)
    /\ LET kids == FlattenSeq([c \in DOMAIN cells |-> cells[c].ch])
       IN Len(kids) = Len(cells) - 1 /\ Range(kids) = 2..Len(cells)

RECURSIVE Below(_, _)
\* the element ids stored in cell c or below it (well defined when Shape holds)
Below(cells, c) ==
    cells[c].el \o FlattenSeq([k \in DOMAIN cells[c].ch |-> Below(cells, cells[c].ch[k])])

Stored(cells) == FlattenSeq([c \in DOMAIN cells |-> cells[c].el])

Partition(cells, n) == LET s == Stored(cells) IN Len(s) = n /\ Range(s) = 1..n

Contained(cells, eb) ==
    \A c \in DOMAIN cells : \A e \in Range(Below(cells, c)) :
        e \in DOMAIN eb => BoxIn(eb[e], BoxOf(cells[c]))

\* names of the violated parts (empty set = sound)
TreeUnsound(cells, eb, n) ==
    IF ~Shape(cells) THEN {"shape"}
    ELSE (IF Partition(cells, n) THEN {} ELSE {"partition"})
         \cup (IF Contained(cells, eb) THEN {} ELSE {"contained"})
TreeSound(cells, eb, n) == TreeUnsound(cells, eb, n) = {}

(* ----------------------------- contract -------------------------------- *)
\* a set-valued query: exactly the elements the exhaustive scan finds, each once
SetAgrees(res, hit) == NoDup(res) /\ Range(res) = Range(hit)

MinOf(f) == Min({f[e] : e \in DOMAIN f})

\* closest element ri and closest point rp
ClosestOK(d2, cp, ri, rp) ==
    /\ ri \in DOMAIN d2
    /\ d2[ri] <= MinOf(d2) + Band
    /\ rp = cp[ri]

Cand(te) == {e \in DOMAIN te : te[e] # None}
MinHit(te) == Min({te[e] : e \in Cand(te)})

\* nearest ray hit with identity ri (0 = none) and distance rt
NearestOK(te, ri, rt) ==
    IF Cand(te) = {} THEN ri = 0
    ELSE ri \in Cand(te) /\ te[ri] <= MinHit(te) + Band /\ rt = te[ri]

\* nearest ray hit reported as [h (hit anything), t (distance), e (identity, 0 = not observable)]
HitOK(te, r) ==
    IF Cand(te) = {} THEN ~r.h
    ELSE /\ r.h
         /\ r.t <= MinHit(te) + Band /\ r.t >= MinHit(te) - Band
         /\ r.e # 0 => (r.e \in Cand(te) /\ te[r.e] = r.t)

SameHit(a, b) == a.h = b.h /\ (a.h => (a.t - b.t <= Band /\ b.t - a.t <= Band))

(* --------- round 5: the exhaustive scan DEFINED on exact integers -------- *)
\* For lattice boxes and lattice queries the model itself says what the scan
\* must find, independently of every element-level primitive of the library:
\*   "MUST"  the element is in the answer      "NOT"  it is not
\*   "FREE"  a boundary case (point on a face, ray in the plane of a face or
\*           only touching, range sphere tangent): the statement leaves ties aside
\* Both the library's scan (facts) and the index's answer must respect it. This
\* is what makes a fault INSIDE the box primitives (Contains, ClosestPoint, the
\* slab test) visible although scan and index share them - in particular for
\* every IEEE spelling of the same query (negative zero components).
Max2(a, b) == IF a >= b THEN a ELSE b
Min2(a, b) == IF a <= b THEN a ELSE b
Axes == 1..3
\* q = <<x, y, z, ..>>: box b contains the point
PtBoxRef(q, b) ==
    IF \E d \in Axes : q[d] < b.lo[d] \/ q[d] > b.hi[d] THEN "NOT"
    ELSE IF \A d \in Axes : b.lo[d] < q[d] /\ q[d] < b.hi[d] THEN "MUST" ELSE "FREE"
\* q = <<x, y, z, rn, rd, zs, rc, tw>>: box b comes within the radius rn/rd (rc = 1: a huge radius)
Gap(x, lo, hi) == Max2(Max2(lo - x, x - hi), 0)
RangeBoxRef(q, b) ==
    LET g2 == Gap(q[1], b.lo[1], b.hi[1]) * Gap(q[1], b.lo[1], b.hi[1])
              + Gap(q[2], b.lo[2], b.hi[2]) * Gap(q[2], b.lo[2], b.hi[2])
              + Gap(q[3], b.lo[3], b.hi[3]) * Gap(q[3], b.lo[3], b.hi[3])
    IN IF q[7] = 1 THEN "MUST"
       ELSE IF g2 * q[5] * q[5] < q[4] * q[4] THEN "MUST"
       ELSE IF g2 * q[5] * q[5] > q[4] * q[4] THEN "NOT" ELSE "FREE"
\* q = <<ox, oy, oz, dx, dy, dz, t0n, t1n, td, zs, tw>>: the ray crosses box b within [t0n/td, t1n/td].
\* Decided for rays PARALLEL TO AN AXIS (one non-zero direction component: the normalised direction is
\* a unit vector, so distances along the ray are lattice distances): through (strictly inside the two
\* other slabs and a crossing of positive length) / outside / on a face (free).
RayBoxRef(q, b) ==
    LET nz == {a \in Axes : q[3 + a] # 0}
    IN IF Cardinality(nz) # 1 THEN "FREE"
       ELSE LET a == CHOOSE x \in nz : TRUE
                others == Axes \ {a}
                out == \E c \in others : q[c] < b.lo[c] \/ q[c] > b.hi[c]
                inn == \A c \in others : b.lo[c] < q[c] /\ q[c] < b.hi[c]
                e0 == IF q[3 + a] > 0 THEN b.lo[a] - q[a] ELSE q[a] - b.hi[a]
                e1 == IF q[3 + a] > 0 THEN b.hi[a] - q[a] ELSE q[a] - b.lo[a]
                m0 == Max2(e0 * q[9], q[7])
                m1 == Min2(e1 * q[9], q[8])
            IN IF out \/ m0 > m1 THEN "NOT" ELSE IF inn /\ m0 < m1 THEN "MUST" ELSE "FREE"
\* an answer s (sequence of element ids) respects the reference ref[e], e \in 1..n
RefAgrees(ref, s) == \A e \in DOMAIN ref : (ref[e] = "MUST" => e \in Range(s)) /\ (ref[e] = "NOT" => e \notin Range(s))

(* ------------------- implementation-shaped traversal ------------------- *)
\* ehit[e]: element e passes the element-level test; chit[c]: the bounds of
\* cell c pass the same test. Descend only into cells that pass.
RECURSIVE TravPruned(_, _, _, _)
TravPruned(cells, c, ehit, chit) ==
    IF ~chit[c] THEN <<>>
    ELSE SelectSeq(cells[c].el, LAMBDA e : ehit[e])
         \o FlattenSeq([k \in DOMAIN cells[c].ch |-> TravPruned(cells, cells[c].ch[k], ehit, chit)])
=============================================================================
