---------------------------- MODULE ParFieldGeom ----------------------------
(***************************************************************************)
(* C10 -- the GEOMETRY of field accumulation on a MarchingCanvas           *)
(* (modeling/marching/canvas.go: fieldBounds, chunkSectionsInRange, the    *)
(* clamped job ranges of AddField / AddFieldParallel / AddFieldParallel2)  *)
(* along ONE axis, and the contract of SEVERAL fields accumulated on ONE   *)
(* canvas.  Design check of the job decomposition and GENERATOR of axis    *)
(* scenarios for the replay binding (checks/parfam.py maps a model         *)
(* coordinate m to the real cell 100*(m \div S) + [0,1,50,99][m % S], so a *)
(* residue of the model is a residue class of the real block size: first   *)
(* cell, second cell, somewhere inside, last cell of a block).             *)
(*                                                                         *)
(* A field with canvas range [mn, mx) (mx exclusive) is cut into one job   *)
(* per block b \in Blk(mn) .. Blk(mx) -- the exclusive end is treated as a *)
(* cell, so when mx is an exact multiple of the block size the last job is *)
(* EMPTY -- with the cells [max(b*S, mn), min(b*S+S, mx)).  Every job      *)
(* registers (allocates, zero filled) its block and ADDS its samples to    *)
(* what the block already holds.  The marcher closes the cell [c, c+1]     *)
(* only when the blocks of c and of c+1 are both registered, so the SET of *)
(* registered blocks is observable, not only their contents.               *)
(*                                                                         *)
(* Contract (what AddField does, hence what every parallel variant must    *)
(* do), after fields r_1 .. r_k on one canvas:                             *)
(*   ContentOK  every cell holds the sum of the weights of the fields that *)
(*              cover it                                                   *)
(*   RegOK      registered = all blocks of all fields, empty jobs included *)
(*   MarchOK    the cells the marcher closes are those of the contract     *)
(* Two implementation shapes are refuted here at design level (they are    *)
(* the shape of the round-2 seeded changes; each needs its own dimension): *)
(*   SkipEmpty  a job without samples does not register its block:         *)
(*              refutes RegOK / MarchOK, needs mx % S = 0                  *)
(*   CopyFull   a job covering a complete block overwrites it instead of   *)
(*              adding: refutes ContentOK, needs an earlier field on the   *)
(*              same canvas                                                *)
(*                                                                         *)
(* As generator (ParFieldGeom.cfg): every history of 1..MaxFields ranges   *)
(* over -NegBlocks*S .. Hi is printed once with its classification:        *)
(*   {"f":[[mn,mx]..], "cls":[[mn % S, mx % S, #blocks]..],                *)
(*    "empty":[#empty jobs..], "full":[#full jobs..],                      *)
(*    "over":[#full jobs landing on a block that already holds samples..], *)
(*    "rel": relation of the last range to the first}                      *)
(***************************************************************************)
EXTENDS Integers, Sequences, FiniteSets, TLC, Json

CONSTANTS S,            \* block edge of the model (real canvas: 100)
          NegBlocks, Hi,\* canvas coordinates considered: -NegBlocks*S .. Hi
          MaxFields,
          SkipEmpty, CopyFull

VARIABLES hist, reg, val
vars == <<hist, reg, val>>

Lo == 0 - NegBlocks * S

Ranges == {r \in (Lo .. Hi) \X (Lo .. Hi) : r[1] < r[2]}        \* [mn, mx)
Blk(c) == c \div S                                              \* floor, also for c < 0
BlocksOf(r) == Blk(r[1]) .. Blk(r[2])
AllBlocks == Blk(Lo) .. Blk(Hi)
AllCells == (Blk(Lo) * S) .. (Blk(Hi) * S + S - 1)

JobLo(b, r) == IF b * S > r[1] THEN b * S ELSE r[1]
JobHi(b, r) == IF b * S + S < r[2] THEN b * S + S ELSE r[2]
JobCells(b, r) == JobLo(b, r) .. (JobHi(b, r) - 1)
EmptyJob(b, r) == JobLo(b, r) >= JobHi(b, r)
FullJob(b, r) == JobLo(b, r) = b * S /\ JobHi(b, r) = b * S + S
CellsOf(r) == r[1] .. (r[2] - 1)

Weight(k) == IF k = 1 THEN 1 ELSE IF k = 2 THEN 3 ELSE 9        \* sums identify who contributed

(* ---- the job decomposition itself (evaluated once) -------------------- *)
ASSUME JobsPartition ==
    \A r \in Ranges :
        /\ UNION {JobCells(b, r) : b \in BlocksOf(r)} = CellsOf(r)
        /\ \A b1, b2 \in BlocksOf(r) : b1 # b2 => JobCells(b1, r) \cap JobCells(b2, r) = {}
        /\ \A b \in BlocksOf(r) : JobCells(b, r) \subseteq (b * S) .. (b * S + S - 1)
        \* an empty job arises exactly when the end is a multiple of the block size, and it is the last job
        /\ (\E b \in BlocksOf(r) : EmptyJob(b, r)) <=> (r[2] % S = 0)
        /\ \A b \in BlocksOf(r) : EmptyJob(b, r) => b = Blk(r[2])

(* ---- accumulation on one canvas --------------------------------------- *)
Init == hist = <<>> /\ reg = {} /\ val = [c \in AllCells |-> 0]

AddField(r) ==
    /\ Len(hist) < MaxFields
    /\ LET k == Len(hist) + 1 IN
        /\ hist' = Append(hist, r)
        /\ reg' = reg \cup {b \in BlocksOf(r) : ~(SkipEmpty /\ EmptyJob(b, r))}
        /\ val' = [c \in AllCells |->
                    IF c \in CellsOf(r)
                    THEN IF CopyFull /\ FullJob(Blk(c), r) THEN Weight(k) ELSE val[c] + Weight(k)
                    ELSE val[c]]

Next == \E r \in Ranges : AddField(r)
Spec == Init /\ [][Next]_vars

(* ---- contract ---------------------------------------------------------- *)
Sum(f, D) == LET RECURSIVE Go(_)
                 Go(T) == IF T = {} THEN 0 ELSE LET x == CHOOSE x \in T : TRUE IN f[x] + Go(T \ {x})
             IN Go(D)
WantVal(c) == Sum([k \in DOMAIN hist |-> Weight(k)], {k \in DOMAIN hist : c \in CellsOf(hist[k])})
WantReg == UNION {BlocksOf(hist[k]) : k \in DOMAIN hist}
Closed(R) == {c \in AllCells : Blk(c) \in R /\ Blk(c + 1) \in R}

ContentOK == \A c \in AllCells : val[c] = WantVal(c)
RegOK == reg = WantReg
MarchOK == Closed(reg) = Closed(WantReg)

(* ---- generator output -------------------------------------------------- *)
HadSamples(b, k) == \E j \in 1 .. (k - 1) : b \in BlocksOf(hist[j]) /\ ~EmptyJob(b, hist[j])
Rel ==
    IF Len(hist) < 2 THEN "single"
    ELSE LET a == hist[1]
             z == hist[Len(hist)]
         IN IF a = z THEN "same"
            ELSE IF CellsOf(z) \subseteq CellsOf(a) THEN "inside"
            ELSE IF CellsOf(a) \subseteq CellsOf(z) THEN "covers"
            ELSE IF CellsOf(a) \cap CellsOf(z) # {} THEN "overlap"
            ELSE IF a[2] = z[1] \/ z[2] = a[1] THEN "touch"
            ELSE "apart"
Describe ==
    [f |-> hist,
     cls |-> [k \in DOMAIN hist |-> <<hist[k][1] % S, hist[k][2] % S, Cardinality(BlocksOf(hist[k]))>>],
     empty |-> [k \in DOMAIN hist |-> Cardinality({b \in BlocksOf(hist[k]) : EmptyJob(b, hist[k])})],
     full |-> [k \in DOMAIN hist |-> Cardinality({b \in BlocksOf(hist[k]) : FullJob(b, hist[k])})],
     over |-> [k \in DOMAIN hist |-> Cardinality({b \in BlocksOf(hist[k]) : FullJob(b, hist[k]) /\ HadSamples(b, k)})],
     rel |-> Rel]
Emit == hist = <<>> \/ PrintT(ToJson(Describe))
=============================================================================
