CONSTANTS NP = 2 NN = 3 Depth = 3 Vals = {1, 2}
SPECIFICATION Spec
INVARIANTS AcyclicInv CleanImpliesCone Emit
PROPERTY VersionMonotone
VIEW View
CHECK_DEADLOCK FALSE
