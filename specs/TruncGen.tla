----------------------------- MODULE TruncGen -----------------------------
(***************************************************************************)
(* Generator and design-level model for C14.                               *)
(*                                                                         *)
(* State: an abstract file gf (TruncFormats), a crash point gk.  Init     *)
(* enumerates every small file of every format (PLY in three encodings     *)
(* over several property lists, with and without a face element, texcoord  *)
(* lists, alternative list types, quads; binary STL; PTS with 3/4/7        *)
(* columns; .splat; SPZ versions 1/2, SH degrees 0..3, three gzip          *)
(* framings).  The crash action lets one more byte survive.                *)
(*                                                                         *)
(* Emit prints each file once (k = 0) as JSON; the Go reference encoders   *)
(* turn it into bytes and the real readers decode every cut point.         *)
(* All values are distinct and non-zero, so a zero-filled placeholder      *)
(* never coincides with real content (NonZero).                            *)
(*                                                                         *)
(* Design-level invariants on the specification itself, for every (f, k),  *)
(* on the nominal cell table (text cells get a nominal size):              *)
(*   TilesInv      the layout law tiles the stream; binary size laws hold  *)
(*   PrefixClosed  the cells wholly inside a prefix form a prefix of the   *)
(*                 cell sequence (no hole can be "wholly present")         *)
(*   StrictLaw     binary files: no strict prefix is complete; ASCII files *)
(*                 and header-only PLY: only the prefix lacking the final  *)
(*                 newline is                                              *)
(*   SplatLaw      the splat records wholly inside k bytes are k \div 32   *)
(*   FrameLaw      stored gzip framing: the block table obeys the law,     *)
(*                 Avail is monotone, <= k, reaches slen exactly when only *)
(*                 the 8 byte trailer is missing                           *)
(* int32 budget: all numbers below 2^16.                                   *)
(***************************************************************************)
EXTENDS TruncFormats, Json, TLC

CONSTANTS Encs, PropSets, NV, FaceKinds, StlN, PtsN, PtsCols, SplatN, SpzN, SpzVersions, SpzDegs, Frames

VARIABLES gf, gk, gc, gb   \* the abstract file, the crash point, (derived) cells and gzip blocks
vars == <<gf, gk, gc, gb>>

P(n, t) == [n |-> n, t |-> t]
PS(id) ==
    CASE id = 1 -> <<P("x", "float"), P("y", "float"), P("z", "float")>>
      [] id = 2 -> <<P("x", "float"), P("y", "float"), P("z", "float"), P("nx", "float"), P("ny", "float"),
                     P("nz", "float"), P("red", "uchar"), P("green", "uchar"), P("blue", "uchar")>>
      [] id = 3 -> <<P("x", "double"), P("y", "double"), P("z", "double"), P("s", "float"), P("t", "float"),
                     P("opacity", "float")>>
      [] id = 4 -> <<P("quality", "double"), P("x", "float"), P("y", "float"), P("z", "float"), P("cls", "int")>>

\* distinct non-zero values of one to three digits (<= 255 for 4 rows of 9)
Val(i, j, w) == 7 * ((i - 1) * w + j) + 3
Rows(n, w) == [i \in 1..n |-> [j \in 1..w |-> Val(i, j, w)]]

TriFace(t, nv, tex) == [idx |-> <<(t - 1) % nv, t % nv, (t + 1) % nv>>,
                        uv |-> IF tex THEN [c \in 1..6 |-> 10 * t + c] ELSE <<>>]
QuadFace(t, nv, tex) == [idx |-> <<0, 1 % nv, 2 % nv, 3 % nv>>,
                         uv |-> IF tex THEN [c \in 1..8 |-> 10 * t + c] ELSE <<>>]

Base == [fmt |-> "none", enc |-> "bin", cols |-> <<>>, rows |-> <<>>, hf |-> FALSE, ct |-> "uchar", it |-> "int",
         tex |-> FALSE, faces |-> <<>>, hdr |-> <<>>, frame |-> "none", blk |-> 0]

FaceFields(fk, nv) ==
    CASE fk = "none"   -> [hf |-> FALSE, ct |-> "uchar", it |-> "int", tex |-> FALSE, faces |-> <<>>]
      [] fk = "tri1"   -> [hf |-> TRUE, ct |-> "uchar", it |-> "int", tex |-> FALSE, faces |-> <<TriFace(1, nv, FALSE)>>]
      [] fk = "tri2"   -> [hf |-> TRUE, ct |-> "uchar", it |-> "int", tex |-> FALSE,
                           faces |-> <<TriFace(1, nv, FALSE), TriFace(2, nv, FALSE)>>]
      [] fk = "tri1uv" -> [hf |-> TRUE, ct |-> "uchar", it |-> "int", tex |-> TRUE, faces |-> <<TriFace(1, nv, TRUE)>>]
      [] fk = "tri2uv" -> [hf |-> TRUE, ct |-> "uchar", it |-> "int", tex |-> TRUE,
                           faces |-> <<TriFace(1, nv, TRUE), TriFace(2, nv, TRUE)>>]
      [] fk = "alt"    -> [hf |-> TRUE, ct |-> "int", it |-> "uint", tex |-> FALSE, faces |-> <<TriFace(1, nv, FALSE)>>]
      [] fk = "quad"   -> [hf |-> TRUE, ct |-> "uchar", it |-> "int", tex |-> FALSE,
                           faces |-> <<QuadFace(1, nv, FALSE), TriFace(2, nv, FALSE)>>]
      [] fk = "quaduv" -> [hf |-> TRUE, ct |-> "uchar", it |-> "int", tex |-> TRUE,
                           faces |-> <<TriFace(1, nv, TRUE), QuadFace(2, nv, TRUE)>>]

PlyFile(enc, ps, nv, fk) ==
    LET ff == FaceFields(fk, nv) IN
    [Base EXCEPT !.fmt = "ply", !.enc = enc, !.cols = PS(ps), !.rows = Rows(nv, Len(PS(ps))),
                 !.hf = ff.hf, !.ct = ff.ct, !.it = ff.it, !.tex = ff.tex, !.faces = ff.faces]
PlyFiles == {PlyFile(e, p, n, fk) : e \in Encs, p \in PropSets, n \in NV, fk \in FaceKinds}
            \cup {PlyFile(e, p, 0, "none") : e \in Encs, p \in PropSets}        \* header-only point clouds

StlFiles == {[Base EXCEPT !.fmt = "stl", !.rows = [t \in 1..n |-> [c \in 1..13 |-> IF c = 13 THEN 0 ELSE Val(t, c, 12)]]]
             : n \in StlN}
PtsFiles == {[Base EXCEPT !.fmt = "pts", !.enc = "ascii", !.rows = Rows(n, w)] : n \in PtsN, w \in PtsCols}
\* .splat: position, linear scale (>= 1, the reader takes its logarithm), rgb, alpha in 1..254, rotation bytes
SplatFiles == {[Base EXCEPT !.fmt = "splat", !.rows = [i \in 1..n |-> [j \in 1..14 |-> (Val(i, j, 14) % 254) + 1]]] : n \in SplatN}

FrameOf(fr) == CASE fr = "stored0" -> <<"stored", 0>> [] fr = "stored7" -> <<"stored", 7>> [] fr = "deflate" -> <<"deflate", 0>>
SpzFile(v, n, deg, fr) ==
    LET hdr == <<v, n, deg, 12>>
        total == SpzStreamLen(hdr) - 16
    IN [Base EXCEPT !.fmt = "spz", !.hdr = hdr, !.rows = <<[b \in 1..total |-> (37 * (b - 1) + 11) % 256]>>,
                    !.frame = FrameOf(fr)[1], !.blk = FrameOf(fr)[2]]
SpzFiles == {SpzFile(v, n, d, fr) : v \in SpzVersions, n \in SpzN, d \in SpzDegs, fr \in Frames}

AllFiles == PlyFiles \cup StlFiles \cup PtsFiles \cup SplatFiles \cup SpzFiles

\* ------------------------------------------------------------ machine ----
\* gc: the nominal cell table of gf, gb: its stored-framing block table (both
\* functions of gf, kept in the state so that TLC computes them once per file)
SLen == CellsLen(gc)
FLen == IF gf.frame = "stored" THEN StoredFileLen(gb) ELSE SLen

Init ==
    /\ gf \in AllFiles /\ gk = 0
    /\ gc = NominalCells(gf)
    /\ gb = IF gf.frame = "stored" THEN StoredBlocks(CellsLen(NominalCells(gf)), gf.blk) ELSE <<>>
Crash == gk < FLen /\ gk' = gk + 1 /\ UNCHANGED <<gf, gc, gb>>
Spec == Init /\ [][Crash]_vars

\* stream bytes available after gk file bytes
A == IF gf.frame = "stored" THEN StoredAvail(gb, gk) ELSE gk

Emit == gk # 0 \/ PrintT(ToJson(gf))

TilesInv == gk = 0 => (Tiles(gc, SLen) /\ SizeLaw(gf, SLen) /\ gc = NominalCells(gf))
PrefixClosed == LET w == Whole(gc, A) IN w = 1..Cardinality(w)
\* trailing framing exists only as the final newline of an ASCII file or of a
\* header-only PLY; everywhere else no strict prefix is complete
Trailing == SLen - ReqEnd(gc)
StrictLaw ==
    /\ Trailing = (IF gf.enc = "ascii" \/ (gf.fmt = "ply" /\ gf.rows = <<>> /\ gf.faces = <<>>) THEN 1 ELSE 0)
    /\ IF gf.frame = "stored" THEN Complete(gc, A) <=> gk >= FLen - 8
       ELSE Complete(gc, A) <=> gk >= SLen - Trailing
SplatLaw == gf.fmt = "splat" =>
    Cardinality({r \in DOMAIN gf.rows : End(gc[14 * r]) <= gk}) = gk \div 32
FrameLaw == gf.frame = "stored" =>
    /\ gk = 0 => StoredLaw(gb, SLen, FLen)
    /\ A <= gk /\ A <= SLen /\ (gk < FLen => A <= StoredAvail(gb, gk + 1))
    /\ (A = SLen) <=> (gk >= FLen - 8)
NonZero == (gk = 0 /\ PosKnown(gf)) => \A i \in DOMAIN ExpPos(gf) : \A c \in 1..3 : ExpPos(gf)[i][c] # 0
=============================================================================
