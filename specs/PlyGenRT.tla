------------------------------ MODULE PlyGenRT ------------------------------
(***************************************************************************)
(* Generator of C04 round-trip cases and design-level check of the writer  *)
(* layout rules.                                                           *)
(*                                                                         *)
(* A case is built in stages (so that -simulate can walk wide bounds):     *)
(*   shape  : topology, vertex count, primitive count                      *)
(*   idx    : one index at a time (every index list over the vertices:     *)
(*            welded, permuted, repeated, unreferenced vertices)           *)
(*   attrs  : attribute ids in ascending order (a subset of AttrIds)       *)
(*   opt    : one writer option set of OptTable                            *)
(* Values are a fixed injective function of (attribute, vertex, component) *)
(* on the lattice 1/D, chosen per STORED TYPE so that every type holds     *)
(* them: 8-bit values from UPool (k/255, dyadic fractions incl. the tie    *)
(* 1/2, and two values outside [0,1]), integers for int, j/64 otherwise.   *)
(*                                                                         *)
(* Model checked here (design level, on PlyWriter "fixed"):                *)
(*   ModelHeaderDescribesBody, ModelRoundTrip.                             *)
(* Emit prints each finished case once as JSON; field "risky" tells that   *)
(* the "pinned" variant of the writer model breaks RoundTrip on it.        *)
(***************************************************************************)
EXTENDS PlyWriter, Json

CONSTANTS ShapeIds,    \* subset of DOMAIN ShapeTable
          AttrIds,     \* subset of 1..10
          MaxAttrs,
          OptIds       \* subset of DOMAIN OptTable

D == 16320

\* [topo, nv, np, idx]; idx = <<>> : enumerate every index list of the right length
S(topo, nv, np, idx) == [topo |-> topo, nv |-> nv, np |-> np, idx |-> idx]
ShapeTable == <<
    S("point", 1, 1, <<>>), S("point", 2, 1, <<>>), S("point", 2, 2, <<>>), S("point", 3, 2, <<>>),      \* 1-4
    S("point", 3, 3, <<>>),                                                                            \* 5
    S("triangle", 3, 1, <<>>), S("triangle", 4, 1, <<>>),                                              \* 6-7
    S("triangle", 4, 2, <<0, 1, 2, 0, 2, 3>>), S("triangle", 4, 2, <<3, 1, 0, 1, 2, 0>>),              \* 8-9  welded quads
    S("point", 3, 2, <<2, 0>>), S("triangle", 6, 2, <<0, 1, 2, 3, 4, 5>>),                             \* 10-11
    S("triangle", 5, 2, <<4, 2, 0, 2, 4, 1>>), S("point", 4, 4, <<3, 2, 1, 0>>),                       \* 12-13
    S("triangle", 4, 2, <<>>), S("triangle", 6, 3, <<>>), S("point", 5, 4, <<>>),                      \* 14-16 wide
    S("triangle", 3, 0, <<>>), S("point", 2, 0, <<>>) >>                                               \* 17-18 no primitives
Shapes == {ShapeTable[i] : i \in ShapeIds}

AttrTable == <<
    [n |-> "Position", ar |-> 3], [n |-> "Normal", ar |-> 3], [n |-> "Color", ar |-> 3],
    [n |-> "TexCoord", ar |-> 2], [n |-> "FDC", ar |-> 3], [n |-> "Opacity", ar |-> 1],
    [n |-> "Scale", ar |-> 3], [n |-> "Rotation", ar |-> 4], [n |-> "Custom", ar |-> 1],
    [n |-> "Zeta", ar |-> 3] >>

W(ar, attr, names, t) == [ar |-> ar, attr |-> attr, names |-> names, t |-> t]

OptTable == <<
    [w |-> "default", unspec |-> TRUE, props |-> <<>>],
    [w |-> "custom", unspec |-> FALSE, props |-> DefaultProps],
    [w |-> "custom", unspec |-> TRUE, props |-> <<
        W(3, "Position", <<"x", "y", "z">>, "double"),
        W(3, "Normal", <<"normalx", "normaly", "normalz">>, "float"),
        W(3, "Color", <<"r", "g", "b">>, "float"),
        W(1, "Opacity", <<"opacity">>, "double"),
        W(1, "Custom", <<"Custom">>, "uchar") >>],
    [w |-> "custom", unspec |-> FALSE, props |-> <<
        W(1, "Custom", <<"Custom">>, "int"),
        W(3, "Color", <<"diffuse_red", "diffuse_green", "diffuse_blue">>, "uchar"),
        W(2, "TexCoord", <<"s", "t">>, "float"),
        W(3, "Position", <<"px", "py", "pz">>, "float"),
        W(3, "FDC", <<"f_dc_0", "f_dc_1", "f_dc_2">>, "double"),
        W(4, "Rotation", <<"rot_0", "rot_1", "rot_2", "rot_3">>, "double"),
        W(3, "Scale", <<"scale_0", "scale_1", "scale_2">>, "float") >>],
    [w |-> "custom", unspec |-> TRUE, props |-> <<
        W(3, "Color", <<"red", "green", "blue">>, "uchar"),
        W(2, "TexCoord", <<"s", "t">>, "double"),
        W(3, "Position", <<"posx", "posy", "posz">>, "int"),
        W(1, "Opacity", <<"opacity">>, "uchar") >>] >>

UPool == <<0, D, 64 * 51, 64 * 200, D \div 2, 255 * 16, 64, 64 * 254, 255 * 61, (D \div 4) * 5, 0 - (D \div 4)>>

\* the value of component c (1-based) of vertex v (0-based) of attribute aid when stored as type t
ValueFor(t, aid, v, c) ==
    CASE t = "uchar" -> UPool[((7 * v + 3 * c + aid) % Len(UPool)) + 1]
      [] t = "int" -> (((5 * v + 3 * c + aid) % 11) - 5) * D
      [] OTHER -> (((5 * v + 7 * c + 3 * aid) % 41) - 20) * 255 * (IF aid = 1 THEN 64 ELSE 1 + (aid % 3))

VARIABLES stage, shape, idx, attrs, opt
vars == <<stage, shape, idx, attrs, opt>>

NoShape == [topo |-> "none", nv |-> 0, np |-> 0, idx |-> <<>>]
IdxLen(s) == IF s.topo = "triangle" THEN 3 * s.np ELSE s.np

Init == stage = "shape" /\ shape = NoShape /\ idx = <<>> /\ attrs = <<>> /\ opt = 0

ChooseShape ==
    /\ stage = "shape"
    /\ \E s \in Shapes :
          /\ shape' = s
          /\ idx' = s.idx
          /\ stage' = IF Len(s.idx) = IdxLen(s) THEN "attrs" ELSE "idx"
    /\ UNCHANGED <<attrs, opt>>

AddIndex ==
    /\ stage = "idx"
    /\ \E v \in 0..(shape.nv - 1) :
          /\ idx' = Append(idx, v)
          /\ stage' = IF Len(idx) + 1 = IdxLen(shape) THEN "attrs" ELSE "idx"
    /\ UNCHANGED <<shape, attrs, opt>>

AddAttr ==
    /\ stage = "attrs" /\ Len(attrs) < MaxAttrs
    /\ \E a \in AttrIds :
          /\ IF attrs = <<>> THEN TRUE ELSE a > attrs[Len(attrs)]
          /\ attrs' = Append(attrs, a)
    /\ UNCHANGED <<stage, shape, idx, opt>>

AttrsDone ==
    /\ stage = "attrs" /\ attrs # <<>>
    /\ stage' = "opt"
    /\ UNCHANGED <<shape, idx, attrs, opt>>

\* an element without properties is outside the grammar: the options must write
\* at least one attribute as a vertex property
ChooseOpt ==
    /\ stage = "opt"
    /\ \E o \in OptIds :
          /\ Writers([topo |-> shape.topo, idx |-> idx,
                      attrs |-> [i \in DOMAIN attrs |-> [n |-> AttrTable[attrs[i]].n, ar |-> AttrTable[attrs[i]].ar]]],
                     OptTable[o], "fixed") # <<>>
          /\ opt' = o
    /\ stage' = "done"
    /\ UNCHANGED <<shape, idx, attrs>>

Next == ChooseShape \/ AddIndex \/ AddAttr \/ AttrsDone \/ ChooseOpt
Spec == Init /\ [][Next]_vars

(***************************************************************************)
(* the finished case                                                       *)
(***************************************************************************)
Opts == OptTable[opt]
SrcMesh ==
    [topo |-> shape.topo, idx |-> idx, exact |-> TRUE,
     attrs |-> [i \in DOMAIN attrs |->
                  LET a == AttrTable[attrs[i]] IN
                  [n |-> a.n, ar |-> a.ar,
                   data |-> [v \in 1..shape.nv |->
                               [c \in 1..a.ar |-> ValueFor(StoredType(shape, Opts, a.n, a.ar), attrs[i], v - 1, c)]]]]]

ModelFile(variant, fmt) == PlyWrite(SrcMesh, Opts, fmt, D, variant)
ModelOK(variant, fmt) ==
    LET f == ModelFile(variant, fmt) IN
    /\ WellFormedFile(f, "lat") /\ Denotable(f) /\ Representable(f, "lat", D)
    /\ RoundTrip(MeshOf(SrcMesh), Denote(f, "lat", D), Opts, "lat", D)

Done == stage = "done"

\* design level: the layout rules always produce a header that describes the body ...
ModelHeaderDescribesBody ==
    Done => LET f == ModelFile("fixed", "binary_little_endian") IN
            WellFormedFile(f, "lat") /\ Denotable(f) /\ Representable(f, "lat", D)
\* ... whose denotation is the source
ModelRoundTrip == Done => ModelOK("fixed", "binary_little_endian")

Risky == ~ModelOK("pinned", "binary_little_endian")

Emit == ~Done \/ PrintT(ToJson([kind |-> "rt", mode |-> "lat", D |-> D, mesh |-> SrcMesh, opts |-> Opts,
                                  optid |-> opt, risky |-> Risky]))

\* leaf-only emission for -simulate (same text, different name for the cfg)
EmitLeaf == Emit
=============================================================================
