------------------------------ MODULE HttpResp ------------------------------
(***************************************************************************)
(* C13 / X04 at the HTTP level - the RESPONSE WRITE PHASE of the edit       *)
(* server as part of the concurrent model.                                  *)
(*                                                                          *)
(* A producer response is not one event: the handler evaluates the          *)
(* artifact (graph.Instance.Artifact, atomic under producerLock) and then   *)
(* STREAMS it through a bufio.Writer of Cap chunks onto the request's       *)
(* ResponseWriter; every ResponseWriter.Write is a point at which the       *)
(* client (socket) decides when the call proceeds.  The scheduler of this   *)
(* model chooses which request's pending Write proceeds next.               *)
(*                                                                          *)
(* Design dimensions (constants):                                           *)
(*   SharedWriter  FALSE: one bufio.Writer per request (the code)           *)
(*                 TRUE : one writer kept by the server, Reset() onto the   *)
(*                        current ResponseWriter                            *)
(*   LockScope     "eval"   : only the evaluation is serialised             *)
(*                 "request": a request lock is held from the entry of the  *)
(*                            handler to its return, write phase included   *)
(*   Sizes         artifact sizes in chunks: below / at / above Cap and a   *)
(*                 multiple of it                                           *)
(* Contract (invariant Whole): every completed response body is the         *)
(* artifact of the state at the request's linearization point, complete and *)
(* unmixed; a body in flight is a prefix of it (NoForeign).                 *)
(* TLC: (SharedWriter, "eval") violates Whole; the other three satisfy it.  *)
(* The same machine is the GENERATOR of (programs, schedule) cases replayed *)
(* on the real mux through gated ResponseWriters (harness/httpfam/resp.go); *)
(* sched = the clients in the order in which the scheduler let them pass a  *)
(* gate (start of a request or a pending ResponseWriter.Write).             *)
(* Budget: all integers < 100.                                              *)
(***************************************************************************)
EXTENDS Integers, Sequences, FiniteSets, TLC, Json

CONSTANTS NC, MaxOps, SchedLen, SharedWriter, LockScope, Cap, Sizes, OpFilter

Clients == 1..NC
Prods == 1..2
Nil == [p |-> 0, v |-> 0, i |-> 0]

OpSet == {[op |-> "upd", p |-> 0, v |-> 2], [op |-> "upd", p |-> 0, v |-> 3],
          [op |-> "get", p |-> 1, v |-> 0], [op |-> "get", p |-> 2, v |-> 0],
          [op |-> "zip", p |-> 0, v |-> 0]}
Ops == IF OpFilter = "get" THEN {o \in OpSet : o.op \in {"get", "upd"}} ELSE OpSet

\* the byte-level ladder the harness pairs with the schedules: size = n*Unit + d bytes around the
\* buffer boundaries (Cap*Unit = 4096 = bufio's default), w = bytes per Write call of the artifact
Unit == 2048
Ladder == {[n |-> n, d |-> d, w |-> w] : n \in {1, 2, 4, 6, 10}, d \in {-16, 0, 16}, w \in {16, 1024, 2048, 4096, 6000}}

VARIABLES ver, lock, pc, cur, art, k, wr, pend, body, size, progs, resps, sched
vars == <<ver, lock, pc, cur, art, k, wr, pend, body, size, progs, resps, sched>>

NoOp == [op |-> "none", p |-> 0, v |-> 0]
W(c) == IF SharedWriter THEN 0 ELSE c
Chunks(p, v, n) == [i \in 1..n |-> [p |-> p, v |-> v, i |-> i]]
\* what the handler streams: one producer, or (zip) both producers one after the other
Stream(o, v) == IF o.op = "zip" THEN Chunks(1, v, size[1]) \o Chunks(2, v, size[2]) ELSE Chunks(o.p, v, size[o.p])

Init ==
    /\ ver = 1 /\ lock = 0
    /\ pc = [c \in Clients |-> "idle"] /\ cur = [c \in Clients |-> NoOp]
    /\ art = [c \in Clients |-> <<>>] /\ k = [c \in Clients |-> 0]
    /\ wr = [w \in 0..NC |-> [tgt |-> 0, n |-> 0, mem |-> [i \in 1..Cap |-> Nil]]]
    /\ pend = [c \in Clients |-> [tgt |-> 0, cnt |-> 0]]
    /\ body = [c \in Clients |-> <<>>]
    /\ size \in [Prods -> Sizes]
    /\ progs = [c \in Clients |-> <<>>] /\ resps = {} /\ sched = <<>>

Adv(c) == sched' = Append(sched, c)

Start(c, o) ==
    /\ pc[c] = "idle" /\ Len(progs[c]) < MaxOps
    /\ progs' = [progs EXCEPT ![c] = Append(@, o)] /\ cur' = [cur EXCEPT ![c] = o]
    /\ body' = [body EXCEPT ![c] = <<>>]
    /\ IF LockScope = "request"
       THEN IF lock = 0 THEN lock' = c /\ pc' = [pc EXCEPT ![c] = "eval"]
                        ELSE pc' = [pc EXCEPT ![c] = "wait"] /\ UNCHANGED lock
       ELSE pc' = [pc EXCEPT ![c] = "eval"] /\ UNCHANGED lock
    /\ UNCHANGED <<ver, art, k, wr, pend, size, resps>> /\ Adv(c)

Acquire(c) ==
    /\ pc[c] = "wait" /\ lock = 0
    /\ lock' = c /\ pc' = [pc EXCEPT ![c] = "eval"]
    /\ UNCHANGED <<ver, cur, art, k, wr, pend, body, size, progs, resps, sched>>

Finish(c) ==
    /\ pc' = [pc EXCEPT ![c] = "idle"]
    /\ lock' = IF lock = c THEN 0 ELSE lock

\* evaluation: atomic (producerLock / the parameter's own mutex); this is the linearization point
Eval(c) ==
    /\ pc[c] = "eval"
    /\ IF cur[c].op = "upd"
       THEN /\ ver' = cur[c].v /\ Finish(c)
            /\ resps' = resps \cup {[c |-> c, no |-> Len(progs[c]), op |-> cur[c], lin |-> cur[c].v, body |-> <<>>]}
            /\ UNCHANGED <<art, k, wr>>
       ELSE /\ art' = [art EXCEPT ![c] = [lin |-> ver, s |-> Stream(cur[c], ver)]]
            /\ k' = [k EXCEPT ![c] = 0]
            \* bufio.NewWriter(w) or Reset(w): the writer now targets this request, nothing buffered
            /\ wr' = [wr EXCEPT ![W(c)].tgt = c, ![W(c)].n = 0]
            /\ pc' = [pc EXCEPT ![c] = "put"]
            /\ UNCHANGED <<ver, lock, resps>>
    /\ UNCHANGED <<cur, pend, body, size, progs, sched>>

\* artifact.Write puts one chunk; a full buffer is flushed to the writer's CURRENT target first
Put(c) ==
    /\ pc[c] = "put" /\ k[c] < Len(art[c].s)
    /\ IF wr[W(c)].n = Cap
       THEN /\ pend' = [pend EXCEPT ![c] = [tgt |-> wr[W(c)].tgt, cnt |-> wr[W(c)].n]]
            /\ pc' = [pc EXCEPT ![c] = "gateP"]
            /\ UNCHANGED <<wr, k>>
       ELSE /\ wr' = [wr EXCEPT ![W(c)].mem[wr[W(c)].n + 1] = art[c].s[k[c] + 1], ![W(c)].n = @ + 1]
            /\ k' = [k EXCEPT ![c] = @ + 1]
            /\ UNCHANGED <<pend, pc>>
    /\ UNCHANGED <<ver, lock, cur, art, body, size, progs, resps, sched>>

EndPut(c) ==
    /\ pc[c] = "put" /\ k[c] = Len(art[c].s)
    /\ IF wr[W(c)].n = 0
       THEN /\ Finish(c) /\ UNCHANGED pend
            /\ resps' = resps \cup {[c |-> c, no |-> Len(progs[c]), op |-> cur[c], lin |-> art[c].lin, body |-> body[c]]}
       ELSE /\ pend' = [pend EXCEPT ![c] = [tgt |-> wr[W(c)].tgt, cnt |-> wr[W(c)].n]]
            /\ pc' = [pc EXCEPT ![c] = "gateF"]
            /\ UNCHANGED <<lock, resps>>
    /\ UNCHANGED <<ver, cur, art, k, wr, body, size, progs, sched>>

\* the scheduler lets c's pending ResponseWriter.Write proceed: the bytes that ARE in the buffer now
\* arrive at the ResponseWriter the call was made on; then the buffer counts as empty
Release(c) ==
    /\ pc[c] \in {"gateP", "gateF"}
    /\ LET t == pend[c].tgt
           data == [i \in 1..pend[c].cnt |-> wr[W(c)].mem[i]]
           nb == [body EXCEPT ![t] = @ \o data] IN
       /\ body' = nb
       /\ wr' = [wr EXCEPT ![W(c)].n = 0]
       /\ IF pc[c] = "gateP"
          THEN pc' = [pc EXCEPT ![c] = "put"] /\ UNCHANGED <<lock, resps>>
          ELSE /\ Finish(c)
               /\ resps' = resps \cup {[c |-> c, no |-> Len(progs[c]), op |-> cur[c], lin |-> art[c].lin, body |-> nb[c]]}
    /\ UNCHANGED <<ver, cur, art, k, pend, size, progs>> /\ Adv(c)

Next ==
    /\ Len(sched) < SchedLen
    /\ \/ \E c \in Clients, o \in Ops : Start(c, o)
       \/ \E c \in Clients : Acquire(c) \/ Eval(c) \/ Put(c) \/ EndPut(c) \/ Release(c)

Spec == Init /\ [][Next]_vars

\* ---- contract ----
Whole == \A r \in resps : r.op.op = "upd" \/ r.body = Stream(r.op, r.lin)
IsPrefix(s, t) == Len(s) <= Len(t) /\ \A i \in 1..Len(s) : s[i] = t[i]
NoForeign == \A c \in Clients : pc[c] \in {"put", "gateP", "gateF"} => IsPrefix(body[c], art[c].s)
MutualExclusion == LockScope = "request" => Cardinality({c \in Clients : pc[c] \notin {"idle", "wait"}}) <= 1

\* ---- generator output ----
Torn == ~Whole \/ ~NoForeign
Case == [progs |-> progs, sched |-> sched, size |-> size, torn |-> Torn]
EmitSched == Len(sched) < SchedLen \/ PrintT(ToJson(Case))
EmitTorn == ~Torn \/ PrintT(ToJson(Case))
StopWhenTorn == ~Torn
EmitLadder == Len(sched) > 0 \/ size # [p \in Prods |-> CHOOSE s \in Sizes : \A t \in Sizes : s <= t]
              \/ PrintT(ToJson([ladder |-> Ladder, unit |-> Unit]))
View == <<ver, lock, pc, cur, art, k, wr, pend, body, size, progs, resps, Len(sched)>>
=============================================================================
