CONSTANTS
  Depth = 7
  MaxMeshes = 4
  Pals = {1, 2, 3, 4, 5, 6}
SPECIFICATION Spec
INVARIANTS WriterDesign CleanDesign EmitLeaf
CHECK_DEADLOCK FALSE
