------------------------------- MODULE Solids -------------------------------
(***************************************************************************)
(* C18: what the solid primitives of modeling/primitives must be.          *)
(*                                                                         *)
(* A case c is  [prim, rows, cols, sides, d, uv, scale, chain, ..]         *)
(*   prim   "uvsphere" | "uvsphere_unwelded" | "cube_welded" |             *)
(*          "cube_quads" | "cylinder" | "hemisphere"                       *)
(*   d      dimensions in 1/16 units: sphere/hemisphere <<radius,0,0>>,    *)
(*          cube <<width,height,depth>>, cylinder <<radius,height,0>>      *)
(*   uv     UV option code: 0 = no UV struct, 1 = all strips/circles,      *)
(*          2..4 = some of them, 5 = empty struct ("with and without UV    *)
(*          options")                                                      *)
(*   scale  the projection logs position * scale rounded to integers       *)
(*   mag    <<base, exp>>, the MAGNITUDE of the tuple: the real dimension  *)
(*          i handed to the constructor is d[i]/16 * base^exp (base 2 or   *)
(*          10, exp negative or positive).  The statement puts no lower or *)
(*          upper bound on a size (only > 0) and every clause of the       *)
(*          contract is invariant under a uniform scaling of the solid, so *)
(*          the contract of <<d, mag>> is the contract of d on the mesh    *)
(*          scaled by base^-exp: the projection logs position * scale /    *)
(*          base^exp and merges coincident positions in those units; all   *)
(*          predicates below are evaluated unchanged, on exact integers.   *)
(*          A constructor that uses an ABSOLUTE length anywhere (a weld    *)
(*          tolerance, an epsilon) is not scale invariant and is rejected  *)
(*          at the magnitudes where that length matters (MagOK bounds the  *)
(*          ladder by what float64 represents without under/overflow of    *)
(*          squared lengths: 2^-200 .. 2^200, 10^-60 .. 10^60).            *)
(*                                                                         *)
(* Contract (evaluated by TraceSurf on the real mesh, positions merged     *)
(* into classes at 1e-6 by the projection):                                *)
(*   Admissible(c)  the parameters the constructors accept                 *)
(*   OnSurface      every position class lies on the analytic surface      *)
(*                  (sphere |p|^2 = R^2; cylinder rho^2 = R^2, y = +-H/2   *)
(*                  or a cap centre; box corners exactly; hemisphere on    *)
(*                  the upper half sphere or the centre of the flat face)  *)
(*   Ref6V(c)       6 * volume of THE polyhedron inscribed for the         *)
(*                  parameters, as an exact closed form:                   *)
(*                    box       6 W H D                                    *)
(*                    cylinder  3 n R^2 H sin(2 pi/n)      (n-gon prism)   *)
(*                    uv sphere C sin(2 pi/C) R^3 *                        *)
(*                       SUM_k (cos f_k - cos f_k+1)                       *)
(*                             (s_k^2 + s_k+1^2 + s_k s_k+1),              *)
(*                       f_k = k pi/rows, s_k = sin f_k  (stack of frusta  *)
(*                       of regular C-gons between the latitude rings)     *)
(*                  evaluated with BigNat fixed-point sines (error <       *)
(*                  2^-20 relative).  The hemisphere has no agreed closed  *)
(*                  form (its last ring is not at an equal latitude step)  *)
(*                  and is judged by bounds: pyramid <= V <= half ball.    *)
(*   Band6(c)       the tolerance of the volume comparison.  It is not a   *)
(*                  free parameter: the projection rounds every coordinate *)
(*                  to the nearest integer (displacement < 0.87 units), so *)
(*                  6V moves by less than 6 * Area; Area is bounded by the *)
(*                  analytic surface area with pi < 22/7.  With scaled     *)
(*                  radii around 10^4 this is about 4e-4 of the volume.    *)
(*                  The box is exact (band 0).                             *)
(*   Analytic6V(c)  6 * volume of the smooth solid (pi = 355/113)          *)
(*                                                                         *)
(* int32 budget: scaled dimensions <= 2^15 (full sizes), coordinates <=    *)
(* 2^14; every product beyond that is BigNat.                              *)
(***************************************************************************)
EXTENDS Surface

Spheres == {"uvsphere", "uvsphere_unwelded"}
Cubes == {"cube_welded", "cube_quads"}
Round == Spheres \cup {"hemisphere"}
Kinds == Round \cup Cubes \cup {"cylinder"}
HasClaimedNormals(prim) == prim \in {"uvsphere", "cube_welded", "cube_quads", "cylinder"}

\* UVSphere/Hemisphere panic below 2 rows / 3 columns; a prism needs 3 sides; sizes > 0
Admissible(c) ==
    /\ c.prim \in Kinds
    /\ c.uv \in 0..5
    /\ CASE c.prim \in Round -> c.rows >= 2 /\ c.cols >= 3 /\ c.d[1] > 0
         [] c.prim \in Cubes -> c.d[1] > 0 /\ c.d[2] > 0 /\ c.d[3] > 0
         [] OTHER -> c.sides >= 3 /\ c.d[1] > 0 /\ c.d[2] > 0

MagOK(m) == /\ m[1] \in {2, 10}
            /\ IF m[1] = 2 THEN m[2] \in -200..200 ELSE m[2] \in -60..60

\* largest power of two S with extent * S <= 16 * 2^14 (extent in 1/16 units)
RECURSIVE ScaleFrom(_, _)
ScaleFrom(ext, s) == IF ext * s * 2 <= 16 * CoordMax THEN ScaleFrom(ext, s * 2) ELSE s
Extent16(c) ==
    CASE c.prim \in Round -> c.d[1]
      [] c.prim \in Cubes -> (MaxI(c.d[1], MaxI(c.d[2], c.d[3])) + 1) \div 2
      [] OTHER -> MaxI(c.d[1], (c.d[2] + 1) \div 2)
ScaleOf(c) == ScaleFrom(Extent16(c), 1)

\* full scaled size of dimension i; the projection is exact when halves are integers too
Dim(c, i) == (c.d[i] * c.scale) \div 16
ScaleOK(c) == c.scale >= 32 /\ \A i \in 1..3 : (c.d[i] * c.scale) % 32 = 0 /\ Dim(c, i) <= 2 * CoordMax

(* ------------------------- on the surface ----------------------------- *)
Sq(x) == x * x
Near(x, y, band) == AbsI(x - y) <= band
OnSurface(c, p) ==
    LET R == Dim(c, 1)
    IN CASE c.prim \in Spheres -> Near(Sq(p[1]) + Sq(p[2]) + Sq(p[3]), Sq(R), 2 * R + 1)
         [] c.prim = "hemisphere" ->
               \/ p = <<0, 0, 0>>
               \/ p[2] >= 0 /\ Near(Sq(p[1]) + Sq(p[2]) + Sq(p[3]), Sq(R), 2 * R + 1)
         [] c.prim \in Cubes ->
               /\ 2 * AbsI(p[1]) = Dim(c, 1) /\ 2 * AbsI(p[2]) = Dim(c, 2) /\ 2 * AbsI(p[3]) = Dim(c, 3)
         [] OTHER ->
               /\ 2 * AbsI(p[2]) = Dim(c, 2)
               /\ (p[1] = 0 /\ p[3] = 0) \/ Near(Sq(p[1]) + Sq(p[3]), Sq(R), 2 * R + 1)

(* ------------------------- volumes ------------------------------------ *)
Cube3(R) == Mul(FromInt(R * R), FromInt(R))                 \* R^3, R <= 2^14
FixTimes(n, f) == ShiftR(Mul(n, f), 2)                      \* natural * fixed-point value

SinPi(p, q) == Sin(PiFrac(p, q))                            \* sin(pi p / q), 0 <= p <= q

RECURSIVE RowSum(_, _)
\* SUM_{k<j} 2 sin(pi(2k+1)/(2 rows)) sin(pi/(2 rows)) (s_k^2 + s_k+1^2 + s_k s_k+1), fixed point
RowSum(rows, j) ==
    IF j = 0 THEN <<>>
    ELSE LET k == j - 1
             a == SinPi(k, rows)
             b == SinPi(k + 1, rows)
             dcos == MulSmall(FixMul(SinPi(2 * k + 1, 2 * rows), SinPi(1, 2 * rows)), 2)
             quad == Add(Add(FixMul(a, a), FixMul(b, b)), FixMul(a, b))
         IN Add(RowSum(rows, k), FixMul(dcos, quad))

Ref6V(c) ==
    CASE c.prim \in Cubes -> Mul(Mul(FromInt(Dim(c, 1)), FromInt(Dim(c, 2))), FromInt(6 * Dim(c, 3)))
      [] c.prim = "cylinder" ->
            FixTimes(Mul(Mul(FromInt(3 * c.sides), FromInt(Sq(Dim(c, 1)))), FromInt(Dim(c, 2))), SinPi(2, c.sides))
      [] c.prim \in Spheres ->
            FixTimes(FixTimes(Mul(FromInt(c.cols), Cube3(Dim(c, 1))), SinPi(2, c.cols)), RowSum(c.rows, c.rows))
      [] OTHER -> <<>>

\* hemisphere: pyramid over the equator polygon <= V <= half ball
HemiLow6V(c) == FixTimes(Mul(FromInt(c.cols), Cube3(Dim(c, 1))), SinPi(2, c.cols))
PiTimes(n, k) == DivSmall(MulSmall(MulSmall(n, 355), k), 113)       \* k * pi * n
Analytic6V(c) ==
    CASE c.prim \in Spheres -> PiTimes(Cube3(Dim(c, 1)), 8)
      [] c.prim = "hemisphere" -> PiTimes(Cube3(Dim(c, 1)), 4)
      [] c.prim = "cylinder" -> PiTimes(Mul(FromInt(Sq(Dim(c, 1))), FromInt(Dim(c, 2))), 6)
      [] OTHER -> Ref6V(c)

\* 6 * (analytic surface area with pi < 22/7), plus the error of the fixed-point reference
Band6(c) ==
    LET R == Dim(c, 1)
        area7 ==    \* 7 * area bound / pi-factor
            CASE c.prim \in Spheres -> MulSmall(FromInt(Sq(R)), 88)
              [] c.prim = "hemisphere" -> MulSmall(FromInt(Sq(R)), 66)
              [] c.prim = "cylinder" -> MulSmall(FromInt(Sq(R) + R * Dim(c, 2)), 44)
              [] OTHER -> <<>>
    IN IF c.prim \in Cubes THEN <<>>
       ELSE Add(MulSmall(DivSmall(area7, 7), 6), Add(ShiftR(MulSmall(Analytic6V(c), 16), 2), <<64>>))

VolumeMatches(c, v6) ==     \* v6 : BigNat, 6 * volume of the real mesh
    IF c.prim = "hemisphere"
    THEN Leq(HemiLow6V(c), Add(v6, Band6(c))) /\ Leq(v6, Add(Analytic6V(c), Band6(c)))
    ELSE Leq(AbsDiff(v6, Ref6V(c)), Band6(c))

\* "approaching the analytic volume as resolution grows"
Deficit(c, v6) == IF Leq(v6, Analytic6V(c)) THEN Sub(Analytic6V(c), v6) ELSE <<>>
Counts(c) == IF c.prim = "cylinder" THEN <<c.sides, c.sides>> ELSE <<c.rows, c.cols>>
IsDoubling(prev, c) ==
    /\ prev.prim = c.prim /\ prev.d = c.d /\ prev.scale = c.scale
    /\ Counts(c)[1] = 2 * Counts(prev)[1] /\ Counts(c)[2] = 2 * Counts(prev)[2]
\* doubling every count at least halves the volume deficit (the true factor tends to 4)
Halves(prevDeficit, c, v6) == Leq(MulSmall(Deficit(c, v6), 2), Add(prevDeficit, Band6(c)))
\* from 32 x 32 on the solid is within 2 % of the smooth one
CloseWhenFine(c, v6) ==
    (Counts(c)[1] >= 32 /\ Counts(c)[2] >= 32) => Leq(MulSmall(Deficit(c, v6), 50), Analytic6V(c))
=============================================================================
