------------------------------- MODULE MtlGen -------------------------------
(***************************************************************************)
(* Generator of X03 "mw" / "sv" cases: every arrangement of at most Depth  *)
(* material ranges over at most MaxMeshes meshes, for every palette of     *)
(* materials.  A symbol of the arrangement is                              *)
(*   [e |-> TRUE]                        a mesh WITHOUT material ranges    *)
(*   [e |-> FALSE, slot, nm]             one more range using material     *)
(*                                       slot 0..3 (0 = nil material),     *)
(*                                       nm = TRUE: it starts a new mesh   *)
(* A palette binds slots 1..3 to material templates (one *Material each:   *)
(* ranges of the same slot share the pointer, also across meshes).  The    *)
(* palettes cover: plain distinct materials; two pointers with the same    *)
(* name and the same content; two pointers with the same name and          *)
(* different content; names with blanks / a tab / nothing but blanks / no  *)
(* name; a name that equals another one once blanks are removed; a         *)
(* material called like the default written for nil ranges; nil colours;   *)
(* channels at 0, 1, next to 0.5 and out of range; every colour type.      *)
(*                                                                         *)
(* Checked on the specification itself (models of MtlImpl):                *)
(*   WriterDesign    the repaired writer's library is valid and describes  *)
(*                   the source materials, except that materials whose     *)
(*                   names coincide as tokens stay Ambiguous (the format   *)
(*                   has one name space; open finding)                     *)
(*   CleanDesign     on palettes without such coincidences the repaired    *)
(*                   writer + reader satisfy the whole contract            *)
(* RiskyEmit prints the arrangements on which the PINNED algorithms break  *)
(* the contract on the model.                                              *)
(***************************************************************************)
EXTENDS MtlImpl, Json

CONSTANTS Depth,        \* number of symbols
          MaxMeshes,
          Pals          \* the palettes to enumerate (subset of 1..6)

VARIABLES pal, arr
vars == <<pal, arr>>

Q == 1024

T(name, nm, kd, ka, ks, ns, ni, tr, mapkd, mapks, norm) ==
    [name |-> name, nm |-> nm, kd |-> kd, ka |-> ka, ks |-> ks, ns |-> ns, ni |-> ni, tr |-> tr,
     mapkd |-> mapkd, mapks |-> mapks, norm |-> norm]

Red == T("red", <<114, 101, 100>>, <<1, 151, 4, 0>>, <<>>, <<>>, 102656, 1536, 256, <<"tex/a.png">>, <<>>, <<>>)
Blue == T("blue steel", <<98, 108, 117, 101, 32, 115, 116, 101, 101, 108>>, <<4, 0, 0, 255>>, <<2, 30000, 12345, 65535>>, <<3, 200, 0, 0>>,
          0, 0, 0, <<"my tex/wood grain.png">>, <<"s.png">>, <<"n 1.png">>)
Red2 == T("red", <<114, 101, 100>>, <<1, 10, 20, 30>>, <<>>, <<1, 255, 255, 255>>, 1024, 1024, 1024, <<>>, <<>>, <<>>)
Unnamed == T("", <<>>, <<1, 0, 0, 255>>, <<>>, <<>>, 0, 0, 0, <<>>, <<>>, <<>>)
BlueSteel == T("bluesteel", <<98, 108, 117, 101, 115, 116, 101, 101, 108>>, <<1, 1, 2, 3>>, <<>>, <<>>, 5120, 1024, 0, <<>>, <<>>, <<"n.png">>)
Dflt == T("DefaultDiffuse", <<68, 101, 102, 97, 117, 108, 116, 68, 105, 102, 102, 117, 115, 101>>, <<1, 9, 9, 9>>, <<>>, <<>>, 2048, 1024, 0, <<>>, <<>>, <<>>)
Bare == T("bare", <<98, 97, 114, 101>>, <<>>, <<>>, <<>>, 0, 0, 0, <<>>, <<>>, <<>>)
Edge == T("edge", <<101, 100, 103, 101>>, <<1, 0, 255, 127>>, <<1, 128, 1, 254>>, <<5, 0, 65535, 98302>>, 1, 10240, 1024, <<>>, <<"a/b/c.d.png">>, <<>>)
Tab == T("tab\tbed", <<116, 97, 98, 9, 98, 101, 100>>, <<3, 77, 0, 0>>, <<>>, <<>>, 3072, 0, 512, <<>>, <<>>, <<>>)
Spaces == T(" lead trail ", <<32, 108, 101, 97, 100, 32, 116, 114, 97, 105, 108, 32>>, <<2, 1, 65534, 32768>>, <<>>, <<>>, 0, 2048, 0, <<"x.png">>, <<>>, <<>>)
OnlyBlank == T(" ", <<32>>, <<1, 50, 60, 70>>, <<>>, <<>>, 0, 0, 0, <<>>, <<>>, <<>>)

Palettes == <<
    <<Red, Blue, Bare>>,            \* 1 plain
    <<Red, Red, Edge>>,             \* 2 two pointers, same name, same content; edge colours
    <<Red, Red2, Blue>>,            \* 3 same name, different content
    <<Unnamed, Blue, BlueSteel>>,   \* 4 no name; names that coincide once blanks are removed
    <<Dflt, Tab, Spaces>>,          \* 5 the default's name; a tab; leading / trailing blanks
    <<OnlyBlank, Edge, Bare>> >>    \* 6 a name of blanks only
\* palettes on which no two different materials coincide as tokens (slot 0 never clashes there)
CleanPals == {1, 2, 6}

Syms == {[e |-> TRUE, slot |-> 0, nm |-> TRUE]} \cup {[e |-> FALSE, slot |-> s, nm |-> b] : s \in 0..3, b \in BOOLEAN}
NMeshes(a) == Cardinality({k \in DOMAIN a : a[k].nm})
Allowed(a, s) ==
    /\ (a = <<>> \/ a[Len(a)].e) => s.nm
    /\ NMeshes(a) + (IF s.nm THEN 1 ELSE 0) <= MaxMeshes

N(k) == 1 + (k % 2)
AddSym(ms, k) ==
    LET s == arr[k] IN
    IF s.e THEN Append(ms, [ranges |-> <<>>, nt |-> 1])
    ELSE IF s.nm THEN Append(ms, [ranges |-> <<[n |-> N(k), slot |-> s.slot]>>, nt |-> N(k)])
    ELSE [ms EXCEPT ![Len(ms)] = [ranges |-> Append(@.ranges, [n |-> N(k), slot |-> s.slot]), nt |-> @.nt + N(k)]]
Shapes == FoldLeft(AddSym, <<>>, [k \in DOMAIN arr |-> k])
MeshNames == <<"a", "b b", "c", "d">>
\* a single mesh is generated twice: unnamed (the harness calls obj.Save / WriteMaterialsFromMesh) and
\* named "solo" (obj.SaveAll with one entry)
Meshes(solo) ==
    LET sh == Shapes IN
    [i \in DOMAIN sh |-> [name |-> IF Len(sh) = 1 THEN (IF solo THEN "solo" ELSE "") ELSE MeshNames[i],
                          ranges |-> sh[i].ranges, nt |-> sh[i].nt]]

\* the flattened ranges as the harness will project them (identity = slot)
Srcs == LET rs == SelectSeq(arr, LAMBDA s : ~s.e) IN
        [k \in DOMAIN rs |-> IF rs[k].slot = 0 THEN NilSrc ELSE SrcOf(Palettes[pal][rs[k].slot], rs[k].slot)]

Init == pal \in Pals /\ arr = <<>>
Next == /\ Len(arr) < Depth
        /\ \E s \in {x \in Syms : Allowed(arr, x)} : arr' = Append(arr, s)
        /\ UNCHANGED pal
Spec == Init /\ [][Next]_vars

(* ---------------- design-level properties (models) -------------------- *)
WriterDesign == WriterBad(Srcs, "fixed") \subseteq {"Ambiguous"}
CleanDesign == pal \in CleanPals => WriterBad(Srcs, "fixed") = {} /\ PipelineBad(Srcs, "fixed") = {}

(* ---------------- where "sv" cases save -------------------------------- *)
\* rel: path of the OBJ below the sandbox; pre: directories that exist before the call;
\* cwd: the call gets the relative path and the sandbox is the working directory
Pth(rel, pre, cwd) == [rel |-> rel, pre |-> pre, cwd |-> cwd]
Paths == <<
    Pth("model.obj", <<>>, FALSE),
    Pth("out/model.obj", <<>>, FALSE),                  \* one directory to create
    Pth("a/b/c/model.obj", <<>>, FALSE),                \* nested directories to create
    Pth("my model.obj", <<>>, FALSE),                   \* a blank in the file name
    Pth("model.v2.obj", <<>>, FALSE),                   \* two dots
    Pth("model", <<>>, FALSE),                          \* no extension
    Pth("dir.v1/model", <<>>, FALSE),                   \* a dot in the directory only
    Pth("rel/model.obj", <<>>, TRUE),                   \* relative to the working directory
    Pth("model.obj", <<>>, TRUE),                       \* directory part "."
    Pth("MODEL.OBJ", <<>>, FALSE),
    Pth("pre/existing/model.obj", <<"pre/existing">>, FALSE),
    Pth("sp ace/model.obj", <<>>, FALSE),               \* a blank in the directory only
    Pth("half/new/model.obj", <<"half">>, FALSE) >>
MinPal == CHOOSE p \in Pals : \A q \in Pals : p <= q
EmitPaths == arr # <<>> \/ pal # MinPal \/ PrintT(ToJson([paths |-> Paths]))

(* ---------------- generator output ------------------------------------ *)
Case(tag, solo) == [k |-> "mw", tag |-> tag, enc |-> "lat", q |-> Q, pal |-> pal, arr |-> arr,
                    slots |-> Palettes[pal], meshes |-> Meshes(solo)]
Both(tag) == PrintT(ToJson(Case(tag, FALSE))) /\ (Len(Shapes) # 1 \/ PrintT(ToJson(Case(tag, TRUE))))
Emit == arr = <<>> \/ Both("bfs")
EmitLeaf == Len(arr) < Depth \/ Both("sim")
RiskyEmit ==
    \/ arr = <<>>
    \/ (WriterBad(Srcs, "pinned") = {} /\ PipelineBad(Srcs, "pinned") = {})
    \/ PrintT(ToJson([risky |-> [pal |-> pal, arr |-> arr],
                      writer |-> WriterBad(Srcs, "pinned"), reader |-> PipelineBad(Srcs, "pinned")]))
=============================================================================
