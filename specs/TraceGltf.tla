----------------------------- MODULE TraceGltf -----------------------------
(***************************************************************************)
(* Trace validation for C06.  trace.ndjson has one line per (scene,        *)
(* container):                                                             *)
(*   {"k":"doc","c":case,"tag":..,"kind":"glb"|"text","src":{..},"out":{..}}*)
(* (kind "glb-again" / "text-again": the same scene OBJECTS had been written *)
(* once before; src is the scene as built, out the SECOND file)            *)
(* src = the scene the harness handed to gltf.WriteBinary / WriteText,     *)
(* out = what an independent reader found in the bytes that came back.     *)
(* The harness only executes and projects; every judgement is made here by *)
(* TLC evaluating the operators of GltfDoc.  Lines are independent (no     *)
(* model state besides the line counter), so any cut is a shard boundary.  *)
(*                                                                         *)
(* For every line TLC prints {"l":..,"bad":[..],"det":[..],"ex":[..]}:     *)
(*   bad = violated predicates ("C06.<Name>", or "Harness.<Name>" for an   *)
(*         inconsistency of the harness itself),                           *)
(*   det = discriminators used in signatures ("<Name>:<detail>"),          *)
(*   ex  = which antecedents were non-trivially true on this line          *)
(*         (vacuity accounting done by the orchestrator).                  *)
(* Predicates are evaluated in layers: a predicate that needs index        *)
(* references / byte ranges to be sound is only evaluated when the layer   *)
(* below holds, so a broken document is rejected, never a TLC error.       *)
(***************************************************************************)
EXTENDS GltfDoc, Json

Trace == ndJsonDeserialize("trace.ndjson")

VARIABLES l
vars == <<l>>

B(ok, name) == IF ok THEN {} ELSE {name}

(* ---------------- layer 4: contents of a structurally sound document --- *)
ModelBad(o, src, n, m) ==
    LET p == ThePrim(o, n)
        sm == src.meshes[m.mesh]
        cornersOK == NCorners(o, p) = sm.ni
        safe == cornersOK /\ IndexOK(o, p) /\ \A at \in Ran(p.attrs) : At0(o.accs, at.acc).count = VCount(o, p)
    IN  B(n.name = m.name, "C06.NodeName")
        \cup B(NodeTrsOK(n, m), "C06.NodeTRS")
        \cup B(p.mode = ModeOf(sm.topo), "C06.Topology")
        \cup B(AttrSetOK(p, sm), "C06.AttrSet")
        \cup B(Float1OK(p, sm), "C06.Float1Carried")
        \cup B(cornersOK, "C06.CornerCount")
        \cup (IF safe THEN B(AllAttrDataOK(o, p, sm), "C06.AttrData") ELSE {})
        \cup B(InstancesOK(o, n, m), "C06.Instances")
        \cup B(IF m.mat = 0 THEN p.mat = -1
               ELSE p.mat # -1 /\ MatDenotes(src, o, src.mats[m.mat], At0(o.mats, p.mat)), "C06.MaterialRef")

ModelDet(o, src, n, m) ==
    LET p == ThePrim(o, n) IN
    (IF m.mat # 0 /\ p.mat # -1 /\ ~MatDenotes(src, o, src.mats[m.mat], At0(o.mats, p.mat))
     THEN {"MaterialRef:" \o MatDiffPath(src, o, src.mats[m.mat], At0(o.mats, p.mat))} ELSE {})
    \cup (IF m.mat = 0 /\ p.mat # -1 THEN {"MaterialRef:invented"} ELSE {})
    \cup (IF m.mat # 0 /\ p.mat = -1 THEN {"MaterialRef:dropped"} ELSE {})
    \cup (IF ~Float1OK(p, src.meshes[m.mesh]) THEN {"Float1Carried:scalar-attribute-dropped"} ELSE {})

Contents(o, src) ==
    LET lv == Live(src)
        mn == MeshNodes(o)
        ln == LightNodes(o)
        shape == Len(mn) = Len(lv) /\ \A k \in DOMAIN mn : OnePrim(o, mn[k])
        lshape == Len(ln) = Len(src.lights)
    IN  [bad |->
            B(shape, "C06.Nodes") \cup B(lshape, "C06.LightNodes")
            \cup (IF shape THEN UNION {ModelBad(o, src, mn[k], lv[k]) : k \in DOMAIN lv}
                               \cup B(SharedMeshOK(o, src), "C06.SharedMesh")
                               \cup B(SharedMaterialOK(o, src), "C06.SharedMaterial")
                               \cup B(MaterialOnce(o, src), "C06.MaterialOnce")
                  ELSE {})
            \cup (IF lshape THEN B(\A k \in DOMAIN ln : LightOK(o, ln[k], src.lights[k]), "C06.Lights") ELSE {})
            \cup B(TextureOnce(o), "C06.TextureOnce")
            \cup B(NoOrphans(o), "C06.NoOrphans")
            \cup B(SourcesExact(src), "Harness.InexactSource")
            \cup B(\A sm \in Ran(src.meshes) : NnfConsistent(sm), "Harness.NonFiniteCount"),
         det |-> IF shape THEN UNION {ModelDet(o, src, mn[k], lv[k]) : k \in DOMAIN lv} ELSE {}]

(* ---------------- layers 1-3: structure -------------------------------- *)
Structure(o) ==
    LET l1 == B(ContainerOK(o), "C06.Container") \cup B(RefsOK(o), "C06.Refs") IN
    IF "C06.Refs" \in l1 \/ ~o.cont.jsonOK THEN [bad |-> l1, det |-> {}, sound |-> FALSE]
    ELSE
    LET l2 == l1 \cup B(BuffersOK(o), "C06.BufferPayload") \cup B(ViewsOK(o), "C06.ViewRange") IN
    IF "C06.ViewRange" \in l2 THEN [bad |-> l2, det |-> {}, sound |-> FALSE]
    ELSE
    LET l3 == l2 \cup B(AccRangesOK(o), "C06.AccessorRange") IN
    IF l3 \cap {"C06.AccessorRange", "C06.BufferPayload"} # {} THEN [bad |-> l3, det |-> {}, sound |-> FALSE]
    ELSE
    \* every byte every accessor names is present: the harness must have decoded all of them
    LET hz == B(\A a \in Ran(o.accs) : (a.view # -1 => a.dec) /\ SumConsistent(a), "Harness.Decode")
        mis == Misaligned(o)
        mm == IF hz = {} THEN {a \in Ran(o.accs) : ~MinMaxOK(a)} ELSE {}
        l4 == l3 \cup hz
              \cup B(mis = {}, "C06.Aligned")
              \cup B(mm = {}, "C06.MinMax")
              \cup B(PositionBounded(o), "C06.PositionBounds")
              \cup B(CountsOK(o), "C06.AttrCounts")
              \cup B(IndicesOK(o), "C06.IndexValues")
              \cup B(ExtDeclared(o), "C06.ExtDeclared")
    IN [bad |-> l4,
        det |-> {"Aligned:" \o MisalignCause(o, i) : i \in mis}
                \cup {"MinMax:" \o MinMaxCause(a) : a \in mm}
                \cup {IF p.attrs = <<>> THEN "IndexValues:primitive-without-attributes"
                       ELSE IF At0(o.accs, p.idx).dec /\ DecMax(At0(o.accs, p.idx), 1) = Restart(At0(o.accs, p.idx).comp)
                            THEN "IndexValues:primitive-restart-value"
                       ELSE "IndexValues:not-a-vertex" :
                       p \in {q \in AllPrims(o) : ~IndexOK(o, q)}},
        sound |-> hz = {}]

Judge(ln) ==
    LET o == ln.out  src == ln.src IN
    \* FAIL = the writer returned an error (no file): allowed only for a scene no glTF document
    \* can carry (NaN / +-Inf); PANIC and TIMEOUT never are
    IF o.status = "FAIL" /\ SrcNonFinite(src) THEN [bad |-> {}, det |-> {}]
    ELSE IF o.status # "OK" THEN [bad |-> {"C06.Written"}, det |-> {"Written:" \o o.status}]
    ELSE LET s == Structure(o) IN
         IF ~s.sound THEN [bad |-> s.bad, det |-> s.det]
         ELSE LET c == Contents(o, src) IN [bad |-> s.bad \cup c.bad, det |-> s.det \cup c.det]

(* ---------------- vacuity accounting ----------------------------------- *)
T(c, name) == IF c THEN {name} ELSE {}
\* per stored float accessor: which special values are physically in the payload
StoredTags(a) ==
    LET nc == NumComp(a.type)
        ty == IF nc = 2 THEN "vec2" ELSE IF nc = 3 THEN "vec3" ELSE IF nc = 4 THEN "vec4" ELSE "other"
        all == IF a.full THEN UNION {Ran(a.vals[i]) : i \in DOMAIN a.vals}
               ELSE UNION {{a.sum.min[c], a.sum.max[c]} : c \in {d \in 1..nc : a.sum.nan[d] < a.count}}
    IN  T(HasNaN(a), "nan-stored-" \o ty)
        \cup T(HasNaN(a) /\ ~a.full, "nan-stored-big")
        \cup T(HasNaN(a) /\ (a.hasMin \/ a.hasMax) /\ \E c \in 1..nc : ~HasVal(a, c), "minmax-all-nan-component")
        \cup T(HasNaN(a) /\ HasClean(a) /\ MinMaxOK(a) /\ a.hasMin, "minmax-with-nan-judged")
        \cup T(\E v \in all : v = PosInf \/ v = NegInf, "inf-stored")
        \cup T(-2147483647 - 1 \in all, "negative-zero-stored")
        \cup T(\E v \in all : (v > 0 /\ v < 8388608) \/ (v < -2139095040 /\ v > -2147483647 - 1), "subnormal-stored")
        \cup T(2139095039 \in all \/ -8388609 \in all, "max-float32-stored")

Exercised(ln) ==
    LET o == ln.out  src == ln.src  lv == Live(src) IN
    T(TRUE, ln.kind)
    \cup T(Len(lv) >= 2, "multi-model")
    \cup T(Len(lv) < Len(src.models), "empty-model-skipped")
    \cup T(\E i, j \in DOMAIN lv : i < j /\ lv[i].mesh = lv[j].mesh, "mesh-pointer-shared")
    \cup T(\E i, j \in DOMAIN lv : i < j /\ lv[i].mesh = lv[j].mesh /\ ~SMatEq(src, lv[i].mat, lv[j].mat), "mesh-shared-other-material")
    \cup T(\E i, j \in DOMAIN lv : i < j /\ lv[i].mat # 0 /\ lv[i].mat = lv[j].mat, "material-pointer-shared")
    \cup T(\E i, j \in DOMAIN lv : i < j /\ lv[i].mat # lv[j].mat /\ lv[i].mat # 0 /\ SMatEq(src, lv[i].mat, lv[j].mat), "material-value-duplicate")
    \cup T(\E i, j \in DOMAIN lv : i < j /\ lv[i].mat # 0 /\ lv[j].mat # 0 /\ ~SMatEq(src, lv[i].mat, lv[j].mat), "materials-distinct")
    \cup T(\E i, j \in DOMAIN src.texs : i < j /\ STexDen(src, i) = STexDen(src, j), "texture-value-duplicate")
    \cup T(o.status = "OK" /\ Len(src.texs) > Len(o.texs), "texture-collapsed")
    \cup T(\E m \in Ran(src.mats) : \E lf \in Ran(m.leaves) : lf.k = 1, "textured-material")
    \cup T(\E m \in Ran(lv) : m.inst # <<>>, "instances")
    \cup T(src.lights # <<>>, "lights")
    \cup T(\E m \in Ran(lv) : m.trs.t # <<>> \/ m.trs.r # <<>> \/ m.trs.s # <<>>, "trs")
    \cup T(\E m \in Ran(lv) : src.meshes[m.mesh].topo = "point", "point-topology")
    \cup T(\E m \in Ran(lv) : src.meshes[m.mesh].topo = "triangle", "triangle-topology")
    \cup T(\E m \in Ran(lv) : src.meshes[m.mesh].f1 # <<>>, "scalar-attribute")
    \cup T(\E m \in Ran(lv) : \E a \in Ran(src.meshes[m.mesh].attrs) : a.name = "Joint", "joint-bytes")
    \cup T(\E m \in Ran(lv) : \E a \in Ran(src.meshes[m.mesh].attrs) : IsCustom(a.name), "custom-attribute")
    \cup T(\E m \in Ran(lv) : src.meshes[m.mesh].big, "big-mesh")
    \cup T(\E m \in Ran(lv) : src.meshes[m.mesh].nv = 65535, "nv=65535")
    \cup T(\E m \in Ran(lv) : src.meshes[m.mesh].nv = 65536, "nv=65536")
    \cup T(\E m \in Ran(lv) : src.meshes[m.mesh].imax # src.meshes[m.mesh].ni - 1 \/ src.meshes[m.mesh].imin # 0, "non-identity-indices")
    \cup T(\E a \in Ran(o.accs) : a.hasMin /\ a.dec, "minmax-declared")
    \cup T(\E a \in Ran(o.accs) : a.hasMin /\ ~a.mmExact, "minmax-not-float32-representable")
    \cup T(\E a \in Ran(o.accs) : a.comp = 5123, "index-u16")
    \cup T(\E a \in Ran(o.accs) : a.comp = 5125, "index-u32")
    \cup T(\E a \in Ran(o.accs) : a.comp = 5121, "ubyte-accessor")
    \cup T(o.extSeen # <<>>, "extension-in-use")
    \cup T(\E x \in Ran(o.extSeen) : x \notin {"EXT_mesh_gpu_instancing", "KHR_lights_punctual", "KHR_texture_transform"}, "material-extension")
    \cup T("KHR_texture_transform" \in Ran(o.extSeen), "texture-transform")
    \cup T(o.extReq # <<>>, "extension-required")
    \cup T(\E v \in Ran(o.views) : v.target = 34963 /\ v.len % 4 = 2, "odd-u16-index-view")
    \cup T(o.cont.kind = "glb" /\ o.cont.binLen # -1 /\ o.buffers # <<>> /\ o.buffers[1].payload > o.buffers[1].len, "bin-chunk-padded")
    \cup T(o.status = "OK" /\ o.buffers = <<>>, "no-buffer")
    \cup T(o.status = "OK" /\ RefsOK(o) /\ \E p \in AllPrims(o) : ~Narrowest(o, p), "index-width-not-narrowest")
    \* special IEEE values (Round 2): what was handed in, what was refused, what was stored and judged
    \cup T(SrcNonFinite(src), "nonfinite-source")
    \cup T(o.status = "FAIL" /\ SrcNonFinite(src), "nonfinite-refused")
    \cup T(o.status = "OK" /\ SrcNonFinite(src), "nonfinite-written")
    \cup UNION {StoredTags(a) : a \in {x \in Ran(o.accs) : IsFloat(x) /\ x.dec}}

Init == l = 1

Step ==
    /\ l <= Len(Trace) /\ Trace[l].k = "doc"
    /\ LET j == Judge(Trace[l]) IN
          PrintT(ToJson([l |-> l, bad |-> j.bad, det |-> j.det, ex |-> Exercised(Trace[l])]))
    /\ l' = l + 1

Next == Step
Spec == Init /\ [][Next]_vars

\* every line was consumed (one state per line plus the initial state)
TraceAccepted == TLCGet("stats").diameter - 1 = Len(Trace)
=============================================================================
