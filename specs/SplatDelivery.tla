--------------------------- MODULE SplatDelivery ---------------------------
(***************************************************************************)
(* Design-level model of reading the planar SPZ arrays from an io.Reader   *)
(* (C15, delivery dimension).                                              *)
(*                                                                         *)
(* The io.Reader contract lets a Read return fewer bytes than asked for    *)
(* without an error.  A delivery of granularity g hands the stream out in  *)
(* pieces that end at every multiple of g (the inflate window of 32768     *)
(* bytes, a 4096 byte buffer, a socket, ...): a single Read that starts at *)
(* offset o gets at most  g - (o % g)  bytes.  The decoder reads the       *)
(* arrays of the layout one after the other; per array it either           *)
(*   Design = "full"  repeats Read until the array is complete (ReadFull), *)
(*   Design = "once"  issues one Read and takes what it got.               *)
(*                                                                         *)
(* A state is one stream (header) under one delivery, the array being read *)
(* and how many bytes of every array were really filled.                   *)
(*                                                                         *)
(*   Whole        when the decoder is done every array was filled wholly   *)
(*                and the whole stream was consumed: the same stream       *)
(*                denotes the same cloud under every delivery.  Holds for  *)
(*                "full"; TLC gives the counterexample for "once".         *)
(*   LadderHits   the size ladder of SplatFormat is effective: for a       *)
(*                stream whose point count is LadderCount(v, deg, a, g)    *)
(*                the design "once" fills array a only partly (so a real   *)
(*                decoder of that design is caught by that stream);        *)
(*   LadderClean  for g >= 256 the ladder count makes a the first cut array*)
(*   SplitExact   "once" fills an array partly exactly if a boundary of    *)
(*                the delivery falls strictly inside it or the array       *)
(*                starts off an earlier miss (Split is the right notion).  *)
(* int32 budget: offsets below 64 * 32768 + 2^20.                          *)
(***************************************************************************)
EXTENDS SplatFormat, TLC

CONSTANTS Design, Versions, Degrees, Grans, SmallCounts

VARIABLES hdr, g, la, k, off, got
vars == <<hdr, g, la, k, off, got>>

Want(h, a) == ArrHi(h, a) - ArrLo(h, a)

Cases ==
    {<<<<v, n, d, 0>>, gr, "">> : v \in Versions, n \in SmallCounts, d \in Degrees, gr \in Grans}
    \cup {<<<<v, LadderCount(v, d, Arrays[a], gr), d, 0>>, gr, Arrays[a]>> :
            v \in Versions, d \in Degrees, a \in 1..6, gr \in Grans}

Init ==
    /\ \E c \in {x \in Cases : x[1][2] > 0 \/ x[3] = ""} : hdr = c[1] /\ g = c[2] /\ la = c[3]
    /\ k = 1
    /\ off = HdrLen                   \* the header was read (ReadFull of 16 bytes)
    /\ got = <<>>

\* one array: what a single Read can return, what the decoder settles for
ReadArray ==
    /\ k <= 6
    /\ LET want == Want(hdr, Arrays[k])
           piece == g - (off % g)
           n == IF Design = "full" \/ want <= piece THEN want ELSE piece
       IN /\ got' = Append(got, n)
          /\ off' = off + n
    /\ k' = k + 1
    /\ UNCHANGED <<hdr, g, la>>

Next == ReadArray
Spec == Init /\ [][Next]_vars

Done == k = 7
Whole == Done => /\ \A i \in 1..6 : got[i] = Want(hdr, Arrays[i])
                 /\ off = HdrLen + PayloadLen(hdr)

Idx(a) == CHOOSE i \in 1..6 : Arrays[i] = a
LadderHits == (Done /\ Design = "once" /\ la # "" /\ FirstSplit(hdr, g) = la) => got[Idx(la)] < Want(hdr, la)
\* for the granularities of real buffers the ladder always finds a count whose first cut array is the wanted one
LadderClean == (la # "" /\ g >= 256) => FirstSplit(hdr, g) = la

\* first array that "once" fills only partly is the first array the delivery splits
SplitExact ==
    (Done /\ Design = "once") =>
        LET part == {i \in 1..6 : got[i] < Want(hdr, Arrays[i])}
            split == {i \in 1..6 : Split(hdr, Arrays[i], g)}
        IN (part = {}) = (split = {})
           /\ (part # {} => (CHOOSE i \in part : \A j \in part : i <= j) = (CHOOSE i \in split : \A j \in split : i <= j))
=============================================================================
