\* repaired design: offsets re-aligned before every view, value equality of materials -- every design property holds
CONSTANTS
  MeshIds = {1, 2, 3, 4, 5, 6, 9}
  MatIds = {0, 1, 2, 3, 4, 5, 6, 8, 11}
  InstCounts = {0, 1}
  TrsKinds = {0}
  MaxModels = 2
  MaxLights = 1
  Pad = TRUE
  DeepEq = TRUE
SPECIFICATION Spec
INVARIANTS L2All L2Aligned L2MatRef L2MatOnce
CHECK_DEADLOCK FALSE
