--------------------------- MODULE SpatialIndexMC ---------------------------
(***************************************************************************)
(* C16, design level: an implementation-shaped (L2) model of polyform's    *)
(* OctTree in Dim dimensions on a small lattice, checked by TLC.           *)
(*                                                                         *)
(*  build   newOctree: bounds = union of the element bounds; every element *)
(*          goes to the orthant of its corner that is farther from the     *)
(*          centre; recursion until the depth budget is used, a cell holds *)
(*          one element, or (collapse) only one orthant is occupied.       *)
(*          One action Split per recursive call.                           *)
(*  built   all set-valued queries are evaluated by the pruned recursive   *)
(*          descent (SpatialIndex!TravPruned) with the three tests of the  *)
(*          code: bounds contain a point (root not tested), bounds within  *)
(*          a radius, an axis-parallel ray segment crosses the bounds.     *)
(*  search  ClosestPoint: the best-first machine with a priority queue of  *)
(*          cells (key: squared distance to the cell bounds) and elements  *)
(*          (key: squared distance to the element); Pop takes ANY minimal  *)
(*          entry, so every tie-break of the real heap is covered.         *)
(*                                                                         *)
(* Checked:                                                                *)
(*   SoundInv      TreeSound in every state of the construction            *)
(*   AgreeInv      built => every set query = exhaustive scan, no dups     *)
(*   CoverInv      search => every element is in the queue or below a      *)
(*                 queued cell whose key is not larger than its distance   *)
(*   AnswerInv     done => the answer is an element at minimal distance    *)
(*   IffInv        built => (TreeSound <=> all set queries agree): on the  *)
(*                 trees of a broken construction, unsoundness is always   *)
(*                 visible to some query of the enumerated set             *)
(* Variant selects the construction/search: "code" (as implemented), and   *)
(* three realistic defects that TLC must refute (the model has teeth):     *)
(*   "octantBounds"  child bounds = geometric orthant of the parent        *)
(*   "centerKey"     queue key of a cell = distance to its centre          *)
(*   "sharedLoopVar" all element entries pushed for one cell carry the     *)
(*                   identity of the cell's last element (the defect of    *)
(*                   the pinned tree: &element of a go 1.21 range loop)    *)
(* Elements are boxes with even coordinates (centres stay integral at      *)
(* depth 1); all arithmetic is on small integers (int32 budget: < 10^4).   *)
(***************************************************************************)
EXTENDS SpatialIndex, TLC

CONSTANTS Dim, MaxC, MaxNPoint, MaxNBox, MaxDepth, Variant, QStep

VARIABLES phase, eb, budget, cells, todo, q, pq, ans
vars == <<phase, eb, budget, cells, todo, q, pq, ans>>

D == 1..Dim
Coord == {2 * i : i \in 0..MaxC}
Pts == [D -> Coord]
PointBoxes == {[lo |-> p, hi |-> p] : p \in Pts}
AllBoxes == {bx \in [lo : Pts, hi : Pts] : \A d \in D : bx.lo[d] <= bx.hi[d]}
N == Len(eb)

(* ----------------------------- geometry -------------------------------- *)
Lo(S, d) == Min({eb[e].lo[d] : e \in S})
Hi(S, d) == Max({eb[e].hi[d] : e \in S})
Union(S) == [lo |-> [d \in D |-> Lo(S, d)], hi |-> [d \in D |-> Hi(S, d)]]

Sq(x) == x * x
\* squared distance from point p to box b (0 inside)
D2Box(p, b) == LET gap(d) == IF p[d] < b.lo[d] THEN b.lo[d] - p[d]
                             ELSE IF p[d] > b.hi[d] THEN p[d] - b.hi[d] ELSE 0
               IN Sq(gap(1)) + (IF Dim >= 2 THEN Sq(gap(2)) ELSE 0) + (IF Dim >= 3 THEN Sq(gap(3)) ELSE 0)
\* 4 * squared distance between twice-scaled points
D2Pt2(a2, b2) == Sq(a2[1] - b2[1]) + (IF Dim >= 2 THEN Sq(a2[2] - b2[2]) ELSE 0) + (IF Dim >= 3 THEN Sq(a2[3] - b2[3]) ELSE 0)

\* orthant of element e in a cell with box b: the corner farther from the centre decides
Orthant(e, b) ==
    LET c2 == [d \in D |-> b.lo[d] + b.hi[d]]
        lo2 == [d \in D |-> 2 * eb[e].lo[d]]
        hi2 == [d \in D |-> 2 * eb[e].hi[d]]
        corner2 == IF D2Pt2(c2, lo2) > D2Pt2(c2, hi2) THEN lo2 ELSE hi2
    IN [d \in D |-> corner2[d] < c2[d]]

\* geometric orthant box of b (the "octantBounds" defect); centres are integral for the depths used
OrthantBox(b, o) ==
    [lo |-> [d \in D |-> IF o[d] THEN b.lo[d] ELSE (b.lo[d] + b.hi[d]) \div 2],
     hi |-> [d \in D |-> IF o[d] THEN (b.lo[d] + b.hi[d]) \div 2 ELSE b.hi[d]]]

(* --------------------------- construction ------------------------------ *)
Leaf(S, bx) == [lo |-> bx.lo, hi |-> bx.hi, el |-> S, ch |-> <<>>]

Init ==
    /\ phase = "build"
    /\ \E n \in 1..(IF MaxNPoint > MaxNBox THEN MaxNPoint ELSE MaxNBox) :
         eb \in [1..n -> IF n <= MaxNBox THEN AllBoxes ELSE PointBoxes]
    /\ budget \in 0..MaxDepth
    /\ cells = <<Leaf([i \in 1..Len(eb) |-> i], Union(1..Len(eb)))>>
    /\ todo = IF Len(eb) >= 2 /\ budget >= 1 THEN {<<1, budget>>} ELSE {}
    /\ q = <<>> /\ pq = {} /\ ans = 0

\* one recursive call of newOctree on cell c with d levels left
Split ==
    /\ phase = "build"
    /\ \E t \in todo :
         LET c == t[1]
             d == t[2]
             E == cells[c].el
             bx == BoxOf(cells[c])
             occupied == {Orthant(E[i], bx) : i \in DOMAIN E}
             group(o) == SelectSeq(E, LAMBDA e : Orthant(e, bx) = o)
             order == SetToSeq(occupied)
             base == Len(cells)
             child(k) == LET S == group(order[k])
                         IN Leaf(S, IF Variant = "octantBounds" THEN OrthantBox(bx, order[k]) ELSE Union(Range(S)))
         IN IF Cardinality(occupied) = 1
            THEN \* the node would only be a proxy for its single child: the child takes its place
                 /\ cells' = cells
                 /\ todo' = (todo \ {t}) \cup (IF d - 1 >= 1 THEN {<<c, d - 1>>} ELSE {})
            ELSE /\ cells' = [cells EXCEPT ![c].el = <<>>, ![c].ch = [k \in DOMAIN order |-> base + k]]
                              \o [k \in DOMAIN order |-> child(k)]
                 /\ todo' = (todo \ {t}) \cup {<<base + k, d - 1>> : k \in {j \in DOMAIN order : Len(group(order[j])) >= 2 /\ d - 1 >= 1}}
    /\ UNCHANGED <<phase, eb, budget, q, pq, ans>>

Built ==
    /\ phase = "build" /\ todo = {}
    /\ phase' = "built"
    /\ UNCHANGED <<eb, budget, cells, todo, q, pq, ans>>

(* ---------------------------- set queries ------------------------------ *)
QCoord == {x \in -1..(2 * MaxC + 1) : (x + 1) % QStep = 0}
QPts == [D -> QCoord]
Radii2 == {0, 1, 4, 8}

AllE == [e \in 1..N |-> TRUE]
Exhaustive(ehit) == {e \in 1..N : ehit[e]}
AgreesWith(res, ehit) == NoDup(res) /\ Range(res) = Exhaustive(ehit)

ContainOK(p) ==
    LET ehit == [e \in 1..N |-> PtIn(p, eb[e])]
        chit == [c \in DOMAIN cells |-> c = 1 \/ PtIn(p, BoxOf(cells[c]))]
    IN AgreesWith(TravPruned(cells, 1, ehit, chit), ehit)

RangeOK(p, r2) ==
    LET ehit == [e \in 1..N |-> D2Box(p, eb[e]) <= r2]
        chit == [c \in DOMAIN cells |-> D2Box(p, BoxOf(cells[c])) <= r2]
    IN AgreesWith(TravPruned(cells, 1, ehit, chit), ehit)

\* the segment o + [t0,t1] * dir along axis a meets box b
SegMeets(o, a, sgn, t0, t1, b) ==
    /\ \A d \in D \ {a} : b.lo[d] <= o[d] /\ o[d] <= b.hi[d]
    /\ LET x0 == o[a] + sgn * t0
           x1 == o[a] + sgn * t1
           lo == IF x0 < x1 THEN x0 ELSE x1
           hi == IF x0 < x1 THEN x1 ELSE x0
       IN lo <= b.hi[a] /\ b.lo[a] <= hi

RayOK(o, a, sgn, t0, t1) ==
    LET ehit == [e \in 1..N |-> SegMeets(o, a, sgn, t0, t1, eb[e])]
        chit == [c \in DOMAIN cells |-> SegMeets(o, a, sgn, t0, t1, BoxOf(cells[c]))]
    IN AgreesWith(TravPruned(cells, 1, ehit, chit), ehit)

SetQueriesAgree ==
    /\ \A p \in QPts : ContainOK(p)
    /\ \A p \in QPts : \A r2 \in Radii2 : RangeOK(p, r2)
    /\ \A o \in QPts : \A a \in D : \A sgn \in {-1, 1} : \A tt \in {<<0, 2 * MaxC + 3>>, <<1, 2>>} :
          RayOK(o, a, sgn, tt[1], tt[2])

(* ------------------------- best-first search --------------------------- *)
ElemD2(p, e) == D2Box(p, eb[e])
CellKey(p, c) ==
    IF Variant = "centerKey"
    THEN D2Pt2([d \in D |-> 2 * p[d]], [d \in D |-> cells[c].lo[d] + cells[c].hi[d]]) \div 4
    ELSE D2Box(p, BoxOf(cells[c]))

StartClosest ==
    /\ phase = "built"
    /\ \E p \in QPts :
         /\ q' = p
         /\ pq' = {[d |-> CellKey(p, 1), cell |-> 1, elem |-> 0]}
    /\ phase' = "search"
    /\ UNCHANGED <<eb, budget, cells, todo, ans>>

Pop ==
    /\ phase = "search"
    /\ \E it \in pq :
         /\ \A other \in pq : it.d <= other.d
         /\ IF it.elem # 0
            THEN /\ ans' = it.elem /\ phase' = "done" /\ pq' = pq
            ELSE LET c == it.cell
                     E == cells[c].el
                     ident(i) == IF Variant = "sharedLoopVar" THEN E[Len(E)] ELSE E[i]
                 IN /\ pq' = (pq \ {it})
                              \cup {[d |-> CellKey(q, cells[c].ch[k]), cell |-> cells[c].ch[k], elem |-> 0] : k \in DOMAIN cells[c].ch}
                              \cup {[d |-> ElemD2(q, E[i]), cell |-> 0, elem |-> ident(i)] : i \in DOMAIN E}
                    /\ ans' = ans /\ phase' = phase
    /\ UNCHANGED <<eb, budget, cells, todo, q>>

Next == Split \/ Built \/ StartClosest \/ Pop
Spec == Init /\ [][Next]_vars

(* ----------------------------- properties ------------------------------ *)
\* cells never change after the construction: no need to re-evaluate during the search
SoundInv == phase \in {"build", "built"} => TreeSound(cells, eb, N)
AgreeInv == phase = "built" => SetQueriesAgree
IffInv == phase = "built" => (TreeSound(cells, eb, N) <=> SetQueriesAgree)

CoverInv ==
    phase = "search" =>
      \A e \in 1..N :
          \/ \E it \in pq : it.elem = e
          \/ \E it \in pq : it.cell # 0 /\ e \in Range(Below(cells, it.cell)) /\ it.d <= ElemD2(q, e)

AnswerInv ==
    phase = "done" => ans \in 1..N /\ \A e \in 1..N : ElemD2(q, ans) <= ElemD2(q, e)

\* anti-vacuity witnesses (checked to be REACHABLE by expecting a violation)
NeverDeep == ~(phase = "built" /\ \E c \in DOMAIN cells : c > 1 /\ cells[c].ch # <<>>)
NeverSharedLeaf == ~(phase = "built" /\ Len(cells) > 1 /\ \E c \in DOMAIN cells : Len(cells[c].el) >= 2)
=============================================================================
