CONSTANTS Pinned = TRUE NProd = 3 Bad = {2}
SPECIFICATION Spec
INVARIANT Atomic
CHECK_DEADLOCK FALSE
