---------------------------- MODULE SyncHeapOps ----------------------------
(***************************************************************************)
(* X01 - implementation-shaped (L2) operators: Go maps as HEAP OBJECTS.    *)
(*                                                                         *)
(* hp   : sequence of objects (index = object id); an object is a set of   *)
(*        slots [k |-> key, leaf |-> BOOLEAN, x |-> leaf code | object id] *)
(*        - a map[string]any whose values are leaves or references to      *)
(*        other maps.  Objects are never freed (garbage stays).            *)
(* The walks below follow sync.go statement by statement (Set creates the  *)
(* missing maps IN PLACE, lookup panics on a missing / non-map element).   *)
(* Abs(hp, o) is the abstraction function to the trees of SyncTree.        *)
(***************************************************************************)
EXTENDS SyncTree

Slot(k, leaf, x) == [k |-> k, leaf |-> leaf, x |-> x]
HasKey(obj, k) == \E s \in obj : s.k = k
SlotOf(obj, k) == CHOOSE s \in obj : s.k = k
Put(obj, s) == {u \in obj : u.k # s.k} \cup {s}
Drop(obj, k) == {u \in obj : u.k # k}

RECURSIVE Abs(_, _)
Abs(hp, o) ==
    UNION {{[p |-> <<s.k>>, v |-> IF s.leaf THEN s.x ELSE MAP]} \cup (IF s.leaf THEN {} ELSE Graft(<<s.k>>, Abs(hp, s.x)))
           : s \in hp[o]}

RECURSIVE Reach(_, _)
Reach(hp, o) == {o} \cup UNION {Reach(hp, s.x) : s \in {u \in hp[o] : ~u.leaf}}

\* slots of an object in key order (encoding/json sorts map keys; key ids are ordered like their names)
RECURSIVE SortedSlots(_)
SortedSlots(obj) ==
    IF obj = {} THEN <<>>
    ELSE LET m == CHOOSE s \in obj : \A u \in obj : s.k <= u.k IN <<m>> \o SortedSlots(obj \ {m})

\* allocate fresh objects holding the tree s; answers [hp, id] (children first, the new map last)
RECURSIVE AllocTree(_, _), AllocKids(_, _, _, _)
AllocKids(hp, s, todo, obj) ==
    IF todo = {} THEN [hp |-> hp, obj |-> obj]
    ELSE LET e == CHOOSE x \in todo : \A y \in todo : x.p[1] <= y.p[1] IN
         IF e.v # MAP THEN AllocKids(hp, s, todo \ {e}, obj \cup {Slot(e.p[1], TRUE, e.v)})
         ELSE LET r == AllocTree(hp, Sub(s, e.p)) IN AllocKids(r.hp, s, todo \ {e}, obj \cup {Slot(e.p[1], FALSE, r.id)})
AllocTree(hp, s) ==
    LET r == AllocKids(hp, s, {e \in s : Len(e.p) = 1}, {}) IN [hp |-> Append(r.hp, r.obj), id |-> Len(r.hp) + 1]

\* a model value as the caller builds it before the call: [hp, leaf, x]
AllocVal(hp, x) ==
    IF x.v = MAP THEN LET r == AllocTree(hp, x.sub) IN [hp |-> r.hp, leaf |-> FALSE, x |-> r.id]
    ELSE [hp |-> hp, leaf |-> TRUE, x |-> x.v]

\* deep copy of the maps reachable from o (what a copying Data()/Get() hands out)
CopyObj(hp, o) == AllocTree(hp, Abs(hp, o))

\* NestedSyncMap.Set: walk p[1..n-1] from cur, creating maps in place; bind p[n]
RECURSIVE SetWalk(_, _, _, _, _)
SetWalk(hp, cur, p, i, sl) ==
    IF i = Len(p) THEN [hp |-> [hp EXCEPT ![cur] = Put(@, Slot(p[i], sl.leaf, sl.x))], ok |-> TRUE]
    ELSE IF HasKey(hp[cur], p[i])
         THEN LET s == SlotOf(hp[cur], p[i]) IN
              IF s.leaf THEN [hp |-> hp, ok |-> FALSE] ELSE SetWalk(hp, s.x, p, i + 1, sl)
         ELSE LET n == Len(hp) + 1
                  hp2 == Append([hp EXCEPT ![cur] = Put(@, Slot(p[i], FALSE, n))], {})
              IN SetWalk(hp2, n, p, i + 1, sl)

\* NestedSyncMap.lookup: every element of p[1..n-1] must exist and be a map; answers [ok, obj]
RECURSIVE Lookup(_, _, _, _)
Lookup(hp, cur, p, i) ==
    IF i = Len(p) THEN [ok |-> TRUE, obj |-> cur]
    ELSE IF HasKey(hp[cur], p[i]) /\ ~SlotOf(hp[cur], p[i]).leaf
         THEN Lookup(hp, SlotOf(hp[cur], p[i]).x, p, i + 1)
         ELSE [ok |-> FALSE, obj |-> 0]

Last(p) == p[Len(p)]
SetH(hp, root, p, x) == LET a == AllocVal(hp, x) IN SetWalk(a.hp, root, p, 1, a)
DelH(hp, root, p) ==
    LET lk == Lookup(hp, root, p, 1) IN
    IF lk.ok THEN [hp |-> [hp EXCEPT ![lk.obj] = Drop(@, Last(p))], ok |-> TRUE] ELSE [hp |-> hp, ok |-> FALSE]
\* the slot Get finds: [ok (no panic), found, slot]
GetH(hp, root, p) ==
    LET lk == Lookup(hp, root, p, 1) IN
    IF ~lk.ok THEN [ok |-> FALSE, found |-> FALSE, slot |-> Slot(0, TRUE, NIL)]
    ELSE IF HasKey(hp[lk.obj], Last(p)) THEN [ok |-> TRUE, found |-> TRUE, slot |-> SlotOf(hp[lk.obj], Last(p))]
    ELSE [ok |-> TRUE, found |-> FALSE, slot |-> Slot(0, TRUE, NIL)]
=============================================================================
