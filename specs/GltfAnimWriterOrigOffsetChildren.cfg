CONSTANTS
  MeshIds = {1, 2, 3, 6}
  SkelIds = {2, 4, 6}
  AnimKinds = {0, 3, 5, 7}
  TrsKinds = {0}
  MaxModels = 3
  MaxLights = 1
  HardOffset = TRUE
  Overwrite = FALSE
  SamplerI = FALSE
  Mutate = FALSE
  Dedup = TRUE
  Validate = TRUE
  AllowUnrigged = FALSE
SPECIFICATION Spec
INVARIANTS L2Children
CHECK_DEADLOCK FALSE
