CONSTANTS
  FieldSizes <- SampleFields
  Discipline = "single"
  Delivery = "whole"
  Refill = 16
SPECIFICATION Spec
INVARIANTS DeliveryIndependent Consumed
CHECK_DEADLOCK FALSE
