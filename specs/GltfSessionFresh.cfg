CONSTANTS
  PoolPolicy = "fresh"
  Entries = {"WriteBinary", "FromScene+ToGLTF", "AddScene+WriteGLB"}
  ShapeIds = {2, 3}
  FailKinds = {"nilmesh", "alphacutoff", "anim"}
  MaxPos = 1
  MaxLen = 3
SPECIFICATION Spec
INVARIANTS SessionContract SessionOutcome
CHECK_DEADLOCK FALSE
