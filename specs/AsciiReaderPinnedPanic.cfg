CONSTANTS NV = 3 NF = 2 W = 3 FW = 4 CheckScan = TRUE CheckWidth = FALSE Styles = {"ply", "pts"}
SPECIFICATION Spec
INVARIANTS TypeOK NoPanic NoPlaceholder
CHECK_DEADLOCK FALSE
