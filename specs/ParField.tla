------------------------------ MODULE ParField ------------------------------
(***************************************************************************)
(* C10 -- implementation-shaped (L2) model of MarchingCanvas.AddField-     *)
(* Parallel (modeling/marching/canvas.go) and of the per-block job/merge   *)
(* scheme that marchFloat1Parallel shares with it; GENERATOR of job        *)
(* schedules for the replay binding.                                       *)
(*                                                                         *)
(* A field with A Float1 attributes whose domain touches B blocks gives    *)
(* J = A*B jobs.  The main goroutine starts W workers, then for every      *)
(* attribute looks the section up (getSection) and sends its B jobs into a *)
(* FIFO channel, then closes it.  A worker takes a job and runs            *)
(*   lock ; if the block is missing: APPEND it to the block list ; unlock  *)
(*   READ the block list header to fetch the block                         *)
(*   accumulate the samples of the job into the block                      *)
(*                                                                         *)
(* ReadUnderLock  the READ happens before unlock (repaired shape) or after *)
(*                it (pinned tree: addFloat1Range reads d.float1Data[i]    *)
(*                outside chunkMutex)                                      *)
(* CopyInWork     accumulating re-reads the header for every sample        *)
(*                (pinned tree: value-receiver d.index(..) copies the      *)
(*                canvas struct)                                           *)
(* CopyInMain     getSection re-reads the header (value receiver) while    *)
(*                workers of earlier attributes may already append         *)
(*                                                                         *)
(* A data race (Go memory model) is a state in which an APPEND of one      *)
(* goroutine and a header READ of another are both enabled: nothing orders *)
(* them.  Checked on the model:                                            *)
(*   NoRace       no such state                                            *)
(*   MutexOK      at most one goroutine between lock and unlock            *)
(*   OwnBlock     a worker accumulates into the block of its own job       *)
(*   Termination  when everything stopped every job was accumulated once   *)
(*                and the merged result is a permutation of the jobs       *)
(*                (merge by Append in completion order = the sequential    *)
(*                result as a multiset)                                    *)
(* With the pinned-tree constants TLC refutes NoRace -- the design-level   *)
(* reproduction of the AddFieldParallel race; the verdict on the real code *)
(* comes from the race detector on schedules generated here.               *)
(*                                                                         *)
(* As generator: at termination prints                                     *)
(*   {"a":A,"b":B,"w":W,"pre":[jobs whose block existed],"order":[jobs in  *)
(*    the order their accumulation started]}                               *)
(* The harness blocks the first field-function call of every job and       *)
(* releases the jobs in "order".                                           *)
(***************************************************************************)
EXTENDS Integers, Sequences, FiniteSets, TLC, Json

CONSTANTS MaxA, MaxB, MaxW, ReadUnderLock, CopyInWork, CopyInMain

VARIABLES a, b, w, pre,       \* configuration, fixed by Init
          mpc, attr, sent,    \* main goroutine: pc, current attribute, jobs sent
          q,                  \* jobs received so far (FIFO channel)
          pc, job,            \* per worker
          lock,               \* 0 = free, k+1 = held by worker k
          blocks,             \* the block list (sequence of job ids, one block per job)
          tgt,                \* per worker: the block it fetched
          acc, order
vars == <<a, b, w, pre, mpc, attr, sent, q, pc, job, lock, blocks, tgt, acc, order>>

J == a * b
Jobs == 1 .. J
Workers == 0 .. (w - 1)
Has(j) == \E p \in DOMAIN blocks : blocks[p] = j
Pos(j) == CHOOSE p \in DOMAIN blocks : blocks[p] = j
SetToSeq(S) == [p \in 1 .. Cardinality(S) |-> CHOOSE x \in S : Cardinality({y \in S : y < x}) = p - 1]

Init ==
    /\ a \in 1 .. MaxA /\ b \in 1 .. MaxB /\ w \in 2 .. MaxW
    /\ pre \in {{}, 1 .. b}       \* fresh canvas, or the first attribute's blocks exist already
    /\ mpc = "section" /\ attr = 1 /\ sent = 0 /\ q = 0
    /\ pc = [k \in Workers |-> "idle"]
    /\ job = [k \in Workers |-> 0]
    /\ lock = 0
    /\ blocks = SetToSeq(pre)
    /\ tgt = [k \in Workers |-> 0]
    /\ acc = [j \in Jobs |-> 0]
    /\ order = <<>>

(* ---- main goroutine --------------------------------------------------- *)
MainSection ==          \* d.getSection(attribute, Float1)
    /\ mpc = "section"
    /\ mpc' = "send"
    /\ UNCHANGED <<a, b, w, pre, attr, sent, q, pc, job, lock, blocks, tgt, acc, order>>
MainSend ==             \* jobs <- job{..}   (buffered: never blocks)
    /\ mpc = "send"
    /\ sent' = sent + 1
    /\ IF sent + 1 = attr * b
       THEN IF attr = a THEN mpc' = "closed" /\ attr' = attr
            ELSE mpc' = "section" /\ attr' = attr + 1
       ELSE mpc' = "send" /\ attr' = attr
    /\ UNCHANGED <<a, b, w, pre, q, pc, job, lock, blocks, tgt, acc, order>>

(* ---- workers ---------------------------------------------------------- *)
Take(k) ==
    /\ pc[k] = "idle" /\ q < sent
    /\ q' = q + 1
    /\ job' = [job EXCEPT ![k] = q + 1]
    /\ pc' = [pc EXCEPT ![k] = "lock"]
    /\ UNCHANGED <<a, b, w, pre, mpc, attr, sent, lock, blocks, tgt, acc, order>>
Exit(k) ==
    /\ pc[k] = "idle" /\ q = sent /\ mpc = "closed"
    /\ pc' = [pc EXCEPT ![k] = "done"]
    /\ UNCHANGED <<a, b, w, pre, mpc, attr, sent, q, job, lock, blocks, tgt, acc, order>>
Lock(k) ==
    /\ pc[k] = "lock" /\ lock = 0
    /\ lock' = k + 1
    /\ pc' = [pc EXCEPT ![k] = "alloc"]
    /\ UNCHANGED <<a, b, w, pre, mpc, attr, sent, q, job, blocks, tgt, acc, order>>
Alloc(k) ==             \* chunkIndex_atomic body: append when missing
    /\ pc[k] = "alloc"
    /\ blocks' = IF Has(job[k]) THEN blocks ELSE Append(blocks, job[k])
    /\ pc' = [pc EXCEPT ![k] = IF ReadUnderLock THEN "readL" ELSE "unlock"]
    /\ UNCHANGED <<a, b, w, pre, mpc, attr, sent, q, job, lock, tgt, acc, order>>
Fetch(k, from, to) ==   \* data := d.float1Data[index]
    /\ pc[k] = from
    /\ tgt' = [tgt EXCEPT ![k] = blocks[Pos(job[k])]]
    /\ pc' = [pc EXCEPT ![k] = to]
    /\ UNCHANGED <<a, b, w, pre, mpc, attr, sent, q, job, lock, blocks, acc, order>>
Unlock(k) ==
    /\ pc[k] = "unlock"
    /\ lock' = 0
    /\ pc' = [pc EXCEPT ![k] = IF ReadUnderLock THEN "start" ELSE "read"]
    /\ UNCHANGED <<a, b, w, pre, mpc, attr, sent, q, job, blocks, tgt, acc, order>>
StartWork(k) ==         \* first field-function call of the job (the harness gate)
    /\ pc[k] = "start"
    /\ order' = Append(order, job[k])
    /\ pc' = [pc EXCEPT ![k] = "work"]
    /\ UNCHANGED <<a, b, w, pre, mpc, attr, sent, q, job, lock, blocks, tgt, acc>>
Work(k) ==              \* data[..] += function(pos) for every sample of the job
    /\ pc[k] = "work"
    /\ acc' = [acc EXCEPT ![tgt[k]] = @ + 1]
    /\ pc' = [pc EXCEPT ![k] = "idle"]
    /\ UNCHANGED <<a, b, w, pre, mpc, attr, sent, q, job, lock, blocks, tgt, order>>

WorkerStep(k) ==
    \/ Take(k) \/ Exit(k) \/ Lock(k) \/ Alloc(k) \/ Unlock(k) \/ StartWork(k) \/ Work(k)
    \/ Fetch(k, "readL", "unlock") \/ Fetch(k, "read", "start")

Next == MainSection \/ MainSend \/ \E k \in Workers : WorkerStep(k)
Spec == Init /\ [][Next]_vars

(* ---------------- properties of the model ----------------------------- *)
Appending(k) == pc[k] = "alloc" /\ ~Has(job[k])
ReadingHeader(k) == pc[k] = "read" \/ (CopyInWork /\ pc[k] \in {"start", "work"})
MainReadingHeader == CopyInMain /\ mpc = "section"
NoRace ==
    /\ \A x, y \in Workers : x # y => ~(Appending(x) /\ ReadingHeader(y))
    /\ \A x \in Workers : ~(Appending(x) /\ MainReadingHeader)
MutexOK == Cardinality({k \in Workers : pc[k] \in {"alloc", "readL", "unlock"}}) <= 1
OwnBlock == \A k \in Workers : pc[k] \in {"start", "work"} => tgt[k] = job[k]
Done == mpc = "closed" /\ \A k \in Workers : pc[k] = "done"
Termination ==
    Done => /\ \A j \in Jobs : acc[j] = 1
            /\ Len(order) = J /\ {order[p] : p \in DOMAIN order} = Jobs

(* ---------------- generator output ------------------------------------ *)
EmitDone == ~Done \/ PrintT(ToJson([a |-> a, b |-> b, w |-> w, pre |-> SetToSeq(pre), order |-> order]))
View == <<a, b, w, pre, mpc, attr, sent, q, pc, job, lock, tgt, acc, order>>
=============================================================================
