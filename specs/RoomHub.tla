------------------------------- MODULE RoomHub -------------------------------
(***************************************************************************)
(* X02 - the multiplayer room hub of generator/room (hub.go, client.go).   *)
(*                                                                         *)
(* Implementation-shaped state machine (L2) of Hub.Run: ONE action per     *)
(* iteration of its select loop, i.e. per event kind                       *)
(*     register | unregister | broadcast | clientUpdates | sceneUpdate     *)
(* plus the environment: Recv(c) (the client's writePump takes one message *)
(* off its send channel) and Bump (the graph's model version moves).       *)
(*                                                                         *)
(* State                                                                   *)
(*   reg      h.clients       : registered client -> id                    *)
(*   players  h.state.Players : id -> [name, rep]   (tokens, see below)    *)
(*   q        buffered content of client.send (capacity Cap), closed flag  *)
(*   life     the connection: "new" -> "conn" (ServeWs sent register;      *)
(*            readPump runs and may forward frames) -> "done" (readPump    *)
(*            left and sent unregister).  A client the HUB dropped stays   *)
(*            "conn" until its readPump notices: it can still forward a    *)
(*            frame - that is the window the pinned code does not survive. *)
(*   down     "" or why the loop is gone: a Go panic class, or "blocked"   *)
(*                                                                         *)
(* Variant = "pinned"   the code as found: the drop branches of broadcast  *)
(*   and sceneUpdate close the channel and forget the client but keep its  *)
(*   Players entry; clientUpdates dereferences Players[h.clients[c]]       *)
(*   without looking whether c is registered; an orientation payload of a  *)
(*   bad length panics; names / object lists are stored at any length      *)
(*   although the state message has one length byte.                       *)
(* Variant = "repaired" the drop branches delete the player, frames of     *)
(*   unregistered clients and malformed orientation payloads are ignored,  *)
(*   names / object lists are cut to 255.                                  *)
(*                                                                         *)
(* Tokens: name "d" default, "s" short, "m" 255 bytes, "L" 256 bytes       *)
(* stored in full, "T" 256 bytes cut to 255; rep likewise with "e" empty.  *)
(*                                                                         *)
(* TLC checks the invariants below on the repaired variant (they hold) and *)
(* on the pinned one (counterexamples = predicted defects, reproduced on   *)
(* the real hub by the replay); the same machine is the GENERATOR of event *)
(* sequences (history variable, Emit..) replayed on the real Hub.Run.      *)
(* Depth = 0 : no history, unbounded run (finite state space; liveness).   *)
(***************************************************************************)
EXTENDS Integers, Sequences, FiniteSets, TLC, Json

CONSTANTS NC, Cap, Depth, Variant, Alphabet    \* Alphabet: set of update selectors (see UpdKinds)

Clients == 1..NC
Repaired == Variant = "repaired"

VARIABLES reg, players, q, closed, life, idOf, first, sawClose, nextId, ver, sver, scene, down, hist
vars == <<reg, players, q, closed, life, idOf, first, sawClose, nextId, ver, sver, scene, down, hist>>
state == <<reg, players, q, closed, life, idOf, first, sawClose, nextId, ver, sver, scene, down>>

None == [t |-> "none", v |-> 0]
IdMsg(id) == [t |-> "id", v |-> id]
BcMsg == [t |-> "bc", v |-> 0]
StMsg(v) == [t |-> "st", v |-> v]

Ext(f, k, v) == [x \in DOMAIN f \cup {k} |-> IF x = k THEN v ELSE f[x]]
Restrict(f, S) == [x \in S |-> f[x]]

\* update selectors (the harness maps them to concrete frames, see roomfam.tablePayload)
\*  1 name short  2 name 255 bytes  3 name 256 bytes  4 objects (1-2)  5 255 objects  6 256 objects
\*  7 orientation payload of a length that is no multiple of 29   8 scene   9 a type the hub does not handle
UpdKinds == 1..9

Ev(op, c, a) == [op |-> op, c |-> c, a |-> a]
Log(e) == hist' = IF Depth = 0 THEN hist ELSE Append(hist, e)
Room == Depth = 0 \/ Len(hist) < Depth

Init ==
    /\ reg = <<>> /\ players = <<>>
    /\ q = [c \in Clients |-> <<>>] /\ closed = [c \in Clients |-> FALSE]
    /\ life = [c \in Clients |-> "new"] /\ idOf = [c \in Clients |-> 0]
    /\ first = [c \in Clients |-> None] /\ sawClose = [c \in Clients |-> FALSE]
    /\ nextId = 1 /\ ver = 0 /\ sver = 0 /\ scene = 0 /\ down = "" /\ hist = <<>>

(* ---------------- the hub loop ------------------------------------------- *)
\* case client := <-h.register
Register(c) ==
    /\ down = "" /\ life[c] = "new"
    /\ life' = [life EXCEPT ![c] = "conn"]
    /\ LET id == nextId IN
       /\ nextId' = nextId + 1 /\ idOf' = [idOf EXCEPT ![c] = id]
       /\ reg' = Ext(reg, c, id)
       /\ players' = Ext(players, id, [name |-> "d", rep |-> "e"])
       /\ IF closed[c] THEN down' = "send on closed channel" /\ q' = q            \* client.send <- id (blocking send)
          ELSE IF Len(q[c]) >= Cap THEN down' = "blocked" /\ q' = q
          ELSE q' = [q EXCEPT ![c] = Append(@, IdMsg(id))] /\ down' = down
    /\ UNCHANGED <<closed, first, sawClose, ver, sver, scene>>
    /\ Log(Ev("register", c, 0))

\* case client := <-h.unregister
Unregister(c) ==
    /\ down = "" /\ life[c] = "conn"
    /\ life' = [life EXCEPT ![c] = "done"]
    /\ IF c \in DOMAIN reg
       THEN /\ reg' = Restrict(reg, DOMAIN reg \ {c})
            /\ players' = Restrict(players, DOMAIN players \ {reg[c]})
            /\ IF closed[c] THEN down' = "close of closed channel" /\ closed' = closed
               ELSE closed' = [closed EXCEPT ![c] = TRUE] /\ down' = down
       ELSE UNCHANGED <<reg, players, closed, down>>
    /\ UNCHANGED <<q, idOf, first, sawClose, nextId, ver, sver, scene>>
    /\ Log(Ev("unregister", c, 0))

\* for client := range h.clients { select { case client.send <- m: default: close; delete } }
FanOut(m) ==
    LET full == {c \in DOMAIN reg : Len(q[c]) >= Cap}
        shut == {c \in DOMAIN reg : closed[c]}
    IN IF shut # {}
       THEN down' = "send on closed channel" /\ UNCHANGED <<reg, players, q, closed>>   \* a select send case on a closed channel panics
       ELSE /\ q' = [c \in Clients |-> IF c \in DOMAIN reg \ full THEN Append(q[c], m) ELSE q[c]]
            /\ closed' = [c \in Clients |-> closed[c] \/ c \in full]
            /\ reg' = Restrict(reg, DOMAIN reg \ full)
            /\ players' = IF Repaired THEN Restrict(players, DOMAIN players \ {reg[c] : c \in full}) ELSE players
            /\ down' = down

Broadcast ==
    /\ down = "" /\ FanOut(BcMsg)
    /\ UNCHANGED <<life, idOf, first, sawClose, nextId, ver, sver, scene>>
    /\ Log(Ev("broadcast", 0, 1))

Tick ==
    /\ down = "" /\ sver' = ver /\ FanOut(StMsg(ver))
    /\ UNCHANGED <<life, idOf, first, sawClose, nextId, ver, scene>>
    /\ Log(Ev("tick", 0, 0))

NameTok(a) == CASE a = 1 -> "s" [] a = 2 -> "m" [] a = 3 -> (IF Repaired THEN "T" ELSE "L")
RepTok(a) == CASE a = 4 -> "s" [] a = 5 -> "m" [] a = 6 -> (IF Repaired THEN "T" ELSE "L")

\* case clientUpdate := <-h.clientUpdates  (a frame readPump forwarded; c may have been dropped by the hub meanwhile)
Update(c, a) ==
    /\ down = "" /\ life[c] = "conn"
    /\ LET known == c \in DOMAIN reg
           id == IF known THEN reg[c] ELSE 0          \* h.clients[c] of a missing key is ""
           Ignore == UNCHANGED <<players, scene, down>>
           Deref(upd) == IF id \in DOMAIN players
                         THEN players' = upd /\ UNCHANGED <<scene, down>>
                         ELSE down' = "nil pointer dereference" /\ UNCHANGED <<players, scene>>
       IN CASE a \in {1, 2, 3} -> IF Repaired /\ ~known THEN Ignore ELSE Deref([players EXCEPT ![id].name = NameTok(a)])
            [] a \in {4, 5, 6} -> IF Repaired /\ ~known THEN Ignore ELSE Deref([players EXCEPT ![id].rep = RepTok(a)])
            [] a = 7 -> IF Repaired THEN Ignore
                        ELSE down' = "unable to set orientation data" /\ UNCHANGED <<players, scene>>
            [] a = 8 -> IF Repaired /\ ~known THEN Ignore ELSE scene' = c /\ UNCHANGED <<players, down>>
            [] OTHER -> Ignore
    /\ UNCHANGED <<reg, q, closed, life, idOf, first, sawClose, nextId, ver, sver>>
    /\ Log(Ev("update", c, a))

(* ---------------- environment -------------------------------------------- *)
\* writePump: message, ok := <-c.send
Recv(c) ==
    /\ \/ /\ q[c] # <<>>
          /\ q' = [q EXCEPT ![c] = Tail(@)]
          /\ first' = [first EXCEPT ![c] = IF @ = None THEN Head(q[c]) ELSE @]
          /\ UNCHANGED sawClose
       \/ /\ q[c] = <<>> /\ closed[c] /\ ~sawClose[c]
          /\ sawClose' = [sawClose EXCEPT ![c] = TRUE]
          /\ UNCHANGED <<q, first>>
    /\ UNCHANGED <<reg, players, closed, life, idOf, nextId, ver, sver, scene, down>>
    /\ Log(Ev("recv", c, 0))

Bump ==
    /\ ver < 1 /\ ver' = ver + 1
    /\ UNCHANGED <<reg, players, q, closed, life, idOf, first, sawClose, nextId, sver, scene, down>>
    /\ Log(Ev("bump", 0, 0))

Next ==
    /\ Room
    /\ \/ \E c \in Clients : Register(c) \/ Unregister(c) \/ Recv(c)
       \/ \E c \in Clients, a \in Alphabet : Update(c, a)
       \/ Broadcast \/ Tick \/ Bump

Spec == Init /\ [][Next]_vars
FairSpec == Spec /\ \A c \in Clients : WF_vars(Recv(c))

(* ---------------- properties (design level) ------------------------------ *)
TypeOK ==
    /\ DOMAIN reg \subseteq Clients /\ \A c \in DOMAIN reg : reg[c] \in 1..NC
    /\ \A c \in Clients : Len(q[c]) <= Cap
    /\ down \in {"", "blocked", "send on closed channel", "close of closed channel", "nil pointer dereference",
                 "unable to set orientation data"}

NoSendOnClosed == down # "send on closed channel"
NoDoubleClose == down # "close of closed channel"
NoPanic == down \in {"", "blocked"}
NoBlock == down # "blocked"
\* the inductive reason for NoSendOnClosed / NoDoubleClose: the hub only knows open channels
RegOpen == \A c \in DOMAIN reg : ~closed[c]

\* Players has exactly one entry per registered client
PlayersMatchClients ==
    /\ DOMAIN players = {reg[c] : c \in DOMAIN reg}
    /\ \A c1, c2 \in DOMAIN reg : reg[c1] = reg[c2] => c1 = c2

\* a client's channel is closed exactly when the hub let go of it (dropped or unregistered)
ClosedIffGone == down # "" \/ \A c \in Clients : closed[c] <=> (life[c] # "new" /\ c \notin DOMAIN reg)

\* the first message a client takes off its channel is its own id; until then it is waiting at the head
IdFirst == \A c \in Clients :
    /\ first[c] # None => first[c] = IdMsg(idOf[c])
    /\ (first[c] = None /\ q[c] # <<>>) => Head(q[c]) = IdMsg(idOf[c])
    /\ (life[c] # "new" /\ first[c] = None /\ down # "blocked") => q[c] # <<>>

\* the state message has one length byte per string / list
Representable == \A id \in DOMAIN players : players[id].name # "L" /\ players[id].rep # "L"

\* every registered client eventually receives its id (needs only that its writePump keeps receiving)
EventuallyId == \A c \in Clients : (life[c] # "new") ~> (first[c] = IdMsg(idOf[c]))

(* ---------------- generator ---------------------------------------------- *)
Case == [kind |-> "hub", n |-> NC, cap |-> Cap, ev |-> hist]
Emit == hist = <<>> \/ PrintT(ToJson(Case))
EmitLeaf == Len(hist) < Depth \/ PrintT(ToJson(Case))
\* attack sequences: the machine as found reaches a state its contract forbids (one generator per kind of
\* damage, so that a ghost player does not stop the search for the panic behind it)
EmitGhost == PlayersMatchClients \/ PrintT(ToJson(Case))
StopGhost == PlayersMatchClients
EmitPanic == NoPanic \/ PrintT(ToJson(Case))
StopPanic == NoPanic
EmitUnrep == Representable \/ PrintT(ToJson(Case))
StopUnrep == Representable
\* one sequence per distinct (state, length, last event): events that are no-ops of the repaired machine
\* (a frame of a dropped client, a tick without clients) are kept apart from each other
View == <<state, Len(hist), IF hist = <<>> THEN Ev("", 0, 0) ELSE hist[Len(hist)]>>
=============================================================================
