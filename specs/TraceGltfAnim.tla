--------------------------- MODULE TraceGltfAnim ---------------------------
(***************************************************************************)
(* Trace validation for X07.  trace.ndjson has one line per (scene,        *)
(* container) written by `vh xanim-exec`:                                  *)
(*   {"k":"doc","c":..,"tag":..,"kind":"glb"|"text"|"glb-again"|"text-again",*)
(*    "src":{..},"out":{..},   -- exactly the C06 projections (gltffam)    *)
(*    "xs":{..},"xo":{..}}     -- skeletons / sequences, skins / animations*)
(* The harness only executes and projects.  TLC judges every line:         *)
(*   1. the class of the scene (GltfAnim!SceneClass): a scene with a       *)
(*      Sequence the format cannot carry must be REFUSED with an error;    *)
(*   2. everything C06 demands of a file (TraceGltf!Structure / Contents,  *)
(*      reported as X07.Base with the C06 predicate as discriminator;      *)
(*      C06.Aligned is left to C06 except for the accessors skins and      *)
(*      animations use, which are judged here as X07.Aligned);             *)
(*   3. the X07 predicates, in layers (references -> structure ->          *)
(*      denotation) so that a broken document is rejected, never a TLC     *)
(*      error.                                                             *)
(* For every line TLC prints {"l","bad","det","ex"} as TraceGltf does.     *)
(***************************************************************************)
EXTENDS TraceGltf, GltfAnim

(* ---------------- layer X2: structure of skins and animations ---------- *)
XStructure(o, xo) ==
    LET r1 == B(SkinRefsOK(o, xo), "X07.SkinRefs") \cup B(AnimRefsOK(o, xo), "X07.AnimRefs") IN
    IF r1 # {} THEN [bad |-> r1, det |-> {}, sound |-> FALSE]
    ELSE
    LET mis == {i \in Misaligned(o) : i - 1 \in XAccIds(o, xo)}
        smps == UNION {Ran(a.samplers) : a \in Ran(xo.anims)}
        r2 == B(Forest(o), "X07.NodeForest")
              \cup B(\A s \in Ran(xo.skins) : SkinIBMOK(o, s), "X07.SkinMatrices")
              \cup B(\A s \in Ran(xo.skins) : SkinRootOK(o, s), "X07.SkinRoot")
              \cup B(\A s \in smps : InputOK(At0(o.accs, s.input)), "X07.AnimInput")
              \cup B(\A a \in Ran(xo.anims) : \A c \in Ran(a.channels) : OutputOK(o, c, At0(a.samplers, c.sampler)), "X07.AnimOutput")
              \cup B(mis = {}, "X07.Aligned")
              \cup B(XNoOrphans(o, xo), "X07.NoOrphans")
    IN [bad |-> r2, det |-> {"Aligned:" \o MisalignCause(o, i) : i \in mis}, sound |-> TRUE]

(* ---------------- layer X3: denotation --------------------------------- *)
SkinnedBad(o, xo, src, xs, nid, mi) ==
    LET n == At0(o.nodes, nid)
        xm == xs.models[mi]
        sm == src.meshes[src.models[mi].mesh]
    IN  B((xm.skel = 0) = (n.skin = -1), "X07.SkinAttached")
        \cup (IF xm.skel # 0 /\ n.skin # -1
              THEN LET sk == xs.skels[xm.skel]
                       s == At0(xo.skins, n.skin)
                       p == ThePrim(o, n)
                   IN  B(SkinMirrors(o, sk, s), "X07.SkinMirrors")
                       \cup (IF Len(s.joints) = sk.n
                             THEN B(JointTrsOK(o, sk, s), "X07.JointTRS")
                                  \cup (IF IbmReady(o, s) THEN B(InverseBindOK(o, sk, s), "X07.InverseBind") ELSE {})
                             ELSE {})
                       \cup (IF BindPoseJudged(o, xo, s) THEN B(BindPoseOK(o, xo, s), "X07.BindPose") ELSE {})
                       \cup (IF SrcRigOK(sm, sk.n)
                             THEN B(JointIndicesOK(o, p, s), "X07.JointIndices") \cup B(WeightsOK(o, p), "X07.Weights")
                             ELSE {})
              ELSE {})

SkinnedDet(o, xo, xs, nid, mi) ==
    LET n == At0(o.nodes, nid)  xm == xs.models[mi] IN
    IF xm.skel # 0 /\ n.skin # -1
    THEN LET sk == xs.skels[xm.skel]  s == At0(xo.skins, n.skin) IN
         IF Len(s.joints) = sk.n /\ IbmReady(o, s) /\ ~InverseBindOK(o, sk, s)
         THEN {"InverseBind:" \o InverseBindCause(o, sk, s)} ELSE {}
    ELSE {}

AnimBad(o, xo, xs, lv, mn, e, a) ==
    LET n == At0(o.nodes, mn[e.k])
        xm == xs.models[lv[e.k]]
        sq == xm.anims[e.q]
    IN  B(Len(a.channels) = 1, "X07.AnimShape")
        \cup B(AnimInterpOK(a), "X07.AnimInterp")
        \cup B(AnimTimesOK(o, a, sq), "X07.AnimTimes")
        \cup B(AnimValuesOK(o, a, sq), "X07.AnimValues")
        \cup (IF n.skin # -1 /\ Len(At0(xo.skins, n.skin).joints) = xs.skels[xm.skel].n
              THEN B(AnimTargetOK(a, At0(xo.skins, n.skin), sq), "X07.AnimTarget") ELSE {})

XContents(o, xo, src, xs) ==
    LET lv == LiveIx(src)
        mn == MeshNodeIds(o)
        shape == Len(mn) = Len(lv) /\ \A k \in DOMAIN mn : OnePrim(o, At0(o.nodes, mn[k]))
        fl == FlatSeqs(xs, lv, 1)
    IN  IF ~shape THEN [bad |-> {}, det |-> {}]           \* reported by the base layer (C06.Nodes)
        ELSE [bad |->
                UNION {SkinnedBad(o, xo, src, xs, mn[k], lv[k]) : k \in DOMAIN lv}
                \cup B(\A i, j \in DOMAIN lv : (i < j /\ xs.models[lv[i]].skel # 0 /\ xs.models[lv[i]].skel = xs.models[lv[j]].skel)
                            => At0(o.nodes, mn[i]).skin = At0(o.nodes, mn[j]).skin, "X07.SharedSkeleton")
                \cup B(SkinOnceOK(o, xo, src, xs), "X07.SkinOnce")
                \cup B(Len(xo.anims) = Len(fl), "X07.AnimCount")
                \cup (IF Len(xo.anims) = Len(fl)
                      THEN UNION {AnimBad(o, xo, xs, lv, mn, fl[i], xo.anims[i]) : i \in DOMAIN fl} ELSE {}),
              det |-> UNION {SkinnedDet(o, xo, xs, mn[k], lv[k]) : k \in DOMAIN lv}]

(* ---------------- the verdict for one line ----------------------------- *)
XJudge(ln) ==
    LET o == ln.out  src == ln.src  xs == ln.xs  xo == ln.xo
        class == SceneClass(src, xs)
    IN
    IF Len(xs.models) # Len(src.models) THEN [bad |-> {"Harness.XShape"}, det |-> {}]
    ELSE IF class = "invalid"
    THEN IF o.status = "FAIL" THEN [bad |-> {}, det |-> {}]
         ELSE [bad |-> {"X07.Refused"},
               det |-> {"Refused:" \o c \o ":" \o (IF o.status = "OK" THEN "written" ELSE o.status) : c \in InvalidCauses(src, xs)}]
    ELSE IF class = "undetermined" THEN [bad |-> {}, det |-> {}]
    ELSE IF o.status # "OK" THEN [bad |-> {"X07.Written"}, det |-> {"Written:" \o o.status}]
    ELSE
    LET st == Structure(o) IN
    IF ~st.sound THEN [bad |-> {"X07.Base"}, det |-> {"Base:" \o b : b \in st.bad}]
    ELSE
    LET c == Contents(o, src)
        basebad == (st.bad \cup c.bad) \ {"C06.Aligned"}
        base == [bad |-> B(basebad = {}, "X07.Base"),
                 det |-> {"Base:" \o b : b \in basebad}]
        xst == XStructure(o, xo)
    IN  IF ~xst.sound THEN [bad |-> base.bad \cup xst.bad, det |-> base.det \cup xst.det]
        ELSE LET xc == XContents(o, xo, src, xs) IN
             [bad |-> base.bad \cup xst.bad \cup xc.bad, det |-> base.det \cup xst.det \cup xc.det]

(* ---------------- vacuity accounting ----------------------------------- *)
SkelShape(sk) ==
    IF sk.n = 1 THEN "skeleton-single-joint"
    ELSE IF \A j \in 1..sk.n : Len(sk.children[j]) <= 1 THEN "skeleton-chain"
    ELSE IF Len(sk.children[1]) = sk.n - 1 THEN "skeleton-star" ELSE "skeleton-tree"
RECURSIVE Depth(_, _)
Depth(sk, j) == IF sk.children[j] = <<>> THEN 0 ELSE 1 + SetMax({Depth(sk, c + 1) : c \in Ran(sk.children[j])})

XExercised(ln) ==
    LET o == ln.out  src == ln.src  xs == ln.xs  xo == ln.xo
        lv == LiveIx(src)
        lx == [k \in DOMAIN lv |-> xs.models[lv[k]]]
        class == SceneClass(src, xs)
        used == {lx[k].skel : k \in DOMAIN lx} \ {0}
        seqs == UNION {Ran(lx[k].anims) : k \in DOMAIN lx}
        ok == o.status = "OK" /\ class = "valid"
    IN
    T(TRUE, ln.kind) \cup T(TRUE, "scene-" \o class)
    \cup T(class = "invalid" /\ o.status = "FAIL", "invalid-refused")
    \cup (IF class = "invalid" THEN {"invalid-" \o c : c \in InvalidCauses(src, xs)} ELSE {})
    \cup T(ok /\ used # {}, "skinned")
    \cup T(ok /\ used = {}, "no-skin")
    \cup T(ok /\ \E i, j \in DOMAIN lx : lx[i].skel = 0 /\ lx[j].skel # 0, "skinned-and-plain")
    \cup T(ok /\ \E i, j \in DOMAIN lx : i < j /\ lx[j].skel # 0, "skinned-not-first")
    \cup T(ok /\ Cardinality(used) >= 2, "two-skeletons")
    \cup T(ok /\ \E i, j \in DOMAIN lx : i < j /\ lx[i].skel # 0 /\ lx[i].skel = lx[j].skel, "skeleton-shared")
    \cup T(ok /\ Len(lv) < Len(src.models) /\ \E i \in DOMAIN src.models : src.models[i].empty /\ xs.models[i].skel # 0,
           "empty-skinned-model-skipped")
    \cup (IF ok THEN {SkelShape(xs.skels[p]) : p \in used} ELSE {})
    \cup T(ok /\ \E p \in used : Depth(xs.skels[p], 1) >= 3, "skeleton-depth>=3")
    \cup T(ok /\ \E p \in used : \E j \in 1..xs.skels[p].n : ~MatEq(xs.skels[p].ibm[j], TransMat(xs.skels[p].nworld32[j])),
           "joint-oriented")
    \cup T(ok /\ \E p \in used : ~xs.skels[p].exact, "positions-off-lattice")
    \cup T(ok /\ \E k \in DOMAIN lx : lx[k].skel # 0 /\ lx[k].anims = <<>>, "skinned-no-sequence")
    \cup T(ok /\ \E sq \in seqs : Len(sq.t) = 1, "sequence-one-frame")
    \cup T(ok /\ \E sq \in seqs : Len(sq.t) >= 3, "sequence-several-frames")
    \cup T(ok /\ \E k \in DOMAIN lx : Len(lx[k].anims) >= 2, "several-sequences")
    \cup T(ok /\ \E sq \in seqs : sq.joint > 0, "sequence-on-inner-joint")
    \cup T(ok /\ Cardinality({k \in DOMAIN lx : lx[k].anims # <<>>}) >= 2, "two-animated-models")
    \cup T(ok /\ used # {} /\ src.lights # <<>>, "skinned-with-light")
    \cup T(ok /\ \E k \in DOMAIN lx : lx[k].skel # 0 /\ src.models[lv[k]].trs.t # <<>>, "skinned-with-trs")
    \cup T(ok /\ \E k \in DOMAIN lx : lx[k].skel = 0 /\ HasSrcAttr(src.meshes[src.models[lv[k]].mesh], "Joint"), "rigged-mesh-without-skin")
    \cup T(ok /\ xo.skins # <<>> /\ SkinRefsOK(o, xo) /\ RefsOK(o) /\ \E s \in Ran(xo.skins) : BindPoseJudged(o, xo, s), "bind-pose-judged")
    \cup T(ok /\ RefsOK(o) /\ \E k \in DOMAIN lx : lx[k].skel # 0
               /\ SrcRigOK(src.meshes[src.models[lv[k]].mesh], xs.skels[lx[k].skel].n), "rig-judged")
    \cup T(ok /\ RefsOK(o) /\ \E m \in Ran(o.meshes) : \E p \in Ran(m.prims) : WeightSumJudged(o, p), "weight-sum-judged")
    \cup T(ok /\ RefsOK(o) /\ SkinRefsOK(o, xo) /\ AnimRefsOK(o, xo) /\ \E i \in Misaligned(o) : i - 1 \in XAccIds(o, xo),
           "skin-accessor-after-odd-indices")
    \* the prediction of the L2 model (GltfAnimWriter) for this scene against what the real writer did
    \cup (IF ln.l2.status = "" THEN {}
          ELSE IF ln.l2.status = "OK"
               THEN T(o.status = "OK" /\ ln.l2.nodes = Len(o.nodes) /\ ln.l2.skins = o.nskins /\ ln.l2.anims = o.nanims, "l2-agrees")
                    \cup T(~(o.status = "OK" /\ ln.l2.nodes = Len(o.nodes) /\ ln.l2.skins = o.nskins /\ ln.l2.anims = o.nanims), "l2-disagrees")
               ELSE T(o.status = ln.l2.status, "l2-agrees") \cup T(o.status # ln.l2.status, "l2-disagrees"))

Verdict(ln) ==
    LET j == XJudge(ln) IN [l |-> 0, bad |-> j.bad, det |-> j.det, ex |-> XExercised(ln)]

StepX ==
    /\ l <= Len(Trace) /\ Trace[l].k = "doc"
    /\ LET j == XJudge(Trace[l]) IN
          PrintT(ToJson([l |-> l, bad |-> j.bad, det |-> j.det, ex |-> XExercised(Trace[l])]))
    /\ l' = l + 1

SpecX == Init /\ [][StepX]_vars
=============================================================================
