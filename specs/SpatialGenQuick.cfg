\* hand-runnable configuration of the B1 generator (checks/c16.py writes its own per tier)
CONSTANTS
  LC = {0, 2}
  MaxPts = 3
  QMargin = 1
  QStep = 1
  Depths = {0, 1}
  WithAuto = TRUE
  Kinds = {"point", "line", "box", "tri"}
SPECIFICATION Spec
INVARIANT Emit
CHECK_DEADLOCK FALSE
