------------------------------- MODULE SdfSkel -------------------------------
(***************************************************************************)
(* Generator of SKELETON SAMPLES for C19 (round 5).                        *)
(*                                                                         *)
(* SdfGen samples space (lattices, far random points); no sample is ever   *)
(* constructed ON the part of a shape a user builds sample points from: the*)
(* core segment of a capsule, the axis of a round cone / rounded cylinder, *)
(* the centre / face centres / edges / corners / diagonals of a box, the   *)
(* centre and diameters of a sphere, points of a plane and its normal.     *)
(* Here the model derives the parts of the skeleton from the shape record  *)
(* (Parts), and every initial state is one case                            *)
(*   [k |-> "skel", den, e2, shape, td, via, smp]                          *)
(* smp: sequence of descriptors [part, a, b, tn, o] meaning the point      *)
(*   P = a + (tn/td) (b - a) + o        (Sdf.tla, "skeleton samples")      *)
(* for EVERY tn in 0..td (t = 0 and t = 1 are the ends; td from a ladder   *)
(* with exactly representable t: td = 8, and non-representable t: td = 3,  *)
(* 5, 7, 10, 12 - 12 mixes both) and every model-chosen offset o: zero (on *)
(* the skeleton), and integer vectors PERPENDICULAR to the part (Dot = 0,  *)
(* chosen by the model from a candidate cube) of length exactly the radius *)
(* when one exists (surface points), shorter (inside) and longer (outside).*)
(* via = "seg": the harness computes a + (b-a)*t, "lerp": a*(1-t) + b*t    *)
(* (the two ways a user constructs a point on a segment).  den: 1, 2, 10   *)
(* (real = integer / den: tenths are not representable), e2: binary        *)
(* magnitude as in SdfGen.  Shapes are in OBLIQUE position (directions     *)
(* (1,1,1), (1,2,3), (3,-2,1), (1,1,0), (1,2,2) ..) and axis-aligned.      *)
(*                                                                         *)
(* Design-level checks (theorems about Sdf.tla, per generated case):       *)
(*   SkAdm        the shape is admissible                                  *)
(*   SkRefAgrees  the closed-form value SkRef claims at a sample has the   *)
(*                sign of the exact interior predicate at the exact        *)
(*                rational point (ties "distance to the core = |o|" to     *)
(*                ClsLine, and the rescaled Ref of sphere/box/plane to Cls)*)
(*   SkCoreInside on-skeleton samples (o = 0) of sphere centre, capsule    *)
(*                core, cone axis, cylinder axis are strictly inside;      *)
(*                capsule samples with |o| = r are on the surface          *)
(***************************************************************************)
EXTENDS Sdf, Json, FiniteSets, SequencesExt

CONSTANTS Level,      \* 1: quick, 2: thorough
          Seed        \* rotates which t ladder / way of construction goes with which part

VARIABLES case
vars == <<case>>

Sphere(c, r) == [t |-> "sphere", c |-> c, r |-> r]
BoxS(c, b) == [t |-> "box", c |-> c, b |-> b]
RBox(c, b, r) == [t |-> "rbox", c |-> c, b |-> b, r |-> r]
Line(a, b, r) == [t |-> "line", a |-> a, b |-> b, r |-> r]
RCone(a, b, r1, r2) == [t |-> "rcone", a |-> a, b |-> b, r1 |-> r1, r2 |-> r2]
RCyl(c, ra, rb, h) == [t |-> "rcyl", c |-> c, ra |-> ra, rb |-> rb, h |-> h]
Plane(c, n, nl, h) == [t |-> "plane", c |-> c, n |-> n, nl |-> nl, h |-> h]
Tr(s, o) == [t |-> "tr", ss |-> <<s>>, o |-> o]
Op(t, ss) == [t |-> t, ss |-> ss]

O == <<0, 0, 0>>
Neg(v) == <<0 - v[1], 0 - v[2], 0 - v[3]>>
C1 == <<1, 0 - 2, 3>>

\* segments: axis-aligned and oblique (directions (4,0,0) (0,0,3) (1,1,1) (1,2,3) (3,-2,1) (2,2,0) (2,4,4) (3,3,3))
Segments == {<<O, <<4, 0, 0>>>>, <<C1, <<1, 0 - 2, 6>>>>, <<O, <<1, 1, 1>>>>, <<<<1, 0, 0 - 1>>, <<2, 2, 2>>>>,
             <<<<0 - 1, 2, 0>>, <<2, 0, 1>>>>, <<<<0, 1, 0>>, <<2, 3, 0>>>>, <<<<1, 1, 1>>, <<3, 5, 5>>>>}
            \cup (IF Level = 1 THEN {} ELSE {<<<<0 - 1, 0 - 1, 0 - 1>>, <<2, 2, 2>>>>, <<O, <<2, 3, 0 - 1>>>>, <<<<3, 0, 0>>, <<0 - 3, 1, 2>>>>})
ConeRadii == {<<1, 1>>, <<2, 1>>, <<1, 3>>} \cup (IF Level = 1 THEN {} ELSE {<<3, 3>>, <<1, 2>>})
Normals == {<<<<0, 1, 0>>, 1>>, <<<<3, 4, 0>>, 5>>, <<<<1, 2, 2>>, 3>>} \cup (IF Level = 1 THEN {} ELSE {<<<<0, 0, 0 - 1>>, 1>>, <<<<2, 3, 6>>, 7>>})

Primitives ==
    {Sphere(c, r) : c \in {C1}, r \in {1, 3}}
    \cup {BoxS(c, b) : c \in {C1}, b \in {<<2, 2, 2>>, <<4, 6, 2>>}}
    \cup {RBox(c, b, r) : c \in {C1}, b \in {<<4, 6, 2>>}, r \in {1, 2}}
    \cup {Line(sg[1], sg[2], r) : sg \in Segments, r \in {1, 3}}
    \cup {RCone(sg[1], sg[2], rr[1], rr[2]) : sg \in Segments, rr \in ConeRadii}
    \cup {RCyl(c, k[1], k[2], k[3]) : c \in {C1}, k \in {<<2, 1, 2>>, <<5, 2, 3>>, <<1, 2, 3>>}}
    \cup {Plane(c, nn[1], nn[2], h) : c \in {C1}, nn \in Normals, h \in {0, 0 - 2}}

ObliqueCaps == {Line(O, <<1, 1, 1>>, 1), Line(<<1, 0, 0 - 1>>, <<2, 2, 2>>, 1), Line(<<1, 1, 1>>, <<3, 5, 5>>, 3)}
Combined ==
    {Tr(s, o) : s \in ObliqueCaps \cup {Sphere(O, 3), BoxS(<<0, 1, 0>>, <<4, 4, 4>>), RCone(O, <<1, 2, 3>>, 2, 1)}, o \in {<<2, 0 - 1, 3>>}}
    \cup {Op(t, <<a, Sphere(<<2, 0, 0>>, 2)>>) : t \in {"union", "inter", "sub"}, a \in ObliqueCaps}
    \cup {Op(t, <<Sphere(<<2, 0, 0>>, 2), a>>) : t \in {"union", "sub"}, a \in ObliqueCaps}
    \cup {Op("union", <<BoxS(<<0, 1, 0>>, <<4, 4, 4>>), RCone(O, <<1, 2, 3>>, 2, 1), Line(O, <<1, 1, 1>>, 1)>>)}
    \cup {Tr(Op("union", <<Line(O, <<1, 1, 1>>, 1), Sphere(<<2, 0, 0>>, 2)>>), <<1, 1, 1>>)}

Shapes == Primitives \cup Combined

(* ------------------------- parts of the skeleton -------------------------- *)
Cands == {<<x, y, z>> : x \in (0 - 3)..3, y \in (0 - 3)..3, z \in (0 - 3)..3}
MinLen(S) == CHOOSE o \in S : \A o2 \in S : Len2(o) <= Len2(o2)
\* model-chosen offsets perpendicular to d: zero, one of length exactly r (surface) if the candidate cube has one,
\* the shortest non-zero one inside, the shortest one outside
PickOffs(d, r) ==
    LET P == {o \in Cands : o # O /\ Dot(o, d) = 0}
        on == {o \in P : Len2(o) = r * r}
        in == {o \in P : Len2(o) < r * r}
        out == {o \in P : Len2(o) > r * r}
    IN {O} \cup (IF on = {} THEN {} ELSE {MinLen(on), Neg(MinLen(on))}) \cup (IF in = {} THEN {} ELSE {MinLen(in)})
           \cup (IF out = {} THEN {} ELSE {MinLen(out)})

Part(name, a, b, offs) == [part |-> name, a |-> a, b |-> b, offs |-> offs]
E(i, k) == <<IF i = 1 THEN k ELSE 0, IF i = 2 THEN k ELSE 0, IF i = 3 THEN k ELSE 0>>
Shift(p, o) == [p EXCEPT !.a = VAdd(@, o), !.b = VAdd(@, o)]

RECURSIVE Parts(_)
Parts(s) ==
    CASE s.t = "sphere" ->
            LET on == {o \in Cands : Len2(o) = s.r * s.r /\ o[1] # 0 /\ o[2] # 0}      \* an oblique radius, if any
                u == IF on = {} THEN E(1, s.r) ELSE MinLen(on)
            IN {Part("centre", s.c, s.c, PickOffs(O, s.r) \cup {E(1, s.r), E(3, 0 - s.r)}),
                Part("diameter", VSub(s.c, u), VAdd(s.c, u), {O}),
                Part("diameter", VSub(s.c, E(2, s.r)), VAdd(s.c, E(2, s.r)), {O, E(1, 1)})}
      [] s.t \in {"box", "rbox"} ->
            LET h == <<s.b[1] \div 2, s.b[2] \div 2, s.b[3] \div 2>>           \* even sizes only
                g == IF s.t = "rbox" THEN s.r ELSE 1
                corner == VAdd(s.c, h)
            IN {Part("centre", s.c, s.c, {O})}
               \cup {Part("axis", s.c, VAdd(s.c, E(i, h[i])), {O, E(i, g)}) : i \in 1..3}      \* centre -> face centre (+ outward)
               \cup {Part("axis", s.c, VSub(s.c, E(i, h[i])), {O}) : i \in {2}}
               \cup {Part("diagonal", s.c, corner, {O, <<g, 0, 0>>}), Part("diagonal", VSub(s.c, h), corner, {O})}
               \cup {Part("edge", corner, VSub(corner, E(i, 2 * h[i])), {O, E((i % 3) + 1, g)}) : i \in 1..3}
               \cup {Part("face", VAdd(s.c, E(1, h[1])), corner, {O, E(1, g), E(1, 0 - 1)})}
      [] s.t = "line" -> {Part("core", s.a, s.b, PickOffs(VSub(s.b, s.a), s.r))}
      [] s.t = "rcone" -> {Part("axis", s.a, s.b, PickOffs(VSub(s.b, s.a), Min2(s.r1, s.r2)))}
      [] s.t = "rcyl" ->
            LET R == 2 * s.ra
                on == {o \in {<<3, 0, 4>>, <<6, 0, 8>>, <<0 - 4, 0, 3>>} : Len2(o) = R * R}
            IN {Part("axis", VSub(s.c, E(2, s.h + s.rb)), VAdd(s.c, E(2, s.h + s.rb)), {O}),
                Part("axis", s.c, VAdd(s.c, E(2, s.h)), {O}),
                Part("radius", s.c, VAdd(s.c, E(1, R)), {O, E(2, 1), E(2, 0 - 1)}),
                Part("radius", s.c, VSub(s.c, E(3, R)), {O})}
               \cup {Part("radius", s.c, VAdd(s.c, o), {O}) : o \in on}
      [] s.t = "plane" ->
            LET P == {o \in Cands : o # O /\ Dot(o, s.n) = 0}
                u == MinLen(P)
                np == {o \in P : o[1] * u[2] # o[2] * u[1] \/ o[1] * u[3] # o[3] * u[1] \/ o[2] * u[3] # o[3] * u[2]}
                w == IF np = {} THEN VScale(2, u) ELSE MinLen(np)
                \* a point of the plane itself when h is a multiple of nl ... the plane is (p-c).n/nl + h = 0
            IN {Part("inplane", VAdd(s.c, u), VAdd(s.c, w), {O, s.n, Neg(s.n)}),
                Part("inplane", VSub(s.c, u), VAdd(VAdd(s.c, u), w), {O}),
                Part("normal", VSub(s.c, s.n), VAdd(s.c, s.n), {O, u})}
      [] s.t = "tr" -> {Shift(p, s.o) : p \in Parts(s.ss[1])}
      [] OTHER -> UNION {Parts(s.ss[k]) : k \in DOMAIN s.ss}

(* --------------------------------- cases ---------------------------------- *)
Ladder == <<8, 3, 7, 10, 5, 12>>
Dens == <<1, 10, 2>>
Hash(s, p) == Abs(p.a[1] + 3 * p.a[2] + 5 * p.a[3] + 7 * p.b[1] + 11 * p.b[2] + 13 * p.b[3]) + Seed
\* every part at NT denominators of the ladder x both ways of construction alternating, rotated by the part and the seed;
\* capsules (the shape whose skeleton IS the shape) at every denominator and both ways
SkChoices(s, p) ==
    IF p.a = p.b THEN {[td |-> 1, via |-> "seg", den |-> d] : d \in {1, 10}}
    ELSE IF s.t = "line" \/ Level = 2
         THEN {[td |-> Ladder[i], via |-> v, den |-> Dens[((Hash(s, p) + i) % 3) + 1]] : i \in 1..Len(Ladder), v \in {"seg", "lerp"}}
         ELSE LET h == Hash(s, p) IN
              {[td |-> Ladder[((h + k) % 6) + 1], via |-> IF (h + k) % 2 = 0 THEN "seg" ELSE "lerp",
                den |-> Dens[((h + k) % 3) + 1]] : k \in {0, 1, 3}}
E2s(s, p, x) == IF x.den = 1 /\ (Hash(s, p) + x.td) % 4 = 0 THEN {0, (IF Hash(s, p) % 2 = 0 THEN 0 - 20 ELSE 20)} ELSE {0}

Samples(p, td) ==
    LET offs == SetToSeq(p.offs)
        T == IF p.a = p.b THEN 0 ELSE td
    IN [i \in 1..((T + 1) * Len(offs)) |->
          LET o == offs[((i - 1) \div (T + 1)) + 1] IN
          [part |-> IF o = O THEN p.part ELSE p.part \o "+off", a |-> p.a, b |-> p.b, tn |-> (i - 1) % (T + 1), o |-> o]]

Init == \E s \in Shapes : \E p \in Parts(s) : \E x \in SkChoices(s, p) : \E e \in E2s(s, p, x) :
            case = [k |-> "skel", den |-> x.den, e2 |-> e, shape |-> s, td |-> x.td, via |-> x.via, smp |-> Samples(p, x.td)]
Next == FALSE /\ case' = case
Spec == Init /\ [][Next]_vars

(* --------------------------- design-level checks -------------------------- *)
S == case.shape
I == DOMAIN case.smp
SkAdm == Admissible(S)
SkRefAgrees == \A i \in I : SkRefAgreesWithCls(S, case.smp[i], case.td)
SkCoreInside ==
    \A i \in I : LET m == case.smp[i] IN
        /\ (m.part \in {"core", "centre"} /\ S.t \in {"line", "sphere", "box", "rbox"}) => SkCls(S, m, case.td) < 0
        /\ (m.part = "axis" /\ S.t \in {"rcone", "box", "rbox"} /\ m.tn < case.td) => SkCls(S, m, case.td) < 0
        /\ (m.part = "axis" /\ S.t = "rcyl") => SkCls(S, m, case.td) = (IF m.tn \in {0, case.td} /\ m.b[2] - m.a[2] > S.h THEN 0 ELSE 0 - 1)
        /\ (S.t = "line" /\ Len2(m.o) = S.r * S.r) => SkCls(S, m, case.td) = 0
        /\ (S.t = "plane" /\ m.part = "inplane") => SkCls(S, m, case.td) = Sgn(S.h)
        /\ (S.t = "box" /\ m.part \in {"edge", "face"}) => SkCls(S, m, case.td) = 0
Emit == PrintT(ToJson(case))
=============================================================================
