CONSTANTS Pinned = FALSE NProd = 3 Bad = {}
SPECIFICATION Spec
INVARIANTS ValueLaw Atomic Complete NothingDropped
CHECK_DEADLOCK FALSE
