SPECIFICATION Spec
INVARIANTS Bands Exact8 Stable
CHECK_DEADLOCK FALSE
