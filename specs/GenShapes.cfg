CONSTANT Big = FALSE
SPECIFICATION Spec
INVARIANT Emit
CHECK_DEADLOCK FALSE
