CONSTANTS NC = 2 UseLock = FALSE MaxOps = 2 SchedLen = 7 OpFilter = "all" DeferUnlock = TRUE
SPECIFICATION Spec
INVARIANTS EmitTorn
CONSTRAINT StopWhenTorn
CHECK_DEADLOCK FALSE
