CONSTANTS
  Families = {"basis", "rotto", "rotnear", "rotax", "rotq", "trs", "mesh"}
  WordLen = 2
SPECIFICATION Spec
INVARIANTS Emit
CHECK_DEADLOCK FALSE
