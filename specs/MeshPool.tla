------------------------------ MODULE MeshPool ------------------------------
(***************************************************************************)
(* Contract-level (L1) history machine of a pool of live mesh values.      *)
(*                                                                         *)
(* State: pool : slot -> mesh value | NullMesh ; hist : the steps so far.  *)
(* Every public operation is one action instance (a step of MeshOps).      *)
(*                                                                         *)
(* Checked on the specification itself:                                    *)
(*   Immutable   (C01)  a step changes at most its destination slot        *)
(*   Closed      (C02)  every live value is well formed                    *)
(*   Laws        (C03)  flip-twice, weld-after-unweld, unweld/remove-      *)
(*                      unreferenced keep the corner view                  *)
(* Used as GENERATOR for the replay binding: with VIEW pool TLC reaches    *)
(* every distinct pool state within Depth once and prints the history that *)
(* led there (Emit); the harness executes these histories on the real      *)
(* code and TraceMeshPool judges the recorded trace.                       *)
(***************************************************************************)
EXTENDS MeshOps, Json

CONSTANTS NSlots, Depth, Ops, Walk,
          BaseSet    \* "std": triangle / point bases; "topo": the topology dimension (quad, line, line strip, line loop)

VARIABLES pool, hist,
          noop      \* the last step left the pool unchanged (no result, or the contract says it fails)
vars == <<pool, hist, noop>>

Slots == 1..NSlots
P(x, y, z) == <<x * Q, y * Q, z * Q>>
H == Q \div 2

\* welded quad, non-identity indices, vertex 4 unreferenced, 4 attributes, 2 material ranges
BaseQuad ==
    MkMesh("triangle", <<0, 1, 2, 2, 1, 3>>,
           <<[ar |-> 1, id |-> 5, data |-> <<<<Q>>, <<2 * Q>>, <<3 * Q>>, <<4 * Q>>, <<5 * Q>>>>],
             [ar |-> 2, id |-> 4, data |-> <<<<0, 0>>, <<Q, 0>>, <<0, Q>>, <<Q, Q>>, <<H, H>>>>],
             [ar |-> 3, id |-> 1, data |-> <<P(0, 0, 0), P(2, 0, 0), P(0, 2, 0), P(2, 2, 0), P(7, 7, 7)>>],
             [ar |-> 3, id |-> 2, data |-> <<P(0, 0, 1), P(0, 0, 1), P(0, 0, 1), P(0, 0, 1), P(0, 1, 0)>>]>>,
           <<[n |-> 1, m |-> 1], [n |-> 1, m |-> 2]>>)

\* unwelded pair of triangles sharing an edge by position; the second is degenerate; a colour
BaseTris ==
    MkMesh("triangle", <<0, 1, 2, 3, 4, 5>>,
           <<[ar |-> 3, id |-> 1, data |-> <<P(0, 0, 0), P(1, 0, 0), P(0, 1, 0), P(1, 0, 0), P(1, 0, 0), P(3, 0, 0)>>],
             [ar |-> 3, id |-> 3, data |-> <<P(1, 0, 0), P(0, 1, 0), P(0, 0, 1), P(1, 1, 0), P(0, 1, 1), P(1, 0, 1)>>]>>,
           <<>>)

\* point cloud with permuted indices (four points: not a multiple of three), a scalar and a 4-vector
BasePts ==
    MkMesh("point", <<2, 0, 1, 3>>,
           <<[ar |-> 1, id |-> 6, data |-> <<<<Q>>, <<5 * Q>>, <<3 * Q>>, <<2 * Q>>>>],
             [ar |-> 3, id |-> 1, data |-> <<P(0, 0, 0), P(4, 0, 0), P(2, 2, 2), P(1, 3, 0)>>],
             [ar |-> 4, id |-> 10, data |-> <<<<Q, 0, 0, 0>>, <<0, Q, 0, 0>>, <<0, 0, Q, 0>>, <<0, 0, 0, Q>>>>]>>,
           <<>>)

BaseEmpty == MkMesh("triangle", <<>>, <<>>, <<>>)

\* material ranges that account for fewer primitives than the mesh has (what a.SetMaterial(x).Append(b)
\* produces when b carries no material): exporters have to cope without touching the shared list
BaseUnder == [BaseTris EXCEPT !.mats = <<[n |-> 1, m |-> 2]>>]

\* The topology dimension: every topology the library names, each with shared vertices, an unreferenced vertex and
\* (where primitives can be counted) material ranges.  Exporters, scans and the topology-agnostic operations meet
\* them (the Ops of that configuration); whatever an entry point does with a topology it has no use for - reject it,
\* convert it - it must not show in the caller's value.
BaseQ4 ==
    MkMesh("quad", <<0, 1, 3, 2, 2, 3, 5, 4>>,
           <<[ar |-> 1, id |-> 5, data |-> <<<<Q>>, <<2 * Q>>, <<3 * Q>>, <<4 * Q>>, <<5 * Q>>, <<6 * Q>>, <<7 * Q>>>>],
             [ar |-> 3, id |-> 1, data |-> <<P(0, 0, 0), P(2, 0, 0), P(0, 2, 0), P(2, 2, 0), P(0, 4, 0), P(2, 4, 0), P(7, 7, 7)>>]>>,
           <<[n |-> 1, m |-> 1], [n |-> 1, m |-> 2]>>)
BaseLn ==
    MkMesh("line", <<0, 1, 1, 2>>,
           <<[ar |-> 3, id |-> 1, data |-> <<P(0, 0, 0), P(1, 0, 0), P(1, 1, 0), P(5, 5, 5)>>]>>, <<>>)
BaseStrip ==
    MkMesh("line strip", <<2, 0, 1>>,
           <<[ar |-> 2, id |-> 4, data |-> <<<<0, 0>>, <<Q, 0>>, <<0, Q>>>>],
             [ar |-> 3, id |-> 1, data |-> <<P(0, 0, 0), P(1, 0, 0), P(1, 1, 0)>>]>>, <<>>)
BaseLoop ==
    MkMesh("line loop", <<0, 1, 2>>,
           <<[ar |-> 3, id |-> 1, data |-> <<P(0, 0, 0), P(1, 0, 0), P(1, 1, 0)>>]>>, <<>>)

Bases == IF BaseSet = "topo" THEN {BaseQ4, BaseLn, BaseStrip, BaseLoop, BasePts}
         ELSE {BaseQuad, BaseTris, BasePts, BaseEmpty, BaseUnder}

Live == {s \in Slots : IsMesh(pool[s])}
Z == [z |-> 0]
\* slots are interchangeable: a fresh base value goes to the first empty slot
\* (any slot once the pool is full, which overwrites a live value)
NewSlots == IF Live = Slots THEN Slots ELSE {CHOOSE s \in Slots \ Live : \A t \in Slots \ Live : s <= t}

Unary(op, args) == {[op |-> op, dst |-> d, src |-> <<s>>, args |-> args] : d \in Slots, s \in Live}
Binary(op, args) == {[op |-> op, dst |-> d, src |-> <<s, t>>, args |-> args] : d \in Slots, s \in Live, t \in Live}
NoRes(op, args) == {[op |-> op, dst |-> 0, src |-> <<s>>, args |-> args] : s \in Live}

TRS1 == [t |-> P(1, 0, 0), axis |-> 3, turns |-> 1, s |-> <<1, 1, 1>>]
TRS2 == [t |-> P(0, 0, 5), axis |-> 1, turns |-> 2, s |-> <<2, 1, 1>>]

Candidates ==
    {[op |-> "New", dst |-> d, src |-> <<>>, args |-> [mesh |-> b]] : d \in NewSlots, b \in Bases}
    \cup Binary("Append", Z)
    \cup Unary("SetIndices", [idx |-> <<1, 0, 2>>]) \cup Unary("SetIndices", [idx |-> <<>>])
    \cup Unary("SetMaterial", [m |-> 3])
    \cup Unary("SetMaterials", [mats |-> <<[n |-> 1, m |-> 2], [n |-> 1, m |-> 1]>>])
    \cup Unary("SetAttr", [ar |-> 1, id |-> 13, data |-> <<<<Q>>, <<2 * Q>>, <<3 * Q>>, <<4 * Q>>>>])
    \cup Unary("ModifyAttr", [ar |-> 3, id |-> 1, fn |-> "addidx", k |-> 0])
    \cup Unary("ModifyAttr", [ar |-> 1, id |-> 6, fn |-> "neg", k |-> 0])
    \cup Binary("CopyAttr", [ar |-> 3, id |-> 3])
    \cup Unary("Translate", [v |-> P(1, 2, 3)]) \cup Unary("Translate", [v |-> P(0, 0, 0)])
    \cup Unary("Scale", [s |-> <<2, 1, 3>>])
    \cup Unary("Rotate", [axis |-> 2, turns |-> 1]) \cup Unary("Rotate", [axis |-> 1, turns |-> 0])
    \cup Unary("ApplyTRS", [trs |-> TRS2])
    \cup Unary("TranslateAttr", [id |-> 2, v |-> P(0, 1, 0)]) \cup Unary("TranslateAttr", [id |-> 3, v |-> P(0, 0, 0)])
    \cup Unary("ScaleAttr", [id |-> 1, origin |-> P(1, 1, 1), s |-> <<2, 2, 2>>])
    \cup Unary("ScaleAttr", [id |-> 2, origin |-> P(0, 0, 0), s |-> <<2, 3, 1>>])      \* exact zero origin, not Position
    \cup Unary("ScaleAttr", [id |-> 3, origin |-> P(0, 0, 0), s |-> <<1, 1, 1>>])      \* identity scale
    \cup Unary("RotateAttr", [id |-> 2, axis |-> 1, turns |-> 3])
    \cup Unary("CenterAttr", [id |-> 1])
    \cup Unary("ToPointCloud", Z)
    \cup Unary("Unweld", Z)
    \cup Unary("RemoveUnreferenced", Z)
    \cup Unary("FlipWinding", Z)
    \cup Unary("Weld", [id |-> 1, p10 |-> 1])
    \cup Unary("RemoveNullFaces", [id |-> 1])
    \cup Unary("Split", [k |-> 1]) \cup Unary("Split", [k |-> 2])
    \cup Unary("Filter", [ar |-> 1, id |-> 6, thr |-> 2 * Q])
    \cup Unary("Crop", [id |-> 1, lo |-> P(1, 0, 0), hi |-> P(5, 3, 3)])
    \cup Unary("Repeat", [trss |-> <<TRS1, TRS2>>])
    \cup Unary("Normalize", [id |-> 1]) \cup Unary("Normalize", [id |-> 2])
    \cup Unary("FlatNormals", Z) \cup Unary("SmoothNormals", Z)
    \cup Unary("Laplacian", [id |-> 1, iters |-> 1, lam2 |-> 2]) \cup Unary("Laplacian", [id |-> 1, iters |-> 3, lam2 |-> 1])
    \cup NoRes("Export", [fmt |-> "ply-le"]) \cup NoRes("Export", [fmt |-> "obj"])
    \cup NoRes("Export", [fmt |-> "glb"]) \cup NoRes("Export", [fmt |-> "stl"]) \cup NoRes("Export", [fmt |-> "gltf"])
    \cup NoRes("Scan", Z)
    \* primitives entering the pool (they share package-level tables): welded cubes incl. a mirrored one, quads cube, sphere
    \cup {[op |-> "Prim", dst |-> d, src |-> <<>>, args |-> [gen |-> c[1], p |-> c[2]]] :
            d \in NewSlots, c \in {<<3, <<2, 2, 2, 0>>>>, <<3, <<0 - 4, 6, 8, 1>>>>, <<4, <<2, 4, 6, 0>>>>, <<1, <<2, 2, 3, 0>>>>}}
    \* windows of one longer array handed to two meshes
    \cup Unary("SetAttrWindow", [ar |-> 1, id |-> 13, n |-> 4, data |-> <<<<Q>>, <<2 * Q>>, <<3 * Q>>, <<4 * Q>>, <<5 * Q>>, <<6 * Q>>>>])
    \cup Unary("SetAttrWindow", [ar |-> 1, id |-> 13, n |-> 6, data |-> <<<<Q>>, <<2 * Q>>, <<3 * Q>>, <<4 * Q>>, <<5 * Q>>, <<6 * Q>>>>])
    \cup Unary("SetAttrWindow", [ar |-> 1, id |-> 13, n |-> 5, data |-> <<<<Q>>, <<2 * Q>>, <<3 * Q>>, <<4 * Q>>, <<5 * Q>>, <<6 * Q>>>>])
    \* operations without a reference value in the model (slice by plane, scale along normal, 2D normalise/scale,
    \* implicit-weld normals, colour space, Laplacian along an axis, clear / replace attribute maps, transformer
    \* chains): their result is dropped by the generator, but frame and well-formedness are judged
    \cup UNION {NoRes("Misc", [kind |-> kd, k |-> 1 + (kd % 2)]) : kd \in 1..11}

Init == pool = [s \in Slots |-> NullMesh] /\ hist = <<>> /\ noop = FALSE

Do(st) ==
    /\ st.op \in Ops
    /\ Pre(st, pool)
    /\ LET e == Expect(st, pool)
           \* off-lattice results are not representable: the generator continues with a placeholder
           \* (target attribute zeroed); the trace judge re-synchronises on the observed value anyway
           r == IF st.op \in AttrOps /\ IsMesh(e)
                THEN SetAttr(e, 3, AttrTarget(st), ZeroData(3, AttrLen(e)))
                ELSE IF st.op = "Prim" THEN BaseTris      \* placeholder: the real primitive is only known to the judge
                ELSE e
       IN
         /\ IF st.dst = 0 THEN pool' = pool
            ELSE IF IsFail(r) THEN pool' = pool       \* the contract says the call FAILS: nothing is stored
            ELSE IsMesh(r) /\ Len(r.idx) <= 12 /\ pool' = [pool EXCEPT ![st.dst] = r]
    /\ hist' = Append(hist, st)
    /\ noop' = (pool' = pool)

\* Steps that leave the pool unchanged all lead to the same pool: the VIEW keeps them apart by their last step
\* (otherwise only ONE exporter / scan / failing call per pool state would ever be emitted), and they are not
\* expanded further (their subtree is the parent's, one step later).
\* (a random walk - Walk = TRUE, no VIEW - simply goes on after such a step)
Next == Len(hist) < Depth /\ (Walk \/ ~noop) /\ \E st \in Candidates : Do(st)

Spec == Init /\ [][Next]_vars

(* ---------------- properties of the specification itself -------------- *)
Immutable ==       \* C01 as an action property
    [][\A s \in Slots : (IsMesh(pool[s]) /\ s # hist'[Len(hist')].dst) => pool'[s] = pool[s]]_vars

Closed == \A s \in Slots : IsNull(pool[s]) \/ (WellFormed(pool[s]) /\ SortedAttrs(pool[s]))       \* C02

Laws ==
    \A s \in Slots : IsMesh(pool[s]) =>
        /\ LawFlipFlip(pool[s])
        /\ LawUnweldCorners(pool[s])
        /\ LawRemoveUnref(pool[s])
        /\ LawWeldUnweld(pool[s])
        /\ \A t \in Slots : IsMesh(pool[t]) => LawAppendWF(pool[s], pool[t])

(* ---------------- generator output ------------------------------------ *)
\* evaluated (as an invariant) once per distinct VIEW; prints the history as JSON
Emit == hist = <<>> \/ PrintT(ToJson([nslots |-> NSlots, steps |-> hist]))

\* simulation mode: print only complete walks (TLC evaluates invariants on every candidate successor)
EmitLeaf == Len(hist) < Depth \/ PrintT(ToJson([nslots |-> NSlots, steps |-> hist]))

View == <<pool, Len(hist), IF noop THEN hist[Len(hist)] ELSE <<>>>>
=============================================================================
