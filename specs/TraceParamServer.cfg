CONSTANTS NP = 2 NN = 4
SPECIFICATION TSpec
POSTCONDITION Report
CHECK_DEADLOCK FALSE
