CONSTANTS NP = 3 NN = 5
SPECIFICATION TSpec
POSTCONDITION Report
CHECK_DEADLOCK FALSE
