---------------------------- MODULE SplatFormat ----------------------------
(***************************************************************************)
(* Gaussian-splat codecs (C15): the packed layouts as laws over byte       *)
(* arrays and the contracts of the three codecs, in exact integer units.   *)
(*                                                                         *)
(* 1. SPZ (published layout, versions 1 and 2).  Stream = 16 byte header   *)
(*    [magic, version, n, shDegree, fractionalBits, flags, reserved] then  *)
(*    the planar arrays positions, alphas, colours, scales, rotations, SH. *)
(*    Off(field, i, c) is the offset (0-based, after the header) of        *)
(*    component c of splat i; "field f of splat i is the dequantisation of *)
(*    the bytes at Off(f, i, .)".  Dequantised values are exact rationals: *)
(*      position v2  sign-extended 24 bit little-endian * 2^-fractionalBits*)
(*      position v1  IEEE half float                                       *)
(*         both as normal form  m * 2^e  with m odd (or 0), or nan / inf   *)
(*      alpha   a/255                 (unit 1/255:  q = a)                 *)
(*      colour  (c/255 - 1/2)/0.15    (unit 1/153:  q = 4c - 510)          *)
(*      scale   s/16 - 10             (unit 1/16:   q = s - 160)           *)
(*      rot xyz r/127.5 - 1           (unit 1/255:  q = 2r - 255)          *)
(*      rot w   sqrt(max(0, 1 - |xyz|^2))  (unit 1/16320, band +-1)        *)
(*      SH      (x - 128)/128         (unit 1/128:  q = x - 128)           *)
(*    (alpha is the code's own raw a/255, DESIGN C15: not a layout matter) *)
(*                                                                         *)
(* 2. .splat: 32 byte records: 3 f32 position, 3 f32 exp(scale), rgba      *)
(*    bytes, 4 rotation bytes.  Round trip contract: count and order       *)
(*    preserved, position bit-exact float32, scale within float32 rounding *)
(*    of exp/log, colour / opacity / rotation within one 8-bit step        *)
(*    (colours clamp to the displayable range).  Units: float32 bit        *)
(*    patterns as two 16 bit halves; scale in 2^-20; byte-coded fields in  *)
(*    1/1000 of an 8-bit step.                                             *)
(*                                                                         *)
(* 3. splat PLY export: every splat attribute is a float property of the   *)
(*    vertex element (PropName) holding float32(value) bit-exactly.        *)
(*                                                                         *)
(* int32 budget: |m| < 2^31 by projection, 24 bit values * 1, milli-steps  *)
(* saturated at 2^30 by the projection, scale |s| <= 80 -> 80 * 2^20 < 2^27*)
(***************************************************************************)
EXTENDS Integers, Sequences, FiniteSets

\* ------------------------------------------------------------- SPZ law ---
ShDim(deg) == CASE deg = 0 -> 0 [] deg = 1 -> 3 [] deg = 2 -> 8 [] deg = 3 -> 15
PosSize(version) == IF version = 1 THEN 2 ELSE 3

\* hdr = <<version, n, shDegree, fractionalBits>>
BaseAlpha(hdr) == 3 * hdr[2] * PosSize(hdr[1])
BaseColor(hdr) == BaseAlpha(hdr) + hdr[2]
BaseScale(hdr) == BaseColor(hdr) + 3 * hdr[2]
BaseRot(hdr) == BaseScale(hdr) + 3 * hdr[2]
BaseSh(hdr) == BaseRot(hdr) + 3 * hdr[2]
PayloadLen(hdr) == BaseSh(hdr) + 3 * hdr[2] * ShDim(hdr[3])

\* i, c, d are 0-based
OffPos(hdr, i, c) == (3 * i + c) * PosSize(hdr[1])
OffAlpha(hdr, i) == BaseAlpha(hdr) + i
OffColor(hdr, i, c) == BaseColor(hdr) + 3 * i + c
OffScale(hdr, i, c) == BaseScale(hdr) + 3 * i + c
OffRot(hdr, i, c) == BaseRot(hdr) + 3 * i + c
OffSh(hdr, i, d, c) == BaseSh(hdr) + i * 3 * ShDim(hdr[3]) + 3 * d + c

\* every byte of the payload is named by exactly one (field, i, c[, d][, byte])
Slots(hdr) ==
    LET n == hdr[2] IN
    { <<"pos", i, c, b, OffPos(hdr, i, c) + b>> : i \in 0..(n - 1), c \in 0..2, b \in 0..(PosSize(hdr[1]) - 1) }
    \cup { <<"alpha", i, 0, 0, OffAlpha(hdr, i)>> : i \in 0..(n - 1) }
    \cup { <<"color", i, c, 0, OffColor(hdr, i, c)>> : i \in 0..(n - 1), c \in 0..2 }
    \cup { <<"scale", i, c, 0, OffScale(hdr, i, c)>> : i \in 0..(n - 1), c \in 0..2 }
    \cup { <<"rot", i, c, 0, OffRot(hdr, i, c)>> : i \in 0..(n - 1), c \in 0..2 }
    \cup { <<"sh", i, c, d, OffSh(hdr, i, d, c)>> : i \in 0..(n - 1), c \in 0..2, d \in 0..(ShDim(hdr[3]) - 1) }
TilesPayload(hdr) ==
    LET s == Slots(hdr) IN
    /\ Cardinality(s) = PayloadLen(hdr)                       \* as many slots as bytes
    /\ {x[5] : x \in s} = 0..(PayloadLen(hdr) - 1)            \* no gap, no overlap

\* ------------------------------------------- arrays and the size ladder ---
(***************************************************************************)
(* The arrays of the layout in stream order and, for a delivery            *)
(* granularity g (the consumer of the stream is handed bytes in pieces     *)
(* that end at every multiple of g: 32768 for the inflate window, 4096 for *)
(* a bufio buffer, anything for an arbitrary io.Reader), the point counts  *)
(* for which such a boundary falls STRICTLY INSIDE a given array.  Offsets *)
(* are offsets of the uncompressed stream (header included).               *)
(***************************************************************************)
HdrLen == 16
Arrays == <<"pos", "alpha", "color", "scale", "rot", "sh">>
NextArr(a) == CASE a = "pos" -> "alpha" [] a = "alpha" -> "color" [] a = "color" -> "scale"
                [] a = "scale" -> "rot" [] a = "rot" -> "sh" [] a = "sh" -> "end"
ArrBase(hdr, a) == CASE a = "pos" -> 0 [] a = "alpha" -> BaseAlpha(hdr) [] a = "color" -> BaseColor(hdr)
                     [] a = "scale" -> BaseScale(hdr) [] a = "rot" -> BaseRot(hdr) [] a = "sh" -> BaseSh(hdr)
                     [] a = "end" -> PayloadLen(hdr)
ArrLo(hdr, a) == HdrLen + ArrBase(hdr, a)                 \* stream offset of the first byte
ArrHi(hdr, a) == HdrLen + ArrBase(hdr, NextArr(a))        \* stream offset after the last byte
\* some multiple of g lies strictly between the first and the last byte of the array
Split(hdr, a, g) == ((ArrLo(hdr, a) \div g) + 1) * g < ArrHi(hdr, a)
\* the arrays of a stream that a delivery of granularity g cuts
SplitArrays(hdr, g) == {Arrays[k] : k \in {x \in 1..6 : Split(hdr, Arrays[x], g)}}
\* the first array (in stream order) that the delivery cuts; "" if none
FirstSplit(hdr, g) ==
    LET sp == {x \in 1..6 : Split(hdr, Arrays[x], g)}
    IN IF sp = {} THEN "" ELSE Arrays[CHOOSE x \in sp : \A y \in sp : x <= y]
\* least point count for which the k-th multiple of g (k <= 64) cuts array a, preferring
\* counts for which a is the FIRST array cut (a decoder that mishandles a short read is
\* then wrong from exactly that array on); 0: none.
\* For a fixed k the array [16 + al*N, 16 + be*N) contains k*g strictly iff
\* al*N < k*g - 16 < be*N, so the least N is (k*g - 16) \div be + 1 if that one qualifies.
LadderCount(version, deg, a, g) ==
    LET u == <<version, 1, deg, 0>>
        be == ArrBase(u, NextArr(a))
        cand == IF be = 0 THEN {} ELSE {((k * g - HdrLen) \div be) + 1 : k \in 1..64}
        ok == {n \in cand : n >= 1 /\ Split(<<version, n, deg, 0>>, a, g)}
        first == {n \in ok : FirstSplit(<<version, n, deg, 0>>, g) = a}
        Least(S) == CHOOSE x \in S : \A y \in S : x <= y
    IN IF ok = {} THEN 0 ELSE IF first # {} THEN Least(first) ELSE Least(ok)

\* ------------------------------------------------- boundary value ladders ---
RECURSIVE Pow2(_)
Pow2(k) == IF k = 0 THEN 1 ELSE 2 * Pow2(k - 1)
\* a k-bit field (unsigned or two's complement): 0, 1, 2^(k-1)-1, 2^(k-1), 2^(k-1)+1, 2^k-1
LadderSeq(k) == <<0, 1, Pow2(k - 1) - 1, Pow2(k - 1), Pow2(k - 1) + 1, Pow2(k) - 1>>
\* half floats: the 16 bit ladder, then -0 is 2^15 already; largest subnormal, least normal,
\* largest finite, +inf, -inf, quiet nan, 1.0, -largest finite
HalfLadder == LadderSeq(16) \o <<1023, 1024, 31743, 31744, 64512, 32256, 15360, 64511>>
\* the fractional-bit count is an 8 bit header field; the interesting values are its own
\* ladder and the neighbours of every machine word width a shift could be computed in
FbLadderSet == ({LadderSeq(8)[k] : k \in 1..6}
                \cup UNION {{w - 2, w - 1, w, w + 1} : w \in {8, 16, 24, 32, 64, 128}}) \cap 0..255

\* -------------------------------------------------------- content patterns --
\* byte j (0-based) of the payload as a function of the index, so that neither
\* the cases nor the traces need to carry the bytes of large streams
PlainByte(pat, j) ==
    CASE pat = "perm" -> (37 * j + 11) % 256
      [] pat = "perm2" -> (91 * j + 200) % 256
      [] pat = "ff" -> 255
      [] pat = "80" -> 128
      [] pat = "00" -> 0
      [] pat = "7f80" -> IF j % 2 = 0 THEN 127 ELSE 128
      [] pat = "p251" -> (7 * (j % 251) + 3) % 256       \* period 251: prime, coprime to every stride and to every g
\* "edge": every position word runs through the ladder of its width (24 bit fixed point
\* or half float), rotated by the coordinate so that every coordinate meets every value;
\* every byte field runs through the 8 bit ladder in the same manner
EdgeByte(hdr, j) ==
    LET psz == PosSize(hdr[1]) IN
    IF j < BaseAlpha(hdr)
    THEN LET w == j \div psz
             lad == IF hdr[1] = 1 THEN HalfLadder ELSE LadderSeq(24)
             v == lad[(((w \div 3) + (w % 3)) % Len(lad)) + 1]
         IN (v \div Pow2(8 * (j % psz))) % 256
    ELSE LET jj == j - BaseAlpha(hdr) IN LadderSeq(8)[(((jj \div 3) + (jj % 3)) % 6) + 1]
PatByte(pat, hdr, j) == IF pat = "edge" THEN EdgeByte(hdr, j) ELSE PlainByte(pat, j)
PatPayload(pat, hdr) == [j \in 1..PayloadLen(hdr) |-> PatByte(pat, hdr, j - 1)]
PatPeriod(pat) == IF pat = "p251" THEN 251 ELSE 0        \* period of the decoded arrays in the point index (0: none used)

\* ------------------------------------------------------- dequantisers ----
\* exact dyadic value m * 2^e in normal form; kind 0 finite, 1 nan, 2 +inf, 3 -inf
RECURSIVE NormPos(_, _)
NormPos(m, e) == IF m % 2 = 0 THEN NormPos(m \div 2, e + 1) ELSE <<m, e>>
Dyadic(m, e) ==
    IF m = 0 THEN <<0, 0, 0>>
    ELSE LET p == NormPos(IF m < 0 THEN -m ELSE m, e) IN <<0, IF m < 0 THEN -p[1] ELSE p[1], p[2]>>

Half(lo, hi) ==
    LET h == lo + 256 * hi
        neg == h >= 32768
        ex == (h \div 1024) % 32
        man == h % 1024
    IN IF ex = 31 THEN (IF man # 0 THEN <<1, 0, 0>> ELSE IF neg THEN <<3, 0, 0>> ELSE <<2, 0, 0>>)
       ELSE IF ex = 0 THEN Dyadic(IF neg THEN -man ELSE man, -24)
       ELSE Dyadic(IF neg THEN -(1024 + man) ELSE 1024 + man, ex - 25)

Fixed24(b0, b1, b2, fb) ==
    LET u == b0 + 256 * b1 + 65536 * b2
        s == IF u >= 8388608 THEN u - 16777216 ELSE u
    IN Dyadic(s, -fb)

\* pay: the payload as a 1-based sequence of bytes
B(pay, off) == pay[off + 1]
DeqPos(hdr, pay, i, c) ==
    LET o == OffPos(hdr, i, c) IN
    IF hdr[1] = 1 THEN Half(B(pay, o), B(pay, o + 1))
    ELSE Fixed24(B(pay, o), B(pay, o + 1), B(pay, o + 2), hdr[4])
DeqAlpha(hdr, pay, i) == B(pay, OffAlpha(hdr, i))
DeqColor(hdr, pay, i, c) == 4 * B(pay, OffColor(hdr, i, c)) - 510
DeqScale(hdr, pay, i, c) == B(pay, OffScale(hdr, i, c)) - 160
DeqRot(hdr, pay, i, c) == 2 * B(pay, OffRot(hdr, i, c)) - 255
DeqSh(hdr, pay, i, d, c) == B(pay, OffSh(hdr, i, d, c)) - 128
\* w = sqrt(max(0, 1 - |xyz|^2)); wq = round(w * 16320) = round(w * 255 * 64):
\* (wq-1)^2 <= 4096 * (65025 - sum of squares of the 1/255 units) <= (wq+1)^2
RotWOk(hdr, pay, i, wq) ==
    LET x == DeqRot(hdr, pay, i, 0)  y == DeqRot(hdr, pay, i, 1)  z == DeqRot(hdr, pay, i, 2)
        r == 65025 - (x * x + y * y + z * z)
        t == 4096 * (IF r < 0 THEN 0 ELSE r)
        lo == IF wq >= 1 THEN wq - 1 ELSE 0
    IN wq >= 0 /\ wq <= 16321 /\ lo * lo <= t /\ t <= (wq + 1) * (wq + 1)

\* --------------------------------------------------- .splat contract -----
Abs(x) == IF x < 0 THEN -x ELSE x
Clamp(x, lo, hi) == IF x < lo THEN lo ELSE IF x > hi THEN hi ELSE x
Step == 1000                  \* one 8-bit step in the logged unit
Slack == 2                    \* rounding of the two projections
ScaleBand == 2                \* 2^-20 units: float32 rounding of exp is 2^-24 relative
WithinStep(byteMilli, origMilli) == Abs(byteMilli - origMilli) <= Step + Slack

\* ------------------------------------------------ splat PLY contract -----
\* property name of component c (1-based) of a splat attribute
PropName(attr, c) ==
    CASE attr = "Position" -> <<"x", "y", "z">>[c]
      [] attr = "Normal" -> <<"nx", "ny", "nz">>[c]
      [] attr = "FDC" -> <<"f_dc_0", "f_dc_1", "f_dc_2">>[c]
      [] attr = "Scale" -> <<"scale_0", "scale_1", "scale_2">>[c]
      [] attr = "Rotation" -> <<"rot_0", "rot_1", "rot_2", "rot_3">>[c]
      [] attr = "Opacity" -> "opacity"
      [] OTHER -> attr            \* f_rest_k scalars keep their name
=============================================================================
