------------------------------- MODULE StlGen -------------------------------
(***************************************************************************)
(* Generators of C07 cases.                                                *)
(*  Mode = "mesh": every triangle mesh over NV vertices (fixed generic     *)
(*     lattice positions, per-vertex normals) and EVERY index pattern of   *)
(*     at most MaxTris triangles, with and without the Normal attribute:   *)
(*     welded, unwelded, permuted, degenerate (repeated vertex) and        *)
(*     unreferenced vertices all occur.  One behaviour step appends one    *)
(*     index; a case is emitted whenever the index count is a multiple of  *)
(*     three (zero triangles included).                                    *)
(*  Mode = "recs": every list of at most MaxRecs records drawn from six    *)
(*     templates (axis unit normal, zero normal, non-axis unit normal,     *)
(*     non-unit normal, zero normal on a degenerate triangle, non-zero     *)
(*     attribute word); positions shift with the slot.                     *)
(* Positions are integers over Q = 4, normals over Qn (4 for meshes, 60    *)
(* for records so that (36,48,0)/60 is a unit vector).                     *)
(* Checked on the specification itself: Layout (field sizes add up to the  *)
(* 50-byte record and the 84 + 50 n law), MeanDefined (no generated mesh   *)
(* has corner normals that cancel, so the contract is defined on all of    *)
(* them), InBudget (every generated coordinate is within the int32 budget  *)
(* of StlFormat).                                                          *)
(***************************************************************************)
EXTENDS StlFormat, Json

CONSTANTS Mode, NVs, MaxTris, MaxRecs

VARIABLES nv, hasN, idx, recs
vars == <<nv, hasN, idx, recs>>

Q == 4
PosTab == <<<<0, 0, 0>>, <<16, 0, 4>>, <<0, 24, -4>>, <<-12, 8, 40>>, <<7, -9, 11>>>>
NrmTab == <<<<0, 0, 4>>, <<4, 0, 4>>, <<0, -4, 8>>, <<1, 2, 3>>, <<-3, 1, 2>>>>

Mesh == [idx |-> idx, pos |-> [j \in 1..nv |-> PosTab[j]],
         nrm |-> IF hasN THEN [j \in 1..nv |-> NrmTab[j]] ELSE <<>>]

TriA == <<<<0, 0, 0>>, <<8, 0, 0>>, <<0, 8, 0>>>>
TriB == <<<<4, 4, 4>>, <<4, 20, 8>>, <<-8, 4, 12>>>>
TriC == <<<<1, 2, 3>>, <<-5, 9, 2>>, <<6, 6, -7>>>>
TriD == <<<<2, 2, 2>>, <<2, 2, 2>>, <<9, 1, 0>>>>              \* degenerate
Shift(tri, s) == [c \in 1..3 |-> <<tri[c][1] + 4 * s, tri[c][2], tri[c][3] - s>>]
Template(k, s) ==
    CASE k = 1 -> [n |-> <<0, 0, 60>>, v |-> Shift(TriA, s), a |-> 0]
      [] k = 2 -> [n |-> <<0, 0, 0>>, v |-> Shift(TriB, s), a |-> 0]
      [] k = 3 -> [n |-> <<36, 48, 0>>, v |-> Shift(TriC, s), a |-> 0]
      [] k = 4 -> [n |-> <<0, -120, 0>>, v |-> Shift(TriA, s + 1), a |-> 0]
      [] k = 5 -> [n |-> <<0, 0, 0>>, v |-> Shift(TriD, s), a |-> 0]
      [] OTHER -> [n |-> <<0, 0, -60>>, v |-> Shift(TriB, s), a |-> 7]

Init ==
    IF Mode = "mesh" THEN nv \in NVs /\ hasN \in BOOLEAN /\ idx = <<>> /\ recs = <<>>
    ELSE nv = 0 /\ hasN = FALSE /\ idx = <<>> /\ recs = <<>>

Next ==
    IF Mode = "mesh"
    THEN /\ Len(idx) < 3 * MaxTris
         /\ \E i \in 0..(nv - 1) : idx' = Append(idx, i)
         /\ UNCHANGED <<nv, hasN, recs>>
    ELSE /\ Len(recs) < MaxRecs
         /\ \E k \in 1..6 : recs' = Append(recs, Template(k, Len(recs)))
         /\ UNCHANGED <<nv, hasN, idx>>
Spec == Init /\ [][Next]_vars

(* ---------------- properties of the specification itself -------------- *)
Layout == /\ RecSize = 50 /\ FileSize(0) = 84 /\ Len(RecFields) = 13
          /\ \A i \in 1..4 : RecOffset(i + 1) - RecOffset(i) = 50 /\ FileSize(i) = RecOffset(i + 1)
MeanDefined ==
    (Mode = "mesh" /\ hasN /\ Len(idx) % 3 = 0) =>
        \A t \in 1..NTris(Mesh) : LET n == TriNrm(Mesh, t) IN Add3(n[1], n[2], n[3]) # Zero3
InBudget == /\ \A j \in 1..nv : PInBudget(PosTab[j])
            /\ \A t \in DOMAIN recs : GeoOk(recs[t].v)

(* ---------------- generator output ------------------------------------ *)
MeshCase(tag) == [k |-> "sw", tag |-> tag, enc |-> "lat", q |-> Q, qn |-> 4, mesh |-> Mesh]
RecsCase(tag) == [k |-> "sr", tag |-> tag, enc |-> "lat", q |-> Q, qn |-> 60, gen |-> recs]
Emit ==
    IF Mode = "mesh" THEN Len(idx) % 3 # 0 \/ PrintT(ToJson(MeshCase("bfs")))
    ELSE PrintT(ToJson(RecsCase("bfs")))
EmitLeaf ==
    IF Mode = "mesh" THEN Len(idx) < 3 * MaxTris \/ PrintT(ToJson(MeshCase("sim")))
    ELSE Len(recs) < MaxRecs \/ PrintT(ToJson(RecsCase("sim")))
=============================================================================
