---------------------------- MODULE CountReader ----------------------------
(***************************************************************************)
(* Implementation-shaped (L2) model of the count-driven record loop of     *)
(* colmap.ReadPoints3DBinary over bitlib.Reader, on a file that ends after *)
(* K bytes.  Never used for verdicts: it explains on the specification     *)
(* why a strict prefix can panic, and which repair removes that.           *)
(*                                                                         *)
(* bitlib.Reader keeps an 8 byte scratch buffer and a sticky error:        *)
(*     if r.err != nil { return 0 }                                        *)
(*     _, r.err = io.ReadFull(r.in, r.buf[:size])                          *)
(*     return decode(r.buf)                 <- also after a short read     *)
(* After a short read of a bytes the value is made of the a bytes that     *)
(* arrived and 8 - a STALE bytes of an earlier field.  Its magnitude is    *)
(* that of the stale high bytes: hi = "big" after a full 8 byte read of a  *)
(* binary64 number that is not 0 (a coordinate, the reprojection error),   *)
(* "small" after a count / id below 2^32.  1 and 4 byte reads leave the    *)
(* high bytes alone.                                                       *)
(*                                                                         *)
(* The loop allocates make([]T, count): a "big" count panics.              *)
(*   ZeroOnShort = FALSE  the reader as it is: NoPanic is violated         *)
(*   ZeroOnShort = TRUE   a short read yields 0: NoPanic, Reports,         *)
(*                        NoFabrication, Bounded and Terminates hold       *)
(***************************************************************************)
EXTENDS Integers, Sequences, TLC

CONSTANTS NPoints, NTracks, ZeroOnShort

\* the fields of one point in reading order: <<size, what a full read leaves in the high scratch bytes>>
PointFields == <<<<8, "small">>, <<8, "big">>, <<8, "big">>, <<8, "big">>, <<1, "keep">>, <<1, "keep">>,
                 <<1, "keep">>, <<8, "big">>>>
TrackFields == <<<<4, "keep">>, <<4, "keep">>>>
PointSize == 43 + 8 + 8 * NTracks
Total == 8 + NPoints * PointSize

VARIABLES K, off, err, hi, pc, fld, points, tracks, steps, made
vars == <<K, off, err, hi, pc, fld, points, tracks, steps, made>>
\* made: records completed while no read had failed

Init == /\ K \in 0..Total /\ off = 0 /\ err = FALSE /\ hi = "small" /\ pc = "count" /\ fld = 1
        /\ points = 0 /\ tracks = 0 /\ steps = 0 /\ made = 0

\* the result class of one read: "true" (the file's value), "zero", "small" (garbage below 2^32), "big"
ReadClass(size) ==
    IF err THEN "zero"
    ELSE IF off + size <= K THEN "true"
    ELSE IF ZeroOnShort THEN "zero"
    ELSE IF size = 8 /\ hi = "big" THEN "big" ELSE "small"
Read(size, leaves) ==
    /\ err' = (err \/ off + size > K)
    /\ off' = IF err THEN off ELSE IF off + size <= K THEN off + size ELSE K
    /\ hi' = IF ~err /\ off + size <= K /\ leaves # "keep" THEN leaves ELSE hi
    /\ steps' = steps + 1

\* a garbage count below 2^32 may be anything: the model lets it be any number up to the true one + 1
CountValues(class, truth) ==
    CASE class = "true" -> {truth} [] class = "zero" -> {0} [] class = "small" -> 0..(truth + 1) [] OTHER -> {}

ReadCount ==
    /\ pc = "count" /\ Read(8, "small")
    /\ LET c == ReadClass(8) IN
         IF c = "big" THEN pc' = "panic" /\ UNCHANGED <<points, tracks, fld, made>>
         ELSE /\ points' \in CountValues(c, NPoints) /\ UNCHANGED <<tracks, made>> /\ fld' = 1
              /\ pc' = IF points' = 0 THEN "done" ELSE "point"
ReadField ==
    /\ pc = "point" /\ fld <= Len(PointFields) /\ Read(PointFields[fld][1], PointFields[fld][2])
    /\ fld' = fld + 1 /\ pc' = (IF fld = Len(PointFields) THEN "ntrack" ELSE "point")
    /\ UNCHANGED <<points, tracks, made>>
ReadNTrack ==
    /\ pc = "ntrack" /\ Read(8, "small")
    /\ LET c == ReadClass(8) IN
         IF c = "big" THEN pc' = "panic" /\ UNCHANGED <<points, tracks, fld, made>>
         ELSE /\ tracks' \in CountValues(c, NTracks) /\ fld' = 1 /\ UNCHANGED <<points, made>>
              /\ pc' = IF tracks' = 0 THEN "next" ELSE "track"
ReadTrack ==
    /\ pc = "track" /\ Read(TrackFields[fld][1], TrackFields[fld][2])
    /\ IF fld = 2 THEN /\ tracks' = tracks - 1 /\ fld' = 1 /\ pc' = (IF tracks = 1 THEN "next" ELSE "track")
       ELSE fld' = 2 /\ UNCHANGED <<tracks, pc>>
    /\ UNCHANGED <<points, made>>
NextPoint ==
    /\ pc = "next" /\ points' = points - 1 /\ fld' = 1 /\ pc' = (IF points = 1 THEN "done" ELSE "point")
    /\ made' = (IF err THEN made ELSE made + 1)
    /\ UNCHANGED <<off, err, hi, tracks, steps>>

Next == (ReadCount \/ ReadField \/ ReadNTrack \/ ReadTrack \/ NextPoint) /\ UNCHANGED K
Spec == Init /\ [][Next]_vars /\ WF_vars(Next)

NoPanic == pc # "panic"
\* a strict prefix is reported (the sticky error is what the caller gets) and the complete file is not
Reports == pc = "done" => (err <=> K < Total)
\* records completed without error never exceed the records wholly present
NoFabrication == made <= (IF K < 8 THEN 0 ELSE (K - 8) \div PointSize)
Bounded == steps <= 1 + (NPoints + 1) * (Len(PointFields) + 1 + 2 * (NTracks + 1))
Terminates == <>(pc \in {"done", "panic"})
=============================================================================
