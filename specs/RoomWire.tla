------------------------------- MODULE RoomWire -------------------------------
(***************************************************************************)
(* X02 - the binary messages of generator/room/binary_message.go as a      *)
(* format specification: a frame is a sequence of bytes (0..255),          *)
(*     frame   = <type> data                                               *)
(*     id      = 128  id-bytes                                             *)
(*     bcast   = 131  payload                                              *)
(*     state   = 129  ver(4, little endian) scene(27) n(1) player^n        *)
(*     player  = str(id) str(name) k(1) object^k      str(s) = len(1) s    *)
(*     object  = 29 bytes (type, 3 x float32 position, 4 x float32 rot.)   *)
(*     orientation payload (client -> hub) = object^k                      *)
(* A room state is [ver, scene, pl] with pl : id -> [name, rep]; ids and   *)
(* names are byte sequences, rep a sequence of 29-byte objects, floats are *)
(* the bytes of their IEEE pattern (never interpreted).  StateDecode is    *)
(* the denotation of a frame; StateEncode(st, order) the frame a writer    *)
(* emits when it walks the players in `order` WITH THE CODE'S one-byte     *)
(* length fields (value mod 256).  InDomain says which states the format   *)
(* can carry; RoundTrip (checked by TLC in RoomWireMC) says Decode is a    *)
(* left inverse of Encode exactly there.                                   *)
(***************************************************************************)
EXTENDS Integers, Sequences, FiniteSets, TLC

ObjSize == 29
SceneSize == 27
TId == 128
TState == 129
TBcast == 131

Ext(f, k, v) == [x \in DOMAIN f \cup {k} |-> IF x = k THEN v ELSE f[x]]
Restrict(f, S) == [x \in S |-> f[x]]
SeqSet(s) == {s[i] : i \in DOMAIN s}
IsPrefix(a, b) == Len(a) <= Len(b) /\ a = SubSeq(b, 1, Len(a))

\* the three flags of a scene are booleans: any non-zero byte reads as 1
CanonScene(s) == [i \in DOMAIN s |-> IF i <= 3 /\ s[i] # 0 THEN 1 ELSE s[i]]

Chunks(p) == [i \in 1..(Len(p) \div ObjSize) |-> SubSeq(p, (i - 1) * ObjSize + 1, i * ObjSize)]
\* Floats are opaque bit patterns, with one exclusion: signalling NaNs (exponent all ones, quiet bit clear, mantissa
\* not zero).  Go's reflective encoding/binary moves float32 through float64, which quiets them on amd64 - platform
\* behaviour, not polyform's.  at = index of the float's first (least significant) byte.
SNaNAt(p, at) ==
    /\ p[at + 3] % 128 = 127 /\ p[at + 2] >= 128 /\ (p[at + 2] % 128) < 64
    /\ ((p[at + 2] % 64) # 0 \/ p[at + 1] # 0 \/ p[at] # 0)
HasSNaN(p) == \E k \in 0..((Len(p) \div ObjSize) - 1), f \in 0..6 : SNaNAt(p, k * ObjSize + 2 + 4 * f)
RECURSIVE Flat(_)
Flat(s) == IF s = <<>> THEN <<>> ELSE Head(s) \o Flat(Tail(s))

(* ---------------- denotation of a state frame ---------------------------- *)
StrAt(b, pos) ==
    IF pos > Len(b) \/ pos + b[pos] > Len(b) THEN [ok |-> FALSE, s |-> <<>>, next |-> pos]
    ELSE [ok |-> TRUE, s |-> SubSeq(b, pos + 1, pos + b[pos]), next |-> pos + 1 + b[pos]]

NoPlayers == [ok |-> FALSE, pl |-> <<>>, dup |-> FALSE, next |-> 0]
RECURSIVE PlayersAt(_, _, _, _, _)
PlayersAt(b, pos, n, acc, dup) ==
    IF n = 0 THEN [ok |-> TRUE, pl |-> acc, dup |-> dup, next |-> pos]
    ELSE LET id == StrAt(b, pos) IN
         IF ~id.ok THEN NoPlayers
         ELSE LET nm == StrAt(b, id.next) IN
              IF ~nm.ok \/ nm.next > Len(b) THEN NoPlayers
              ELSE LET end == nm.next + b[nm.next] * ObjSize IN
                   IF end > Len(b) THEN NoPlayers
                   ELSE PlayersAt(b, end + 1, n - 1,
                                  Ext(acc, id.s, [name |-> nm.s, rep |-> Chunks(SubSeq(b, nm.next + 1, end))]),
                                  dup \/ id.s \in DOMAIN acc)

NoState == [ok |-> FALSE, ver |-> <<>>, scene |-> <<>>, pl |-> <<>>]
\* data = the frame without its type byte; ok = well formed, no id twice, and consumed to the last byte
StateDecode(data) ==
    IF Len(data) < 4 + SceneSize + 1 THEN NoState
    ELSE LET r == PlayersAt(data, 4 + SceneSize + 2, data[4 + SceneSize + 1], <<>>, FALSE) IN
         IF ~r.ok \/ r.dup \/ r.next # Len(data) + 1 THEN NoState
         ELSE [ok |-> TRUE, ver |-> SubSeq(data, 1, 4), scene |-> CanonScene(SubSeq(data, 5, 4 + SceneSize)), pl |-> r.pl]

(* ---------------- the writer, with the code's one-byte length fields ----- *)
EncStr(s) == <<Len(s) % 256>> \o s
EncPlayer(id, p) == EncStr(id) \o EncStr(p.name) \o <<Len(p.rep) % 256>> \o Flat(p.rep)
RECURSIVE EncPlayers(_, _)
EncPlayers(pl, order) == IF order = <<>> THEN <<>> ELSE EncPlayer(Head(order), pl[Head(order)]) \o EncPlayers(pl, Tail(order))
\* order: the ids of st.pl in the order the writer visits the map
StateEncode(st, order) == st.ver \o st.scene \o <<Len(order) % 256>> \o EncPlayers(st.pl, order)

PlayerInDomain(id, p) == Len(id) <= 255 /\ Len(p.name) <= 255 /\ Len(p.rep) <= 255
PlayersInDomain(pl) == Cardinality(DOMAIN pl) <= 255 /\ \A id \in DOMAIN pl : PlayerInDomain(id, pl[id])
InDomain(st) == PlayersInDomain(st.pl)

Denotes(data, st) ==
    LET w == StateDecode(data) IN w.ok /\ w.ver = st.ver /\ w.scene = CanonScene(st.scene) /\ w.pl = st.pl

\* a list of players (JSON) as a function; Distinct says no id occurs twice
PlOfList(list) ==
    [id \in {list[i].id : i \in DOMAIN list} |->
        LET i == CHOOSE i \in DOMAIN list : list[i].id = id IN [name |-> list[i].name, rep |-> list[i].rep]]
Distinct(list) == \A i, j \in DOMAIN list : list[i].id = list[j].id => i = j
=============================================================================
