CONSTANTS
  Depth = 4
  MaxMeshes = 3
  Pals = {1, 2, 3, 4, 5, 6}
SPECIFICATION Spec
INVARIANTS WriterDesign CleanDesign Emit EmitPaths RiskyEmit
CHECK_DEADLOCK FALSE
