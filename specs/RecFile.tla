------------------------------ MODULE RecFile ------------------------------
(***************************************************************************)
(* A file is a trace of typed cells (C14, C15; DESIGN "Formats: the common *)
(* idea").                                                                 *)
(*                                                                         *)
(*   cell == [k |-> kind, o |-> offset, s |-> size, g |-> group]           *)
(*     kind "H"  required framing: header text, counts                     *)
(*          "D"  data cell: one scalar / one token                         *)
(*          "S"  separator or optional framing: a blank, a newline         *)
(*     offsets are positions in the STREAM the reader consumes; for plain  *)
(*     files the stream is the file, for gzip-framed SPZ it is the         *)
(*     uncompressed stream (Avail maps a file cut to a stream length).     *)
(*                                                                         *)
(* The crash action Cut(k) ends the input after k bytes.  What a reader    *)
(* may do with the prefix depends only on which cells are WHOLLY inside:   *)
(*   - it may always report an error;                                      *)
(*   - it may return the complete mesh only when every required cell (H or *)
(*     D) is wholly present, i.e. only trailing separators / framing were  *)
(*     cut;                                                                *)
(*   - record-streamed formats may return the records wholly present.      *)
(* int32 budget: offsets are below 2^22 (files up to 4 MB).                *)
(***************************************************************************)
EXTENDS Integers, Sequences, FiniteSets

End(c) == c.o + c.s
Required(c) == c.k \in {"H", "D"}

\* the cells tile [0, len): contiguous, no overlap, no gap
Tiles(cells, len) ==
    /\ (Len(cells) = 0) => (len = 0)
    /\ (Len(cells) > 0) => (cells[1].o = 0 /\ End(cells[Len(cells)]) = len)
    /\ \A i \in 1..(Len(cells) - 1) : End(cells[i]) = cells[i + 1].o /\ cells[i].s >= 0

MaxOf(S) == IF S = {} THEN 0 ELSE CHOOSE x \in S : \A y \in S : y <= x

\* end of the last required cell: a prefix of at least this many stream
\* bytes lacks nothing but trailing separators
ReqEnd(cells) == MaxOf({End(cells[i]) : i \in {j \in DOMAIN cells : Required(cells[j])}})

\* cells wholly inside the first a stream bytes
Whole(cells, a) == {i \in DOMAIN cells : End(cells[i]) <= a}

Complete(cells, a) == a >= ReqEnd(cells)

\* ---------------------------------------------------------------- gzip ---
\* Stored-block gzip framing: blocks[b] = <<fileOffset, streamOffset, length>>
\* of the data of block b.  Avail(blocks, k) = number of stream bytes that
\* lie wholly inside the first k file bytes.
StoredAvail(blocks, k) ==
    MaxOf({0} \cup { blocks[b][2] + (IF k - blocks[b][1] > blocks[b][3] THEN blocks[b][3] ELSE k - blocks[b][1])
                     : b \in {x \in DOMAIN blocks : k >= blocks[x][1]} })

\* the framing law: 10 byte member header, each block 5 bytes of block
\* header then its data, 8 byte trailer
StoredLaw(blocks, slen, flen) ==
    /\ Len(blocks) >= 1
    /\ blocks[1][1] = 15 /\ blocks[1][2] = 0
    /\ \A b \in 1..(Len(blocks) - 1) :
          /\ blocks[b + 1][1] = blocks[b][1] + blocks[b][3] + 5
          /\ blocks[b + 1][2] = blocks[b][2] + blocks[b][3]
    /\ LET last == blocks[Len(blocks)] IN last[2] + last[3] = slen /\ last[1] + last[3] + 8 = flen

\* the block table the law prescribes for a stream of slen bytes cut into
\* stored blocks of at most blk bytes (blk <= 0: one block)
RECURSIVE StoredBlocksFrom(_, _, _, _)
StoredBlocksFrom(fo, so, slen, blk) ==
    LET n == IF slen - so > blk THEN blk ELSE slen - so IN
    << <<fo + 5, so, n>> >> \o (IF so + n = slen THEN <<>> ELSE StoredBlocksFrom(fo + 5 + n, so + n, slen, blk))
StoredBlocks(slen, blk) == StoredBlocksFrom(10, 0, slen, IF blk <= 0 THEN 65535 ELSE blk)
StoredFileLen(blocks) == LET last == blocks[Len(blocks)] IN last[1] + last[3] + 8

\* ------------------------------------------------------------ cut points --
\* the quantifier of C14: every byte offset for binary (and framed) files;
\* for ASCII files every byte of the header cells and every token boundary
\* of the body
IsHeaderGroup(g) == g \in {"hdr", "count"}
AsciiCutPoints(cells, len) ==
    {k \in 0..(len - 1) :
        \E i \in DOMAIN cells :
            \/ k = cells[i].o \/ k = End(cells[i])
            \/ IsHeaderGroup(cells[i].g) /\ cells[i].o <= k /\ k < End(cells[i])}
=============================================================================
