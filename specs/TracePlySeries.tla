--------------------------- MODULE TracePlySeries ---------------------------
(***************************************************************************)
(* Trace validation of the SERIES cases of the PLY family (PlySeries.tla). *)
(* One line per case, written by `vh ply-exec`:                            *)
(*  {"k":"ser","id","plan","mode","D","ser":s,"probe":[[i, raw...]..],     *)
(*   "wr": OK|FAIL|TIMEOUT|REF, "nbytes", "rd": OK|FAIL|TIMEOUT|SKIP,      *)
(*   "mesh": projection of what the real reader returned}                  *)
(* The judge recomputes the content law of the series; it never reads the  *)
(* bytes.  Each rejected line is printed as JSON {"l","id","bad":[{"p",    *)
(* "why","cls","at"}]} (at: first record that differs, -1 when n/a).       *)
(*   C04 (via "write"): C04.WriteOk, C04.RoundTrip                         *)
(*   C08 (via "ref")  : C08.Loads, C08.Denote                              *)
(*   Harness.SeriesInput: the harness did not build the law's input        *)
(***************************************************************************)
EXTENDS PlySeries

Trace == ndJsonDeserialize("trace.ndjson")

VARIABLES l
vars == <<l>>
Init == l = 1

B(p, why, cls, at) == [p |-> p, why |-> why, cls |-> cls, at |-> at]
RawCls == "ascii-uchar-scalar-raw"

\* the probe rows the harness logged are the law's values
ProbeOK(ln) ==
    LET s == ln.ser
        laws == FlattenSeq([k \in DOMAIN s.attrs |-> s.attrs[k].laws])
    IN /\ ln.D = D0 /\ ln.mode \in {"lat", "bits"}
       /\ Len(ln.probe) >= 1
       /\ \A r \in DOMAIN ln.probe :
             /\ Len(ln.probe[r]) = Len(laws) + 1
             /\ ln.probe[r][1] \in 0..(s.n - 1)
             /\ \A k \in DOMAIN laws : ln.probe[r][k + 1] = Raw(ln.probe[r][1], laws[k])
       /\ \A k \in DOMAIN s.attrs : Len(s.attrs[k].names) = Len(s.attrs[k].laws)
       /\ LayoutDenotes(s.attrs)

Min0(S) == IF S = {} THEN -1 ELSE CHOOSE x \in S : \A y \in S : x <= y

SerBad(ln) ==
    LET s == ln.ser
        pm == ln.mesh
        write == s.via = "write"
        pre == IF write THEN "C04." ELSE "C08."
        exact == ln.mode = "lat" => pm.exact
        badattrs == {k \in DOMAIN s.attrs : ~AttrOK(pm, s.attrs[k], s.n, ln.mode)}
        why == {s.attrs[k].a : k \in badattrs}
               \cup (IF pm.topo # ExpectTopo(s.faces) THEN {"topo"} ELSE {})
               \cup (IF ~IdxOK(pm.idx, s.faces, s.n) THEN {"idx"} ELSE {})
               \cup (IF Extra(pm, s.attrs) # {} THEN {"extra-attribute"} ELSE {})
               \cup (IF ~exact THEN {"inexact"} ELSE {})
        at == Min0({FirstBad(pm, s.attrs[k], s.n, ln.mode) : k \in badattrs} \ {-1})
        \* known deviation: nothing but single 8-bit scalars differ, each exactly left raw, ascii only
        known == /\ s.fmt = "ascii" /\ ~write /\ exact /\ why # {}
                 /\ why = {s.attrs[k].a : k \in badattrs}
                 /\ \A k \in badattrs : AttrRaw(pm, s.attrs[k], s.n, ln.mode)
    IN  (IF ~ProbeOK(ln) THEN {B("Harness.SeriesInput", {}, {}, -1)} ELSE {})
        \cup (IF write /\ ln.wr # "OK" THEN {B("C04.WriteOk", {ln.wr}, {}, -1)} ELSE {})
        \cup (IF ~write /\ ln.wr # "REF" THEN {B("Harness.SeriesInput", {"no-reference-bytes"}, {}, -1)} ELSE {})
        \cup (IF ln.wr \in {"OK", "REF"} /\ ln.rd # "OK"
              THEN {B(IF write THEN "C04.RoundTrip" ELSE "C08.Loads", {"read-" \o ln.rd}, {}, -1)} ELSE {})
        \cup (IF ln.rd = "OK" /\ why # {}
              THEN {B(IF write THEN "C04.RoundTrip" ELSE "C08.Denote", why, IF known THEN {RawCls} ELSE {"-"}, at)}
              ELSE {})

SerStep ==
    /\ l <= Len(Trace) /\ Trace[l].k = "ser"
    /\ LET ln == Trace[l] bad == SerBad(ln) IN
       IF bad = {} THEN TRUE ELSE PrintT(ToJson([l |-> l, id |-> ln.id, bad |-> bad]))
    /\ l' = l + 1

Next == SerStep
Spec == Init /\ [][Next]_vars
TraceAccepted == TLCGet("stats").diameter - 1 = Len(Trace)
=============================================================================
