CONSTANTS NV = 3 NF = 2 W = 3 FW = 4 CheckScan = TRUE CheckWidth = TRUE Styles = {"ply", "pts"}
SPECIFICATION Spec
INVARIANTS TypeOK NoPlaceholder AcceptsComplete NoPanic
PROPERTY Terminates
CHECK_DEADLOCK FALSE
