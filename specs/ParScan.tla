------------------------------ MODULE ParScan ------------------------------
(***************************************************************************)
(* C10 -- implementation-shaped (L2) model of the worker-pool scans of     *)
(* modeling/mesh.go (Scan/Modify Float{1,2,3} Attribute / ScanPrimitives   *)
(* ParallelWithPoolSize) and GENERATOR of schedules for the replay         *)
(* binding.                                                                *)
(*                                                                         *)
(* n elements, pool size w.  ws = n \div w; worker k (0-based) is started  *)
(* with (start, size) = (ws*k, ws), the last one with size n - ws*k.  One  *)
(* action per callback invocation, interleaved freely.                     *)
(*                                                                         *)
(* Loop = "end"   the worker loops  start <= i < start+size   (intended)   *)
(* Loop = "size"  the worker loops  start <= i < size  (what the helpers   *)
(*                scan{Tris,Point,Line}Primitives(start,size) of the       *)
(*                pinned tree do when handed (start, size))                *)
(*                                                                         *)
(* Checked on the model (bounded MaxN, MaxW, all interleavings):           *)
(*   PartitionOK       the ranges are pairwise disjoint and cover 0..n-1   *)
(*   AtMostOnce        no element is visited twice                         *)
(*   Termination       when all workers are done every element was visited *)
(*   OutputOK          out[i] = F(i, in[i]) once the run is over           *)
(*   RefinesContract   every step is a contract step Visit(i) (ParContract)*)
(* With Loop = "size" TLC refutes Termination (n=2, w=2): the design-level *)
(* reproduction of the ScanPrimitivesParallel defect.                      *)
(*                                                                         *)
(* As generator: at termination the history is printed as JSON             *)
(*   {"n":..,"w":..,"sched":[{"i":index,"en":#enabled workers},..]}        *)
(* BFS without VIEW reaches every interleaving once; -simulate samples     *)
(* interleavings for large n, w.  The harness imposes "sched" on the real  *)
(* goroutines by releasing blocked callbacks in this order ("en" is only a *)
(* hint telling the controller how many callbacks to expect blocked).      *)
(* L2 is never used to pass a verdict on the code.                         *)
(***************************************************************************)
EXTENDS ParContract, TLC, Json

CONSTANTS MaxN, MaxW, MinW, Loop

VARIABLES n, w, pc, visits, out, hist
vars == <<n, w, pc, visits, out, hist>>

Workers == 0 .. (w - 1)
WS == n \div w
Start(k) == WS * k
Size(k) == IF k = w - 1 THEN n - WS * k ELSE WS
End(k) == IF Loop = "end" THEN Start(k) + Size(k) ELSE Size(k)

\* the model's element values and modify function (any injective choice does)
In(i) == <<7 * i + 3>>
Fa == 2
Fb == 1

Init ==
    /\ n \in 0 .. MaxN
    /\ w \in MinW .. MaxW
    /\ pc = [k \in Workers |-> Start(k)]
    /\ visits = ZeroVisits(n)
    /\ out = [i \in Indices(n) |-> <<0>>]
    /\ hist = <<>>

Enabled(k) == pc[k] < End(k)
Done == \A k \in Workers : ~Enabled(k)

Step(k) ==
    /\ Enabled(k)
    /\ LET i == pc[k] IN
         /\ visits' = AfterVisit(visits, i)
         /\ out' = [out EXCEPT ![i] = F(Fa, Fb, i, In(i))]
         /\ hist' = Append(hist, [i |-> i, en |-> Cardinality({j \in Workers : Enabled(j)})])
    /\ pc' = [pc EXCEPT ![k] = @ + 1]
    /\ UNCHANGED <<n, w>>

Next == \E k \in Workers : Step(k)
Spec == Init /\ [][Next]_vars

(* ---------------- properties of the model ----------------------------- *)
Owned(k) == {i \in 0 .. (2 * MaxN) : Start(k) <= i /\ i < End(k)}
PartitionOK ==
    /\ \A a, b \in Workers : a # b => Owned(a) \cap Owned(b) = {}
    /\ UNION {Owned(k) : k \in Workers} = Indices(n)
AtMostOnce == \A i \in Indices(n) : visits[i] <= 1
Termination == Done => Complete(visits)
OutputOK == Done => \A i \in Indices(n) : out[i] = F(Fa, Fb, i, In(i))
RefinesContract ==
    [][\E i \in Indices(n) : VisitEnabled(visits, i) /\ visits' = AfterVisit(visits, i)]_vars

(* ---------------- generator output ------------------------------------ *)
EmitDone == ~Done \/ PrintT(ToJson([n |-> n, w |-> w, sched |-> hist]))
=============================================================================
