---------------------------- MODULE ExtGenPaths ----------------------------
(***************************************************************************)
(* X06 generator 1: TLC enumerates LATTICE PATHS and, for every path, the  *)
(* parameter tuples of the ring generators (polygon, circle, spline,       *)
(* shape, closedshape, line).                                              *)
(*                                                                         *)
(* A path starts at the origin and grows by one step of StepSet per        *)
(* transition (the six axis directions, optionally the zero step = a       *)
(* repeated point and longer steps), up to MaxPts points.  BFS therefore   *)
(* visits every path shape: straight, L, U, S, spatial corners, the closed *)
(* square (open or closed by the ClosePath flag / ClosedShape), the square *)
(* that returns to its start (self-touching), collinear repeats,           *)
(* reversals, and the paths of 0 and 1 points.  One state = one path; the  *)
(* Emit invariant prints the set of cases of that path.  Paths of at most  *)
(* FullPts points get the full parameter product, longer ones every        *)
(* Thin-th tuple (offset by a code of the path and the seed, so that over  *)
(* the paths every tuple is used).                                         *)
(***************************************************************************)
EXTENDS Extrude, Json

CONSTANTS MaxPts, StepSet, FullPts, Thin, Seed,
          SidesSet, ProfileSet, StencilSet, SplineNs, LineWidths, Gens

VARIABLE path

Init == path = <<>>
Next ==
    /\ Len(path) < MaxPts
    /\ \/ path = <<>> /\ path' = <<<<0, 0, 0>>>>
       \/ path # <<>> /\ \E s \in StepSet : path' = Append(path, VAdd(path[Len(path)], s))
Spec == Init /\ [][Next]_path

Base == [kind |-> "ext", id |-> 0, gen |-> "polygon", path |-> path, sides |-> 4, rad |-> 2, radii |-> <<>>,
         close |-> FALSE, uv |-> FALSE, stencil |-> <<>>, n |-> 0, up |-> <<0, 1, 0>>, h |-> 0, rev |-> 0]

\* radius profiles: 0 uniform, 1 per-ring radii with zeros (k % 3), 2 a radii array of the
\* wrong length (must be ignored), 3 per-ring radii 1, 2, 1, 2 ..
Radii(p, n) ==
    IF p = 1 THEN [k \in 1..n |-> (k - 1) % 3]
    ELSE IF p = 2 THEN [k \in 1..(n + 1) |-> 3]
    ELSE IF p = 3 THEN [k \in 1..n |-> 1 + (k % 2)]
    ELSE <<>>

PolygonCases ==
    {[Base EXCEPT !.gen = "polygon", !.sides = s, !.radii = Radii(p, Len(path)), !.uv = u] :
        s \in SidesSet, p \in ProfileSet, u \in BOOLEAN}
CircleCases ==
    {[Base EXCEPT !.gen = "circle", !.sides = s, !.radii = Radii(p, Len(path)), !.close = cl] :
        s \in SidesSet, p \in ProfileSet, cl \in BOOLEAN}
ShapeCases ==
    {[Base EXCEPT !.gen = g, !.stencil = st] : g \in ShapeFamily, st \in StencilSet}
\* Line: every axis `up` that is not parallel to a ring direction (a ribbon needs a width direction)
AxisUnits == {<<1, 0, 0>>, <<0, 1, 0>>, <<0, 0, 1>>, <<0, -1, 0>>}
LineProbe == [Base EXCEPT !.gen = "line"]
UpsFor ==
    IF Len(path) < 2 THEN {<<0, 1, 0>>}
    ELSE IF HasRepeat(LineProbe) \/ HasReversal(LineProbe)
    THEN {u \in AxisUnits :
            /\ \A k \in 1..(Len(path) - 1) : Seg(LineProbe, k) = Zero3 \/ Cross(u, Seg(LineProbe, k)) # Zero3
            \* a path that never moves gets the default direction +Y
            /\ ((\A k \in 1..(Len(path) - 1) : Seg(LineProbe, k) = Zero3) => u[2] = 0)}
    ELSE {u \in AxisUnits : \A k \in 0..(Len(path) - 1) : Cross(u, RingDir(LineProbe, k)) # Zero3}
LineCases ==
    {[Base EXCEPT !.gen = "line", !.up = u, !.rad = w, !.h = hh] : u \in UpsFor, w \in LineWidths, hh \in {0, 1}}
\* the spline generator samples the path as an arc-length parametrised polyline; n-1 a
\* multiple of the length puts samples on the corners, other n cut the corners
SplineCases ==
    IF Len(path) < 2 \/ HasRepeat(Base) THEN {}       \* no curve to speak of (the spline is the harness' polyline)
    ELSE {[Base EXCEPT !.gen = "spline", !.n = nn, !.radii = Radii(p, nn), !.close = cl, !.sides = 4] :
            nn \in SplineNs \cup {PathLen(Base) + 1, 2 * PathLen(Base) + 1}, p \in ProfileSet \ {2}, cl \in BOOLEAN}

AllCases ==
    (IF "polygon" \in Gens THEN PolygonCases ELSE {})
    \cup (IF "circle" \in Gens THEN CircleCases ELSE {})
    \cup (IF "shape" \in Gens THEN ShapeCases ELSE {})
    \cup (IF "line" \in Gens THEN LineCases ELSE {})
    \cup (IF "spline" \in Gens THEN SplineCases ELSE {})

PathCode == FoldLeft(LAMBDA acc, p : (acc * 7 + p[1] + 3 * p[2] + 5 * p[3] + 11) % 1009, Len(path), path)
Chosen ==
    IF Len(path) <= FullPts THEN AllCases
    ELSE LET sq == SetToSeq(AllCases)
         IN {sq[i] : i \in {i \in DOMAIN sq : (i + PathCode + Seed) % Thin = 0}}

\* generator sanity: every emitted case is classified, the reference surface of a regular
\* case has exactly the stated number of triangles
GenOK == \A c \in Chosen : Class(c) \in {"reject", "degenerate", "regular"}
                           /\ (Class(c) = "regular" => Len(RefTris(c)) = ExpectTris(c))
Emit == PrintT(ToJson([cases |-> Chosen, pts |-> Len(path)]))
=============================================================================
