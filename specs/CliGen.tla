------------------------------- MODULE CliGen -------------------------------
(***************************************************************************)
(* X08 - generator of programs and invocation histories for the command    *)
(* line machine CliApp, and its design-level checks.                       *)
(*                                                                         *)
(* State: the program (chosen in Init from Progs = base graphs x producer  *)
(* name sets), the SHAPE of the sandbox (which paths are directories /     *)
(* files: what the classification of the next invocation depends on), the  *)
(* documents written by `new`, the history.  Next = one invocation of the  *)
(* pools below, applied with CliApp!Plan / ShapeAfter.                     *)
(*                                                                         *)
(* Dimensions enumerated: the two ways a program is run (built in code /   *)
(* loaded from its saved graph document; also both, and neither), every    *)
(* command and alias, no command, unknown commands; first argument a       *)
(* missing file / a directory / not a graph / a document written by `new`; *)
(* --folder and --out over relative, nested, absolute, empty, existing,    *)
(* blocked (a file in the way) and missing locations; every CLI-settable   *)
(* parameter kind (string, float, int, bool) x values x -n=v / -n v /      *)
(* bare x one or two dashes; two flags, the same flag twice, flag before / *)
(* after the command's own; unknown flags (incl. another command's flag),  *)
(* malformed and missing values, positional words before / after flags,    *)
(* "--", -h / --help; producer names with sub-directories, blanks, dots,   *)
(* a leading dot, no extension, shared and pre-existing directories; zero, *)
(* one, two producers; a producer that cannot be evaluated; parameters no  *)
(* producer depends on; flag names that clash.                             *)
(* Generators: Spec (BFS, every pool invocation at every state up to       *)
(* Depth), SimSpec (class-weighted random walks), TwiceSpec (two writing   *)
(* commands into the same place with different values: replace, truncate), *)
(* RoundSpec (new --out, then commands on that document), AgainSpec (read, *)
(* run something with other flags, read again).                            *)
(***************************************************************************)
EXTENDS CliApp

CONSTANTS Progs, Depth
VARIABLES prog, gfull, F, docs, hist
vars == <<prog, gfull, F, docs, hist>>

St(op, a, b, c) == [op |-> op, a |-> a, b |-> b, c |-> c]

(* ---------------- programs --------------------------------------------------- *)
NameSets == <<
    <<<<"file1.txt">>, <<"file2.txt">>>>,
    <<<<"sub", "file1.txt">>, <<"sub", "deep", "er", "file2">>>>,
    <<<<"a", "b c", "file1.txt">>, <<"dot.d", ".hidden2">>>>,
    <<<<"exist", "file1.txt">>, <<"file2">>>> >>
Hdr(n, v, d, a) == [name |-> n, ver |-> v, desc |-> d, auth |-> a]

\* Text(1) <- Concat(0) <- String(2) "nm1", String(3); flags p1, p2; node 3 was edited before saving
BaseSmall ==
    [steps |-> <<St("create", 10, 0, 0), St("create", 14, 0, 0), St("connect", 0, 1, 1), St("setproducer", 1, 1, 0),
                 St("create", 1, 0, 0), St("create", 1, 0, 0), St("connectarr", 2, 0, 0), St("connectarr", 3, 0, 0),
                 St("setname", 2, 1, 0)>>,
     def |-> <<0, 0, 1, 2>>, cur |-> <<0 - 1, 0 - 1, 0 - 1, 3>>, flag |-> <<"", "", "p1", "p2">>,
     hdr |-> Hdr("App1", "v1", "a small program", "me")]
\* Text(5) <- Fmt(0) <- Float(1) Int(2) Bool(3) String(4), all four CLI kinds; Sum(6) <- Float(1) and a Vector3(7), a
\* flagged String(8) hang loose (in the saved document only)
BaseMixed ==
    [steps |-> <<St("create", 11, 0, 0), St("create", 2, 0, 0), St("create", 3, 0, 0), St("create", 4, 0, 0), St("create", 1, 0, 0),
                 St("connect", 1, 0, 1), St("connect", 2, 0, 2), St("connect", 3, 0, 3), St("connect", 4, 0, 4),
                 St("create", 14, 0, 0), St("connect", 0, 5, 1), St("setproducer", 5, 1, 0),
                 St("create", 12, 0, 0), St("connectarr", 1, 6, 0), St("create", 5, 0, 0), St("create", 1, 0, 0),
                 St("setname", 1, 1, 0), St("setname", 4, 2, 0), St("setmeta", 1, 2, 0)>>,
     def |-> <<0, 1, 2, 0, 1, 0, 0, 0, 2>>, cur |-> <<0 - 1, 2, 0 - 1, 1, 0 - 1, 0 - 1, 0 - 1, 0 - 1, 0 - 1>>,
     flag |-> <<"", "pf", "pi", "pb", "ps", "", "", "", "loose">>,
     hdr |-> Hdr("App2", "", "", "")]
\* two producers sharing String(3): Text(1) <- Concat(0) <- String(2), String(3); Text(5) <- Fmt(4) <- S: String(3), F: Float(6)
BaseTwo ==
    [steps |-> <<St("create", 10, 0, 0), St("create", 14, 0, 0), St("connect", 0, 1, 1), St("setproducer", 1, 1, 0),
                 St("create", 1, 0, 0), St("create", 1, 0, 0), St("connectarr", 2, 0, 0), St("connectarr", 3, 0, 0),
                 St("create", 11, 0, 0), St("create", 14, 0, 0), St("connect", 4, 5, 1), St("setproducer", 5, 2, 0),
                 St("connect", 3, 4, 4), St("create", 2, 0, 0), St("connect", 6, 4, 1), St("setname", 3, 2, 0)>>,
     def |-> <<0, 0, 1, 0, 0, 0, 1>>, cur |-> <<0 - 1, 0 - 1, 2, 0 - 1, 0 - 1, 0 - 1, 0 - 1>>,
     flag |-> <<"", "", "p1", "p2", "", "", "pf">>,
     hdr |-> Hdr("App3", "v3", "", "")]
\* the second producer's Text node has no input: its artifact cannot be evaluated
BaseUneval ==
    [steps |-> <<St("create", 10, 0, 0), St("create", 14, 0, 0), St("connect", 0, 1, 1), St("setproducer", 1, 1, 0),
                 St("create", 1, 0, 0), St("connectarr", 2, 0, 0), St("create", 14, 0, 0), St("setproducer", 3, 2, 0)>>,
     def |-> <<0, 0, 1, 0>>, cur |-> <<0 - 1, 0 - 1, 0 - 1, 0 - 1>>, flag |-> <<"", "", "p1", "">>,
     hdr |-> Hdr("App4", "v4", "", "")]
\* nothing at all / nodes and flagged parameters but no producer
BaseEmpty == [steps |-> <<>>, def |-> <<>>, cur |-> <<>>, flag |-> <<>>, hdr |-> Hdr("", "", "", "")]
BaseNoProd ==
    [steps |-> <<St("create", 10, 0, 0), St("create", 1, 0, 0), St("connectarr", 1, 0, 0), St("setname", 1, 1, 0)>>,
     def |-> <<0, 1>>, cur |-> <<0 - 1, 2>>, flag |-> <<"", "p1">>, hdr |-> Hdr("App5", "v5", "no producers", "")]
\* flag names that clash: with each other / with the command's own flags
BaseClashPair == [BaseSmall EXCEPT !.flag = <<"", "", "p1", "p1">>]
BaseClashCmd == [BaseSmall EXCEPT !.flag = <<"", "", "folder", "out">>]

WithNames(b, k) == [steps |-> b.steps, def |-> b.def, cur |-> b.cur, flag |-> b.flag, pn |-> NameSets[k], hdr |-> b.hdr]
ProgsAll ==
    {WithNames(b, k) : b \in {BaseSmall, BaseTwo}, k \in 1..4}
    \cup {WithNames(BaseMixed, 3), WithNames(BaseMixed, 1), WithNames(BaseUneval, 1), WithNames(BaseUneval, 2),
          WithNames(BaseEmpty, 1), WithNames(BaseNoProd, 1), WithNames(BaseClashPair, 1), WithNames(BaseClashCmd, 1)}
ProgSmall1 == {WithNames(BaseSmall, 1)}
ProgSmall3 == {WithNames(BaseSmall, 3)}
ProgMixed3 == {WithNames(BaseMixed, 3)}
ProgTwo2 == {WithNames(BaseTwo, 2)}
ProgTwo4 == {WithNames(BaseTwo, 4)}
ProgUneval1 == {WithNames(BaseUneval, 1)}
ProgEmpty1 == {WithNames(BaseEmpty, 1)}
ProgNoProd1 == {WithNames(BaseNoProd, 1)}
ProgClash == {WithNames(BaseClashPair, 1), WithNames(BaseClashCmd, 1)}
ProgsBfs == ProgSmall1 \cup ProgSmall3 \cup ProgMixed3 \cup ProgTwo2 \cup ProgTwo4 \cup ProgUneval1 \cup ProgEmpty1 \cup ProgNoProd1 \cup ProgClash
ProgsBfsA == ProgSmall1 \cup ProgMixed3 \cup ProgUneval1 \cup ProgEmpty1 \cup ProgClash
ProgsBfsB == ProgSmall3 \cup ProgTwo2 \cup ProgTwo4 \cup ProgNoProd1
ProgsTwice == ProgSmall1 \cup ProgTwo4
ProgsTwiceMore == ProgSmall3 \cup ProgTwo2 \cup ProgMixed3

(* ---------------- tokens and invocations ---------------------------------------- *)
Tk(n, form, dash, v, vi) == [k |-> "flag", n |-> n, form |-> form, dash |-> dash, v |-> v, vi |-> vi]
Pos(v) == [k |-> "pos", n |-> "", form |-> "", dash |-> 0, v |-> v, vi |-> 0]
End == [k |-> "end", n |-> "", form |-> "", dash |-> 0, v |-> "", vi |-> 0]
Forms == {<<"eq", 1>>, <<"eq", 2>>, <<"sp", 1>>, <<"sp", 2>>}
FolderTok(k, fd) == Tk("folder", fd[1], fd[2], Folders[k].arg, k)
OutTok(k, fd) == Tk("out", fd[1], fd[2], OutFiles[k].arg, k)
ParamTok(nm, kd, v, fd) == Tk(nm, fd[1], fd[2], ValStr(kd, v), v)
Std == <<"sp", 2>>

Inv(m, cmd, toks) == [mode |-> m[1], gf |-> m[2], gfa |-> IF m[2] = "none" THEN "" ELSE GraphArgs[m[2]], cmd |-> cmd, toks |-> toks]
Code == <<"code", "none">>
File == <<"bare", "graph">>
Modes == {Code, File}

\* the flags of the program's parameters (static: the same in both modes) as <<name, kind>>
PF == LET gr == gfull IN {<<prog.flag[n + 1], gr.type[n]>> : n \in ParamFlagNodes(prog, gr)}
Vals(kd) == CASE kd = 1 -> {0, 1, 3} [] kd = 4 -> {0, 1, 2} [] OTHER -> {0, 2, 3, 0 - 1}
ParamToks == UNION {{ParamTok(f[1], f[2], v, fd) : v \in Vals(f[2]), fd \in Forms} : f \in PF}
             \cup {Tk(f[1], "bare", 2, "", 1) : f \in {x \in PF : x[2] = 4}}
ParamToksStd == UNION {{ParamTok(f[1], f[2], v, Std) : v \in Vals(f[2]) \ {0 - 1}} : f \in {x \in PF : x[2] # 4}}
                \cup UNION {{ParamTok(f[1], 4, v, <<"eq", 2>>) : v \in {0, 1}} : f \in {x \in PF : x[2] = 4}}

\* (A) where the output goes
PathPool ==
    {Inv(m, "generate", <<FolderTok(k, fd)>>) : m \in Modes, k \in 1..Len(Folders), fd \in Forms}
    \cup {Inv(m, "gen", <<FolderTok(1, Std)>>) : m \in Modes} \cup {Inv(m, c, <<>>) : m \in Modes, c \in {"generate", "gen"}}
    \cup {Inv(m, "zip", <<OutTok(k, fd)>>) : m \in Modes, k \in 1..Len(OutFiles), fd \in Forms}
    \cup {Inv(m, c, <<OutTok(k, Std)>>) : m \in Modes, c \in {"z", "mermaid", "swagger", "new"}, k \in 1..Len(OutFiles)}
    \cup {Inv(m, c, <<>>) : m \in Modes, c \in {"zip", "z", "mermaid", "swagger", "new", "outline"}}
\* (B) parameter flags: one flag in every form; two flags (incl. the same one twice) before / after the command's own
WithParams(c, own) ==
    {Inv(m, c, own \o <<t>>) : m \in Modes, t \in ParamToks}
    \cup {Inv(m, c, <<t>> \o own) : m \in Modes, t \in ParamToksStd}
    \cup {Inv(m, c, own \o <<t1, t2>>) : m \in Modes, t1 \in ParamToksStd, t2 \in ParamToksStd}
ParamPool ==
    WithParams("generate", <<FolderTok(1, Std)>>) \cup WithParams("zip", <<>>) \cup WithParams("outline", <<>>)
    \cup {Inv(m, c, <<t>>) : m \in Modes, c \in {"z", "mermaid", "swagger", "new"}, t \in ParamToksStd}
    \cup {Inv(m, "zip", <<OutTok(1, Std), t>>) : m \in Modes, t \in ParamToksStd}
\* (C) what is not understood
Junk(c) ==
    LET own == IF c \in {"generate", "gen"} THEN <<FolderTok(1, Std)>> ELSE <<>>
        alien == IF c \in {"generate", "gen"} THEN OutTok(1, Std) ELSE FolderTok(1, Std)     \* another command's flag
        ownbare == IF c \in {"generate", "gen"} THEN Tk("folder", "bare", 2, "", 0) ELSE Tk("out", "bare", 2, "", 0)
    IN {<<Tk("bogus", "sp", 2, "x", 0)>>, <<Tk("bogus", "eq", 1, "x", 0)>>, own \o <<Tk("bogus", "bare", 2, "", 0)>>,
        <<alien>>, own \o <<alien>>, <<Pos("stray")>>, <<Pos("stray")>> \o own, own \o <<Pos("stray")>>,
        <<End>>, <<End>> \o own, own \o <<End>>, <<Tk("h", "bare", 1, "", 0)>>, <<Tk("help", "bare", 2, "", 0)>>,
        own \o <<Tk("h", "bare", 2, "", 0)>>}
       \cup (IF c \in {"outline"} THEN {} ELSE {<<ownbare>>})
       \cup {own \o <<t, Pos("stray")>> : t \in {x \in ParamToksStd : x.vi = 3}}
       \cup {<<Pos("stray"), t>> \o own : t \in {x \in ParamToksStd : x.vi = 3}}
JunkPool == UNION {{Inv(m, c, j) : m \in Modes, j \in Junk(c)} : c \in {"generate", "zip", "outline", "mermaid", "swagger", "new", "gen", "z"}}
\* (D) the first argument and the command word
ArgPool ==
    {Inv(<<md, gf>>, c[1], c[2]) : md \in {"bare", "code"}, gf \in {"missing", "dir", "garbage"},
                                   c \in {<<"generate", <<FolderTok(1, Std)>>>>, <<"outline", <<>>>>, <<"", <<>>>>, <<"help", <<>>>>,
                                          <<"zip", <<OutTok(1, Std)>>>>}}
    \cup {Inv(m, c, <<>>) : m \in Modes \cup {<<"code", "graph">>, <<"bare", "none">>},
                            c \in {"", "help", "h", "bogus", "documentation", "Generate", "outline", "generate", "zip", "swagger", "mermaid"}}
    \cup {Inv(m, "help", j) : m \in Modes, j \in {<<Tk("bogus", "sp", 2, "x", 0)>>, <<Pos("stray")>>}}
    \cup {Inv(<<"code", "graph">>, c, <<t>>) : c \in {"zip", "outline"}, t \in ParamToksStd}
\* (E) a document written by `new`: every command on it
DocPool == {[mode |-> "bare", gf |-> "newdoc", gfa |-> d.arg, cmd |-> c, toks |-> <<>>] :
               d \in docs, c \in {"", "help", "outline", "zip", "generate", "swagger", "mermaid"}}
\* (F) new with its own flags
NewToks == {Tk(n, "sp", 2, NewVal(v), v) : n \in {"name", "version", "description", "author"}, v \in {1, 2}}
           \cup {Tk("name", "eq", 1, NewVal(0), 0)}
NewPool ==
    {Inv(m, "new", <<t>>) : m \in Modes \cup {<<"bare", "none">>}, t \in NewToks}
    \cup {Inv(<<"bare", "none">>, "new", <<t1, t2, OutTok(k, Std)>>) :
              t1 \in {t \in NewToks : t.n \in {"name", "author"}}, t2 \in {t \in NewToks : t.n \in {"version", "description", "name"}}, k \in {7, 8}}
\* (G) the same application behind the editor's HTTP API (loaded from the saved document: node numbers are those of the model)
HttpInvs ==
    LET gr == gfull
        ns == ParamFlagNodes(prog, gr)
        tok(n, v) == Tk(HE!NodeName(n), "", 0, ValJson(gr.type[n], v), v)
    IN {[mode |-> "bare", gf |-> "graph", gfa |-> GraphArgs["graph"], cmd |-> "@http", toks |-> <<>>]}
       \cup UNION {{[mode |-> "bare", gf |-> "graph", gfa |-> GraphArgs["graph"], cmd |-> "@http", toks |-> <<tok(n, v)>>] :
                       v \in (IF gr.type[n] = 4 THEN {0, 1} ELSE {0, 1, 3})} : n \in ns}

Pool == PathPool \cup ParamPool \cup JunkPool \cup ArgPool \cup DocPool \cup NewPool \cup HttpInvs

(* ---------------- the machine ---------------------------------------------------- *)
PlanOf(inv) == PlanG(prog, gfull, F, inv, NoHdr)
Do(inv) ==
    LET pl == IF inv.cmd = "@http" THEN [class |-> "http", files |-> {}, dirs |-> {}, asg |-> <<>>] ELSE PlanOf(inv)
        written == {f.p : f \in pl.files}
        newdocs == IF pl.class = "ok" /\ Canon(inv.cmd) = "new" /\ "out" \in DOMAIN pl.asg /\ written # {}
                   THEN {[p |-> CHOOSE p \in written : TRUE, arg |-> OutFiles[pl.asg["out"]].arg]} ELSE {}
    IN /\ F' = (IF pl.class = "ok" THEN ShapeAfter(F, pl) ELSE F)
       /\ docs' = {d \in docs : d.p \notin written} \cup newdocs
       /\ hist' = Append(hist, inv)
       /\ prog' = prog /\ gfull' = gfull

Init == prog \in Progs /\ gfull = Graph(prog) /\ F = Shape0 /\ docs = {} /\ hist = <<>>
Next == Len(hist) < Depth /\ \E inv \in Pool : Do(inv)
Spec == Init /\ [][Next]_vars

\* class-weighted random walks: writing commands, parameter flags, junk, arguments, documents, new, http
SimNext ==
    /\ Len(hist) < Depth
    /\ \E cls \in {RandomElement(1..9)} :       \* (bound once: RandomElement is re-drawn at every evaluation)
          LET S == CASE cls \in {1, 2} -> PathPool [] cls \in {3, 4} -> ParamPool [] cls = 5 -> JunkPool [] cls = 6 -> ArgPool
                     [] cls = 7 -> (IF docs = {} THEN {i \in NewPool : Len(i.toks) = 3} ELSE DocPool) [] cls = 8 -> NewPool
                     [] OTHER -> HttpInvs
          IN \E T \in {IF S = {} THEN PathPool ELSE S} : Do(RandomElement(T))
SimSpec == Init /\ [][SimNext]_vars

\* the same place written twice with different values (replace; a shorter text after a longer one), then read back
Writers ==
    {Inv(m, "generate", <<FolderTok(k, Std)>> \o ts) : m \in Modes, k \in {1, 4, 5}, ts \in {<<>>} \cup {<<t>> : t \in ParamToksStd}}
    \cup {Inv(m, "zip", <<OutTok(k, Std)>> \o ts) : m \in Modes, k \in {1, 6}, ts \in {<<>>} \cup {<<t>> : t \in ParamToksStd}}
SameTarget(i1, i2) == i1.cmd = i2.cmd /\ i1.toks[1] = i2.toks[1]
TwiceNext ==
    \/ Len(hist) = 0 /\ \E i \in Writers : Do(i)
    \/ Len(hist) = 1 /\ \E i \in Writers : SameTarget(hist[1], i) /\ i # hist[1] /\ Do(i)
TwiceSpec == Init /\ [][TwiceNext]_vars
\* new --out, then every command on that document
RoundNext ==
    \/ Len(hist) = 0 /\ \E i \in {j \in NewPool : Len(j.toks) = 3} : Do(i)
    \/ Len(hist) \in 1..2 /\ \E i \in DocPool : (Len(hist) = 2 => i.cmd \in {"", "help"} /\ hist[2].cmd \notin {"", "help"}) /\ Do(i)
RoundSpec == Init /\ [][RoundNext]_vars

\* a read-only command, a command with other parameter flags in between, the same read-only command again (all in one
\* process): what the second run prints must not depend on what ran before it
Readers == {Inv(m, c, ts) : m \in Modes, c \in {"outline", "mermaid", "swagger"}, ts \in {<<>>} \cup {<<t>> : t \in ParamToksStd}}
           \cup {Inv(m, "help", <<>>) : m \in Modes}
Disturbers == {Inv(m, "generate", <<FolderTok(1, Std), t>>) : m \in Modes, t \in ParamToksStd}
              \cup {Inv(m, c, <<t>>) : m \in Modes, c \in {"zip", "outline"}, t \in ParamToksStd}
AgainNext ==
    \/ Len(hist) = 0 /\ \E i \in Readers : Do(i)
    \/ Len(hist) = 1 /\ \E i \in Disturbers : i.mode = hist[1].mode /\ Do(i)
    \/ Len(hist) = 2 /\ Do(hist[1])
AgainSpec == Init /\ [][AgainNext]_vars

(* ---------------- design-level checks ----------------------------------------------- *)
Classes == {"ok", "reject", "helpflag", "uneval", "clash"}
AtLeaf == Len(hist) >= Depth
\* every invocation the generator can propose is classified (never outside the flag grammar modelled)
ClassTotal == AtLeaf \/ \A inv \in Pool : inv.cmd = "@http" \/ PlanOf(inv).class \in Classes
\* only an accepted invocation changes the shape; what it writes lies below nothing that is a file
WritesSound ==
    AtLeaf \/ \A inv \in Pool : inv.cmd = "@http" \/
        LET pl == PlanOf(inv) IN
        /\ pl.class # "ok" => pl.files = {} /\ pl.dirs = {}
        /\ pl.class = "ok" => pl.dirs \cap F.files = {} /\ {f.p : f \in pl.files} \cap F.dirs = {}
\* generate and zip deliver the same artifacts for the same parameter flags: the files below the folder are the
\* archive's entries, whichever way the program is run when nothing was edited before saving
SameDelivery ==
    AtLeaf \/ \A t \in {<<>>} \cup {<<x>> : x \in ParamToksStd} : \A m \in Modes :
        LET ig == Inv(m, "generate", <<FolderTok(1, Std)>> \o t)
            iz == Inv(m, "zip", t)
            pg == PlanOf(ig)
            pz == PlanOf(iz)
        IN (pg.class = "ok" /\ pz.class = "ok") =>
              {<<f.p, f.text>> : f \in pg.files} = {<<"out/" \o e[1], e[2]>> : e \in Entries(prog, pz.grE)}
ShapeOK == F.dirs \cap F.files = {}

EmitLeaf == Len(hist) < Depth \/ PrintT(ToJson([P |-> prog, fix |-> Fixture, invs |-> hist]))
EmitTwice == Len(hist) < 2 \/ PrintT(ToJson([P |-> prog, fix |-> Fixture, invs |-> hist]))
EmitRound == Len(hist) < 3 \/ PrintT(ToJson([P |-> prog, fix |-> Fixture, invs |-> hist]))
=============================================================================
