------------------------------ MODULE TracePc ------------------------------
(***************************************************************************)
(* Trace validation of X05: the point-cloud / photogrammetry decoders      *)
(* return exactly what a well-formed file denotes, through every io.Reader *)
(* behaviour, and reject every strict prefix (or return only data that is  *)
(* wholly present).                                                        *)
(*                                                                         *)
(* trace.ndjson (written by `vh pot-exec`):                                *)
(*  {"k":"file","id","f":abstract file,"len","cells":[{k,o,s,g}],          *)
(*   "noff","nsize","nn" (octree.bin only)}                                *)
(*  {"k":"dec","api","rd":reader behaviour,"out":{kind,msg,nd,v}}          *)
(*        decode of the complete file; kind ok | error | panic | timeout;  *)
(*        v = projection of the result (kind ok)                           *)
(*  {"k":"cut","api","at":k,"out":..}   decode of the first k bytes        *)
(*  {"k":"node","i","at","short","out":..}  OctreeNode.Read of node i on   *)
(*        the first `at` bytes of octree.bin (+ LoadNode and the array     *)
(*        loaders when the read succeeded)                                 *)
(*  {"k":"end","n":lines,"sampled"}                                        *)
(*                                                                         *)
(* Verdict predicates (contract level: layout law + denotation of          *)
(* PcFormats, which cells lie wholly inside a prefix):                     *)
(*   X05.Accepts      a well-formed file is decoded without error          *)
(*   X05.Pts* Img* Cam* Sfm* Meta* Hier* Node*   the result is the denoted *)
(*                    content (bit exact for 64 bit fields)                *)
(*   X05.Terminates / X05.Reports   a prefix neither hangs nor panics      *)
(*   X05.Prefix       a strict prefix that lacks required bytes is not     *)
(*                    decoded without error                                *)
(*   X05.NodePrefix   a node whose bytes are not all present is not read   *)
(*                    without error; one that is wholly present is read    *)
(*   X05.Placeholder  a polyform loader that reports an error returns no   *)
(*                    more records next to it than are wholly present      *)
(* Model.xxx bind harness and specification (reported as infrastructure).  *)
(***************************************************************************)
EXTENDS PcFormats, Json

Trace == ndJsonDeserialize("trace.ndjson")

VARIABLES l, cur, seen
vars == <<l, cur, seen>>

NoFile == [f |-> [fmt |-> "none"], len |-> 0, reqEnd |-> 0, first |-> 0]
NoSeen == [dec |-> {}, cut |-> {}, node |-> {}]
Init == l = 1 /\ cur = NoFile /\ seen = NoSeen

Report(bad, extra) == IF bad = {} THEN TRUE ELSE PrintT(ToJson([l |-> l, bad |-> bad, x |-> extra]))
Need(name, cond) == IF cond THEN {} ELSE {name}
Iota(n) == [i \in 1..n |-> i - 1]

ReaderKinds == {"all", "one", "half", "dataerr", "chunk", "bufio16"}
ReaderApis(fmt) ==
    CASE fmt = "cpts" -> {"sfm.ReadPoints3DBinary", "colmap.ReadSparsePointData"}
      [] fmt = "cimg" -> {"sfm.ReadImagesBinary"}
      [] fmt = "ccam" -> {"sfm.ReadCamerasBinary"}
      [] fmt = "osfm" -> {"opensfm.ReadReconstructiontData"}
      [] fmt = "pmeta" -> {"potree.ReadMetadata"}
      [] fmt = "phier" -> {"potree.ReadHierarchy"}
      [] OTHER -> {}
PathApis(fmt) ==
    CASE fmt = "cpts" -> {"colmap.LoadSparsePointData"}
      [] fmt = "cimg" -> {"colmap.LoadImageData"}
      [] fmt = "osfm" -> {"opensfm.LoadReconstructiontData"}
      [] fmt = "pmeta" -> {"potree.LoadMetadata"}
      [] fmt = "phier" -> {"potree.LoadHierarchy"}
      [] OTHER -> {}
\* path-only entry points are cut everywhere, the others on a sample
AllCutApis(fmt) == ReaderApis(fmt) \cup (IF fmt = "cimg" THEN {"colmap.LoadImageData"} ELSE {})

\* ------------------------------------------------------------ denotation --
\* a point cloud of n points; which attributes an EMPTY cloud lists is not part of the property
MeshIsCloud(v, n) == v.topo = "point" /\ v.n = n /\ v.idx = Iota(n)

JPoints(f, v) ==
    IF Len(v.pts) # Len(f.pts) THEN {"X05.PtsCount"}
    ELSE LET d == DenotePoints(f) IN
        Need("X05.PtsId", \A i \in DOMAIN d : v.pts[i].id = d[i].id)
        \cup Need("X05.PtsPos", \A i \in DOMAIN d : v.pts[i].p = d[i].p)
        \cup Need("X05.PtsColor", \A i \in DOMAIN d : v.pts[i].c = d[i].c /\ v.pts[i].a = d[i].a)
        \cup Need("X05.PtsError", \A i \in DOMAIN d : v.pts[i].e = d[i].e)
        \cup Need("X05.PtsTrack", \A i \in DOMAIN d : v.pts[i].tr = d[i].tr)

JPointMesh(f, v) ==
    LET n == Len(f.pts) IN
    IF ~MeshIsCloud(v, n) \/ (n > 0 /\ v.attrs # <<"Color/3", "Position/3", "error/1", "id/1", "track count/1">>)
       \/ Len(v.pos) # n \/ Len(v.col) # n \/ Len(v.err) # n \/ Len(v.id) # n \/ Len(v.ntr) # n
    THEN {"X05.PtsMesh"}
    ELSE Need("X05.PtsPos", \A i \in 1..n : v.pos[i] = f.pts[i].p)
         \cup Need("X05.PtsColor", \A i \in 1..n : v.col[i] = [c \in 1..3 |-> U(f.pts[i].c[c])])
         \cup Need("X05.PtsError", \A i \in 1..n : v.err[i] = f.pts[i].e)
         \cup Need("X05.PtsId", \A i \in 1..n : f.pts[i].idn >= 0 => v.id[i] = U(f.pts[i].idn))
         \cup Need("X05.PtsTrack", \A i \in 1..n : v.ntr[i] = U(Len(f.pts[i].tr)))

JImages(f, v) ==
    IF Len(v.imgs) # Len(f.imgs) THEN {"X05.ImgCount"}
    ELSE LET d == DenoteImages(f) IN
        Need("X05.ImgIds", \A i \in DOMAIN d : v.imgs[i].id = d[i].id /\ v.imgs[i].cam = d[i].cam)
        \cup Need("X05.ImgQuat", \A i \in DOMAIN d : v.imgs[i].rot = d[i].rot)
        \cup Need("X05.ImgTrans", \A i \in DOMAIN d : v.imgs[i].t = d[i].t)
        \cup Need("X05.ImgName", \A i \in DOMAIN d : v.imgs[i].name = d[i].name)
        \cup Need("X05.ImgPoints", \A i \in DOMAIN d : v.imgs[i].p2 = d[i].p2)

JImageMesh(f, v) ==
    LET n == Len(f.imgs)  d == DenoteImages(f) IN
    IF ~MeshIsCloud(v, n) \/ (n > 0 /\ v.attrs # <<"Position/3", "Rotation/4", "camera id/1", "id/1", "point count/1">>)
       \/ Len(v.pos) # n \/ Len(v.rot) # n \/ Len(v.id) # n \/ Len(v.cam) # n \/ Len(v.np) # n
    THEN {"X05.ImgMesh"}
    ELSE Need("X05.ImgTrans", \A i \in 1..n : v.pos[i] = d[i].t)
         \cup Need("X05.ImgQuat", \A i \in 1..n : v.rot[i] = d[i].rot)
         \cup Need("X05.ImgIds", \A i \in 1..n : v.id[i] = U(d[i].id) /\ v.cam[i] = U(d[i].cam))
         \cup Need("X05.ImgPoints", \A i \in 1..n : v.np[i] = U(Len(d[i].p2)))

JCameras(f, v) ==
    IF Len(v.cams) # Len(f.cams) THEN {"X05.CamCount"}
    ELSE LET d == DenoteCameras(f) IN
        Need("X05.CamIds", \A i \in DOMAIN d : v.cams[i].id = d[i].id /\ v.cams[i].model = d[i].model)
        \cup Need("X05.CamDims", \A i \in DOMAIN d : v.cams[i].w = d[i].w /\ v.cams[i].h = d[i].h)
        \cup Need("X05.CamParams", \A i \in DOMAIN d : v.cams[i].par = d[i].par)

JSfm(f, v) ==
    LET d == SfmPoints(f) IN
    Need("X05.SfmMesh", MeshIsCloud(v, Len(d)) /\ v.ncol = Len(d)
                        /\ (Len(d) > 0 => v.attrs = <<"Color/3", "Position/3">>))
    \cup Need("X05.SfmPoints", BagEq(v.pts, d))

JMeta(f, v) ==
    LET m == f.meta  a == m.attrs IN
    Need("X05.MetaFields",
         /\ v.version = "2.0" /\ v.name = m.name /\ v.desc = "" /\ v.proj = "" /\ v.points = m.points /\ v.enc = m.enc
         /\ v.first = m.first /\ v.step = m.step /\ v.depth = m.depth
         /\ v.off = [c \in 1..3 |-> U(m.off[c])] /\ v.scale = [c \in 1..3 |-> U(m.scale[c])]
         /\ v.spacing = U(m.spacing)
         /\ v.bmin = [c \in 1..3 |-> U(m.bmin[c])] /\ v.bmax = [c \in 1..3 |-> U(m.bmax[c])])
    \cup Need("X05.MetaAttrs",
         /\ Len(v.attrs) = Len(a)
         /\ \A i \in DOMAIN a :
               /\ v.attrs[i].n = a[i].n /\ v.attrs[i].sz = a[i].sz /\ v.attrs[i].ne = a[i].ne
               /\ v.attrs[i].es = a[i].es /\ v.attrs[i].t = a[i].t
               /\ v.attrs[i].min = Rep(a[i].ne, U(0)) /\ v.attrs[i].max = Rep(a[i].ne, U(0))
               /\ v.attrs[i].pos = IsPos(a[i].n) /\ v.attrs[i].col = IsCol(a[i].n))
    \cup Need("X05.MetaLayout",
         /\ v.bpp = Bpp(a) /\ v.posoff = OffOf(a, PosIdx(a)) /\ v.coloff = OffOf(a, ColIdx(a))
         /\ v.missing = -1 /\ v.missing2 = -1 /\ v.missingnil
         /\ Len(v.offs) = Len(a) /\ Len(v.byname) = Len(a)
         /\ \A i \in DOMAIN a : LET j == NameIdx(a, a[i].n) IN
               /\ v.offs[i] = AttrOff(a, j)
               /\ v.byname[i] = [n |-> a[j].n, sz |-> a[j].sz, o |-> AttrOff(a, j)])

JHier(f, v) ==
    LET order == PreOrder(f, <<>>) IN
    IF Len(v.nodes) # Len(order) \/ \E i \in DOMAIN order : v.nodes[i].name # NameStr(order[i]) THEN {"X05.HierShape"}
    ELSE
        Need("X05.HierShape", \A i \in DOMAIN order : LET o == v.nodes[i]  nm == order[i] IN
                /\ o.level = Len(nm)
                /\ o.kids = [k \in DOMAIN KidsSeq(f, nm) |-> NameStr(KidsSeq(f, nm)[k])]
                /\ o.parent = (IF nm = <<>> THEN "" ELSE NameStr(SubSeq(nm, 1, Len(nm) - 1)))
                /\ o.type = (IF KidIdx(f, nm) = {} THEN 1 ELSE 0))
        \cup Need("X05.HierData", \A i \in DOMAIN order : LET o == v.nodes[i]  n == NodeOf(f, order[i]) IN
                o.npts = U(FinalPts(n)) /\ o.bo = n.bo /\ o.bs = n.bs)
        \cup Need("X05.HierMask", \A i \in DOMAIN order : v.nodes[i].mask = NodeOf(f, order[i]).m)
        \cup Need("X05.HierChunk", \A i \in DOMAIN order : LET o == v.nodes[i]  nm == order[i] IN
                IF nm = <<>> THEN o.hbo = Zero64 /\ o.hbs = Hex64(f.meta.first)
                ELSE IF IsPx(f, nm) THEN o.hbo = Hex64(ChunkOff(f, nm)) /\ o.hbs = Hex64(ChunkSize(f, nm))
                ELSE o.hbo = Zero64 /\ o.hbs = Zero64)
        \cup Need("X05.HierBox", \A i \in DOMAIN order : LET o == v.nodes[i]  nm == order[i] IN
                /\ o.bb = [c \in 1..6 |-> U(BoxOf(f, nm)[c])]
                /\ (f.meta.spacing % Pow2(Len(nm)) = 0 => o.sp = U(f.meta.spacing \div Pow2(Len(nm)))))
        \cup Need("X05.HierAgg",
                /\ v.height = Height(f, <<>>) /\ v.desc = Len(f.nodes) - 1 /\ v.walk = Len(f.nodes)
                /\ v.walk1 = 1 + Cardinality(KidIdx(f, <<>>))
                /\ v.pcount = U(Sum([i \in DOMAIN f.nodes |-> FinalPts(f.nodes[i])])) /\ v.maxp = MaxPts(f))

JudgeFull(api, f, v) ==
    CASE api = "sfm.ReadPoints3DBinary" -> JPoints(f, v)
      [] api \in {"colmap.ReadSparsePointData", "colmap.LoadSparsePointData"} -> JPointMesh(f, v)
      [] api = "sfm.ReadImagesBinary" -> JImages(f, v)
      [] api = "colmap.LoadImageData" -> JImageMesh(f, v)
      [] api = "sfm.ReadCamerasBinary" -> JCameras(f, v)
      [] api \in {"opensfm.ReadReconstructiontData", "opensfm.LoadReconstructiontData"} -> JSfm(f, v)
      [] api \in {"potree.ReadMetadata", "potree.LoadMetadata"} -> JMeta(f, v)
      [] api \in {"potree.ReadHierarchy", "potree.LoadHierarchy"} -> JHier(f, v)
      [] OTHER -> {"Model.Api"}

\* octree.bin: node i decoded from a buffer that holds all its bytes
JNode(f, i, v) ==
    LET a == f.meta.attrs  n == Len(f.ons[i].pts)  hasCol == ColIdx(a) # 0 IN
    Need("X05.NodeRead", v.n = ONodeSize(f, i))
    \cup Need("X05.NodeMesh", /\ MeshIsCloud(v.mesh, n)
                              /\ (n > 0 => v.mesh.attrs = (IF hasCol THEN <<"Color/3", "Position/3">> ELSE <<"Position/3">>)))
    \cup Need("X05.NodePos", v.mesh.pos = NodePos(f, i, TRUE) /\ v.apos = NodePos(f, i, FALSE))
    \cup Need("X05.NodeColor", IF hasCol THEN v.mesh.col = NodeCol(f, i) /\ v.acol = NodeCol(f, i)
                               ELSE v.mesh.col = <<>> /\ v.acol = Rep(n, Rep(3, U(0))))

\* the first k points of node i, read into a caller buffer that holds only k points
JNodeShort(f, i, v) ==
    LET a == f.meta.attrs  k == Len(f.ons[i].pts) \div 2  hasCol == ColIdx(a) # 0 IN
    Need("X05.NodeRead", v.n = k * Bpp(a))
    \cup Need("X05.NodeMesh", MeshIsCloud(v.mesh, k))
    \cup Need("X05.NodePos", v.mesh.pos = SubSeq(NodePos(f, i, TRUE), 1, k))
    \cup Need("X05.NodeColor", v.mesh.col = (IF hasCol THEN SubSeq(NodeCol(f, i), 1, k) ELSE <<>>))

PolyformApis == {"colmap.ReadSparsePointData", "colmap.LoadSparsePointData", "colmap.LoadImageData",
                 "opensfm.ReadReconstructiontData", "opensfm.LoadReconstructiontData"}

\* ---------------------------------------------------------------- lines ---
ContentOK(f) ==
    CASE f.fmt = "cpts" -> \A i \in DOMAIN f.pts : f.pts[i].idn >= 0 => f.pts[i].id = Hex64(f.pts[i].idn)
      [] f.fmt = "phier" -> HierWellFormed(f) /\ BoxHalvable(f)
      [] f.fmt = "pnode" -> OctreeBudget(f)
      [] f.fmt = "ccam" -> \A i \in DOMAIN f.cams : Len(f.cams[i].par) = NumParams(f.cams[i].model)
      [] OTHER -> TRUE

TFile ==
    /\ l <= Len(Trace) /\ Trace[l].k = "file"
    /\ LET ln == Trace[l]
           bad == Need("Model.Content", ContentOK(ln.f))
                  \cup Need("Model.Layout", Matches(ln.cells, Layout(ln.f)))
                  \cup Need("Model.Tiles", Tiles(ln.cells, ln.len))
                  \cup Need("Model.Size", SizeLaw(ln.f, ln.len))
                  \cup (IF ln.f.fmt = "pnode"
                        THEN Need("Model.Nodes", /\ ln.noff = [i \in DOMAIN ln.f.ons |-> ONodeOff(ln.f, i)]
                                                 /\ ln.nsize = [i \in DOMAIN ln.f.ons |-> ONodeSize(ln.f, i)]
                                                 /\ ln.nn = [i \in DOMAIN ln.f.ons |-> Len(ln.f.ons[i].pts)])
                        ELSE {})
       IN /\ Report(bad, ln.id)
          /\ cur' = [f |-> ln.f, len |-> ln.len, reqEnd |-> ReqEnd(ln.cells), first |-> l]
    /\ seen' = NoSeen /\ l' = l + 1

TDec ==
    /\ l <= Len(Trace) /\ Trace[l].k = "dec"
    /\ LET ln == Trace[l]
           o == ln.out
           bad == (IF o.kind = "ok" THEN JudgeFull(ln.api, cur.f, o.v) ELSE {"X05.Accepts"})
                  \cup Need("Model.Dec", <<ln.api, ln.rd>> \notin seen.dec
                                         /\ \/ ln.api \in ReaderApis(cur.f.fmt) /\ ln.rd \in ReaderKinds
                                            \/ ln.api \in PathApis(cur.f.fmt) /\ ln.rd = "file")
       IN /\ Report(bad, [api |-> ln.api, rd |-> ln.rd, kind |-> o.kind])
          /\ seen' = [seen EXCEPT !.dec = @ \cup {<<ln.api, ln.rd>>}]
    /\ UNCHANGED cur /\ l' = l + 1

TCut ==
    /\ l <= Len(Trace) /\ Trace[l].k = "cut"
    /\ LET ln == Trace[l]
           o == ln.out
           bad == (IF o.kind = "timeout" THEN {"X05.Terminates"} ELSE {})
                  \cup (IF o.kind = "panic" THEN {"X05.Reports"} ELSE {})
                  \cup (IF o.kind = "ok"
                        THEN (IF ln.at < cur.reqEnd THEN {"X05.Prefix"} ELSE JudgeFull(ln.api, cur.f, o.v))
                        ELSE {})
                  \cup (IF o.kind = "error" /\ ln.api \in PolyformApis /\ o.nd > WholeRecs(cur.f, ln.at)
                        THEN {"X05.Placeholder"} ELSE {})
                  \cup Need("Model.Cut", /\ ln.at \in 0..(cur.len - 1) /\ <<ln.api, ln.at>> \notin seen.cut
                                         /\ o.kind \in {"ok", "error", "panic", "timeout"}
                                         /\ ln.api \in ReaderApis(cur.f.fmt) \cup PathApis(cur.f.fmt))
       IN /\ Report(bad, [api |-> ln.api, at |-> ln.at, kind |-> o.kind, need |-> cur.reqEnd])
          /\ seen' = [seen EXCEPT !.cut = @ \cup {<<ln.api, ln.at>>}]
    /\ UNCHANGED cur /\ l' = l + 1

TNode ==
    /\ l <= Len(Trace) /\ Trace[l].k = "node"
    /\ LET ln == Trace[l]
           o == ln.out
           f == cur.f
           i == ln.i + 1
           size == ONodeSize(f, i)
           whole == size = 0 \/ ONodeOff(f, i) + size <= ln.at
           bad == (IF o.kind = "timeout" THEN {"X05.Terminates"} ELSE {})
                  \cup (IF o.kind = "panic" THEN {"X05.Reports"} ELSE {})
                  \cup (IF ln.short
                        THEN (IF o.kind = "ok" THEN JNodeShort(f, i, o.v) ELSE {"X05.NodeRead"})
                        ELSE IF whole THEN (IF o.kind = "ok" THEN JNode(f, i, o.v) ELSE {"X05.NodePrefix"})
                        ELSE Need("X05.NodePrefix", o.kind # "ok"))
                  \cup Need("Model.Cut", /\ f.fmt = "pnode" /\ i \in DOMAIN f.ons /\ ln.at \in 0..cur.len
                                         /\ (ln.short => ln.at = cur.len)
                                         /\ <<ln.i, ln.at, ln.short>> \notin seen.node)
       IN /\ Report(bad, [api |-> "potree.OctreeNode.Read", i |-> ln.i, at |-> ln.at, kind |-> o.kind, whole |-> whole])
          /\ seen' = [seen EXCEPT !.node = @ \cup {<<ln.i, ln.at, ln.short>>}]
    /\ UNCHANGED cur /\ l' = l + 1

\* every decode of the complete file and every cut point of the quantifier was executed
TEnd ==
    /\ l <= Len(Trace) /\ Trace[l].k = "end"
    /\ LET fmt == cur.f.fmt
           decs == {<<a, r>> : a \in ReaderApis(fmt), r \in ReaderKinds} \cup {<<a, "file">> : a \in PathApis(fmt)}
           cuts == {<<a, k>> : a \in AllCutApis(fmt), k \in 0..(cur.len - 1)}
           nodes == IF fmt = "pnode"
                    THEN {<<i - 1, k, FALSE>> : i \in DOMAIN cur.f.ons, k \in 0..cur.len}
                    ELSE {}
           covered == Trace[l].sampled
                      \/ (decs \subseteq seen.dec /\ cuts \subseteq seen.cut /\ nodes \subseteq seen.node)
           bad == Need("Model.Coverage", covered /\ Trace[l].n = l - cur.first)
       IN Report(bad, [cuts |-> Cardinality(seen.cut), decs |-> Cardinality(seen.dec)])
    /\ UNCHANGED <<cur, seen>> /\ l' = l + 1

Next == TFile \/ TDec \/ TCut \/ TNode \/ TEnd
Spec == Init /\ [][Next]_vars

TraceAccepted == TLCGet("stats").diameter - 1 = Len(Trace)
=============================================================================
