CONSTANTS
  NSlots = 3
  Depth = 3
  BaseSet = "std"
  Walk = FALSE
  Ops = {"New","Append","SetIndices","SetMaterial","SetMaterials","SetAttr","ModifyAttr","CopyAttr","Translate","Scale","Rotate","ApplyTRS","TranslateAttr","ScaleAttr","RotateAttr","CenterAttr","ToPointCloud","Unweld","RemoveUnreferenced","FlipWinding","Weld","RemoveNullFaces","Split","Filter","Crop","Repeat","Export","Scan"}
SPECIFICATION Spec
INVARIANTS Closed Laws Emit
PROPERTY Immutable
VIEW View
CHECK_DEADLOCK FALSE
