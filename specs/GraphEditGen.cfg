CONSTANTS Depth = 2 MaxNodes = 6 SaveOrder = "index"
CONSTANT Prelude <- PreludeSmall
SPECIFICATION Spec
INVARIANTS TypeOK Acyclic RoundTrip Emit
VIEW View
CHECK_DEADLOCK FALSE
