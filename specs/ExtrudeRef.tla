----------------------------- MODULE ExtrudeRef -----------------------------
(***************************************************************************)
(* X06 design-level check of the specification itself: the reference       *)
(* surface Extrude!RefTris (rings, strips with modulo wrap at the seam,    *)
(* ClosePath joining the last ring to the first) has the properties the    *)
(* contract promises, for every ring count / ring size / closedness in the *)
(* bounded configuration.  One state per parameter tuple.                  *)
(*   RefOriented   no directed edge twice                                  *)
(*   RefClosed     closed path  => every directed edge has its opposite    *)
(*   RefLoops      open path    => the unpaired edges are exactly the two  *)
(*                 end rings (tube) / the perimeter (ribbon, screw sheet), *)
(*                 every boundary vertex has degree 2 in the boundary      *)
(*   RefEuler      V - E + F = 0 (torus, open tube = annulus) or 1 (disc:  *)
(*                 ribbon, screw sheet)                                    *)
(*   RefCounts     ExpectTris / ExpectVerts agree with the reference       *)
(***************************************************************************)
EXTENDS Extrude

CONSTANTS MaxRings, MaxSlots

VARIABLE c

Path(n) == [k \in 1..n |-> <<k, 0, 0>>]
Sten(m) == [k \in 1..m |-> <<k, 0>>]
Base == [kind |-> "ext", id |-> 0, gen |-> "polygon", path |-> <<>>, sides |-> 4, rad |-> 2, radii |-> <<>>,
         close |-> FALSE, uv |-> FALSE, stencil |-> <<>>, n |-> 0, up |-> <<0, 1, 0>>, h |-> 0, rev |-> 0]
All ==
    {[Base EXCEPT !.gen = "circle", !.path = Path(n), !.sides = m, !.close = cl] :
        n \in 2..MaxRings, m \in 3..MaxSlots, cl \in BOOLEAN}
    \cup {[Base EXCEPT !.gen = g, !.path = Path(n), !.stencil = Sten(m)] :
        g \in ShapeFamily, n \in 2..MaxRings, m \in 3..MaxSlots}
    \cup {[Base EXCEPT !.gen = "line", !.path = Path(n)] : n \in 2..MaxRings}
    \cup {[Base EXCEPT !.gen = "screw", !.path = Path(m), !.sides = n] : n \in 2..MaxRings, m \in 2..MaxSlots}

Init == c \in All
Spec == Init /\ [][FALSE]_c

Proper == ~(ClosedPath(c) /\ NRings(c) < 3)
T == RefTris(c)
Bd == Unpaired(T)
Verts == {T[i][j] : i \in DOMAIN T, j \in 1..3}
UEdges == Undirected(EdgeSet(T))
Sheet == c.gen \in {"line", "screw"}

RefOriented == Proper => Oriented(T)
RefClosed == (Proper /\ ClosedPath(c)) => Paired(T)
EndRing(k) ==
    IF c.gen = "line" THEN {{<<k, 0>>, <<k, 1>>}, {<<k, 0>>, <<k, 2>>}}
    ELSE IF c.gen = "screw" THEN {{<<k, s>>, <<k, s + 1>>} : s \in 0..(Slots(c) - 2)}
    ELSE {{<<k, s>>, <<k, (s + 1) % Slots(c)>>} : s \in 0..(Slots(c) - 1)}
SideRails ==
    IF ~Sheet THEN {}
    ELSE LET rails == IF c.gen = "line" THEN {1, 2} ELSE {0, Slots(c) - 1}
         IN {{<<k, s>>, <<k + 1, s>>} : k \in 0..(NRings(c) - 2), s \in rails}
RefLoops ==
    (Proper /\ ~ClosedPath(c)) =>
        /\ Undirected(Bd) = EndRing(0) \cup EndRing(NRings(c) - 1) \cup SideRails
        /\ RefBoundary(c) = {ECode(c, e[1], e[2]) : e \in Bd}
        /\ \A v \in {e[1] : e \in Bd} : Cardinality({e \in Bd : e[1] = v}) = 1 /\ Cardinality({e \in Bd : e[2] = v}) = 1
RefEuler ==
    Proper => Cardinality(Verts) - Cardinality(UEdges) + Len(T) = (IF Sheet THEN 1 ELSE 0)
RefCounts ==
    Proper => /\ Len(T) = ExpectTris(c)
              /\ Cardinality(Verts) = NRings(c) * Slots(c)
              /\ StripsOK(c, T) /\ ClosedAsStated(c, T)
=============================================================================
