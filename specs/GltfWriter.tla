----------------------------- MODULE GltfWriter -----------------------------
(***************************************************************************)
(* C06 -- implementation-shaped (L2) model of formats/gltf.Writer and      *)
(* GENERATOR of scene descriptors for the replay binding.                  *)
(*                                                                         *)
(* State: w = the writer's tables exactly as writer.go keeps them          *)
(*   bytes (bytesWritten), views, accs, gmeshes, nodes, gmats, gtexs,      *)
(*   images, samplers, texIdx (pointer -> texture), written (pointer ->    *)
(*   accessors), meshIdx ((pointer, material) -> mesh), ext                *)
(*   (extensionsUsed), req (extensionsRequired);                           *)
(* models / lights = the scene built so far (the history).                 *)
(* Actions: AddModel (AddMesh + AddMaterial + AddTexture* + node + GPU     *)
(* instance accessors), AddLight.  Mesh DATA is abstracted to sizes: a     *)
(* pool mesh is [topo, nv, ni, attrs]; 65 535 / 65 536-vertex meshes are   *)
(* therefore just numbers here and the REAL threshold is modelled.         *)
(*                                                                         *)
(* Design switches (so that TLC shows the design bug and the repair):      *)
(*   Pad    FALSE = as writer.go: a view starts at bytesWritten            *)
(*          TRUE  = repaired design: the offset is re-aligned to 4 first   *)
(*   DeepEq FALSE = material equality of the pinned tree (ignores normal / *)
(*                  occlusion texture, extras, texture extensions; pointer *)
(*                  identity inside material extensions)                   *)
(*          TRUE  = value equality (the tree after the fix: commits)       *)
(*                                                                         *)
(* Checked on the model itself (bounded by the CONSTANTS of a config):     *)
(*   L2Aligned L2Tiled L2IndexWidth L2Counts L2MeshOnce L2MatRef L2TexRef  *)
(*   L2MatOnce L2TexOnce L2ExtUsed                                         *)
(* Verdicts on the code never come from this module: the scenes it prints  *)
(* (Emit) are executed by the harness and judged by TraceGltf.             *)
(* int32 budget: bytes <= MaxModels * (65 536 * 12 * 3) < 2^31.            *)
(***************************************************************************)
EXTENDS Integers, Sequences, FiniteSets, TLC, Json

CONSTANTS MeshIds, MatIds, InstCounts, TrsKinds, MaxModels, MaxLights, Pad, DeepEq

Ran(s) == {s[i] : i \in DOMAIN s}
SetMin(S) == CHOOSE x \in S : \A y \in S : x <= y
A(ar, id) == [ar |-> ar, id |-> id]
Sp(a, i, c, k) == [a |-> a, i |-> i, c |-> c, k |-> k]   \* attribute (0-based position in attrs), vertex, component, kind

(* ----------------------------- pools ----------------------------------- *)
\* attribute ids as in harness/project: 1 Position 2 Normal 3 Color 4 TexCoord 6 Intensity 7 Joint 8 Weight 13 Custom
MeshPool == <<
    [topo |-> "triangle", nv |-> 3, ni |-> 3, idx |-> <<0, 1, 2>>, attrs |-> <<A(3, 1)>>, vseed |-> 1],              \* 1: ONE triangle: 3 x u16
    [topo |-> "triangle", nv |-> 4, ni |-> 6, idx |-> <<0, 1, 2, 2, 1, 3>>,
     attrs |-> <<A(3, 1), A(3, 2), A(2, 4)>>, vseed |-> 2],                                                       \* 2: welded quad
    [topo |-> "point", nv |-> 1, ni |-> 1, idx |-> <<0>>, attrs |-> <<A(3, 1), A(3, 3)>>, vseed |-> 3],             \* 3: one point
    [topo |-> "point", nv |-> 5, ni |-> 5, idx |-> <<4, 2, 0, 3, 1>>,
     attrs |-> <<A(4, 7), A(4, 8), A(3, 1)>>, vseed |-> 4],                                                       \* 4: ubyte joints, permuted
    [topo |-> "triangle", nv |-> 3, ni |-> 0, idx |-> <<>>, attrs |-> <<A(3, 1)>>, vseed |-> 5],                    \* 5: no primitive: skipped
    [topo |-> "triangle", nv |-> 5, ni |-> 3, idx |-> <<4, 0, 2>>,
     attrs |-> <<A(3, 1), A(3, 13), A(1, 6)>>, vseed |-> 6],                                                      \* 6: scalar + custom, unreferenced vertices
    [topo |-> "triangle", nv |-> 3, ni |-> 3, idx |-> <<0, 1, 2>>, attrs |-> <<A(3, 1)>>, vseed |-> 1],              \* 7: equal by value to 1, other pointer
    [topo |-> "triangle", nv |-> 65535, ni |-> 3, idx |-> <<>>, attrs |-> <<A(3, 1)>>, vseed |-> 8],                \* 8: last 16-bit size
    [topo |-> "triangle", nv |-> 65536, ni |-> 6, idx |-> <<>>, attrs |-> <<A(3, 1), A(2, 4)>>, vseed |-> 9],       \* 9: first 32-bit size
    \* Round 2: special IEEE values written over the data (harness: SpecialValue).  Sizes are all this
    \* model knows of a mesh, so they change nothing HERE -- which is the point: whatever the values
    \* are, the bytes appended must be the bytes counted.
    [topo |-> "triangle", nv |-> 4, ni |-> 6, idx |-> <<0, 1, 2, 2, 1, 3>>, attrs |-> <<A(3, 1), A(3, 2), A(2, 4)>>, vseed |-> 2,
     spec |-> <<Sp(2, 1, 0, 1), Sp(1, 3, 2, 12)>>],                                                               \* 10: NaN in ONE component of a vec2 / vec3 element
    [topo |-> "point", nv |-> 3, ni |-> 3, idx |-> <<2, 0, 1>>, attrs |-> <<A(3, 1), A(4, 3)>>, vseed |-> 11,
     spec |-> <<Sp(1, 1, 3, 1)>>],                                                                                \* 11: NaN in a vec4 (Color)
    [topo |-> "triangle", nv |-> 3, ni |-> 3, idx |-> <<0, 1, 2>>, attrs |-> <<A(3, 1)>>, vseed |-> 12,
     spec |-> <<Sp(0, 0, 0, 2), Sp(0, 2, 1, 3)>>],                                                                \* 12: +Inf / -Inf positions
    [topo |-> "point", nv |-> 5, ni |-> 5, idx |-> <<0, 1, 2, 3, 4>>, attrs |-> <<A(3, 1), A(2, 4), A(4, 8)>>, vseed |-> 13,
     spec |-> <<Sp(0, 0, 0, 4), Sp(0, 1, 1, 5), Sp(0, 2, 2, 6), Sp(0, 3, 0, 7), Sp(1, 0, 0, 8), Sp(1, 1, 1, 9), Sp(1, 2, 0, 10),
                Sp(1, 3, 1, 13), Sp(2, 0, 0, 14), Sp(2, 1, 1, 11), Sp(2, 4, 3, 4)>>],                             \* 13: finite doubles at the edges of float32
    [topo |-> "point", nv |-> 2, ni |-> 2, idx |-> <<1, 0>>, attrs |-> <<A(3, 1), A(2, 4)>>, vseed |-> 14,
     spec |-> <<Sp(0, 0, 0, 1), Sp(0, 1, 0, 1), Sp(1, 0, 0, 1), Sp(1, 0, 1, 12), Sp(1, 1, 0, 1), Sp(1, 1, 1, 1)>>], \* 14: a component / an accessor that is NaN throughout
    [topo |-> "triangle", nv |-> 4, ni |-> 6, idx |-> <<0, 1, 2, 2, 1, 3>>, attrs |-> <<A(3, 1), A(2, 4)>>, vseed |-> 2,
     spec |-> <<Sp(0, 2, 0, 1), Sp(0, 2, 1, 1), Sp(0, 2, 2, 12), Sp(1, 0, 0, 1), Sp(1, 0, 1, 1)>>]                 \* 15: whole elements NaN
>>

TexPool == <<
    [uri |-> 1, samp |-> 1, xf |-> 0],      \* 1
    [uri |-> 1, samp |-> 1, xf |-> 0],      \* 2: equal by value to 1
    [uri |-> 1, samp |-> 2, xf |-> 0],      \* 3: same image, other sampler
    [uri |-> 2, samp |-> 0, xf |-> 0],      \* 4: other image, no sampler
    [uri |-> 1, samp |-> 1, xf |-> 1],      \* 5: as 1 with a KHR_texture_transform
    [uri |-> 2, samp |-> 0, xf |-> 3]       \* 6: as 4 with a REQUIRED transform
>>

NoExt == <<>>
Mat0 == [name |-> 1, pbr |-> 1, met |-> 4, rough |-> -1, bc |-> 2, btex |-> 1, mrtex |-> 0, ntex |-> 0, nscale |-> -1,
         otex |-> 0, ostr |-> -1, emis |-> 0, amode |-> 0, cutoff |-> -1, exts |-> NoExt, extras |-> 0]
Plain == [name |-> 2, pbr |-> 0, met |-> -1, rough |-> -1, bc |-> 0, btex |-> 0, mrtex |-> 0, ntex |-> 0, nscale |-> -1,
          otex |-> 0, ostr |-> -1, emis |-> 1, amode |-> 2, cutoff |-> 4, exts |-> NoExt, extras |-> 0]
Ext(k, f, tex) == [k |-> k, f |-> f, f2 |-> -1, tex |-> tex, tex2 |-> 0, col |-> 0]
MatPool == <<
    Mat0,                                                                 \* 1
    [Mat0 EXCEPT !.btex = 2],                                             \* 2: equal by value to 1 (texture 2 = texture 1)
    [Mat0 EXCEPT !.ntex = 4, !.nscale = 4],                               \* 3: 1 + a normal texture
    [Mat0 EXCEPT !.btex = 5],                                             \* 4: 1 with a transformed base texture
    [Plain EXCEPT !.exts = <<Ext("transmission", 4, 1)>>],                \* 5: extension sharing texture 1
    [Plain EXCEPT !.exts = <<Ext("transmission", 4, 2)>>],                \* 6: equal by value to 5 through another texture pointer
    [Plain EXCEPT !.name = 0, !.amode = 0, !.cutoff = -1, !.exts = <<Ext("unlit", 0, 0), Ext("ior", 12, 0)>>, !.extras = 1],  \* 7
    [Mat0 EXCEPT !.otex = 3, !.ostr = 4],                                 \* 8: 1 + an occlusion texture
    [Mat0 EXCEPT !.extras = 2],                                           \* 9: 1 + extras
    [Plain EXCEPT !.name = 0, !.amode = 0, !.cutoff = -1, !.exts = <<Ext("unlit", 0, 0), Ext("ior", 12, 0)>>, !.extras = 1],  \* 10: equal by value to 7
    [Mat0 EXCEPT !.mrtex = 6, !.emis = 3]                                 \* 11: required texture extension
>>

ExtName(k) == CASE k = "transmission" -> "KHR_materials_transmission" [] k = "unlit" -> "KHR_materials_unlit"
                [] k = "ior" -> "KHR_materials_ior" [] OTHER -> k
\* extension kinds whose Go struct holds a *float64 (pointer identity matters when DeepEq is off)
HasPtrScalar(k) == k \in {"ior", "specular", "emissive_strength"}

(* ----------------------------- equality -------------------------------- *)
TexEq(i, j) ==
    \/ i = j
    \/ /\ i # 0 /\ j # 0 /\ TexPool[i].uri = TexPool[j].uri /\ TexPool[i].samp = TexPool[j].samp
       /\ DeepEq => TexPool[i].xf = TexPool[j].xf
TexEqFull(i, j) == i = j \/ (i # 0 /\ j # 0 /\ TexPool[i] = TexPool[j])

ExtEq(a, b) ==
    IF DeepEq THEN a.k = b.k /\ a.f = b.f /\ a.f2 = b.f2 /\ a.col = b.col /\ TexEqFull(a.tex, b.tex) /\ TexEqFull(a.tex2, b.tex2)
    ELSE a = b /\ ~HasPtrScalar(a.k)           \* == on the struct: same pointers (pool index = pointer)
ExtEqFull(a, b) == a.k = b.k /\ a.f = b.f /\ a.f2 = b.f2 /\ a.col = b.col /\ TexEqFull(a.tex, b.tex) /\ TexEqFull(a.tex2, b.tex2)

CoreEq(a, b, teq(_, _)) ==
    /\ a.name = b.name /\ a.pbr = b.pbr /\ a.met = b.met /\ a.rough = b.rough /\ a.bc = b.bc
    /\ teq(a.btex, b.btex) /\ teq(a.mrtex, b.mrtex)
    /\ a.emis = b.emis /\ a.amode = b.amode /\ a.cutoff = b.cutoff
    /\ Len(a.exts) = Len(b.exts)
RestEq(a, b, teq(_, _)) ==
    /\ teq(a.ntex, b.ntex) /\ a.nscale = b.nscale /\ teq(a.otex, b.otex) /\ a.ostr = b.ostr /\ a.extras = b.extras

\* the writer's own notion (PolyformMaterial.equal)
MatEq(i, j) ==
    LET a == MatPool[i]  b == MatPool[j] IN
    \/ i = j
    \/ /\ CoreEq(a, b, TexEq) /\ \A k \in DOMAIN a.exts : ExtEq(a.exts[k], b.exts[k])
       /\ DeepEq => RestEq(a, b, TexEq)
\* what the property means by "equal by value"
MatEqFull(i, j) ==
    LET a == MatPool[i]  b == MatPool[j] IN
    \/ i = j
    \/ CoreEq(a, b, TexEqFull) /\ RestEq(a, b, TexEqFull) /\ \A k \in DOMAIN a.exts : ExtEqFull(a.exts[k], b.exts[k])

(* ----------------------------- the writer ------------------------------ *)
VARIABLES w, models, lights
vars == <<w, models, lights>>

EmptyW == [bytes |-> 0, views |-> <<>>, accs |-> <<>>, gmeshes |-> <<>>, nodes |-> <<>>, gmats |-> <<>>, gtexs |-> <<>>,
           images |-> <<>>, samplers |-> <<>>, texIdx |-> {}, written |-> {}, meshIdx |-> {}, ext |-> {}, req |-> {}]

CompBytes(id) == IF id = 7 THEN 1 ELSE 4
RoundUp4(n) == ((n + 3) \div 4) * 4

\* every Write* of writer.go: append the data, record accessor + view at the PRE-append offset
WriteView(x, n, cs, nc, count, target) ==
    LET off == IF Pad THEN RoundUp4(x.bytes) ELSE x.bytes IN
    [x EXCEPT !.views = Append(@, [off |-> off, len |-> n, target |-> target]),
              !.accs = Append(@, [view |-> Len(x.views) + 1, cs |-> cs, nc |-> nc, count |-> count]),
              !.bytes = off + n]

RECURSIVE WriteAttrSeq(_, _, _)
WriteAttrSeq(x, as, nv) ==
    IF as = <<>> THEN x
    ELSE WriteAttrSeq(WriteView(x, nv * Head(as).ar * CompBytes(Head(as).id), CompBytes(Head(as).id), Head(as).ar, nv, 34962),
                      Tail(as), nv)

IsVec(a) == a.ar >= 2                      \* scalar attributes are not written by AddMesh
WriteMeshData(x, ptr) ==
    LET mesh == MeshPool[ptr]
        as == SelectSeq(mesh.attrs, IsVec)
        xa == WriteAttrSeq(x, as, mesh.nv)
        ics == IF mesh.nv > 65535 THEN 4 ELSE 2          \* attributeSize > math.MaxUint16
        xi == WriteView(xa, mesh.ni * ics, ics, 1, mesh.ni, 34963)
    IN [xi EXCEPT !.written = @ \cup {[ptr |-> ptr, first |-> Len(x.accs) + 1, n |-> Len(as), idx |-> Len(xi.accs)]}]

\* index a reference to texture pointer t resolves to (after it was added)
TexIndexOf(x, t) ==
    IF \E e \in x.texIdx : e.ptr = t THEN (CHOOSE e \in x.texIdx : e.ptr = t).idx
    ELSE LET tp == TexPool[t] IN
         CHOOSE i \in DOMAIN x.gtexs :
            /\ x.images[x.gtexs[i].img] = tp.uri
            /\ IF tp.samp = 0 THEN x.gtexs[i].samp = 0 ELSE x.gtexs[i].samp # 0 /\ x.samplers[x.gtexs[i].samp] = tp.samp

AddTexture(x, t) ==
    LET tp == TexPool[t]
        x0 == [x EXCEPT !.ext = IF tp.xf # 0 THEN @ \cup {"KHR_texture_transform"} ELSE @,
                        !.req = IF tp.xf = 3 THEN @ \cup {"KHR_texture_transform"} ELSE @]
    IN  IF \E e \in x.texIdx : e.ptr = t THEN x0
        ELSE LET imgFound == \E i \in DOMAIN x0.images : x0.images[i] = tp.uri
                 img == IF imgFound THEN CHOOSE i \in DOMAIN x0.images : x0.images[i] = tp.uri ELSE Len(x0.images) + 1
                 x1 == IF imgFound THEN x0 ELSE [x0 EXCEPT !.images = Append(@, tp.uri)]
                 sFound == \E i \in DOMAIN x1.samplers : x1.samplers[i] = tp.samp
                 samp == IF tp.samp = 0 THEN 0
                         ELSE IF sFound THEN CHOOSE i \in DOMAIN x1.samplers : x1.samplers[i] = tp.samp ELSE Len(x1.samplers) + 1
                 x2 == IF tp.samp = 0 \/ sFound THEN x1 ELSE [x1 EXCEPT !.samplers = Append(@, tp.samp)]
                 nt == [img |-> img, samp |-> samp]
             IN  IF \E i \in DOMAIN x2.gtexs : x2.gtexs[i] = nt THEN x2      \* value duplicate: reuse, pointer not registered
                 ELSE [x2 EXCEPT !.gtexs = Append(@, nt), !.texIdx = @ \cup {[ptr |-> t, idx |-> Len(x2.gtexs) + 1]}]

RECURSIVE AddTextures(_, _)
AddTextures(x, ts) == IF ts = <<>> THEN x ELSE AddTextures(AddTexture(x, Head(ts)), Tail(ts))

RECURSIVE ExtTexes(_)
ExtTexes(es) == IF es = <<>> THEN <<>> ELSE <<Head(es).tex, Head(es).tex2>> \o ExtTexes(Tail(es))
NonZero(t) == t # 0
\* texture pointers of a material in the order AddMaterial visits them
MatTexSeq(m) == SelectSeq(<<m.btex, m.mrtex>> \o ExtTexes(m.exts) \o <<m.ntex, m.otex>>, NonZero)

AddMaterial(x, mi) ==
    LET hit == {k \in DOMAIN x.gmats : MatEq(x.gmats[k].from, mi)} IN
    IF hit # {} THEN [x |-> x, idx |-> SetMin(hit)]
    ELSE LET ts == MatTexSeq(MatPool[mi])
             xt == AddTextures(x, ts)
             gm == [from |-> mi, refs |-> [k \in DOMAIN ts |-> TexIndexOf(xt, ts[k])]]
         IN [x |-> [xt EXCEPT !.gmats = Append(@, gm), !.ext = @ \cup {ExtName(e.k) : e \in Ran(MatPool[mi].exts)}],
             idx |-> Len(xt.gmats) + 1]

AddNode(x, g, m) ==
    LET k == Len(m.inst)
        x1 == IF k = 0 THEN x
              ELSE [WriteView(WriteView(WriteView(x, 12 * k, 4, 3, k, 34962), 12 * k, 4, 3, k, 34962), 16 * k, 4, 4, k, 34962)
                    EXCEPT !.ext = @ \cup {"EXT_mesh_gpu_instancing"}]
        iacc == IF k = 0 THEN <<>> ELSE <<Len(x.accs) + 1, Len(x.accs) + 2, Len(x.accs) + 3>>
    IN [x1 EXCEPT !.nodes = Append(@, [g |-> g, inst |-> iacc, light |-> 0])]

AddModelW(x, m) ==
    IF MeshPool[m.mesh].ni = 0 THEN x                    \* PrimitiveCount() = 0: not added, no node
    ELSE LET r == IF m.mat = 0 THEN [x |-> x, idx |-> 0] ELSE AddMaterial(x, m.mat)
             x1 == r.x
             key == <<m.mesh, r.idx>>
             hit == {e \in x1.meshIdx : e.key = key}
         IN  IF hit # {} THEN AddNode(x1, (CHOOSE e \in hit : TRUE).g, m)
             ELSE LET x2 == IF \E e \in x1.written : e.ptr = m.mesh THEN x1 ELSE WriteMeshData(x1, m.mesh)
                      rec == CHOOSE e \in x2.written : e.ptr = m.mesh
                      g == Len(x2.gmeshes) + 1
                      x3 == [x2 EXCEPT !.gmeshes = Append(@, [ptr |-> m.mesh, mat |-> r.idx, first |-> rec.first, n |-> rec.n, idx |-> rec.idx]),
                                       !.meshIdx = @ \cup {[key |-> key, g |-> g]}]
                  IN AddNode(x3, g, m)

(* ----------------------------- scenes ---------------------------------- *)
NoTrs == [t |-> <<>>, r |-> <<>>, s |-> <<>>]
TrsOf(k) == CASE k = 0 -> NoTrs
              [] k = 1 -> [t |-> <<8, -16, 12>>, r |-> <<>>, s |-> <<>>]
              [] OTHER -> [t |-> <<-8, 4, 0>>, r |-> <<4, 4, 4, 4>>, s |-> <<16, 8, 4>>]
InstOf(n) == [i \in 1..n |-> [t |-> <<8 * i, 0, -4>>, r |-> IF i = 1 THEN <<0, 0, 0, 8>> ELSE <<8, 0, 0, 0>>, s |-> <<8, 8 * i, 8>>]]
LightOf(k) == [type |-> k % 4, col |-> k % 3, inten |-> IF k % 2 = 0 THEN 12 ELSE -1, range |-> IF k = 1 THEN 40 ELSE -1,
               pos |-> <<8 * k, 0, -8>>]

Candidates ==
    {[name |-> 1 + (Len(models) % 2), mesh |-> me, mat |-> ma, trs |-> TrsOf(tk), inst |-> InstOf(n)] :
        me \in MeshIds, ma \in MatIds, tk \in TrsKinds, n \in InstCounts}

Init == w = EmptyW /\ models = <<>> /\ lights = <<>>

AddModel == /\ Len(models) < MaxModels /\ lights = <<>>
            /\ \E m \in Candidates : w' = AddModelW(w, m) /\ models' = Append(models, m)
            /\ UNCHANGED lights

AddLight == /\ Len(lights) < MaxLights /\ models # <<>>
            /\ w' = [w EXCEPT !.nodes = Append(@, [g |-> 0, inst |-> <<>>, light |-> Len(lights) + 1]),
                              !.ext = @ \cup {"KHR_lights_punctual"}]
            /\ lights' = Append(lights, LightOf(Len(lights) + 1))
            /\ UNCHANGED models

Next == AddModel \/ AddLight
Spec == Init /\ [][Next]_vars

(* ----------------------------- properties of the design ---------------- *)
L2Aligned == \A a \in Ran(w.accs) : w.views[a.view].off % a.cs = 0
L2Tiled ==
    /\ \A i \in DOMAIN w.views : i > 1 => w.views[i].off >= w.views[i - 1].off + w.views[i - 1].len
    /\ w.views # <<>> => w.views[Len(w.views)].off + w.views[Len(w.views)].len = w.bytes
    /\ \A a \in Ran(w.accs) : a.count * a.cs * a.nc = w.views[a.view].len
L2IndexWidth ==
    \A g \in Ran(w.gmeshes) : LET nv == MeshPool[g.ptr].nv IN
        /\ w.accs[g.idx].cs = 2 => nv <= 65535                   \* every index fits and is not the restart value
        /\ w.accs[g.idx].cs = 4 => nv > 65535                    \* narrowest width
L2Counts == \A g \in Ran(w.gmeshes) : \A k \in 0..(g.n - 1) : w.accs[g.first + k].count = MeshPool[g.ptr].nv
L2MeshOnce ==
    /\ \A e1, e2 \in w.written : e1.ptr = e2.ptr => e1 = e2
    /\ \A g1, g2 \in Ran(w.gmeshes) : g1.ptr = g2.ptr => (g1.first = g2.first /\ g1.idx = g2.idx)
    /\ \A i, j \in DOMAIN w.gmeshes : (i # j /\ w.gmeshes[i].ptr = w.gmeshes[j].ptr) => w.gmeshes[i].mat # w.gmeshes[j].mat

IsLive(m) == MeshPool[m.mesh].ni > 0
LiveModels == SelectSeq(models, IsLive)
IsMeshNode(n) == n.g # 0
MeshNodes == SelectSeq(w.nodes, IsMeshNode)
\* every model's primitive references a material that IS the model's material (by value)
L2MatRef ==
    /\ Len(MeshNodes) = Len(LiveModels)
    /\ \A k \in DOMAIN LiveModels :
          LET gm == w.gmeshes[MeshNodes[k].g]  m == LiveModels[k] IN
          /\ gm.ptr = m.mesh
          /\ IF m.mat = 0 THEN gm.mat = 0 ELSE gm.mat # 0 /\ MatEqFull(w.gmats[gm.mat].from, m.mat)
\* every texture reference of a stored material resolves to a texture with that image and sampler
L2TexRef ==
    \A gm \in Ran(w.gmats) : LET ts == MatTexSeq(MatPool[gm.from]) IN
        \A k \in DOMAIN ts : LET gt == w.gtexs[gm.refs[k]]  tp == TexPool[ts[k]] IN
            /\ w.images[gt.img] = tp.uri
            /\ IF tp.samp = 0 THEN gt.samp = 0 ELSE gt.samp # 0 /\ w.samplers[gt.samp] = tp.samp
L2MatOnce == \A i, j \in DOMAIN w.gmats : i # j => ~MatEqFull(w.gmats[i].from, w.gmats[j].from)
L2TexOnce ==
    /\ \A i, j \in DOMAIN w.gtexs : i # j => w.gtexs[i] # w.gtexs[j]
    /\ \A i, j \in DOMAIN w.images : i # j => w.images[i] # w.images[j]
    /\ \A i, j \in DOMAIN w.samplers : i # j => w.samplers[i] # w.samplers[j]
L2ExtUsed ==
    /\ \A gm \in Ran(w.gmats) :
          /\ \A e \in Ran(MatPool[gm.from].exts) : ExtName(e.k) \in w.ext
          /\ \A t \in Ran(MatTexSeq(MatPool[gm.from])) : TexPool[t].xf # 0 => "KHR_texture_transform" \in w.ext
    /\ (\E n \in Ran(w.nodes) : n.inst # <<>>) => "EXT_mesh_gpu_instancing" \in w.ext
    /\ lights # <<>> => "KHR_lights_punctual" \in w.ext
    /\ w.req \subseteq w.ext

L2All == L2Tiled /\ L2IndexWidth /\ L2Counts /\ L2MeshOnce /\ L2TexRef /\ L2TexOnce /\ L2ExtUsed

(* ----------------------------- generator output ------------------------ *)
Risk == (IF L2Aligned THEN {} ELSE {"L2Aligned"}) \cup (IF L2MatRef THEN {} ELSE {"L2MatRef"})
        \cup (IF L2MatOnce THEN {} ELSE {"L2MatOnce"})
Descriptor == [tag |-> "l2", vmode |-> "lattice", div |-> 8, meshes |-> MeshPool, texs |-> TexPool, mats |-> MatPool,
               models |-> models, lights |-> lights, kinds |-> <<>>, risk |-> Risk]
\* evaluated once per distinct state = once per scene
Emit == models = <<>> \/ PrintT(ToJson(Descriptor))
\* -simulate: print complete walks only (no action enabled any more)
EmitLeaf == ~((Len(models) = MaxModels \/ lights # <<>>) /\ Len(lights) = MaxLights /\ models # <<>>) \/ PrintT(ToJson(Descriptor))
=============================================================================
