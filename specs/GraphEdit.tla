------------------------------ MODULE GraphEdit ------------------------------
(***************************************************************************)
(* C12 - editor history of a node graph (generator.App / graph.Instance)   *)
(* and its save / load functions.                                          *)
(*                                                                         *)
(* Abstract graph g:                                                       *)
(*   ids    set of node numbers k ("Node-k")                               *)
(*   type   id -> type number (table below)                                *)
(*   name, desc, val : id -> small integers (parameters only; 0 otherwise);*)
(*          the harness maps them to type-specific strings / JSON values   *)
(*   single id -> <<s1..s4>> source of single port p (-1 = unconnected)    *)
(*   arr    id -> Seq(source)   the array port (order matters!)            *)
(*   prod   set of <<file name id, node>>;  meta : set of <<path id, val>> *)
(*                                                                         *)
(* types: 1 String 2 Float64 3 Int 4 Bool 5 Vector3 6 Vector3Array         *)
(*        7 Color 8 AABB (parameters);                                     *)
(*        10 Concat(Values[]:s, Sep:s) -> s   11 Fmt(F:f,I:i,B:b,S:s) -> s *)
(*        12 Sum(Values[]:f) -> f  13 Difference(A:f,B:f) -> f             *)
(*        14 Text(In:s) -> artifact                                        *)
(*                                                                         *)
(* A step is [op, a, b, c] (integers); Apply(g, st) is the editor's        *)
(* contract.  Save/Load at contract level: Load(Save(g)) = g with          *)
(* Save(g) listing, per node, its dependencies in a list; Load replays the *)
(* list appending array inputs in list order.  SaveOrder is how the list   *)
(* is ordered: "index" (numeric array index, the contract) or "lex" (the   *)
(* pinned code: case-folded lexicographic order of the strings "Values.k", *)
(* so "Values.10" < "Values.2").  TLC checks RoundTrip for both on every   *)
(* reachable graph: it holds for "index" and fails for "lex" as soon as an *)
(* array port has more than ten connections (design-level finding).        *)
(* The same machine is the GENERATOR of edit histories replayed on the     *)
(* real App; TraceGraphEdit judges the observed save/reload behaviour.     *)
(***************************************************************************)
EXTENDS Integers, Sequences, FiniteSets, TLC, Json, SequencesExt

CONSTANTS Depth, Prelude, MaxNodes, SaveOrder

VARIABLES g, hist
vars == <<g, hist>>

IsParam(t) == t \in 1..8
OutKind(t) == CASE t \in {1, 10, 11} -> "s" [] t \in {2, 12, 13} -> "f" [] t = 3 -> "i" [] t = 4 -> "b"
                [] t = 14 -> "art" [] OTHER -> "x"
HasArr(t) == t \in {10, 12}
ArrKind(t) == IF t = 10 THEN "s" ELSE "f"
PortKind(t, p) ==
    CASE t = 10 /\ p = 1 -> "s"
      [] t = 11 /\ p = 1 -> "f" [] t = 11 /\ p = 2 -> "i" [] t = 11 /\ p = 3 -> "b" [] t = 11 /\ p = 4 -> "s"
      [] t = 13 /\ p \in {1, 2} -> "f"
      [] t = 14 /\ p = 1 -> "s"
      [] OTHER -> "none"

NoSingle == <<0 - 1, 0 - 1, 0 - 1, 0 - 1>>
Empty == [ids |-> {}, type |-> <<>>, name |-> <<>>, desc |-> <<>>, val |-> <<>>, single |-> <<>>, arr |-> <<>>,
          prod |-> {}, meta |-> {}]

\* buildIDsForNode: first free number starting at the current node count
RECURSIVE FreeFrom(_, _)
FreeFrom(ids, k) == IF k \in ids THEN FreeFrom(ids, k + 1) ELSE k
NewId(ids) == FreeFrom(ids, Cardinality(ids))

Ext(f, k, v) == [x \in DOMAIN f \cup {k} |-> IF x = k THEN v ELSE f[x]]
Drop(f, k) == [x \in DOMAIN f \ {k} |-> f[x]]

DependsOn(gr, n, s) == (\E p \in 1..4 : gr.single[n][p] = s) \/ (\E i \in DOMAIN gr.arr[n] : gr.arr[n][i] = s)
Users(gr, s) == {n \in gr.ids : DependsOn(gr, n, s)}

RECURSIVE Reach(_, _, _)
Reach(gr, S, k) ==
    IF k = 0 THEN S
    ELSE Reach(gr, S \cup {s \in gr.ids : \E n \in S : DependsOn(gr, n, s)}, k - 1)
WouldCycle(gr, src, dst) == dst \in Reach(gr, {src}, Cardinality(gr.ids))

Enabled(gr, st) ==
    LET op == st.op  a == st.a  b == st.b  c == st.c IN
    CASE op = "create" -> Cardinality(gr.ids) < MaxNodes
      [] op = "connect" -> /\ a \in gr.ids /\ b \in gr.ids /\ a # b
                           /\ PortKind(gr.type[b], c) = OutKind(gr.type[a]) /\ ~WouldCycle(gr, a, b)
      [] op = "connectarr" -> /\ a \in gr.ids /\ b \in gr.ids /\ a # b /\ HasArr(gr.type[b])
                              /\ ArrKind(gr.type[b]) = OutKind(gr.type[a]) /\ ~WouldCycle(gr, a, b)
                              /\ Len(gr.arr[b]) < 13
      [] op = "disconnect" -> b \in gr.ids /\ c \in 1..4 /\ gr.single[b][c] # 0 - 1
      [] op = "disconnectarr" -> b \in gr.ids /\ c \in DOMAIN gr.arr[b]
      [] op \in {"setval", "setname", "setdesc"} -> a \in gr.ids /\ IsParam(gr.type[a])
                                                    /\ (gr.type[a] = 4 /\ op = "setval" => b \in {0, 1})
      [] op = "setproducer" -> a \in gr.ids /\ gr.type[a] = 14
      [] op = "setmeta" -> TRUE
      [] op = "delmeta" -> \E m \in gr.meta : m[1] = a
      [] op = "delete" -> a \in gr.ids /\ Users(gr, a) = {}
      [] op = "swap" -> TRUE
      [] OTHER -> FALSE

Apply(gr, st) ==
    LET op == st.op  a == st.a  b == st.b  c == st.c IN
    CASE op = "create" ->
            LET k == NewId(gr.ids) IN
            [gr EXCEPT !.ids = @ \cup {k}, !.type = Ext(@, k, a), !.name = Ext(@, k, 0), !.desc = Ext(@, k, 0),
                       !.val = Ext(@, k, 0), !.single = Ext(@, k, NoSingle), !.arr = Ext(@, k, <<>>)]
      [] op = "connect" -> [gr EXCEPT !.single[b][c] = a]
      [] op = "connectarr" -> [gr EXCEPT !.arr[b] = Append(@, a)]
      [] op = "disconnect" -> [gr EXCEPT !.single[b][c] = 0 - 1]
      [] op = "disconnectarr" -> [gr EXCEPT !.arr[b] = SubSeq(@, 1, c - 1) \o SubSeq(@, c + 1, Len(@))]
      [] op = "setval" -> [gr EXCEPT !.val[a] = b]
      [] op = "setname" -> [gr EXCEPT !.name[a] = b]
      [] op = "setdesc" -> [gr EXCEPT !.desc[a] = b]
      [] op = "setproducer" ->    \* a node is the producer of at most one file; a file name has one producer
            [gr EXCEPT !.prod = {q \in @ : q[2] # a /\ q[1] # b} \cup {<<b, a>>}]
      [] op = "setmeta" -> [gr EXCEPT !.meta = {m \in @ : m[1] # a} \cup {<<a, b>>}]
      [] op = "delmeta" -> [gr EXCEPT !.meta = {m \in @ : m[1] # a}]
      [] op = "delete" ->
            [gr EXCEPT !.ids = @ \ {a}, !.type = Drop(@, a), !.name = Drop(@, a), !.desc = Drop(@, a),
                       !.val = Drop(@, a), !.single = Drop(@, a), !.arr = Drop(@, a),
                       !.prod = {q \in @ : q[2] # a}]
      [] OTHER -> gr        \* "swap": continue editing on the reloaded application

(* ---------------- save / load (contract and pinned-code ordering) -------- *)
\* digits of k as a sequence, for the lexicographic comparison of "Values.k" strings
Digits(k) == IF k < 10 THEN <<k>> ELSE <<k \div 10, k % 10>>
LexLess(x, y) ==
    LET dx == Digits(x)  dy == Digits(y)
        n == IF Len(dx) < Len(dy) THEN Len(dx) ELSE Len(dy)
    IN \/ \E i \in 1..n : dx[i] < dy[i] /\ \A j \in 1..(i - 1) : dx[j] = dy[j]
       \/ (Len(dx) < Len(dy) /\ \A j \in 1..n : dx[j] = dy[j])
\* order in which the array dependencies "Values.0".."Values.(n-1)" are listed in the file
FileOrder(n) ==
    IF SaveOrder = "index" THEN [i \in 1..n |-> i - 1]
    ELSE SetToSortSeq(0..(n - 1), LexLess)
SaveArr(a) == LET ord == FileOrder(Len(a)) IN [i \in 1..Len(a) |-> a[ord[i] + 1]]   \* sources in file order
LoadArr(filed) == filed                                                        \* appended in file order
Reloaded(gr) == [gr EXCEPT !.arr = [n \in DOMAIN gr.arr |-> LoadArr(SaveArr(gr.arr[n]))]]
RoundTrip == Reloaded(g) = g

(* ---------------- preludes (cfg: CONSTANT Prelude <- PreludeX) -------------- *)
St(op, a, b, c) == [op |-> op, a |-> a, b |-> b, c |-> c]
PreludeEmpty == <<>>
\* Text(Node-1) <- Concat(Node-0) <- two string parameters; producer file1
PreludeSmall ==
    <<St("create", 10, 0, 0), St("create", 14, 0, 0), St("connect", 0, 1, 1), St("setproducer", 1, 1, 0),
      St("create", 1, 0, 0), St("setval", 2, 1, 0), St("create", 1, 0, 0), St("setval", 3, 2, 0),
      St("connectarr", 2, 0, 0), St("connectarr", 3, 0, 0)>>
\* the same with twelve array connections in the non-periodic pattern 2 3 3 2 3 2 2 2 3 3 2 3
PreludeTwelve ==
    SubSeq(PreludeSmall, 1, 8) \o
    [i \in 1..12 |-> St("connectarr", <<2, 3, 3, 2, 3, 2, 2, 2, 3, 3, 2, 3>>[i], 0, 0)]
\* mixed types: Fmt(Node-0) over float/int/bool/string parameters, Sum, Difference
PreludeMixed ==
    <<St("create", 11, 0, 0), St("create", 2, 0, 0), St("create", 3, 0, 0), St("create", 4, 0, 0), St("create", 1, 0, 0),
      St("connect", 1, 0, 1), St("connect", 2, 0, 2), St("connect", 3, 0, 3), St("connect", 4, 0, 4),
      St("create", 14, 0, 0), St("connect", 0, 5, 1), St("setproducer", 5, 2, 0),
      St("create", 12, 0, 0), St("connectarr", 1, 6, 0), St("create", 13, 0, 0), St("connect", 6, 7, 1), St("connect", 1, 7, 2),
      St("setval", 1, 2, 0), St("setname", 1, 1, 0), St("setdesc", 2, 2, 0), St("setmeta", 1, 2, 0)>>

(* ---------------- the state machine ---------------------------------------- *)
RECURSIVE ApplyAll(_, _)
ApplyAll(gr, steps) == IF steps = <<>> THEN gr ELSE ApplyAll(Apply(gr, Head(steps)), Tail(steps))

Init == g = ApplyAll(Empty, Prelude) /\ hist = Prelude

Candidates ==
    {St("create", t, 0, 0) : t \in {1, 2, 3, 4, 5, 6, 7, 8, 10, 11, 12, 13, 14}}
    \cup {St("connect", a, b, c) : a \in g.ids, b \in g.ids, c \in 1..4}
    \cup {St("connectarr", a, b, 0) : a \in g.ids, b \in g.ids}
    \cup {St("disconnect", 0, b, c) : b \in g.ids, c \in 1..4}
    \cup {St("disconnectarr", 0, b, c) : b \in g.ids, c \in 1..13}
    \cup {St(op, a, b, 0) : op \in {"setval", "setname", "setdesc"}, a \in g.ids, b \in {0, 1, 2}}   \* 0 = back to the default
    \cup {St("setproducer", a, b, 0) : a \in g.ids, b \in {1, 2}}
    \cup {St("setmeta", a, b, 0) : a \in 1..3, b \in {1, 2}}
    \cup {St("delmeta", a, 0, 0) : a \in 1..3}
    \cup {St("delete", a, 0, 0) : a \in g.ids}
    \cup {St("swap", 0, 0, 0)}

Next ==
    /\ Len(hist) < Len(Prelude) + Depth
    /\ \E st \in Candidates : Enabled(g, st) /\ g' = Apply(g, st) /\ hist' = Append(hist, st)

Spec == Init /\ [][Next]_vars

TypeOK ==
    /\ \A n \in g.ids : \A p \in 1..4 : g.single[n][p] = 0 - 1 \/ g.single[n][p] \in g.ids
    /\ \A n \in g.ids : \A i \in DOMAIN g.arr[n] : g.arr[n][i] \in g.ids
    /\ \A q \in g.prod : q[2] \in g.ids
    /\ DOMAIN g.type = g.ids
Acyclic == \A n \in g.ids : n \notin Reach(g, {s \in g.ids : DependsOn(g, n, s)}, Cardinality(g.ids))

Emit == Len(hist) = Len(Prelude) \/ PrintT(ToJson([steps |-> hist]))
EmitLeaf == Len(hist) < Len(Prelude) + Depth \/ PrintT(ToJson([steps |-> hist]))
View == <<g, Len(hist)>>
=============================================================================
