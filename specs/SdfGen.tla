------------------------------- MODULE SdfGen -------------------------------
(***************************************************************************)
(* Generator of C19 cases and design-level checks of Sdf.tla itself.       *)
(*                                                                         *)
(* Every initial state is one case: a shape (Sdf.tla record) with integer  *)
(* parameters, the denominator den (real value = integer / den) and the    *)
(* 7x7x7 sample lattice around it (origin lo, stride st per axis).  TLC    *)
(* enumerates the parameter tuples; Emit prints each case once.            *)
(*                                                                         *)
(* Checked on the specification, for every generated shape, on a 5x5x5     *)
(* sub-lattice (these are theorems about the point sets, independent of    *)
(* the code; they tie the hand-written interior predicates to each other): *)
(*   Adm          every generated shape is admissible                      *)
(*   Convex       primitives and intersections are convex (midpoint law)   *)
(*   RefAgrees    closed-form distance and interior predicate agree in sign*)
(*   ConeLaws     the round cone contains both end balls, lies inside the  *)
(*                capsule of the larger radius, and is the capsule when    *)
(*                r1 = r2; a capsule with equal end points is a sphere     *)
(*   BoxLaws      the rounded box contains the box and lies in the box     *)
(*                grown by 2r; on the axes through the centre it ends      *)
(*                exactly at b/2 + r                                       *)
(*   CylLaws      on the axis the rounded cylinder ends at h + rb, in the   *)
(*                mid-plane at radius 2ra                                  *)
(*   TranslateLaw Cls(tr(s,o), p + o) = Cls(s, p)                          *)
(*   SetLaws      union/intersection are commutative and idempotent,       *)
(*                a - a is empty, (a - b) lies in a and misses b           *)
(***************************************************************************)
EXTENDS Sdf, Json

CONSTANTS Level,      \* 1: small parameter sets (quick), 2: larger (thorough)
          Seed,       \* rotates which binary magnitudes go with which shape
          NExp,       \* how many binary magnitudes between the extremes every shape with den = 1 is also emitted at
          Fine        \* samples per axis of the secondary magnitude variants (3 or 5)

VARIABLES case
vars == <<case>>

Sphere(c, r) == [t |-> "sphere", c |-> c, r |-> r]
BoxS(c, b) == [t |-> "box", c |-> c, b |-> b]
RBox(c, b, r) == [t |-> "rbox", c |-> c, b |-> b, r |-> r]
Line(a, b, r) == [t |-> "line", a |-> a, b |-> b, r |-> r]
RCone(a, b, r1, r2) == [t |-> "rcone", a |-> a, b |-> b, r1 |-> r1, r2 |-> r2]
RCyl(c, ra, rb, h) == [t |-> "rcyl", c |-> c, ra |-> ra, rb |-> rb, h |-> h]
Plane(c, n, nl, h) == [t |-> "plane", c |-> c, n |-> n, nl |-> nl, h |-> h]
Tr(s, o) == [t |-> "tr", ss |-> <<s>>, o |-> o]
Op(t, ss) == [t |-> t, ss |-> ss]

O == <<0, 0, 0>>
Centers == IF Level = 1 THEN {<<1, 0 - 2, 3>>} ELSE {O, <<1, 0 - 2, 3>>}
Radii == IF Level = 1 THEN {1, 3, 5} ELSE 1..6
BoxSizes == {<<2, 2, 2>>, <<4, 6, 2>>, <<3, 5, 7>>} \cup (IF Level = 1 THEN {} ELSE {<<1, 1, 9>>, <<8, 8, 8>>})
Segments == {<<O, <<4, 0, 0>>>>, <<<<1, 1, 1>>, <<1, 1, 1>>>>, <<<<0 - 1, 0 - 2, 0>>, <<2, 2, 0>>>>, <<O, <<2, 3, 0 - 1>>>>}
            \cup (IF Level = 1 THEN {} ELSE {<<<<1, 1, 1>>, <<1, 1, 5>>>>, <<<<3, 0, 0>>, <<0 - 3, 1, 2>>>>, <<O, <<1, 0, 0>>>>})
ConeRadii == {<<1, 1>>, <<2, 1>>, <<1, 3>>, <<5, 1>>, <<2, 2>>} \cup (IF Level = 1 THEN {} ELSE {<<1, 2>>, <<3, 1>>, <<1, 6>>, <<4, 3>>})
CylParams == {<<2, 1, 2>>, <<1, 1, 1>>, <<1, 2, 3>>, <<3, 2, 1>>} \cup (IF Level = 1 THEN {} ELSE {<<2, 3, 2>>, <<3, 1, 4>>, <<1, 1, 5>>})
Normals == {<<<<1, 0, 0>>, 1>>, <<<<0, 0 - 1, 0>>, 1>>, <<<<0, 0, 1>>, 1>>, <<<<3, 4, 0>>, 5>>, <<<<1, 2, 2>>, 3>>}
           \cup (IF Level = 1 THEN {} ELSE {<<<<0 - 1, 0, 0>>, 1>>, <<<<0, 1, 0>>, 1>>, <<<<0, 0, 0 - 1>>, 1>>,
                                           <<<<0, 0 - 4, 3>>, 5>>, <<<<2, 3, 6>>, 7>>, <<<<0 - 2, 1, 0 - 2>>, 3>>})
Heights == IF Level = 1 THEN {0, 0 - 2} ELSE {0, 1, 0 - 2}

Primitives ==
    {Sphere(c, r) : c \in Centers, r \in Radii}
    \cup {BoxS(c, b) : c \in Centers, b \in BoxSizes}
    \cup {RBox(c, b, r) : c \in Centers, b \in BoxSizes, r \in {1, 2}}
    \cup {Line(sg[1], sg[2], r) : sg \in Segments, r \in {1, 2}}
    \cup {RCone(sg[1], sg[2], rr[1], rr[2]) : sg \in Segments, rr \in ConeRadii}
    \cup {RCyl(c, k[1], k[2], k[3]) : c \in Centers, k \in CylParams}
    \cup {Plane(c, nn[1], nn[2], h) : c \in Centers, nn \in Normals, h \in Heights}

\* operands of translations and combinators: one or two of each type
Pool == {Sphere(O, 3), Sphere(<<2, 0, 0>>, 2), BoxS(<<0, 1, 0>>, <<4, 4, 4>>), Line(O, <<2, 3, 0 - 1>>, 1),
         RCone(O, <<4, 0, 0>>, 2, 1), RCyl(O, 2, 1, 2), RBox(O, <<2, 2, 2>>, 1), Plane(O, <<0, 1, 0>>, 1, 0)}
Offsets == IF Level = 1 THEN {<<2, 0 - 1, 3>>} ELSE {<<2, 0 - 1, 3>>, <<0 - 4, 0, 0>>}
Translated == {Tr(s, o) : s \in Pool, o \in Offsets}
PairPool == IF Level = 1 THEN {Sphere(O, 3), Sphere(<<2, 0, 0>>, 2), BoxS(<<0, 1, 0>>, <<4, 4, 4>>), RCyl(O, 2, 1, 2),
                                  Plane(O, <<0, 1, 0>>, 1, 0)}
            ELSE Pool
PairSeqs == {<<a, b>> : a \in PairPool, b \in PairPool}
Triples == {<<Sphere(O, 3), Sphere(<<2, 0, 0>>, 2), BoxS(<<0, 1, 0>>, <<4, 4, 4>>)>>,
            <<RCyl(O, 2, 1, 2), Plane(O, <<0, 1, 0>>, 1, 0), Sphere(O, 3)>>,
            <<Line(O, <<2, 3, 0 - 1>>, 1), RBox(O, <<2, 2, 2>>, 1), RCone(O, <<4, 0, 0>>, 2, 1)>>}
Combined ==
    {Op("union", <<a>>) : a \in {Sphere(O, 3)}} \cup {Op("inter", <<a>>) : a \in {BoxS(<<0, 1, 0>>, <<4, 4, 4>>)}}
    \cup {Op("union", ab) : ab \in PairSeqs} \cup {Op("inter", ab) : ab \in PairSeqs}
    \cup {Op("sub", ab) : ab \in PairSeqs}
    \cup {Op("union", x) : x \in Triples} \cup {Op("inter", x) : x \in Triples}
    \cup {Tr(Op("sub", <<Sphere(O, 3), Sphere(<<2, 0, 0>>, 2)>>), <<1, 1, 1>>)}

Shapes == Primitives \cup Translated \cup Combined

(* ------------------------ sample lattice of a shape ----------------------- *)
Cube(c, r) == [lo |-> <<c[1] - r, c[2] - r, c[3] - r>>, hi |-> <<c[1] + r, c[2] + r, c[3] + r>>]
Hull(x, y) == [lo |-> <<Min2(x.lo[1], y.lo[1]), Min2(x.lo[2], y.lo[2]), Min2(x.lo[3], y.lo[3])>>,
               hi |-> <<Max2(x.hi[1], y.hi[1]), Max2(x.hi[2], y.hi[2]), Max2(x.hi[3], y.hi[3])>>]
RECURSIVE Bounds(_)
RECURSIVE HullAll(_, _)
HullAll(ss, k) == IF k = Len(ss) THEN Bounds(ss[k]) ELSE Hull(Bounds(ss[k]), HullAll(ss, k + 1))
Bounds(s) ==
    CASE s.t = "sphere" -> Cube(s.c, s.r)
      [] s.t = "box" -> [lo |-> <<s.c[1] - s.b[1] \div 2 - 1, s.c[2] - s.b[2] \div 2 - 1, s.c[3] - s.b[3] \div 2 - 1>>,
                         hi |-> <<s.c[1] + s.b[1] \div 2 + 1, s.c[2] + s.b[2] \div 2 + 1, s.c[3] + s.b[3] \div 2 + 1>>]
      [] s.t = "rbox" -> [lo |-> <<s.c[1] - s.b[1] \div 2 - 1 - s.r, s.c[2] - s.b[2] \div 2 - 1 - s.r, s.c[3] - s.b[3] \div 2 - 1 - s.r>>,
                          hi |-> <<s.c[1] + s.b[1] \div 2 + 1 + s.r, s.c[2] + s.b[2] \div 2 + 1 + s.r, s.c[3] + s.b[3] \div 2 + 1 + s.r>>]
      [] s.t = "line" -> Hull(Cube(s.a, s.r), Cube(s.b, s.r))
      [] s.t = "rcone" -> Hull(Cube(s.a, s.r1), Cube(s.b, s.r2))
      [] s.t = "rcyl" -> [lo |-> <<s.c[1] - 2 * s.ra, s.c[2] - s.h - s.rb, s.c[3] - 2 * s.ra>>,
                          hi |-> <<s.c[1] + 2 * s.ra, s.c[2] + s.h + s.rb, s.c[3] + 2 * s.ra>>]
      [] s.t = "plane" -> Cube(s.c, 3)
      [] s.t = "tr" -> LET b == Bounds(s.ss[1]) IN [lo |-> VAdd(b.lo, s.o), hi |-> VAdd(b.hi, s.o)]
      [] OTHER -> HullAll(s.ss, 1)

N == 7
Stride(ext, n) == IF ext <= n - 1 THEN 1 ELSE (ext + n - 2) \div (n - 1)        \* ceil(ext / (n-1))
LatticeN(s, n) ==
    LET b == Bounds(s)
        st == [i \in 1..3 |-> Stride(b.hi[i] - b.lo[i] + 2, n)]
    IN [lo |-> <<b.lo[1] - 1, b.lo[2] - 1, b.lo[3] - 1>>, st |-> <<st[1], st[2], st[3]>>, n |-> n]
Lattice(s) == LatticeN(s, N)

(* ----------------------- binary magnitude (round 2) ----------------------- *)
\* The real shape is (integer parameters) / den * 2^e2: the same integers read in a lattice unit of another
\* size.  Distances are homogeneous of degree 1 and IEEE arithmetic commutes with powers of two, so the real
\* closures must return the same values in lattice units at every e2; a closure with an absolute epsilon does
\* not.  The extreme magnitudes decide the most (at 2^-40 every absolute epsilon above ~1e-12 matters, at 2^40
\* every clamp below ~1e12), so every shape with den = 1 is also emitted at BOTH extremes and at NExp magnitudes
\* in between (rotated by a checksum of the shape and the seed).  Sample lattices of these variants: one extreme
\* (alternating with the checksum) on a 5x5x5 lattice (8 blocks + the far points), the others on an n x n x n
\* lattice with n = Fine (quick: 3, i.e. one block spanning the shape + the far points; thorough: 5).
ExpLadder == <<0 - 20, 0 - 12, 0 - 5, 0 - 2, 3, 12, 20>>
Extreme == 40
TypeIdx(t) == CASE t = "sphere" -> 0 [] t = "box" -> 1 [] t = "rbox" -> 2 [] t = "line" -> 3 [] t = "rcone" -> 4
                [] t = "rcyl" -> 5 [] t = "plane" -> 6 [] t = "tr" -> 7 [] t = "union" -> 8 [] t = "inter" -> 9 [] OTHER -> 10
Checksum(s) == LET b == Bounds(s) IN
               Abs(b.lo[1] + 3 * b.lo[2] + 5 * b.lo[3] + 7 * b.hi[1] + 11 * b.hi[2] + 13 * b.hi[3]) + TypeIdx(s.t)
VariantsOf(s) ==
    LET h == Checksum(s) + Seed IN
    {[e |-> 0 - Extreme, n |-> IF h % 2 = 0 THEN 5 ELSE Fine], [e |-> Extreme, n |-> IF h % 2 = 0 THEN Fine ELSE 5]}
    \cup {[e |-> ExpLadder[((h + k) % Len(ExpLadder)) + 1], n |-> Fine] : k \in 0..(NExp - 1)}

Dens == IF Level = 1 THEN {1, 2} ELSE {1, 2, 4}
\* half-/quarter-integer parameters: the same integers read with a denominator (a different real shape)
Init == \E s \in Shapes, d \in Dens :
            /\ d = 1 \/ s.t \notin {"union", "inter", "sub"}
            /\ \E x \in {[e |-> 0, n |-> N]} \cup (IF d = 1 THEN VariantsOf(s) ELSE {}) :
                  case = [k |-> "sdf", den |-> d, e2 |-> x.e, shape |-> s, lat |-> LatticeN(s, x.n)]
Next == FALSE /\ case' = case
Spec == Init /\ [][Next]_vars

(* --------------------------- design-level checks -------------------------- *)
S == case.shape
\* 5x5x5 sub-lattice of the case lattice
Pts == {<<case.lat.lo[1] + i * case.lat.st[1], case.lat.lo[2] + j * case.lat.st[2], case.lat.lo[3] + k * case.lat.st[3]>> :
            i \in 1..5, j \in 1..5, k \in 1..5}
IsConvexType(s) == s.t \notin {"union", "sub", "tr"}
Even(v) == v[1] % 2 = 0 /\ v[2] % 2 = 0 /\ v[3] % 2 = 0
Half(v) == <<v[1] \div 2, v[2] \div 2, v[3] \div 2>>

\* (the laws are about the integer shape: checked once per shape, on the states with e2 = 0)
Base == case.e2 = 0
Adm == Admissible(S)
Convex ==
    (Base /\ IsConvexType(S) /\ (S.t = "inter" => \A k \in DOMAIN S.ss : IsConvexType(S.ss[k]))) =>
        \A p, q \in Pts : Even(VAdd(p, q)) =>
            LET m == Half(VAdd(p, q)) IN
            /\ (Cls(S, p) <= 0 /\ Cls(S, q) <= 0) => Cls(S, m) <= 0
            /\ (Cls(S, p) < 0 /\ Cls(S, q) < 0) => Cls(S, m) < 0
RefAgrees == Base => \A p \in Pts : RefAgreesWithCls(S, p)
ConeLaws ==
    /\ (Base /\ S.t = "rcone") =>
          \A p \in Pts :
              /\ (Cls(Sphere(S.a, S.r1), p) < 0 \/ Cls(Sphere(S.b, S.r2), p) < 0) => Cls(S, p) < 0
              /\ (Cls(Sphere(S.a, S.r1), p) <= 0 \/ Cls(Sphere(S.b, S.r2), p) <= 0) => Cls(S, p) <= 0
              /\ Cls(Line(S.a, S.b, Max2(S.r1, S.r2)), p) > 0 => Cls(S, p) > 0
              /\ Cls(Line(S.a, S.b, Min2(S.r1, S.r2)), p) < 0 => Cls(S, p) < 0
              /\ S.r1 = S.r2 => Cls(S, p) = Cls(Line(S.a, S.b, S.r1), p)
    /\ (Base /\ S.t = "line") =>
          \A p \in Pts :
              /\ Cls(S, p) = ClsCone(S.a, S.b, S.r, S.r, p)
              /\ S.a = S.b => Cls(S, p) = Cls(Sphere(S.a, S.r), p)
BoxLaws ==
    (Base /\ S.t = "rbox") =>
        \A p \in Pts :
            /\ Cls(BoxS(S.c, S.b), p) <= 0 => Cls(S, p) < 0
            /\ Cls(BoxS(S.c, <<S.b[1] + 2 * S.r, S.b[2] + 2 * S.r, S.b[3] + 2 * S.r>>), p) > 0 => Cls(S, p) > 0
            /\ \A i \in 1..3 : (\A j \in 1..3 : j # i => p[j] = S.c[j]) =>
                                   Cls(S, p) = Sgn(2 * Abs(p[i] - S.c[i]) - S.b[i] - 2 * S.r)
CylLaws ==
    (Base /\ S.t = "rcyl") =>
        \A p \in Pts :
            /\ (p[1] = S.c[1] /\ p[3] = S.c[3]) => Cls(S, p) = Sgn(Abs(p[2] - S.c[2]) - S.h - S.rb)
            /\ p[2] = S.c[2] => Cls(S, p) = Sgn((p[1] - S.c[1]) * (p[1] - S.c[1]) + (p[3] - S.c[3]) * (p[3] - S.c[3]) - 4 * S.ra * S.ra)
TranslateLaw ==
    (Base /\ S.t = "tr") => \A p \in Pts : Cls(S, VAdd(p, S.o)) = Cls(S.ss[1], p) /\ Cls(Tr(S, S.o), VAdd(VAdd(p, S.o), S.o)) = Cls(S.ss[1], p)
SetLaws ==
    (Base /\ S.t \in {"union", "inter", "sub"} /\ Len(S.ss) = 2) =>
        \A p \in Pts :
            LET a == S.ss[1]
                b == S.ss[2]
            IN /\ S.t # "sub" => Cls(S, p) = Cls(Op(S.t, <<b, a>>), p)
               /\ S.t # "sub" => Cls(Op(S.t, <<a, a>>), p) = Cls(a, p)
               /\ S.t = "sub" => /\ Cls(Op("sub", <<a, a>>), p) >= 0
                                 /\ Cls(S, p) < 0 => (Cls(a, p) < 0 /\ Cls(b, p) > 0)
                                 /\ Cls(S, p) < 0 <=> Cls(Op("inter", <<a, Op("sub", <<a, b>>)>>), p) < 0

Emit == PrintT(ToJson(case))
=============================================================================
