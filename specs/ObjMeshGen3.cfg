CONSTANTS
  MaxMeshes = 3
  Rich = FALSE
  MaxTris = 2
SPECIFICATION Spec
INVARIANTS WriterDesign PipelineDesign Emit RiskyEmit
CHECK_DEADLOCK FALSE
