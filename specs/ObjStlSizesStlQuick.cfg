CONSTANTS
  Family = "stl"
  Thresholds = {64, 100, 128, 256, 512, 1000, 1024, 4096}
  Mults = {1, 2, 3}
  MaxSize = 4096
  MaxCount = 1025
  LineLens = {4096, 65536}
  SzThresholds = {32768, 65536}
  SzMults = {1, 2, 3, 4}
  CoreW = 1100
  CoreMax = 1100
  Rot = 3
SPECIFICATION Spec
INVARIANTS Covered Emit
CHECK_DEADLOCK FALSE
