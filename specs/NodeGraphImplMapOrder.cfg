CONSTANTS NP = 2 NN = 2 Depth = 6 MapOrder = TRUE
SPECIFICATION Spec
INVARIANTS NoStale Minimal
CHECK_DEADLOCK FALSE
