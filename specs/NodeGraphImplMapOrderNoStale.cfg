CONSTANTS NP = 2 NN = 2 Depth = 5 MapOrder = TRUE
SPECIFICATION Spec
INVARIANTS NoStale
CHECK_DEADLOCK FALSE
