\* material equality of the pinned tree: equal-by-value duplicates are stored twice (fixed in the repository)
CONSTANTS
  MeshIds = {1, 2, 3, 4, 5, 6, 9}
  MatIds = {0, 1, 2, 3, 4, 5, 6, 8, 11}
  InstCounts = {0, 1}
  TrsKinds = {0}
  MaxModels = 2
  MaxLights = 1
  Pad = TRUE
  DeepEq = FALSE
SPECIFICATION Spec
INVARIANTS L2MatOnce
CHECK_DEADLOCK FALSE
