\* the format carries every state up to 255 / 255 / 255 and 255 players
CONSTANTS MaxLen = 255 Crowd = 255 Mid = {1, 2}
SPECIFICATION Spec
INVARIANTS RoundTrip Faithful
CHECK_DEADLOCK FALSE
