CONSTANTS
  Reader = "cut"
  AllShapes = FALSE
SPECIFICATION Spec
INVARIANTS ReaderDesign
CHECK_DEADLOCK FALSE
