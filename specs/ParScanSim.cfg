\* random interleavings at larger sizes (-simulate), N <= 40, W <= 17
CONSTANTS
  MaxN = 40
  MaxW = 17
  MinW = 2
  Loop = "end"
SPECIFICATION Spec
INVARIANTS AtMostOnce Termination EmitDone
CHECK_DEADLOCK FALSE
