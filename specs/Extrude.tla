------------------------------ MODULE Extrude ------------------------------
(***************************************************************************)
(* X06 - contract of the extrusion generators of modeling/extrude          *)
(* (Polygon, Circle, CircleAlongSpline, Shape, ClosedShape, Line, Screw).  *)
(*                                                                         *)
(* A case c is what the generator was called with (ExtGen.tla):            *)
(*   gen      "polygon" | "circle" | "spline" | "shape" | "closedshape"    *)
(*            | "line" | "screw"                                           *)
(*   path     sequence of lattice points <<x,y,z>>, world units (screw:    *)
(*            the profile line, QUARTER units)                             *)
(*   sides    polygon sides / circle resolution / screw segments           *)
(*   rad      radius / thickness / line width, quarter units               *)
(*   radii    per ring radii (used iff there is one per ring), quarter u.  *)
(*   close    ClosePath of Circle / CircleAlongSpline                      *)
(*   stencil  cross-section of Shape, <<x,y>> quarter units                *)
(*   n        SplineResolution ;  up, h  Line ;  h, rev  Screw             *)
(*                                                                         *)
(* THE SURFACE.  An extrusion is a stack of RINGS, one per path point,     *)
(* ring k having RingLen stored vertices (vertex numbers k*RingLen ..),    *)
(* and one STRIP of quads between consecutive rings (and between the last  *)
(* and the first ring when the path is closed), every quad split into two  *)
(* triangles.  A vertex is named by its LOGICAL id <<ring, slot>>; the     *)
(* polygon family stores sides+1 vertices per ring, the last one being the *)
(* seam duplicate of slot 0 (needed for texture coordinates), so slot =    *)
(* (v % RingLen) % sides.  All combinatorial judgements are made on        *)
(* logical ids, so a ring of zero thickness (all positions equal) is as    *)
(* good as any other; that the seam duplicate really coincides with slot 0 *)
(* is a separate geometric predicate (Seam).                               *)
(*                                                                         *)
(* GEOMETRY.  Positions are integers: round(world * PS), PS = 256; a       *)
(* quarter unit is QS = 64.  Ring centres of the spline generator are      *)
(* rational (arc length L*k/(n-1)); everything is multiplied by            *)
(* Den = n-1 there.  Explicit tolerance bands: PlaneTol units per unit of  *)
(* |d|_1 for the plane, RadTol units for distances (projection rounding is *)
(* <= 0.87 unit, floating-point noise ~1e-13).                             *)
(*                                                                         *)
(* int32 budget: offsets from a ring centre are bounded by OffMax = 20000  *)
(* before anything is squared (a larger offset is off the ring whatever    *)
(* the radius: radii are <= 16 quarter units = 1024, Den <= 16).           *)
(***************************************************************************)
EXTENDS Surface, FiniteSets, TLC

PS == 256
QS == 64
PlaneTol == 2
RadTol == 3
OffMax == 20000

PolyFamily == {"polygon", "circle", "spline"}
ShapeFamily == {"shape", "closedshape"}

(* ------------------------- ring structure ----------------------------- *)
NRings(c) ==
    IF c.gen = "spline" THEN c.n
    ELSE IF c.gen = "screw" THEN c.sides
    ELSE Len(c.path)

RingLen(c) ==
    IF c.gen \in PolyFamily THEN c.sides + 1
    ELSE IF c.gen \in ShapeFamily THEN Len(c.stencil)
    ELSE IF c.gen = "line" THEN 3
    ELSE Len(c.path)

\* distinct slots of a ring
Slots(c) == IF c.gen \in PolyFamily THEN c.sides ELSE RingLen(c)

ClosedPath(c) == (c.gen \in {"circle", "spline"} /\ c.close) \/ c.gen = "closedshape"

Lid(c, v) ==
    LET rl == RingLen(c)
        s == v % rl
    IN <<v \div rl, IF c.gen \in PolyFamily THEN s % c.sides ELSE s>>

\* strips: k -> k+1, and N-1 -> 0 when the path is closed
StripStarts(c) == LET n == NRings(c) IN IF ClosedPath(c) THEN 0..(n - 1) ELSE 0..(n - 2)
NextRing(c, k) == (k + 1) % NRings(c)

\* a quad as <<a, b, cc, d>>: a, b on ring k (slots s, s'), cc, d on the next ring (slots s', s)
QuadSlots(c) ==
    IF c.gen \in PolyFamily \/ c.gen \in ShapeFamily THEN {<<s, (s + 1) % Slots(c)>> : s \in 0..(Slots(c) - 1)}
    ELSE IF c.gen = "line" THEN {<<0, 1>>, <<2, 0>>}
    ELSE {<<s, s + 1>> : s \in 0..(Slots(c) - 2)}

Quads(c) ==
    {<<<<k, ss[1]>>, <<k, ss[2]>>, <<NextRing(c, k), ss[2]>>, <<NextRing(c, k), ss[1]>>>> :
        k \in StripStarts(c), ss \in QuadSlots(c)}
Corners(q) == {q[1], q[2], q[3], q[4]}

\* reference triangulation (one diagonal choice; only its boundary and its
\* design-level properties are used, never its diagonals)
RefTris(c) == SetToSeq(UNION {{<<q[1], q[2], q[3]>>, <<q[1], q[3], q[4]>>} : q \in Quads(c)})

Undirected(E) == {{e[1], e[2]} : e \in E}

\* Closedness is a matter of INCIDENCE, not of orientation: an undirected edge used by
\* exactly one triangle is a boundary edge, no edge may be used by more than two.
\* Edges are coded as integers (min * M + max over the integer keys of the logical ids)
\* and counted in a sorted sequence.
Key(c, lid) == lid[1] * RingLen(c) + lid[2]
ECode(c, x, y) ==
    LET a == Key(c, x)
        b == Key(c, y)
        M == NRings(c) * RingLen(c) + 1
    IN IF a < b THEN a * M + b ELSE b * M + a
SortedEdgeCodes(c, TL) ==
    SortSeq([i \in 1..(3 * Len(TL)) |->
                LET t == TL[((i - 1) \div 3) + 1]
                    j == ((i - 1) % 3) + 1
                IN ECode(c, t[j], t[(j % 3) + 1])], LAMBDA x, y : x < y)
UsedOnce(s) == {s[i] : i \in {i \in DOMAIN s : (i = 1 \/ s[i - 1] # s[i]) /\ (i = Len(s) \/ s[i + 1] # s[i])}}
AtMostTwice(s) == \A i \in 1..(Len(s) - 2) : s[i] # s[i + 2]
BoundaryCodes(c, TL) == UsedOnce(SortedEdgeCodes(c, TL))
RefBoundary(c) == BoundaryCodes(c, RefTris(c))

(* ------------------------- classes of input --------------------------- *)
\* what the constructors must refuse or survive: too few points / sides
TooSmall(c) ==
    \/ c.gen \in {"polygon", "circle", "shape", "closedshape", "line"} /\ Len(c.path) < 2
    \/ c.gen = "spline" /\ (c.n < 2 \/ Len(c.path) < 2)
    \/ c.gen \in PolyFamily /\ c.sides < 3
    \/ c.gen \in ShapeFamily /\ Len(c.stencil) < 3
    \/ c.gen = "screw" /\ (Len(c.path) < 2 \/ c.sides < 2)

Seg(c, k) == VSub(c.path[k + 1], c.path[k])          \* k in 1..Len-1
Zero3 == <<0, 0, 0>>
HasRepeat(c) == \E k \in 1..(Len(c.path) - 1) : Seg(c, k) = Zero3
\* a reversal: consecutive segments anti-parallel
AntiPar(u, w) == Cross(u, w) = Zero3 /\ Dot(u, w) < 0
HasReversal(c) == \E k \in 1..(Len(c.path) - 2) : AntiPar(Seg(c, k), Seg(c, k + 1))

\* degenerate: accepted sizes, but a ring direction is undefined (repeated point,
\* reversal) or a closed path has fewer than 3 rings (the two strips coincide)
Degenerate(c) ==
    /\ ~TooSmall(c)
    /\ \/ c.gen # "screw" /\ (HasRepeat(c) \/ HasReversal(c))
       \/ ClosedPath(c) /\ NRings(c) < 3
       \/ c.gen = "screw" /\ HasRepeat(c)
       \/ c.gen = "line" /\ c.up = Zero3

Class(c) == IF TooSmall(c) THEN "reject" ELSE IF Degenerate(c) THEN "degenerate" ELSE "regular"

(* ------------------------- array lengths ------------------------------ *)
ExpectVerts(c) == NRings(c) * RingLen(c)
ExpectTris(c) == 2 * Cardinality(StripStarts(c)) * Cardinality(QuadSlots(c))
\* normals / texture coordinates: -1 = attribute absent
ExpectNormals(c) == IF c.gen = "screw" THEN -1 ELSE ExpectVerts(c)
ExpectUVs(c) ==
    IF c.gen \in {"line", "screw"} \/ (c.gen = "polygon" /\ c.uv) THEN ExpectVerts(c) ELSE -1

(* ------------------------- combinatorics on a real index buffer ------- *)
LTris(c, T) == [i \in DOMAIN T |-> <<Lid(c, T[i][1]), Lid(c, T[i][2]), Lid(c, T[i][3])>>]

\* every quad is covered by exactly two triangles which together use its four corners and
\* share one of its diagonals
StripsOK(c, TL) ==
    LET TS == [i \in DOMAIN TL |-> {TL[i][1], TL[i][2], TL[i][3]}]
    IN /\ \A i \in DOMAIN TS : Cardinality(TS[i]) = 3
       /\ \A q \in Quads(c) :
             LET cs == Corners(q)
                 inq == {i \in DOMAIN TS : TS[i] \subseteq cs}
             IN /\ Cardinality(inq) = 2 /\ UNION {TS[i] : i \in inq} = cs
                \* .. split along a diagonal (not two triangles on the same side of the quad)
                /\ \A i, j \in inq : i # j => TS[i] \cap TS[j] \in {{q[1], q[3]}, {q[2], q[4]}}

ClosedAsStated(c, TL) ==
    LET s == SortedEdgeCodes(c, TL) IN AtMostTwice(s) /\ UsedOnce(s) = RefBoundary(c)

(* ------------------------- ring centres and directions ---------------- *)
Den(c) == IF c.gen = "spline" THEN c.n - 1 ELSE 1

L1(v) == AbsI(v[1]) + AbsI(v[2]) + AbsI(v[3])
IsAxis(v) == Cardinality({j \in 1..3 : v[j] # 0}) = 1
Sgn(x) == IF x > 0 THEN 1 ELSE IF x < 0 THEN -1 ELSE 0
Unit(v) == <<Sgn(v[1]), Sgn(v[2]), Sgn(v[3])>>      \* of an axis-parallel vector
AxisPath(c) == \A k \in 1..(Len(c.path) - 1) : IsAxis(Seg(c, k))

RECURSIVE PathLenTo(_, _)
PathLenTo(c, k) == IF k <= 1 THEN 0 ELSE PathLenTo(c, k - 1) + L1(Seg(c, k - 1))   \* arc length at point k (axis paths)
PathLen(c) == PathLenTo(c, Len(c.path))

\* point at arc length num/den on an axis-parallel lattice path, times den
RECURSIVE PolyAtR(_, _, _, _)
PolyAtR(c, num, den, k) ==
    LET len == L1(Seg(c, k))
        a == PathLenTo(c, k)
    IN IF num <= (a + len) * den \/ k = Len(c.path) - 1
       THEN VAdd(VScale(den, c.path[k]), VScale(num - a * den, Unit(Seg(c, k))))
       ELSE PolyAtR(c, num, den, k + 1)
PolyAt(c, num, den) == PolyAtR(c, num, den, 1)

\* ring centre k (0-based), world units times Den(c)
Centre(c, k) ==
    IF c.gen = "spline" THEN PolyAt(c, PathLen(c) * k, c.n - 1)
    ELSE c.path[k + 1]

\* thickness of ring k, quarter units
Thick(c, k) == IF Len(c.radii) = NRings(c) THEN c.radii[k + 1] ELSE c.rad

\* chord from centre k to centre k+1 (times Den)
Chord(c, k) == VSub(Centre(c, k + 1), Centre(c, k))

\* The direction the ring plane is perpendicular to, as an integer vector (any
\* positive multiple will do).  Polygon family: unit(in) + unit(out), one-sided at the
\* two ends; defined here only where the adjacent chords are axis-parallel (always on
\* lattice paths; on sampled splines where the samples do not cut a corner).
\* Shape family: in + out (the chord P[k+1] - P[k-1]), one-sided at the ends.
DirKnown(c, k) ==
    LET n == NRings(c)
    IN IF c.gen \in ShapeFamily THEN TRUE
       ELSE /\ (k > 0 => IsAxis(Chord(c, k - 1)))
            /\ (k < n - 1 => IsAxis(Chord(c, k)))
RingDir(c, k) ==
    LET n == NRings(c)
    IN IF c.gen \in ShapeFamily
       THEN IF k = 0 THEN Chord(c, 0) ELSE IF k = n - 1 THEN Chord(c, k - 1) ELSE VAdd(Chord(c, k - 1), Chord(c, k))
       ELSE IF k = 0 THEN Unit(Chord(c, 0)) ELSE IF k = n - 1 THEN Unit(Chord(c, k - 1))
       ELSE VAdd(Unit(Chord(c, k - 1)), Unit(Chord(c, k)))

(* ------------------------- geometry of a real position array ---------- *)
\* offset of vertex v (0-based) from the centre of its ring, times Den
Off(c, pos, v) == VSub(VScale(Den(c), pos[v + 1]), VScale(PS, Centre(c, v \div RingLen(c))))
Small(o) == AbsI(o[1]) <= OffMax /\ AbsI(o[2]) <= OffMax /\ AbsI(o[3]) <= OffMax
Sq(x) == x * x
Norm2(o) == Dot(o, o)
RingVerts(c, k) == {k * RingLen(c) + s : s \in 0..(RingLen(c) - 1)}

OnPlane(c, pos, k) ==
    LET d == RingDir(c, k)
    IN \A v \in RingVerts(c, k) :
          LET o == Off(c, pos, v) IN Small(o) /\ AbsI(Dot(o, d)) <= PlaneTol * L1(d) * Den(c)

\* |o| = r within RadTol, r and tol already multiplied by Den
WithinBand(o, r, tol) ==
    /\ Small(o)
    /\ Norm2(o) <= Sq(r + tol)
    /\ (r <= tol \/ Norm2(o) >= Sq(r - tol))

AtRadius(c, pos, k) ==
    \A v \in RingVerts(c, k) : WithinBand(Off(c, pos, v), Thick(c, k) * QS * Den(c), RadTol * Den(c))

\* the seam duplicate (slot `sides`) coincides with slot 0
SeamOK(c, pos, k) ==
    LET a == pos[k * RingLen(c) + 1]
        b == pos[k * RingLen(c) + c.sides + 1]
    IN \A j \in 1..3 : AbsI(a[j] - b[j]) <= 1

\* a regular polygon: all sides of the ring have the same length (band from the radius)
RegularRing(c, pos, k) ==
    LET base == k * RingLen(c)
        ch(s) == VSub(pos[base + s + 2], pos[base + s + 1])
        r == Thick(c, k) * QS
    IN \A s \in 0..(c.sides - 1) :
          /\ Small(ch(s))
          /\ AbsI(Norm2(ch(s)) - Norm2(ch(0))) <= 8 * (2 * r + 2)
          /\ (r > 8 => Norm2(ch(s)) > 0)

\* Shape: the stencil is embedded rigidly: |offset of slot s| = |stencil s| and
\* |edge s -> s+1| = |stencil edge|, as squared lengths with the band 2*tol*B + tol^2,
\* B an integer bound of the length (L1 norm)
SqBand(x2, want2, bound) == AbsI(x2 - want2) <= 2 * RadTol * bound + RadTol * RadTol
StencilRigid(c, pos, k) ==
    LET m == Len(c.stencil)
        base == k * m
        st(s) == <<c.stencil[s + 1][1] * QS, c.stencil[s + 1][2] * QS, 0>>
    IN \A s \in 0..(m - 1) :
          LET o == Off(c, pos, base + s)
              e == VSub(pos[base + ((s + 1) % m) + 1], pos[base + s + 1])
              se == VSub(st((s + 1) % m), st(s))
          IN /\ Small(o) /\ Small(e)
             /\ SqBand(Norm2(o), Norm2(st(s)), L1(st(s)))
             /\ SqBand(Norm2(e), Norm2(se), L1(se))

\* Line: the ribbon.  Slot 0 is the path point itself, slots 1/2 the right/left edge:
\* symmetric about low = P + up*h; when up is a unit vector perpendicular to the ring
\* direction the edge lies in the ring plane, perpendicular to up, at distance width.
LineRing(c, pos, k) ==
    LET base == k * 3
        p == VScale(PS, c.path[k + 1])
        low == VAdd(p, VScale(c.h * QS, c.up))
        mid == pos[base + 1]
        r == VSub(pos[base + 2], low)
        lft == VSub(pos[base + 3], low)
        d == RingDir(c, k)
    IN /\ \A j \in 1..3 : AbsI(mid[j] - p[j]) <= 1
       /\ \A j \in 1..3 : AbsI(r[j] + lft[j]) <= 2
       /\ (L1(c.up) = 1 /\ Dot(c.up, d) = 0) =>
             /\ WithinBand(r, c.rad * QS, RadTol)
             /\ AbsI(Dot(r, c.up)) <= PlaneTol
             /\ AbsI(Dot(r, d)) <= PlaneTol * L1(d)

(***************************************************************************)
(* Classification of an orientation failure (for the SIGNATURE only, never *)
(* for the verdict).  extrude.polygon() reverses the winding of a quad     *)
(* whose first triangle's geometric normal points towards the path point   *)
(* ("we need to flip the windings").  At a bend that is tight for the      *)
(* radius the inner quads fold over, the test fires for some quads of a    *)
(* strip only, and the surface is no longer consistently oriented.  A line *)
(* is classified "geometric-quad-flip" when that is the whole story: the   *)
(* strips are intact, the two triangles of every quad agree with each      *)
(* other, and every quad that runs against the reference sense satisfies   *)
(* the code's own geometric criterion on the recorded positions (slack for *)
(* the projection's rounding), every other quad does not.  A strip         *)
(* reversed on a straight tube, a single reversed triangle, a reversed     *)
(* closing strip keep their ordinary signature.                            *)
(***************************************************************************)
PosIn(q, x) == CHOOSE i \in 1..4 : q[i] = x
CyclicUp(i, j, k) == (i < j /\ j < k) \/ (j < k /\ k < i) \/ (k < i /\ i < j)
Sense(q, t) == CyclicUp(PosIn(q, t[1]), PosIn(q, t[2]), PosIn(q, t[3]))
Coarse(v, d) == <<v[1] \div d, v[2] \div d, v[3] \div d>>
FlipCriterion(c, pos, q) ==           \* <<dot, slack>> of the code's test for the quad starting at <<k, s>>
    LET k == q[1][1]
        s == q[1][2]
        rl == RingLen(c)
        bl == k * rl + s + 1
        tr == NextRing(c, k) * rl + s
        tl == tr + 1
        e1 == Coarse(VSub(pos[bl + 1], pos[tl + 1]), 4)
        e2 == Coarse(VSub(pos[tl + 1], pos[tr + 1]), 4)
        rr == Coarse(Off(c, pos, bl), Den(c))
        cr == Cross(e1, e2)
    IN <<Dot(cr, rr), 4 * (L1(e1) + L1(e2) + 4) * (L1(rr) + 4) + 4 * L1(cr)>>
FlipClass(c, TL, pos) ==
    IF ~(c.gen \in PolyFamily /\ StripsOK(c, TL)) THEN "none"
    ELSE LET TS == [i \in DOMAIN TL |-> {TL[i][1], TL[i][2], TL[i][3]}]
             of(q) == {i \in DOMAIN TL : TS[i] \subseteq Corners(q)}
             whole == \A q \in Quads(c) : Cardinality({Sense(q, TL[i]) : i \in of(q)}) = 1
             against == {q \in Quads(c) : \E i \in of(q) : ~Sense(q, TL[i])}
         IN IF whole /\ against # {} /\ against # Quads(c)
               /\ \A q \in Quads(c) :
                     LET f == FlipCriterion(c, pos, q)
                     IN Small(Off(c, pos, q[1][1] * RingLen(c) + q[1][2] + 1))
                        /\ (IF q \in against THEN f[1] <= f[2] ELSE f[1] >= -f[2])
            THEN "geometric-quad-flip" ELSE "none"

(***************************************************************************)
(* Outward (polygon family): the ring runs counter-clockwise about the     *)
(* path direction by construction, so the reference sense of a quad        *)
(* (<<k,s>>, <<k,s+1>>, <<k+1,s+1>>, <<k+1,s>>) is the one whose normal    *)
(* points away from the path.  Every quad for which that is clearly so on  *)
(* the recorded positions (the code's own criterion beyond the rounding    *)
(* slack) must be wound in the reference sense.  Quads that are folded     *)
(* over (criterion negative or within the slack) are not judged here.      *)
(***************************************************************************)
OutwardOK(c, TL, pos) ==
    LET TS == [i \in DOMAIN TL |-> {TL[i][1], TL[i][2], TL[i][3]}]
    IN \A q \in Quads(c) :
          LET f == FlipCriterion(c, pos, q)
          IN (Small(Off(c, pos, q[1][1] * RingLen(c) + q[1][2] + 1)) /\ f[1] > f[2]) =>
                \A i \in {i \in DOMAIN TL : TS[i] \subseteq Corners(q)} : Sense(q, TL[i])
OutwardJudged(c, TL, pos) ==
    Cardinality({q \in Quads(c) : LET f == FlipCriterion(c, pos, q)
                                  IN Small(Off(c, pos, q[1][1] * RingLen(c) + q[1][2] + 1)) /\ f[1] > f[2]})

(***************************************************************************)
(* NoTwist: consecutive rings are not turned against each other about the  *)
(* path.  With a frame carried along the path, slot s of ring k+1 is slot  *)
(* s of ring k turned by the bend (at most a right angle between the two   *)
(* ring planes), so the dot products of corresponding offsets sum to       *)
(* sum_s (a_s^2 + b_s^2 cos(bend)) >= 0 (a, b: components along / across   *)
(* the bend axis).  A frame that is flipped by half a turn between two     *)
(* rings gives exactly the negative of that: a strip twisted into an       *)
(* hourglass.  Judged between rings k and k+1 of one open run (not across  *)
(* the closing strip: the transported frame of a closed spatial path need  *)
(* not return to its start), rings of zero thickness excepted; slack = one *)
(* unit of rounding per coordinate.  A quarter-turn twist of a symmetric   *)
(* stencil sums to zero and is NOT detected.                               *)
(***************************************************************************)
NoTwist(c, pos, k) ==
    LET rl == RingLen(c)
        o(kk, s) == Coarse(Off(c, pos, kk * rl + s), Den(c))
        slots == [s \in 1..Slots(c) |-> s - 1]
        sum == FoldLeft(LAMBDA acc, s : acc + Dot(o(k, s), o(k + 1, s)), 0, slots)
        slack == FoldLeft(LAMBDA acc, s : acc + 2 * (L1(o(k, s)) + L1(o(k + 1, s)) + 2), 0, slots)
    IN /\ \A s \in 0..(Slots(c) - 1) : Small(Off(c, pos, k * rl + s)) /\ Small(Off(c, pos, (k + 1) * rl + s))
       /\ sum >= -slack
\* Classification of a twist (for the SIGNATURE only): Shape / ClosedShape take the in-plane
\* axis of a ring from the bend axis at that point (and, at both ends, from the bend a closed
\* path would make there), not from a frame carried along the path.  On a path that does not
\* lie in one plane the axis jumps by a quarter turn between bends about different axes.
SegW(c, k) == IF k = Len(c.path) THEN VSub(c.path[1], c.path[k]) ELSE Seg(c, k)      \* with the wrap segment
BendAxes(c) ==
    {Cross(SegW(c, k), SegW(c, (k % Len(c.path)) + 1)) : k \in 1..Len(c.path)} \ {Zero3}
SpatialPath(c) == \E u, w \in BendAxes(c) : Cross(u, w) # Zero3
TwistClass(c) == IF c.gen \in ShapeFamily /\ SpatialPath(c) THEN "bend-axis-frame-on-spatial-path" ELSE "none"
TwistPairs(c) ==
    {k \in 0..(NRings(c) - 2) : c.gen \in ShapeFamily \/ (Thick(c, k) > 0 /\ Thick(c, k + 1) > 0)}

(* ------------------------- Screw: closed form ------------------------- *)
\* sin / cos of a/b of a full turn, times 2^14 (BigNat fixed point, error < 2^-13)
Fix14(x) == Limb(x, 3) * K + Limb(x, 2)
SinPiFrac(p, q) == Fix14(Sin(PiFrac(p, q)))                  \* 0 <= p <= q
SinTurn(a, b) ==
    LET p == (2 * a) % (2 * b)                               \* angle = pi * p / b, 0 <= p < 2b
    IN IF p = 0 \/ p = b THEN 0
       ELSE IF p < b THEN SinPiFrac(p, b) ELSE -SinPiFrac(p - b, b)
CosTurn(a, b) == SinTurn(4 * a + b, 4 * b)                   \* cos x = sin(x + pi/2)

\* vertex (seg, l): the profile point rotated about +Y by 2 pi rev seg/(segments-1)
\* (quaternion.FromTheta about Up: x' = x cos + z sin, z' = -x sin + z cos) and lifted by
\* dist seg/(segments-1).  rev in quarter turns: the angle is seg*rev / (4*(segments-1)) turns.
\* Profile coordinates are quarter units (<= 16): reference * 2^14 stays below 2^25.
ScrewRing(c, pos, k) ==
    LET m == Len(c.path)
        den == 4 * (c.sides - 1)
        num == (k * c.rev) % den
        sn == SinTurn(num, den)
        cs == CosTurn(num, den)
    IN \A l \in 0..(m - 1) :
          LET p == c.path[l + 1]
              got == pos[k * m + l + 1]
              wx == (p[1] * cs + p[3] * sn) * QS           \* * 2^14
              wz == (p[3] * cs - p[1] * sn) * QS
          IN /\ Small(got)
             /\ AbsI(got[1] * K - wx) <= 2 * K
             /\ AbsI(got[3] * K - wz) <= 2 * K
             /\ AbsI(got[2] * (c.sides - 1) - (p[2] * (c.sides - 1) + c.h * k) * QS) <= 2 * (c.sides - 1)
=============================================================================
