CONSTANTS
  Depth = 3
  Den = 2
SPECIFICATION Spec
INVARIANTS Valid ClampLaws Emit
PROPERTY Grows
VIEW View
CHECK_DEADLOCK FALSE
