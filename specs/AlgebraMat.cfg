CONSTANTS
  Depth = 2
  Bound = 6
  Ks = {1, 2}
SPECIFICATION Spec
INVARIANTS DetTracked InverseOK DetLaws Emit
VIEW View
CHECK_DEADLOCK FALSE
