------------------------- MODULE TraceGltfSession -------------------------
(***************************************************************************)
(* Trace validation for C06 on EXPORT HISTORIES (specs/GltfSession.tla).   *)
(* trace.ndjson has one line per export of a history, in execution order:  *)
(*   {"k":"exp","h":history,"p":position,"entry":..,"expect":"OK"|"FAIL",  *)
(*    "fk":..,"fd":..,"kind":"glb"|"text","src":{..},"out":{..}}           *)
(* expect / fk / fd are what the session model says about the export       *)
(* (echoed by the harness), src / out exactly what a per-scene line of     *)
(* TraceGltf carries.  Judgement:                                          *)
(*   C06.SessionOutcome  the export ended as the model says: an invalid    *)
(*                       scene is refused with an error (no panic, no      *)
(*                       file), a valid one is written                     *)
(*   every predicate of TraceGltf!Judge on the file of a valid export:     *)
(*   the contract of GltfSession -- a valid export returns the document a  *)
(*   fresh process returns -- IS "the document denotes its scene and is    *)
(*   consistent with its payload", whatever ran before in the process.     *)
(* Lines are judged independently (the history is in the executing         *)
(* process, not in the judge), so any cut is a shard boundary.             *)
(***************************************************************************)
EXTENDS Integers, Sequences, FiniteSets, TLC, Json

Trace == ndJsonDeserialize("trace.ndjson")

VARIABLES l
vars == <<l>>

J == INSTANCE TraceGltf

WellFormed(ln) ==
    /\ {"k", "h", "p", "entry", "expect", "fk", "fd", "kind", "src", "out"} \subseteq DOMAIN ln
    /\ ln.k = "exp"
    /\ ln.expect \in {"OK", "FAIL"}
    /\ "status" \in DOMAIN ln.out

SJudge(ln) ==
    IF ~WellFormed(ln) THEN [bad |-> {"C06.SessionOutcome"}, det |-> {"SessionOutcome:ill-formed-observation"}, ex |-> {}]
    ELSE IF ln.expect = "FAIL"
    THEN IF ln.out.status = "FAIL" THEN [bad |-> {}, det |-> {}, ex |-> {"session-refused-" \o ln.fk}]
         ELSE [bad |-> {"C06.SessionOutcome"}, det |-> {"SessionOutcome:invalid-scene-" \o ln.out.status}, ex |-> {}]
    ELSE IF ln.out.status # "OK"
    THEN [bad |-> {"C06.SessionOutcome"}, det |-> {"SessionOutcome:valid-scene-" \o ln.out.status}, ex |-> {}]
    ELSE LET j == J!Judge(ln) IN [bad |-> j.bad, det |-> j.det, ex |-> J!Exercised(ln) \cup {"session-written"}]

Init == l = 1

Step ==
    /\ l <= Len(Trace)
    /\ LET j == SJudge(Trace[l]) IN
          PrintT(ToJson([l |-> l, bad |-> j.bad, det |-> j.det, ex |-> j.ex]))
    /\ l' = l + 1

Next == Step
Spec == Init /\ [][Next]_vars

TraceAccepted == TLCGet("stats").diameter - 1 = Len(Trace)
=============================================================================
