CONSTANTS
  Level = 1
  Seed = 1
SPECIFICATION Spec
INVARIANTS SkAdm SkRefAgrees SkCoreInside Emit
CHECK_DEADLOCK FALSE
