----------------------------- MODULE PlyWriter -----------------------------
(***************************************************************************)
(* Implementation-shaped model (L2) of polyform's PLY writer LAYOUT RULES: *)
(* which properties the header gets, which records follow, where texture   *)
(* coordinates go.  It produces an abstract file of PlyFormat, so the same *)
(* WellFormedFile / Denote / RoundTrip operators that judge the real code  *)
(* are model-checked on the design (PlyGenRT).  Never used for verdicts on *)
(* the code.                                                               *)
(*                                                                         *)
(* Variant "fixed"  : texture coordinates of a face are taken through the  *)
(*                    index; a point cloud is written through its indices  *)
(*                    and keeps its TexCoord as vertex properties s, t.    *)
(* Variant "pinned" : the pinned tree: binary writer takes TexCoord at the *)
(*                    corner POSITION, point clouds ignore their indices   *)
(*                    and lose their TexCoord.                             *)
(* lat mode only (D = 16320): int32 budget value*255 <= 2^22.              *)
(***************************************************************************)
EXTENDS PlyFormat

\* src : [topo, idx, attrs] with attrs a SEQUENCE of [n, ar, data]
SAttr(src, n, ar) == src.attrs[CHOOSE i \in DOMAIN src.attrs : src.attrs[i].n = n /\ src.attrs[i].ar = ar]
SHas(src, n, ar) == \E i \in DOMAIN src.attrs : src.attrs[i].n = n /\ src.attrs[i].ar = ar
SAttrLen(src) == IF src.attrs = <<>> THEN 0 ELSE Len(src.attrs[1].data)

Quantize(t, v, D) ==
    CASE t = "uchar" -> LET c == IF v < 0 THEN 0 ELSE IF v > D THEN D ELSE v IN (c * 255 + D \div 2) \div D
      [] t = "int" -> IF v >= 0 THEN v \div D ELSE 0 - ((0 - v) \div D)
      [] OTHER -> v

Suffix(k) == CASE k = 1 -> "_0" [] k = 2 -> "_1" [] k = 3 -> "_2" [] OTHER -> "_3"

\* writers added for attributes no property writer claims (WriteUnspecifiedProperties)
\* TexCoord of a triangle mesh lives in the face element; of any other topology in s, t
\* (variant "pinned": dropped, the pinned tree has no place for it)
UnspecWriters(src, o, variant) ==
    LET isTex(a) == a.ar = 2 /\ a.n = "TexCoord"
        want(a) == ~Claims(o, a.n, a.ar) /\ (isTex(a) => (src.topo # "triangle" /\ variant = "fixed"))
        mk(a) == [ar |-> a.ar, attr |-> a.n, t |-> "float",
                  names |-> IF a.ar = 1 THEN <<a.n>> ELSE IF isTex(a) THEN <<"s", "t">>
                            ELSE [k \in 1..a.ar |-> a.n \o Suffix(k)]]
        of(ar) == SelectSeq(src.attrs, LAMBDA a : a.ar = ar /\ want(a))
        all == of(4) \o of(3) \o of(2) \o of(1)
    IN [i \in DOMAIN all |-> mk(all[i])]

Writers(src, o, variant) ==
    SelectSeq(EffProps(o), LAMBDA p : SHas(src, p.attr, p.ar))
    \o (IF EffUnspec(o) THEN UnspecWriters(src, o, variant) ELSE <<>>)

PlyWrite(src, o, fmt, D, variant) ==
    LET ws == Writers(src, o, variant)
        vprops == FlattenSeq([i \in DOMAIN ws |-> [k \in 1..ws[i].ar |-> [n |-> ws[i].names[k], t |-> ws[i].t]]])
        order == IF src.topo = "point" /\ variant = "fixed" THEN src.idx ELSE Iota(SAttrLen(src))
        rec(v) == FlattenSeq([i \in DOMAIN ws |->
                     [k \in 1..ws[i].ar |-> Quantize(ws[i].t, SAttr(src, ws[i].attr, ws[i].ar).data[v + 1][k], D)]])
        face == src.topo = "triangle"
        tex == face /\ SHas(src, "TexCoord", 2)
        uv == SAttr(src, "TexCoord", 2).data
        nf == IF face THEN Len(src.idx) \div 3 ELSE 0
        byPos == variant = "pinned" /\ fmt # "ascii"
        \* what the pinned binary writer reads: corner position instead of vertex number
        at(p) == IF byPos THEN p - 1 ELSE src.idx[p]
        producible == ~(tex /\ byPos) \/ Len(src.idx) <= SAttrLen(src)
        frec(q) == LET b == 3 * (q - 1) IN
                   << <<src.idx[b + 1], src.idx[b + 2], src.idx[b + 3]>> >>
                   \o (IF tex THEN << <<uv[at(b + 1) + 1][1], uv[at(b + 1) + 1][2], uv[at(b + 2) + 1][1],
                                         uv[at(b + 2) + 1][2], uv[at(b + 3) + 1][1], uv[at(b + 3) + 1][2]>> >>
                       ELSE <<>>)
        base == [ok |-> producible, err |-> IF producible THEN "" ELSE "index out of range", fmt |-> fmt,
                 vprops |-> vprops, nv |-> Len(order),
                 vrecs |-> IF producible THEN [r \in 1..Len(order) |-> rec(order[r])] ELSE <<>>,
                 face |-> face, nf |-> nf,
                 flists |-> IF ~face THEN <<>>
                            ELSE <<[n |-> "vertex_indices", ct |-> "uchar", lt |-> "int"]>>
                                 \o (IF tex THEN <<[n |-> "texcoord", ct |-> "uchar", lt |-> "float"]>> ELSE <<>>),
                 frecs |-> IF producible THEN [q \in 1..nf |-> frec(q)] ELSE <<>>,
                 left |-> 0, linewise |-> TRUE, exact |-> TRUE, hdrbytes |-> 0, nbytes |-> 0]
    IN [base EXCEPT !.nbytes = IF producible THEN BodySize(base) ELSE 0]
=============================================================================
