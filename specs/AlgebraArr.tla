----------------------------- MODULE AlgebraArr -----------------------------
(***************************************************************************)
(* Array-level entry points of the transform algebra (C17, round 5): the   *)
(* SIZE of the array and the number of processors are dimensions of the    *)
(* quantifier.                                                             *)
(*                                                                         *)
(* An array-level entry point maps an array of n points; the law is the    *)
(* single-point law at every index:  out[i] = f(in[i])  for 0 <= i < n,    *)
(* Len(out) = n, and - unless the entry point is documented to work in     *)
(* place - the input is left as it was.  An implementation is free to      *)
(* split the work over goroutines (runtime.GOMAXPROCS, a pool size); the   *)
(* law does not depend on how (design-level model: AlgebraArrMC.tla).      *)
(*                                                                         *)
(* This module states, once, for the generator (AlgebraArrGen.tla) and the *)
(* judge (TraceAlgebra.tla):                                               *)
(*   * the entry points and the single-point law of each (ArrLaw),         *)
(*   * the content of the array as a function of the index (ArrPoint),     *)
(*   * the exactly representable TRS triples (ArrTriples),                 *)
(*   * which indices of a case are observed element by element             *)
(*     (ArrSamples: head, tail, middle, both sides of every boundary of an *)
(*     even split over the processors (first / last chunks), seeded        *)
(*     pseudo-random indices),                                             *)
(*   * where in the array an index lies (ArrWhere: head/interior/tail).    *)
(*                                                                         *)
(* int32 budget: indices < 2^18; |ArrPoint| <= 2^8; scale factors <= 4,    *)
(* translations <= 16: |image| < 2^11, times QA = 2^10 < 2^21.  The LCG    *)
(* multiplies a 16 bit state by 25173 < 2^15.                              *)
(***************************************************************************)
EXTENDS Algebra

(* ------------------------------ entry points ----------------------------- *)
\* name, what the single-point function is made of, whether the array passed in is the result
\* (inplace), whether the array lives in a mesh (a mesh without positions does not exist in polyform:
\* SetFloat3Attribute of an empty array removes the attribute, so mesh arrays have n >= 1)
ArrEps == <<
    [ep |-> "TRS.TransformArray", law |-> "trs", inplace |-> FALSE, mesh |-> FALSE],
    [ep |-> "TRS.TransformInPlace", law |-> "trs", inplace |-> TRUE, mesh |-> FALSE],
    [ep |-> "Quaternion.RotateArray", law |-> "rot", inplace |-> FALSE, mesh |-> FALSE],
    [ep |-> "Mesh.ApplyTRS", law |-> "trs", inplace |-> FALSE, mesh |-> TRUE],
    [ep |-> "Mesh.Rotate", law |-> "rot", inplace |-> FALSE, mesh |-> TRUE],
    [ep |-> "Mesh.Translate", law |-> "tra", inplace |-> FALSE, mesh |-> TRUE],
    [ep |-> "Mesh.Scale", law |-> "sca", inplace |-> FALSE, mesh |-> TRUE],
    \* the pool size of this one is the `procs` of the case (as well as GOMAXPROCS)
    [ep |-> "Mesh.ModifyFloat3AttributeParallelWithPoolSize", law |-> "trs", inplace |-> FALSE, mesh |-> TRUE] >>
ArrEpNames == {ArrEps[e].ep : e \in DOMAIN ArrEps}
ArrEpOf(name) == ArrEps[CHOOSE e \in DOMAIN ArrEps : ArrEps[e].ep = name]

\* the single-point law: T translation, R rotation matrix, S scale factors
ArrLaw(law, T, R, S, v) ==
    CASE law = "trs" -> TRSApply(T, R, S, v)
      [] law = "rot" -> MulVec3(R, v)
      [] law = "tra" -> V3Add(v, T)
      [] OTHER -> V3Had(S, v)

(* -------------------------------- content -------------------------------- *)
\* element i of the array: neighbours differ, (x, y) repeats only every 127 * 61 indices and z
\* then differs, so a result written to the wrong index or left out is visible
ArrPoint(i) == <<(i % 127) - 63, ((i \div 127) % 61) - 30, (i % 7) + 8 * (i \div 8192) - 3>>

\* exactly representable triples (quarter turns, small integer scales, integer translations); none
\* of the three parts is the identity, so an element that was not transformed (or is the zero
\* value of a fresh array) differs from its image
ArrQ(side, axis, sgn) == [side |-> side, axis |-> axis, sgn |-> sgn]
ArrTriples == <<
    [t |-> <<3, 0 - 5, 7>>, word |-> <<ArrQ("R", 1, 1)>>, s |-> <<2, 1, 0 - 1>>],
    [t |-> <<0 - 16, 1, 2>>, word |-> <<ArrQ("R", 3, 1), ArrQ("L", 2, 0 - 1)>>, s |-> <<1, 3, 2>>],
    [t |-> <<1, 2, 0 - 3>>, word |-> <<ArrQ("L", 2, 1), ArrQ("R", 2, 1)>>, s |-> <<4, 2, 3>>],
    [t |-> <<0, 9, 0>>, word |-> <<ArrQ("R", 1, 0 - 1), ArrQ("R", 3, 1), ArrQ("L", 1, 1)>>, s |-> <<0 - 2, 0 - 1, 2>>] >>

(* --------------------------- observed indices ---------------------------- *)
ArrHead == 4
ArrTail == 36          \* 2 * 16 + 4: two elements per processor of the widest ladder entry, and a margin
ArrRandom == 24

LcgNext(x) == (x * 25173 + 13849) % 65536
RECURSIVE LcgSeq(_, _)
LcgSeq(x, k) == IF k = 0 THEN <<>> ELSE <<x>> \o LcgSeq(LcgNext(x), k - 1)

ArrSampleSet(n, procs, seed) ==
    LET xs == LcgSeq((seed * 31 + n + 17 * procs) % 65536, ArrRandom + 1)
        rnd == {(xs[j] + 65536 * (xs[j + 1] % 4)) % n : j \in 1..ArrRandom}
        \* both sides of the first, the last but one and the last boundary of a split into floor(n/procs) or
        \* ceil(n/procs) sized chunks
        bnd == UNION {{(n \div procs) * w - 1, (n \div procs) * w,
                       ((n + procs - 1) \div procs) * w - 1, ((n + procs - 1) \div procs) * w} : w \in {1, procs - 1, procs}}
        all == (0..(ArrHead - 1)) \cup ((n - ArrTail)..(n - 1)) \cup ((n \div 2 - 2)..(n \div 2 + 1))
               \cup (IF n > 0 THEN rnd \cup bnd ELSE {})
    IN {i \in all : 0 <= i /\ i < n}
ArrSamples(n, procs, seed) == SetToSortSeq(ArrSampleSet(n, procs, seed), LAMBDA a, b : a < b)

\* where an index lies; does not depend on how an implementation splits the array
ArrWhere(i, n) == IF i >= n - ArrTail /\ i >= ArrHead THEN "tail" ELSE IF i < ArrHead THEN "head" ELSE "interior"
=============================================================================
