----------------------------- MODULE MtlTextGen -----------------------------
(***************************************************************************)
(* Generator of X03 "mr" cases: MTL library texts with newmtl and          *)
(* parameter statements in every arrangement up to a bound.                *)
(*                                                                         *)
(* The state is a SKELETON over the alphabet                               *)
(*   "Na" "Nb"      newmtl m1 / newmtl Mat.two                             *)
(*   "Kd"           Kd r g b, generic values                               *)
(*   "Kg"           Kd r          (grey form: g = b = r)                   *)
(*   "Ka"           Ka with channels at 0, 1 and on either side of the     *)
(*                  boundary between two 8-bit levels                      *)
(*   "Ks"           Ks with channels out of range (1.5, -0.2, 2)           *)
(*   "Ns" "Ni" "D"  scalars                                                *)
(*   "Tk" "Ts" "Tb" "Tn"   map_Kd, map_Ks, map_Bump, norm (the last two    *)
(*                  name the same file within a block)                     *)
(*   "X"            a comment or a statement polyform does not know        *)
(*   "Bn" "Bk" "B2" malformed lines: "Ns" without value, "Kd abc 0.5 0.5", *)
(*                  "Kd 0.1 0.2"                                           *)
(* Values depend on the position, so a mix-up between blocks or statements *)
(* is visible.  A parameter is never stated twice in a block (the format   *)
(* does not say which one counts).  A parameter before any newmtl and the  *)
(* malformed lines make the text INVALID: those texts feed X03.RejectsBad. *)
(*                                                                         *)
(* Checked on the specification itself:                                    *)
(*   Classified    the format machine accepts exactly the skeletons        *)
(*                 without orphan / malformed statements                   *)
(*   ReaderDesign  (model of MtlImpl, repaired reader) every valid text    *)
(*                 reads as its denotation                                 *)
(* RiskyEmit prints the valid texts the PINNED reader model gets wrong.    *)
(***************************************************************************)
EXTENDS MtlImpl, Json

CONSTANTS Depth, MinLen

VARIABLES sk
vars == <<sk>>

Q == 1024
Alphabet == {"Na", "Nb", "Kd", "Kg", "Ka", "Ks", "Ns", "Ni", "D", "Tk", "Ts", "Tb", "Tn", "X", "Bn", "Bk", "B2"}
News == {"Na", "Nb"}
Bads == {"Bn", "Bk", "B2"}
KeyOf(sym) ==
    CASE sym \in {"Kd", "Kg", "Bk", "B2"} -> "Kd"
      [] sym = "Ka" -> "Ka" [] sym = "Ks" -> "Ks" [] sym \in {"Ns", "Bn"} -> "Ns" [] sym = "Ni" -> "Ni" [] sym = "D" -> "d"
      [] sym = "Tk" -> "map_Kd" [] sym = "Ts" -> "map_Ks" [] sym = "Tb" -> "map_Bump" [] sym = "Tn" -> "norm"
      [] OTHER -> ""

\* index of the last newmtl in s (0: none); keys stated since
LastNew(s) == LET ns == {i \in DOMAIN s : s[i] \in News} IN IF ns = {} THEN 0 ELSE CHOOSE i \in ns : \A j \in ns : j <= i
KeysSince(s) == {KeyOf(s[i]) : i \in (LastNew(s) + 1)..Len(s)} \ {""}
\* nothing follows a malformed line (the text is already invalid); before the first newmtl only one
\* parameter of each kind is tried (colour, scalar, texture)
Orphans == {"Kd", "Ni", "Tn"}
Allowed(s, x) ==
    /\ KeyOf(x) = "" \/ KeyOf(x) \notin KeysSince(s)
    /\ s = <<>> \/ s[Len(s)] \notin Bads
    /\ (KeyOf(x) # "" /\ LastNew(s) = 0) => (x \in Orphans /\ \A i \in DOMAIN s : KeyOf(s[i]) = "")

\* the largest value (units of 1/CQ) that is not above the boundary between the 8-bit levels c and c + 1
Boundary(c) == ((2 * c + 1) * CQ) \div 510
Sym(out, k) ==
    LET sym == sk[k]
        b == Cardinality({i \in 1..k : sk[i] \in News}) IN      \* block number: values differ between blocks
    CASE sym = "Na" -> Append(out, MSt("newmtl", "m1", <<109, 49>>, <<>>))
      [] sym = "Nb" -> Append(out, MSt("newmtl", "Mat.two", <<77, 97, 116, 46, 116, 119, 111>>, <<>>))
      [] sym = "Kd" -> Append(out, MSt("Kd", "", <<>>, <<5922 - 100 * k, 166 + 7 * k, 1000 * b + k>>))
      [] sym = "Kg" -> Append(out, MSt("Kd", "", <<>>, <<4321 + 1111 * b + k>>))
      [] sym = "Ka" -> Append(out, MSt("Ka", "", <<>>, <<IF k % 2 = 0 THEN 0 ELSE CQ, Boundary(100 + 17 * k + b), Boundary(37 * k + b) + 1>>))
      [] sym = "Ks" -> Append(out, MSt("Ks", "", <<>>, <<15000 + k, 0 - 2000 - b, IF k % 2 = 0 THEN 20000 ELSE 5000>>))
      [] sym = "Ns" -> Append(out, MSt("Ns", "", <<>>, <<102400 + 229 * k + b, 102400 + 229 * k + b>>))
      [] sym = "Ni" -> Append(out, MSt("Ni", "", <<>>, <<1024 + 3 * k + b, 1024 + 3 * k + b>>))
      [] sym = "D" -> Append(out, MSt("d", "", <<>>, <<(97 * k + 31 * b) % 1025, (97 * k + 31 * b) % 1025>>))
      [] sym = "Tk" -> Append(out, MSt("map_Kd", IF b % 2 = 1 THEN "tex/my wood.png" ELSE "kd2.jpg", <<>>, <<>>))
      [] sym = "Ts" -> Append(out, MSt("map_Ks", IF b % 2 = 1 THEN "spec.png" ELSE "../s 2.png", <<>>, <<>>))
      [] sym = "Tb" -> Append(out, MSt("map_Bump", IF b % 2 = 1 THEN "n1.png" ELSE "maps/n 2.png", <<>>, <<>>))
      [] sym = "Tn" -> Append(out, MSt("norm", IF b % 2 = 1 THEN "n1.png" ELSE "maps/n 2.png", <<>>, <<>>))
      [] sym = "X" -> Append(out, MSt("x", "", <<>>, <<>>))
      [] sym = "Bn" -> Append(out, MSt("bad", "Ns", <<>>, <<>>))
      [] sym = "Bk" -> Append(out, MSt("bad", "Kd abc 0.5 0.5", <<>>, <<>>))
      [] OTHER -> Append(out, MSt("bad", "Kd 0.1 0.2", <<>>, <<>>))

Stmts == FoldLeft(Sym, <<>>, [k \in DOMAIN sk |-> k])

Init == sk = <<>>
Next == /\ Len(sk) < Depth
        /\ \E x \in {y \in Alphabet : Allowed(sk, y)} : sk' = Append(sk, x)
Spec == Init /\ [][Next]_vars

(* ---------------- design-level properties ------------------------------ *)
WantValid == /\ \A i \in DOMAIN sk : sk[i] \notin Bads
             /\ \A i \in DOMAIN sk : KeyOf(sk[i]) # "" => \E j \in 1..(i - 1) : sk[j] \in News
Classified == MtlDenote(Stmts).ok = WantValid
ReaderDesign == WantValid => ReadBad(MtlDenote(Stmts), ReadModel(Stmts, "fixed"), Q) = {}

(* ---------------- generator output ------------------------------------- *)
Case(tag) == [k |-> "mr", tag |-> tag, enc |-> "lat", q |-> Q, sk |-> sk, gen |-> Stmts]
Emit == Len(sk) < MinLen \/ PrintT(ToJson(Case("bfs")))
EmitLeaf == Len(sk) < Depth \/ PrintT(ToJson(Case("sim")))
RiskyEmit ==
    \/ ~WantValid
    \/ ReadBad(MtlDenote(Stmts), ReadModel(Stmts, "pinned"), Q) = {}
    \/ PrintT(ToJson([risky |-> [sk |-> sk], reader |-> ReadBad(MtlDenote(Stmts), ReadModel(Stmts, "pinned"), Q)]))
=============================================================================
