----------------------------- MODULE TraceShape -----------------------------
(* Judges the shapes of meshes returned by real generators (C02). *)
EXTENDS GenShapes
Trace == ndJsonDeserialize("trace.ndjson")
VARIABLE l
TInit == l = 1 /\ c = [gen |-> 0, p |-> <<>>]
TNext ==
    /\ l <= Len(Trace)
    /\ IF WellFormedShape(Trace[l].shape) THEN TRUE
       ELSE PrintT(ToJson([l |-> l, bad |-> {"C02.GenWellFormed"}]))
    /\ l' = l + 1 /\ c' = c
TSpec == TInit /\ [][TNext]_<<l, c>>
TraceAccepted == TLCGet("stats").diameter - 1 = Len(Trace)
=============================================================================
