------------------------------ MODULE SyncMap ------------------------------
(***************************************************************************)
(* X01 - contract level (L1) history machine of one NestedSyncMap, one     *)
(* SyncMap and the values a client still holds (handles).                  *)
(*                                                                         *)
(* State: t   the tree of the nested map (SyncTree)                        *)
(*        hd  handle -> [live, t]: what a client was handed by Data() or   *)
(*            by a Get() that answered a map, and still keeps.  At the     *)
(*            contract level a handle is a VALUE: no later operation on    *)
(*            the map changes it (Snapshot) and a client writing into it   *)
(*            ("hset") changes nothing but that handle (Isolated).         *)
(*        flat the SyncMap                                                 *)
(*        hist the operations so far                                       *)
(* Checked on the specification itself: WFInv and the laws of SyncTree on  *)
(* every reachable tree; Frames (action property).                         *)
(* GENERATOR for the replay binding: BFS with VIEW ViewState prints one    *)
(* history per distinct state, VIEW ViewHist prints every history up to    *)
(* Depth (all pairs state x operation); -simulate prints complete walks.   *)
(***************************************************************************)
EXTENDS SyncTree, Json

CONSTANTS NK, MaxLen, Depth, NH, Ops, Rich     \* Rich: larger value alphabet

VARIABLES t, hd, flat, hist
vars == <<t, hd, flat, hist>>

Keys == 1..NK
Paths == {<<a>> : a \in Keys}
         \cup (IF MaxLen >= 2 THEN {<<a, b>> : a \in Keys, b \in Keys} ELSE {})
         \cup (IF MaxLen >= 3 THEN {<<a, b, c>> : a \in Keys, b \in Keys, c \in Keys} ELSE {})

E(p, v) == [p |-> p, v |-> v]
MapValues == {MapVal({}), MapVal({E(<<1>>, 3)})}
             \cup (IF Rich THEN {MapVal({E(<<2>>, MAP), E(<<2, 1>>, 4), E(<<1>>, NIL)})} ELSE {})
Values == {Leaf(1), Leaf(NIL)} \cup MapValues \cup (IF Rich THEN {Leaf(2)} ELSE {})

NoVal == Leaf(NIL)
St(op, p, x, h) == [op |-> op, p |-> p, val |-> x, h |-> h]
Handles == 1..NH
LiveH == {h \in Handles : hd[h].live}
\* handles are interchangeable: a new one goes to the first free slot (slot 1 when all are taken)
NewH == IF NH = 0 THEN {} ELSE IF LiveH = Handles THEN {1} ELSE {CHOOSE h \in Handles \ LiveH : \A g \in Handles \ LiveH : h <= g}

Candidates ==
    {St("set", p, x, 0) : p \in Paths, x \in Values}
    \cup {St("del", p, NoVal, 0) : p \in Paths}
    \cup {St("get", p, NoVal, h) : p \in Paths, h \in {0} \cup NewH}
    \cup {St("exists", p, NoVal, 0) : p \in Paths}
    \cup {St("data", <<>>, NoVal, h) : h \in NewH}
    \cup {St("over", <<>>, x, 0) : x \in {Leaf(NIL)} \cup MapValues}
    \* a client writes into / deletes from a map it was handed (plain Go map statements on existing maps)
    \cup UNION {{St("hset", q, Leaf(5), h) : q \in {r \in Paths : LookupOk(hd[h].t, r)}} : h \in LiveH}
    \cup UNION {{St("hdel", e.p, NoVal, h) : e \in hd[h].t} : h \in LiveH}
    \* NOT part of the contract (never replayed): the caller of OverwriteData keeps the map it passed in
    \* as handle h.  Only used by SyncHeap to show what "adopts its argument" means (HeapLent.cfg).
    \cup {St("overk", <<>>, x, h) : x \in MapValues, h \in NewH}
    \cup {St("fset", <<k>>, Leaf(n), 0) : k \in Keys, n \in {1, 2}}
    \cup {St("fget", <<k>>, NoVal, 0) : k \in Keys}

Init == t = {} /\ hd = [h \in Handles |-> [live |-> FALSE, t |-> {}]] /\ flat = {} /\ hist = <<>>

TreeOps == {"set", "del", "get", "exists", "data", "over"}

Do(o) ==
    /\ o.op \in Ops
    /\ IF o.op \in TreeOps
       THEN LET r == Step(t, o) IN
            /\ t' = r.t
            /\ hd' = IF o.h # 0 /\ r.res.st = "ok" /\ r.res.v = MAP /\ o.op \in {"get", "data"}
                     THEN [hd EXCEPT ![o.h] = [live |-> TRUE, t |-> r.res.sub]] ELSE hd
            /\ flat' = flat
       ELSE /\ t' = IF o.op = "overk" THEN o.val.sub ELSE t
            /\ hd' = CASE o.op = "hset" -> [hd EXCEPT ![o.h].t = SetT(@, o.p, o.val)]
                       [] o.op = "hdel" -> [hd EXCEPT ![o.h].t = DelT(@, o.p)]
                       [] o.op = "overk" -> [hd EXCEPT ![o.h] = [live |-> TRUE, t |-> o.val.sub]]
                       [] OTHER -> hd
            /\ flat' = IF o.op = "fset" THEN FlatSet(flat, o.p[1], o.val.v) ELSE flat
    /\ hist' = Append(hist, o)

\* with the pseudo operation "close" in Ops the last step of a walk is fixed (Data()), so that -simulate,
\* which evaluates EmitLeaf on every candidate successor, prints each walk once
Next == /\ Len(hist) < Depth
        /\ IF "close" \in Ops /\ Len(hist) = Depth - 1 THEN Do(St("data", <<>>, NoVal, 0))
           ELSE \E o \in Candidates : Do(o)
Spec == Init /\ [][Next]_vars

(* ---------------- properties of the specification itself -------------- *)
WFInv == WF(t) /\ \A h \in Handles : WF(hd[h].t)

Laws ==
    /\ LawData(t)
    /\ \A p \in Paths :
        /\ LawDel(t, p) /\ LawGuard(t, p) /\ LawWalks(t, p)
        /\ \A x \in Values : LawSetGet(t, p, x) /\ \A q \in Paths : LawSetFrame(t, p, x, q)

\* a panic changes nothing; a map operation never changes a handle; a client write never changes the map
Frames ==
    [][LET o == hist'[Len(hist')] IN
        /\ (o.op \in TreeOps /\ Step(t, o).res.st = "PANIC") => t' = t
        /\ (o.op \in {"set", "del", "over", "exists"}) => hd' = hd
        /\ (o.op \in {"hset", "hdel"}) => t' = t /\ \A h \in Handles \ {o.h} : hd'[h] = hd[h]
        /\ (o.op \in {"get", "data"}) => t' = t /\ \A h \in Handles \ {o.h} : hd'[h] = hd[h]]_vars

(* ---------------- generator output ------------------------------------ *)
Out == [nk |-> NK, steps |-> hist]
Emit == hist = <<>> \/ PrintT(ToJson(Out))
EmitLeaf == Len(hist) < Depth \/ PrintT(ToJson(Out))
ViewState == <<t, hd, flat, Len(hist)>>
ViewHist == <<t, hd, flat, hist>>
=============================================================================
