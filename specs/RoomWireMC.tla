------------------------------ MODULE RoomWireMC ------------------------------
(***************************************************************************)
(* X02 - design-level check of the wire format of RoomWire: on every       *)
(* enumerated room state and every order in which the writer may visit the *)
(* players (Go map iteration), the frame denotes the state it was written  *)
(* from - as long as the state is InDomain.  MaxLen is the longest id /    *)
(* name / object list enumerated (lengths 0, Mid, MaxLen), Crowd the size  *)
(* of one extra state with many players.  With MaxLen = 255, Crowd = 255   *)
(* both invariants hold; with 256 `Faithful` fails (a length byte wraps):  *)
(* the hub must keep its state inside the domain, which is what            *)
(* X02.Representable demands of the real code.                             *)
(***************************************************************************)
EXTENDS RoomWire, SequencesExt

CONSTANTS MaxLen, Crowd, Mid      \* Mid: the lengths enumerated between 0 and MaxLen

Str(n, v) == [i \in 1..n |-> (v + 7 * i) % 256]
Obj(v) == [i \in 1..ObjSize |-> (v * i + 3) % 256]
Lens == {0, MaxLen} \cup Mid
Ids == {Str(n, 65) : n \in Lens}
PlayerVals == {[name |-> Str(nl, 97), rep |-> [i \in 1..nr |-> Obj(i)]] : nl \in Lens, nr \in Lens}
Scene0 == [i \in 1..SceneSize |-> IF i <= 3 THEN i % 2 ELSE (11 * i) % 256]

Small == UNION {[S -> PlayerVals] : S \in {T \in SUBSET Ids : Cardinality(T) <= 2}}
CrowdPl == [id \in {<<65 + (k \div 26), 97 + (k % 26)>> : k \in 0..(Crowd - 1)} |-> [name |-> Str(1, id[2]), rep |-> <<>>]]
Pls == Small \cup (IF Crowd > 0 THEN {CrowdPl} ELSE {})

VARIABLES st, order
Init ==
    /\ st \in {[ver |-> <<210, 4, 0, 0>>, scene |-> Scene0, pl |-> pl] : pl \in Pls}
    /\ order \in IF Cardinality(DOMAIN st.pl) <= 2
                 THEN SetToSeqs(DOMAIN st.pl)
                 ELSE {SetToSeq(DOMAIN st.pl)}
Next == UNCHANGED <<st, order>>
Spec == Init /\ [][Next]_<<st, order>>

RoundTrip == InDomain(st) => Denotes(StateEncode(st, order), st)
Faithful == Denotes(StateEncode(st, order), st)
=============================================================================
