\* shape "the hit list is a buffer kept in the shared structure": refuted (NoRace; Pure alone is refuted too)
CONSTANTS
  MaxParts = 3
  SharedScratch = TRUE
SPECIFICATION Spec
INVARIANTS NoRace Pure
CHECK_DEADLOCK FALSE
