------------------------------ MODULE Delaunay ------------------------------
(***************************************************************************)
(* C20 - the 2D triangulation is a consistently wound Delaunay             *)
(* triangulation of the input.                                             *)
(*                                                                         *)
(* Points are pairs of integers on the JUDGED LATTICE; P is the sequence   *)
(* of input points, T a sequence of index triples (1-based) into P.        *)
(* Everything is decided with exact integer determinants:                  *)
(*   Orient(a,b,c)        twice the signed area (> 0: counter-clockwise)   *)
(*   InCircleDet(a,b,c,p) the 3x3 in-circle determinant (coordinates       *)
(*                        relative to p); for a counter-clockwise (a,b,c)  *)
(*                        it is > 0 iff p is strictly inside the circle    *)
(* int32 budget: |coordinate difference| <= 100 gives |Orient| <= 2*10^4,  *)
(* each of the three terms of InCircleDet <= 4*10^8 and their sum          *)
(* <= 1.2*10^9 < 2^31.  The lattice is 0..100 in both directions.          *)
(*                                                                         *)
(* The statement quantifies over point sets in general position and says   *)
(* nothing about covering the convex hull: Judge gives no verdict outside  *)
(* GeneralPosition and accepts any subset of a Delaunay triangulation,     *)
(* including the empty one (reported as a note, not as a violation).       *)
(***************************************************************************)
EXTENDS Integers, Sequences, FiniteSets

Orient(a, b, c) == (b[1] - a[1]) * (c[2] - a[2]) - (c[1] - a[1]) * (b[2] - a[2])

InCircleDet(a, b, c, p) ==
    LET ax == a[1] - p[1]
        ay == a[2] - p[2]
        bx == b[1] - p[1]
        by == b[2] - p[2]
        cx == c[1] - p[1]
        cy == c[2] - p[2]
    IN (ax * ax + ay * ay) * (bx * cy - cx * by)
       - (bx * bx + by * by) * (ax * cy - cx * ay)
       + (cx * cx + cy * cy) * (ax * by - bx * ay)

Sgn(x) == IF x > 0 THEN 1 ELSE IF x < 0 THEN -1 ELSE 0

\* p strictly inside the circle through a, b, c (any winding; FALSE for collinear a, b, c)
InCircleStrict(a, b, c, p) == Sgn(Orient(a, b, c)) * Sgn(InCircleDet(a, b, c, p)) > 0

(* Anisotropic copies.  The real input may be the lattice stretched along  *)
(* one axis: (x * sx, y * sy) with sx, sy powers of two, one of them 1.    *)
(* Orientation signs do not change; the in-circle determinant of the       *)
(* stretched points is sx * sy * (sx^2 * DX + sy^2 * DY), where DX (DY) is *)
(* the determinant whose lifted column holds only the squared x (y)        *)
(* differences.  |DX|, |DY| <= 6*10^8; the sign of u*DX + v*DY (u = sx^2,  *)
(* v = sy^2) is found by one floor division, never leaving int32.          *)
InCircleDX(a, b, c, p) ==
    LET ax == a[1] - p[1]
        ay == a[2] - p[2]
        bx == b[1] - p[1]
        by == b[2] - p[2]
        cx == c[1] - p[1]
        cy == c[2] - p[2]
    IN (ax * ax) * (bx * cy - cx * by) - (bx * bx) * (ax * cy - cx * ay) + (cx * cx) * (ax * by - bx * ay)
InCircleDY(a, b, c, p) ==
    LET ax == a[1] - p[1]
        ay == a[2] - p[2]
        bx == b[1] - p[1]
        by == b[2] - p[2]
        cx == c[1] - p[1]
        cy == c[2] - p[2]
    IN (ay * ay) * (bx * cy - cx * by) - (by * by) * (ax * cy - cx * ay) + (cy * cy) * (ax * by - bx * ay)
\* sign of s * D + E for s >= 1:  E = s * q + r with 0 <= r < s
SgnMulAdd(s, D, E) ==
    LET q == E \div s
        r == E % s
    IN IF D + q > 0 THEN 1 ELSE IF D + q < 0 THEN -1 ELSE Sgn(r)
\* sign of the in-circle determinant of the stretched points (u = sx^2, v = sy^2, one of them 1)
InCircleSgnS(a, b, c, p, u, v) ==
    IF u = 1 /\ v = 1 THEN Sgn(InCircleDet(a, b, c, p))
    ELSE IF v = 1 THEN SgnMulAdd(u, InCircleDX(a, b, c, p), InCircleDY(a, b, c, p))
    ELSE SgnMulAdd(v, InCircleDY(a, b, c, p), InCircleDX(a, b, c, p))
InCircleStrictS(a, b, c, p, u, v) == Sgn(Orient(a, b, c)) * InCircleSgnS(a, b, c, p, u, v) > 0

(* --------------------------- the antecedent ---------------------------- *)
Distinct(P) == \A i \in DOMAIN P : \A j \in (i + 1)..Len(P) : P[i] # P[j]
NoThreeCollinear(P) ==
    \A i \in DOMAIN P : \A j \in (i + 1)..Len(P) : \A k \in (j + 1)..Len(P) : Orient(P[i], P[j], P[k]) # 0
NoFourCocircular(P) ==
    \A i \in DOMAIN P : \A j \in (i + 1)..Len(P) : \A k \in (j + 1)..Len(P) : \A m \in (k + 1)..Len(P) :
        InCircleDet(P[i], P[j], P[k], P[m]) # 0
GeneralPosition(P) == Len(P) >= 3 /\ Distinct(P) /\ NoThreeCollinear(P) /\ NoFourCocircular(P)
NoFourCocircularS(P, u, v) ==
    \A i \in DOMAIN P : \A j \in (i + 1)..Len(P) : \A k \in (j + 1)..Len(P) : \A m \in (k + 1)..Len(P) :
        InCircleSgnS(P[i], P[j], P[k], P[m], u, v) # 0
GeneralPositionS(P, u, v) == Len(P) >= 3 /\ Distinct(P) /\ NoThreeCollinear(P) /\ NoFourCocircularS(P, u, v)

(* --------------------------- the consequents --------------------------- *)
Corners(t) == {t[1], t[2], t[3]}
IndicesOK(P, T) == \A k \in DOMAIN T : Len(T[k]) = 3 /\ Corners(T[k]) \subseteq DOMAIN P

\* every triangle has positive area and all have the same winding
OrientOf(P, t) == Orient(P[t[1]], P[t[2]], P[t[3]])
Winding(P, T) ==
    \/ \A k \in DOMAIN T : OrientOf(P, T[k]) > 0
    \/ \A k \in DOMAIN T : OrientOf(P, T[k]) < 0

\* p strictly inside the triangle a, b, c (non-degenerate, any winding)
StrictlyInside(p, a, b, c) ==
    LET s1 == Sgn(Orient(a, b, p))
        s2 == Sgn(Orient(b, c, p))
        s3 == Sgn(Orient(c, a, p))
    IN s1 # 0 /\ s1 = s2 /\ s2 = s3

\* the open segments p1p2 and q1q2 cross in a single interior point
ProperCross(p1, p2, q1, q2) ==
    /\ Sgn(Orient(p1, p2, q1)) * Sgn(Orient(p1, p2, q2)) < 0
    /\ Sgn(Orient(q1, q2, p1)) * Sgn(Orient(q1, q2, p2)) < 0

Edges(t) == {<<t[1], t[2]>>, <<t[2], t[3]>>, <<t[3], t[1]>>}

(* Two non-degenerate triangles on points without collinear triples share  *)
(* an interior point iff one of:                                           *)
(*   same corner set; a corner of one strictly inside the other; two edges *)
(*   with four distinct end points cross properly; they share an edge and  *)
(*   the two remaining corners are on the same side of it.                 *)
(* (With one shared corner the wedges at that corner overlap iff a         *)
(* boundary ray of one runs inside the other: then that edge crosses the   *)
(* opposite edge or its end point is inside. No shared corner: classical.) *)
Overlap(P, s, t) ==
    \/ Corners(s) = Corners(t)
    \/ \E v \in Corners(t) \ Corners(s) : StrictlyInside(P[v], P[s[1]], P[s[2]], P[s[3]])
    \/ \E v \in Corners(s) \ Corners(t) : StrictlyInside(P[v], P[t[1]], P[t[2]], P[t[3]])
    \/ \E e \in Edges(s), f \in Edges(t) :
          /\ Cardinality({e[1], e[2], f[1], f[2]}) = 4
          /\ ProperCross(P[e[1]], P[e[2]], P[f[1]], P[f[2]])
    \/ /\ Cardinality(Corners(s) \cap Corners(t)) = 2
       /\ LET sh == Corners(s) \cap Corners(t)
              u == CHOOSE x \in sh : TRUE
              v == CHOOSE x \in sh : x # u
              a == CHOOSE x \in Corners(s) : x \notin sh
              b == CHOOSE x \in Corners(t) : x \notin sh
          IN Sgn(Orient(P[u], P[v], P[a])) = Sgn(Orient(P[u], P[v], P[b]))

NoOverlap(P, T) == \A j \in DOMAIN T : \A k \in (j + 1)..Len(T) : ~Overlap(P, T[j], T[k])

EmptyCircle(P, T) ==
    \A k \in DOMAIN T : \A i \in DOMAIN P \ Corners(T[k]) :
        ~InCircleStrict(P[T[k][1]], P[T[k][2]], P[T[k][3]], P[i])

EmptyCircleS(P, T, u, v) ==
    \A k \in DOMAIN T : \A i \in DOMAIN P \ Corners(T[k]) :
        ~InCircleStrictS(P[T[k][1]], P[T[k][2]], P[T[k][3]], P[i], u, v)

(* V: the vertex positions of the result projected to the lattice (flat:   *)
(* every y of (x, 0, y) is 0; exact: every coordinate is on the lattice).  *)
UsesInput(P, V, flat, exact, T) == flat /\ exact /\ V = P /\ IndicesOK(P, T)

\* names of the violated consequents; {} outside the antecedent
Judge(P, V, flat, exact, T) ==
    IF ~GeneralPosition(P) THEN {}
    ELSE IF ~UsesInput(P, V, flat, exact, T) THEN {"C20.UsesInput"}
    ELSE (IF Winding(P, T) THEN {} ELSE {"C20.Winding"})
         \cup (IF EmptyCircle(P, T) THEN {} ELSE {"C20.EmptyCircle"})
         \cup (IF (\A k \in DOMAIN T : OrientOf(P, T[k]) # 0) => NoOverlap(P, T) THEN {} ELSE {"C20.NoOverlap"})

\* the same for an input stretched by sqrt(u) along x and sqrt(v) along y (P, V on the unstretched lattice)
JudgeS(P, V, flat, exact, T, u, v) ==
    IF ~GeneralPositionS(P, u, v) THEN {}
    ELSE IF ~UsesInput(P, V, flat, exact, T) THEN {"C20.UsesInput"}
    ELSE (IF Winding(P, T) THEN {} ELSE {"C20.Winding"})
         \cup (IF EmptyCircleS(P, T, u, v) THEN {} ELSE {"C20.EmptyCircle"})
         \cup (IF (\A k \in DOMAIN T : OrientOf(P, T[k]) # 0) => NoOverlap(P, T) THEN {} ELSE {"C20.NoOverlap"})
=============================================================================
