\* generator: one event sequence per distinct (state, length) of the repaired machine, replayed on the real Hub.Run
CONSTANTS NC = 2 Cap = 1 Depth = 5 Variant = "repaired" Alphabet = {1, 3, 4, 7, 8, 9}
SPECIFICATION Spec
INVARIANTS Emit
VIEW View
CHECK_DEADLOCK FALSE
