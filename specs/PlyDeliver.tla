----------------------------- MODULE PlyDeliver -----------------------------
(***************************************************************************)
(* Design-level (L2) model of a binary record reader over an io.Reader.    *)
(* Never used for verdicts: it states the io.Reader contract, shows on the *)
(* specification which reading discipline is independent of the DELIVERY,  *)
(* and motivates the delivery dimension of PlySeries.                      *)
(*                                                                         *)
(* io.Reader contract: Read(p) with len(p) = k > 0 on a stream with r > 0  *)
(* bytes left returns ANY n in 1..min(k, r) (the source decides: a network *)
(* segment, what is left in a bufio buffer before the next refill, ...).   *)
(* The consumer reads a sequence of FIELDS (sizes FieldSizes[i]: a list count  *)
(* of 4 bytes, its payload, a 1-byte count, ...) into a scratch buffer     *)
(* that still holds the previous field (stale bytes).                      *)
(*   Discipline = "full"    io.ReadFull: Read until the field is complete  *)
(*   Discipline = "single"  one Read per field, its result n ignored       *)
(* A field is INTACT when the bytes decoded for it are exactly the bytes   *)
(* of the stream at the field's offset.                                    *)
(*   DeliveryIndependent: every field decoded so far is intact - holds for *)
(*   "full" under every delivery; "single" violates it as soon as one Read *)
(*   returns short inside a field of more than one byte (TLC prints the    *)
(*   delivery: e.g. a refill boundary inside a 4-byte count).              *)
(* Delivery = "any" (every legal n) | "refill" (never across a multiple of *)
(* Refill: what a buffered source does) | "whole" (always min(k, r):       *)
(* bytes.Reader - the only delivery unit tests usually exercise).          *)
(***************************************************************************)
EXTENDS Integers, Sequences, TLC

CONSTANTS FieldSizes,       \* sequence of field sizes
          Discipline,   \* "full" | "single"
          Delivery,     \* "any" | "refill" | "whole"
          Refill        \* refill period of the buffered source

\* a file body: header rest, then face records (4-byte count + 3 indices), one with a 1-byte count
SampleFields == <<13, 4, 12, 4, 12, 1, 12>>

RECURSIVE SumTo(_)
SumTo(i) == IF i = 0 THEN 0 ELSE FieldSizes[i] + SumTo(i - 1)
Total == SumTo(Len(FieldSizes))
Min(a, b) == IF a <= b THEN a ELSE b

VARIABLES pos,      \* stream offset of the next undelivered byte
          fld,      \* field being read (Len(FieldSizes) + 1: done)
          got,      \* bytes of the current field that arrived
          start,    \* stream offset at which the consumer BELIEVES the current field started
          truth,    \* offset at which field fld really starts
          intact    \* every field decoded so far came from its own bytes
vars == <<pos, fld, got, start, truth, intact>>

Init == pos = 0 /\ fld = 1 /\ got = 0 /\ start = 0 /\ truth = 0 /\ intact = TRUE

\* what one Read(p), len(p) = k, may return with r bytes left at offset pos
Returns(k, r) ==
    IF Delivery = "whole" THEN {Min(k, r)}
    ELSE IF Delivery = "refill" THEN {Min(Min(k, r), Refill - (pos % Refill))}
    ELSE 1..Min(k, r)

Read ==
    /\ fld <= Len(FieldSizes) /\ pos < Total
    /\ \E n \in Returns(FieldSizes[fld] - got, Total - pos) :
          /\ pos' = pos + n
          /\ IF Discipline = "full" /\ got + n < FieldSizes[fld]
             THEN /\ got' = got + n /\ UNCHANGED <<fld, start, truth, intact>>
             ELSE \* the field is decoded now: from its own bytes iff all of them arrived and it began where it should
                  /\ intact' = (intact /\ got + n = FieldSizes[fld] /\ start = truth)
                  /\ fld' = fld + 1 /\ got' = 0
                  /\ start' = pos + n                    \* the consumer goes on from where the stream is
                  /\ truth' = truth + FieldSizes[fld]
Done == fld > Len(FieldSizes) /\ UNCHANGED vars
Next == Read \/ Done
Spec == Init /\ [][Next]_vars

DeliveryIndependent == intact
\* a complete run consumed the stream exactly
Consumed == fld > Len(FieldSizes) => (intact => pos = Total)
=============================================================================
