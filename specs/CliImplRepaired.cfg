CONSTANTS Pinned = FALSE NProd = 3 Bad = {2}
SPECIFICATION Spec
INVARIANTS ValueLaw Atomic Complete NothingDropped
CHECK_DEADLOCK FALSE
