CONSTANTS
  Family = "obj"
  Thresholds = {64, 100, 128, 256, 512, 1000, 1024, 4096}
  Mults = {1, 2, 3}
  MaxSize = 4096
  MaxCount = 1025
  Rot = 1
SPECIFICATION Spec
INVARIANTS Covered Emit
CHECK_DEADLOCK FALSE
