\* design check + exhaustive schedule generator (all interleavings, n <= 8, w <= 5)
CONSTANTS
  MaxN = 8
  MaxW = 5
  MinW = 1
  Loop = "end"
SPECIFICATION Spec
INVARIANTS PartitionOK AtMostOnce Termination OutputOK EmitDone
PROPERTY RefinesContract
CHECK_DEADLOCK FALSE
