--------------------------- MODULE TraceHttpConc ---------------------------
(***************************************************************************)
(* X04, concurrent mode - linearizability of real concurrent histories of  *)
(* the editor's HTTP API against the sequential machine HttpEdit           *)
(* (pattern of TraceParamServer, C13).                                     *)
(*                                                                         *)
(* Lines, ordered by one atomic counter (harness/httpfam/conc.go):         *)
(*   {"k":"reset", app, fok, file, rval = number of clients}               *)
(*        the application after the sequential prelude                     *)
(*   {"k":"inv", r}   client r.cl sends request r                          *)
(*   {"k":"resp", r, st, rk, rid, rtype, rval, rtext, rg}  its answer      *)
(*   {"k":"final", app, fh, fok, file}  after every client finished        *)
(*   {"k":"crash"} / {"k":"hang"}  the process died / the clients hung     *)
(*                                                                         *)
(* Lin(c) is a silent step TLC places anywhere between c's invoke and      *)
(* response: it applies the request to g exactly as the sequential         *)
(* contract says (Class / Effect) and remembers the state it saw.  A       *)
(* response line is consumable only if the request was linearized and the  *)
(* answer is the one the contract gives AT THAT POINT (2xx and the result  *)
(* for a valid request - new node id, value, graph, artifact by value -,   *)
(* 4xx/5xx for an invalid one, no panic).  The final line is consumable    *)
(* only if the application graph AND the autosaved file are the g reached. *)
(* A history is accepted iff some path consumes all its lines.  Abandon    *)
(* skips to the next reset so that one bad history does not hide the rest; *)
(* register h records that history h passed cleanly on some path; register *)
(* NH + h that some path met a request whose assumed node types did not    *)
(* hold (a node number re-used for another type while the case ran: the    *)
(* body the harness built no longer means the abstract request) - such a   *)
(* history is reported as skipped, never as a violation.  Needs -workers 1.*)
(***************************************************************************)
EXTENDS HttpEdit

Trace == ndJsonDeserialize("trace.ndjson")
NH == Cardinality({i \in DOMAIN Trace : Trace[i].k = "reset"})

VARIABLES l, pend, clean, hno
tvars == <<g, hist, snap, file, l, pend, clean, hno>>

SeqSet(s) == {s[i] : i \in DOMAIN s}
ModelNodes(gr) ==
    LET ord == SetToSortSeq(gr.ids, LAMBDA x, y : x < y) IN
    [i \in 1..Len(ord) |-> LET n == ord[i] IN
        [id |-> n, type |-> gr.type[n], name |-> gr.name[n], desc |-> gr.desc[n], val |-> gr.val[n],
         single |-> gr.single[n], arr |-> gr.arr[n]]]
Core(p) == [nodes |-> p.nodes, prod |-> SeqSet(p.prod), meta |-> SeqSet(p.meta)]
ModelCore(gr) == [nodes |-> ModelNodes(gr), prod |-> gr.prod, meta |-> gr.meta]
ArtsOf(p) == {<<p.arts[i].name, p.arts[i].content>> : i \in DOMAIN p.arts}
ProjIds(p) == {p.nodes[i].id : i \in DOMAIN p.nodes}
Clean(p) ==
    /\ p.unknown = 0 /\ Cardinality(ProjIds(p)) = Len(p.nodes)
    /\ \A i \in DOMAIN p.nodes :
          /\ \A k \in 1..4 : p.nodes[i].single[k] = 0 - 1 \/ p.nodes[i].single[k] \in ProjIds(p)
          /\ \A k \in DOMAIN p.nodes[i].arr : p.nodes[i].arr[k] \in ProjIds(p)
    /\ \A q \in SeqSet(p.prod) : q[2] \in ProjIds(p)
FromProj(p) ==
    LET ids == ProjIds(p)
        at(n) == p.nodes[CHOOSE i \in DOMAIN p.nodes : p.nodes[i].id = n]
    IN [ids |-> ids, type |-> [n \in ids |-> at(n).type], name |-> [n \in ids |-> at(n).name],
        desc |-> [n \in ids |-> at(n).desc], val |-> [n \in ids |-> at(n).val],
        single |-> [n \in ids |-> at(n).single], arr |-> [n \in ids |-> at(n).arr],
        prod |-> SeqSet(p.prod), meta |-> SeqSet(p.meta)]

MaxC == 6
NoPend == [op |-> "none", r |-> <<>>, lin |-> FALSE, cls |-> "", pre |-> Empty, rid |-> 0 - 1]

TInit ==
    /\ l = 1 /\ pend = [c \in 1..MaxC |-> NoPend] /\ clean = TRUE /\ hno = 0
    /\ g = Empty /\ hist = <<>> /\ snap = Empty /\ file = Empty
    /\ \A h \in 1..(2 * NH) : TLCSet(h, FALSE)

Line == Trace[l]
Mark == IF clean /\ hno > 0 THEN TLCSet(hno, TRUE) ELSE TRUE

TReset ==
    /\ l <= Len(Trace) /\ Line.k = "reset"
    /\ Mark
    /\ g' = (IF Clean(Line.app) THEN FromProj(Line.app) ELSE Empty)
    /\ snap' = g'                      \* the harness fetched GET /graph right before the clients start
    /\ pend' = [c \in 1..MaxC |-> NoPend]
    /\ clean' = TRUE /\ hno' = hno + 1 /\ l' = l + 1
    /\ UNCHANGED <<hist, file>>

\* the node id the answer to the request invoked at line i will name (-1: no answer / not a create): which id a
\* new node gets is not part of the contract, only that it is fresh at the linearization point
AnswerRid(i) ==
    LET c == Trace[i].r.cl
        J == {j \in (i + 1)..Len(Trace) : Trace[j].k = "resp" /\ Trace[j].r.cl = c}
    IN IF J = {} THEN 0 - 1 ELSE Trace[CHOOSE j \in J : \A m \in J : j <= m].rid

TInv ==
    /\ l <= Len(Trace) /\ Line.k = "inv"
    /\ pend[Line.r.cl].op = "none"
    /\ pend' = [pend EXCEPT ![Line.r.cl] = [op |-> "req", r |-> Line.r, lin |-> FALSE, cls |-> "", pre |-> Empty,
                                              rid |-> AnswerRid(l)]]
    /\ UNCHANGED <<g, hist, snap, file, clean, hno>> /\ l' = l + 1

\* the body was built for these node types: does the abstract request still mean what was sent?
Assumed(gr, r) ==
    LET chk(x, t) == x \notin gr.ids \/ gr.type[x] = t IN
    CASE r.kind \in {"connect", "connectarr"} -> chk(r.a, r.ta) /\ chk(r.b, r.tb)
      [] r.kind \in {"disconnect", "disconnectarr"} -> chk(r.b, r.tb)
      [] r.kind \in {"setval", "getval"} -> chk(r.a, r.ta)
      [] OTHER -> TRUE

Lin(c) ==
    /\ pend[c].op # "none" /\ ~pend[c].lin
    /\ LET r == pend[c].r IN
       IF ~Assumed(g, r)
       THEN TLCSet(NH + hno, TRUE) /\ FALSE        \* inconclusive on this path
       ELSE /\ g' = EffectK(g, snap, r, IF FreshId(g, pend[c].rid) THEN pend[c].rid ELSE NewId(g.ids))
            /\ pend' = [pend EXCEPT ![c].lin = TRUE, ![c].cls = Class(g, r), ![c].pre = g]
    /\ UNCHANGED <<l, hist, snap, file, clean, hno>>

Ok2xx(st) == st >= 200 /\ st < 300
Err(st) == st >= 400 /\ st < 600
ResponseOK(gr, r, ln) ==
    CASE r.kind = "create" -> FreshId(gr, ln.rid) /\ ln.rtype = r.a
      [] r.kind = "getval" -> ln.rval = gr.val[r.a]
      [] r.kind = "getname" -> ln.rval = gr.name[r.a]
      [] r.kind = "getgraph" -> Clean(ln.rg) /\ Core(ln.rg) = ModelCore(gr)
      [] r.kind = "getart" -> ln.rtext = Art(gr, ProducerNode(gr, r.a))
      [] OTHER -> TRUE

TResp ==
    /\ l <= Len(Trace) /\ Line.k = "resp"
    /\ LET c == Line.r.cl  p == pend[c] IN
       /\ p.lin
       /\ CASE p.cls = "valid" -> Ok2xx(Line.st) /\ ResponseOK(p.pre, p.r, Line)
            [] p.cls = "invalid" -> Err(Line.st)
            [] OTHER -> Line.st # 0 - 1
       /\ pend' = [pend EXCEPT ![c] = NoPend]
    /\ UNCHANGED <<g, hist, snap, file, clean, hno>> /\ l' = l + 1

TFinal ==
    /\ l <= Len(Trace) /\ Line.k = "final"
    /\ \A c \in 1..MaxC : pend[c].op = "none"
    /\ Clean(Line.app) /\ Core(Line.app) = ModelCore(g)
    /\ Line.fok /\ Clean(Line.file) /\ Core(Line.file) = ModelCore(g)
    /\ (AcyclicG(g) => ArtsOf(Line.file) = ArtSet(g))
    /\ UNCHANGED <<g, hist, snap, file, pend, clean, hno>> /\ l' = l + 1

NextReset(i) == IF \E j \in i..Len(Trace) : Trace[j].k = "reset"
                THEN CHOOSE j \in i..Len(Trace) : Trace[j].k = "reset" /\ \A m \in i..(j - 1) : Trace[m].k # "reset"
                ELSE Len(Trace) + 1
Abandon ==
    /\ l <= Len(Trace) /\ Line.k # "reset" /\ clean
    /\ l' = NextReset(l) /\ clean' = FALSE
    /\ pend' = [c \in 1..MaxC |-> NoPend] /\ g' = Empty /\ snap' = Empty
    /\ UNCHANGED <<hist, file, hno>>

TEnd == l = Len(Trace) + 1 /\ Mark /\ UNCHANGED tvars

TNext == TReset \/ TInv \/ TResp \/ TFinal \/ (\E c \in 1..MaxC : Lin(c)) \/ Abandon \/ TEnd
TSpec == TInit /\ [][TNext]_tvars

\* crash / hang lines are never consumable: such a history is reported as not passed
Report ==
    \A h \in 1..NH : TLCGet(h) \/ PrintT(ToJson([bad |-> {"X04.Linearizable"}, h |-> h, skipped |-> TLCGet(NH + h)]))
=============================================================================
