\* owned-cells design: the job of a block marches every cell it owns, seam cells included; generator of seam scenarios
CONSTANTS
  S = 4
  SkipUniform = FALSE
SPECIFICATION Spec
INVARIANTS MarchEqual OwnedReadsNeighbour Emit
CHECK_DEADLOCK FALSE
