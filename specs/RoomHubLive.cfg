\* liveness: with a receiving writePump every registered client gets its id
CONSTANTS NC = 2 Cap = 2 Depth = 0 Variant = "repaired" Alphabet = {1, 7}
SPECIFICATION FairSpec
PROPERTIES EventuallyId
CHECK_DEADLOCK FALSE
