--------------------------- MODULE TraceDelaunay ---------------------------
(***************************************************************************)
(* Trace validation for the 2D triangulation (C20).                        *)
(* trace.ndjson, one line per call of triangulation.BowyerWatson:          *)
(*  {"k":"dt","case","st","n","pts":[[x,y]..],"pos":[[x,y]..],"flat",      *)
(*   "exact","wf","tris":[[i,j,k]..],"u","v"}                              *)
(* u, v: the real input is the lattice stretched by sqrt(u) along x and    *)
(* sqrt(v) along y (powers of four, one of them 1); Delaunay!JudgeS judges *)
(* circles in that metric.                                                 *)
(* pts: the input on the judged lattice; pos: the positions (x, 0, y) of   *)
(* the returned mesh mapped back to the lattice (exact: every coordinate   *)
(* is the exact image of a lattice value, flat: every middle component is  *)
(* 0, wf: a triangle mesh with whole triangles); tris: 1-based corners.    *)
(* The harness executes and projects; Delaunay!Judge decides. Rejected     *)
(* lines are printed as {"l","bad"}; lines without a verdict as            *)
(* {"l","note"} with note "notGP" (outside the antecedent) or "empty" (no  *)
(* triangle returned: vacuously inside the statement, counted).            *)
(* "entry" (optional in the harness, not judged): which entry point made   *)
(* the call - BowyerWatson or ConstrainedBowyerWatson without constraints; *)
(* the statement is the same for both.                                     *)
(***************************************************************************)
EXTENDS Delaunay, TLC, Json

Trace == ndJsonDeserialize("trace.ndjson")

VARIABLES l
vars == <<l>>

Init == l = 1

(* Coverage, not a verdict: the number of accepted triangles at the point  *)
(* inserted LAST.  In an accepted (Delaunay) result that is the fan built  *)
(* by the last insertion; when the point is interior to the hull the fan   *)
(* of d triangles replaced a cavity of d - 2 invalidated triangles (a      *)
(* polygon of d edges).  Printed as {"l","star"} for d >= 8.               *)
StarOfLast(P, T) == Cardinality({k \in DOMAIN T : Len(P) \in Corners(T[k])})

Step ==
    /\ l <= Len(Trace) /\ Trace[l].k = "dt"
    /\ LET ln == Trace[l]
           gp == GeneralPositionS(ln.pts, ln.u, ln.v)
           bad == IF ~gp THEN {}
                  ELSE IF ln.st # "OK" THEN {"C20.Returns"}
                  ELSE IF ~ln.wf THEN {"C20.UsesInput"}
                  ELSE JudgeS(ln.pts, ln.pos, ln.flat, ln.exact, ln.tris, ln.u, ln.v)
       IN IF bad # {} THEN PrintT(ToJson([l |-> l, bad |-> bad]))
          ELSE IF ~gp THEN PrintT(ToJson([l |-> l, note |-> "notGP"]))
          ELSE IF ln.tris = <<>> THEN PrintT(ToJson([l |-> l, note |-> "empty"]))
          ELSE LET d == StarOfLast(ln.pts, ln.tris) IN IF d >= 8 THEN PrintT(ToJson([l |-> l, star |-> d])) ELSE TRUE
    /\ l' = l + 1

Next == Step
Spec == Init /\ [][Next]_vars

TraceAccepted == TLCGet("stats").diameter - 1 = Len(Trace)
=============================================================================
