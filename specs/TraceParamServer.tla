-------------------------- MODULE TraceParamServer --------------------------
(***************************************************************************)
(* Linearizability of real histories of graph.Instance (C13) against the   *)
(* sequential object (L1 of ParamServer):                                  *)
(*    upd(p,v) -> "ok"     get(p) -> "p<p>:<v>"     art(i) -> Term(prod i) *)
(*    updbad(p) -> "ERR" (valid JSON of the wrong shape; no effect)        *)
(* initial values come from the reset line (parameter 2 starts at its      *)
(* command-line flag value, not at its default)                            *)
(* Trace lines (ordered by one atomic counter):                            *)
(*   {"k":"reset","wire":[..],"prod":[..],"nc":..,"h":..}                  *)
(*   {"k":"inv","c":..,"op":..,"p":..,"v":..}   {"k":"resp","c":..,"res":..}*)
(*   {"k":"hang"}                                                          *)
(* Lin(c) is a silent step TLC places anywhere between c's invoke and      *)
(* response: it applies the operation to pval and fixes its result; a      *)
(* response line is consumable only if the logged result equals it.  A     *)
(* history is linearizable iff some path consumes all its lines.  So that  *)
(* one bad history does not hide the rest, Abandon may skip to the next    *)
(* reset line; register h (TLCSet) records that history h was passed       *)
(* WITHOUT abandoning on some path.  Report (postcondition, always TRUE)   *)
(* prints the histories never passed cleanly.  Needs -workers 1.           *)
(***************************************************************************)
EXTENDS NodeTerms, Json

Trace == ndJsonDeserialize("trace.ndjson")
NH == Cardinality({i \in DOMAIN Trace : Trace[i].k = "reset"})

VARIABLES l, pend, clean, hno, gwire, gprod, pval
tvars == <<l, pend, clean, hno, gwire, gprod, pval>>

\* slice-valued parameter 3: v = tag*10 + length, element i is tag*100 + i
RECURSIVE VecJoin(_, _, _)
VecJoin(tag, i, n) == IF i > n THEN "" ELSE ToString(tag * 100 + i) \o (IF i < n THEN ";" ELSE "") \o VecJoin(tag, i + 1, n)
VecTerm(v) == "c[" \o VecJoin(v \div 10, 1, v % 10) \o "]"

NoPend == [op |-> "none", p |-> 0, v |-> 0, lin |-> FALSE, res |-> ""]
MaxC == 8

TInit ==
    /\ l = 1 /\ pend = [c \in 1..MaxC |-> NoPend] /\ clean = TRUE /\ hno = 0
    /\ gwire = [n \in Nodes |-> NoWire] /\ gprod = <<>>
    /\ pval = [p \in Params |-> 1]
    /\ \A h \in 1..NH : TLCSet(h, FALSE)

Line == Trace[l]

\* arriving at a boundary (next reset or end of trace) with a clean path marks the history as passed
Mark == IF clean /\ hno > 0 THEN TLCSet(hno, TRUE) ELSE TRUE

TReset ==
    /\ l <= Len(Trace) /\ Line.k = "reset"
    /\ Mark
    /\ gwire' = [n \in Nodes |-> LET r == Line.wire[n - NP] IN [a |-> r.a, b |-> r.b, arr |-> r.arr]]
    /\ gprod' = Line.prod
    /\ pval' = [p \in Params |-> Line.init[p]] /\ pend' = [c \in 1..MaxC |-> NoPend]
    /\ clean' = TRUE /\ hno' = hno + 1 /\ l' = l + 1

TInv ==
    /\ l <= Len(Trace) /\ Line.k = "inv"
    /\ pend[Line.c].op = "none"
    /\ pend' = [pend EXCEPT ![Line.c] = [op |-> Line.op, p |-> Line.p, v |-> Line.v, lin |-> FALSE, res |-> ""]]
    /\ UNCHANGED <<pval, clean, hno, gwire, gprod>> /\ l' = l + 1

Lin(c) ==
    /\ pend[c].op # "none" /\ ~pend[c].lin
    /\ LET o == pend[c] IN
       \/ /\ o.op = "upd" /\ pval' = [pval EXCEPT ![o.p] = o.v]
          /\ pend' = [pend EXCEPT ![c].lin = TRUE, ![c].res = "ok"]
       \/ /\ o.op = "updbad" /\ UNCHANGED pval        \* a rejected update changes nothing
          /\ pend' = [pend EXCEPT ![c].lin = TRUE, ![c].res = "ERR"]
       \/ /\ o.op = "get" /\ UNCHANGED pval
          /\ pend' = [pend EXCEPT ![c].lin = TRUE, ![c].res = IF o.p = 3 THEN VecTerm(pval[3]) ELSE ParamTerm(o.p, pval[o.p])]
       \/ /\ o.op = "art" /\ UNCHANGED pval
          /\ pend' = [pend EXCEPT ![c].lin = TRUE,
                                   \* a producer whose evaluation panics hands nothing out: the call ends with the
                                   \* panic (recovered by the caller, as the edit server does) and changes nothing
                                   ![c].res = IF o.p = 3 THEN VecTerm(pval[3])
                                              ELSE IF Panics(gwire, pval, gprod[o.p]) THEN "PANIC"
                                              ELSE Term(gwire, pval, gprod[o.p])]
    /\ UNCHANGED <<l, clean, hno, gwire, gprod>>

TResp ==
    /\ l <= Len(Trace) /\ Line.k = "resp"
    /\ pend[Line.c].lin /\ pend[Line.c].res = Line.res
    /\ pend' = [pend EXCEPT ![Line.c] = NoPend]
    /\ UNCHANGED <<pval, clean, hno, gwire, gprod>> /\ l' = l + 1

\* skip the rest of this history (it is then not marked as passed on this path)
NextReset(i) == IF \E j \in i..Len(Trace) : Trace[j].k = "reset"
                THEN CHOOSE j \in i..Len(Trace) : Trace[j].k = "reset" /\ \A m \in i..(j - 1) : Trace[m].k # "reset"
                ELSE Len(Trace) + 1
Abandon ==
    /\ l <= Len(Trace) /\ Line.k # "reset" /\ clean
    /\ l' = NextReset(l) /\ clean' = FALSE
    /\ pend' = [c \in 1..MaxC |-> NoPend] /\ pval' = [p \in Params |-> 1]
    /\ UNCHANGED <<hno, gwire, gprod>>

TEnd == l = Len(Trace) + 1 /\ Mark /\ UNCHANGED tvars

TNext == TReset \/ TInv \/ TResp \/ (\E c \in 1..MaxC : Lin(c)) \/ Abandon \/ TEnd
TSpec == TInit /\ [][TNext]_tvars

\* "hang" lines are never consumable: such a history is reported as not passed
Report ==
    \A h \in 1..NH : TLCGet(h) \/ PrintT(ToJson([bad |-> {"C13.Linearizable"}, h |-> h]))
=============================================================================
