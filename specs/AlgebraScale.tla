---------------------------- MODULE AlgebraScale ----------------------------
(***************************************************************************)
(* Binary magnitude profiles for the cases of the transform algebra (C17,  *)
(* round 2 strengthening).                                                 *)
(*                                                                         *)
(* base.ndjson holds cases already produced by the other generators        *)
(* (AlgebraGroup, AlgebraMat, AlgebraCases, AlgebraBox, seeded real cases),*)
(* one line {"j": rank of the case within its sub-kind, "n": number of     *)
(* variants wanted, "c": the case}.  Every                                 *)
(* initial state is one (case, variant); Emit prints the case again with   *)
(* the exponents of one magnitude profile and the units that Algebra.tla   *)
(* (ScaleMat1, ScaleMat2, ScaleRot, ScaleTRS, RealDeg) assigns to its      *)
(* outputs.  The profile is chosen by rotation: variant v of the case of   *)
(* rank j gets profile (j * n + v + Seed) mod (number of profiles), so     *)
(* that a quick run covers every profile of every kind many times and      *)
(* different seeds pair cases and profiles differently.                    *)
(*                                                                         *)
(* Ladder: the exponents.  For a uniformly scaled 4x4 matrix the           *)
(* determinant scales with the 4th power: 2^-4 .. 2^-400, which puts it    *)
(* below every plausible absolute epsilon (1e-3, 1e-6, 1e-9, 1e-12,        *)
(* 2.2e-16, float32 limits) while the matrix stays perfectly conditioned.  *)
(***************************************************************************)
EXTENDS Algebra, Json

CONSTANTS Seed, MaxNProf

Base == ndJsonDeserialize("base.ndjson")

VARIABLES i, v
vars == <<i, v>>

N(x) == 0 - x
Ladder == <<N(1), N(2), N(3), N(5), N(8), N(12), N(20), N(40), N(100), 3, 12, 40, 100>>
L == Len(Ladder)
U4(e) == <<e, e, e, e>>
Z4 == <<0, 0, 0, 0>>

\* matrices: uniform scale; linear part scaled, translation column of ordinary size (ce = (e,e,e,0): with
\* e = -11 this is "uniform scale 0.0005 with a translation"); rows / columns of mixed size
Mat1Profiles ==
    [k \in 1..L |-> [re |-> U4(Ladder[k]), ce |-> Z4]]
    \o << [re |-> Z4, ce |-> <<N(11), N(11), N(11), 0>>],
          [re |-> Z4, ce |-> <<N(20), N(20), N(20), 0>>],
          [re |-> Z4, ce |-> <<N(3), N(3), N(3), 0>>],
          [re |-> Z4, ce |-> <<12, 12, 12, 0>>],
          [re |-> <<N(12), 0, 12, 0>>, ce |-> Z4],
          [re |-> <<N(20), N(20), 20, 20>>, ce |-> <<5, N(5), 0, 0>>],
          [re |-> <<N(3), N(3), N(3), 0>>, ce |-> <<0, 0, 0, N(3)>>],
          [re |-> <<N(40), 0, 0, 0>>, ce |-> <<0, 0, 0, N(40)>>] >>
\* pairs (first exponent, second exponent): one side, the other side, opposite, both
Pairs == [k \in 1..(4 * L) |->
            LET e == Ladder[((k - 1) \div 4) + 1]
                m == (k - 1) % 4
            IN CASE m = 0 -> <<e, 0>> [] m = 1 -> <<0, e>> [] m = 2 -> <<e, N(e)>> [] OTHER -> <<e, e>>]

UsesS(c) == IF c.k = "trs" THEN c.ctor \in {"New", "Scale"} ELSE c.op \in {"Scale", "ApplyTRS"}

NProfiles(c) ==
    CASE c.k = "mat1" -> Len(Mat1Profiles)
      [] c.k \in {"mat2", "rotax", "rotq", "trs", "mesh"} -> 4 * L
      [] c.k \in {"rot", "boxhist", "real"} -> L
      [] OTHER -> 0

Fields(c, p) ==
    CASE c.k = "mat1" -> LET x == Mat1Profiles[p] IN [re |-> x.re, ce |-> x.ce] @@ ScaleMat1(x.re, x.ce)
      [] c.k = "mat2" -> [ea |-> Pairs[p][1], ebm |-> Pairs[p][2]] @@ ScaleMat2(Pairs[p][1], Pairs[p][2])
      [] c.k = "rot" -> [ae |-> 0, ve |-> Ladder[p]] @@ ScaleRot(Ladder[p])
      [] c.k \in {"rotax", "rotq"} -> [ae |-> Pairs[p][1], ve |-> Pairs[p][2]] @@ ScaleRot(Pairs[p][2])
      [] c.k \in {"trs", "mesh"} ->
            LET se == IF UsesS(c) THEN Pairs[p][1] ELSE 0
                ve == IF UsesS(c) \/ Pairs[p][2] # 0 THEN Pairs[p][2] ELSE Pairs[p][1]
            IN [se |-> se, ve |-> ve] @@ ScaleTRS(se, ve)
      [] c.k = "boxhist" -> [be |-> Ladder[p]]
      [] c.k = "real" -> [e |-> Ladder[p], ue |-> RealDeg(c.law) * Ladder[p]]

Init == i \in 1..Len(Base) /\ v \in 0..(MaxNProf - 1) /\ v < Base[i].n /\ NProfiles(Base[i].c) > 0
Next == FALSE /\ UNCHANGED vars
Spec == Init /\ [][Next]_vars

Profile == ((Base[i].j * Base[i].n + v + Seed) % NProfiles(Base[i].c)) + 1
\* sc: number of the profile (1-based), np: how many profiles the kind has (coverage is checked by the orchestration)
Emit == PrintT(ToJson([sc |-> Profile, np |-> NProfiles(Base[i].c)] @@ Fields(Base[i].c, Profile) @@ Base[i].c))
=============================================================================
