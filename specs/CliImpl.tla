------------------------------- MODULE CliImpl -------------------------------
(***************************************************************************)
(* X08 - implementation-shaped models (L2) of three mechanisms behind the  *)
(* command line, each as the code had it (Pinned = TRUE) and as repaired.  *)
(* They are design-level only: TLC shows the counterexample the real code  *)
(* then reproduced, and that the repaired shape satisfies the contract in  *)
(* the bound.  Verdicts on code are never taken from this module.          *)
(*                                                                         *)
(* which = 1  parameter.Value: three places a value can come from          *)
(*            (appliedProfile, the flag's cell CLI.value, DefaultValue),   *)
(*            Value() prefers them in that order; loading a graph file     *)
(*            applies the saved value as a profile; InitializeForCLI       *)
(*            registers the flag.  Contract ValueLaw: after the flags are  *)
(*            parsed the value is the flag's if it was given, else the     *)
(*            saved one, else the default; a later edit wins.              *)
(* which = 2  App.Generate: producers in any order (map iteration), per    *)
(*            producer mkdir / create / evaluate / write; some producers   *)
(*            cannot be evaluated.  Contract Atomic: a failed run leaves   *)
(*            the file system as it was; Complete: a finished run wrote    *)
(*            every file in full.                                          *)
(* which = 3  flag parsing: tokens are flags f(v) or words; parsing stops  *)
(*            at the first word.  Contract NothingDropped: a run that      *)
(*            succeeds used every flag on the command line.                *)
(***************************************************************************)
EXTENDS Integers, Sequences, FiniteSets, TLC

CONSTANTS Pinned, NProd, Bad        \* Bad: the producers that cannot be evaluated
None == 0 - 1
Vals == {1, 2, 3}

VARIABLES which,
          def, applied, cell, want, phase,          \* 1
          todo, cur, step, fs, status,              \* 2
          argv, pos, used, result                   \* 3
vars == <<which, def, applied, cell, want, phase, todo, cur, step, fs, status, argv, pos, used, result>>

(* ---------------- 1: where a parameter's value comes from -------------------- *)
Value == IF applied # None THEN applied ELSE IF cell # None THEN cell ELSE def
V1 == <<todo, cur, step, fs, status, argv, pos, used, result>>
Load(v) == phase = "new" /\ applied' = v /\ want' = v /\ phase' = "built" /\ UNCHANGED <<def, cell>>
Declare == phase = "new" /\ phase' = "built" /\ UNCHANGED <<def, applied, cell, want>>
InitFlag ==
    /\ phase = "built" /\ phase' = "flags"
    /\ IF Pinned THEN cell' = def /\ applied' = applied            \* flag default = DefaultValue, profile kept
       ELSE cell' = Value /\ applied' = None                        \* flag starts at the current value and replaces the profile
    /\ UNCHANGED <<def, want>>
GiveFlag(v) == phase = "flags" /\ cell' = v /\ want' = v /\ phase' = "parsed" /\ UNCHANGED <<def, applied>>
NoFlag == phase = "flags" /\ phase' = "parsed" /\ UNCHANGED <<def, applied, cell, want>>
Edit(v) == phase = "parsed" /\ applied' = v /\ want' = v /\ phase' = "edited" /\ UNCHANGED <<def, cell>>
Next1 == which = 1 /\ UNCHANGED <<which, V1>>
         /\ (Declare \/ InitFlag \/ NoFlag \/ \E v \in Vals : Load(v) \/ GiveFlag(v) \/ Edit(v))
ValueLaw == which = 1 /\ phase \in {"parsed", "edited"} => Value = want

(* ---------------- 2: generate ------------------------------------------------- *)
Prods == 1..NProd
V2 == <<def, applied, cell, want, phase, argv, pos, used, result>>
\* fs: producer -> "none" | "empty" | "full"
Pick == status = "run" /\ cur = 0 /\ todo # {} /\ \E p \in todo : cur' = p /\ step' = "create" /\ UNCHANGED <<todo, fs, status>>
PinnedStep ==
    /\ status = "run" /\ cur # 0
    /\ CASE step = "create" -> fs' = [fs EXCEPT ![cur] = "empty"] /\ step' = "eval" /\ UNCHANGED <<todo, cur, status>>
         [] step = "eval" -> IF cur \in Bad THEN status' = "failed" /\ UNCHANGED <<todo, cur, step, fs>>
                             ELSE step' = "write" /\ UNCHANGED <<todo, cur, fs, status>>
         [] OTHER -> fs' = [fs EXCEPT ![cur] = "full"] /\ todo' = todo \ {cur} /\ cur' = 0 /\ step' = "" /\ status' = status
\* repaired: everything is evaluated before the first file is touched
EvalAll == status = "eval" /\ status' = (IF Bad \cap Prods # {} THEN "failed" ELSE "run") /\ UNCHANGED <<todo, cur, step, fs>>
RepairedStep ==
    /\ status = "run" /\ cur # 0
    /\ CASE step = "create" -> fs' = [fs EXCEPT ![cur] = "empty"] /\ step' = "write" /\ UNCHANGED <<todo, cur, status>>
         [] OTHER -> fs' = [fs EXCEPT ![cur] = "full"] /\ todo' = todo \ {cur} /\ cur' = 0 /\ step' = "" /\ status' = status
Finish == status = "run" /\ cur = 0 /\ todo = {} /\ status' = "done" /\ UNCHANGED <<todo, cur, step, fs>>
Next2 == which = 2 /\ UNCHANGED <<which, V2>>
         /\ (Pick \/ Finish \/ (IF Pinned THEN PinnedStep ELSE (EvalAll \/ RepairedStep)))
Atomic == which = 2 /\ status = "failed" => \A p \in Prods : fs[p] = "none"
Complete == which = 2 /\ status = "done" => \A p \in Prods : fs[p] = "full"

(* ---------------- 3: flags and left-over words ---------------------------------- *)
Toks == {"f", "w"}                          \* a flag with its value / a word that is not a flag
V3 == <<def, applied, cell, want, phase, todo, cur, step, fs, status>>
Consume ==
    /\ result = "parsing" /\ pos <= Len(argv)
    /\ IF argv[pos] = "f" THEN used' = used \cup {pos} /\ pos' = pos + 1 /\ result' = result
       ELSE /\ used' = used /\ pos' = pos                      \* parsing stops at the first word
            /\ result' = IF Pinned THEN "ok" ELSE "error"      \* nobody looked at what was left / left-over words are an error
    /\ argv' = argv
EndOfArgs == result = "parsing" /\ pos > Len(argv) /\ result' = "ok" /\ UNCHANGED <<argv, pos, used>>
Next3 == which = 3 /\ UNCHANGED <<which, V3>> /\ (Consume \/ EndOfArgs)
NothingDropped == which = 3 /\ result = "ok" => \A i \in DOMAIN argv : argv[i] = "f" => i \in used

(* ------------------------------------------------------------------------------- *)
Init ==
    /\ which \in {1, 2, 3}
    /\ def = 1 /\ applied = None /\ cell = None /\ want = 1 /\ phase = "new"
    /\ todo = Prods /\ cur = 0 /\ step = "" /\ fs = [p \in Prods |-> "none"] /\ status = (IF Pinned THEN "run" ELSE "eval")
    /\ argv \in UNION {[1..n -> Toks] : n \in 0..3} /\ pos = 1 /\ used = {} /\ result = "parsing"
Next == Next1 \/ Next2 \/ Next3
Spec == Init /\ [][Next]_vars
=============================================================================
