------------------------------ MODULE StlFormat ------------------------------
(***************************************************************************)
(* Binary STL as a record file, and the contract of polyform's             *)
(* stl.WriteMesh / stl.ReadMesh (property C07).                            *)
(*                                                                         *)
(* FILE = Hdr(80 bytes) . Count(uint32 LE) . Count x Rec(50 bytes)         *)
(* Rec  = normal(3 x float32) v1 v2 v3 (3 x 3 x float32) attr(uint16), LE  *)
(*                                                                         *)
(* A file as the independent parser (harness/objstl/stl_rec.go) logs it:   *)
(*   [nbytes, count, rem, recs]   count = the uint32 at offset 80 (clamped *)
(*   to 2^30), recs = the (nbytes-84) \div 50 records actually present,    *)
(*   rem = bytes left over after them.  A record is [n, nz, v, a]:         *)
(*     v  : three corners, each three scalars (lattice units or float32    *)
(*          bit patterns - only ever compared, see num.go)                 *)
(*     n  : the normal, each component ROUNDED to units of 1/S (S = 4096)  *)
(*     nz : all three components of the normal are exactly zero            *)
(*     a  : attribute word                                                 *)
(* Meshes are [idx, pos, nrm]: 0-based indices, attribute arrays; nrm =    *)
(* <<>> when the mesh has no Normal attribute.  A SOURCE mesh has position *)
(* scalars as <<lo,hi>> float32 neighbours and normals as exact integers   *)
(* in units of 1/Qn; an OBSERVED mesh has plain position scalars and       *)
(* normals rounded to 1/S.                                                 *)
(*                                                                         *)
(* "Facet normal equal to the normalised mean of the corner normals":      *)
(* with D the SUM of the three corner normals (exact integers), an         *)
(* observed normal N (units 1/S, each component off by at most 1/2 from    *)
(* rounding plus float32 error) has direction D and length 1 iff           *)
(*    |N x D|_k <= |D_i| + |D_j|   for the three components,  N.D > 0,     *)
(*    | |N|^2 - S^2 | <= 2 S                                               *)
(* (angular band about 1/S = 2.4e-4 rad, length band 5e-4).  The same test *)
(* with D = (p2-p1) x (p3-p1) is "equal to the geometric normal"; it needs *)
(* positions on the lattice.                                               *)
(*                                                                         *)
(* int32 budget: |N_i| <= 2S = 8192; |D_j| <= 8 P^2 with lattice positions *)
(* |p| <= P = 100  (80 000); N.D <= 3 * 8192 * 80 000 = 1.97e9 < 2^31.     *)
(***************************************************************************)
EXTENDS Integers, Sequences, FiniteSets, TLC

S == 4096
P == 100

(* ------------------------------- layout -------------------------------- *)
HdrSize == 80
CountSize == 4
RecFields == <<4, 4, 4, 4, 4, 4, 4, 4, 4, 4, 4, 4, 2>>      \* 12 float32 + uint16
RECURSIVE SumSeq(_)
SumSeq(s) == IF s = <<>> THEN 0 ELSE s[1] + SumSeq(Tail(s))
RecSize == SumSeq(RecFields)
FileSize(n) == HdrSize + CountSize + RecSize * n
RecOffset(i) == HdrSize + CountSize + RecSize * (i - 1)      \* 1-based record number

SizeLaw(f, n) == f.nbytes = 84 + 50 * n /\ f.count = n /\ f.rem = 0 /\ Len(f.recs) = n
\* the same law on a file logged without its records ("sz" lines: [nbytes, count, rem, nrecs], for
\* triangle counts too large to judge record by record; 84 + 50 n stays below 2^31 for n < 4e7)
SizeLawN(f, n) == f.nbytes = 84 + 50 * n /\ f.count = n /\ f.rem = 0 /\ f.nrecs = n

(* ------------------------------- vectors ------------------------------- *)
Abs(x) == IF x < 0 THEN 0 - x ELSE x
Sub(a, b) == <<a[1] - b[1], a[2] - b[2], a[3] - b[3]>>
Add3(a, b, c) == <<a[1] + b[1] + c[1], a[2] + b[2] + c[2], a[3] + b[3] + c[3]>>
Cross(a, b) == <<a[2] * b[3] - a[3] * b[2], a[3] * b[1] - a[1] * b[3], a[1] * b[2] - a[2] * b[1]>>
Dot(a, b) == a[1] * b[1] + a[2] * b[2] + a[3] * b[3]
Zero3 == <<0, 0, 0>>

NInBudget(n) == \A i \in 1..3 : Abs(n[i]) <= 2 * S
PInBudget(p) == \A i \in 1..3 : Abs(p[i]) <= P

\* observed normal n (units 1/S) is the unit vector in direction d (exact integers, d # 0)
UnitAlong(n, d) ==
    /\ NInBudget(n)
    /\ LET c == Cross(n, d) IN
         /\ Abs(c[1]) <= Abs(d[2]) + Abs(d[3])
         /\ Abs(c[2]) <= Abs(d[3]) + Abs(d[1])
         /\ Abs(c[3]) <= Abs(d[1]) + Abs(d[2])
    /\ Dot(n, d) > 0
    /\ Abs(Dot(n, n) - S * S) <= 2 * S

\* (p2-p1) x (p3-p1) for lattice corners (plain integers within the budget)
Geometric(v) == Cross(Sub(v[2], v[1]), Sub(v[3], v[1]))
GeoOk(v) == \A c \in 1..3 : PInBudget(v[c])

(* ------------------------------- meshes -------------------------------- *)
NTris(m) == Len(m.idx) \div 3
MeshOk(m) ==
    /\ Len(m.idx) % 3 = 0
    /\ \A i \in DOMAIN m.idx : m.idx[i] >= 0 /\ m.idx[i] < Len(m.pos)
    /\ m.nrm = <<>> \/ Len(m.nrm) = Len(m.pos)
Corner(m, t, c) == m.idx[3 * (t - 1) + c] + 1                 \* 1-based vertex of corner c of triangle t
TriPos(m, t) == [c \in 1..3 |-> m.pos[Corner(m, t, c)]]
TriNrm(m, t) == [c \in 1..3 |-> m.nrm[Corner(m, t, c)]]

ScalarOk(s, o) == o = s[1] \/ o = s[2]                         \* float32 neighbours of the source value
VecOk(sv, ov) == \A i \in 1..3 : ScalarOk(sv[i], ov[i])
TriPosOk(sp, op) == \A c \in 1..3 : VecOk(sp[c], op[c])
Lo(sp) == [c \in 1..3 |-> [i \in 1..3 |-> sp[c][i][1]]]       \* a lattice source corner triple as plain integers

(***************************************************************************)
(* Contract of stl.WriteMesh (src mesh -> file f), and of reading f back   *)
(* (rd).  lat: positions are on the lattice (geometry can be evaluated).   *)
(***************************************************************************)
\* direction the facet normal of source triangle t must have; Zero3 = no demand can be evaluated
WantDir(src, t, lat) ==
    IF src.nrm # <<>> THEN LET n == TriNrm(src, t) IN Add3(n[1], n[2], n[3])
    ELSE IF lat /\ GeoOk(Lo(TriPos(src, t))) THEN Geometric(Lo(TriPos(src, t)))
    ELSE Zero3

RecPositionsOk(src, f) == \A t \in 1..NTris(src) : TriPosOk(TriPos(src, t), f.recs[t].v)

RecNormalOk(src, f, lat) ==
    \A t \in 1..NTris(src) :
        LET d == WantDir(src, t, lat)
            r == f.recs[t] IN
        IF src.nrm # <<>> THEN d = Zero3 \/ (~r.nz /\ UnitAlong(r.n, d))
        ELSE r.nz \/ d = Zero3 \/ UnitAlong(r.n, d)              \* none stored: zero, or the geometric normal

RtPositionsOk(src, rd) == \A t \in 1..NTris(src) : TriPosOk(TriPos(src, t), TriPos(rd, t))

RtNormalOk(src, rd, lat) ==
    IF rd.nrm = <<>> THEN src.nrm = <<>> \/ NTris(src) = 0       \* implicit geometric normal only if none were stored
    ELSE \A t \in 1..NTris(src) :
            LET d == WantDir(src, t, lat) IN
            d = Zero3 \/ \A c \in 1..3 : UnitAlong(TriNrm(rd, t)[c], d)

(***************************************************************************)
(* Contract of stl.ReadMesh on a well-formed file (gen: the records asked  *)
(* for, exact lattice integers: v over Q, n over Qn; f: the file as        *)
(* parsed), and of writing the result again (f2).                          *)
(***************************************************************************)
RdPositionsOk(f, rd) == \A t \in 1..Len(f.recs) : TriPos(rd, t) = f.recs[t].v

GenGeo(gen, t, lat) == IF lat /\ GeoOk(gen[t].v) THEN Geometric(gen[t].v) ELSE Zero3

RdNormalOk(gen, f, rd, lat) ==
    IF \A t \in DOMAIN f.recs : f.recs[t].nz
    THEN rd.nrm = <<>> \/ \A t \in DOMAIN f.recs :
                              LET d == GenGeo(gen, t, lat) IN d = Zero3 \/ \A c \in 1..3 : UnitAlong(TriNrm(rd, t)[c], d)
    ELSE /\ rd.nrm # <<>>
         /\ \A t \in DOMAIN f.recs :
              IF ~f.recs[t].nz THEN \A c \in 1..3 : TriNrm(rd, t)[c] = f.recs[t].n      \* the stored normal, as is
              ELSE LET d == GenGeo(gen, t, lat) IN d = Zero3 \/ \A c \in 1..3 : UnitAlong(TriNrm(rd, t)[c], d)

RwPositionsOk(f, f2) == \A t \in 1..Len(f.recs) : f2.recs[t].v = f.recs[t].v

\* a stored normal comes back as the unit vector of the same direction (itself, when it was one);
\* a zero normal stays zero or becomes the geometric normal
RwNormalOk(gen, f, f2, lat) ==
    \A t \in 1..Len(f.recs) :
        IF f.recs[t].nz THEN f2.recs[t].nz \/ LET d == GenGeo(gen, t, lat) IN d = Zero3 \/ UnitAlong(f2.recs[t].n, d)
        ELSE ~f2.recs[t].nz /\ UnitAlong(f2.recs[t].n, gen[t].n)

RwAttrOk(gen, f2) == \A t \in 1..Len(gen) : gen[t].a = 0 => f2.recs[t].a = 0

(***************************************************************************)
(* Record level API (stl.Read / stl.Write, "sb" lines).  Nothing stands    *)
(* between the file and the records here, so "reproduces the triangle      *)
(* records" is exact: what Read returns (bin, projected like a file's      *)
(* records, normals as float32 bit patterns) IS the record list of the     *)
(* file, attribute words included, and writing it again gives a file with  *)
(* the same records.                                                       *)
(***************************************************************************)
BinRecordsOk(f, bin) == bin = f.recs
BinRewriteOk(f, f2) == f2.recs = f.recs
=============================================================================
