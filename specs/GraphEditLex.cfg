CONSTANTS Depth = 1 MaxNodes = 6 SaveOrder = "lex"
CONSTANT Prelude <- PreludeTwelve
SPECIFICATION Spec
INVARIANTS RoundTrip
CHECK_DEADLOCK FALSE
