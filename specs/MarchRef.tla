------------------------------ MODULE MarchRef ------------------------------
(***************************************************************************)
(* Reference marching cubes on a sparse sample lattice (C09 (b)).          *)
(*                                                                         *)
(* A lattice field is given by                                             *)
(*   samples : sequence of <<x, y, z, v>>  lattice point and value         *)
(*   dflt    : value of every other lattice point (positive)               *)
(*   cut     : the threshold                                               *)
(* Values and threshold are DOUBLED reals (v in {-4,-2,2,4} stands for     *)
(* -2,-1,1,2; cut in {0,-1} for 0,-0.5) so that everything is an integer.  *)
(* A point is inside iff its value < cut (canvas.go: corner < cutoff).     *)
(*                                                                         *)
(* Ref yields the set of triangles marching cubes must produce: for every  *)
(* cell with an inside corner, the rows of the code's own case table       *)
(* (MarchTableData), a vertex on cube edge (A,B) at                        *)
(*        A + t (B - A),  t = (cut - vA) / (vB - vA)                       *)
(* (interpolateVerts).  Positions are in units of 1/24 cell: vB - vA is in *)
(* {4,6,8} up to sign, so 24 t is an integer.  Triangles are normalised by *)
(* cyclic rotation (smallest corner first) - vertex numbering and triangle *)
(* order of the real mesh are free.                                        *)
(*                                                                         *)
(* int32 budget: |lattice coordinate| <= 680 so that 24 * coordinate stays *)
(* within Surface!CoordMax.                                                *)
(***************************************************************************)
EXTENDS Integers, Sequences, FiniteSets, SequencesExt, MarchCube, Surface

U == 24       \* position units per cell

PtOf(s) == <<s[1], s[2], s[3]>>
SamplePts(samples) == {PtOf(samples[i]) : i \in DOMAIN samples}
InsidePts(samples, cut) == {PtOf(samples[i]) : i \in {j \in DOMAIN samples : samples[j][4] < cut}}

Bits == {0, 1}
\* cells (named by their minimal corner) that have at least one inside corner
Cells(inside) == {<<p[1] - dx, p[2] - dy, p[3] - dz>> : p \in inside, dx \in Bits, dy \in Bits, dz \in Bits}

Corner(q, c) == VAdd(q, CP(c))
CaseOf(inside, q) ==
    LET b(c) == IF Corner(q, c) \in inside THEN Pow2(c) ELSE 0
    IN b(0) + b(1) + b(2) + b(3) + b(4) + b(5) + b(6) + b(7)

LexLeq(p, q) ==
    \/ p[1] < q[1]
    \/ p[1] = q[1] /\ (p[2] < q[2] \/ (p[2] = q[2] /\ p[3] <= q[3]))
Canon(t) ==
    IF LexLeq(t[1], t[2]) /\ LexLeq(t[1], t[3]) THEN t
    ELSE IF LexLeq(t[2], t[1]) /\ LexLeq(t[2], t[3]) THEN <<t[2], t[3], t[1]>>
    ELSE <<t[3], t[1], t[2]>>
CanonSet(G) == {Canon(G[i]) : i \in DOMAIN G}

Ref(samples, dflt, cut) ==
    LET s4 == {samples[i] : i \in DOMAIN samples}       \* membership = binary search
        inside == InsidePts(samples, cut)
        val(p) == IF <<p[1], p[2], p[3], -4>> \in s4 THEN -4
                  ELSE IF <<p[1], p[2], p[3], -2>> \in s4 THEN -2
                  ELSE IF <<p[1], p[2], p[3], 2>> \in s4 THEN 2
                  ELSE IF <<p[1], p[2], p[3], 4>> \in s4 THEN 4
                  ELSE dflt
        cellTris(q) ==
            LET cv == <<val(Corner(q, 0)), val(Corner(q, 1)), val(Corner(q, 2)), val(Corner(q, 3)),
                       val(Corner(q, 4)), val(Corner(q, 5)), val(Corner(q, 6)), val(Corner(q, 7))>>
                b(c) == IF cv[c + 1] < cut THEN Pow2(c) ELSE 0
                kk == b(0) + b(1) + b(2) + b(3) + b(4) + b(5) + b(6) + b(7)
                vert(e) ==
                    LET a == Corner(q, EA(e))
                        va == cv[EA(e) + 1]
                        vb == cv[EB(e) + 1]
                        \* 24 t; exact by the value alphabet (checked by FieldOK).  With a
                        \* broken table an edge may join two corners of equal value: the
                        \* operator stays total (MarchTable reports the row).
                        t24 == IF vb = va THEN 0 ELSE (U * (cut - va)) \div (vb - va)
                    IN VAdd(VScale(U, a), VScale(t24, VSub(CP(EB(e)), CP(EA(e)))))
                tt == TrisT[kk]
            IN {Canon(<<vert(tt[i][1]), vert(tt[i][2]), vert(tt[i][3])>>) : i \in DOMAIN tt}
    IN UNION {cellTris(q) : q \in Cells(inside)}

\* the alphabet assumption that makes 24 t integral, no ties, positive default, budget
FieldOK(samples, dflt, cut) ==
    /\ dflt \in {2, 4} /\ cut \in {0, -1}
    /\ \A i \in DOMAIN samples :
          /\ samples[i][4] \in {-4, -2, 2, 4}
          /\ \A j \in 1..3 : samples[i][j] >= -680 /\ samples[i][j] <= 680
    /\ Cardinality(SamplePts(samples)) = Len(samples)

(***************************************************************************)
(* "Within one cell of the isosurface" on a lattice field: a vertex lies   *)
(* on a lattice edge whose end points are on different sides of the        *)
(* threshold (any continuous interpolant of the samples crosses the        *)
(* threshold on that edge, at most one cell away).                         *)
(***************************************************************************)
FloorU(x) == (x \div U) * U
OnCrossingEdge(inside, p) ==
    LET off == {j \in 1..3 : p[j] % U # 0}
    IN /\ Cardinality(off) = 1
       /\ LET j == CHOOSE i \in off : TRUE
              a == <<FloorU(p[1]) \div U, FloorU(p[2]) \div U, FloorU(p[3]) \div U>>
              b == <<a[1] + (IF j = 1 THEN 1 ELSE 0), a[2] + (IF j = 2 THEN 1 ELSE 0),
                     a[3] + (IF j = 3 THEN 1 ELSE 0)>>
          IN (a \in inside) # (b \in inside)
=============================================================================
