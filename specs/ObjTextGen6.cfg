CONSTANTS
  Depth = 6
  MinFaces = 1
SPECIFICATION Spec
INVARIANTS ValidText ResaveDesign Emit RiskyEmit
CHECK_DEADLOCK FALSE
