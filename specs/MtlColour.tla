----------------------------- MODULE MtlColour ------------------------------
(***************************************************************************)
(* Design check of the colour path of a material library on the            *)
(* specification itself: EVERY 16-bit channel value s is written with      *)
(* three decimals (MtlImpl!Round3) and stored again with eight bits.       *)
(*   Bands        the repaired model stays inside the bands of MtlFormat   *)
(*                (ChanW, ChanR, ChanRt): the contract is satisfiable      *)
(*   Exact8       an 8-bit colour comes back exactly (repaired reader)     *)
(*   Stable       saving what was loaded and loading it again changes      *)
(*                nothing (repaired reader)                                *)
(*   PinnedExact8 the same for the pinned reader (255 * channel truncated) *)
(*                - VIOLATED: TLC's counterexample is the design bug       *)
(*                (151 -> "0.592" -> 150; every save/load cycle darkens    *)
(*                the colour further), confirmed on the real code by the   *)
(*                mw / sv cases                                            *)
(* 65 536 initial states, no transitions.                                  *)
(***************************************************************************)
EXTENDS MtlImpl

VARIABLE s
Init == s \in 0..Full
Next == UNCHANGED s
Spec == Init /\ [][Next]_s

W == Round3(s)
Bands == /\ ChanW(s, W)
         /\ ChanR(W, 257 * Near8(W))
         /\ ChanRt(s, 257 * Near8(W))
Exact8 == s % 257 = 0 => Near8(W) = s \div 257
Stable == LET o == 257 * Near8(W) IN Near8(Round3(o)) = Near8(W)
PinnedExact8 == s % 257 = 0 => Trunc8(W) = s \div 257
=============================================================================
