\* one more byte / object / player: the length field wraps, Faithful must FAIL (RoundTrip still holds: it only speaks about InDomain)
CONSTANTS MaxLen = 256 Crowd = 256 Mid = {1, 2}
SPECIFICATION Spec
INVARIANTS RoundTrip Faithful
CHECK_DEADLOCK FALSE
