------------------------------ MODULE TraceObj ------------------------------
(***************************************************************************)
(* Trace validation for the OBJ family (property C05).  One line per case; *)
(* the harness (harness/objstl) only executed real polyform code and       *)
(* projected what it saw; every judgement is made here by TLC evaluating   *)
(* the operators of ObjFormat.                                             *)
(*                                                                         *)
(* {"k":"wr", "src":[mesh..], "werr":"", "stmts":[..], "rerr":"",          *)
(*  "rd":[mesh..]}                                                         *)
(*     src   the real source meshes, projected through public observers    *)
(*           (scalars as <<lo,hi>> float32 neighbours)                     *)
(*     werr  "" or what obj.WriteMeshes/WriteMesh returned / panicked with *)
(*     stmts the written text, tokenised by the independent tokeniser      *)
(*     rerr, rd  obj.ReadMesh of the written text, projected               *)
(*   C05.WriteOk      the writer returned a file                           *)
(*   C05.WriteValid   the format machine accepts it (every index in range  *)
(*                    of ITS OWN pool ...)                                 *)
(*   C05.WrGroups / WrEmptyGroup / WrCorners / WrMaterials                 *)
(*                    Denote(stmts) is the source list                     *)
(*   C05.ReadOk       the reader returned meshes for the written file      *)
(*   C05.RtGroups / RtEmptyGroup / RtCorners / RtMaterials                 *)
(*                    the read-back meshes are the source list             *)
(*                                                                         *)
(* {"k":"ld", "gen":[..], "stmts":[..], "rerr":"", "rd":[mesh..],          *)
(*  "werr":"", "stmts2":[..]}                                              *)
(*     gen    the abstract statements TLC (or the seeded recorder) chose   *)
(*     stmts  the rendered text, tokenised again (what the file IS)        *)
(*     rd     obj.ReadMesh of the text; stmts2 obj.WriteMeshes(rd) tokens  *)
(*   Harness.Render / Harness.ValidInput  the input is the valid text that *)
(*                    was asked for (else infrastructure failure)          *)
(*   C05.LoadOk       the reader returned meshes                           *)
(*   C05.LoadFacesLost / LoadFacesInvented   bag of faces (corner          *)
(*                    positions) of the loaded meshes vs Denote(stmts)     *)
(*   C05.SaveOk, C05.SaveValid, C05.SaveFacesLost / SaveFacesInvented      *)
(*                    the saved text is valid and has the same bag of faces*)
(*                                                                         *)
(* Each rejected line prints {"l":..,"bad":[..],"why":[..]}.  ex counts,   *)
(* per predicate, the lines on which it was evaluated with its antecedent  *)
(* true (anti-vacuity); it is printed with the last line.                  *)
(***************************************************************************)
EXTENDS ObjFormat, Json

Trace == ndJsonDeserialize("trace.ndjson")

VARIABLES l, ex
vars == <<l, ex>>

P(s) == {"C05." \o x : x \in s}

WrJudge(ln) ==
    LET named == NamedMats(ln.src)
        src == SrcGroups(ln.src) IN
    IF ln.werr # "" THEN [bad |-> {"C05.WriteOk"}, why |-> {ln.werr}, ex |-> {"C05.WriteOk"}]
    ELSE LET den == Denote(ln.stmts)
             w == IF ~den.ok THEN [bad |-> {"C05.WriteValid"}, why |-> {den.why}, ex |-> {"C05.WriteValid"}]
                  ELSE [bad |-> P({"Wr" \o x : x \in GroupsBad(src, DenGroups(den), named)}), why |-> {},
                        ex |-> {"C05.WriteValid", "C05.WrGroups"}
                               \cup (IF \E i \in DOMAIN src : src[i].tris # <<>> THEN {"C05.WrCorners"} ELSE {})
                               \cup (IF named # {} THEN {"C05.WrMaterials"} ELSE {})
                               \cup (IF \E i \in DOMAIN src : src[i].tris = <<>> /\ src[i].name # "" THEN {"C05.WrEmptyGroup"} ELSE {})]
             r == IF ln.rerr # "" THEN [bad |-> {"C05.ReadOk"}, why |-> {ln.rerr}, ex |-> {"C05.ReadOk"}]
                  ELSE [bad |-> P({"Rt" \o x : x \in GroupsBad(src, ReadGroups(ln.rd), named)}), why |-> {},
                        ex |-> {"C05.ReadOk", "C05.RtGroups"}
                               \cup (IF \E i \in DOMAIN src : src[i].tris # <<>> THEN {"C05.RtCorners"} ELSE {})
                               \cup (IF named # {} THEN {"C05.RtMaterials"} ELSE {})
                               \cup (IF \E i \in DOMAIN src : src[i].tris = <<>> /\ src[i].name # "" THEN {"C05.RtEmptyGroup"} ELSE {})]
         IN [bad |-> w.bad \cup r.bad, why |-> w.why \cup r.why, ex |-> {"C05.WriteOk"} \cup w.ex \cup r.ex]

\* faces (corner positions) of the meshes the reader returned: only the index buffer and the
\* position array are needed (other attributes of different length show up when saving)
FacesOk(m) == Len(m.idx) % 3 = 0 /\ \A i \in DOMAIN m.idx : m.idx[i] >= 0 /\ m.idx[i] < Len(m.pos)
LoadedFaces(rd) ==
    Flat([i \in DOMAIN rd |->
            IF FacesOk(rd[i]) THEN [t \in 1..NTris(rd[i]) |-> [c \in 1..3 |-> rd[i].pos[rd[i].idx[3 * (t - 1) + c] + 1]]]
            ELSE <<>>])

FacesFull(groups) == Flat([g \in DOMAIN groups |-> groups[g].tris])
LoadedFull(rd) == Flat([i \in DOMAIN rd |-> Tris(rd[i])])
Bad2(name, ok) == IF ok THEN {} ELSE {name}
\* face list b keeps face list a: same length, same positions, and whatever uv / normal a corner of a has
Keeps(a, b) ==
    /\ Len(a) = Len(b)
    /\ \A k \in DOMAIN a : \A c \in 1..3 :
          /\ b[k][c][1] = a[k][c][1]
          /\ a[k][c][2] = <<>> \/ b[k][c][2] = a[k][c][2]
          /\ a[k][c][3] = <<>> \/ b[k][c][3] = a[k][c][3]

LdJudge(ln) ==
    LET d0 == Denote(ln.stmts)
        f0 == FacesPos(d0.groups)
        \* the saved text is denoted once (d2 is only looked at when there is a saved text)
        d2 == Denote(ln.stmts2)
        saved == ln.werr = "" /\ d2.ok IN
    IF ln.stmts # ln.gen THEN [bad |-> {"Harness.Render"}, why |-> {}, ex |-> {}]
    ELSE IF ~d0.ok THEN [bad |-> {"Harness.ValidInput"}, why |-> {d0.why}, ex |-> {}]
    ELSE IF ln.rerr # "" THEN [bad |-> {"C05.LoadOk"}, why |-> {ln.rerr}, ex |-> {"C05.LoadOk"}]
    ELSE LET f1 == LoadedFaces(ln.rd)
             ld == (IF Surplus(f0, f1) # {} THEN {"C05.LoadFacesLost"} ELSE {})
                   \cup (IF Surplus(f1, f0) # {} THEN {"C05.LoadFacesInvented"} ELSE {})
             sv == IF ln.werr # "" THEN [bad |-> {"C05.SaveOk"}, why |-> {ln.werr}]
                   ELSE IF ~d2.ok THEN [bad |-> {"C05.SaveValid"}, why |-> {d2.why}]
                   ELSE LET f2 == FacesPos(d2.groups) IN
                        [bad |-> (IF Surplus(f0, f2) # {} THEN {"C05.SaveFacesLost"} ELSE {})
                                 \cup (IF Surplus(f2, f0) # {} THEN {"C05.SaveFacesInvented"} ELSE {}),
                         why |-> {}]
             \* beyond the statement (reported as Aux.*, never a C05 verdict): faces stay in file order and
             \* every uv / normal a corner HAS in the text is kept by the load and by the save
             aux == (IF \A i \in DOMAIN ln.rd : MeshOk(ln.rd[i])
                     THEN Bad2("Aux.LoadCorners", Keeps(FacesFull(d0.groups), LoadedFull(ln.rd)))
                     ELSE {"Aux.LoadCorners"})
                    \cup (IF saved
                          THEN Bad2("Aux.SaveCorners", Keeps(FacesFull(d0.groups), FacesFull(d2.groups)))
                          ELSE {})
         IN [bad |-> ld \cup sv.bad \cup aux, why |-> sv.why,
             ex |-> IF f0 = <<>> THEN {"C05.LoadOk", "C05.SaveOk"}
                    ELSE {"C05.LoadOk", "C05.LoadFacesLost", "C05.LoadFacesInvented", "C05.SaveOk"}
                         \cup (IF ln.werr = "" THEN {"C05.SaveValid"} ELSE {})
                         \cup (IF saved THEN {"C05.SaveFacesLost", "C05.SaveFacesInvented"} ELSE {})]

Judge(ln) == IF ln.k = "wr" THEN WrJudge(ln) ELSE LdJudge(ln)

\* strict-OBJ reading: faces of a written file that inherit a material from an earlier group
\* (reported in the evidence, not judged: polyform's convention is group local)
LeakCount(ln) == IF ln.k = "wr" /\ ln.werr = "" /\ Denote(ln.stmts).ok THEN Leaks(Denote(ln.stmts)) ELSE 0

Bump(cnt, names) == [p \in (DOMAIN cnt) \cup names |->
                        (IF p \in DOMAIN cnt THEN cnt[p] ELSE 0) + (IF p \in names THEN 1 ELSE 0)]

Init == l = 1 /\ ex = [p \in {"lines"} |-> 0]

\* j, lk and ex1 are bound by \E over singleton sets: TLC evaluates the set once and binds the VALUE
\* (a LET definition is re-evaluated at every mention inside an action, which multiplied the judge's
\* work on long lines)
Line ==
    /\ l <= Len(Trace)
    /\ \E j \in {Judge(Trace[l])} : \E lk \in {LeakCount(Trace[l])} :
       \E ex1 \in {Bump(Bump(ex, j.ex), {"lines"} \cup (IF lk > 0 THEN {"strictLeak"} ELSE {}))} :
       /\ IF j.bad = {} THEN TRUE ELSE PrintT(ToJson([l |-> l, bad |-> j.bad, why |-> j.why]))
       /\ IF l = Len(Trace) THEN PrintT(ToJson([ex |-> ex1])) ELSE TRUE
       /\ ex' = ex1
    /\ l' = l + 1

Next == Line
Spec == Init /\ [][Next]_vars

TraceAccepted == TLCGet("stats").diameter - 1 = Len(Trace)
=============================================================================
