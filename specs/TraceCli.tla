------------------------------ MODULE TraceCli ------------------------------
(***************************************************************************)
(* X08 - trace validation of the command line of a polyform application    *)
(* against CliApp.                                                         *)
(*                                                                         *)
(* Lines (harness/clifam/exec.go):                                         *)
(*   {"k":"reset", P: the program, fs: the sandbox after the fixture}      *)
(*   {"k":"inv", inv: invocation of CliApp, argv, res: ok | err | exit |   *)
(*    panic | timeout, code: exit status, fs: the whole sandbox afterwards *)
(*    (path, kind, permission bits, projected content), oa: what went to   *)
(*    App.Out, os: what went to the process's stdout, pid}                 *)
(*                                                                         *)
(* Predicates (bad = names of the violated ones):                          *)
(*   X08.NoPanic     no panic / fatal error ends the command               *)
(*   X08.Hang        the command returns                                   *)
(*   X08.Accepts     an invocation of class ok succeeds                    *)
(*   X08.Rejects     an invocation of class reject / uneval fails (error   *)
(*                   returned or non-zero exit status)                     *)
(*   X08.ErrorFrame  an invocation that is not accepted leaves the whole   *)
(*                   sandbox as it was: nothing partial                    *)
(*   X08.Files       an accepted command wrote every file of its plan: a   *)
(*                   regular file its owner can read and write, content =  *)
(*                   the artifact BY VALUE under the flag-given values /   *)
(*                   the archive's entries / the document                  *)
(*   X08.Dirs        every folder needed exists; a new one is usable       *)
(*                   (owner may read, write, enter), an old one untouched  *)
(*   X08.Frame       nothing else appeared, changed or disappeared         *)
(*   X08.Output      what went to App.Out is the command's document        *)
(*                   (archive, outline, mermaid, swagger, help, new) -     *)
(*                   nothing when the command writes to files              *)
(*   X08.NewRoundTrip  the same for a command run on a document written by *)
(*                   `new`: the header given to `new` is the application's *)
(*   X08.OutStream   nothing went to the process's stdout behind App.Out   *)
(*   X08.Repeatable  the same read-only invocation on the same program     *)
(*                   prints the same document again (sorted lines)         *)
(*   X08.HttpSame    the editor's GET /zip delivers the same entries for   *)
(*                   the same parameter values                             *)
(*   Route.Mismatch  the line is not an invocation of the model (binding   *)
(*                   guard; infrastructure, not a verdict)                 *)
(* After each line the model re-synchronises on the observed sandbox.      *)
(***************************************************************************)
EXTENDS CliApp

Trace == ndJsonDeserialize("trace.ndjson")
VARIABLES l, P, gfull, pfs, seen
tvars == <<l, P, gfull, pfs, seen>>

ProgEmpty == [steps |-> <<>>, def |-> <<>>, cur |-> <<>>, flag |-> <<>>, pn |-> <<>>, hdr |-> NoHdr]

Ents(fs) == SeqSet(fs)
ShapeOf(fs) == [dirs |-> {e.p : e \in {x \in Ents(fs) : x.k = "d"}}, files |-> {e.p : e \in {x \in Ents(fs) : x.k # "d"}}]
Has(fs, p) == \E e \in Ents(fs) : e.p = p
At(fs, p) == CHOOSE e \in Ents(fs) : e.p = p
Same(a, b) == a.k = b.k /\ a.m = b.m /\ a.d.n = b.d.n /\ a.d.dg = b.d.dg
DirUsable(m) == (m \div 64) % 8 = 7
FileUsable(m) == (m \div 128) % 4 = 3

Bump(f, k) == IF k \in DOMAIN f THEN [f EXCEPT ![k] = @ + 1] ELSE (k :> 1) @@ f

\* the tokens are the model's: path arguments are those of the tables
TokOK(t) ==
    CASE t.k = "flag" /\ t.n = "folder" /\ t.form # "bare" /\ t.n \notin SeqSet(P.flag) -> t.vi \in DOMAIN Folders /\ t.v = Folders[t.vi].arg
      [] t.k = "flag" /\ t.n = "out" /\ t.form # "bare" /\ t.n \notin SeqSet(P.flag) -> t.vi \in DOMAIN OutFiles /\ t.v = OutFiles[t.vi].arg
      [] OTHER -> TRUE
DocArgs == {OutFiles[k].arg : k \in DOMAIN OutFiles}
InvOK(inv) ==
    /\ \A i \in DOMAIN inv.toks : TokOK(inv.toks[i])
    /\ inv.gf \in {"none", "graph", "missing", "dir", "garbage", "newdoc"}
    /\ inv.gf = "none" <=> inv.gfa = ""
    /\ inv.gf \in DOMAIN GraphArgs => inv.gfa = GraphArgs[inv.gf]
    /\ inv.gf = "newdoc" => inv.gfa \in DocArgs
DocPath(inv) == Join(OutFiles[CHOOSE k \in DOMAIN OutFiles : OutFiles[k].arg = inv.gfa].norm)

TInit == TLCSet(1, <<>>) /\ l = 1 /\ P = ProgEmpty /\ gfull = HE!Empty /\ pfs = <<>> /\ seen = <<>>

TReset ==
    /\ l <= Len(Trace) /\ Trace[l].k = "reset"
    /\ P' = Trace[l].P /\ gfull' = Graph(Trace[l].P) /\ pfs' = Trace[l].fs /\ seen' = <<>> /\ l' = l + 1
    /\ LET want == {<<Fixture[i].p, IF Fixture[i].k = "d" THEN "d" ELSE "f">> : i \in DOMAIN Fixture}
           got == {<<e.p, e.k>> : e \in Ents(Trace[l].fs)}
       IN IF want = got THEN TRUE
          ELSE PrintT(ToJson([l |-> l, bad |-> {"Route.Mismatch"}, class |-> "reset", why |-> "fixture", cmd |-> "", mg |-> ""]))

\* the editor's API on the saved program with parameter values posted: the archive's entries
HttpEntries(inv) ==
    LET full == gfull
        saved == [full EXCEPT !.val = [n \in full.ids |-> IF P.cur[n + 1] >= 0 THEN P.cur[n + 1] ELSE P.def[n + 1]]]
        posted == {<<CHOOSE n \in full.ids : HE!NodeName(n) = inv.toks[i].n, inv.toks[i].vi>> : i \in DOMAIN inv.toks}
        grE == [saved EXCEPT !.val = [n \in full.ids |-> IF \E q \in posted : q[1] = n
                                                          THEN (CHOOSE q \in posted : q[1] = n)[2] ELSE saved.val[n]]]
    IN [ok |-> Evaluable(grE), ents |-> Entries(P, grE)]

TInv ==
    /\ l <= Len(Trace) /\ Trace[l].k = "inv"
    /\ LET ln == Trace[l]
           inv == ln.inv
           F0 == ShapeOf(pfs)
           isHttp == inv.cmd = "@http"
           routed == InvOK(inv)
           dh == IF routed /\ inv.gf = "newdoc" /\ Has(pfs, DocPath(inv)) THEN DocHdr(At(pfs, DocPath(inv)).d) ELSE NoHdr
           pl == IF isHttp \/ ~routed THEN [class |-> "http", why |-> "http", files |-> {}, dirs |-> {}, out |-> "none"]
                 ELSE PlanG(P, gfull, F0, inv, dh)
           cls == pl.class
           c == IF isHttp THEN "http" ELSE Canon(inv.cmd)
           failed == ln.res = "err" \/ (ln.res = "exit" /\ ln.code # 0)
           done == ln.res = "ok"
           wpaths == {f.p : f \in pl.files}
           newdirs == {p \in pl.dirs : ~Has(pfs, p)}
           unchanged(p) == Has(pfs, p) /\ Has(ln.fs, p) /\ Same(At(pfs, p), At(ln.fs, p))
           frameAll == (\A e \in Ents(ln.fs) : unchanged(e.p)) /\ (\A e \in Ents(pfs) : Has(ln.fs, e.p))
           gr0def == [n \in pl.grE.ids |-> P.def[n + 1]]
           content(f, d) == IF f.kind = "text" THEN d.tx /\ d.t = f.text ELSE DocOK(f.kind, P, gr0def, pl, d)
           filesOK == \A f \in pl.files :
                         /\ Has(ln.fs, f.p) /\ At(ln.fs, f.p).k = "f" /\ FileUsable(At(ln.fs, f.p).m)
                         /\ content(f, At(ln.fs, f.p).d)
           dirsOK == \A p \in pl.dirs : /\ Has(ln.fs, p) /\ At(ln.fs, p).k = "d"
                                        /\ IF Has(pfs, p) THEN unchanged(p) ELSE DirUsable(At(ln.fs, p).m)
           frameOK == /\ \A e \in Ents(ln.fs) : e.p \notin wpaths \cup newdirs => unchanged(e.p)
                      /\ \A e \in Ents(pfs) : Has(ln.fs, e.p)
           \* read-only commands whose text does not depend on how node ids were handed out
           stable == cls = "ok" /\ done /\ c \in {"outline", "mermaid", "swagger", "help"} /\ pl.files = {}
                     /\ (inv.gf # "none" \/ Cardinality(pl.grE.prod) <= 1)
           key == [mode |-> inv.mode, gf |-> inv.gf, gfa |-> inv.gfa, cmd |-> inv.cmd, toks |-> inv.toks]
           he == HttpEntries(inv)
           bad ==
              (IF ~routed \/ cls = "unmodelled" THEN {"Route.Mismatch"} ELSE {})
              \cup (IF ln.res = "panic" THEN {"X08.NoPanic"} ELSE {})
              \cup (IF ln.res = "timeout" THEN {"X08.Hang"} ELSE {})
              \cup (IF ln.os.kind # "empty" THEN {"X08.OutStream"} ELSE {})
              \cup (IF cls = "ok" /\ (failed \/ ln.res = "exit") THEN {"X08.Accepts"} ELSE {})
              \cup (IF cls \in {"reject", "uneval"} /\ (done \/ (ln.res = "exit" /\ ln.code = 0)) THEN {"X08.Rejects"} ELSE {})
              \cup (IF cls \in {"reject", "uneval", "helpflag"} /\ ~frameAll THEN {"X08.ErrorFrame"} ELSE {})
              \cup (IF cls = "clash" /\ ~done /\ ~frameAll THEN {"X08.ErrorFrame"} ELSE {})
              \cup (IF cls = "ok" /\ done /\ ~filesOK THEN {"X08.Files"} ELSE {})
              \cup (IF cls = "ok" /\ done /\ ~dirsOK THEN {"X08.Dirs"} ELSE {})
              \cup (IF cls = "ok" /\ done /\ ~frameOK THEN {"X08.Frame"} ELSE {})
              \cup (IF cls = "ok" /\ done /\ ~DocOK(pl.out, P, gr0def, pl, ln.oa)
                    THEN {IF inv.gf = "newdoc" THEN "X08.NewRoundTrip" ELSE "X08.Output"} ELSE {})
              \cup (IF stable /\ key \in DOMAIN seen /\ seen[key] # ln.oa.dgs THEN {"X08.Repeatable"} ELSE {})
              \cup (IF isHttp /\ routed /\ he.ok /\ ~(done /\ ZipOK(he.ents, ln.oa)) THEN {"X08.HttpSame"} ELSE {})
              \cup (IF isHttp /\ ~frameAll THEN {"X08.Frame"} ELSE {})
       IN /\ IF bad = {} THEN TRUE
             ELSE PrintT(ToJson([l |-> l, bad |-> bad, class |-> cls, why |-> pl.why, cmd |-> c, mg |-> inv.mode \o "-" \o inv.gf]))
          /\ TLCSet(1, Bump(TLCGet(1), cls \o "/" \o c \o "/" \o pl.why))
          \* (vacuity counter of Repeatable: keys starting with "@" are not invocation classes)
          /\ IF stable /\ key \in DOMAIN seen THEN TLCSet(1, Bump(TLCGet(1), "@repeated/" \o c)) ELSE TRUE
          /\ seen' = IF stable /\ key \notin DOMAIN seen THEN (key :> ln.oa.dgs) @@ seen ELSE seen
          /\ pfs' = ln.fs
    /\ P' = P /\ gfull' = gfull /\ l' = l + 1

TNext == TReset \/ TInv
TSpec == TInit /\ [][TNext]_tvars
TraceAccepted == PrintT(ToJson([stat |-> TLCGet(1)])) /\ TLCGet("stats").diameter - 1 = Len(Trace)
=============================================================================
