CONSTANTS
  Reader = "items"
  AllShapes = TRUE
SPECIFICATION Spec
INVARIANTS ReaderDesign Distinct ValidText Emit
CHECK_DEADLOCK FALSE
