\* shape "a job covering a complete block overwrites it": refuted (ContentOK) by a second field on the same canvas
CONSTANTS
  S = 4
  NegBlocks = 1
  Hi = 9
  MaxFields = 2
  SkipEmpty = FALSE
  CopyFull = TRUE
SPECIFICATION Spec
INVARIANTS ContentOK RegOK MarchOK
CHECK_DEADLOCK FALSE
