--------------------------- MODULE TraceSyncMap ---------------------------
(***************************************************************************)
(* X01 - judge of sequential histories executed on the real NestedSyncMap  *)
(* / SyncMap (harness/syncfam/seq.go).  trace.ndjson, one line per step:   *)
(*  {"k":"reset"|"step","h","i","nk","step":{op,p,val:{v,sub},h},          *)
(*   "res":{st,v,sub},            what the call answered (PANIC = panic)   *)
(*   "tree":[{p,v}..],            the map's tree after the step (Data())   *)
(*   "hs":[{h,live,t}..],         every map a client was handed and keeps  *)
(*   "flat":[{p,v}..],            the SyncMap                              *)
(*   "probe":[{p,e,g}..]}         PathExists / Get on every short path     *)
(* Every judgement is an operator of SyncTree evaluated by TLC; after each *)
(* line the model re-synchronises on the observation.  A rejected line is  *)
(* printed as {"l","bad" (the operation),"pbad" (the sweep),"exp"}.        *)
(* Predicates:                                                             *)
(*  X01.Result        answer of set/get/del/data/over (incl. who panics)   *)
(*  X01.Tree          observable tree after the step                       *)
(*  X01.PanicAtomic   a panicking call left the tree unchanged             *)
(*  X01.PathExistsExact / Guard / Total   PathExists = "designates an      *)
(*                    entry"; TRUE implies Get does not panic; no panic    *)
(*  X01.GetSweep      Get on every short path agrees with the tree         *)
(*  X01.Snapshot      a value handed out earlier is not changed by a later *)
(*                    operation on the map                                 *)
(*  X01.Isolated      a client writing into a value it was handed changes  *)
(*                    neither the map nor another handed-out value         *)
(*  X01.Flat          SyncMap Get/Set                                      *)
(*  X01.Init          a new map is empty                                   *)
(***************************************************************************)
EXTENDS SyncTree, Json

Trace == ndJsonDeserialize("trace.ndjson")

VARIABLES l, t, hd, flat, judged
vars == <<l, t, hd, flat, judged>>

Init == l = 1 /\ t = {} /\ hd = <<>> /\ flat = {} /\ judged = <<>>

Bump(f, k) == IF k \in DOMAIN f THEN [f EXCEPT ![k] = @ + 1] ELSE [x \in DOMAIN f \cup {k} |-> IF x = k THEN 1 ELSE f[x]]
RECURSIVE BumpAll(_, _)
BumpAll(f, ks) == IF ks = {} THEN f ELSE LET k == CHOOSE x \in ks : TRUE IN BumpAll(Bump(f, k), ks \ {k})
Summary(j) == IF l = Len(Trace) THEN PrintT(ToJson([judged |-> j])) ELSE TRUE

Hs(ln) == [i \in DOMAIN ln.hs |-> [live |-> ln.hs[i].live, t |-> Range(ln.hs[i].t)]]
ResOf(r) == [st |-> r.st, v |-> r.v, sub |-> Range(r.sub)]
OpOf(s) == [op |-> s.op, p |-> s.p, val |-> [v |-> s.val.v, sub |-> Range(s.val.sub)], h |-> s.h]

\* observers agree with the observed tree
ProbeBad(ln, obsT) ==
    UNION {LET pr == ln.probe[i] IN
             (IF pr.e = -1 THEN {"X01.PathExistsTotal"} ELSE {})
        \cup (IF pr.e # -1 /\ (pr.e = 1) # Has(obsT, pr.p) THEN {"X01.PathExistsExact"} ELSE {})
        \cup (IF pr.e = 1 /\ pr.g.st # "ok" THEN {"X01.PathExistsGuard"} ELSE {})
        \cup (IF ResOf(pr.g) # GetRes(obsT, pr.p) THEN {"X01.GetSweep"} ELSE {})
          : i \in DOMAIN ln.probe}
ProbeTags(ln, obsT) ==
    {"probe"} \cup (IF \E i \in DOMAIN ln.probe : ln.probe[i].e = 1 THEN {"probe:exists"} ELSE {})
    \cup (IF \E i \in DOMAIN ln.probe : ~Has(obsT, ln.probe[i].p) /\ LookupOk(obsT, ln.probe[i].p) /\ Len(ln.probe[i].p) > 1 THEN {"probe:absent-leaf"} ELSE {})
    \cup (IF \E i \in DOMAIN ln.probe : ~LookupOk(obsT, ln.probe[i].p) THEN {"probe:get-panics"} ELSE {})
    \cup (IF \E i \in DOMAIN ln.probe : Has(obsT, ln.probe[i].p) /\ Val(obsT, ln.probe[i].p) = MAP THEN {"probe:get-map"} ELSE {})

Reset ==
    /\ l <= Len(Trace) /\ Trace[l].k = "reset"
    /\ LET ln == Trace[l]
           obsT == Range(ln.tree)
           bad == (IF obsT # {} \/ Range(ln.flat) # {} \/ \E i \in DOMAIN ln.hs : ln.hs[i].live THEN {"X01.Init"} ELSE {})
           pbad == ProbeBad(ln, obsT)
       IN /\ IF bad = {} /\ pbad = {} THEN TRUE
             ELSE PrintT(ToJson([l |-> l, bad |-> bad, pbad |-> pbad, exp |-> [res |-> Ok(0, {}), tree |-> {}]]))
          /\ t' = obsT /\ hd' = Hs(ln) /\ flat' = Range(ln.flat)
          /\ judged' = judged /\ Summary(judged)
    /\ l' = l + 1

TreeOps == {"set", "del", "get", "exists", "data", "over"}

Step1 ==
    /\ l <= Len(Trace) /\ Trace[l].k = "step"
    /\ LET ln == Trace[l]
           o == OpOf(ln.step)
           res == ResOf(ln.res)
           obsT == Range(ln.tree)
           obsH == Hs(ln)
           obsF == Range(ln.flat)
           isTree == o.op \in TreeOps
           r == IF isTree THEN Step(t, o) ELSE [t |-> t, res |-> Ok(0, {})]
           dest == IF o.op \in {"get", "data"} /\ res.st = "ok" /\ res.v = MAP THEN o.h ELSE 0
           hpre == o.op \in {"hset", "hdel"} /\ res.st = "ok" /\ o.h \in DOMAIN hd /\ hd[o.h].live /\ LookupOk(hd[o.h].t, o.p)
           othersSame == \A h \in DOMAIN hd : h \in DOMAIN obsH /\ (h # dest /\ ~(hpre /\ h = o.h) => obsH[h] = hd[h])
           badTree ==
               IF ~isTree THEN {} ELSE
                  (IF o.op = "exists" /\ res # r.res THEN {"X01.PathExistsExact"} ELSE {})
             \cup (IF o.op = "exists" /\ res.v = 1 /\ ~LookupOk(t, o.p) THEN {"X01.PathExistsGuard"} ELSE {})
             \cup (IF o.op = "exists" /\ res.st # "ok" THEN {"X01.PathExistsTotal"} ELSE {})
             \cup (IF o.op # "exists" /\ res # r.res THEN {"X01.Result"} ELSE {})
             \cup (IF res.st = "PANIC" /\ obsT # t THEN {"X01.PanicAtomic"} ELSE {})
             \cup (IF obsT # r.t /\ ~(res.st = "PANIC" /\ obsT # t) THEN {"X01.Tree"} ELSE {})
             \cup (IF ~othersSame THEN {"X01.Snapshot"} ELSE {})
             \cup (IF dest # 0 /\ dest \in DOMAIN obsH /\ obsH[dest] # [live |-> TRUE, t |-> res.sub] THEN {"Harness.Handle"} ELSE {})
           badH ==
               IF ~hpre THEN {} ELSE
                  (IF obsT # t \/ ~othersSame THEN {"X01.Isolated"} ELSE {})
             \cup (IF obsH[o.h].t # (IF o.op = "hset" THEN SetT(hd[o.h].t, o.p, o.val) ELSE DelT(hd[o.h].t, o.p))
                   THEN {"Harness.HandleWrite"} ELSE {})
           badF ==
               IF o.op \notin {"fset", "fget"} THEN {} ELSE
                  (IF o.op = "fget" /\ (res.st # "ok" \/ res.v # FlatGet(flat, o.p[1])) THEN {"X01.Flat"} ELSE {})
             \cup (IF o.op = "fget" /\ obsF # flat THEN {"X01.Flat"} ELSE {})
             \cup (IF o.op = "fset" /\ (res.st # "ok" \/ obsF # FlatSet(flat, o.p[1], o.val.v)) THEN {"X01.Flat"} ELSE {})
             \cup (IF obsT # t \/ ~othersSame THEN {"X01.Isolated"} ELSE {})
           badWF == IF WF(obsT) THEN {} ELSE {"X01.WellFormed"}
           bad == badTree \cup badH \cup badF \cup badWF
           pbad == ProbeBad(ln, obsT)
           liveOthers == \E h \in DOMAIN hd : hd[h].live /\ h # dest
           tags == {o.op} \cup ProbeTags(ln, obsT)
                   \cup (IF isTree /\ r.res.st = "PANIC" THEN {"panic:" \o o.op} ELSE {})
                   \cup (IF o.op = "exists" /\ r.res.v = 1 THEN {"exists:true"} ELSE {})
                   \cup (IF o.op = "exists" /\ r.res.v = 0 /\ LookupOk(t, o.p) THEN {"exists:false-last-absent"} ELSE {})
                   \cup (IF o.op \in {"set", "del", "over"} /\ liveOthers /\ r.t # t THEN {"snapshot:map-changed-under-live-handle"} ELSE {})
                   \cup (IF hpre THEN {"isolated:client-write-judged"} ELSE {})
                   \cup (IF o.op = "set" /\ r.res.st = "ok" /\ \E q \in ProperPrefixes(o.p) : ~Has(t, q) THEN {"set:creates-parents"} ELSE {})
                   \cup (IF o.op = "set" /\ r.res.st = "ok" /\ IsMapAt(t, o.p) /\ Sub(t, o.p) # {} THEN {"set:replaces-subtree"} ELSE {})
                   \cup (IF o.op = "del" /\ r.res.st = "ok" /\ IsMapAt(t, o.p) /\ Sub(t, o.p) # {} THEN {"del:subtree"} ELSE {})
                   \cup (IF o.op = "del" /\ r.res.st = "ok" /\ ~Has(t, o.p) THEN {"del:absent"} ELSE {})
       IN /\ IF bad = {} /\ pbad = {} THEN TRUE
             ELSE PrintT(ToJson([l |-> l, bad |-> bad, pbad |-> pbad, exp |-> [res |-> r.res, tree |-> r.t]]))
          /\ t' = obsT /\ hd' = obsH /\ flat' = obsF
          /\ LET j2 == BumpAll(judged, tags) IN judged' = j2 /\ Summary(j2)
    /\ l' = l + 1

Next == Reset \/ Step1
Spec == Init /\ [][Next]_vars

TraceAccepted == TLCGet("stats").diameter - 1 = Len(Trace)
=============================================================================
