CONSTANTS
  Design = "once"
  Versions = {1, 2}
  Degrees = {0, 1, 2, 3}
  Grans = {32768, 4096, 509, 7}
  SmallCounts = {0, 1, 2, 3, 50}
SPECIFICATION Spec
INVARIANTS Whole
CHECK_DEADLOCK FALSE
