------------------------------ MODULE PlySeries ------------------------------
(***************************************************************************)
(* SERIES cases of the PLY family (C04, C08): files whose content is a     *)
(* FUNCTION OF THE RECORD INDEX, so that sizes far beyond what a trace can *)
(* spell out cell by cell stay judgeable: the harness builds the input     *)
(* from the law (and logs a probe of it), the judge recomputes the law.    *)
(*                                                                         *)
(* Dimensions (all chosen here, the harness only executes):                *)
(*   via    "write" real writer -> bytes -> real reader   (C04)            *)
(*          "ref"   reference encoder -> bytes -> real reader (C08)        *)
(*   n      record count from a SIZE LADDER around and beyond powers of    *)
(*          two (block sizes of readers: 255 256 257 .. 4095 4096 4097     *)
(*          8191 8193 12289 ..)                                            *)
(*   lay    attribute layout: every component is a law of the index        *)
(*          (Position identifies the record: i = y * 2048 + x; every       *)
(*          8-bit channel runs through all 256 byte values)                *)
(*   faces  none (point cloud) | nf faces (triangles, optionally every     *)
(*          third a quad) with count type ct and index type lt             *)
(*   fmt    ascii | binary_little_endian | binary_big_endian               *)
(*   dlv    DELIVERY: how the io.Reader hands the bytes over.  The         *)
(*          io.Reader contract allows a Read to return any 1..len(p) of    *)
(*          the bytes that remain (see PlyDeliver.tla for the design-level *)
(*          model): full | chunk k | refill R (never across a multiple of  *)
(*          R: a buffered source) | bufio R (a real bufio.Reader) |        *)
(*          eofdata (the last bytes arrive together with io.EOF) | file    *)
(*          (entry point ply.Load: os.File under bufio)                     *)
(*   mode   "lat" values on the lattice 1/D | "bits" binary64 patterns as  *)
(*          four 16-bit chunks: 8-bit channels are judged BIT-EXACTLY      *)
(*          against the correctly rounded quotient b/255 (UnitBits)        *)
(*                                                                         *)
(* Law of the family: the decoded mesh is a function of the FILE only -    *)
(* not of its size, not of the delivery, not of the entry point - and that *)
(* function is PlyFormat!Denote; for series files it has the closed form   *)
(* below (ExpectAttrs / ExpectIdx).                                        *)
(***************************************************************************)
EXTENDS PlyFormat, Json

D0 == 16320

(***************************************************************************)
(* Content laws: integer raw value of component law f at record i (0-based)*)
(***************************************************************************)
Raw(i, f) ==
    CASE f = 1 -> i % 2048
      [] f = 2 -> i \div 2048
      [] f = 3 -> (i * 7) % 1024
      [] f = 4 -> i % 256
      [] f = 5 -> (i \div 256) % 256
      [] f = 6 -> (i * 31 + 7) % 256
      [] f = 7 -> (i * 5 + 3) % 256
      [] f = 8 -> i
      [] OTHER -> 0
ByteLaws == {4, 5, 6, 7}          \* laws with values in 0..255 (the only ones an 8-bit column may take)

\* layouts: sequences of attributes [a, names, t, laws]; vias that may use it
A(a, names, t, laws) == [a |-> a, names |-> names, t |-> t, laws |-> laws]
LayoutTable == <<
  (* 1 *) << A("Position", <<"x", "y", "z">>, "float", <<1, 2, 3>>), A("Color", <<"red", "green", "blue">>, "uchar", <<4, 5, 6>>) >>,
  (* 2 *) << A("Position", <<"x", "y", "z">>, "double", <<1, 2, 3>>), A("Normal", <<"nx", "ny", "nz">>, "float", <<3, 1, 2>>),
             A("Color", <<"red", "green", "blue", "alpha">>, "uint8", <<6, 4, 5, 7>>) >>,
  (* 3 *) << A("Position", <<"x", "y", "z">>, "float32", <<1, 2, 3>>), A("Opacity", <<"opacity">>, "uchar", <<6>>),
             A("cls", <<"cls">>, "int", <<8>>) >>,
  (* 4 *) << A("Position", <<"x", "y", "z">>, "float", <<1, 2, 3>>), A("Normal", <<"nx", "ny", "nz">>, "float", <<2, 3, 1>>),
             A("Color", <<"red", "green", "blue">>, "uchar", <<7, 6, 4>>), A("Opacity", <<"opacity">>, "float", <<3>>) >>,
  (* 5 *) << A("Color", <<"r", "g", "b">>, "uchar", <<4, 7, 6>>), A("Position", <<"px", "py", "pz">>, "int", <<1, 2, 3>>),
             A("TexCoord", <<"s", "t">>, "uchar", <<5, 6>>) >>
>>
WriteLayouts == {1, 4}            \* what ply.Write stores exactly like this (Position/Normal/Opacity float, Color uchar)
RefLayouts == {1, 2, 3, 5}

Columns(lay) == FlattenSeq([k \in DOMAIN lay |-> [j \in DOMAIN lay[k].names |-> [n |-> lay[k].names[j], t |-> lay[k].t]]])

\* design-level: the layout's attribute structure is what PlyFormat!Denote recognises in its header
HeaderOf(lay) == [vprops |-> Columns(lay)]
LayoutDenotes(lay) ==
    LET f == HeaderOf(lay) IN
    /\ ~Ambiguous(f) /\ ~MixedGroup(f)
    /\ \A k \in DOMAIN lay :
          \/ \E g \in FormedGroups(f) : g.a = lay[k].a /\ GNames(f, g) = lay[k].names
          \/ Len(lay[k].names) = 1 /\ lay[k].names[1] \in PropNames(f) \ Claimed(f) /\ lay[k].a = lay[k].names[1]
    /\ Cardinality(FormedGroups(f)) + Cardinality(PropNames(f) \ Claimed(f)) = Len(lay)
    /\ \A k \in DOMAIN lay : Canon(lay[k].t) = "uchar" => \A j \in DOMAIN lay[k].laws : lay[k].laws[j] \in ByteLaws

(***************************************************************************)
(* Faces of a series: face j (0-based) over n vertices                     *)
(***************************************************************************)
IsQuad(fc, j) == fc.quads /\ j % 3 = 2
FaceVerts(fc, n, j) ==
    IF IsQuad(fc, j) THEN <<j % n, (j + 1) % n, (j + 2) % n, (j + 3) % n>> ELSE <<j % n, (j + 1) % n, (j + 2) % n>>
\* position (0-based) of face j's first corner in the triangle index list
FaceOff(fc, j) == 3 * j + (IF fc.quads THEN 3 * (j \div 3) ELSE 0)
ExpectTopo(fc) == IF fc.on THEN "triangle" ELSE "point"
ExpectIdxLen(fc, n) == IF fc.on THEN FaceOff(fc, fc.nf) ELSE n
IdxOK(idx, fc, n) ==
    /\ Len(idx) = ExpectIdxLen(fc, n)
    /\ IF fc.on
       THEN \A j \in 0..(fc.nf - 1) :
               LET F == Fan(FaceVerts(fc, n, j)) IN \A c \in DOMAIN F : idx[FaceOff(fc, j) + c] = F[c]
       ELSE \A i \in 1..n : idx[i] = i - 1

(***************************************************************************)
(* Exact values                                                            *)
(***************************************************************************)
Pow2(k) == 2 ^ k
\* binary64 pattern (chunks c3 c2 c1 c0) of a natural number below 2^20
RECURSIVE Log2(_)
Log2(x) == IF x < 2 THEN 0 ELSE 1 + Log2(x \div 2)
IntBits(x) ==
    IF x = 0 THEN <<0, 0, 0, 0>>
    ELSE LET p == Log2(x)
             top20 == (x - Pow2(p)) * Pow2(20 - p)
         IN <<(1023 + p) * 16 + top20 \div 65536, top20 % 65536, 0, 0>>

\* binary64 pattern of the CORRECTLY ROUNDED quotient b/255 (round to nearest, ties impossible: 255 is odd),
\* by long division in base 2^16: b/255 = 2^-p * 1.f with the smallest p >= 1 such that b * 2^p >= 255
UnitBits(b) ==
    IF b = 0 THEN <<0, 0, 0, 0>>
    ELSE IF b = 255 THEN <<16368, 0, 0, 0>>
    ELSE LET p == CHOOSE q \in 1..8 : b * Pow2(q) >= 255 /\ b * Pow2(q - 1) < 255
             r0 == b * Pow2(p) - 255
             d1 == (r0 * 65536) \div 255   r1 == (r0 * 65536) % 255
             d2 == (r1 * 65536) \div 255   r2 == (r1 * 65536) % 255
             d3 == (r2 * 65536) \div 255   r3 == (r2 * 65536) % 255
             d4 == (r3 * 32) \div 255                                 \* 5 more bits: 4 of the fraction + the rounding bit
             inc == d4 % 2                                             \* the remainder never vanishes: above half iff the bit is set
             c0 == (d3 % 4096) * 16 + d4 \div 2 + inc
             c1 == (d2 % 4096) * 16 + d3 \div 4096 + c0 \div 65536
             c2 == (d1 % 4096) * 16 + d2 \div 4096 + c1 \div 65536
             c3 == (1023 - p) * 16 + d1 \div 4096 + c2 \div 65536
         IN <<c3, c2 % 65536, c1 % 65536, c0 % 65536>>

\* evaluated once by TLC (constant definitions are cached)
UnitTable == [b \in 0..255 |-> UnitBits(b)]
IntTable == [x \in 0..2047 |-> IntBits(x)]
IntBitsT(x) == IF x \in 0..2047 THEN IntTable[x] ELSE IntBits(x)

\* what a cell of canonical type ct with raw value v denotes, in the projection of the case's mode
ExpectCell(ct, v, mode) ==
    IF mode = "bits" THEN (IF ct = "uchar" THEN (IF v \in 0..255 THEN UnitTable[v] ELSE <<>>) ELSE IntBitsT(v))
    ELSE (IF ct = "uchar" THEN v * (D0 \div 255) ELSE v * D0)
\* the VARIANT of the known deviation: a single 8-bit scalar left raw by the ascii reader
RawCell(v, mode) == IF mode = "bits" THEN IntBitsT(v) ELSE v * D0

(***************************************************************************)
(* The observed mesh pm = [topo, idx, attrs (sequence of [n, ar, data]),   *)
(* exact] against the series s.  Nothing of pm is dereferenced before its  *)
(* shape was checked.                                                      *)
(***************************************************************************)
SerShapeOK(at, ar, n) ==
    /\ at.ar = ar /\ Len(at.data) = n
    /\ \A i \in 1..n : Len(at.data[i]) = ar
AttrIs(at, la, n, mode, raw) ==
    /\ SerShapeOK(at, Len(la.names), n)
    /\ \A i \in 1..n : \A k \in 1..Len(la.names) :
          at.data[i][k] = (IF raw THEN RawCell(Raw(i - 1, la.laws[k]), mode)
                           ELSE ExpectCell(Canon(la.t), Raw(i - 1, la.laws[k]), mode))
Found(pm, la) == {j \in DOMAIN pm.attrs : pm.attrs[j].n = la.a}
AttrOK(pm, la, n, mode) ==
    /\ Cardinality(Found(pm, la)) = 1
    /\ AttrIs(pm.attrs[CHOOSE j \in Found(pm, la) : TRUE], la, n, mode, FALSE)
AttrRaw(pm, la, n, mode) ==
    /\ Len(la.names) = 1 /\ Canon(la.t) = "uchar"
    /\ Cardinality(Found(pm, la)) = 1
    /\ AttrIs(pm.attrs[CHOOSE j \in Found(pm, la) : TRUE], la, n, mode, TRUE)
\* first record (0-based) at which attribute la differs, -1 when the attribute's shape is already wrong
FirstBad(pm, la, n, mode) ==
    IF Cardinality(Found(pm, la)) # 1 THEN -1
    ELSE LET at == pm.attrs[CHOOSE j \in Found(pm, la) : TRUE] IN
         IF ~SerShapeOK(at, Len(la.names), n) THEN -1
         ELSE LET badset == {i \in 1..n : \E k \in 1..Len(la.names) :
                                at.data[i][k] # ExpectCell(Canon(la.t), Raw(i - 1, la.laws[k]), mode)}
              IN IF badset = {} THEN -1 ELSE (CHOOSE i \in badset : \A j \in badset : i <= j) - 1

Extra(pm, lay) == {pm.attrs[j].n : j \in DOMAIN pm.attrs} \ {lay[k].a : k \in DOMAIN lay}

=============================================================================
