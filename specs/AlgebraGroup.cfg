CONSTANTS
  Depth = 4
SPECIFICATION Spec
INVARIANTS TypeOK Rotation GroupLaws WordOK Emit
VIEW View
CHECK_DEADLOCK FALSE
