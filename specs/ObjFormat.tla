------------------------------ MODULE ObjFormat ------------------------------
(***************************************************************************)
(* Wavefront OBJ (triangulated subset) as a statement machine, its         *)
(* denotation, and the contract of polyform's obj.WriteMeshes/ReadMesh     *)
(* (property C05).                                                         *)
(*                                                                         *)
(* A FILE is a sequence of STATEMENTS, each the record [t, x, c, s]:       *)
(*   t = "v"      x = <<x,y,z>>            geometric vertex                *)
(*   t = "vt"     x = <<u,v>>              texture vertex                  *)
(*   t = "vn"     x = <<x,y,z>>            vertex normal                   *)
(*   t = "g"      s = group name                                           *)
(*   t = "usemtl" s = material name                                        *)
(*   t = "f"      c = <<c1,c2,c3>>, ci = <<v, vt|0, vn|0>>  1-based GLOBAL *)
(*                indices, each into ITS OWN pool; 0 = absent              *)
(*                (v | v/vt | v//vn | v/vt/vn)                             *)
(*   t = "x"      anything a reader must skip (comment, mtllib, o, s)      *)
(*   t = "bad"    a line the tokeniser could not read as any of the above  *)
(*   t = "cut"    the text went on, far beyond what its content accounts   *)
(*                for (several times the statements of the source): the    *)
(*                tokeniser stopped logging; rejected as "oversize"        *)
(* Scalars are opaque integers (lattice units or float32 bit patterns, see *)
(* harness/objstl/num.go): the specification only ever compares them.      *)
(*                                                                         *)
(* MACHINE state                                                           *)
(*   vs, vts, vns : the three pools so far (append only)                   *)
(*   done, cur    : closed groups and the open group; a group is           *)
(*                  [name, named, tris, mats]; tris : Seq of 3 resolved    *)
(*                  corners <<pos, uv|<<>>, nrm|<<>>>>; mats : per         *)
(*                  triangle [m, own]                                      *)
(*   mtl, own     : current material (persists across g, as the format     *)
(*                  says) and whether a usemtl was seen since the open     *)
(*                  group began (polyform's writer/reader convention is    *)
(*                  group local: a mesh without material ranges is a       *)
(*                  group without usemtl)                                  *)
(*   err, why     : 0, or the number of the first statement that is not    *)
(*                  valid where it stands (index out of range FOR ITS OWN  *)
(*                  POOL, corners of one face in different syntaxes,       *)
(*                  malformed) - the machine then stays rejected           *)
(*                                                                         *)
(* int32 budget: no arithmetic on scalars; indices < 2^20.                 *)
(***************************************************************************)
EXTENDS Integers, Sequences, FiniteSets, SequencesExt, TLC

Group0(name, named) == [name |-> name, named |-> named, tris |-> <<>>, mats |-> <<>>]

M0 == [vs |-> <<>>, vts |-> <<>>, vns |-> <<>>, done |-> <<>>, cur |-> Group0("", FALSE),
       mtl |-> "", own |-> FALSE, err |-> 0, why |-> "", n |-> 0]

CornerWhy(m, c) ==
    CASE Len(c) # 3 -> "malformed"
      [] c[1] < 1 \/ c[1] > Len(m.vs) -> "v"
      [] c[2] < 0 \/ c[2] > Len(m.vts) -> "vt"
      [] c[3] < 0 \/ c[3] > Len(m.vns) -> "vn"
      [] OTHER -> ""

SameSyntax(cs) ==
    \A i, j \in 1..3 : ((cs[i][2] = 0) = (cs[j][2] = 0)) /\ ((cs[i][3] = 0) = (cs[j][3] = 0))

\* "" when the statement is valid in machine state m, else the reason
StmtWhy(m, st) ==
    CASE st.t = "v" -> IF Len(st.x) = 3 THEN "" ELSE "malformed"
      [] st.t = "vt" -> IF Len(st.x) = 2 THEN "" ELSE "malformed"
      [] st.t = "vn" -> IF Len(st.x) = 3 THEN "" ELSE "malformed"
      [] st.t = "g" -> ""
      [] st.t = "usemtl" -> IF st.s # "" THEN "" ELSE "malformed"
      [] st.t = "f" ->
            IF Len(st.c) # 3 THEN "polygon"
            ELSE LET ws == {CornerWhy(m, st.c[i]) : i \in 1..3} \ {""} IN
                 IF ws # {} THEN CHOOSE w \in ws : TRUE
                 ELSE IF SameSyntax(st.c) THEN "" ELSE "syntax"
      [] st.t = "x" -> ""
      [] st.t = "cut" -> "oversize"
      [] OTHER -> "malformed"

Resolve(m, c) ==
    <<m.vs[c[1]],
      IF c[2] = 0 THEN <<>> ELSE m.vts[c[2]],
      IF c[3] = 0 THEN <<>> ELSE m.vns[c[3]]>>

Visible(g) == g.named \/ g.tris # <<>>

\* one statement = one action of the format machine
Step(m, st) ==
    IF m.err # 0 THEN m
    ELSE LET k == m.n + 1
             w == StmtWhy(m, st) IN
         IF w # "" THEN [m EXCEPT !.err = k, !.why = w, !.n = k]
         ELSE CASE st.t = "v" -> [m EXCEPT !.vs = Append(@, st.x), !.n = k]
                [] st.t = "vt" -> [m EXCEPT !.vts = Append(@, st.x), !.n = k]
                [] st.t = "vn" -> [m EXCEPT !.vns = Append(@, st.x), !.n = k]
                [] st.t = "g" ->
                      [m EXCEPT !.done = IF Visible(m.cur) THEN Append(@, m.cur) ELSE @,
                                !.cur = Group0(st.s, TRUE), !.own = FALSE, !.n = k]
                [] st.t = "usemtl" -> [m EXCEPT !.mtl = st.s, !.own = TRUE, !.n = k]
                [] st.t = "f" ->
                      [m EXCEPT !.cur.tris = Append(@, [i \in 1..3 |-> Resolve(m, st.c[i])]),
                                !.cur.mats = Append(@, [m |-> m.mtl, own |-> m.own]),
                                !.n = k]
                [] OTHER -> [m EXCEPT !.n = k]

Run(stmts) == FoldLeft(Step, M0, stmts)

(***************************************************************************)
(* Denote: what the file SAYS.  groups: every group opened by a g          *)
(* statement (even without faces) and the anonymous leading group when it  *)
(* has faces.                                                              *)
(***************************************************************************)
Denote(stmts) ==
    LET m == Run(stmts) IN
    [ok |-> m.err = 0, at |-> m.err, why |-> m.why,
     groups |-> IF Visible(m.cur) THEN Append(m.done, m.cur) ELSE m.done,
     nv |-> Len(m.vs), nvt |-> Len(m.vts), nvn |-> Len(m.vns)]

Flat(seqs) == FoldLeft(LAMBDA acc, s : acc \o s, <<>>, seqs)

\* all faces of a denotation in file order, positions only
FacesPos(groups) == Flat([g \in DOMAIN groups |-> [t \in DOMAIN groups[g].tris |->
                            [c \in 1..3 |-> groups[g].tris[t][c][1]]]])

Count(seq, x) == Cardinality({i \in DOMAIN seq : seq[i] = x})
\* faces of a that occur more often in a than in b (equal lists have none: the usual case, and
\* linear instead of quadratic for the long lists of the size profiles)
Surplus(a, b) == IF a = b THEN {} ELSE {x \in Range(a) : Count(a, x) > Count(b, x)}

(***************************************************************************)
(* Meshes as the harness projects them through public observers.           *)
(*   [name, idx, pos, uv, nrm, mats]                                       *)
(* idx 0-based; pos/uv/nrm attribute arrays (uv, nrm = <<>> when the mesh  *)
(* has no such attribute); mats = Seq([n, m]) with m the material name,    *)
(* "<nil>" for a nil material; mats = <<>>: no material ranges.            *)
(* In a SOURCE mesh every scalar is a pair <<lo, hi>>: the two float32     *)
(* neighbours of the float64 value (lo = hi when it is representable);     *)
(* "float32 precision" means an observed scalar equals lo or hi.           *)
(***************************************************************************)
NTris(m) == Len(m.idx) \div 3

MeshOk(m) ==
    /\ Len(m.idx) % 3 = 0
    /\ \A i \in DOMAIN m.idx : m.idx[i] >= 0 /\ m.idx[i] < Len(m.pos)
    /\ m.uv = <<>> \/ Len(m.uv) = Len(m.pos)
    /\ m.nrm = <<>> \/ Len(m.nrm) = Len(m.pos)

\* corner view: per triangle, per corner <<pos, uv|<<>>, nrm|<<>>>> (requires MeshOk)
Tris(m) ==
    [t \in 1..NTris(m) |-> [c \in 1..3 |->
        LET v == m.idx[3 * (t - 1) + c] + 1 IN
        <<m.pos[v], IF m.uv = <<>> THEN <<>> ELSE m.uv[v], IF m.nrm = <<>> THEN <<>> ELSE m.nrm[v]>>]]

ExpandMats(mats) == FoldLeft(LAMBDA acc, r : acc \o [i \in 1..r.n |-> r.m], <<>>, mats)
\* material per triangle; "<none>" when the mesh has no ranges; <<>> marks ranges that do not
\* cover the triangles exactly
TriMats(m) ==
    IF m.mats = <<>> THEN [t \in 1..NTris(m) |-> "<none>"]
    ELSE ExpandMats(m.mats)

Unnamed(x) == x \in {"<none>", "<nil>"}

(***************************************************************************)
(* NAMES.  A line of the format is a sequence of ITEMS separated by blanks *)
(* (space, tab); the first item is the keyword.  A name (g, usemtl, newmtl)*)
(* is therefore the sequence of items behind the keyword: every character  *)
(* that is not a blank - letters, digits, punctuation including the        *)
(* number sign, slash, backslash, dot, minus, underscore, quotes, any      *)
(* unicode letter - is an ordinary character of an item, at every position.*)
(* A COMMENT is a line whose FIRST item starts with the number sign; the   *)
(* number sign anywhere else is not special.                               *)
(*   nw / mw   : the items of a source name, projected by the harness      *)
(*               (the name split at blanks; "" has none)                   *)
(*   a group name is written verbatim behind "g", so the file carries its  *)
(*   items and reading it back gives them joined by one blank;             *)
(*   a material goes by ONE item (formats/obj/writer.go materialName: the  *)
(*   items concatenated, "Unnamed" when there is none).                    *)
(* Sources that carry no nw / mw (the design models) are taken as they are.*)
(***************************************************************************)
JoinW(ws, sep) == IF ws = <<>> THEN "" ELSE FoldLeft(LAMBDA acc, w : acc \o sep \o w, ws[1], Tail(ws))
GroupNameRead(nw) == JoinW(nw, " ")
MtlNameWritten(mw) == IF mw = <<>> THEN "Unnamed" ELSE JoinW(mw, "")
SrcName(m) == IF "nw" \in DOMAIN m THEN GroupNameRead(m.nw) ELSE m.name
SrcMtl(r) == IF r.m = "<nil>" \/ "mw" \notin DOMAIN r THEN r.m ELSE MtlNameWritten(r.mw)
SrcTriMats(m) ==
    IF m.mats = <<>> THEN [t \in 1..NTris(m) |-> "<none>"]
    ELSE ExpandMats([j \in DOMAIN m.mats |-> [n |-> m.mats[j].n, m |-> SrcMtl(m.mats[j])]])
NamedMats(srcs) == UNION {{SrcMtl(srcs[i].mats[j]) : j \in DOMAIN srcs[i].mats} : i \in DOMAIN srcs} \ {"<nil>"}

ScalarOk(s, o) == o = s[1] \/ o = s[2]
VecOk(sv, ov) == Len(sv) = Len(ov) /\ \A i \in DOMAIN sv : ScalarOk(sv[i], ov[i])
CornerOk(sc, oc) == \A a \in 1..3 : VecOk(sc[a], oc[a])
TriOk(st, ot) == \A c \in 1..3 : CornerOk(st[c], ot[c])

(***************************************************************************)
(* Contract, sentence 1: groups observed (by reading the file with the     *)
(* real reader, or by Denote) against the source list.  Both sides are     *)
(* first brought to the shape  Seq([name, tris, mats])  where mats is a    *)
(* sequence of [m, own] per triangle.                                      *)
(***************************************************************************)
\* a source triangle material s against an observed [m, own]
MatOk(s, o, named) ==
    IF Unnamed(s) THEN (~o.own) \/ (o.m \notin named) ELSE o.m = s

NonEmpty(gs) == SelectSeq(gs, LAMBDA g : ~g.ok \/ g.tris # <<>>)
Observable(gs) == SelectSeq(gs, LAMBDA g : ~g.ok \/ g.tris # <<>> \/ g.name # "")
Names(gs) == [i \in DOMAIN gs |-> gs[i].name]

\* src, obs : Seq([name, ok, tris, mats]) (ok = FALSE: the observed mesh has no corner view);
\* returns the set of violated predicate suffixes
GroupsBad(src, obs, named) ==
    LET s == NonEmpty(src)
        o == NonEmpty(obs) IN
    IF Names(s) # Names(o) THEN {"Groups"}
    ELSE (IF Names(Observable(src)) # Names(Observable(obs)) THEN {"EmptyGroup"} ELSE {})
         \cup (IF \A i \in DOMAIN s : /\ o[i].ok
                                      /\ Len(s[i].tris) = Len(o[i].tris)
                                      /\ \A t \in DOMAIN s[i].tris : TriOk(s[i].tris[t], o[i].tris[t])
               THEN {} ELSE {"Corners"})
         \cup (IF \A i \in DOMAIN s : /\ o[i].ok
                                      /\ Len(s[i].mats) = Len(o[i].mats)
                                      /\ \A t \in DOMAIN s[i].mats : MatOk(s[i].mats[t], o[i].mats[t], named)
               THEN {} ELSE {"Materials"})

SrcGroups(srcs) == [i \in DOMAIN srcs |-> [name |-> SrcName(srcs[i]), ok |-> TRUE, tris |-> Tris(srcs[i]), mats |-> SrcTriMats(srcs[i])]]

\* meshes returned by the real reader -> observed groups; a mesh that is not well formed has no
\* corner view (ok = FALSE)
ObsMats(m) ==
    LET tm == TriMats(m) IN [t \in DOMAIN tm |-> [m |-> tm[t], own |-> ~Unnamed(tm[t])]]
ReadGroups(rd) ==
    [i \in DOMAIN rd |->
        IF MeshOk(rd[i]) THEN [name |-> rd[i].name, ok |-> TRUE, tris |-> Tris(rd[i]), mats |-> ObsMats(rd[i])]
        ELSE [name |-> rd[i].name, ok |-> FALSE, tris |-> <<>>, mats |-> <<>>]]

DenGroups(den) == [i \in DOMAIN den.groups |->
                     [name |-> den.groups[i].name, ok |-> TRUE, tris |-> den.groups[i].tris, mats |-> den.groups[i].mats]]

\* faces that inherit a material from an earlier group (strict OBJ reading; reported, not judged)
Leaks(den) == Cardinality({<<g, t>> \in UNION {{<<g, t>> : t \in DOMAIN den.groups[g].mats} : g \in DOMAIN den.groups} :
                              ~den.groups[g].mats[t].own /\ den.groups[g].mats[t].m # ""})
=============================================================================
