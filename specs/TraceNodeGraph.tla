--------------------------- MODULE TraceNodeGraph ---------------------------
(***************************************************************************)
(* Trace validation of real nodes.Struct graphs against NodeGraph (C11).   *)
(* Lines (ndjson), obs = [ver, execs] sequences indexed by node - NP:      *)
(*  {"k":"reset","wire":[{n,a,b,arr}..],"obs":..}   fresh graph, params = 1*)
(*  {"k":"set","p":..,"v":..,"obs":..}                                     *)
(*  {"k":"setbad","p":..,"err":..}  a message the parameter must reject    *)
(*        (err: it did): no event, the parameter keeps its value           *)
(*  {"k":"wire","n":..,"port":"A"|"B","s":..,"obs":..}                     *)
(*  {"k":"arradd","n":..,"s":..,"obs":..} {"k":"arrdel","n":..,"kk":..}    *)
(*  {"k":"read","n":..,"val":"<term>","obs":..}                            *)
(* The model follows the OBSERVED set of executed nodes (execs deltas) and *)
(* judges it against the contract:                                         *)
(*   C11.Fresh     read value = Scratch(n)                                 *)
(*   C11.Minimal   every executed node was Dirty (after the step's event)  *)
(*   C11.Once      no node executes twice in one step                      *)
(*   C11.Version   version = executions, for every node, after every step  *)
(***************************************************************************)
EXTENDS NodeGraph

Trace == ndJsonDeserialize("trace.ndjson")

VARIABLES l, execs
tvars == <<vars, l, execs>>

TInit ==
    /\ l = 1
    /\ wire = [n \in Nodes |-> NoWire] /\ pval = [p \in Params |-> 1] /\ pev = [p \in Params |-> p]
    /\ wev = [n \in Nodes |-> n] /\ seen = [n \in Nodes |-> Never] /\ ver = [n \in Nodes |-> 0]
    /\ ev = NP + NN /\ hist = <<>> /\ execs = [n \in Nodes |-> 0]

Line == Trace[l]
Obs(field, n) == Line.obs[field][n - NP]

\* judge and resynchronise: w2/pv2/pe2/we2 are the model's wiring and event ids AFTER this line's event
Consume(w2, pv2, pe2, we2, ev2, extraBad) ==
    LET R == {n \in Nodes : Obs("execs", n) # execs[n]}
        dirtyAfter(n) == seen[n] = Never \/ seen[n] # ConeEvents(w2, pe2, we2, n)
        bad == extraBad
               \cup (IF \E n \in R : ~dirtyAfter(n) THEN {"C11.Minimal"} ELSE {})
               \cup (IF \E n \in Nodes : Obs("execs", n) - execs[n] \notin {0, 1} THEN {"C11.Once"} ELSE {})
               \cup (IF \E n \in Nodes : Obs("ver", n) # Obs("execs", n) THEN {"C11.Version"} ELSE {})
    IN /\ IF bad = {} THEN TRUE
          ELSE PrintT(ToJson([l |-> l, bad |-> bad, executed |-> R,
                              notdirty |-> {n \in R : ~dirtyAfter(n)}]))
       /\ wire' = w2 /\ pval' = pv2 /\ pev' = pe2 /\ wev' = we2 /\ ev' = ev2
       /\ seen' = [n \in Nodes |-> IF n \in R THEN ConeEvents(w2, pe2, we2, n) ELSE seen[n]]
       /\ ver' = [n \in Nodes |-> Obs("ver", n)]
       /\ execs' = [n \in Nodes |-> Obs("execs", n)]
       /\ hist' = hist /\ l' = l + 1

TReset ==
    /\ Line.k = "reset"
    /\ LET w2 == [n \in Nodes |-> LET r == Line.wire[n - NP] IN [a |-> r.a, b |-> r.b, arr |-> r.arr]] IN
       /\ wire' = w2 /\ pval' = [p \in Params |-> 1] /\ pev' = [p \in Params |-> p]
       /\ wev' = [n \in Nodes |-> n] /\ seen' = [n \in Nodes |-> Never]
       /\ ver' = [n \in Nodes |-> Obs("ver", n)] /\ execs' = [n \in Nodes |-> Obs("execs", n)]
       /\ ev' = NP + NN /\ hist' = hist /\ l' = l + 1
       /\ IF \A n \in Nodes : Obs("ver", n) = 0 /\ Obs("execs", n) = 0 THEN TRUE
          ELSE PrintT(ToJson([l |-> l, bad |-> {"Harness.FreshGraph"}]))

TSet ==
    /\ Line.k = "set"
    /\ Consume(wire, [pval EXCEPT ![Line.p] = Line.v], [pev EXCEPT ![Line.p] = ev + 1], wev, ev + 1, {})

TSetBad ==
    /\ Line.k = "setbad"
    /\ Consume(wire, pval, pev, wev, ev, IF Line.err THEN {} ELSE {"Harness.BadAccepted"})

TRewire(w2) == Consume(w2, pval, pev, [wev EXCEPT ![Line.n] = ev + 1], ev + 1,
                       IF Acyclic(w2) THEN {} ELSE {"Harness.Cycle"})
TWire ==
    /\ Line.k = "wire"
    /\ TRewire([wire EXCEPT ![Line.n] = IF Line.port = "A" THEN [@ EXCEPT !.a = Line.s] ELSE [@ EXCEPT !.b = Line.s]])
TArrAdd == Line.k = "arradd" /\ TRewire([wire EXCEPT ![Line.n].arr = Append(@, Line.s)])
TArrDel ==
    /\ Line.k = "arrdel"
    /\ TRewire([wire EXCEPT ![Line.n].arr = SubSeq(@, 1, Line.kk - 1) \o SubSeq(@, Line.kk + 1, Len(@))])

TRead ==
    /\ Line.k = "read"
    /\ Consume(wire, pval, pev, wev, ev,
               IF Line.val = Term(wire, pval, Line.n) THEN {} ELSE {"C11.Fresh"})

TNext == l <= Len(Trace) /\ (TReset \/ TSet \/ TSetBad \/ TWire \/ TArrAdd \/ TArrDel \/ TRead)
TSpec == TInit /\ [][TNext]_tvars
TraceAccepted == TLCGet("stats").diameter - 1 = Len(Trace)
=============================================================================
