---------------------------- MODULE NodeGraphImpl ----------------------------
(***************************************************************************)
(* Implementation-shaped (L2) model of nodes.Struct caching (C11):         *)
(*   depVersions  : versions of the dependencies recorded POSITIONALLY at  *)
(*                  the last execution (updateUsedDependencyVersions)      *)
(*   Outdated()   : never ran \/ inputChangedSinceLastProcess \/ some      *)
(*                  dependency's version differs from the recorded one at  *)
(*                  the same POSITION \/ a dependency is itself Stale      *)
(*   Dependencies(): assembled from Go maps - with MapOrder = TRUE the     *)
(*                  order of the list is arbitrary per call (modelled: one *)
(*                  choice per node for the comparing calls and one for    *)
(*                  the recording calls of a read); with MapOrder = FALSE  *)
(*                  the list is sorted (the repaired code).                *)
(* Two single ports per node are enough to exhibit the ordering issue.     *)
(*                                                                         *)
(* Ghost L1 state: lastSig[n] = signature (wiring counters and parameter   *)
(* versions of the whole cone) at n's last execution.  Checked:            *)
(*   NoStale  after Read(n), n's cached value is the from-scratch one      *)
(*   Minimal  a read executes only truly dirty nodes, each at most once    *)
(* MapOrder = TRUE violates Minimal (spurious re-execution) but never      *)
(* NoStale; MapOrder = FALSE satisfies both.  Design-level only.           *)
(***************************************************************************)
EXTENDS Integers, Sequences, FiniteSets, TLC

CONSTANTS NP, NN, Depth, MapOrder

Params == 1..NP
Nodes == (NP + 1)..(NP + NN)

VARIABLES wire,     \* node -> <<a, b>> sources (0 = none); only lower ids (acyclic by construction)
          pver,     \* param -> version
          wcnt,     \* node -> number of re-wirings (ghost)
          c,        \* cache: [nver, depv, ran, changed, lastSig] each a function on Nodes
          steps, lastRead
vars == <<wire, pver, wcnt, c, steps, lastRead>>

RECURSIVE Sig(_, _, _, _)
Sig(w, pv, wc, s) ==
    IF s = 0 THEN <<0>>
    ELSE IF s \in Params THEN <<s, pv[s]>>
    ELSE <<s, wc[s], Sig(w, pv, wc, w[s][1]), Sig(w, pv, wc, w[s][2])>>

Deps(n, flip) ==    \* dependency list in the order Dependencies() returned it
    LET raw == SelectSeq(wire[n], LAMBDA s : s # 0)
    IN IF flip /\ Len(raw) = 2 THEN <<raw[2], raw[1]>> ELSE raw

Ver(st, s) == IF s \in Params THEN pver[s] ELSE st.nver[s]

RECURSIVE Outdated(_, _, _)
Outdated(st, n, flipO) ==
    IF ~st.ran[n] THEN TRUE
    ELSE IF st.changed[n] THEN TRUE
    ELSE LET deps == Deps(n, flipO[n]) IN
         \E i \in DOMAIN deps :
             \/ Ver(st, deps[i]) # st.depv[n][i]
             \/ (deps[i] \in Nodes /\ Outdated(st, deps[i], flipO))

RECURSIVE Value(_, _, _, _)
Process(st, n, flipO, flipR) ==
    LET st1 == Value(st, wire[n][1], flipO, flipR)
        st2 == Value(st1, wire[n][2], flipO, flipR)
        deps == Deps(n, flipR[n])
    IN [st2 EXCEPT !.nver[n] = @ + 1,
                   !.depv[n] = [i \in DOMAIN deps |-> Ver(st2, deps[i])],
                   !.ran[n] = TRUE, !.changed[n] = FALSE,
                   !.lastSig[n] = Sig(wire, pver, wcnt, n),
                   !.twice = @ \/ n \in st2.executed,
                   !.executed = @ \cup {n}]
Value(st, s, flipO, flipR) ==
    IF s \notin Nodes THEN st
    ELSE IF Outdated(st, s, flipO) THEN Process(st, s, flipO, flipR) ELSE st

TrulyDirty(cc, n) == ~cc.ran[n] \/ cc.lastSig[n] # Sig(wire, pver, wcnt, n)

Init ==
    /\ wire = [n \in Nodes |-> <<0, 0>>]
    /\ pver = [p \in Params |-> 0] /\ wcnt = [n \in Nodes |-> 0]
    /\ c = [nver |-> [n \in Nodes |-> 0], depv |-> [n \in Nodes |-> <<>>], ran |-> [n \in Nodes |-> FALSE],
            changed |-> [n \in Nodes |-> FALSE], lastSig |-> [n \in Nodes |-> <<>>],
            executed |-> {}, twice |-> FALSE]
    /\ steps = 0 /\ lastRead = [n |-> 0, spurious |-> {}, twice |-> FALSE]

SetParam(p) ==
    /\ pver' = [pver EXCEPT ![p] = @ + 1]
    /\ UNCHANGED <<wire, wcnt, c>> /\ lastRead' = [lastRead EXCEPT !.n = 0]

Rewire(n, port, s) ==
    /\ s < n /\ wire[n][port] # s
    /\ wire' = [wire EXCEPT ![n][port] = s] /\ wcnt' = [wcnt EXCEPT ![n] = @ + 1]
    /\ c' = [c EXCEPT !.changed[n] = TRUE]
    /\ UNCHANGED pver /\ lastRead' = [lastRead EXCEPT !.n = 0]

Read(n, flipO, flipR) ==
    LET st0 == [c EXCEPT !.executed = {}, !.twice = FALSE]
        st == Value(st0, n, flipO, flipR)
    IN /\ c' = st
       /\ lastRead' = [n |-> n, spurious |-> {m \in st.executed : ~TrulyDirty(c, m)}, twice |-> st.twice]
       /\ UNCHANGED <<wire, pver, wcnt>>

Flips == IF MapOrder THEN [Nodes -> BOOLEAN] ELSE {[n \in Nodes |-> FALSE]}

Next ==
    /\ steps < Depth /\ steps' = steps + 1
    /\ \/ \E p \in Params : SetParam(p)
       \/ \E n \in Nodes, port \in 1..2, s \in 0..(NP + NN) : Rewire(n, port, s)
       \/ \E n \in Nodes, fo \in Flips, fr \in Flips : Read(n, fo, fr)

Spec == Init /\ [][Next]_vars

NoStale == lastRead.n # 0 => ~TrulyDirty(c, lastRead.n)
Minimal == lastRead.n # 0 => (lastRead.spurious = {} /\ ~lastRead.twice)
=============================================================================
