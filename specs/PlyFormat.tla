----------------------------- MODULE PlyFormat -----------------------------
(***************************************************************************)
(* The PLY format as far as polyform reads and writes it (C04, C08).       *)
(*                                                                         *)
(* A FILE is the record                                                    *)
(*   [fmt, vprops, nv, vrecs, face, nf, flists, frecs, ...]                *)
(*  fmt    : "ascii" | "binary_little_endian" | "binary_big_endian"        *)
(*  vprops : sequence of [n, t]  (property name, type token as written;    *)
(*           aliases allowed, Canon maps them to the eight PLY types)      *)
(*  nv     : declared vertex count;  vrecs : sequence of records, a record *)
(*           is a sequence of CELLS, one per property                      *)
(*  face   : a face element is declared; nf its count; flists its list     *)
(*           properties [n, ct, lt]; frecs : per face, per list property,  *)
(*           the sequence of list items (the count cell is the length)     *)
(* plus, for files parsed from bytes by the reference parser, the facts    *)
(*  ok/err (the bytes could be read following their own header), left      *)
(*  (what remains after the last declared record), linewise, hdrbytes,     *)
(*  nbytes, exact.                                                         *)
(*                                                                         *)
(* CELLS and VALUES.  An integer typed cell is the integer.  A real is     *)
(* represented in one of two modes fixed per case:                         *)
(*  "lat"  : the integer value*D on the lattice 1/D (D = 16320 = 255*64    *)
(*           holds k/255 and j/64 exactly; D = 1 for large integers);      *)
(*           int32 budget: |value*D| < 2^31, uchar*64, int cell*D.         *)
(*  "bits" : the IEEE-754 binary64 pattern as <<c3,c2,c1,c0>>, 16 bits     *)
(*           each; float32 precision is a statement about these bits.      *)
(*                                                                         *)
(* A MESH is [topo, idx, attrs, cuv, hasuv]: attrs a SET of [n, ar, data]  *)
(* (polyform attribute name, arity, one ar-tuple of values per vertex),    *)
(* cuv the per-corner texture coordinates of a face list when hasuv.       *)
(***************************************************************************)
EXTENDS Integers, Sequences, FiniteSets, SequencesExt, Functions, TLC

Formats == {"ascii", "binary_little_endian", "binary_big_endian"}

Canon(t) ==
    CASE t \in {"char", "int8"} -> "char"
      [] t \in {"uchar", "uint8"} -> "uchar"
      [] t \in {"short", "int16"} -> "short"
      [] t \in {"ushort", "uint16"} -> "ushort"
      [] t \in {"int", "int32"} -> "int"
      [] t \in {"uint", "uint32"} -> "uint"
      [] t \in {"float", "float32"} -> "float"
      [] t \in {"double", "float64"} -> "double"
      [] OTHER -> "BAD"

Size(ct) ==
    CASE ct \in {"char", "uchar"} -> 1
      [] ct \in {"short", "ushort"} -> 2
      [] ct \in {"int", "uint", "float"} -> 4
      [] ct = "double" -> 8
      [] OTHER -> 0

IsFloatT(ct) == ct \in {"float", "double"}
IntTypes == {"char", "uchar", "short", "ushort", "int", "uint"}

IntCellOK(ct, c) ==
    CASE ct = "char" -> c >= -128 /\ c <= 127
      [] ct = "uchar" -> c >= 0 /\ c <= 255
      [] ct = "short" -> c >= -32768 /\ c <= 32767
      [] ct = "ushort" -> c >= 0 /\ c <= 65535
      [] ct = "int" -> TRUE
      [] ct = "uint" -> c >= 0
      [] OTHER -> FALSE

RealOK(mode, c) == IF mode = "bits" THEN Len(c) = 4 /\ \A i \in 1..4 : c[i] >= 0 /\ c[i] <= 65535 ELSE TRUE
CellOK(ct, c, mode) == IF IsFloatT(ct) THEN RealOK(mode, c) ELSE IntCellOK(ct, c)

RECURSIVE SumSeq(_)
SumSeq(s) == IF s = <<>> THEN 0 ELSE Head(s) + SumSeq(Tail(s))
Iota(n) == [i \in 1..n |-> i - 1]

(***************************************************************************)
(* float32 precision on binary64 patterns <<c3,c2,c1,c0>> (finite, normal, *)
(* |x| within the float32 range).  A float32 has the low 29 mantissa bits  *)
(* clear; the two float32 neighbours of x are its truncation and the next  *)
(* pattern 2^29 further from zero.                                         *)
(***************************************************************************)
IsF32(b) == b[4] = 0 /\ b[3] % 8192 = 0
Trunc32(b) == <<b[1], b[2], b[3] - (b[3] % 8192), 0>>
Next32(b) ==
    LET t == Trunc32(b) IN
    IF t[3] + 8192 < 65536 THEN <<t[1], t[2], t[3] + 8192, 0>>
    ELSE IF t[2] + 1 < 65536 THEN <<t[1], t[2] + 1, 0, 0>>
    ELSE <<t[1] + 1, 0, 0, 0>>
Near32(b) == IF IsF32(b) THEN {b} ELSE {Trunc32(b), Next32(b)}

(***************************************************************************)
(* "The header describes the body that follows."                           *)
(***************************************************************************)
PropNames(f) == {f.vprops[i].n : i \in DOMAIN f.vprops}

HeaderOK(f) ==
    /\ f.fmt \in Formats
    /\ \A i \in DOMAIN f.vprops : Canon(f.vprops[i].t) # "BAD"
    /\ \A i, j \in DOMAIN f.vprops : i # j => f.vprops[i].n # f.vprops[j].n
    /\ f.nv >= 0 /\ f.nf >= 0
    /\ IF f.face
       THEN /\ \A i \in DOMAIN f.flists : Canon(f.flists[i].ct) \in IntTypes /\ Canon(f.flists[i].lt) # "BAD"
            /\ \A i, j \in DOMAIN f.flists : i # j => f.flists[i].n # f.flists[j].n
       ELSE f.flists = <<>> /\ f.nf = 0

BodyOK(f, mode) ==
    /\ Len(f.vrecs) = f.nv
    /\ \A r \in DOMAIN f.vrecs :
          /\ Len(f.vrecs[r]) = Len(f.vprops)
          /\ \A c \in DOMAIN f.vprops : CellOK(Canon(f.vprops[c].t), f.vrecs[r][c], mode)
    /\ Len(f.frecs) = f.nf
    /\ \A r \in DOMAIN f.frecs :
          /\ Len(f.frecs[r]) = Len(f.flists)
          /\ \A p \in DOMAIN f.flists :
                /\ IntCellOK(Canon(f.flists[p].ct), Len(f.frecs[r][p]))      \* the count cell holds the length
                /\ \A j \in DOMAIN f.frecs[r][p] : CellOK(Canon(f.flists[p].lt), f.frecs[r][p][j], mode)

VertexRecordSize(f) == SumSeq([c \in DOMAIN f.vprops |-> Size(Canon(f.vprops[c].t))])
FaceRecordSize(f, r) ==
    SumSeq([p \in DOMAIN f.flists |-> Size(Canon(f.flists[p].ct)) + Len(f.frecs[r][p]) * Size(Canon(f.flists[p].lt))])
BodySize(f) == f.nv * VertexRecordSize(f) + SumSeq([r \in DOMAIN f.frecs |-> FaceRecordSize(f, r)])

\* binary: the declared counts and type sizes account for every byte after the header
SizeLaw(f) == f.fmt = "ascii" \/ f.nbytes = f.hdrbytes + BodySize(f)

WellFormedFile(f, mode) ==
    /\ f.ok /\ f.left = 0 /\ f.linewise
    /\ HeaderOK(f) /\ BodyOK(f, mode) /\ SizeLaw(f)

(***************************************************************************)
(* Denotation: the mesh a file describes.                                  *)
(***************************************************************************)
GroupTable == <<
    [a |-> "Position", ns |-> <<"x", "y", "z">>, w |-> "-"],
    [a |-> "Position", ns |-> <<"px", "py", "pz">>, w |-> "-"],
    [a |-> "Position", ns |-> <<"posx", "posy", "posz">>, w |-> "-"],
    [a |-> "Normal", ns |-> <<"nx", "ny", "nz">>, w |-> "-"],
    [a |-> "Normal", ns |-> <<"normalx", "normaly", "normalz">>, w |-> "-"],
    [a |-> "Color", ns |-> <<"red", "green", "blue">>, w |-> "alpha"],
    [a |-> "Color", ns |-> <<"r", "g", "b">>, w |-> "a"],
    [a |-> "Color", ns |-> <<"diffuse_red", "diffuse_green", "diffuse_blue">>, w |-> "diffuse_alpha"],
    [a |-> "TexCoord", ns |-> <<"s", "t">>, w |-> "-"],
    [a |-> "FDC", ns |-> <<"f_dc_0", "f_dc_1", "f_dc_2">>, w |-> "-"],
    [a |-> "Opacity", ns |-> <<"opacity">>, w |-> "-"],
    [a |-> "Scale", ns |-> <<"scale_0", "scale_1", "scale_2">>, w |-> "-"],
    [a |-> "Rotation", ns |-> <<"rot_0", "rot_1", "rot_2", "rot_3">>, w |-> "-"] >>
Groups == Range(GroupTable)

Formed(f, g) == \A n \in Range(g.ns) : n \in PropNames(f)
GNames(f, g) == IF g.w \in PropNames(f) THEN Append(g.ns, g.w) ELSE g.ns
FormedGroups(f) == {g \in Groups : Formed(f, g)}
Claimed(f) == UNION {Range(GNames(f, g)) : g \in FormedGroups(f)}
Col(f, name) == CHOOSE i \in DOMAIN f.vprops : f.vprops[i].n = name
ColType(f, name) == Canon(f.vprops[Col(f, name)].t)

\* two recognised groups for one attribute, or members of one group with different types
Ambiguous(f) == \E g, h \in FormedGroups(f) : g # h /\ g.a = h.a
MixedGroup(f) == \E g \in FormedGroups(f) : \E m, n \in Range(GNames(f, g)) : ColType(f, m) # ColType(f, n)

UScale(D) == D \div 255
\* value of a cell of canonical type ct (8-bit unsigned values are fractions of 255)
Val(ct, c, mode, D) ==
    IF IsFloatT(ct) THEN c
    ELSE IF ct = "uchar" THEN c * UScale(D)
    ELSE c * D

\* lattice/mode restrictions under which Val is meaningful (incl. the int32 budget of c * D)
MaxInt32 == 2147483647
Representable(f, mode, D) ==
    /\ mode = "bits" => \A i \in DOMAIN f.vprops : IsFloatT(Canon(f.vprops[i].t))
    /\ (\E i \in DOMAIN f.vprops : Canon(f.vprops[i].t) = "uchar") => D % 255 = 0
    /\ \A i \in DOMAIN f.vprops :
          (~IsFloatT(Canon(f.vprops[i].t)) /\ Canon(f.vprops[i].t) # "uchar") =>
              \A r \in DOMAIN f.vrecs : /\ f.vrecs[r][i] <= MaxInt32 \div D
                                        /\ f.vrecs[r][i] >= 0 - (MaxInt32 \div D) - (IF D = 1 THEN 1 ELSE 0)

\* raw = TRUE is the VARIANT in which single 8-bit scalars keep their raw value 0..255 (what the
\* library's ASCII reader does, pinned by its tests; used only to classify that known deviation)
ColVals(f, names, mode, D, raw) ==
    [r \in 1..f.nv |-> [k \in 1..Len(names) |->
        LET ct == ColType(f, names[k])
            c == f.vrecs[r][Col(f, names[k])]
        IN IF raw /\ ct = "uchar" /\ Len(names) = 1 THEN c * D ELSE Val(ct, c, mode, D)]]

\* a denoted attribute also carries the canonical type of each component (ft)
ColTypes(f, names) == [k \in 1..Len(names) |-> ColType(f, names[k])]
\* (no vertex, no content: polyform meshes cannot hold an attribute without data)
DenoteAttrsV(f, mode, D, raw) ==
    IF f.nv = 0 THEN {} ELSE
    {[n |-> g.a, ar |-> Len(GNames(f, g)), data |-> ColVals(f, GNames(f, g), mode, D, raw),
      ft |-> ColTypes(f, GNames(f, g))] : g \in FormedGroups(f)}
    \cup {[n |-> p, ar |-> 1, data |-> ColVals(f, <<p>>, mode, D, raw), ft |-> ColTypes(f, <<p>>)] :
            p \in PropNames(f) \ Claimed(f)}
DenoteAttrs(f, mode, D) == DenoteAttrsV(f, mode, D, FALSE)

\* names of the scalar attributes that stem from an 8-bit property
UCharScalarAttrs(f) ==
    {p \in PropNames(f) \ Claimed(f) : ColType(f, p) = "uchar"}
    \cup {g.a : g \in {h \in FormedGroups(f) : Len(GNames(f, h)) = 1 /\ ColType(f, h.ns[1]) = "uchar"}}

IdxNames == {"vertex_indices", "vertex_index"}
HasIdxList(f) == \E p \in DOMAIN f.flists : f.flists[p].n \in IdxNames
IdxListPos(f) == CHOOSE p \in DOMAIN f.flists : f.flists[p].n \in IdxNames
HasUvList(f) == \E p \in DOMAIN f.flists : f.flists[p].n = "texcoord"
UvListPos(f) == CHOOSE p \in DOMAIN f.flists : f.flists[p].n = "texcoord"

Fan(L) == IF Len(L) = 3 THEN <<L[1], L[2], L[3]>> ELSE <<L[1], L[2], L[3], L[1], L[3], L[4]>>
FanUV(T) ==
    IF Len(T) = 6 THEN << <<T[1], T[2]>>, <<T[3], T[4]>>, <<T[5], T[6]>> >>
    ELSE << <<T[1], T[2]>>, <<T[3], T[4]>>, <<T[5], T[6]>>, <<T[1], T[2]>>, <<T[5], T[6]>>, <<T[7], T[8]>> >>

\* the file is inside the grammar the denotation is defined on
Denotable(f) ==
    /\ ~Ambiguous(f)
    /\ f.face =>
        /\ HasIdxList(f)
        /\ Canon(f.flists[IdxListPos(f)].lt) \in {"int", "uint"}
        /\ \A r \in DOMAIN f.frecs :
              LET L == f.frecs[r][IdxListPos(f)] IN
              /\ Len(L) \in {3, 4}
              /\ \A j \in DOMAIN L : L[j] >= 0 /\ L[j] < f.nv
              /\ HasUvList(f) => Len(f.frecs[r][UvListPos(f)]) = 2 * Len(L)
        /\ HasUvList(f) => IsFloatT(Canon(f.flists[UvListPos(f)].lt))

DenoteIdx(f) ==
    IF ~f.face THEN Iota(f.nv)
    ELSE FlattenSeq([r \in 1..f.nf |-> Fan(f.frecs[r][IdxListPos(f)])])
DenoteUV(f) ==
    IF f.face /\ HasUvList(f) THEN FlattenSeq([r \in 1..f.nf |-> FanUV(f.frecs[r][UvListPos(f)])]) ELSE <<>>

DenoteV(f, mode, D, raw) ==
    [topo |-> IF f.face THEN "triangle" ELSE "point",
     idx |-> DenoteIdx(f),
     attrs |-> DenoteAttrsV(f, mode, D, raw),
     cuv |-> DenoteUV(f),
     uvt |-> IF f.face /\ HasUvList(f) THEN Canon(f.flists[UvListPos(f)].lt) ELSE "float",
     hasuv |-> f.face /\ HasUvList(f) /\ f.nf > 0]
Denote(f, mode, D) == DenoteV(f, mode, D, FALSE)

(***************************************************************************)
(* Meshes and their corner view.                                           *)
(***************************************************************************)
\* pm: a projected real mesh [topo, idx, attrs (sequence), exact]
MeshOf(pm) == [topo |-> pm.topo, idx |-> pm.idx, attrs |-> {a \in Range(pm.attrs) : a.data # <<>>},
               cuv |-> <<>>, hasuv |-> FALSE]

HasA(m, n, ar) == \E a \in m.attrs : a.n = n /\ a.ar = ar
AttrOf(m, n, ar) == CHOOSE a \in m.attrs : a.n = n /\ a.ar = ar
IsFaceUV(m, n, ar) == m.hasuv /\ n = "TexCoord" /\ ar = 2
AttrKeys(m) == {<<a.n, a.ar>> : a \in m.attrs} \cup (IF m.hasuv THEN {<<"TexCoord", 2>>} ELSE {})
\* value of attribute (n, ar) at corner k (1-based position in the index list)
CVal(m, n, ar, k) == IF IsFaceUV(m, n, ar) THEN m.cuv[k] ELSE AttrOf(m, n, ar).data[m.idx[k] + 1]

CornerView(m) ==
    [topo |-> m.topo, keys |-> AttrKeys(m),
     corners |-> [k \in 1..Len(m.idx) |-> [key \in AttrKeys(m) |-> CVal(m, key[1], key[2], k)]]]

WellFormedMesh(m) ==
    /\ \A a, b \in m.attrs : Len(a.data) = Len(b.data)
    /\ \A a \in m.attrs : \A k \in DOMAIN m.idx : m.idx[k] >= 0 /\ m.idx[k] < Len(a.data)
    /\ m.topo = "triangle" => Len(m.idx) % 3 = 0

\* A decoded real r against the cell value c of a property of type t.  An ascii token of a
\* float property is kept as the decimal's double; the property holds a float32, so the
\* decoded value may be either float32 neighbour (or the double itself).
ValMatch(t, r, c, mode) == r = c \/ (mode = "bits" /\ t = "float" /\ r \in Near32(c))
CompType(d, n, ar, c) == IF IsFaceUV(d, n, ar) THEN d.uvt ELSE AttrOf(d, n, ar).ft[c]

AttrMatch(m, d, key, mode) ==      \* vertex level: observed mesh m, denoted mesh d
    LET a == AttrOf(m, key[1], key[2])
        b == AttrOf(d, key[1], key[2])
    IN /\ Len(a.data) = Len(b.data)
       /\ \A v \in DOMAIN b.data : \A c \in 1..key[2] : ValMatch(b.ft[c], a.data[v][c], b.data[v][c], mode)
CornerMatch(m, d, key, mode) ==    \* corner level
    \A k \in 1..Len(d.idx) : \A c \in 1..key[2] :
        ValMatch(CompType(d, key[1], key[2], c), CVal(m, key[1], key[2], k)[c], CVal(d, key[1], key[2], k)[c], mode)

\* "loads to the mesh the file describes": vertex i carries record i; with
\* per-corner texture coordinates the result is unwelded, so vertex numbers
\* are not prescribed and corners are compared instead
SameMesh(m, d, mode) ==
    /\ m.topo = d.topo
    /\ AttrKeys(m) = AttrKeys(d)
    /\ IF d.hasuv THEN Len(m.idx) = Len(d.idx) /\ \A key \in AttrKeys(d) : CornerMatch(m, d, key, mode)
       ELSE m.idx = d.idx /\ \A key \in AttrKeys(d) : AttrMatch(m, d, key, mode)

\* names of what differs (for reports)
MeshDiff(m, d, mode) ==
    (IF m.topo # d.topo THEN {"topo"} ELSE {})
    \cup (IF (IF d.hasuv THEN Len(m.idx) # Len(d.idx) ELSE m.idx # d.idx) THEN {"idx"} ELSE {})
    \cup {k[1] : k \in (AttrKeys(m) \ AttrKeys(d)) \cup (AttrKeys(d) \ AttrKeys(m))}
    \cup {k[1] : k \in {kk \in AttrKeys(m) \cap AttrKeys(d) :
                    IF d.hasuv THEN Len(m.idx) = Len(d.idx) /\ ~CornerMatch(m, d, kk, mode)
                    ELSE ~AttrMatch(m, d, kk, mode)}}

\* two decoded reals agree up to the precision of a float32 (bits mode) / exactly (lattice)
Close(a, b, mode) == a = b \/ (mode = "bits" /\ (b \in Near32(a) \/ a \in Near32(b)))
\* names of the attributes on which two projected meshes disagree ("shape": topology / indices)
ProjDiff(a, b, mode) ==
    (IF a.topo # b.topo \/ a.idx # b.idx THEN {"shape"} ELSE {})
    \cup {k[1] : k \in (AttrKeys(MeshOf(a)) \ AttrKeys(MeshOf(b))) \cup (AttrKeys(MeshOf(b)) \ AttrKeys(MeshOf(a)))}
    \cup {k[1] : k \in {kk \in AttrKeys(MeshOf(a)) \cap AttrKeys(MeshOf(b)) :
                    LET x == AttrOf(MeshOf(a), kk[1], kk[2]).data
                        y == AttrOf(MeshOf(b), kk[1], kk[2]).data
                    IN Len(x) # Len(y) \/ \E v \in DOMAIN x : \E c \in 1..kk[2] : ~Close(x[v][c], y[v][c], mode)}}

(***************************************************************************)
(* Writer contract (C04).  o = [w, unspec, props]; props a sequence of     *)
(* property writers [ar, attr, names, t].                                  *)
(***************************************************************************)
DefaultProps == <<
    [ar |-> 3, attr |-> "Position", names |-> <<"x", "y", "z">>, t |-> "float"],
    [ar |-> 3, attr |-> "Normal", names |-> <<"nx", "ny", "nz">>, t |-> "float"],
    [ar |-> 3, attr |-> "Color", names |-> <<"red", "green", "blue">>, t |-> "uchar"],
    [ar |-> 3, attr |-> "FDC", names |-> <<"f_dc_0", "f_dc_1", "f_dc_2">>, t |-> "float"],
    [ar |-> 1, attr |-> "Opacity", names |-> <<"opacity">>, t |-> "float"],
    [ar |-> 3, attr |-> "Scale", names |-> <<"scale_0", "scale_1", "scale_2">>, t |-> "float"],
    [ar |-> 4, attr |-> "Rotation", names |-> <<"rot_0", "rot_1", "rot_2", "rot_3">>, t |-> "float"] >>

EffProps(o) == IF o.w = "default" THEN DefaultProps ELSE o.props
EffUnspec(o) == o.w = "default" \/ o.unspec
Claims(o, n, ar) == \E i \in DOMAIN EffProps(o) : EffProps(o)[i].attr = n /\ EffProps(o)[i].ar = ar
ClaimOf(o, n, ar) == EffProps(o)[CHOOSE i \in DOMAIN EffProps(o) : EffProps(o)[i].attr = n /\ EffProps(o)[i].ar = ar]
\* the written names are those under which the denotation finds the attribute again
Recognised(p) ==
    \/ \E g \in Groups : g.a = p.attr /\ (p.names = g.ns \/ (g.w # "-" /\ p.names = Append(g.ns, g.w)))
    \/ p.ar = 1 /\ p.names = <<p.attr>>
\* the type that finally holds attribute (n, ar) of src: texture coordinates of a triangle
\* mesh live in the float list of the face element whatever a property writer adds
StoredType(src, o, n, ar) ==
    IF src.topo = "triangle" /\ n = "TexCoord" /\ ar = 2 THEN "float"
    ELSE IF Claims(o, n, ar) THEN ClaimOf(o, n, ar).t ELSE "float"

\* attributes of src that the options promise to store
MustKeep(src, o) ==
    {k \in AttrKeys(src) :
        \/ Claims(o, k[1], k[2]) /\ Recognised(ClaimOf(o, k[1], k[2]))
        \/ ~Claims(o, k[1], k[2]) /\ EffUnspec(o) /\ k[2] = 1
        \/ k = <<"TexCoord", 2>> /\ EffUnspec(o)}

\* "up to the precision of the stored type"
InBand(t, s, r, mode, D) ==
    IF mode = "lat"
    THEN CASE t = "uchar" -> IF s >= 0 /\ s <= D
                             THEN r <= s + UScale(D) /\ r >= s - UScale(D)     \* 1/255
                             ELSE r >= 0 /\ r <= D                             \* not storable: any 8-bit value
           [] t = "int" -> IF s % D = 0 THEN r = s ELSE r < s + D /\ r > s - D
           [] OTHER -> r = s
    ELSE CASE t = "float" -> r = s \/ r \in Near32(s)      \* more precision than a float32 is no loss
           [] t = "double" -> r = s
           [] OTHER -> FALSE

KeptOK(src, res, o, key, mode, D) ==      \* (no corner, nothing to keep)
    Len(src.idx) > 0 =>
    /\ key \in AttrKeys(res)
    /\ \A k \in 1..Len(src.idx) : \A c \in 1..key[2] :
          InBand(StoredType(src, o, key[1], key[2]), CVal(src, key[1], key[2], k)[c], CVal(res, key[1], key[2], k)[c], mode, D)

ShapeOK(src, res) == res.topo = src.topo /\ Len(res.idx) = Len(src.idx) /\ WellFormedMesh(res)

RoundTrip(src, res, o, mode, D) ==
    /\ ShapeOK(src, res)
    /\ \A key \in MustKeep(src, o) : KeptOK(src, res, o, key, mode, D)

RoundTripDiff(src, res, o, mode, D) ==
    IF ~ShapeOK(src, res) THEN {"shape"}
    ELSE {key[1] : key \in {kk \in MustKeep(src, o) : ~KeptOK(src, res, o, kk, mode, D)}}

=============================================================================
