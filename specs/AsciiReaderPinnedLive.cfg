CONSTANTS NV = 3 NF = 2 W = 3 FW = 4 CheckScan = FALSE CheckWidth = TRUE Styles = {"ply"}
SPECIFICATION Spec
INVARIANTS TypeOK
PROPERTY Terminates
CHECK_DEADLOCK FALSE
