----------------------------- MODULE ObjMeshGen -----------------------------
(***************************************************************************)
(* Generator of C05 "write" cases: every list of at most MaxMeshes named   *)
(* triangle meshes over per-mesh choices (triangle count, vertex layout,   *)
(* attribute combination, partition of the triangles into material         *)
(* ranges).  Values live on the 1/1024 lattice and are distinct per        *)
(* (mesh, vertex, attribute, component) so any mix-up is visible.          *)
(*                                                                         *)
(* Checked on the specification itself (design level, models of ObjImpl):  *)
(*   WriterDesign    the repaired writer's text is valid and denotes the   *)
(*                   source list                                           *)
(*   PipelineDesign  repaired writer + repaired reader give back the       *)
(*                   source list, except that a mesh WITHOUT triangles     *)
(*                   that is not last has no group (known limit of the     *)
(*                   reader's design: "g" only closes non-empty groups)    *)
(* RiskyEmit prints the lists for which the PINNED algorithms (shared      *)
(* offset / counter carried across g) break the contract on the model.     *)
(***************************************************************************)
EXTENDS ObjImpl, Json

CONSTANTS MaxMeshes,    \* list length bound
          Rich,         \* TRUE: all layouts / material patterns per mesh (use with MaxMeshes = 1)
          MaxTris       \* triangles per mesh 0..MaxTris (<= 3)

VARIABLES meshes
vars == <<meshes>>

Q == 1024
NamesPool == <<"a", "b b", "a", "d">>      \* a name with a blank; a repeated name

\* distinct lattice values per mesh i, vertex j (0-based)
PosOf(i, j) == <<(4 * i + j) * 256, j * 1024 + i, 0 - (i * 512 + j)>>
UvOf(i, j) == <<j * 128 + i, 1024 - i * 64 - j>>
NrmOf(i, j) == <<0 - i, (j % 2) * 1024, 1024 - j * 3>>

Layouts == IF Rich THEN {"fan", "unwelded", "reversed", "spare"} ELSE {"fan"}
NVerts(lay, n) ==
    CASE n = 0 -> IF lay = "spare" THEN 1 ELSE 0
      [] lay = "fan" -> n + 2
      [] lay = "spare" -> n + 3            \* one vertex no triangle refers to
      [] OTHER -> 3 * n
IdxOf(lay, n) ==
    CASE lay \in {"fan", "spare"} -> Flat([t \in 1..n |-> <<0, t, t + 1>>])
      [] lay = "unwelded" -> [k \in 1..(3 * n) |-> k - 1]
      [] OTHER -> [k \in 1..(3 * n) |-> 3 * n - k]

\* partitions of n triangles into material ranges (compositions), with materials from a palette
Compositions(n) ==
    CASE n = 0 -> {}
      [] n = 1 -> {<<1>>}
      [] n = 2 -> {<<2>>, <<1, 1>>}
      [] OTHER -> {<<3>>, <<1, 2>>, <<2, 1>>, <<1, 1, 1>>}
Palettes == IF Rich THEN {<<"red", "blue", "<nil>">>, <<"<nil>", "red", "red">>, <<"blue", "blue", "red">>}
            ELSE {<<"red", "blue", "<nil>">>}
MatChoices(n) ==
    {<<>>} \cup {[r \in DOMAIN comp |-> [n |-> comp[r], m |-> pal[r]]] :
                    comp \in (IF Rich THEN Compositions(n)
                              ELSE {c \in Compositions(n) : Len(c) = 1 \/ Len(c) = n}),
                    pal \in Palettes}

\* Rich (single meshes): also the unnamed mesh, which the harness writes with obj.WriteMesh
NameChoices(i) == IF Rich THEN {NamesPool[i], ""} ELSE {NamesPool[i]}
MeshOf(i, name, n, lay, hasUv, hasN, mats) ==
    [name |-> name,
     idx |-> IdxOf(lay, n),
     pos |-> [j \in 1..NVerts(lay, n) |-> PosOf(i, j - 1)],
     uv |-> IF hasUv THEN [j \in 1..NVerts(lay, n) |-> UvOf(i, j - 1)] ELSE <<>>,
     nrm |-> IF hasN THEN [j \in 1..NVerts(lay, n) |-> NrmOf(i, j - 1)] ELSE <<>>,
     mats |-> mats]
MeshChoices(i) ==
    UNION {{MeshOf(i, name, n, lay, hasUv, hasN, mats) :
                name \in NameChoices(i), lay \in Layouts, hasUv \in BOOLEAN, hasN \in BOOLEAN, mats \in MatChoices(n)} :
           n \in 0..MaxTris}

Init == meshes = <<>>
Next == /\ Len(meshes) < MaxMeshes
        /\ \E m \in MeshChoices(Len(meshes) + 1) : meshes' = Append(meshes, m)
Spec == Init /\ [][Next]_vars

(* ---------------- design-level properties (models) -------------------- *)
WriterDesign == meshes = <<>> \/ WriterBad(meshes, FALSE) = {}
PipelineDesign == meshes = <<>> \/ RoundTripBad(meshes, FALSE, Fixed) \subseteq {"EmptyGroup"}

(* ---------------- generator output ------------------------------------ *)
Case(tag) == [k |-> "wr", tag |-> tag, enc |-> "lat", q |-> Q, meshes |-> meshes]
\* also the single unnamed mesh (obj.WriteMesh) for one-element lists
Emit == meshes = <<>> \/ PrintT(ToJson(Case("bfs")))
EmitLeaf == Len(meshes) < MaxMeshes \/ PrintT(ToJson(Case("sim")))
RiskyEmit ==
    \/ meshes = <<>>
    \/ (WriterBad(meshes, TRUE) = {} /\ RoundTripBad(meshes, FALSE, Pinned) \subseteq {"EmptyGroup"})
    \/ PrintT(ToJson([risky |-> Case("risky"),
                      writer |-> WriterBad(meshes, TRUE),
                      reader |-> RoundTripBad(meshes, FALSE, Pinned)]))
=============================================================================
