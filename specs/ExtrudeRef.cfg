CONSTANTS
  MaxRings = 6
  MaxSlots = 6
SPECIFICATION Spec
INVARIANTS RefOriented RefClosed RefLoops RefEuler RefCounts
CHECK_DEADLOCK FALSE
