------------------------------ MODULE NodeTerms ------------------------------
(***************************************************************************)
(* Constant-level vocabulary of the node-graph specifications: sources,    *)
(* wiring records, cones, and the symbolic from-scratch TERM of a source.  *)
(* Shared by NodeGraph (C11), TraceNodeGraph, TraceParamServer (C13).      *)
(* Sources: 0 = unconnected, 1..NP parameters, NP+1..NP+NN struct nodes;   *)
(* wiring w : node -> [a, b, arr].                                         *)
(***************************************************************************)
EXTENDS Integers, Sequences, FiniteSets, TLC

CONSTANTS NP, NN

Params == 1..NP
Nodes == (NP + 1)..(NP + NN)
NoSrc == 0


NoWire == [a |-> NoSrc, b |-> NoSrc, arr |-> <<>>]

Inputs(w, n) == ({w[n].a, w[n].b} \cup {w[n].arr[i] : i \in DOMAIN w[n].arr}) \ {NoSrc}

\* all sources (params and nodes) n transitively depends on, excluding n unless on a cycle;
\* bounded iteration so that it terminates on cyclic candidate wirings too
RECURSIVE ReachK(_, _, _)
ReachK(w, S, k) == IF k = 0 THEN S ELSE ReachK(w, S \cup UNION {Inputs(w, m) : m \in S \cap Nodes}, k - 1)
Cone(w, n) == ReachK(w, Inputs(w, n), NN)

ConeStar(w, n) == Cone(w, n) \cup {n}
Acyclic(w) == \A n \in Nodes : n \notin Cone(w, n)


ParamTerm(p, v) == "p" \o ToString(p) \o ":" \o ToString(v)

\* A processor FAILS (returns an error and the zero value, the empty string) exactly when its A input evaluates to
\* this string; nodes.Struct keeps the error, bumps the version and serves the zero value.
ErrTrigger == "p1:13"

RECURSIVE Term(_, _, _), JoinArr(_, _, _)
Term(w, pv, s) ==
    IF s = NoSrc THEN "-"
    ELSE IF s \in Params THEN ParamTerm(s, pv[s])
    ELSE IF Term(w, pv, w[s].a) = ErrTrigger THEN ""
    ELSE "n" \o ToString(s) \o "(" \o Term(w, pv, w[s].a) \o "," \o Term(w, pv, w[s].b)
             \o ",[" \o JoinArr(w, pv, w[s].arr) \o "])"
JoinArr(w, pv, arr) ==
    IF arr = <<>> THEN ""
    ELSE Term(w, pv, Head(arr)) \o (IF Len(arr) > 1 THEN ";" ELSE "") \o JoinArr(w, pv, Tail(arr))

\* A processor PANICS exactly when its A input evaluates to this string (user code that crashes on some valid
\* parameter value); the panic travels up through every node that evaluates it. The caller gets no value.
PanicTrigger == "p1:66"
RECURSIVE Panics(_, _, _)
Panics(w, pv, s) ==
    /\ s \in Nodes
    /\ \/ Term(w, pv, w[s].a) = PanicTrigger
       \/ Panics(w, pv, w[s].a) \/ Panics(w, pv, w[s].b)
       \/ \E i \in DOMAIN w[s].arr : Panics(w, pv, w[s].arr[i])

=============================================================================
