CONSTANTS
  FieldSizes <- SampleFields
  Discipline = "full"
  Delivery = "any"
  Refill = 16
SPECIFICATION Spec
INVARIANTS DeliveryIndependent Consumed
CHECK_DEADLOCK FALSE
