------------------------------ MODULE TraceRoom ------------------------------
(***************************************************************************)
(* X02 - trace validation of the real room hub (generator/room) and of its *)
(* message codec.  The harness (harness/roomfam) pushes events into the    *)
(* real Hub.Run loop and logs, after every event, what it read from        *)
(* hub.clients / hub.state (as a delta), the length of every client's send *)
(* channel, and every frame a client took off its channel together with    *)
(* what the real decoders made of it.  Everything below is the CONTRACT    *)
(* (L1): it does not know which variant of the code ran.                   *)
(*                                                                         *)
(* Lines                                                                   *)
(*  {"k":"reset","h","n","cap","scene","sver","gver"}    fresh hub         *)
(*  {"k":"ev","op","c","ut","p","res","pc","cadd","cdel","padd","pdel",    *)
(*   "ql","scene","sver","gver"}   op: register unregister update          *)
(*   broadcast tick; res: ok | PANIC (pc = class) | HANG                   *)
(*  {"k":"bump","gver"}            the graph's model version moved         *)
(*  {"k":"recv","c","fin","res","fr","dec"}  res: msg | empty | closed     *)
(*  {"k":"end","dead","hang"}      after the final drain of every channel  *)
(*  {"k":"codec","sub":"state|ori|id",...}   binary_message.go directly    *)
(*  {"k":"skipped","n"}            hub cases not run after repeated hangs  *)
(*                                                                         *)
(* Predicates (printed as {"l","bad":[..]} when violated)                  *)
(*  X02.NoSendOnClosed X02.NoDoubleClose X02.NoPanic X02.NoHang            *)
(*  X02.PlayersMatchClients  Players has exactly one entry per registered  *)
(*                           client (reported when a NEW ghost / missing   *)
(*                           entry appears)                                *)
(*  X02.IdFresh              a new client gets an id nobody holds          *)
(*  X02.Step                 the event changed clients, the players of     *)
(*                           registered clients, queue lengths, scene and  *)
(*                           version exactly as the contract says          *)
(*  X02.Representable        the state stays inside the domain of the      *)
(*                           state message (255 / 255 / 255, 255 players)  *)
(*  X02.Fifo                 a client receives exactly what was queued     *)
(*  X02.IdFirst              the first message it receives is its id       *)
(*  X02.StateMsg             a state frame DENOTES (RoomWire!StateDecode)  *)
(*                           the hub state at its tick                     *)
(*  X02.Decode               the real frame parser / decoders agree with   *)
(*                           the denotation                                *)
(*  X02.Closed               after the drain a channel is closed iff the   *)
(*                           hub let go of the client                      *)
(*  X02.EventuallyId         every registered client received its id       *)
(*  X02.EncodeDenotes X02.RoundTrip X02.OriParse X02.IdRoundTrip  (codec)  *)
(* After each line the model re-synchronises on the observation.           *)
(***************************************************************************)
EXTENDS RoomWire, Json

Trace == ndJsonDeserialize("trace.ndjson")

VARIABLES l, m, cnt
vars == <<l, m, cnt>>

NoMsg == [t |-> "none", id |-> <<>>, p |-> <<>>, ver |-> <<>>, scene |-> <<>>, pl |-> <<>>, opt |-> {}]
Empty == [n |-> 0, cap |-> 0, cl |-> <<>>, pl |-> <<>>, ql |-> <<>>, mq |-> <<>>, idOf |-> <<>>, gone |-> {},
          got |-> <<>>, scene |-> <<>>, sver |-> <<>>, gver |-> <<>>, dead |-> FALSE]
Counters == {"events", "drops", "unregister_of_dropped", "update_of_unregistered", "long_name", "long_objects",
             "bad_orientation", "state_frames", "state_frames_with_players", "closed_seen", "first_is_id", "codec_state",
             "codec_state_in_domain", "codec_ori", "codec_id", "cases", "signalling_nan_payloads"}
Init == l = 1 /\ m = Empty /\ cnt = [k \in Counters |-> 0]

Inc(c, ks) == [k \in Counters |-> IF k \in ks THEN c[k] + 1 ELSE c[k]]
Summary(c) == IF l = Len(Trace) THEN PrintT(ToJson([summary |-> c])) ELSE TRUE
Reject(bad, h) == IF bad = {} THEN TRUE ELSE PrintT(ToJson([l |-> l, bad |-> bad, h |-> h]))

Rng(f) == {f[x] : x \in DOMAIN f}
NoPlayer == [name |-> <<0 - 1>>, rep |-> <<>>]
PlayerOf(cl, pl, c) == IF c \in DOMAIN cl /\ cl[c] \in DOMAIN pl THEN pl[cl[c]] ELSE NoPlayer
Ghosts(cl, pl) == DOMAIN pl \ Rng(cl)
Missing(cl, pl) == Rng(cl) \ DOMAIN pl
Shared(cl) == {c \in DOMAIN cl : \E d \in DOMAIN cl : d # c /\ cl[d] = cl[c]}
Unrep(pl) == {id \in DOMAIN pl : ~PlayerInDomain(id, pl[id])}
Crowded(pl) == Cardinality(DOMAIN pl) > 255

(* ---------------- reset / bump ------------------------------------------- *)
Reset ==
    /\ l <= Len(Trace) /\ Trace[l].k = "reset"
    /\ LET ln == Trace[l] IN
       m' = [Empty EXCEPT !.n = ln.n, !.cap = ln.cap, !.ql = [c \in 1..ln.n |-> 0],
                          !.scene = ln.scene, !.sver = ln.sver, !.gver = ln.gver]
    /\ cnt' = Inc(cnt, {"cases"}) /\ Summary(cnt') /\ l' = l + 1

Bump ==
    /\ l <= Len(Trace) /\ Trace[l].k = "bump"
    /\ m' = [m EXCEPT !.gver = Trace[l].gver]
    /\ cnt' = cnt /\ Summary(cnt) /\ l' = l + 1

(* ---------------- hub events --------------------------------------------- *)
ObsCl(ln) ==
    LET add == {ln.cadd[i].c : i \in DOMAIN ln.cadd} IN
    [c \in (DOMAIN m.cl \ SeqSet(ln.cdel)) \cup add |->
        IF c \in add THEN ln.cadd[CHOOSE i \in DOMAIN ln.cadd : ln.cadd[i].c = c].id ELSE m.cl[c]]
ObsPl(ln) ==
    LET add == {ln.padd[i].id : i \in DOMAIN ln.padd} IN
    [id \in (DOMAIN m.pl \ SeqSet(ln.pdel)) \cup add |->
        IF id \in add THEN LET i == CHOOSE i \in DOMAIN ln.padd : ln.padd[i].id = id IN [name |-> ln.padd[i].name, rep |-> ln.padd[i].rep]
        ELSE m.pl[id]]

\* what a registered client's player may look like after one of its frames
NameOk(new, old, p) == IF Len(p) <= 255 THEN new = p ELSE (new = old \/ IsPrefix(new, p))
RepOk(new, old, p) ==
    IF Len(p) % ObjSize # 0 THEN new = old
    ELSE IF HasSNaN(p)       \* outside the float domain: only the shape is judged
         THEN new = old \/ Len(new) = Len(Chunks(p)) \/ (Len(Chunks(p)) > 255 /\ Len(new) <= 255)
    ELSE LET objs == Chunks(p) IN IF Len(objs) <= 255 THEN new = objs ELSE (new = old \/ IsPrefix(new, objs))

StepOk(ln, cl2, pl2) ==
    LET op == ln.op  c == ln.c
        full == {x \in DOMAIN m.cl : m.ql[x] >= m.cap}
        SameOthers(S) == \A x \in DOMAIN m.cl \ S : PlayerOf(cl2, pl2, x) = PlayerOf(m.cl, m.pl, x)
        SameQl == ln.ql = m.ql
        Quiet == ln.scene = m.scene /\ ln.sver = m.sver
    IN CASE op = "register" ->
              /\ DOMAIN cl2 = DOMAIN m.cl \cup {c} /\ \A x \in DOMAIN m.cl \ {c} : cl2[x] = m.cl[x]
              /\ PlayerOf(cl2, pl2, c).rep = <<>> /\ PlayerOf(cl2, pl2, c) # NoPlayer
              /\ SameOthers({c}) /\ ln.ql = [m.ql EXCEPT ![c] = 1] /\ Quiet
         [] op = "unregister" ->
              /\ cl2 = Restrict(m.cl, DOMAIN m.cl \ {c}) /\ SameOthers({c}) /\ SameQl /\ Quiet
         [] op \in {"broadcast", "tick"} ->
              /\ cl2 = Restrict(m.cl, DOMAIN m.cl \ full) /\ SameOthers(full)
              /\ ln.ql = [x \in 1..m.n |-> IF x \in DOMAIN m.cl \ full THEN m.ql[x] + 1 ELSE m.ql[x]]
              /\ ln.scene = m.scene /\ ln.sver = (IF op = "tick" THEN m.gver ELSE m.sver)
         [] op = "update" ->
              /\ cl2 = m.cl /\ SameQl /\ ln.sver = m.sver /\ SameOthers({c})
              /\ IF c \in DOMAIN m.cl
                 THEN LET old == PlayerOf(m.cl, m.pl, c)  new == PlayerOf(cl2, pl2, c) IN
                      /\ IF ln.ut = 1 THEN NameOk(new.name, old.name, ln.p) ELSE new.name = old.name
                      /\ IF ln.ut = 0 THEN RepOk(new.rep, old.rep, ln.p) ELSE new.rep = old.rep
                      /\ IF ln.ut = 2 /\ Len(ln.p) >= SceneSize THEN ln.scene = CanonScene(SubSeq(ln.p, 1, SceneSize))
                         ELSE ln.ut = 2 \/ ln.scene = m.scene
                 ELSE \* a frame of a client the hub does not know (dropped, not yet unregistered): no player moves
                      ln.ut = 2 \/ ln.scene = m.scene
         [] OTHER -> FALSE

Ev ==
    /\ l <= Len(Trace) /\ Trace[l].k = "ev"
    /\ LET ln == Trace[l] IN
       IF ln.res # "ok"
       THEN LET bad == (IF ln.res = "PANIC" /\ ln.pc = "send on closed channel" THEN {"X02.NoSendOnClosed"} ELSE {})
                       \cup (IF ln.res = "PANIC" /\ ln.pc = "close of closed channel" THEN {"X02.NoDoubleClose"} ELSE {})
                       \cup (IF ln.res = "PANIC" /\ ln.pc \notin {"send on closed channel", "close of closed channel"} THEN {"X02.NoPanic"} ELSE {})
                       \cup (IF ln.res = "HANG" THEN {"X02.NoHang"} ELSE {})
            IN /\ Reject(bad, ln.h) /\ m' = [m EXCEPT !.dead = TRUE]
               /\ cnt' = Inc(cnt, {"events"}) /\ Summary(cnt')
       ELSE LET cl2 == ObsCl(ln)  pl2 == ObsPl(ln)  c == ln.c
                full == {x \in DOMAIN m.cl : m.ql[x] >= m.cap}
                fan == ln.op \in {"broadcast", "tick"}
                lost == IF fan THEN full ELSE IF ln.op = "unregister" /\ c \in DOMAIN m.cl THEN {c} ELSE {}
                bad == (IF Ghosts(cl2, pl2) \subseteq Ghosts(m.cl, m.pl) /\ Missing(cl2, pl2) \subseteq Missing(m.cl, m.pl)
                           /\ Shared(cl2) \subseteq Shared(m.cl) THEN {} ELSE {"X02.PlayersMatchClients"})
                       \cup (IF ln.op = "register" /\ c \in DOMAIN cl2 /\ (cl2[c] \in DOMAIN m.pl \/ cl2[c] \in Rng(m.cl))
                             THEN {"X02.IdFresh"} ELSE {})
                       \cup (IF StepOk(ln, cl2, pl2) THEN {} ELSE {"X02.Step"})
                       \cup (IF Unrep(pl2) \subseteq Unrep(m.pl) /\ (Crowded(pl2) => Crowded(m.pl)) THEN {} ELSE {"X02.Representable"})
                msg == IF ln.op = "broadcast" THEN [NoMsg EXCEPT !.t = "bc", !.p = ln.p]
                       ELSE [NoMsg EXCEPT !.t = "st", !.ver = m.gver, !.scene = m.scene, !.pl = m.pl,
                                          !.opt = {m.cl[x] : x \in full}]
                mq2 == CASE ln.op = "register" -> Ext(m.mq, c, <<[NoMsg EXCEPT !.t = "id", !.id = IF c \in DOMAIN cl2 THEN cl2[c] ELSE <<>>]>>)
                         [] fan -> [x \in DOMAIN m.mq |-> IF x \in DOMAIN m.cl \ full THEN Append(m.mq[x], msg) ELSE m.mq[x]]
                         [] OTHER -> m.mq
            IN /\ Reject(bad, ln.h)
               /\ m' = [m EXCEPT !.cl = cl2, !.pl = pl2, !.ql = ln.ql, !.scene = ln.scene, !.sver = ln.sver, !.gver = ln.gver,
                                 !.mq = mq2, !.gone = @ \cup lost,
                                 !.idOf = IF ln.op = "register" THEN Ext(@, c, IF c \in DOMAIN cl2 THEN cl2[c] ELSE <<>>) ELSE @,
                                 !.got = IF ln.op = "register" THEN Ext(@, c, 0) ELSE @]
               /\ cnt' = Inc(cnt, {"events"}
                         \cup (IF fan /\ full # {} THEN {"drops"} ELSE {})
                         \cup (IF ln.op = "unregister" /\ c \notin DOMAIN m.cl THEN {"unregister_of_dropped"} ELSE {})
                         \cup (IF ln.op = "update" /\ c \notin DOMAIN m.cl THEN {"update_of_unregistered"} ELSE {})
                         \cup (IF ln.op = "update" /\ ln.ut = 1 /\ Len(ln.p) > 255 THEN {"long_name"} ELSE {})
                         \cup (IF ln.op = "update" /\ ln.ut = 0 /\ Len(ln.p) % ObjSize = 0 /\ Len(ln.p) > 255 * ObjSize THEN {"long_objects"} ELSE {})
                         \cup (IF ln.op = "update" /\ ln.ut = 0 /\ Len(ln.p) % ObjSize # 0 THEN {"bad_orientation"} ELSE {})
                         \cup (IF ln.op = "update" /\ ln.ut = 0 /\ Len(ln.p) % ObjSize = 0 /\ HasSNaN(ln.p) THEN {"signalling_nan_payloads"} ELSE {}))
               /\ Summary(cnt')
    /\ l' = l + 1

(* ---------------- a client takes a message off its channel --------------- *)
\* the state frame must denote the hub state at its tick; players the same tick dropped may already be gone from it
StateMsgOk(data, q) ==
    LET w == StateDecode(data) IN
    /\ w.ok /\ w.ver = q.ver /\ w.scene = q.scene
    /\ DOMAIN w.pl \subseteq DOMAIN q.pl /\ (DOMAIN q.pl \ DOMAIN w.pl) \subseteq q.opt
    /\ \A id \in DOMAIN w.pl : w.pl[id] = q.pl[id]

DecodeOk(fr, dec) ==
    CASE fr[1] = TId -> dec.res = "ok" /\ dec.t = TId /\ dec.sid = Tail(fr)
      [] fr[1] = TBcast -> dec.res = "ok" /\ dec.t = TBcast /\ dec.data = Tail(fr)
      [] fr[1] = TState -> LET w == StateDecode(Tail(fr)) IN     \* nothing is demanded of the decoder on an ill-formed frame
                           w.ok => /\ dec.res = "ok" /\ dec.t = TState
                                   /\ Distinct(dec.st.pl) /\ PlOfList(dec.st.pl) = w.pl
                                   /\ dec.st.ver = w.ver /\ dec.st.scene = w.scene
      [] OTHER -> dec.res = "ok" /\ dec.t = fr[1]

Recv ==
    /\ l <= Len(Trace) /\ Trace[l].k = "recv"
    /\ LET ln == Trace[l]  c == ln.c IN
       IF c \notin DOMAIN m.mq
       THEN /\ Reject(IF ln.res = "empty" THEN {} ELSE {"X02.Fifo"}, ln.h) /\ m' = m /\ cnt' = cnt /\ Summary(cnt)
       ELSE IF m.mq[c] # <<>>
       THEN LET q == Head(m.mq[c])
                isMsg == ln.res = "msg" /\ Len(ln.fr) >= 1
                typ == IF isMsg THEN ln.fr[1] ELSE 0 - 1
                data == IF isMsg THEN Tail(ln.fr) ELSE <<>>
                fifo == /\ isMsg
                        /\ typ = (CASE q.t = "id" -> TId [] q.t = "bc" -> TBcast [] OTHER -> TState)
                        /\ (q.t = "bc" => data = q.p)
                bad == (IF fifo THEN {} ELSE {"X02.Fifo"})
                       \cup (IF m.got[c] = 0 /\ ~(isMsg /\ typ = TId /\ data = m.idOf[c]) THEN {"X02.IdFirst"} ELSE {})
                       \cup (IF fifo /\ q.t = "st" /\ PlayersInDomain(q.pl) /\ ~StateMsgOk(data, q) THEN {"X02.StateMsg"} ELSE {})
                       \cup (IF isMsg /\ ~DecodeOk(ln.fr, ln.dec) THEN {"X02.Decode"} ELSE {})
            IN /\ Reject(bad, ln.h)
               /\ m' = IF isMsg THEN [m EXCEPT !.mq[c] = Tail(@), !.got[c] = @ + 1, !.ql[c] = @ - 1] ELSE m
               /\ cnt' = Inc(cnt, (IF fifo /\ q.t = "st" THEN {"state_frames"} ELSE {})
                                  \cup (IF fifo /\ q.t = "st" /\ q.pl # <<>> /\ PlayersInDomain(q.pl) THEN {"state_frames_with_players"} ELSE {})
                                  \cup (IF m.got[c] = 0 /\ isMsg /\ typ = TId THEN {"first_is_id"} ELSE {}))
               /\ Summary(cnt')
       ELSE LET want == IF c \in m.gone THEN "closed" ELSE "empty"
                bad == (IF ln.res = "msg" THEN {"X02.Fifo"} ELSE {})
                       \cup (IF ln.res # "msg" /\ ln.res # want /\ ~m.dead THEN {"X02.Closed"} ELSE {})
            IN /\ Reject(bad, ln.h)
               /\ m' = IF ln.res = "msg" THEN [m EXCEPT !.ql[c] = @ - 1] ELSE m      \* stay in step with the real queue
               /\ cnt' = Inc(cnt, IF ln.res = "closed" THEN {"closed_seen"} ELSE {}) /\ Summary(cnt')
    /\ l' = l + 1

End ==
    /\ l <= Len(Trace) /\ Trace[l].k = "end"
    /\ LET ln == Trace[l]
           bad == IF ~ln.hang /\ \E c \in DOMAIN m.got : m.got[c] = 0 THEN {"X02.EventuallyId"} ELSE {}
       IN Reject(bad, ln.h)
    /\ m' = m /\ cnt' = cnt /\ Summary(cnt) /\ l' = l + 1

(* ---------------- binary_message.go directly ----------------------------- *)
Codec ==
    /\ l <= Len(Trace) /\ Trace[l].k = "codec"
    /\ LET ln == Trace[l]
           st == [ver |-> ln.st.ver, scene |-> ln.st.scene, pl |-> PlOfList(ln.st.pl)]
           dom == ln.sub = "state" /\ InDomain(st)
           bad == CASE ln.sub = "state" ->
                       IF ~dom THEN {}
                       ELSE (IF ln.eres = "ok" /\ Len(ln.fr) >= 1 /\ ln.fr[1] = TState /\ Denotes(Tail(ln.fr), st)
                             THEN {} ELSE {"X02.EncodeDenotes"})
                            \cup (IF ln.dec.res = "ok" /\ ln.dec.t = TState /\ Distinct(ln.dec.st.pl)
                                     /\ PlOfList(ln.dec.st.pl) = st.pl /\ ln.dec.st.ver = st.ver /\ ln.dec.st.scene = CanonScene(st.scene)
                                  THEN {} ELSE {"X02.RoundTrip"})
                    [] ln.sub = "ori" ->
                       IF (Len(ln.p) % ObjSize = 0 /\ ln.eres = "ok" /\ (ln.objs = Chunks(ln.p) \/ (HasSNaN(ln.p) /\ Len(ln.objs) = Len(Chunks(ln.p)))))
                          \/ (Len(ln.p) % ObjSize # 0 /\ ln.eres = "err") THEN {} ELSE {"X02.OriParse"}
                    [] OTHER ->
                       IF ln.fr = <<TId>> \o ln.id /\ ln.dec.res = "ok" /\ ln.dec.t = TId /\ ln.dec.sid = ln.id
                       THEN {} ELSE {"X02.IdRoundTrip"}
       IN /\ Reject(bad, ln.h)
          /\ cnt' = Inc(cnt, CASE ln.sub = "state" -> {"codec_state"} \cup (IF dom THEN {"codec_state_in_domain"} ELSE {})
                               [] ln.sub = "ori" -> {"codec_ori"} \cup (IF Len(ln.p) % ObjSize = 0 /\ HasSNaN(ln.p) THEN {"signalling_nan_payloads"} ELSE {})
                               [] OTHER -> {"codec_id"})
          /\ Summary(cnt')
    /\ m' = m /\ l' = l + 1

\* the harness stopped executing hub cases after several stuck loops (each already rejected as X02.NoHang)
Skipped ==
    /\ l <= Len(Trace) /\ Trace[l].k = "skipped"
    /\ m' = m /\ cnt' = cnt /\ Summary(cnt) /\ l' = l + 1

Next == Reset \/ Bump \/ Ev \/ Recv \/ End \/ Codec \/ Skipped
Spec == Init /\ [][Next]_vars

\* every line was consumed (one state per line plus the initial state)
TraceAccepted == TLCGet("stats").diameter - 1 = Len(Trace)
=============================================================================
