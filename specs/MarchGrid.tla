------------------------------ MODULE MarchGrid ------------------------------
(***************************************************************************)
(* C09 (b): generator of sign lattices for the marching-cubes replay, and  *)
(* design-level check of the reference marching itself.                    *)
(*                                                                         *)
(* A SCENE is a sparse lattice field (see MarchRef) together with where it *)
(* is put in a real MarchingCanvas: the declared domain box lo..hi (in     *)
(* lattice points; every sample below the threshold is strictly inside),   *)
(* the resolution cpu (cubes per unit; world position = lattice point /    *)
(* cpu) and the attribute the field is registered under.                   *)
(*                                                                         *)
(* Two generators:                                                         *)
(*  SpecScenes  EXHAUSTIVE.  Every assignment of ValList values to a small *)
(*     block of Dims lattice points is a "lattice"; lattices are numbered  *)
(*     by their base-|ValList| code.  Scene s packs the NSlots lattices    *)
(*     with codes s*NSlots .. s*NSlots+NSlots-1 into one canvas on a slot  *)
(*     grid (Grid slots, Spacing apart, so lattices cannot interact).  The *)
(*     placement (base point of the grid), resolution, threshold and       *)
(*     default value of scene s are a fixed pseudo-random function of s    *)
(*     and Seed into BaseList x CpuList x CutList x DfltList, and the slot *)
(*     of a                                                                *)
(*     lattice is rotated by Seed, so that repeated runs move every        *)
(*     lattice across every placement.  BaseList holds placements inside   *)
(*     one storage block, straddling one or several of the code's          *)
(*     100-sample block boundaries in each axis, and at negative           *)
(*     coordinates.  One initial state per s in Scenes; no transitions.    *)
(*  SpecWalk    RANDOM (TLC -simulate).  Starting from the empty lattice   *)
(*     at a TLC-chosen placement, each step gives one more point of the    *)
(*     WalkBox a value from ValList; a walk of WalkDepth steps is one      *)
(*     scene (dense, interacting samples, ambiguous faces, tunnels).       *)
(*                                                                         *)
(* Checked on the specification itself (DesignBad, evaluated with every    *)
(* emitted scene and printed as its `design` field; never fatal: a failure *)
(* must be confirmed on the real code, because MarchRef depends on the     *)
(* code's own table, and the check turns an unconfirmed one into an        *)
(* infrastructure failure): the reference surface of                       *)
(* every generated scene is closed, consistently oriented, free of         *)
(* degenerate (repeated-corner or zero-area) triangles, encloses positive  *)
(* volume, and all its vertices lie on lattice edges that cross the        *)
(* threshold.  This is independent of the T1-T4 argument of MarchTable.    *)
(***************************************************************************)
EXTENDS MarchRef, TLC, Json

CONSTANTS Dims, ValList, Grid, Spacing, BaseList, CpuList, CutList, DfltList, Scenes, Seed,
          WalkBox, WalkDepth

VARIABLE sc
vars == <<sc>>

RECURSIVE Pow(_, _)
Pow(b, n) == IF n = 0 THEN 1 ELSE b * Pow(b, n - 1)

NV == Len(ValList)
NPts == Dims[1] * Dims[2] * Dims[3]
NCodes == Pow(NV, NPts)
NSlots == Grid[1] * Grid[2] * Grid[3]
NScenes == (NCodes + NSlots - 1) \div NSlots

Unrank(i, d) == <<i % d[1], (i \div d[1]) % d[2], i \div (d[1] * d[2])>>
Digit(c, i) == (c \div Pow(NV, i)) % NV

\* pseudo-random walk through BaseList x CpuList x CutList x DfltList (deterministic in s, Seed)
Pick(s) ==
    LET n == ((s + 31 * Seed) * 7919 + 104729) % 32768
        l1 == Len(BaseList)
        l2 == Len(CpuList)
        l3 == Len(CutList)
        l4 == Len(DfltList)
    IN [base |-> BaseList[(n % l1) + 1],
        cpu  |-> CpuList[((n \div l1) % l2) + 1],
        cut  |-> CutList[((n \div (l1 * l2)) % l3) + 1],
        dflt |-> DfltList[((n \div (l1 * l2 * l3)) % l4) + 1]]

SlotOrigin(base, j) ==
    LET g == Unrank(j, Grid)
    IN <<base[1] + g[1] * Spacing[1], base[2] + g[2] * Spacing[2], base[3] + g[3] * Spacing[3]>>

\* the samples of lattice `code` put at origin o
LatticeAt(code, o) ==
    {<<o[1] + Unrank(i, Dims)[1], o[2] + Unrank(i, Dims)[2], o[3] + Unrank(i, Dims)[3],
       ValList[Digit(code, i) + 1]>> : i \in 0..(NPts - 1)}

SceneOf(s) ==
    LET p == Pick(s)
        rot == (7 * s + 13 * Seed) % NSlots
        codes == {c \in (s * NSlots)..(s * NSlots + NSlots - 1) : c < NCodes}
        smp == UNION {LatticeAt(c, SlotOrigin(p.base, ((c - s * NSlots) + rot) % NSlots)) : c \in codes}
    IN [id |-> s, samples |-> SetToSeq(smp), dflt |-> p.dflt, cut |-> p.cut, cpu |-> p.cpu,
        lo |-> <<p.base[1] - 1, p.base[2] - 1, p.base[3] - 1>>,
        hi |-> <<p.base[1] + (Grid[1] - 1) * Spacing[1] + Dims[1],
                 p.base[2] + (Grid[2] - 1) * Spacing[2] + Dims[2],
                 p.base[3] + (Grid[3] - 1) * Spacing[3] + Dims[3]>>,
        attr |-> IF (s + Seed) % 2 = 0 THEN "Position" ELSE "blob"]

InitScenes == \E s \in Scenes : s < NScenes /\ sc = SceneOf(s)
SpecScenes == InitScenes /\ [][FALSE]_vars

(* ------------------------------ walks --------------------------------- *)
NBox == WalkBox[1] * WalkBox[2] * WalkBox[3]
InitWalk ==
    \E b \in 1..Len(BaseList), c \in 1..Len(CpuList), t \in 1..Len(CutList), d \in 1..Len(DfltList) :
        sc = [id |-> 0, samples |-> <<>>, dflt |-> DfltList[d], cut |-> CutList[t], cpu |-> CpuList[c],
              lo |-> <<BaseList[b][1] - 1, BaseList[b][2] - 1, BaseList[b][3] - 1>>,
              hi |-> <<BaseList[b][1] + WalkBox[1], BaseList[b][2] + WalkBox[2], BaseList[b][3] + WalkBox[3]>>,
              attr |-> IF (b + c + t) % 2 = 0 THEN "Position" ELSE "blob"]
NextWalk ==
    \/ /\ Len(sc.samples) < WalkDepth
       /\ \E i \in 0..(NBox - 1), v \in 1..NV :
             LET u == Unrank(i, WalkBox)
                 p == <<sc.lo[1] + 1 + u[1], sc.lo[2] + 1 + u[2], sc.lo[3] + 1 + u[3]>>
             IN /\ p \notin SamplePts(sc.samples)
                /\ sc' = [sc EXCEPT !.samples = Append(@, <<p[1], p[2], p[3], ValList[v]>>)]
    \* a single closing step: in simulation TLC evaluates invariants on EVERY candidate
    \* successor, so the scene is printed on the one successor of a complete walk
    \/ /\ Len(sc.samples) = WalkDepth /\ sc.id = 0
       /\ sc' = [sc EXCEPT !.id = 1]
SpecWalk == InitWalk /\ [][NextWalk]_vars

(* ------------------- design-level check and output -------------------- *)
Strictly(s) ==     \* every sample below the threshold is strictly inside the declared domain
    \A i \in DOMAIN s.samples :
        s.samples[i][4] < s.cut => \A j \in 1..3 : s.lo[j] < s.samples[i][j] /\ s.samples[i][j] < s.hi[j]

DesignBad(s, refset) ==
    LET ref == SetToSeq(refset)
        inside == InsidePts(s.samples, s.cut)
    IN (IF FieldOK(s.samples, s.dflt, s.cut) /\ Strictly(s) THEN {} ELSE {"Gen.FieldOK"})
       \cup (IF Oriented(ref) THEN {} ELSE {"Ref.Oriented"})
       \cup (IF Paired(ref) THEN {} ELSE {"Ref.Closed"})
       \cup (IF NoDegenerate(ref) /\ NonZeroArea(ref) THEN {} ELSE {"Ref.NoDegenerate"})
       \cup (IF ref = <<>> \/ VolPositive(ref) THEN {} ELSE {"Ref.Outward"})
       \cup (IF \A i \in DOMAIN ref : \A j \in 1..3 : OnCrossingEdge(inside, ref[i][j]) THEN {} ELSE {"Ref.OnEdge"})

Out(s) ==
    LET refset == Ref(s.samples, s.dflt, s.cut)
    IN [case |-> [kind |-> "grid", id |-> s.id, samples |-> s.samples, dflt |-> s.dflt, cut |-> s.cut,
                  cpu |-> s.cpu, lo |-> s.lo, hi |-> s.hi, attr |-> s.attr],
        reftris |-> Cardinality(refset),
        design |-> DesignBad(s, refset)]

\* BFS over the initial states: once per scene
Emit == PrintT(ToJson(Out(sc)))
\* simulation: only complete walks (invariants are evaluated on every candidate successor)
EmitLeaf == sc.id = 0 \/ PrintT(ToJson(Out(sc)))
=============================================================================
