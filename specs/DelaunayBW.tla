----------------------------- MODULE DelaunayBW -----------------------------
(***************************************************************************)
(* C20, design level and generator: an implementation-shaped (L2) model of *)
(* polyform's bowyerWatson with exact integer arithmetic.                  *)
(*                                                                         *)
(*  Grow    append a lattice point that keeps the sequence in general      *)
(*          position: every sequence of MinN..MaxN points of the K x K     *)
(*          lattice in general position is reached (the order is the       *)
(*          insertion order of the algorithm)                              *)
(*  Start   fix the input, build the super-triangle                        *)
(*  Insert  point i: collect the triangles whose circumcircle contains it  *)
(*          (the code's determinant test, which assumes clockwise          *)
(*          triangles), keep the edges of those triangles that no other    *)
(*          collected triangle shares (the boundary of the hole), remove   *)
(*          the collected triangles and fan the boundary to the point,     *)
(*          swapping two corners when the new triangle is counter-         *)
(*          clockwise (fillHole)                                           *)
(*  Strip   remove every triangle with a corner of the enclosing           *)
(*          super-triangle                                                 *)
(* Coordinates are doubled so that the super-triangle of the code          *)
(* (x middle = (min+max)/2, base below the lowest point, apex M*height     *)
(* above the base, half width M*width) stays on integers. polyform uses    *)
(* M = 20; the model is checked with M = 8, which keeps every in-circle    *)
(* determinant inside int32 (|difference| <= 110) and still encloses all   *)
(* points. The base is one point-set height below the lowest point         *)
(* (AbsMargin = 0, the repaired code) or a fixed AbsMargin below it (the   *)
(* pinned tree used the constant 2, i.e. 4 in doubled lattice units at     *)
(* lattice scale 1, 4*s for a copy of the lattice scaled by 1/s): with a   *)
(* large AbsMargin the apex drops below the points and TLC finds           *)
(* overlapping, non-Delaunay results - the defect of the pinned tree.      *)
(*                                                                         *)
(* Checked: PostInv - in the final state the four consequents of C20 hold  *)
(* (Delaunay!Judge = {}).  Witnesses that must be REACHABLE (expected      *)
(* violations): NeverEmpty (the finite super-triangle can lose every       *)
(* triangle: the statement does not promise hull coverage), NeverBigHole.  *)
(* Variant selects the algorithm: "code", and defects TLC must refute:     *)
(*   "leakSuper"      Strip only looks at the first corner                 *)
(*   "noHoleBoundary" every edge of a collected triangle is fanned         *)
(*   "keepBad"        the collected triangles are not removed              *)
(*   "sharedCap"      the flags "this edge is shared" live in a store with *)
(*                    room for the edges of Cap collected triangles; the   *)
(*                    edges of the others are never flagged and all go to  *)
(*                    the hole boundary (a fixed-width bit set: right up   *)
(*                    to a cavity of Cap triangles, wrong beyond it; the   *)
(*                    model uses Cap = 2 so that 4 lattice points reach it)*)
(* and "noWindingFix" (the fan keeps the boundary edge's direction), which *)
(* TLC shows to be EQUIVALENT on these inputs: the boundary of a hole in a *)
(* clockwise triangulation already runs clockwise around the new point, so *)
(* the swap in fillHole never fires (CWInv and PostInv hold without it).   *)
(* With Run = FALSE the module only enumerates and prints the inputs       *)
(* (generator of the replay binding).                                      *)
(***************************************************************************)
EXTENDS Delaunay, SequencesExt, FiniteSetsExt, TLC, Json

CONSTANTS K, MinN, MaxN, M, AbsMargin, Variant, Run

\* all: the doubled input points followed by the super-triangle (fixed by Init; kept in the state
\* because TLC re-evaluates state-dependent definitions at every use)
VARIABLES pts, all, i, tris, phase
vars == <<pts, all, i, tris, phase>>

Lat == {<<x, y>> : x \in 0..(K - 1), y \in 0..(K - 1)}
n == Len(pts)

\* doubled input points followed by the three corners of the super-triangle
DblOf(P) == [k \in DOMAIN P |-> <<2 * P[k][1], 2 * P[k][2]>>]
SuperOf(D) ==
    LET xs == {D[k][1] : k \in DOMAIN D}
        ys == {D[k][2] : k \in DOMAIN D}
        w == Max(xs) - Min(xs)
        h == Max(ys) - Min(ys)
        y0 == Min(ys) - (IF AbsMargin = 0 THEN h ELSE AbsMargin)
        xm == (Min(xs) + Max(xs)) \div 2
    IN <<<<xm - w * M, y0>>, <<xm, y0 + h * M>>, <<xm + w * M, y0>>>>
All == all
Dbl == SubSeq(all, 1, n)

Init == pts = <<>> /\ all = <<>> /\ i = 0 /\ tris = {} /\ phase = "choose"

\* p keeps the sequence P in general position (P already is)
Extends(P, p) ==
    /\ \A a \in DOMAIN P : P[a] # p
    /\ \A a \in DOMAIN P : \A b \in (a + 1)..Len(P) : Orient(P[a], P[b], p) # 0
    /\ \A a \in DOMAIN P : \A b \in (a + 1)..Len(P) : \A c \in (b + 1)..Len(P) : InCircleDet(P[a], P[b], P[c], p) # 0

Grow ==
    /\ phase = "choose" /\ Len(pts) < MaxN
    /\ \E p \in Lat : Extends(pts, p) /\ pts' = Append(pts, p)
    /\ UNCHANGED <<all, i, tris, phase>>

Start ==
    /\ phase = "choose" /\ Len(pts) >= MinN
    /\ all' = DblOf(pts) \o SuperOf(DblOf(pts))
    /\ i' = 1
    /\ tris' = {<<Len(pts) + 1, Len(pts) + 2, Len(pts) + 3>>}
    /\ phase' = "insert"
    /\ UNCHANGED pts

\* the code's test: determinant < 0, right for clockwise triangles
InsideCC(t, p) ==
    InCircleDet(All[t[1]], All[t[2]], All[t[3]], p) < 0

Cap == 2
SameEdge(e, f) == e = f \/ e = <<f[2], f[1]>>
CCW(t) == Orient(All[t[1]], All[t[2]], All[t[3]]) > 0

Insert ==
    /\ phase = "insert" /\ i <= n
    /\ LET p == All[i]
           bad == {t \in tris : InsideCC(t, p)}
           \* "sharedCap": the shared-edge flags have room for the first Cap collected triangles only
           low == IF Variant = "sharedCap" /\ Cardinality(bad) > Cap
                  THEN CHOOSE S \in SUBSET bad : Cardinality(S) = Cap ELSE bad
           hole == {e \in UNION {Edges(t) : t \in bad} :
                      \/ Variant = "noHoleBoundary"
                      \/ \E t \in bad \ low : e \in Edges(t)
                      \/ \A t \in bad : e \in Edges(t) => \A t2 \in bad \ {t} : \A f \in Edges(t2) : ~SameEdge(e, f)}
           fan(e) == LET t == <<e[1], e[2], i>>
                     IN IF Variant # "noWindingFix" /\ CCW(t) THEN <<e[1], i, e[2]>> ELSE t
       IN tris' = (IF Variant = "keepBad" THEN tris ELSE tris \ bad) \cup {fan(e) : e \in {f \in hole : f[1] # i /\ f[2] # i}}
    /\ i' = i + 1
    /\ UNCHANGED <<pts, all, phase>>

Strip ==
    /\ phase = "insert" /\ i = n + 1
    /\ tris' = {t \in tris : IF Variant = "leakSuper" THEN t[1] <= n ELSE \A c \in Corners(t) : c <= n}
    /\ phase' = "done"
    /\ UNCHANGED <<pts, all, i>>

Next == Grow \/ Start \/ (Run /\ (Insert \/ Strip))
Spec == Init /\ [][Next]_vars

\* the four consequents of C20 on the final triangulation (the antecedent holds by Init)
\* GeneralPosition is evaluated again by Judge: the incremental Extends must agree with it
ChosenInv == phase = "insert" /\ i = 1 => GeneralPosition(pts)
PostInv == phase = "done" => Judge(Dbl, Dbl, TRUE, TRUE, SetToSeq(tris)) = {}

\* during insertion the triangulation (super-triangle included) stays consistently clockwise
CWInv == \A t \in tris : Orient(All[t[1]], All[t[2]], All[t[3]]) <= 0

NeverEmpty == ~(phase = "done" /\ tris = {})
NeverBigHole == ~(phase = "insert" /\ i <= n /\ Cardinality({t \in tris : InsideCC(t, All[i])}) >= 3)

\* generator: one line per input sequence
Emit == (phase = "insert" /\ i = 1) => PrintT(ToJson([pts |-> pts]))
=============================================================================
