---------------------------- MODULE RoomShapeGen ----------------------------
(***************************************************************************)
(* X02 - generator of room-state SHAPES for the codec round trip: every    *)
(* multiset of at most MaxPlayers players whose id / name / object-list    *)
(* lengths sit on the boundaries of the one-byte length fields.  The       *)
(* harness fills the shapes with seeded bytes; TraceRoom judges the frames *)
(* by denotation (RoomWire!StateDecode).                                   *)
(***************************************************************************)
EXTENDS Integers, Sequences, FiniteSets, TLC, Json

CONSTANTS MaxPlayers, IdLens, NameLens, ObjCounts

Entry == [il : IdLens, nl : NameLens, nr : ObjCounts]
Key(e) == (e.il * 1000 + e.nl) * 1000 + e.nr
\* multisets as non-decreasing sequences
Shapes == UNION {{s \in [1..k -> Entry] : \A i \in 1..(k - 1) : Key(s[i]) <= Key(s[i + 1])} : k \in 0..MaxPlayers}

VARIABLE shape
Init == shape \in Shapes
Next == UNCHANGED shape
Spec == Init /\ [][Next]_shape
Emit == PrintT(ToJson([shape |-> shape]))
=============================================================================
