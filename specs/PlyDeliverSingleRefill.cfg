CONSTANTS
  FieldSizes <- SampleFields
  Discipline = "single"
  Delivery = "refill"
  Refill = 16
SPECIFICATION Spec
INVARIANTS DeliveryIndependent Consumed
CHECK_DEADLOCK FALSE
