CONSTANTS
  NPoints = 2
  NTracks = 2
  ZeroOnShort = FALSE
SPECIFICATION Spec
INVARIANTS NoPanic
CHECK_DEADLOCK FALSE
