--------------------------- MODULE TraceHttpEdit ---------------------------
(***************************************************************************)
(* X04 - trace validation of the editor's HTTP API against HttpEdit        *)
(* (sequential histories: one client, one request at a time).              *)
(*                                                                         *)
(* Lines (harness/httpfam/exec.go):                                        *)
(*   {"k":"reset", app, fh, fok, file}                                     *)
(*   {"k":"base", app, rg, fh, fok, file}  the state after a prelude that  *)
(*    was executed without logging (another history of the run logs the    *)
(*    same prelude step by step): the judge synchronises on it; rg = the   *)
(*    graph the harness last fetched with GET /graph                       *)
(*   {"k":"req", r: request of HttpEdit, st: status (-1 = a panic left the *)
(*    handler, -2 = not sent), rk: body kind, rid/rtype/rval/rtext/rg:     *)
(*    projected response, app: application graph after the request,        *)
(*    fh: digest of the autosaved file, fok/file: that file loaded into a  *)
(*    fresh application (graph + artifacts)}                               *)
(*                                                                         *)
(* Predicates (bad = names of the violated ones):                          *)
(*   X04.NoPanic    no panic leaves the handler (every request)            *)
(*   X04.Accepts    a valid request is answered 2xx                        *)
(*   X04.Rejects    an invalid request is answered 4xx/5xx                 *)
(*   X04.ErrorBody  an error answer carries a JSON document {"error": s}   *)
(*   X04.Effect     after a valid request the application graph is         *)
(*                  Effect(g, r) - exactly the GraphEdit step              *)
(*   X04.Frame      an invalid / neutral request leaves the graph as it was*)
(*   X04.Response   the answer names the result: the (fresh) id and the type *)
(*                  of the new node - Effect then demands that node under  *)
(*                  exactly that id -,                                     *)
(*                  parameter value / name, the graph (GET /graph,         *)
(*                  /schema), the artifact BY VALUE (Art), the zip entries *)
(*   X04.Saved      after a valid edit the autosaved file loads into a     *)
(*                  fresh application as the same graph with the same      *)
(*                  artifacts                                              *)
(*   X04.FileFrame  an invalid request leaves the saved file byte for byte *)
(*   X04.ReadOnly   a read request changes neither graph nor file          *)
(*   Route.Mismatch the request line is not the one of HttpEdit's table    *)
(*                  (binding guard; infrastructure, not a verdict)         *)
(* After each line the model re-synchronises on the observed application   *)
(* graph (so one defect is reported once); if that graph is not            *)
(* representable (dangling reference, unknown node) the rest of the        *)
(* history is consumed without judgement except NoPanic.                   *)
(***************************************************************************)
EXTENDS HttpEdit

Trace == ndJsonDeserialize("trace.ndjson")
VARIABLES l, pfh, live
tvars == <<g, hist, snap, file, l, pfh, live>>

SeqSet(s) == {s[i] : i \in DOMAIN s}
ModelNodes(gr) ==
    LET ord == SetToSortSeq(gr.ids, LAMBDA x, y : x < y) IN
    [i \in 1..Len(ord) |-> LET n == ord[i] IN
        [id |-> n, type |-> gr.type[n], name |-> gr.name[n], desc |-> gr.desc[n], val |-> gr.val[n],
         single |-> gr.single[n], arr |-> gr.arr[n]]]
Core(p) == [nodes |-> p.nodes, prod |-> SeqSet(p.prod), meta |-> SeqSet(p.meta)]
ModelCore(gr) == [nodes |-> ModelNodes(gr), prod |-> gr.prod, meta |-> gr.meta]
Wiring(p) == [nodes |-> p.nodes, prod |-> SeqSet(p.prod)]          \* what GET /schema can show
ModelWiring(gr) == [nodes |-> ModelNodes(gr), prod |-> gr.prod]
ArtsOf(p) == {<<p.arts[i].name, p.arts[i].content>> : i \in DOMAIN p.arts}

\* a projection that denotes a GraphEdit graph
ProjIds(p) == {p.nodes[i].id : i \in DOMAIN p.nodes}
Clean(p) ==
    /\ p.unknown = 0 /\ Cardinality(ProjIds(p)) = Len(p.nodes)
    /\ \A i \in DOMAIN p.nodes :
          /\ \A k \in 1..4 : p.nodes[i].single[k] = 0 - 1 \/ p.nodes[i].single[k] \in ProjIds(p)
          /\ \A k \in DOMAIN p.nodes[i].arr : p.nodes[i].arr[k] \in ProjIds(p)
    /\ \A q \in SeqSet(p.prod) : q[2] \in ProjIds(p)
FromProj(p) ==
    LET ids == ProjIds(p)
        at(n) == p.nodes[CHOOSE i \in DOMAIN p.nodes : p.nodes[i].id = n]
    IN [ids |-> ids, type |-> [n \in ids |-> at(n).type], name |-> [n \in ids |-> at(n).name],
        desc |-> [n \in ids |-> at(n).desc], val |-> [n \in ids |-> at(n).val],
        single |-> [n \in ids |-> at(n).single], arr |-> [n \in ids |-> at(n).arr],
        prod |-> SeqSet(p.prod), meta |-> SeqSet(p.meta)]

\* register 1 accumulates [class/kind/reason -> number of judged lines] (vacuity counters, printed at the end)
Bump(f, k) == IF k \in DOMAIN f THEN [f EXCEPT ![k] = @ + 1] ELSE (k :> 1) @@ f

TInit == TLCSet(1, <<>>) /\ l = 1 /\ g = Empty /\ hist = <<>> /\ snap = Empty /\ file = Empty /\ pfh = <<0, 0, 0>> /\ live = TRUE

TReset ==
    /\ l <= Len(Trace) /\ Trace[l].k = "reset"
    /\ LET ln == Trace[l]
           bad == IF Clean(ln.app) /\ Core(ln.app) = ModelCore(Empty) /\ ln.fok /\ Core(ln.file) = ModelCore(Empty)
                  THEN {} ELSE {"Route.Mismatch"}
       IN IF bad = {} THEN TRUE ELSE PrintT(ToJson([l |-> l, bad |-> bad, class |-> "reset", why |-> "reset", live |-> TRUE]))
    /\ g' = Empty /\ snap' = Empty /\ file' = Empty /\ pfh' = Trace[l].fh /\ live' = TRUE
    /\ hist' = hist /\ l' = l + 1

TBase ==
    /\ l <= Len(Trace) /\ Trace[l].k = "base"
    /\ LET ln == Trace[l] IN
       /\ IF Clean(ln.app) THEN g' = FromProj(ln.app) /\ live' = TRUE ELSE g' = g /\ live' = FALSE
       /\ snap' = IF Clean(ln.rg) THEN FromProj(ln.rg) ELSE Empty
       /\ pfh' = ln.fh
    /\ UNCHANGED <<hist, file>> /\ l' = l + 1

Ok2xx(st) == st >= 200 /\ st < 300
Err(st) == st >= 400 /\ st < 600

\* does the answer of a valid request name the result?
ResponseOK(gr, r, ln) ==
    CASE r.kind = "create" -> ln.rk = "json-object" /\ FreshId(gr, ln.rid) /\ ln.rtype = r.a
      [] r.kind = "getval" -> ln.rval = gr.val[r.a]
      [] r.kind = "getname" -> ln.rval = gr.name[r.a]
      [] r.kind = "getgraph" -> Clean(ln.rg) /\ Core(ln.rg) = ModelCore(gr)
      [] r.kind = "getschema" -> Clean(ln.rg) /\ Wiring(ln.rg) = ModelWiring(gr)
      [] r.kind = "getart" -> ln.rtext = Art(gr, ProducerNode(gr, r.a))
      [] r.kind = "getzip" -> ln.rg.unknown = 0 /\ ArtsOf(ln.rg) = ArtSet(gr)
      [] r.kind = "getstarted" -> ln.rk = "json-object"
      [] r.kind \in {"getmermaid", "getswagger"} -> ln.rk # "empty"
      [] OTHER -> ln.rk \in {"empty", "json-object"}

TReq ==
    /\ l <= Len(Trace) /\ Trace[l].k = "req"
    /\ LET ln == Trace[l]
           r == ln.r
           sent == ln.st # 0 - 2
           cls == Class(g, r)
           why == Reason(g, r)
           g2 == EffectK(g, snap, r, IF FreshId(g, ln.rid) THEN ln.rid ELSE NewId(g.ids))
           appOK == Clean(ln.app) /\ Core(ln.app) = ModelCore(g2)
           fileIsG2 == ln.fok /\ Clean(ln.file) /\ Core(ln.file) = ModelCore(g2)
                       /\ (AcyclicG(g2) => ArtsOf(ln.file) = ArtSet(g2))
           bad == IF ~live \/ ~sent
                  THEN (IF ln.st = 0 - 1 THEN {"X04.NoPanic"} ELSE {})
                  ELSE
                  (IF ~RouteOK(r) \/ ~Encodable(g, r) THEN {"Route.Mismatch"} ELSE {})
                  \cup (IF ln.st = 0 - 1 THEN {"X04.NoPanic"} ELSE {})
                  \cup (IF cls = "valid" /\ ln.st # 0 - 1 /\ ~Ok2xx(ln.st) THEN {"X04.Accepts"} ELSE {})
                  \cup (IF cls = "invalid" /\ ln.st # 0 - 1 /\ ~Err(ln.st) THEN {"X04.Rejects"} ELSE {})
                  \cup (IF Err(ln.st) /\ ln.rk # "json-error" THEN {"X04.ErrorBody"} ELSE {})
                  \cup (IF cls = "valid" /\ Changes(r) /\ ~appOK THEN {"X04.Effect"} ELSE {})
                  \cup (IF cls # "valid" /\ ~IsRead(r) /\ ~appOK THEN {"X04.Frame"} ELSE {})
                  \cup (IF cls = "valid" /\ Ok2xx(ln.st) /\ ~ResponseOK(g, r, ln) THEN {"X04.Response"} ELSE {})
                  \cup (IF cls = "valid" /\ Changes(r) /\ ~fileIsG2 THEN {"X04.Saved"} ELSE {})
                  \cup (IF cls = "invalid" /\ ~IsRead(r) /\ ln.fh # pfh THEN {"X04.FileFrame"} ELSE {})
                  \cup (IF cls = "neutral" /\ ~IsRead(r) /\ ~fileIsG2 THEN {"X04.FileFrame"} ELSE {})
                  \cup (IF IsRead(r) /\ (~appOK \/ ln.fh # pfh) THEN {"X04.ReadOnly"} ELSE {})
       IN /\ IF bad = {} THEN TRUE
             ELSE PrintT(ToJson([l |-> l, bad |-> bad, class |-> cls, why |-> why, live |-> live]))
          /\ IF live /\ sent THEN TLCSet(1, Bump(TLCGet(1), cls \o "/" \o r.kind \o "/" \o why)) ELSE TRUE
          \* re-synchronise on what the application really is
          /\ IF live /\ Clean(ln.app)
             THEN g' = FromProj(ln.app) /\ live' = TRUE
             ELSE g' = g /\ live' = FALSE
          /\ snap' = IF live /\ r.kind = "getgraph" /\ r.flaw = "none" /\ Ok2xx(ln.st) /\ Clean(ln.rg)
                     THEN FromProj(ln.rg) ELSE snap
          /\ pfh' = ln.fh
    /\ UNCHANGED <<hist, file>> /\ l' = l + 1

TNext == TReset \/ TBase \/ TReq
TSpec == TInit /\ [][TNext]_tvars
TraceAccepted == PrintT(ToJson([stat |-> TLCGet(1)])) /\ TLCGet("stats").diameter - 1 = Len(Trace)
=============================================================================
