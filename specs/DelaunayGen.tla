----------------------------- MODULE DelaunayGen -----------------------------
(***************************************************************************)
(* C20, generator of STRUCTURED point sets (binding B1).                   *)
(*                                                                         *)
(* Uniform and clustered sets never make one insertion of an incremental   *)
(* triangulation invalidate more than a handful of triangles, and never    *)
(* put several nearly collinear points in a row on the hull.  The shapes   *)
(* below do, for every size of a ladder, and the INSERTION ORDER is part   *)
(* of the case (the same set is emitted in several orders):                *)
(*                                                                         *)
(*  ring    about n lattice points within a tenth of a unit of a circle    *)
(*          (full turn or an arc), plus one point inside the circle: every *)
(*          triangle of the ring has (nearly) that circle as circumcircle, *)
(*          so inserting the inner point AFTER the ring invalidates about  *)
(*          n - 2 triangles at once (cavity of n - 2, fan of n); inserted  *)
(*          FIRST, every later insertion is a small cavity next to a fan   *)
(*          of growing degree                                              *)
(*  run     r points within one lattice unit of a side of the bounding box *)
(*          (one side, two opposite sides, or all four), the rest inside;  *)
(*          emitted stretched by 2^a along the run, so the run is within   *)
(*          1/(100 * 2^a) = 1e-2 .. 1e-5 of the extent from a line: thin   *)
(*          hull triangles whose circumcircles are larger than any finite  *)
(*          enclosing triangle                                             *)
(*  grid    a g x g grid of step s, every point moved by at most one unit: *)
(*          every cell is a nearly co-circular quadruple                   *)
(*                                                                         *)
(* All arithmetic is on integers.  Directions come from a table of         *)
(* 1024 * cos(k * 2pi/64); per-point jitter from a hash of (Seed, case,    *)
(* point).  A candidate is kept only when the set stays in general         *)
(* position (distinct, no three collinear, no four co-circular in the      *)
(* metric of the emitted copy) - each candidate has a few alternatives a   *)
(* unit away, the first admissible one is taken - so the cases are inside  *)
(* the antecedent of C20 by construction; TraceDelaunay evaluates          *)
(* GeneralPositionS again on what was executed.                            *)
(* int32 budget: lattice 0..100 as in Delaunay.tla; Hash < 2^31 for        *)
(* Seed <= 1000, case id <= 2000, point <= 600.                            *)
(*                                                                         *)
(* TLC enumerates Params (one initial state per case) and prints each case *)
(* through the invariant Emit; Python shards the run (Shard of Shards).    *)
(***************************************************************************)
EXTENDS Delaunay, SequencesExt, FiniteSetsExt, TLC, Json

CONSTANTS Seed, Shard, Shards, Thorough

VARIABLE c

L == 100
OnLat(p) == p[1] \in 0..L /\ p[2] \in 0..L

\* three rounds of squaring modulo the prime 32749 (h * h < 2^31); a linear hash correlates the two coordinates
Hash(a, b) ==
    LET h1 == (Seed * 7919 + a * 104729 + b * 1299709) % 32749
        h2 == (h1 * h1 + b * 31 + 7) % 32749
        h3 == (h2 * h2 + a * 17 + 3) % 32749
    IN (h3 * h3 + h1) % 32749
Jit(a, b, w) == (Hash(a, b) % (2 * w + 1)) - w

CosQ == <<1024, 1019, 1004, 980, 946, 903, 851, 792, 724, 650, 569, 483, 392, 297, 200, 100, 0>>
Cos(k) == LET m == k % 64
          IN IF m <= 16 THEN CosQ[m + 1]
             ELSE IF m <= 32 THEN -CosQ[33 - m]
             ELSE IF m <= 48 THEN -CosQ[m - 31]
             ELSE CosQ[65 - m]
Sin(k) == Cos(k + 48)
Rnd(v) == (v + 512) \div 1024
Polar(cx, cy, r, d) == <<cx + Rnd(r * Cos(d)), cy + Rnd(r * Sin(d))>>
\* the same around a centre that is off the lattice by (fx, fy) / 1024: rounding then differs on opposite sides, so
\* the ring has no mirror symmetry (a symmetric ring is full of exactly co-circular quadruples) and stays within
\* half a unit of the circle
PolarF(cx, cy, fx, fy, r, d) == <<cx + Rnd(r * Cos(d) + fx), cy + Rnd(r * Sin(d) + fy)>>

\* p keeps P in general position in the metric stretched by sqrt(u), sqrt(v)
Keeps(P, p, u, v) ==
    /\ \A a \in DOMAIN P : P[a] # p
    /\ \A a \in DOMAIN P : \A b \in (a + 1)..Len(P) : Orient(P[a], P[b], p) # 0
    /\ \A a \in DOMAIN P : \A b \in (a + 1)..Len(P) : \A d \in (b + 1)..Len(P) :
          InCircleSgnS(P[a], P[b], P[d], p, u, v) # 0

RECURSIVE First(_, _, _, _, _)
First(acc, alts, j, u, v) ==
    IF j > Len(alts) THEN <<>>
    ELSE IF OnLat(alts[j]) /\ Keeps(acc, alts[j], u, v) THEN <<alts[j]>>
    ELSE First(acc, alts, j + 1, u, v)

\* cands: a sequence of sequences of alternatives; a candidate without an admissible alternative is dropped
\* (FoldLeft is evaluated iteratively by TLC: a recursive operator overflows the stack on long candidate lists)
Take(acc0, cands, k0, u, v) == FoldLeft(LAMBDA acc, alts : acc \o First(acc, alts, 1, u, v), acc0, cands)

Around(p) == <<p, <<p[1] + 1, p[2]>>, <<p[1], p[2] + 1>>, <<p[1] - 1, p[2]>>, <<p[1], p[2] - 1>>, <<p[1] + 1, p[2] + 1>>>>

(* ------------------------------ the shapes ------------------------------ *)
\* Ring of about n points over `span` of the 64 directions starting at d0, radius r: the lattice points CLOSEST to the
\* circle.  The centre is off the lattice by (fx, fy) / 15 (no mirror symmetry: a symmetric ring is full of exactly
\* co-circular quadruples); distances are squared and scaled by 15.  A lattice point is taken when its squared distance
\* differs from r^2 by at most W: the annulus has area 2 pi W, so W = n * 10 / 48 gives about 1.3 n points, each within
\* W / (2 r) of the circle (0.1 of a unit for 40 points at radius 45 - five times closer than rounding a regular
\* polygon to the lattice, whose sagitta between neighbours would be below the rounding error).  Every third case is a
\* loose ring (4 W).  Candidates come in lexicographic order of (x, y): a sweep, not a walk around the circle.
Abs(x) == IF x < 0 THEN -x ELSE x
RingSet(id, n, r, d0, span) ==
    LET cx == 750 + (Hash(id, 503) % 15)
        cy == 750 + (Hash(id, 504) % 15)
        W == ((225 * n * 10) \div 48) * (IF Hash(id, 505) % 3 = 0 THEN 4 ELSE 1)
        dm == d0 + span \div 2
        lo == 50 - r - 2
        hi == 50 + r + 3
    IN {p \in (lo..hi) \X (lo..hi) :
          /\ Abs((15 * p[1] - cx) * (15 * p[1] - cx) + (15 * p[2] - cy) * (15 * p[2] - cy) - 225 * r * r) <= W
          /\ span = 64 \/ (p[1] - 50) * Cos(dm) + (p[2] - 50) * Sin(dm) >= r * Cos(span \div 2)}
\* at most 72 candidates (every st-th one of a longer list): the general-position filter is quartic in their number
RingCands(id, n, r, d0, span) ==
    LET q == SetToSeq(RingSet(id, n, r, d0, span))
        st == (Len(q) + 71) \div 72
    IN [k \in 1..(Len(q) \div st) |-> <<q[k * st]>>]
\* the inner point: near the centre for a full turn, half way to the middle of an arc
Inner(id, r, d0, span) ==
    LET q == IF span = 64 THEN <<50 + Jit(id, 501, r \div 4), 50 + Jit(id, 502, r \div 4)>>
             ELSE Polar(50 + Jit(id, 501, 2), 50 + Jit(id, 502, 2), r \div 2, d0 + span \div 2)
    IN Around(q)

\* r points within a unit of `sides` sides of the box (1: bottom, 2: bottom and top, 4: all), n - r inside
RunCands(id, n, r, sides) ==
    [k \in 1..n |->
        IF k <= r
        THEN LET side == k % sides                  \* 0: bottom 1: top 2: left 3: right
                 m == (k - 1) \div sides            \* position along the side
                 per == (r + sides - 1) \div sides
                 t == IF per <= 1 THEN 50 ELSE (m * 100) \div (per - 1)
                 o == Hash(id, k) % 2
                 p == IF side = 0 THEN <<t, o>> ELSE IF side = 1 THEN <<t, 100 - o>>
                      ELSE IF side = 2 THEN <<o, t>> ELSE <<100 - o, t>>
             IN <<p, IF side < 2 THEN <<p[1] + 1, p[2]>> ELSE <<p[1], p[2] + 1>>,
                     IF side < 2 THEN <<p[1] - 1, p[2]>> ELSE <<p[1], p[2] - 1>>,
                     IF side < 2 THEN <<p[1] + 2, p[2]>> ELSE <<p[1], p[2] + 2>>>>
        ELSE Around(<<3 + (Hash(id, k) % 95), 3 + (Hash(id, 300 + k) % 95)>>)]

GridCands(id, g, s) ==
    [k \in 1..(g * g) |->
        Around(<<50 - (s * (g - 1)) \div 2 + s * ((k - 1) % g) + Jit(id, k, 1),
                 50 - (s * (g - 1)) \div 2 + s * ((k - 1) \div g) + Jit(id, 200 + k, 1)>>)]

(* ------------------------------ the orders ------------------------------ *)
RECURSIVE Gcd(_, _)
Gcd(a, b) == IF b = 0 THEN a ELSE Gcd(b, a % b)
StrideOf(m) == CHOOSE s \in {7, 11, 13, 17, 19, 23, 1} : Gcd(m, s) = 1 /\ (s = 1 \/ s < m)
Strided(B) == LET m == Len(B) s == StrideOf(m) IN [k \in 1..m |-> B[((k * s) % m) + 1]]
Reversed(B) == [k \in 1..Len(B) |-> B[Len(B) + 1 - k]]
\* B: the body in construction order (around the ring, along the sides, row by row); sp: <<>> or <<the special point>>
Ordered(B, sp, ord) ==
    IF ord = "last" THEN B \o sp
    ELSE IF ord = "first" THEN sp \o B
    ELSE IF ord = "strided-last" THEN Strided(B) \o sp
    ELSE IF ord = "strided-first" THEN sp \o Strided(B)
    ELSE IF ord = "reversed-last" THEN Reversed(B) \o sp
    ELSE IF ord = "middle" THEN SubSeq(B, 1, Len(B) \div 2) \o sp \o SubSeq(B, Len(B) \div 2 + 1, Len(B))
    ELSE Strided(B \o sp)                           \* "mixed"

(* ----------------------------- the parameters --------------------------- *)
RingN == IF Thorough THEN {6, 10, 12, 16, 20, 23, 24, 26, 28, 32, 36, 40, 48, 56, 64} ELSE {8, 12, 20, 24, 28, 32, 40, 48, 64}
RingOrd == IF Thorough THEN {"last", "first", "strided-last", "strided-first", "reversed-last", "middle", "mixed"}
           ELSE {"last", "first", "strided-last", "mixed"}
ArcN == IF Thorough THEN {8, 12, 16, 20, 24, 28, 33} ELSE {12, 24, 30}
RunR == IF Thorough THEN {4, 5, 6, 8, 10, 12, 16, 24} ELSE {4, 6, 8, 12}
Stretch == IF Thorough THEN {0, 1, 2, 3, 4, 5, 6, 7, 8, 9, 10} ELSE {0, 3, 5, 7, 10}

\* shape, size n, second size r, a: stretch exponent, ord; kind is 0 for x-stretch, 1 for y-stretch
Rings == {[shape |-> "ring", n |-> n, r |-> r, span |-> 64, a |-> 0, ord |-> o] :
              n \in RingN, r \in {30 + (Seed % 5), 44 + (Seed % 4)}, o \in RingOrd}
Arcs == {[shape |-> "arc", n |-> n, r |-> 45 + (Seed % 4), span |-> s, a |-> 0, ord |-> o] :
              n \in ArcN, s \in {24, 33}, o \in {"last", "strided-last", "mixed"}}
Runs == {[shape |-> "run", n |-> r + 2 + ((r + a) % 7), r |-> r, span |-> s, a |-> a, ord |-> o] :
              r \in RunR, s \in {1, 2, 4}, a \in Stretch, o \in {"last", "first", "mixed"}}
Grids == {[shape |-> "grid", n |-> g * g, r |-> s, span |-> g, a |-> 0, ord |-> o] :
              g \in {3, 4, 5, 6}, s \in {7, 12, 17}, o \in {"last", "mixed"}}
\* quick: every ring and arc, a third of the runs and grids chosen by the seed
ParamSeq == SetToSeq(Rings) \o SetToSeq(Arcs) \o SetToSeq(Runs) \o SetToSeq(Grids)
Wanted(k) == LET p == ParamSeq[k]
             IN /\ k % Shards = Shard
                /\ (Thorough \/ p.shape \in {"ring", "arc"} \/ ((k \div Shards) + Seed) % 3 = 0)

Build(id, p) ==
    LET u == IF p.shape = "run" /\ p.span # 4 THEN 4 ^ p.a ELSE 1          \* runs along x are stretched along x
        v == IF p.shape = "run" /\ p.span = 4 THEN 4 ^ p.a ELSE 1          \* all four sides: stretched along y
        body == IF p.shape \in {"ring", "arc"} THEN Take(<<>>, RingCands(id, p.n, p.r, Seed % 64, p.span), 1, u, v)
                ELSE IF p.shape = "run" THEN Take(<<>>, RunCands(id, p.n, p.r, p.span), 1, u, v)
                ELSE Take(<<>>, GridCands(id, p.span, p.r), 1, u, v)
        sp == IF p.shape \in {"ring", "arc"} THEN First(body, Inner(id, p.r, Seed % 64, p.span), 1, u, v) ELSE <<>>
    IN [tag |-> "gen-" \o p.shape \o "-" \o p.ord, gen |-> id, pts |-> Ordered(body, sp, p.ord),
        k |-> 0, j |-> <<0, 0>>, m |-> 0, mul |-> 1,
        ax |-> IF u > 1 THEN p.a ELSE 0, ay |-> IF v > 1 THEN p.a ELSE 0,
        inner |-> Len(sp), body |-> Len(body)]

Init == c \in {k \in DOMAIN ParamSeq : Wanted(k)}
Next == UNCHANGED c
Spec == Init /\ [][Next]_c

Emit == PrintT(ToJson(Build(c, ParamSeq[c])))
=============================================================================
