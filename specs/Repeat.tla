------------------------------- MODULE Repeat -------------------------------
(***************************************************************************)
(* X06 - closed forms of modeling/repeat: Line, LineExlusive, Circle,      *)
(* FibonacciSphere, Spline, SplineExlusive, the Line/Spline nodes, Mesh.   *)
(*                                                                         *)
(* A projected transform t is [p, s, r, fin]: position * PS, scale * PS,   *)
(* r[i] = image of basis vector e_i under the rotation, * RS (= 1024).     *)
(* Case fields: gen, n (inbetween / times / samples), a, b (line ends,     *)
(* world units), rad (quarter units), path (lattice polyline standing in   *)
(* for the spline: arc-length parametrised, Dir = direction of the segment *)
(* the point lies on), xfs / mesh (repeat.Mesh).                           *)
(*                                                                         *)
(* Tolerances: PTol units on positions (times the denominator of the       *)
(* closed form), RTol on rotation entries.  int32: positions <= 2^13,      *)
(* denominators <= 64, rotation entries 2^10, sines 2^14.                  *)
(***************************************************************************)
EXTENDS Extrude

RS == 1024
PTol == 2
RTol == 3

Near3(u, w, tol) == \A j \in 1..3 : AbsI(u[j] - w[j]) <= tol
Ident == <<<<RS, 0, 0>>, <<0, RS, 0>>, <<0, 0, RS>>>>
UnitScale(t) == t.s = <<PS, PS, PS>>
IsIdent(t) == \A i \in 1..3 : Near3(t.r[i], Ident[i], RTol)
\* the logged r is a rotation: orthonormal images, right-handed
IsRotation(t) ==
    /\ \A i \in 1..3 : AbsI(Dot(t.r[i], t.r[i]) - RS * RS) <= 8 * RS
    /\ \A i, j \in 1..3 : i < j => AbsI(Dot(t.r[i], t.r[j])) <= 8 * RS
    /\ Near3(<<Cross(t.r[1], t.r[2])[1] \div RS, Cross(t.r[1], t.r[2])[2] \div RS, Cross(t.r[1], t.r[2])[3] \div RS>>,
             t.r[3], 8)

(* ------------------------- counts ------------------------------------- *)
\* "none" = the call must be refused or return nothing the contract speaks about
RepRejects(c) ==
    \/ c.gen \in {"line", "lineex", "spline", "splineex", "circle", "fib"} /\ c.n < 0
    \/ c.gen \in {"spline", "splineex", "splinenode"} /\ (Len(c.path) < 2 \/ ~AxisPath(c) \/ HasRepeat(c))
RepCount(c) ==
    IF c.gen \in {"line", "spline"} THEN c.n + 2
    ELSE IF c.gen \in {"lineex", "splineex", "circle", "fib"} THEN c.n
    ELSE IF c.gen \in {"linenode", "splinenode"} THEN (IF c.n <= 0 THEN 0 ELSE c.n)
    ELSE Len(c.xfs)
\* degenerate: the closed form divides by zero
RepDegenerate(c) == c.gen = "fib" /\ c.n = 1

(* ------------------------- line --------------------------------------- *)
\* the k-th (1-based) transform: parameter num/den along a -> b
\* Line: the n in-between points first, then start, then end (order of the code)
LineParam(c, k) ==
    IF c.gen = "lineex" THEN <<k, c.n + 1>>
    ELSE IF c.gen = "line" THEN (IF k <= c.n THEN <<k, c.n + 1>> ELSE IF k = c.n + 1 THEN <<0, 1>> ELSE <<1, 1>>)
    \* node: times = 1 -> the midpoint; times >= 2 -> times-2 in-between points, start, end
    ELSE IF c.n = 1 THEN <<1, 2>>
    ELSE (IF k <= c.n - 2 THEN <<k, c.n - 1>> ELSE IF k = c.n - 1 THEN <<0, 1>> ELSE <<1, 1>>)
LineAt(c, t, pr) ==
    LET want == VAdd(VScale(pr[2], c.a), VScale(pr[1], VSub(c.b, c.a)))      \* world * den
    IN Near3(VScale(pr[2], t.p), VScale(PS, want), PTol * pr[2])
LineOK(c, T) == \A k \in DOMAIN T : LineAt(c, T[k], LineParam(c, k)) /\ UnitScale(T[k]) /\ IsIdent(T[k])

(* ------------------------- circle ------------------------------------- *)
\* k-th (0-based) of n: position r (cos a, 0, sin a), a = 2 pi k / n; the copy's local +Z
\* points radially outward, +Y stays up: R ez = (cos a, 0, sin a), R ey = ey, R ex = (sin a, 0, -cos a)
CircleAt(c, t, k) ==
    LET cs == CosTurn(k, c.n)
        sn == SinTurn(k, c.n)
        r == c.rad * QS
        S(x) == (x * RS) \div K
    IN /\ AbsI(t.p[1] * K - r * cs) <= PTol * K /\ t.p[2] = 0 /\ AbsI(t.p[3] * K - r * sn) <= PTol * K
       /\ Near3(t.r[3], <<S(cs), 0, S(sn)>>, RTol)
       /\ Near3(t.r[2], <<0, RS, 0>>, RTol)
       /\ Near3(t.r[1], <<S(sn), 0, -S(cs)>>, RTol)
CircleOK(c, T) == \A k \in DOMAIN T : CircleAt(c, T[k], k - 1) /\ UnitScale(T[k])

(* ------------------------- Fibonacci sphere --------------------------- *)
\* y_k = r (1 - 2k/(n-1)) exactly linear; |p_k| = r; consecutive azimuths differ by the
\* golden angle g = pi (3 - sqrt 5): (cos g, sin g) = (-0.7373688, 0.6754903), times 2^14.
\* Azimuth law without square roots: with h_k = (x_k, z_k), dot(h_k, h_k+1) sin g = cross(h_k, h_k+1) cos g,
\* the band is what one unit of rounding per coordinate can do.
GoldCos == -12081
GoldSin == 11067
FibAt(c, T, k) ==                     \* k 0-based
    LET t == T[k + 1]
        r == c.rad * QS
        n == c.n
    IN /\ AbsI(t.p[2] * (n - 1) - r * (n - 1 - 2 * k)) <= PTol * (n - 1)
       /\ WithinBand(t.p, r, RadTol)
       /\ (k + 1 < n =>
             LET u == T[k + 2].p
                 dt == t.p[1] * u[1] + t.p[3] * u[3]
                 cr == t.p[1] * u[3] - t.p[3] * u[1]
                 slack == 2 * (AbsI(t.p[1]) + AbsI(t.p[3]) + AbsI(u[1]) + AbsI(u[3]) + 2)
             IN /\ AbsI((dt \div 32) * GoldSin - (cr \div 32) * GoldCos) <= (slack \div 32 + 2) * (GoldSin - GoldCos)
                /\ cr >= -slack /\ dt <= slack)
\* anchor of the azimuth: sample 1 sits at the golden angle itself (sample 0 is the pole)
FibAnchor(c, T) ==
    c.n < 3 \/
    LET p == T[2].p
    IN /\ AbsI(p[1] * GoldSin - p[3] * GoldCos) <= 4 * (GoldSin - GoldCos)     \* one unit of rounding, four times
       /\ p[3] >= -2 /\ p[1] <= 2
FibOK(c, T) == FibAnchor(c, T) /\ \A k \in DOMAIN T : FibAt(c, T, k - 1) /\ UnitScale(T[k]) /\ IsIdent(T[k])

(* ------------------------- spline (lattice polyline) ------------------ *)
SplineParam(c, k) ==
    IF c.gen = "splineex" THEN <<k, c.n + 1>>
    ELSE IF c.gen = "spline" THEN (IF k <= c.n THEN <<k, c.n + 1>> ELSE IF k = c.n + 1 THEN <<0, 1>> ELSE <<1, 1>>)
    ELSE IF c.n = 1 THEN <<1, 2>>
    ELSE (IF k <= c.n - 2 THEN <<k, c.n - 1>> ELSE IF k = c.n - 1 THEN <<0, 1>> ELSE <<1, 1>>)
\* directions of the segments that contain arc length num/den (both at a corner)
DirsAt(c, num, den) ==
    {Unit(Seg(c, k)) : k \in {k \in 1..(Len(c.path) - 1) :
        PathLenTo(c, k) * den <= num /\ num <= PathLenTo(c, k + 1) * den}}
SplineAt(c, t, pr) ==
    LET num == PathLen(c) * pr[1]
        want == PolyAt(c, num, pr[2])                 \* world * den
    IN /\ Near3(VScale(pr[2], t.p), VScale(PS, want), PTol * pr[2])
       \* local +Z (Forward) of the copy looks along the curve
       /\ \E d \in DirsAt(c, num, pr[2]) : Near3(t.r[3], VScale(RS, d), RTol)
       /\ IsRotation(t)
SplineOK(c, T) == \A k \in DOMAIN T : SplineAt(c, T[k], SplineParam(c, k)) /\ UnitScale(T[k])

(* ------------------------- repeat.Mesh -------------------------------- *)
\* rotation of q quarter turns about axis a (0 x, 1 y, 2 z), right-handed, exact on integers
RECURSIVE QTurn(_, _, _)
QTurn(a, q, v) ==
    IF q % 4 = 0 THEN v
    ELSE QTurn(a, (q % 4) - 1,
               IF a = 0 THEN <<v[1], -v[3], v[2]>>
               ELSE IF a = 1 THEN <<v[3], v[2], -v[1]>>
               ELSE <<-v[2], v[1], v[3]>>)
\* base position (units of PS) under transform x: R (S o v) + T ; scale in quarter units
XfApply(x, v) ==
    LET sv == <<(x.s[1] * v[1]), (x.s[2] * v[2]), (x.s[3] * v[3])>>          \* * 4
        rv == QTurn(x.a, x.q, sv)
    IN VAdd(rv, VScale(4 * PS, x.t))                                         \* * 4
CopiesOK(c, ln) ==
    LET nb == Len(ln.base)
        nt == Len(ln.bt)
        k == Len(c.xfs)
    IN /\ Len(ln.pos) = k * nb
       /\ Len(ln.tris) = k * nt
       /\ \A j \in 0..(k - 1) :
             /\ \A i \in 1..nb : Near3(VScale(4, ln.pos[j * nb + i]), XfApply(c.xfs[j + 1], ln.base[i]), 4 * PTol)
             /\ \A i \in 1..nt : ln.tris[j * nt + i] = <<ln.bt[i][1] + j * nb, ln.bt[i][2] + j * nb, ln.bt[i][3] + j * nb>>
\* the logged transforms are the stated ones
XfLogged(c, T) ==
    /\ Len(T) = Len(c.xfs)
    /\ \A j \in DOMAIN T :
          LET x == c.xfs[j]
          IN /\ T[j].p = VScale(PS, x.t)
             /\ T[j].s = VScale(QS, x.s)
             /\ \A i \in 1..3 : Near3(T[j].r[i], QTurn(x.a, x.q, Ident[i]), RTol)
=============================================================================
