SPECIFICATION Spec
POSTCONDITION TraceAccepted
CHECK_DEADLOCK FALSE
