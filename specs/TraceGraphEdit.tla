--------------------------- MODULE TraceGraphEdit ---------------------------
(***************************************************************************)
(* Trace validation of save / reload on the real generator.App (C12).      *)
(* Lines:  {"k":"reset"}                                                   *)
(*         {"k":"step","st":{op,a,b,c},"ok":..,"loadok":..,"orig":proj,    *)
(*          "reload":proj,"h1":[..],"h2":[..],"skip":bool}                 *)
(* skip = the application was neither saved nor evaluated after this step  *)
(* (sparse observation: several edits between two evaluations).            *)
(* proj = [nodes (sorted by id: id,type,name,desc,val,single,arr), prod,   *)
(*         meta, metajson, arts, unknown]; orig is the application after   *)
(* the edit, reload a FRESH application that loaded orig's saved bytes;    *)
(* h1/h2 are digests of the bytes saved by orig and by reload.             *)
(*   C12.Load       the saved file loads into a fresh application          *)
(*   C12.Reload     same nodes, wiring incl. array order, parameter values,*)
(*                  names, descriptions, producers, metadata               *)
(*   C12.Artifacts  deterministic producers yield identical content        *)
(*   C12.Resave     saving the reloaded graph reproduces the bytes         *)
(*   C12.SavedFile  the file written by the application's saver (hf) is the *)
(*                  saved document (h1), however often it was written before*)
(*   Model.Mismatch the edited application differs from GraphEdit's model  *)
(*                  (guards vacuity: the graph really is what the history  *)
(*                  says; reported as infrastructure, not as C12)          *)
(***************************************************************************)
EXTENDS GraphEdit

Trace == ndJsonDeserialize("trace.ndjson")
VARIABLES l
tvars == <<g, hist, l>>

TInit == l = 1 /\ g = Empty /\ hist = <<>>

SeqSet(s) == {s[i] : i \in DOMAIN s}
ModelNodes(gr) ==
    LET ord == SetToSortSeq(gr.ids, LAMBDA x, y : x < y) IN
    [i \in 1..Len(ord) |-> LET n == ord[i] IN
        [id |-> n, type |-> gr.type[n], name |-> gr.name[n], desc |-> gr.desc[n], val |-> gr.val[n],
         single |-> gr.single[n], arr |-> gr.arr[n]]]
Core(p) == [nodes |-> p.nodes, prod |-> SeqSet(p.prod), meta |-> SeqSet(p.meta)]
ModelCore(gr) == [nodes |-> ModelNodes(gr), prod |-> gr.prod, meta |-> gr.meta]

TReset == l <= Len(Trace) /\ Trace[l].k = "reset" /\ g' = Empty /\ hist' = hist /\ l' = l + 1

TSkip ==     \* a step after which the application was not observed: only the model moves
    /\ l <= Len(Trace) /\ Trace[l].k = "step" /\ Trace[l].skip
    /\ g' = (IF Enabled(g, Trace[l].st) THEN Apply(g, Trace[l].st) ELSE g)
    /\ hist' = hist /\ l' = l + 1

TStep ==
    /\ l <= Len(Trace) /\ Trace[l].k = "step" /\ ~Trace[l].skip
    /\ LET ln == Trace[l]
           en == Enabled(g, ln.st)
           g2 == IF en THEN Apply(g, ln.st) ELSE g
           bad == (IF ~ln.loadok THEN {"C12.Load"} ELSE {})
                  \* meta2: the metadata leaves as the two APPLICATIONS show them (not as the saved document holds them)
                  \cup (IF ln.loadok /\ (Core(ln.reload) # Core(ln.orig) \/ ln.reload.metajson # ln.orig.metajson
                                         \/ ln.reload.meta2 # ln.orig.meta2 \/ ln.reload.unknown # ln.orig.unknown)
                        THEN {"C12.Reload"} ELSE {})
                  \cup (IF ln.loadok /\ ln.reload.arts # ln.orig.arts THEN {"C12.Artifacts"} ELSE {})
                  \cup (IF ln.loadok /\ ln.h1 # ln.h2 THEN {"C12.Resave"} ELSE {})
                  \* the FILE the application's saver wrote (one file per history, written again after every observed
                  \* step while documents grow and shrink) holds exactly the saved document
                  \cup (IF "hf" \in DOMAIN ln /\ ln.hf # <<>> /\ ln.hf # ln.h1 THEN {"C12.SavedFile"} ELSE {})
                  \cup (IF Core(ln.orig) # ModelCore(g2) \/ (en /\ ~ln.ok) THEN {"Model.Mismatch"} ELSE {})
       IN /\ IF bad = {} THEN TRUE ELSE PrintT(ToJson([l |-> l, bad |-> bad, enabled |-> en]))
          /\ g' = g2
    /\ hist' = hist /\ l' = l + 1

TFile ==     \* shipped graph files: load -> save -> load -> save
    /\ l <= Len(Trace) /\ Trace[l].k = "file"
    /\ LET ln == Trace[l]
           bad == (IF ~ln.loadok THEN {"C12.Load"} ELSE {})
                  \cup (IF ln.loadok /\ ln.s1 # ln.s2 THEN {"C12.Reload"} ELSE {})
                  \cup (IF ln.loadok /\ ln.h1 # ln.h2 THEN {"C12.Resave"} ELSE {})
       IN IF bad = {} THEN TRUE ELSE PrintT(ToJson([l |-> l, bad |-> bad, enabled |-> TRUE]))
    /\ UNCHANGED <<g, hist>> /\ l' = l + 1

TNext == TReset \/ TStep \/ TSkip \/ TFile
TSpec == TInit /\ [][TNext]_tvars
TraceAccepted == TLCGet("stats").diameter - 1 = Len(Trace)
=============================================================================
