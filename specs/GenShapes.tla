------------------------------ MODULE GenShapes ------------------------------
(***************************************************************************)
(* C02, generator half: parameter tuples of the geometry generators        *)
(* (enumerated by TLC as the states of a one-step machine) and the         *)
(* well-formedness predicate on the SHAPE of the mesh a generator returned:*)
(*   shape = [topo, nidx, minidx, maxidx, lens]   (topo = "FAIL": the      *)
(*   generator rejected the parameters by panicking / returning an error)  *)
(* "For every parameterisation the generator accepts" is read literally:   *)
(* whatever it does not reject must be well formed; so the tuples include  *)
(* inadmissible ones (0 sides, empty paths) on purpose.                    *)
(* generators: 1 UVSphere 2 UVSphereUnwelded 3 Cube.Welded 4 Cube.Unwelded *)
(* Quads 5 Cylinder 6 Circle 7 Cone 8 Hemisphere 9 Quad 10 extrude.Polygon *)
(* 11 extrude.Circle 12 extrude.Shape 13 extrude.ClosedShape 14 extrude.   *)
(* Line 15 repeat.Mesh(Line|Circle) 16 BowyerWatson 17 marching sphere     *)
(* 18 ConstrainedBowyerWatson (outline b) 19 extrude.CircleAlongSpline     *)
(* 20 marching Field.March 21 UnitCube; flag of 10: 1 texture coordinates, *)
(* 2 neighbouring points share one, 3 only some points carry one; flag of  *)
(* 11/19: bit 0 closed path, bit 1 one radius per point; flag of 3/4/5:    *)
(* the OPTION SUBSET of the texture coordinate options - 0 none (nil),     *)
(* 1 all members, 2 + m: the options object present with exactly the       *)
(* members of bit mask m (cylinder: top, bottom, side; cube: its six       *)
(* faces) - an optional member of an optional object is a dimension of its *)
(* own: sites that test the object and sites that test the member disagree *)
(* exactly on the partly filled objects                                    *)
(* p = <<size*2, n1, n2, flag>>                                            *)
(***************************************************************************)
EXTENDS Integers, Sequences, FiniteSets, TLC, Json

CONSTANT Big      \* TRUE: wider parameter ranges (thorough tier)

N1 == IF Big THEN 0..9 ELSE 0..6
N2 == IF Big THEN 0..8 ELSE 0..5
\* cube: the empty object, one face only, one face missing (all 64 subsets in the wide configuration)
CubeMasks == IF Big THEN 0..63 ELSE {0} \cup {1, 2, 4, 8, 16, 32} \cup {62, 61, 59, 55, 47, 31}
Cases ==
    {[gen |-> gn, p |-> <<r, a, b, f>>] : gn \in {1, 2}, r \in {1, 6}, a \in N1, b \in N1, f \in {0}}
    \cup {[gen |-> gn, p |-> <<r, a, b, f>>] : gn \in {3, 4}, r \in {1, 2}, a \in {1, 3}, b \in {2}, f \in {0, 1}}
    \cup {[gen |-> gn, p |-> <<2, 3, 2, 2 + m>>] : gn \in {3, 4}, m \in CubeMasks}
    \cup {[gen |-> 5, p |-> <<r, a, b, f>>] : r \in {2}, a \in N1, b \in 0..3, f \in 0..9}
    \cup {[gen |-> gn, p |-> <<2, a, 0, f>>] : gn \in {6, 7, 9}, a \in N1, f \in {0, 1}}
    \cup {[gen |-> 8, p |-> <<2, a, b, f>>] : a \in N2, b \in N1, f \in {0, 1}}
    \cup {[gen |-> gn, p |-> <<2, a, b, f>>] : gn \in {10, 11}, a \in N1, b \in N2, f \in {0, 1, 2, 3}}
    \cup {[gen |-> 18, p |-> <<2, a, b, 0>>] : a \in 0..8, b \in 0..3}
    \cup {[gen |-> 19, p |-> <<2, a, b, f>>] : a \in N2, b \in 0..4, f \in {0, 1, 2, 3}}
    \cup {[gen |-> 20, p |-> <<r, a, b, f>>] : r \in {1, 3}, a \in {1, 2, 3}, b \in {0, 1}, f \in {0, 1}}
    \cup {[gen |-> 21, p |-> <<2, 0, 0, 0>>]}
    \* flag of 12/13: the form in which the outline is handed over - 0 as is, 1 closed polyline (first point repeated
    \* at the end), 2 a point twice in a row, 3 opposite direction, 4 closed and opposite
    \cup {[gen |-> gn, p |-> <<2, a, b, f>>] : gn \in {12, 13}, a \in 0..5, b \in N2, f \in 0..4}
    \cup {[gen |-> 14, p |-> <<2, a, 0, 0>>] : a \in N1}
    \cup {[gen |-> 15, p |-> <<2, a, b, f>>] : a \in N2, b \in {0, 1}, f \in {0, 1}}
    \cup {[gen |-> 16, p |-> <<2, a, 0, 0>>] : a \in 0..8}
    \cup {[gen |-> 17, p |-> <<r, a, b, 0>>] : r \in {1, 3}, a \in {1, 2, 3}, b \in {0, 1, 49}}

VARIABLE c
Init == c \in Cases
Next == UNCHANGED c
Spec == Init /\ [][Next]_c
Emit == PrintT(ToJson(c))

IndexSize(topo) ==
    CASE topo = "triangle" -> 3 [] topo = "quad" -> 4 [] topo = "line" -> 2 [] OTHER -> 1
WellFormedShape(s) ==
    \/ s.topo = "FAIL"
    \/ /\ \A i, j \in DOMAIN s.lens : s.lens[i] = s.lens[j]
       /\ s.nidx % IndexSize(s.topo) = 0
       /\ s.nidx = 0 \/ (s.minidx >= 0 /\ s.lens # <<>> /\ s.maxidx < s.lens[1])
=============================================================================
