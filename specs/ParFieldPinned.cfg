\* shape of the pinned tree (header read outside the mutex, value-receiver copies): TLC must refute NoRace
CONSTANTS
  MaxA = 2
  MaxB = 2
  MaxW = 3
  ReadUnderLock = FALSE
  CopyInWork = TRUE
  CopyInMain = TRUE
SPECIFICATION Spec
INVARIANTS MutexOK OwnBlock Termination NoRace
CHECK_DEADLOCK FALSE
