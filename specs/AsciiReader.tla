---------------------------- MODULE AsciiReader ----------------------------
(***************************************************************************)
(* Implementation-shaped model (L2) of the count-driven line loops of the  *)
(* ASCII readers (formats/ply/reader.go vertex and face loops,             *)
(* formats/pts/reader.go), with a crash point.  Design-level only: it is   *)
(* never used for verdicts on the code; it explains WHY a loop driven by   *)
(* the header count must look at the scanner's end-of-input result.        *)
(*                                                                         *)
(* File: NV vertex lines of W tokens, then NF face lines of FW tokens.     *)
(* Cut (c, t): the first c lines are whole, then a partial line of         *)
(* t tokens (0 < t < width) or nothing (t = 0); c = NV + NF is the         *)
(* complete file.  The scanner yields whole lines, the partial line, then  *)
(* end of input (Scan() = false, Text() = "").                             *)
(*                                                                         *)
(* Loop styles as in the code:                                             *)
(*  "ply" vertex loop: for i < count { Scan(); if text == "" { continue }  *)
(*        ...; i++ }  -- i is advanced by the for statement, so an ignored *)
(*        end of input leaves vertex i zero-filled;                        *)
(*  "ply" face loop:   for i < count { Scan(); if line == "" { continue }  *)
(*        ...; i++ }  -- i is advanced in the body only: at end of input   *)
(*        the loop never advances;                                         *)
(*  "pts": for Scan() && cur < count {..}: leaves the loop at end of input *)
(*        and returns the pre-sized, zero-filled arrays.                   *)
(*  a line with too few tokens is indexed out of range (panic) or, in pts, *)
(*  silently keeps zeros.                                                  *)
(* CheckScan: the end-of-input result is respected (-> error).             *)
(* CheckWidth: the token count of a line is verified (-> error).           *)
(*                                                                         *)
(* Properties: NoPlaceholder (a returned mesh is the complete one),        *)
(* NoPanic, Terminates.  With both checks they hold; without CheckScan TLC *)
(* finds the zero-filled vertex (safety) and the face-loop lasso           *)
(* (liveness).                                                             *)
(***************************************************************************)
EXTENDS Integers, Sequences

CONSTANTS NV, NF, W, FW, CheckScan, CheckWidth, Styles

VARIABLES style, c, t, pc, i, pos, verts, faces
vars == <<style, c, t, pc, i, pos, verts, faces>>

Width(n) == IF n <= NV THEN W ELSE FW           \* width of line n (1-based)
Cuts == {<<cc, tt>> \in (0..(NV + NF)) \X (0..(W + FW)) :
            IF cc = NV + NF THEN tt = 0 ELSE tt < Width(cc + 1)}

\* what Scan()/Text() yield at line position p (0-based): number of tokens, -1 = end of input
Tokens(p) == IF p < c THEN Width(p + 1) ELSE IF p = c /\ t > 0 THEN t ELSE -1

Init ==
    /\ style \in Styles
    /\ \E ct \in Cuts : c = ct[1] /\ t = ct[2]
    /\ pc = "vertex" /\ i = 0 /\ pos = 0 /\ verts = <<>> /\ faces = <<>>

Zeros(n) == [j \in 1..n |-> 0]

PlyVertex ==
    /\ style = "ply" /\ pc = "vertex" /\ i < NV
    /\ LET tk == Tokens(pos) IN
       IF tk = -1 THEN
            IF CheckScan THEN pc' = "error" /\ UNCHANGED <<i, pos, verts>>
            ELSE verts' = Append(verts, 0) /\ i' = i + 1 /\ UNCHANGED <<pc, pos>>      \* continue: vertex stays zero
       ELSE IF tk < W THEN
            pc' = (IF CheckWidth THEN "error" ELSE "panic") /\ UNCHANGED <<i, pos, verts>>
       ELSE verts' = Append(verts, pos + 1) /\ i' = i + 1 /\ pos' = pos + 1 /\ UNCHANGED pc
    /\ UNCHANGED <<style, c, t, faces>>

PlyVertexDone ==
    /\ style = "ply" /\ pc = "vertex" /\ i = NV
    /\ pc' = (IF NF > 0 THEN "face" ELSE "done") /\ i' = 0
    /\ UNCHANGED <<style, c, t, pos, verts, faces>>

PlyFace ==
    /\ style = "ply" /\ pc = "face" /\ i < NF
    /\ LET tk == Tokens(pos) IN
       IF tk = -1 THEN
            IF CheckScan THEN pc' = "error" /\ UNCHANGED <<i, pos, faces>>
            ELSE UNCHANGED <<pc, i, pos, faces>>                                       \* continue without i++
       ELSE IF tk < FW THEN
            pc' = (IF CheckWidth THEN "error" ELSE "panic") /\ UNCHANGED <<i, pos, faces>>
       ELSE faces' = Append(faces, pos + 1) /\ i' = i + 1 /\ pos' = pos + 1 /\ UNCHANGED pc
    /\ UNCHANGED <<style, c, t, verts>>

PlyFaceDone ==
    /\ style = "ply" /\ pc = "face" /\ i = NF
    /\ pc' = "done" /\ UNCHANGED <<style, c, t, i, pos, verts, faces>>

\* pts has points only (the NF face lines are further points of width FW = W)
PtsLine ==
    /\ style = "pts" /\ pc = "vertex" /\ i < NV + NF
    /\ LET tk == Tokens(pos) IN
       IF tk = -1 THEN                                   \* loop condition fails
            IF CheckScan THEN pc' = "error" /\ UNCHANGED <<i, pos, verts>>
            ELSE verts' = verts \o Zeros(NV + NF - i) /\ pc' = "done" /\ UNCHANGED <<i, pos>>
       ELSE IF tk < Width(pos + 1) THEN
            IF CheckWidth THEN pc' = "error" /\ UNCHANGED <<i, pos, verts>>
            ELSE verts' = Append(verts, 0) /\ i' = i + 1 /\ pos' = pos + 1 /\ UNCHANGED pc   \* missing columns stay zero
       ELSE verts' = Append(verts, pos + 1) /\ i' = i + 1 /\ pos' = pos + 1 /\ UNCHANGED pc
    /\ UNCHANGED <<style, c, t, faces>>

PtsDone ==
    /\ style = "pts" /\ pc = "vertex" /\ i = NV + NF
    /\ pc' = "done" /\ UNCHANGED <<style, c, t, i, pos, verts, faces>>

Next == PlyVertex \/ PlyVertexDone \/ PlyFace \/ PlyFaceDone \/ PtsLine \/ PtsDone
Spec == Init /\ [][Next]_vars /\ WF_vars(Next)

Complete == c = NV + NF
FullVerts == IF style = "ply" THEN [j \in 1..NV |-> j] ELSE [j \in 1..(NV + NF) |-> j]
FullFaces == IF style = "ply" THEN [j \in 1..NF |-> NV + j] ELSE <<>>

TypeOK == pc \in {"vertex", "face", "done", "error", "panic"} /\ i \in 0..(NV + NF) /\ pos \in 0..(NV + NF)
\* C14 at design level: a mesh is returned only for the complete file and is the complete mesh
NoPlaceholder == pc = "done" => (Complete /\ verts = FullVerts /\ faces = FullFaces)
\* the complete file is accepted (the checks do not reject valid input)
AcceptsComplete == (Complete /\ pc \in {"error", "panic"}) => FALSE
NoPanic == pc # "panic"
Terminates == <>(pc \in {"done", "error", "panic"})
=============================================================================
