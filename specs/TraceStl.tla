------------------------------ MODULE TraceStl ------------------------------
(***************************************************************************)
(* Trace validation for the STL family (property C07).  One line per case; *)
(* the harness (harness/objstl) executed real polyform code, parsed the    *)
(* bytes with its own record parser and projected; TLC judges with the     *)
(* operators of StlFormat.                                                 *)
(*                                                                         *)
(* {"k":"sw","lat":b,"src":mesh,"werr":"","f":file,"rerr":"","rd":mesh}    *)
(*    stl.WriteMesh(src) -> f ; stl.ReadMesh(bytes) -> rd                  *)
(*   C07.WriteOk  C07.SizeLaw  C07.RecPositions  C07.RecNormal             *)
(*   C07.ReadOk   C07.RtCount  C07.RtPositions   C07.RtNormal              *)
(* {"k":"sr","lat":b,"gen":[rec..],"f":file,"rerr":"","rd":mesh,           *)
(*  "werr":"","f2":file}                                                   *)
(*    gen -> (independent encoder) -> bytes = f ; stl.ReadMesh -> rd ;     *)
(*    stl.WriteMesh(rd) -> f2                                              *)
(*   Harness.Encode  (f is the well-formed file that was asked for)        *)
(*   C07.ReadOk  C07.RdCount  C07.RdPositions  C07.RdNormal                *)
(*   C07.RwOk  C07.RwSize  C07.RwPositions  C07.RwNormal  C07.RwAttr       *)
(* {"k":"sb","lat":b,"gen":[rec..],"f":file,"rerr":"","bin":[rec..],       *)
(*  "werr":"","f2":file}      (normals of f, bin, f2 as float32 bits)      *)
(*    gen -> (independent encoder) -> bytes = f ; stl.Read -> bin ;        *)
(*    stl.Write(bin) -> f2                                                 *)
(*   Harness.Encode  C07.BinReadOk  C07.BinRecords  C07.BinWriteOk         *)
(*   C07.BinSize  C07.BinRewrite                                           *)
(* {"k":"sz","dir":"w"|"r","n":N,"werr":"","f":sizes,"rerr":"","rdn":M,    *)
(*  "f2":sizes}   sizes = [nbytes, count, rem, nrecs] (no records)         *)
(*    dir "w": mesh of N triangles -> stl.WriteMesh -> f -> stl.ReadMesh   *)
(*             -> M triangles        C07.WriteOk SizeLaw ReadOk RtCount    *)
(*    dir "r": N records -> encoder -> f -> stl.ReadMesh -> M triangles    *)
(*             -> stl.WriteMesh -> f2   C07.ReadOk RdCount RwOk RwSize     *)
(*    for triangle counts too large to judge record by record              *)
(* Lines also carry "io": the reader/writer variant the case ran with      *)
(* (harness/objstl/iomodes.go) - for humans; the judgement is the same.    *)
(* Rejected lines print {"l":..,"bad":[..],"why":[..]}; ex counts per      *)
(* predicate the lines where it was evaluated on at least one triangle     *)
(* (anti-vacuity), printed with the last line.                             *)
(***************************************************************************)
EXTENDS StlFormat, Json

Trace == ndJsonDeserialize("trace.ndjson")

VARIABLES l, ex
vars == <<l, ex>>

Bad(name, ok) == IF ok THEN {} ELSE {name}

SwJudge(ln) ==
    LET src == ln.src
        n == NTris(src) IN
    IF ln.werr # "" THEN [bad |-> {"C07.WriteOk"}, why |-> {ln.werr}, ex |-> {"C07.WriteOk"}]
    ELSE LET size == SizeLaw(ln.f, n)
             w == IF ~size THEN [bad |-> {"C07.SizeLaw"}, ex |-> {"C07.SizeLaw"}]
                  ELSE [bad |-> Bad("C07.RecPositions", RecPositionsOk(src, ln.f))
                                \cup Bad("C07.RecNormal", RecNormalOk(src, ln.f, ln.lat)),
                        ex |-> {"C07.SizeLaw"}
                               \cup (IF n > 0 THEN {"C07.RecPositions"} ELSE {})
                               \cup (IF n > 0 /\ src.nrm # <<>> THEN {"C07.RecNormal", "C07.RecNormal.mean"} ELSE {})
                               \cup (IF n > 0 /\ src.nrm = <<>> THEN {"C07.RecNormal", "C07.RecNormal.none"} ELSE {})]
             r == IF ln.rerr # "" THEN [bad |-> {"C07.ReadOk"}, ex |-> {"C07.ReadOk"}]
                  ELSE IF ~MeshOk(ln.rd) \/ NTris(ln.rd) # n THEN [bad |-> {"C07.RtCount"}, ex |-> {"C07.ReadOk", "C07.RtCount"}]
                  ELSE [bad |-> Bad("C07.RtPositions", RtPositionsOk(src, ln.rd))
                                \cup Bad("C07.RtNormal", RtNormalOk(src, ln.rd, ln.lat)),
                        ex |-> {"C07.ReadOk", "C07.RtCount"}
                               \cup (IF n > 0 THEN {"C07.RtPositions"} ELSE {})
                               \cup (IF n > 0 /\ src.nrm # <<>> THEN {"C07.RtNormal", "C07.RtNormal.mean"} ELSE {})
                               \cup (IF n > 0 /\ src.nrm = <<>> THEN {"C07.RtNormal", "C07.RtNormal.none"} ELSE {})]
         IN [bad |-> w.bad \cup r.bad, why |-> IF ln.rerr # "" THEN {ln.rerr} ELSE {},
             ex |-> {"C07.WriteOk"} \cup w.ex \cup r.ex]

\* the file handed to the reader is the well-formed file that was asked for
EncodedOk(ln) ==
    /\ SizeLaw(ln.f, Len(ln.gen))
    /\ \A t \in DOMAIN ln.gen :
         /\ ln.lat => ln.f.recs[t].v = ln.gen[t].v
         /\ ln.f.recs[t].nz = (ln.gen[t].n = Zero3)
         /\ ln.f.recs[t].a = ln.gen[t].a

SrJudge(ln) ==
    LET n == Len(ln.gen)
        mixed == (\E t \in DOMAIN ln.f.recs : ln.f.recs[t].nz) /\ (\E t \in DOMAIN ln.f.recs : ~ln.f.recs[t].nz) IN
    IF ~EncodedOk(ln) THEN [bad |-> {"Harness.Encode"}, why |-> {}, ex |-> {}]
    ELSE IF ln.rerr # "" THEN [bad |-> {"C07.ReadOk"}, why |-> {ln.rerr}, ex |-> {"C07.ReadOk"}]
    ELSE IF ~MeshOk(ln.rd) \/ NTris(ln.rd) # n THEN [bad |-> {"C07.RdCount"}, why |-> {}, ex |-> {"C07.ReadOk", "C07.RdCount"}]
    ELSE LET rdbad == Bad("C07.RdPositions", RdPositionsOk(ln.f, ln.rd))
                      \cup Bad("C07.RdNormal", RdNormalOk(ln.gen, ln.f, ln.rd, ln.lat))
             rw == IF ln.werr # "" THEN [bad |-> {"C07.RwOk"}, why |-> {ln.werr}, ex |-> {"C07.RwOk"}]
                   ELSE IF ~SizeLaw(ln.f2, n) THEN [bad |-> {"C07.RwSize"}, why |-> {}, ex |-> {"C07.RwOk", "C07.RwSize"}]
                   ELSE [bad |-> Bad("C07.RwPositions", RwPositionsOk(ln.f, ln.f2))
                                 \cup Bad("C07.RwNormal", RwNormalOk(ln.gen, ln.f, ln.f2, ln.lat))
                                 \cup Bad("C07.RwAttr", RwAttrOk(ln.gen, ln.f2)),
                         why |-> {},
                         ex |-> {"C07.RwOk", "C07.RwSize"}
                                \cup (IF n > 0 THEN {"C07.RwPositions", "C07.RwNormal", "C07.RwAttr"} ELSE {})
                                \cup (IF mixed THEN {"C07.RwNormal.mixed"} ELSE {})]
         IN [bad |-> rdbad \cup rw.bad, why |-> rw.why,
             ex |-> {"C07.ReadOk", "C07.RdCount"} \cup rw.ex
                    \* reported, not judged: a zero normal on a degenerate triangle comes back as NaN
                    \cup (IF ln.werr = "" /\ \E t \in DOMAIN ln.f2.recs : \E i \in 1..3 : ln.f2.recs[t].n[i] = 1073741824
                          THEN {"note.nonFiniteNormalWritten"} ELSE {})
                    \cup (IF n > 0 THEN {"C07.RdPositions", "C07.RdNormal"} ELSE {})
                    \cup (IF mixed THEN {"C07.RdNormal.mixed"} ELSE {})]

SbJudge(ln) ==
    LET n == Len(ln.gen) IN
    IF ~EncodedOk(ln) THEN [bad |-> {"Harness.Encode"}, why |-> {}, ex |-> {}]
    ELSE IF ln.rerr # "" THEN [bad |-> {"C07.BinReadOk"}, why |-> {ln.rerr}, ex |-> {"C07.BinReadOk"}]
    ELSE LET rw == IF ln.werr # "" THEN [bad |-> {"C07.BinWriteOk"}, why |-> {ln.werr}, ex |-> {"C07.BinWriteOk"}]
                   ELSE IF ~SizeLaw(ln.f2, n) THEN [bad |-> {"C07.BinSize"}, why |-> {}, ex |-> {"C07.BinWriteOk", "C07.BinSize"}]
                   ELSE [bad |-> Bad("C07.BinRewrite", BinRewriteOk(ln.f, ln.f2)), why |-> {},
                         ex |-> {"C07.BinWriteOk", "C07.BinSize"} \cup (IF n > 0 THEN {"C07.BinRewrite"} ELSE {})]
         IN [bad |-> Bad("C07.BinRecords", BinRecordsOk(ln.f, ln.bin)) \cup rw.bad, why |-> rw.why,
             ex |-> {"C07.BinReadOk"} \cup rw.ex
                    \cup (IF n > 0 THEN {"C07.BinRecords"} ELSE {})
                    \cup (IF \E t \in DOMAIN ln.gen : ln.gen[t].a # 0 THEN {"C07.BinRecords.attr"} ELSE {})]

\* sizes only: the size law and the triangle count, in both directions
SzJudge(ln) ==
    IF ln.dir = "w"
    THEN IF ln.werr # "" THEN [bad |-> {"C07.WriteOk"}, why |-> {ln.werr}, ex |-> {"C07.WriteOk"}]
         ELSE [bad |-> Bad("C07.SizeLaw", SizeLawN(ln.f, ln.n))
                       \cup (IF ln.rerr # "" THEN {"C07.ReadOk"} ELSE Bad("C07.RtCount", ln.rdn = ln.n)),
               why |-> IF ln.rerr # "" THEN {ln.rerr} ELSE {},
               ex |-> {"C07.WriteOk", "C07.SizeLaw", "C07.SizeLaw.large", "C07.ReadOk"}
                      \cup (IF ln.rerr = "" THEN {"C07.RtCount", "C07.RtCount.large"} ELSE {})]
    ELSE IF ~SizeLawN(ln.f, ln.n) THEN [bad |-> {"Harness.Encode"}, why |-> {}, ex |-> {}]
    ELSE IF ln.rerr # "" THEN [bad |-> {"C07.ReadOk"}, why |-> {ln.rerr}, ex |-> {"C07.ReadOk"}]
    ELSE IF ln.rdn # ln.n THEN [bad |-> {"C07.RdCount"}, why |-> {}, ex |-> {"C07.ReadOk", "C07.RdCount"}]
    ELSE IF ln.werr # "" THEN [bad |-> {"C07.RwOk"}, why |-> {ln.werr}, ex |-> {"C07.ReadOk", "C07.RdCount", "C07.RwOk"}]
    ELSE [bad |-> Bad("C07.RwSize", SizeLawN(ln.f2, ln.n)), why |-> {},
          ex |-> {"C07.ReadOk", "C07.RdCount", "C07.RdCount.large", "C07.RwOk", "C07.RwSize", "C07.RwSize.large"}]

Judge(ln) == CASE ln.k = "sw" -> SwJudge(ln) [] ln.k = "sr" -> SrJudge(ln) [] ln.k = "sb" -> SbJudge(ln)
               [] OTHER -> SzJudge(ln)

Bump(cnt, names) == [p \in (DOMAIN cnt) \cup names |->
                        (IF p \in DOMAIN cnt THEN cnt[p] ELSE 0) + (IF p \in names THEN 1 ELSE 0)]

Init == l = 1 /\ ex = [p \in {"lines"} |-> 0]

\* j and ex1 are bound by \E over singleton sets: TLC evaluates the set once and binds the VALUE (a
\* LET definition at the top of an action is re-evaluated at every mention, which multiplied the
\* judge's work on long lines)
Line ==
    /\ l <= Len(Trace)
    /\ \E j \in {Judge(Trace[l])} : \E ex1 \in {Bump(ex, j.ex \cup {"lines"})} :
       /\ IF j.bad = {} THEN TRUE ELSE PrintT(ToJson([l |-> l, bad |-> j.bad, why |-> j.why]))
       /\ IF l = Len(Trace) THEN PrintT(ToJson([ex |-> ex1])) ELSE TRUE
       /\ ex' = ex1
    /\ l' = l + 1

Next == Line
Spec == Init /\ [][Next]_vars

TraceAccepted == TLCGet("stats").diameter - 1 = Len(Trace)
=============================================================================
