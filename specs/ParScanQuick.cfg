\* design check + exhaustive schedule generator, quick bound (n <= 6, w <= 4)
CONSTANTS
  MaxN = 6
  MaxW = 4
  MinW = 1
  Loop = "end"
SPECIFICATION Spec
INVARIANTS PartitionOK AtMostOnce Termination OutputOK EmitDone
PROPERTY RefinesContract
CHECK_DEADLOCK FALSE
