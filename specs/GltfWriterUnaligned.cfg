\* offsets as writer.go: TLC finds the scene whose second view is not 4-byte aligned (open known finding)
CONSTANTS
  MeshIds = {1, 2, 3, 4, 5, 6, 9}
  MatIds = {0, 1, 2, 3, 4, 5, 6, 8, 11}
  InstCounts = {0, 1}
  TrsKinds = {0}
  MaxModels = 2
  MaxLights = 1
  Pad = FALSE
  DeepEq = TRUE
SPECIFICATION Spec
INVARIANTS L2Aligned
CHECK_DEADLOCK FALSE
