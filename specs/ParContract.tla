---------------------------- MODULE ParContract ----------------------------
(***************************************************************************)
(* C10 -- contract level (L1) of the parallel entry points, as constant    *)
(* operators shared by the implementation-shaped machines (ParScan,        *)
(* ParField) and by the judge of real executions (TracePar).               *)
(*                                                                         *)
(* A parallel scan / modification over n elements is, for its user, the    *)
(* contract machine                                                        *)
(*     state   visits \in [0..n-1 -> Nat]   (how often the callback ran)   *)
(*     action  Visit(i, v)  enabled iff i \in 0..n-1 /\ visits[i] = 0,     *)
(*                          v is element i's own value                     *)
(*     end     every visits[i] = 1, the output is the sequential output,   *)
(*             no callback runs after the call returned                    *)
(* Which worker runs Visit(i) and in what order is deliberately NOT part   *)
(* of the contract: any partition, any interleaving is accepted.           *)
(*                                                                         *)
(* int32 budget: element values |v| <= 10^4, fa,fb <= 9, n <= 10^4;        *)
(* triangle corners |c| <= 300 cells * 5040 = 1.6*10^6; bit-exact corners  *)
(* are three integers < 2^22 per coordinate.                               *)
(***************************************************************************)
EXTENDS Integers, Sequences, FiniteSets

Indices(n) == 0 .. (n - 1)
ZeroVisits(n) == [i \in Indices(n) |-> 0]

VisitEnabled(visits, i) == i \in DOMAIN visits /\ visits[i] = 0
AfterVisit(visits, i) == IF i \in DOMAIN visits THEN [visits EXCEPT ![i] = @ + 1] ELSE visits
Complete(visits) == \A i \in DOMAIN visits : visits[i] = 1

\* The function the harness callback of a Modify* variant applies (on floats
\* holding small integers, so IEEE arithmetic is exact): component c (1-based)
\* of element i (0-based) with old value v.
F(fa, fb, i, v) == [c \in DOMAIN v |-> fa * v[c] + fb * (i + 1) + c]

(* ---- one callback event against the contract ------------------------- *)
\* i: the index the callback received, v: the value it received,
\* own: the value element i has (a 1-based sequence over the elements; only
\* consulted when `known`)
VisitBad(visits, i, v, own, known) ==
    (IF i \in DOMAIN visits THEN {} ELSE {"C10.Index"})
    \cup (IF i \in DOMAIN visits /\ visits[i] # 0 THEN {"C10.Once"} ELSE {})
    \cup (IF known /\ i \in DOMAIN visits /\ v # own[i + 1] THEN {"C10.OwnValue"} ELSE {})

(* ---- a whole run given as a list of events <<i, v1, .., vk>> ---------- *)
EvIndex(e) == e[1]
EvValue(e) == SubSeq(e, 2, Len(e))
CountOf(ev, i) == Cardinality({k \in DOMAIN ev : EvIndex(ev[k]) = i})

RunBad(n, ev, own, known) ==
    (IF \A k \in DOMAIN ev : EvIndex(ev[k]) \in Indices(n) THEN {} ELSE {"C10.Index"})
    \cup (IF \A i \in Indices(n) : CountOf(ev, i) <= 1 THEN {} ELSE {"C10.Once"})
    \cup (IF \A i \in Indices(n) : CountOf(ev, i) >= 1 THEN {} ELSE {"C10.All"})
    \cup (IF known => \A k \in DOMAIN ev : EvIndex(ev[k]) \in Indices(n) => EvValue(ev[k]) = own[EvIndex(ev[k]) + 1]
          THEN {} ELSE {"C10.OwnValue"})

\* the sequential counterpart visits 0,1,..,n-1 in this order (sanity of the reference run)
SeqShape(n, ev) == Len(ev) = n /\ \A k \in DOMAIN ev : EvIndex(ev[k]) = k - 1

\* values the callback saw in the sequential run, by element
OwnFromSeq(n, ev) == [k \in 1 .. n |-> EvValue(ev[k])]

(* ---- triangle multisets (marching) ----------------------------------- *)
\* a triangle is the concatenation of its three corners, <<x1,y1,z1, x2,y2,z2, x3,y3,z3>> on the
\* lattice, or three integers per coordinate when the IEEE bit pattern is logged (27 entries);
\* rotation of the corners does not matter, orientation does
Rot(t) == LET n == Len(t) \div 3 IN SubSeq(t, n + 1, 3 * n) \o SubSeq(t, 1, n)
LexLess(a, b) == \E k \in 1 .. Len(a) : a[k] < b[k] /\ \A j \in 1 .. (k - 1) : a[j] = b[j]
Canon(t) ==
    LET r1 == Rot(t)
        r2 == Rot(r1)
        m1 == IF LexLess(r1, t) THEN r1 ELSE t
    IN IF LexLess(r2, m1) THEN r2 ELSE m1

CanonSeq(ts) == [k \in DOMAIN ts |-> Canon(ts[k])]
Mult(cs, t) == Cardinality({k \in DOMAIN cs : cs[k] = t})
\* a list in the canonical form of its multiset: every triangle is its own canonical rotation
\* and the list is sorted.  Two lists in this form denote the same multiset iff they are equal,
\* which TLC decides in linear time (a full block face gives 10^4 .. 10^5 triangles).
SortedCanon(ts) ==
    /\ \A k \in DOMAIN ts : Canon(ts[k]) = ts[k]
    /\ \A k \in 1 .. (Len(ts) - 1) : ~LexLess(ts[k + 1], ts[k])
SameBagGeneral(a, b) ==
    LET ca == CanonSeq(a)
        cb == CanonSeq(b)
        sa == {ca[k] : k \in DOMAIN ca}
        sb == {cb[k] : k \in DOMAIN cb}
    IN /\ Len(a) = Len(b)
       /\ sa = sb
       /\ (Cardinality(sa) = Len(a) \/ \A t \in sa : Mult(ca, t) = Mult(cb, t))
SameBag(a, b) == IF SortedCanon(a) /\ SortedCanon(b) THEN a = b ELSE SameBagGeneral(a, b)

(* ---- sample multisets (field accumulation) --------------------------- *)
\* a sample multiset is a sequence of boxes <<attr, x0, x1, y0, y1, z0, z1, count>> (inclusive
\* bounds, every lattice point of the box evaluated `count` times) in a canonical order
EachOnce(s) == \A k \in DOMAIN s : s[k][Len(s[k])] = 1
\* the box the contract asks for: AddField evaluates attribute a once at every lattice point of
\* the domain lo..hi (cells) grown by one cell at the low end (floor - 1 .. ceil + 1 exclusive)
DomainBox(a, lo, hi) == <<a, lo[1] - 1, hi[1], lo[2] - 1, hi[2], lo[3] - 1, hi[3], 1>>
=============================================================================
