------------------------------- MODULE MtlImpl -------------------------------
(***************************************************************************)
(* Implementation-shaped (L2) models of polyform's MTL writer and reader   *)
(* (formats/obj/writer.go WriteMaterials / WriteMaterial, mat_reader.go    *)
(* ReadMaterials).  They exist to check the DESIGN on the specification:   *)
(* that the contract of MtlFormat is satisfiable by the repaired           *)
(* algorithms on every generated input, and where the pinned algorithms    *)
(* break it (those inputs are tagged "risky" and then executed on the real *)
(* code).  They never pass verdicts on the code.                           *)
(*                                                                         *)
(* variant "pinned": names lose only the character ' ', an empty name is   *)
(*                   written as it is; the reader knows newmtl, Kd, Ns and *)
(*                   map_Kd only and truncates 255*channel (wrapping       *)
(*                   outside 0..1)                                         *)
(* variant "fixed" : names lose all blanks, an empty name becomes a        *)
(*                   placeholder; the reader knows every statement the     *)
(*                   writer emits, rounds to the nearest level and         *)
(*                   saturates                                             *)
(* Template colours are <<kind, r, g, b>> (harness/mtlfam/build.go):       *)
(* 1 RGBA 8 bit, 2 RGBA64, 3 Gray (r only), 4 NRGBA 8 bit opaque, 5 a      *)
(* colour type returning its channels unchecked.                           *)
(* int32 budget: 2000 * s with s <= 2 * 65535; 510 * w with |w| <= 3 CQ.   *)
(***************************************************************************)
EXTENDS MtlFormat

MSt(t, s, nm, x) == [t |-> t, s |-> s, nm |-> nm, x |-> x]

Rgba(c) ==
    CASE c = <<>> -> <<>>
      [] c[1] \in {1, 4} -> <<257 * c[2], 257 * c[3], 257 * c[4], Full>>
      [] c[1] = 3 -> <<257 * c[2], 257 * c[2], 257 * c[2], Full>>
      [] OTHER -> <<c[2], c[3], c[4], Full>>

\* what the harness projects from the real material built from template t (identity pid)
SrcOf(t, pid) ==
    [nil |-> FALSE, pid |-> pid, nm |-> t.nm, name |-> t.name,
     kd |-> Rgba(t.kd), ka |-> Rgba(t.ka), ks |-> Rgba(t.ks),
     ns |-> <<t.ns, t.ns>>, ni |-> <<t.ni, t.ni>>, tr |-> <<t.tr, t.tr>>,
     mapkd |-> t.mapkd, mapks |-> t.mapks, norm |-> t.norm]
NilSrc ==
    [nil |-> TRUE, pid |-> 0, nm |-> <<>>, name |-> "", kd |-> <<>>, ka |-> <<>>, ks |-> <<>>,
     ns |-> <<0, 0>>, ni |-> <<0, 0>>, tr |-> <<0, 0>>, mapkd |-> <<>>, mapks |-> <<>>, norm |-> <<>>]
\* modeling.DefaultMaterial(): "Default Diffuse", white / black / black, 100, 1, opaque
DefaultSrc ==
    [nil |-> FALSE, pid |-> 0,
     nm |-> <<68, 101, 102, 97, 117, 108, 116, 32, 68, 105, 102, 102, 117, 115, 101>>, name |-> "Default Diffuse",
     kd |-> <<Full, Full, Full, Full>>, ka |-> <<0, 0, 0, Full>>, ks |-> <<0, 0, 0, Full>>,
     ns |-> <<102400, 102400>>, ni |-> <<1024, 1024>>, tr |-> <<0, 0>>, mapkd |-> <<>>, mapks |-> <<>>, norm |-> <<>>]

(* ------------------------------ writer -------------------------------- *)
\* math.Round(1000 * s / 65535) / 1000 in units of 1/CQ (no ties: 65535 is odd)
Round3(s) == 10 * ((2000 * s + Full) \div (2 * Full))
Placeholder == <<85, 110, 110, 97, 109, 101, 100>>          \* "Unnamed"
Sanitise(nm, variant) ==
    LET s == SelectSeq(nm, LAMBDA c : IF variant = "pinned" THEN c # 32 ELSE ~Blank(c)) IN
    IF s = <<>> /\ variant = "fixed" THEN Placeholder ELSE s

ColStmt(key, c) == IF c = <<>> THEN <<>> ELSE <<MSt(key, "", <<>>, <<Round3(c[1]), Round3(c[2]), Round3(c[3])>>)>>
TexStmt(key, p) == IF p = <<>> THEN <<>> ELSE <<MSt(key, p[1], <<>>, <<>>)>>

BlockOf(c, variant) ==
    <<MSt("newmtl", "", Sanitise(c.nm, variant), <<>>)>>
    \o ColStmt("Kd", c.kd) \o ColStmt("Ka", c.ka) \o ColStmt("Ks", c.ks)
    \o <<MSt("Ns", "", <<>>, c.ns), MSt("Ni", "", <<>>, c.ni), MSt("d", "", <<>>, <<DQ - c.tr[1], DQ - c.tr[1]>>)>>
    \o TexStmt("map_Kd", c.mapkd) \o TexStmt("map_Ks", c.mapks) \o TexStmt("map_Bump", c.norm) \o TexStmt("norm", c.norm)

\* WriteMaterials: a comment, then every range in order; the default material once for nil ranges,
\* every other material once per POINTER
WStep(a, c, variant) ==
    IF c.nil THEN (IF a.dflt THEN a ELSE [a EXCEPT !.out = @ \o BlockOf(DefaultSrc, variant), !.dflt = TRUE])
    ELSE IF c.pid \in a.seen THEN a
    ELSE [a EXCEPT !.out = @ \o BlockOf(c, variant), !.seen = @ \cup {c.pid}]
WriteModel(srcs, variant) ==
    FoldLeft(LAMBDA a, c : WStep(a, c, variant),
             [out |-> <<MSt("x", "", <<>>, <<>>)>>, seen |-> {}, dflt |-> FALSE], srcs).out

(* ------------------------------ reader -------------------------------- *)
Obs0(nm) == [nil |-> FALSE, nm |-> nm, name |-> "", kd |-> <<>>, ka |-> <<>>, ks |-> <<>>,
             ns |-> 0, ni |-> 0, tr |-> 0, mapkd |-> <<>>, mapks |-> <<>>, norm |-> <<>>]
Near8(w) == LET k == (510 * w + CQ) \div (2 * CQ) IN IF k < 0 THEN 0 ELSE IF k > 255 THEN 255 ELSE k
Trunc8(w) == ((255 * w) \div CQ) % 256
ColObs(x, variant) ==
    LET v == IF Len(x) = 1 THEN <<x[1], x[1], x[1]>> ELSE x
        f(w) == 257 * (IF variant = "pinned" THEN Trunc8(w) ELSE Near8(w)) IN
    <<f(v[1]), f(v[2]), f(v[3]), Full>>

RStep(a, st, variant) ==
    LET fx == variant = "fixed" IN
    CASE st.t = "newmtl" -> [mats |-> IF a.open THEN Append(a.mats, a.cur) ELSE a.mats, open |-> TRUE, cur |-> Obs0(st.nm)]
      [] st.t = "Kd" -> [a EXCEPT !.cur.kd = ColObs(st.x, variant)]
      [] st.t = "Ka" /\ fx -> [a EXCEPT !.cur.ka = ColObs(st.x, variant)]
      [] st.t = "Ks" /\ fx -> [a EXCEPT !.cur.ks = ColObs(st.x, variant)]
      [] st.t = "Ns" -> [a EXCEPT !.cur.ns = st.x[1]]
      [] st.t = "Ni" /\ fx -> [a EXCEPT !.cur.ni = st.x[1]]
      [] st.t = "d" /\ fx -> [a EXCEPT !.cur.tr = DQ - st.x[1]]
      [] st.t = "map_Kd" -> [a EXCEPT !.cur.mapkd = <<st.s>>]
      [] st.t = "map_Ks" /\ fx -> [a EXCEPT !.cur.mapks = <<st.s>>]
      [] st.t \in {"map_Bump", "norm"} /\ fx -> [a EXCEPT !.cur.norm = <<st.s>>]
      [] OTHER -> a
\* for texts the format machine accepts
ReadModel(stmts, variant) ==
    LET a == FoldLeft(LAMBDA b, st : RStep(b, st, variant), [mats |-> <<>>, open |-> FALSE, cur |-> Obs0(<<>>)], stmts) IN
    IF a.open THEN Append(a.mats, a.cur) ELSE a.mats

(* ------------------------- what the models do ------------------------- *)
WriterBad(srcs, variant) ==
    LET den == MtlDenote(WriteModel(srcs, variant)) IN
    IF ~den.ok THEN {"Valid:" \o den.why} ELSE WriteBad(srcs, den)
PipelineBad(srcs, variant) ==
    LET text == WriteModel(srcs, variant)
        den == MtlDenote(text) IN
    IF ~den.ok THEN {"Valid:" \o den.why}
    ELSE ReadBad(den, ReadModel(text, variant), 1024) \cup RoundTripBad(srcs, ReadModel(text, variant))
=============================================================================
