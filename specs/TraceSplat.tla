---------------------------- MODULE TraceSplat ----------------------------
(***************************************************************************)
(* Trace validation of the gaussian-splat codecs (C15).  Lines written by  *)
(* `vh splat-exec` (harness/splatfam; units in its package comment):       *)
(*                                                                         *)
(*  {"k":"spz","hdr":[version,n,deg,fb],"pay":[bytes] or "pat":name (the   *)
(*   bytes are PatPayload(pat, hdr); plen, psum bind what was encoded),     *)
(*   "per":P (dec arrays logged with period P, x<arr> the exceptions),      *)
(*   "dl":delivery of the file, "la","lg": size-ladder target, "frame","ok",*)
(*   "dec":{"n","hdr","lens":[5],"shlens":[..],"other":[names],            *)
(*          "pos":[[[kind,m,e] x3]],"alpha":[[q,ex]],"color":[[q,q,q,ex]], *)
(*          "scale":[[q,q,q,ex]],"rot":[[q,q,q,wq,ex]],"sh":[[[q,q,q,ex]]]}*)
(*      real spz.Read of the reference-encoded stream                      *)
(*  {"k":"splat","n","werr","nbytes","rest","orig":[splat],"rec":[record], *)
(*   "rerr","decn","dec":[splat]}                                          *)
(*      real splat.Write -> independent record parser -> real splat.Read   *)
(*  {"k":"sply","n","werr","orig":[attr],"perr","hdr","props":[column],    *)
(*   "bodylen","rerr","decn","dectopo","dec":[attr]}                       *)
(*      real ply.SplatPly.Write -> independent PLY parser -> ply.ReadMesh  *)
(*                                                                         *)
(* Every judgement is made here by TLC on SplatFormat's laws; each         *)
(* rejected line is printed as JSON {"l","bad":[predicate names]}.         *)
(***************************************************************************)
EXTENDS SplatFormat, Json, TLC

Trace == ndJsonDeserialize("trace.ndjson")

VARIABLES l
Init == l = 1

Report(bad) == IF bad = {} THEN TRUE ELSE PrintT(ToJson([l |-> l, bad |-> bad]))
If(c, name) == IF c THEN {name} ELSE {}

\* ------------------------------------------------------------------ SPZ ---
(***************************************************************************)
(* Observation of one array, logged losslessly with period P (0: in full): *)
(* head = the first min(n, P) entries; exc = <<i, entry>> for the later     *)
(* entries that differ from entry i-P.  So entry i of the observation is   *)
(*   head[i+1] if i < P, the listed one if i is listed, else entry i-P.    *)
(* ArrOk: the log is well formed and every entry i satisfies Ok(i, entry); *)
(* an unlisted entry whose bytes equal those of entry i-P (Same(i)) is not *)
(* evaluated again: Ok depends on the bytes only.  Ill-formed logs are     *)
(* rejected without being dereferenced.                                    *)
(***************************************************************************)
ArrOk(head, exc, n, P, Ok(_, _), Same(_)) ==
    LET hl == IF P <= 0 \/ n < P THEN n ELSE P
        wf == /\ Len(head) = hl
              /\ \A k \in DOMAIN exc : Len(exc[k]) = 2 /\ exc[k][1] \in hl..(n - 1)
              /\ \A k1, k2 \in DOMAIN exc : exc[k1][1] = exc[k2][1] => k1 = k2
        xi == {exc[k][1] : k \in DOMAIN exc}
        X(i) == exc[CHOOSE k \in DOMAIN exc : exc[k][1] = i][2]
        RECURSIVE Obs(_)
        Obs(i) == IF i < hl THEN head[i + 1] ELSE IF i \in xi THEN X(i) ELSE Obs(i - P)
    IN wf /\ \A i \in 0..(n - 1) : IF i < hl \/ i \in xi THEN Ok(i, Obs(i)) ELSE Same(i) \/ Ok(i, Obs(i))

SpzBad(ln) ==
    LET hdr == ln.hdr
        n == hdr[2]
        dim == ShDim(hdr[3])
        P == ln.per
        pay == IF ln.pat = "" THEN ln.pay ELSE PatPayload(ln.pat, hdr)
        RECURSIVE Sum(_, _)
        Sum(lo, hi) == IF lo > hi THEN 0 ELSE IF lo = hi THEN pay[lo]
                       ELSE LET mid == (lo + hi) \div 2 IN Sum(lo, mid) + Sum(mid + 1, hi)
        bind == /\ ln.plen = PayloadLen(hdr) /\ Len(pay) = PayloadLen(hdr)
                /\ (ln.pat = "" \/ ln.psum = Sum(1, Len(pay)))     \* the bytes encoded are the pattern's
                /\ (ln.la = "" \/ Split(hdr, ln.la, ln.lg))
        d == ln.dec
        hl == IF P <= 0 \/ n < P THEN n ELSE P
        SameBytes(o1, o2, len) == \A t \in 1..len : pay[o1 + t] = pay[o2 + t]
        lensOk == /\ d.n = n /\ d.hdr = hdr /\ d.other = <<>>
                  /\ d.lens = [j \in 1..5 |-> n]
                  /\ d.shlens = [j \in 1..(IF n = 0 THEN 0 ELSE dim) |-> n]
        Sh3(i, k) == <<DeqSh(hdr, pay, i, k, 0), DeqSh(hdr, pay, i, k, 1), DeqSh(hdr, pay, i, k, 2), 1>>
    IN IF ~bind THEN {"Model.SpzCase"}
       ELSE IF ~ln.ok THEN {"C15.SpzAccept"}
       ELSE IF ~lensOk THEN {"C15.SpzLen"}
       ELSE If(~ArrOk(d.pos, d.xpos, n, P,
                      LAMBDA i, e : e = <<DeqPos(hdr, pay, i, 0), DeqPos(hdr, pay, i, 1), DeqPos(hdr, pay, i, 2)>>,
                      LAMBDA i : SameBytes(OffPos(hdr, i, 0), OffPos(hdr, i - P, 0), 3 * PosSize(hdr[1]))), "C15.SpzPos")
            \cup If(~ArrOk(d.alpha, d.xalpha, n, P,
                           LAMBDA i, e : e = <<DeqAlpha(hdr, pay, i), 1>>,
                           LAMBDA i : SameBytes(OffAlpha(hdr, i), OffAlpha(hdr, i - P), 1)), "C15.SpzAlpha")
            \cup If(~ArrOk(d.color, d.xcolor, n, P,
                           LAMBDA i, e : e = <<DeqColor(hdr, pay, i, 0), DeqColor(hdr, pay, i, 1), DeqColor(hdr, pay, i, 2), 1>>,
                           LAMBDA i : SameBytes(OffColor(hdr, i, 0), OffColor(hdr, i - P, 0), 3)), "C15.SpzColor")
            \cup If(~ArrOk(d.scale, d.xscale, n, P,
                           LAMBDA i, e : e = <<DeqScale(hdr, pay, i, 0), DeqScale(hdr, pay, i, 1), DeqScale(hdr, pay, i, 2), 1>>,
                           LAMBDA i : SameBytes(OffScale(hdr, i, 0), OffScale(hdr, i - P, 0), 3)), "C15.SpzScale")
            \cup If(~ArrOk(d.rot, d.xrot, n, P,
                           LAMBDA i, e : /\ Len(e) = 5
                                         /\ SubSeq(e, 1, 3) = <<DeqRot(hdr, pay, i, 0), DeqRot(hdr, pay, i, 1), DeqRot(hdr, pay, i, 2)>>
                                         /\ e[5] = 1
                                         /\ RotWOk(hdr, pay, i, e[4]),
                           LAMBDA i : SameBytes(OffRot(hdr, i, 0), OffRot(hdr, i - P, 0), 3)), "C15.SpzRot")
            \cup If(IF dim = 0 THEN d.sh # <<>> \/ d.xsh # <<>>
                    ELSE ~ArrOk(d.sh, d.xsh, n, P,
                                LAMBDA i, e : Len(e) = dim /\ \A k \in 0..(dim - 1) : e[k + 1] = Sh3(i, k),
                                LAMBDA i : SameBytes(OffSh(hdr, i, 0, 0), OffSh(hdr, i - P, 0, 0), 3 * dim)), "C15.SpzSH")

\* --------------------------------------------------------------- .splat ---
ColMilli(x) == Clamp(x, 0, 255 * Step)      \* colours clamp to the displayable range
SplatBad(ln) ==
    LET n == ln.n
        I == 1..n
        C3 == 1..3
        C4 == 1..4
        o == ln.orig
        r == ln.rec
        d == ln.dec
        wOk == ~ln.werr /\ ln.nbytes = 32 * n /\ ln.rest = 0 /\ Len(r) = n
        rOk == ~ln.rerr /\ ln.decn = n /\ Len(d) = n
    IN If(Len(o) # n, "Model.SplatCase")
       \cup If(~wOk, "C15.SplatSize")
       \cup If(~rOk, "C15.SplatCount")
       \cup (IF ~wOk THEN {} ELSE      \* the bytes written, against the source
                If(\E i \in I, c \in C3 : r[i].p[c] # o[i].p[c], "C15.SplatWritePos")
                \cup If(\E i \in I, c \in C3 : Abs(r[i].sl[c] - o[i].s[c]) > ScaleBand, "C15.SplatWriteScale")
                \cup If(\E i \in I, c \in C3 : ~WithinStep(Step * r[i].c[c], ColMilli(o[i].c[c])), "C15.SplatWriteColor")
                \cup If(\E i \in I : ~WithinStep(Step * r[i].a, o[i].a), "C15.SplatWriteOpacity")
                \cup If(\E i \in I, c \in C4 : ~WithinStep(Step * r[i].r[c], o[i].r[c]), "C15.SplatWriteRot"))
       \cup (IF ~(wOk /\ rOk) THEN {} ELSE     \* what was read, against the bytes
                If(\E i \in I, c \in C3 : d[i].p[c] # r[i].p[c] \o <<1>>, "C15.SplatReadPos")
                \cup If(\E i \in I, c \in C3 : Abs(d[i].s[c] - r[i].sl[c]) > 1, "C15.SplatReadScale")
                \cup If(\E i \in I, c \in C3 : Abs(d[i].c[c] - Step * r[i].c[c]) > Slack, "C15.SplatReadColor")
                \cup If(\E i \in I : Abs(d[i].a - Step * r[i].a) > Slack, "C15.SplatReadOpacity")
                \cup If(\E i \in I, c \in C4 : Abs(d[i].r[c] - Step * r[i].r[c]) > Slack, "C15.SplatReadRot"))
       \cup (IF ~rOk \/ Len(o) # n THEN {} ELSE       \* the round trip as the property states it
                If(\E i \in I, c \in C3 : d[i].p[c] # o[i].p[c] \o <<1>>, "C15.SplatPos")
                \cup If(\E i \in I, c \in C3 : Abs(d[i].s[c] - o[i].s[c]) > ScaleBand, "C15.SplatScale")
                \cup If(\E i \in I, c \in C3 : ~WithinStep(d[i].c[c], ColMilli(o[i].c[c])), "C15.SplatColor")
                \cup If(\E i \in I : ~WithinStep(d[i].a, o[i].a), "C15.SplatOpacity")
                \cup If(\E i \in I, c \in C4 : ~WithinStep(d[i].r[c], o[i].r[c]), "C15.SplatRot"))

\* ----------------------------------------------------- splat PLY export ---
Range(s) == {s[i] : i \in DOMAIN s}
SplyBad(ln) ==
    LET n == ln.n
        I == 1..n
        o == ln.orig
        props == ln.props
        wantNames == UNION {{PropName(o[a].a, c) : c \in 1..o[a].ar} : a \in DOMAIN o}
        names == {props[j].n : j \in DOMAIN props}
        Col(name) == props[CHOOSE j \in DOMAIN props : props[j].n = name]
        hdrOk == /\ ~ln.werr /\ ~ln.perr
                 /\ ln.hdr.fmt = "binary_little_endian" /\ ln.hdr.first = "vertex" /\ ln.hdr.nvert = n
                 /\ ln.hdr.nelem = 1 /\ ln.hdr.lists = 0
                 /\ names = wantNames /\ Len(props) = Cardinality(wantNames)
                 /\ \A j \in DOMAIN props : props[j].t = "float" /\ Len(props[j].v) = n
        d == ln.dec
        Dec(name) == d[CHOOSE j \in DOMAIN d : d[j].a = name]
    IN If(\E a \in DOMAIN o : o[a].n # n \/ Len(o[a].v) # n, "Model.SplyCase")
       \cup If(~hdrOk, "C15.PlyHeader")
       \cup (IF ~hdrOk THEN {} ELSE
                If(ln.bodylen # 4 * n * Len(props), "C15.PlyBody")
                \cup If(\E a \in DOMAIN o : \E c \in 1..o[a].ar : \E i \in I :
                            Col(PropName(o[a].a, c)).v[i] # o[a].v[i][c], "C15.PlyBody"))
       \cup If(ln.rerr \/ ln.decn # n \/ (n > 0 /\ ln.dectopo # "point"), "C15.PlyRead")
       \cup (IF ln.rerr \/ ln.decn # n THEN {} ELSE
                If({d[j].a : j \in DOMAIN d} # {o[a].a : a \in DOMAIN o} \/ Len(d) # Len(o), "C15.PlyRead")
                \cup If(\E a \in DOMAIN o :
                            /\ \E j \in DOMAIN d : d[j].a = o[a].a
                            /\ LET x == Dec(o[a].a) IN
                               \/ x.ar # o[a].ar \/ x.n # n \/ Len(x.v) # n
                               \/ \E i \in I : \E c \in 1..o[a].ar : SubSeq(x.v[i][c], 1, 2) # o[a].v[i][c],   \* at float32 precision
                        "C15.PlyRead"))

Step1 ==
    /\ l <= Len(Trace)
    /\ LET ln == Trace[l]
           bad == CASE ln.k = "spz" -> SpzBad(ln)
                    [] ln.k = "splat" -> SplatBad(ln)
                    [] ln.k = "sply" -> SplyBad(ln)
       IN Report(bad)
    /\ l' = l + 1

Spec == Init /\ [][Step1]_l
TraceAccepted == TLCGet("stats").diameter - 1 = Len(Trace)
=============================================================================
