---------------------------- MODULE TraceSplat ----------------------------
(***************************************************************************)
(* Trace validation of the gaussian-splat codecs (C15).  Lines written by  *)
(* `vh splat-exec` (harness/splatfam; units in its package comment):       *)
(*                                                                         *)
(*  {"k":"spz","hdr":[version,n,deg,fb],"pay":[bytes],"frame","ok",        *)
(*   "dec":{"n","hdr","lens":[5],"shlens":[..],"other":[names],            *)
(*          "pos":[[[kind,m,e] x3]],"alpha":[[q,ex]],"color":[[q,q,q,ex]], *)
(*          "scale":[[q,q,q,ex]],"rot":[[q,q,q,wq,ex]],"sh":[[[q,q,q,ex]]]}*)
(*      real spz.Read of the reference-encoded stream                      *)
(*  {"k":"splat","n","werr","nbytes","rest","orig":[splat],"rec":[record], *)
(*   "rerr","decn","dec":[splat]}                                          *)
(*      real splat.Write -> independent record parser -> real splat.Read   *)
(*  {"k":"sply","n","werr","orig":[attr],"perr","hdr","props":[column],    *)
(*   "bodylen","rerr","decn","dectopo","dec":[attr]}                       *)
(*      real ply.SplatPly.Write -> independent PLY parser -> ply.ReadMesh  *)
(*                                                                         *)
(* Every judgement is made here by TLC on SplatFormat's laws; each         *)
(* rejected line is printed as JSON {"l","bad":[predicate names]}.         *)
(***************************************************************************)
EXTENDS SplatFormat, Json, TLC

Trace == ndJsonDeserialize("trace.ndjson")

VARIABLES l
Init == l = 1

Report(bad) == IF bad = {} THEN TRUE ELSE PrintT(ToJson([l |-> l, bad |-> bad]))
If(c, name) == IF c THEN {name} ELSE {}

\* ------------------------------------------------------------------ SPZ ---
SpzBad(ln) ==
    LET hdr == ln.hdr
        pay == ln.pay
        n == hdr[2]
        dim == ShDim(hdr[3])
        d == ln.dec
        I == 0..(n - 1)
        C3 == 0..2
        lensOk == /\ d.n = n /\ d.hdr = hdr /\ d.other = <<>>
                  /\ d.lens = [j \in 1..5 |-> n]
                  /\ d.shlens = [j \in 1..(IF n = 0 THEN 0 ELSE dim) |-> n]
                  /\ Len(d.pos) = n /\ Len(d.alpha) = n /\ Len(d.color) = n /\ Len(d.scale) = n
                  /\ Len(d.rot) = n /\ Len(d.sh) = (IF dim = 0 THEN 0 ELSE n)
    IN IF Len(pay) # PayloadLen(hdr) THEN {"Model.SpzCase"}
       ELSE IF ~ln.ok THEN {"C15.SpzAccept"}
       ELSE IF ~lensOk THEN {"C15.SpzLen"}
       ELSE If(\E i \in I, c \in C3 : d.pos[i + 1][c + 1] # DeqPos(hdr, pay, i, c), "C15.SpzPos")
            \cup If(\E i \in I : d.alpha[i + 1] # <<DeqAlpha(hdr, pay, i), 1>>, "C15.SpzAlpha")
            \cup If(\E i \in I : d.color[i + 1] # <<DeqColor(hdr, pay, i, 0), DeqColor(hdr, pay, i, 1), DeqColor(hdr, pay, i, 2), 1>>,
                    "C15.SpzColor")
            \cup If(\E i \in I : d.scale[i + 1] # <<DeqScale(hdr, pay, i, 0), DeqScale(hdr, pay, i, 1), DeqScale(hdr, pay, i, 2), 1>>,
                    "C15.SpzScale")
            \cup If(\E i \in I : \/ SubSeq(d.rot[i + 1], 1, 3) # <<DeqRot(hdr, pay, i, 0), DeqRot(hdr, pay, i, 1), DeqRot(hdr, pay, i, 2)>>
                                 \/ d.rot[i + 1][5] # 1
                                 \/ ~RotWOk(hdr, pay, i, d.rot[i + 1][4]),
                    "C15.SpzRot")
            \cup If(dim > 0 /\ \E i \in I : \/ Len(d.sh[i + 1]) # dim
                                            \/ \E k \in 0..(dim - 1) :
                                                 d.sh[i + 1][k + 1] # <<DeqSh(hdr, pay, i, k, 0), DeqSh(hdr, pay, i, k, 1),
                                                                        DeqSh(hdr, pay, i, k, 2), 1>>,
                    "C15.SpzSH")

\* --------------------------------------------------------------- .splat ---
ColMilli(x) == Clamp(x, 0, 255 * Step)      \* colours clamp to the displayable range
SplatBad(ln) ==
    LET n == ln.n
        I == 1..n
        C3 == 1..3
        C4 == 1..4
        o == ln.orig
        r == ln.rec
        d == ln.dec
        wOk == ~ln.werr /\ ln.nbytes = 32 * n /\ ln.rest = 0 /\ Len(r) = n
        rOk == ~ln.rerr /\ ln.decn = n /\ Len(d) = n
    IN If(Len(o) # n, "Model.SplatCase")
       \cup If(~wOk, "C15.SplatSize")
       \cup If(~rOk, "C15.SplatCount")
       \cup (IF ~wOk THEN {} ELSE      \* the bytes written, against the source
                If(\E i \in I, c \in C3 : r[i].p[c] # o[i].p[c], "C15.SplatWritePos")
                \cup If(\E i \in I, c \in C3 : Abs(r[i].sl[c] - o[i].s[c]) > ScaleBand, "C15.SplatWriteScale")
                \cup If(\E i \in I, c \in C3 : ~WithinStep(Step * r[i].c[c], ColMilli(o[i].c[c])), "C15.SplatWriteColor")
                \cup If(\E i \in I : ~WithinStep(Step * r[i].a, o[i].a), "C15.SplatWriteOpacity")
                \cup If(\E i \in I, c \in C4 : ~WithinStep(Step * r[i].r[c], o[i].r[c]), "C15.SplatWriteRot"))
       \cup (IF ~(wOk /\ rOk) THEN {} ELSE     \* what was read, against the bytes
                If(\E i \in I, c \in C3 : d[i].p[c] # r[i].p[c] \o <<1>>, "C15.SplatReadPos")
                \cup If(\E i \in I, c \in C3 : Abs(d[i].s[c] - r[i].sl[c]) > 1, "C15.SplatReadScale")
                \cup If(\E i \in I, c \in C3 : Abs(d[i].c[c] - Step * r[i].c[c]) > Slack, "C15.SplatReadColor")
                \cup If(\E i \in I : Abs(d[i].a - Step * r[i].a) > Slack, "C15.SplatReadOpacity")
                \cup If(\E i \in I, c \in C4 : Abs(d[i].r[c] - Step * r[i].r[c]) > Slack, "C15.SplatReadRot"))
       \cup (IF ~rOk \/ Len(o) # n THEN {} ELSE       \* the round trip as the property states it
                If(\E i \in I, c \in C3 : d[i].p[c] # o[i].p[c] \o <<1>>, "C15.SplatPos")
                \cup If(\E i \in I, c \in C3 : Abs(d[i].s[c] - o[i].s[c]) > ScaleBand, "C15.SplatScale")
                \cup If(\E i \in I, c \in C3 : ~WithinStep(d[i].c[c], ColMilli(o[i].c[c])), "C15.SplatColor")
                \cup If(\E i \in I : ~WithinStep(d[i].a, o[i].a), "C15.SplatOpacity")
                \cup If(\E i \in I, c \in C4 : ~WithinStep(d[i].r[c], o[i].r[c]), "C15.SplatRot"))

\* ----------------------------------------------------- splat PLY export ---
Range(s) == {s[i] : i \in DOMAIN s}
SplyBad(ln) ==
    LET n == ln.n
        I == 1..n
        o == ln.orig
        props == ln.props
        wantNames == UNION {{PropName(o[a].a, c) : c \in 1..o[a].ar} : a \in DOMAIN o}
        names == {props[j].n : j \in DOMAIN props}
        Col(name) == props[CHOOSE j \in DOMAIN props : props[j].n = name]
        hdrOk == /\ ~ln.werr /\ ~ln.perr
                 /\ ln.hdr.fmt = "binary_little_endian" /\ ln.hdr.first = "vertex" /\ ln.hdr.nvert = n
                 /\ ln.hdr.nelem = 1 /\ ln.hdr.lists = 0
                 /\ names = wantNames /\ Len(props) = Cardinality(wantNames)
                 /\ \A j \in DOMAIN props : props[j].t = "float" /\ Len(props[j].v) = n
        d == ln.dec
        Dec(name) == d[CHOOSE j \in DOMAIN d : d[j].a = name]
    IN If(\E a \in DOMAIN o : o[a].n # n \/ Len(o[a].v) # n, "Model.SplyCase")
       \cup If(~hdrOk, "C15.PlyHeader")
       \cup (IF ~hdrOk THEN {} ELSE
                If(ln.bodylen # 4 * n * Len(props), "C15.PlyBody")
                \cup If(\E a \in DOMAIN o : \E c \in 1..o[a].ar : \E i \in I :
                            Col(PropName(o[a].a, c)).v[i] # o[a].v[i][c], "C15.PlyBody"))
       \cup If(ln.rerr \/ ln.decn # n \/ (n > 0 /\ ln.dectopo # "point"), "C15.PlyRead")
       \cup (IF ln.rerr \/ ln.decn # n THEN {} ELSE
                If({d[j].a : j \in DOMAIN d} # {o[a].a : a \in DOMAIN o} \/ Len(d) # Len(o), "C15.PlyRead")
                \cup If(\E a \in DOMAIN o :
                            /\ \E j \in DOMAIN d : d[j].a = o[a].a
                            /\ LET x == Dec(o[a].a) IN
                               \/ x.ar # o[a].ar \/ x.n # n \/ Len(x.v) # n
                               \/ \E i \in I : \E c \in 1..o[a].ar : SubSeq(x.v[i][c], 1, 2) # o[a].v[i][c],   \* at float32 precision
                        "C15.PlyRead"))

Step1 ==
    /\ l <= Len(Trace)
    /\ LET ln == Trace[l]
           bad == CASE ln.k = "spz" -> SpzBad(ln)
                    [] ln.k = "splat" -> SplatBad(ln)
                    [] ln.k = "sply" -> SplyBad(ln)
       IN Report(bad)
    /\ l' = l + 1

Spec == Init /\ [][Step1]_l
TraceAccepted == TLCGet("stats").diameter - 1 = Len(Trace)
=============================================================================
