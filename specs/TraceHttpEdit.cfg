CONSTANTS Depth = 0 MaxNodes = 99 SaveOrder = "index" Pinned = FALSE
CONSTANT Prelude <- PreludeEmpty
SPECIFICATION TSpec
POSTCONDITION TraceAccepted
CHECK_DEADLOCK FALSE
