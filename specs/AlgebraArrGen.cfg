CONSTANTS
  Seed = 1
  Ks = {4, 8, 10, 12, 13, 14, 15}
  BigKs = {13, 14, 15}
  Procs = {1, 2, 3, 4, 7, 16}
SPECIFICATION Spec
INVARIANTS Emit
CHECK_DEADLOCK FALSE
