------------------------------ MODULE ObjNames ------------------------------
(***************************************************************************)
(* The NAME ALPHABET dimension of C05: group (mesh) and material names     *)
(* over every character class the writer emits verbatim, with the special  *)
(* character at every position of an item, and every way blanks can stand  *)
(* in a name; plus the lines a reader must skip (comments in every shape,  *)
(* o / s statements) between the statements of a text.                     *)
(*                                                                         *)
(* A name is built here from CHARACTERS (strings of one character; the     *)
(* <U+XXXX> placeholders stand for one unicode character each, the harness *)
(* decodes them - TLC's output is not unicode safe):                       *)
(*   Word(c, pos, d)   the item that has character c at position pos and   *)
(*                     the distinguishing digit d                          *)
(*   Shape             how items and blanks make the name                  *)
(* so the model KNOWS the items of every name by construction (Items), and *)
(* ObjFormat says what the file carries and what reading gives back        *)
(* (GroupNameRead, MtlNameWritten).                                        *)
(*                                                                         *)
(* Design level (checked by TLC on the model alone):                       *)
(*   ReaderDesign   a reader that splits the line "g <name>" into items    *)
(*                  returns the items of the name                          *)
(*   with Reader = "items" (the format's rule: the number sign is special  *)
(*   only at the start of the first item of a line) the invariant holds;   *)
(*   with Reader = "cut" (everything behind the first number sign of a     *)
(*   line is dropped before the line is looked at) TLC refutes it          *)
(*   (ObjNamesCut.cfg: the check requires the refutation).                 *)
(*                                                                         *)
(* Generator: for every name choice one "wr" case (two meshes whose names  *)
(* and materials differ only in the distinguishing digit, so a name cut or *)
(* altered at the special character makes them collide) and, for the       *)
(* shapes a text can carry as they are, one "ld" case with every skip line *)
(* between its statements.                                                 *)
(***************************************************************************)
EXTENDS ObjFormat, Json

CONSTANTS Reader,       \* "items" | "cut"  (design switch, see above)
          AllShapes     \* TRUE: every character in every shape; FALSE: all shapes for one character per class only

VARIABLES nm
vars == <<nm>>

Classes == [letter  |-> {"w", "Q"},
            digit   |-> {"0", "7"},
            hash    |-> {"#"},
            slash   |-> {"/", "\\"},
            dot     |-> {".", "-", "_"},
            quote   |-> {"'", "\"", "`"},
            bracket |-> {"(", ")", "[", "]", "{", "}", "<", ">"},
            punct   |-> {"!", "$", "%", "&", "*", "+", ",", ":", ";", "=", "?", "@", "^", "|", "~"},
            unicode |-> {"<U+00E9>", "<U+0416>", "<U+6F22>", "<U+1F600>"}]
Chars == UNION {Classes[k] : k \in DOMAIN Classes}
Rep(k) == CHOOSE c \in Classes[k] : TRUE
Reps == {Rep(k) : k \in DOMAIN Classes}

Positions == {"lead", "inner", "trail", "only", "twice"}
Shapes == {"one", "two", "rev", "wide", "tab", "padded"}

\* the item with character c at position pos; d distinguishes the two names of a case
Word(c, pos, d) ==
    CASE pos = "lead" -> <<c, "w", d>>
      [] pos = "inner" -> <<"w", c, d>>
      [] pos = "trail" -> <<"w", d, c>>
      [] pos = "only" -> IF d = "1" THEN <<c>> ELSE <<c, c>>
      [] OTHER -> <<c, d, c>>

Str(cs) == FoldLeft(LAMBDA acc, c : acc \o c, "", cs)

\* the name as a sequence of characters, and its items (known by construction)
NameChars(w, shape) ==
    CASE shape = "one" -> w
      [] shape = "two" -> w \o <<" ", "x">>
      [] shape = "rev" -> <<"x", " ">> \o w
      [] shape = "wide" -> w \o <<" ", " ", "x">>
      [] shape = "tab" -> w \o <<"\t", "x">>
      [] OTHER -> <<" ">> \o w \o <<" ">>
Items(w, shape) ==
    CASE shape \in {"one", "padded"} -> <<Str(w)>>
      [] shape = "rev" -> <<"x", Str(w)>>
      [] OTHER -> <<Str(w), "x">>

NameChoices == {[c |-> c, pos |-> p, shape |-> s] : c \in Chars, p \in Positions, s \in Shapes}
Wanted(n) == AllShapes \/ n.shape = "one" \/ n.c \in Reps

Init == nm \in {n \in NameChoices : Wanted(n)}
Next == UNCHANGED nm
Spec == Init /\ [][Next]_vars

(* ---------------- design level: how a reader takes a line apart ---------- *)
Blank(c) == c \in {" ", "\t"}
\* items of a line of characters
SplitItems(line) ==
    LET f == FoldLeft(LAMBDA a, c : IF Blank(c) THEN (IF a.cur = <<>> THEN a ELSE [items |-> Append(a.items, a.cur), cur |-> <<>>])
                                    ELSE [a EXCEPT !.cur = Append(@, c)],
                      [items |-> <<>>, cur |-> <<>>], line)
    IN IF f.cur = <<>> THEN f.items ELSE Append(f.items, f.cur)
CutAtHash(line) ==
    IF \E i \in DOMAIN line : line[i] = "#"
    THEN SubSeq(line, 1, (CHOOSE i \in DOMAIN line : line[i] = "#" /\ \A j \in 1..(i - 1) : line[j] # "#") - 1)
    ELSE line
\* what the reader design makes of the line "g <name>"
ReadGroupLine(line) ==
    LET it == SplitItems(IF Reader = "cut" THEN CutAtHash(line) ELSE line) IN
    IF it = <<>> \/ it[1][1] = "#" THEN "<skipped>"
    ELSE IF Len(it) < 2 THEN "<error>"
    ELSE JoinW([i \in 1..(Len(it) - 1) |-> Str(it[i + 1])], " ")

ReaderDesign ==
    \A d \in {"1", "2"} :
        LET w == Word(nm.c, nm.pos, d) IN
        ReadGroupLine(<<"g", " ">> \o NameChars(w, nm.shape)) = GroupNameRead(Items(w, nm.shape))
\* the two names of a case stay different through the file (else a collision would not show)
Distinct ==
    /\ GroupNameRead(Items(Word(nm.c, nm.pos, "1"), nm.shape)) # GroupNameRead(Items(Word(nm.c, nm.pos, "2"), nm.shape))
    /\ MtlNameWritten(Items(Word(nm.c, nm.pos, "1"), nm.shape)) # MtlNameWritten(Items(Word(nm.c, nm.pos, "2"), nm.shape))

(* ---------------- generator output --------------------------------------- *)
Q == 1024
PosOf(i, j) == <<(4 * i + j) * 256, j * 1024 + i, 0 - (i * 512 + j)>>
UvOf(i, j) == <<j * 128 + i, 1024 - i * 64 - j>>
NrmOf(i, j) == <<0 - i, (j % 2) * 1024, 1024 - j * 3>>
MeshOf(i, raw, hasUv, hasN) ==
    [name |-> raw, idx |-> <<0, 1, 2>>,
     pos |-> [j \in 1..3 |-> PosOf(i, j - 1)],
     uv |-> IF hasUv THEN [j \in 1..3 |-> UvOf(i, j - 1)] ELSE <<>>,
     nrm |-> IF hasN THEN [j \in 1..3 |-> NrmOf(i, j - 1)] ELSE <<>>,
     mats |-> <<[n |-> 1, m |-> raw]>>]
Raw(d) == Str(NameChars(Word(nm.c, nm.pos, d), nm.shape))
WrCase == [k |-> "wr", tag |-> "names", enc |-> "lat", q |-> Q, nm |-> nm,
           meshes |-> <<MeshOf(1, Raw("1"), TRUE, FALSE), MeshOf(2, Raw("2"), FALSE, TRUE)>>]

St(t, x, c, s) == [t |-> t, x |-> x, c |-> c, s |-> s]
\* lines a reader must skip (the statement "x" carries the text of the line for the renderer)
SkipLines == <<"# plain comment", "  # indented comment", "#tight", "#", "# g fake", "#g fake", "\t# f 1 2 3",
               "# v 9 9 9", "# usemtl fake", "o thing", "s 1", "s off", "# trailing comment">>
X(i) == St("x", <<>>, <<>>, SkipLines[i])
V(i) == <<i * 1024, (i % 3) * 512 - 256, 0 - i>>
F(a, b, c) == St("f", <<>>, <<<<a, 0, 0>>, <<b, 0, 0>>, <<c, 0, 0>>>>, "")
\* a face with texture coordinates; VT(1) has v = 0, which a text may write in the short form "vt u"
VT(i) == <<i * 256, (i - 1) * 512>>
Ft(a, b, c) == St("f", <<>>, <<<<a, 1, 0>>, <<b, 2, 0>>, <<c, 1, 0>>>>, "")
GName(d) == GroupNameRead(Items(Word(nm.c, nm.pos, d), nm.shape))
MName(d) == MtlNameWritten(Items(Word(nm.c, nm.pos, d), nm.shape))
Text == <<X(1), X(2), St("v", V(1), <<>>, ""), X(3), St("v", V(2), <<>>, ""), St("v", V(3), <<>>, ""), St("v", V(4), <<>>, ""),
          St("vt", VT(1), <<>>, ""), St("vt", VT(2), <<>>, ""),
          X(4), X(10), St("g", <<>>, <<>>, GName("1")), X(5), X(11), St("usemtl", <<>>, <<>>, MName("1")), X(6),
          F(1, 2, 3), X(7), F(2, 3, 4), X(12),
          St("g", <<>>, <<>>, GName("2")), X(8), St("usemtl", <<>>, <<>>, MName("2")), X(9), Ft(4, 3, 1), X(13)>>
LdCase == [k |-> "ld", tag |-> "names", enc |-> "lat", q |-> Q, nm |-> nm, gen |-> Text]
ValidText == Denote(Text).ok /\ Len(Denote(Text).groups) = 2

Emit == PrintT(ToJson(WrCase)) /\ (nm.shape \notin {"one", "two", "rev"} \/ PrintT(ToJson(LdCase)))
=============================================================================
