\* design level: the hub as found; TLC reports the first broken invariant (used with one invariant at a time by the check)
CONSTANTS NC = 2 Cap = 1 Depth = 0 Variant = "pinned" Alphabet = {1, 3, 4, 6, 7, 8, 9}
SPECIFICATION Spec
INVARIANTS TypeOK NoSendOnClosed NoDoubleClose RegOpen ClosedIffGone IdFirst PlayersMatchClients
CHECK_DEADLOCK FALSE
