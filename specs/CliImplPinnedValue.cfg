CONSTANTS Pinned = TRUE NProd = 3 Bad = {2}
SPECIFICATION Spec
INVARIANT ValueLaw
CHECK_DEADLOCK FALSE
