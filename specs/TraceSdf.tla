------------------------------ MODULE TraceSdf ------------------------------
(***************************************************************************)
(* Trace validation for the signed distance functions (C19).               *)
(*                                                                         *)
(* trace.ndjson: one line per (case, block of sample points)               *)
(*   {"k":"sdf","id":case,"blk":block,"den":D,"e2":E,"q":scale,"shape":{..},*)
(*    "pts":[[x,y,z,F,sg],..],"nan":count,"ops":[[F1,sg1,F2,sg2,..],..]}   *)
(* x,y,z : sample point in lattice units (real point = integer / den *     *)
(*         2^e2: the binary magnitude at which the real closure was built  *)
(*         and sampled; the judgement is made in lattice units and is the  *)
(*         same at every magnitude)                                        *)
(* F     : round(f(p) * den * q), sg : sign of the float f(p)              *)
(* ops   : per point, value and sign of the operand closures: for a        *)
(*         combinator its operands at p, for a translation the inner       *)
(*         closure at p - o; empty for primitives                          *)
(* nan   : number of non-finite (or absurdly large) values; a panic of the *)
(*         code counts as all values non-finite                            *)
(* The harness only evaluated the real closures; every judgement is made   *)
(* here with the operators of Sdf.tla:                                     *)
(*   C19.Finite     no NaN / Inf                                           *)
(*   C19.Sign       primitives: negative exactly inside, ~0 on the surface *)
(*   C19.Euclid     sphere, box, capsule, plane: the true distance         *)
(*   C19.Lipschitz  primitives: all pairs of points of the line            *)
(*   C19.SetOps     combinators: sign against the operands' own signs, and *)
(*                  against the exact set operation of the operand shapes  *)
(*                  wherever the operands themselves are right             *)
(*   C19.Translate  Translate(f,o)(p) = f(p-o), and the exact translated   *)
(*                  shape wherever the inner closure is right              *)
(* Rejected lines are printed as JSON {"l":..,"bad":[..]}; statistics of   *)
(* how often each antecedent was true are printed with the last line.      *)
(***************************************************************************)
EXTENDS Sdf, Json

Trace == ndJsonDeserialize("trace.ndjson")

VARIABLES l, cnt
vars == <<l, cnt>>

Types == {"sphere", "box", "rbox", "line", "rcone", "rcyl", "plane", "tr", "union", "inter", "sub"}
Keys == Types \cup {"lines", "in", "out", "surf", "euclid", "pairs", "setops", "mixed", "translate", "scaled", "tiny", "huge"}

If(c, name) == IF c THEN {name} ELSE {}
Count(S) == Cardinality(S)

\* (TLC re-evaluates LET definitions and operator arguments on every use in many contexts; values that
\* are expensive are therefore bound by a quantifier / set constructor, which evaluates them once)
Result(ln, PP, FF, cls, opr) ==
    LET s == ln.shape
        q == ln.q
        n == Len(ln.pts)
        I == 1..n
        G(i) == ln.pts[i][5]
        isOp == s.t \in {"union", "inter", "sub"}
        isTr == s.t = "tr"
        prim == ~isOp /\ ~isTr
        OF(i, k) == ln.ops[i][2 * k - 1]
        OG(i, k) == ln.ops[i][2 * k]
        sgs(i) == [k \in DOMAIN s.ss |-> OG(i, k)]
        bad ==
            If(ln.nan # 0, "C19.Finite")
            \cup If(prim /\ \E i \in I : ~SignOK(cls[i], FF[i], G(i)), "C19.Sign")
            \cup If(prim /\ \E i \in I : ~EuclidOK(FF[i], q, Ref(s, PP[i])), "C19.Euclid")
            \cup If(prim /\ \E i \in 1..(n - 1) : \E j \in (i + 1)..n : ~LipOK(FF[i], FF[j], q, Len2(VSub(PP[i], PP[j]))), "C19.Lipschitz")
            \cup If(isOp /\ \E i \in I : \/ ~SetOpOK(s.t, G(i), sgs(i))
                                        \/ (opr[i] /\ ~SignOK(cls[i], FF[i], G(i))), "C19.SetOps")
            \cup If(isTr /\ \E i \in I : \/ Abs(FF[i] - OF(i, 1)) > 1 \/ G(i) # OG(i, 1)
                                        \/ (opr[i] /\ ~SignOK(cls[i], FF[i], G(i))), "C19.Translate")
        add == [k \in Keys |->
                 CASE k = "lines" -> 1
                   [] k = s.t -> 1
                   [] k = "in" -> IF prim THEN Count({i \in I : cls[i] < 0}) ELSE 0
                   [] k = "out" -> IF prim THEN Count({i \in I : cls[i] > 0}) ELSE 0
                   [] k = "surf" -> IF prim THEN Count({i \in I : cls[i] = 0}) ELSE 0
                   [] k = "euclid" -> IF prim /\ Ref(s, PP[1]).kind # "none" THEN n ELSE 0
                   [] k = "pairs" -> IF prim THEN (n * (n - 1)) \div 2 ELSE 0
                   [] k = "setops" -> IF isOp THEN Count({i \in I : opr[i]}) ELSE 0
                   [] k = "mixed" -> IF isOp THEN Count({i \in I : \E j, k2 \in DOMAIN s.ss : OG(i, j) # OG(i, k2)}) ELSE 0
                   [] k = "translate" -> IF isTr THEN Count({i \in I : opr[i]}) ELSE 0
                   [] k = "scaled" -> IF ln.e2 # 0 THEN 1 ELSE 0
                   [] k = "tiny" -> IF ln.e2 <= 0 - 12 THEN 1 ELSE 0
                   [] k = "huge" -> IF ln.e2 >= 12 THEN 1 ELSE 0
                   [] OTHER -> 0]
    IN [bad |-> bad, add |-> add]

WellFormed(ln) ==
    LET s == ln.shape
        n == Len(ln.pts)
        isOp == s.t \in {"union", "inter", "sub"}
        isTr == s.t = "tr"
    IN /\ s.t \in Types /\ Admissible(s) /\ ln.q >= 1 /\ ln.den >= 1 /\ n >= 1 /\ ln.e2 \in (0 - 200)..200
       /\ \A i \in 1..n : Len(ln.pts[i]) = 5
       /\ (isOp \/ isTr) => Len(ln.ops) = n
       /\ isOp => \A i \in 1..n : Len(ln.ops[i]) = 2 * Len(s.ss)
       /\ isTr => \A i \in 1..n : Len(ln.ops[i]) = 2

Judge(ln) ==
    IF ~WellFormed(ln) THEN [bad |-> {"Harness.Shape"}, add |-> [k \in Keys |-> 0]]
    ELSE LET s == ln.shape
             I == 1..Len(ln.pts)
             isOp == s.t \in {"union", "inter", "sub"}
             isTr == s.t = "tr"
             P(i) == <<ln.pts[i][1], ln.pts[i][2], ln.pts[i][3]>>
             \* exact class of operand k at point i (for a translation: of the inner shape at p - o)
             OC(i, k) == IF isTr THEN Cls(s.ss[1], VSub(P(i), s.o)) ELSE Cls(s.ss[k], P(i))
             PPv == [i \in I |-> P(i)] \o <<>>
             FFv == [i \in I |-> ln.pts[i][4]] \o <<>>
             clsv == [i \in I |-> Cls(s, P(i))] \o <<>>
             \* "every operand closure is right at point i": off its surface and of the exact sign
             oprv == IF isOp \/ isTr
                     THEN [i \in I |-> \A k \in DOMAIN s.ss : OC(i, k) # 0 /\ ln.ops[i][2 * k] = OC(i, k)] \o <<>>
                     ELSE <<>>
         IN CHOOSE r \in {Result(ln, pp, ff, c, o) : pp \in {PPv}, ff \in {FFv}, c \in {clsv}, o \in {oprv}} : TRUE

Init == l = 1 /\ cnt = [k \in Keys |-> 0]

Step ==
    /\ l <= Len(Trace)
    /\ \E j \in {Judge(Trace[l])} :
          /\ IF j.bad = {} THEN TRUE ELSE PrintT(ToJson([l |-> l, bad |-> j.bad]))
          /\ cnt' = [k \in Keys |-> cnt[k] + j.add[k]]
          /\ IF l = Len(Trace) THEN PrintT(ToJson([stats |-> cnt'])) ELSE TRUE
    /\ l' = l + 1

Next == Step
Spec == Init /\ [][Next]_vars

TraceAccepted == TLCGet("stats").diameter - 1 = Len(Trace)
=============================================================================
