------------------------------ MODULE TraceSdf ------------------------------
(***************************************************************************)
(* Trace validation for the signed distance functions (C19).               *)
(*                                                                         *)
(* trace.ndjson: one line per (case, block of sample points)               *)
(*   {"k":"sdf","id":case,"blk":block,"den":D,"e2":E,"q":scale,"shape":{..},*)
(*    "pts":[[x,y,z,F,sg],..],"nan":count,"ops":[[F1,sg1,F2,sg2,..],..]}   *)
(* x,y,z : sample point in lattice units (real point = integer / den *     *)
(*         2^e2: the binary magnitude at which the real closure was built  *)
(*         and sampled; the judgement is made in lattice units and is the  *)
(*         same at every magnitude)                                        *)
(* F     : round(f(p) * den * q), sg : sign of the float f(p)              *)
(* ops   : per point, value and sign of the operand closures: for a        *)
(*         combinator its operands at p, for a translation the inner       *)
(*         closure at p - o; empty for primitives                          *)
(* nan   : number of non-finite (or absurdly large) values; a panic of the *)
(*         code counts as all values non-finite                            *)
(* The harness only evaluated the real closures; every judgement is made   *)
(* here with the operators of Sdf.tla:                                     *)
(*   C19.Finite     no NaN / Inf                                           *)
(*   C19.Sign       primitives: negative exactly inside, ~0 on the surface *)
(*   C19.Euclid     sphere, box, capsule, plane: the true distance         *)
(*   C19.Lipschitz  primitives: all pairs of points of the line            *)
(*   C19.SetOps     combinators: sign against the operands' own signs, and *)
(*                  against the exact set operation of the operand shapes  *)
(*                  wherever the operands themselves are right             *)
(*   C19.Translate  Translate(f,o)(p) = f(p-o), and the exact translated   *)
(*                  shape wherever the inner closure is right              *)
(* Rejected lines are printed as JSON {"l":..,"bad":[..]}; statistics of   *)
(* how often each antecedent was true are printed with the last line.      *)
(***************************************************************************)
EXTENDS Sdf, Json

Trace == ndJsonDeserialize("trace.ndjson")

VARIABLES l, cnt
vars == <<l, cnt>>

Types == {"sphere", "box", "rbox", "line", "rcone", "rcyl", "plane", "tr", "union", "inter", "sub"}
Keys == Types \cup {"lines", "in", "out", "surf", "euclid", "pairs", "setops", "mixed", "translate", "scaled", "tiny", "huge",
                  "skel", "sksamples", "skon", "sksurf", "skeuclid", "skinexact", "sklerp"}

If(c, name) == IF c THEN {name} ELSE {}
Count(S) == Cardinality(S)

\* (TLC re-evaluates LET definitions and operator arguments on every use in many contexts; values that
\* are expensive are therefore bound by a quantifier / set constructor, which evaluates them once)
Result(ln, PP, FF, cls, opr) ==
    LET s == ln.shape
        q == ln.q
        n == Len(ln.pts)
        I == 1..n
        G(i) == ln.pts[i][5]
        isOp == s.t \in {"union", "inter", "sub"}
        isTr == s.t = "tr"
        prim == ~isOp /\ ~isTr
        OF(i, k) == ln.ops[i][2 * k - 1]
        OG(i, k) == ln.ops[i][2 * k]
        sgs(i) == [k \in DOMAIN s.ss |-> OG(i, k)]
        bad ==
            If(ln.nan # 0, "C19.Finite")
            \cup If(prim /\ \E i \in I : ~SignOK(cls[i], FF[i], G(i)), "C19.Sign")
            \cup If(prim /\ \E i \in I : ~EuclidOK(FF[i], q, Ref(s, PP[i])), "C19.Euclid")
            \cup If(prim /\ \E i \in 1..(n - 1) : \E j \in (i + 1)..n : ~LipOK(FF[i], FF[j], q, Len2(VSub(PP[i], PP[j]))), "C19.Lipschitz")
            \cup If(isOp /\ \E i \in I : \/ ~SetOpOK(s.t, G(i), sgs(i))
                                        \/ (opr[i] /\ ~SignOK(cls[i], FF[i], G(i))), "C19.SetOps")
            \cup If(isTr /\ \E i \in I : \/ Abs(FF[i] - OF(i, 1)) > 1 \/ G(i) # OG(i, 1)
                                        \/ (opr[i] /\ ~SignOK(cls[i], FF[i], G(i))), "C19.Translate")
        add == [k \in Keys |->
                 CASE k = "lines" -> 1
                   [] k = s.t -> 1
                   [] k = "in" -> IF prim THEN Count({i \in I : cls[i] < 0}) ELSE 0
                   [] k = "out" -> IF prim THEN Count({i \in I : cls[i] > 0}) ELSE 0
                   [] k = "surf" -> IF prim THEN Count({i \in I : cls[i] = 0}) ELSE 0
                   [] k = "euclid" -> IF prim /\ Ref(s, PP[1]).kind # "none" THEN n ELSE 0
                   [] k = "pairs" -> IF prim THEN (n * (n - 1)) \div 2 ELSE 0
                   [] k = "setops" -> IF isOp THEN Count({i \in I : opr[i]}) ELSE 0
                   [] k = "mixed" -> IF isOp THEN Count({i \in I : \E j, k2 \in DOMAIN s.ss : OG(i, j) # OG(i, k2)}) ELSE 0
                   [] k = "translate" -> IF isTr THEN Count({i \in I : opr[i]}) ELSE 0
                   [] k = "scaled" -> IF ln.e2 # 0 THEN 1 ELSE 0
                   [] k = "tiny" -> IF ln.e2 <= 0 - 12 THEN 1 ELSE 0
                   [] k = "huge" -> IF ln.e2 >= 12 THEN 1 ELSE 0
                   [] OTHER -> 0]
    IN [bad |-> bad, add |-> add]

WellFormed(ln) ==
    LET s == ln.shape
        n == Len(ln.pts)
        isOp == s.t \in {"union", "inter", "sub"}
        isTr == s.t = "tr"
    IN /\ s.t \in Types /\ Admissible(s) /\ ln.q >= 1 /\ ln.den >= 1 /\ n >= 1 /\ ln.e2 \in (0 - 200)..200
       /\ \A i \in 1..n : Len(ln.pts[i]) = 5
       /\ (isOp \/ isTr) => Len(ln.ops) = n
       /\ isOp => \A i \in 1..n : Len(ln.ops[i]) = 2 * Len(s.ss)
       /\ isTr => \A i \in 1..n : Len(ln.ops[i]) = 2

Judge(ln) ==
    IF ~WellFormed(ln) THEN [bad |-> {"Harness.Shape"}, add |-> [k \in Keys |-> 0]]
    ELSE LET s == ln.shape
             I == 1..Len(ln.pts)
             isOp == s.t \in {"union", "inter", "sub"}
             isTr == s.t = "tr"
             P(i) == <<ln.pts[i][1], ln.pts[i][2], ln.pts[i][3]>>
             \* exact class of operand k at point i (for a translation: of the inner shape at p - o)
             OC(i, k) == IF isTr THEN Cls(s.ss[1], VSub(P(i), s.o)) ELSE Cls(s.ss[k], P(i))
             PPv == [i \in I |-> P(i)] \o <<>>
             FFv == [i \in I |-> ln.pts[i][4]] \o <<>>
             clsv == [i \in I |-> Cls(s, P(i))] \o <<>>
             \* "every operand closure is right at point i": off its surface and of the exact sign
             oprv == IF isOp \/ isTr
                     THEN [i \in I |-> \A k \in DOMAIN s.ss : OC(i, k) # 0 /\ ln.ops[i][2 * k] = OC(i, k)] \o <<>>
                     ELSE <<>>
         IN CHOOSE r \in {Result(ln, pp, ff, c, o) : pp \in {PPv}, ff \in {FFv}, c \in {clsv}, o \in {oprv}} : TRUE


(* ------------------------ skeleton lines (round 5) ------------------------ *)
(* {"k":"skel","id","den","e2","q","td","via","shape",                       *)
(*  "smp":[{"part","a","b","tn","o","cl","F","sg","ops":[F,sg,fin,..]},..]}  *)
(* sample i is the point a + (tn/td)(b-a) + o (Sdf.tla); cl is the CLASS of  *)
(* the float the closure returned: "fin" | "nan" | "+inf" | "-inf"; F, sg are *)
(* only read when cl = "fin" and |F| <= SkBound.  Names of rejected           *)
(* predicates carry the part of the skeleton: "C19.Finite/core".              *)
(*   C19.Finite     every value of a well-formed shape at a finite point is   *)
(*                  finite (decided on cl alone)                              *)
(*   C19.Sign       primitives: exact class of the rational point             *)
(*   C19.Euclid     sphere, box, capsule, plane (and translated): SkRef       *)
(*   C19.Lipschitz  primitives: all pairs of samples of the line (exact       *)
(*                  |p-q|^2 in units of 1/td^2); a finite value beyond        *)
(*                  SkBound/q lattice units (samples are within 25 units of   *)
(*                  the surface and f is 0 there)                             *)
(*   C19.SetOps / C19.Translate   as for lattice lines                        *)
Classes == {"fin", "nan", "+inf", "-inf"}
IsVec(v) == Len(v) = 3 /\ \A j \in 1..3 : v[j] \in (0 - 64)..64
SkFields == {"id", "den", "e2", "q", "td", "via", "shape", "smp"}
SmpFields == {"part", "a", "b", "tn", "o", "cl", "F", "sg", "ops"}
NOps(s) == IF s.t = "tr" THEN 1 ELSE IF s.t \in {"union", "inter", "sub"} THEN Len(s.ss) ELSE 0
SkWellFormed(ln) ==
    /\ SkFields \subseteq DOMAIN ln
    /\ "t" \in DOMAIN ln.shape /\ ln.shape.t \in Types /\ Admissible(ln.shape)
    /\ ln.q \in 1..64 /\ ln.den >= 1 /\ ln.td \in 1..12 /\ ln.e2 \in (0 - 200)..200 /\ ln.via \in {"seg", "lerp"}
    /\ Len(ln.smp) >= 1
    /\ \A i \in DOMAIN ln.smp :
          LET m == ln.smp[i] IN
          /\ SmpFields \subseteq DOMAIN m
          /\ m.cl \in Classes /\ m.tn \in 0..ln.td /\ IsVec(m.a) /\ IsVec(m.b) /\ IsVec(m.o)
          /\ m.sg \in {0 - 1, 0, 1}
          /\ Len(m.ops) = 3 * NOps(ln.shape)

SkResult(ln, PP, FF, cls, ref, opr) ==
    LET s == ln.shape
        q == ln.q
        td == ln.td
        I == DOMAIN ln.smp
        n == Len(ln.smp)
        M(i) == ln.smp[i]
        isOp == s.t \in {"union", "inter", "sub"}
        isTr == s.t = "tr"
        prim == ~isOp /\ ~isTr
        fin(i) == M(i).cl = "fin"
        sane(i) == fin(i) /\ Abs(FF[i]) <= SkBound
        OF(i, k) == M(i).ops[3 * k - 2]
        OG(i, k) == M(i).ops[3 * k - 1]
        OK(i, k) == M(i).ops[3 * k] = 1
        opsFin(i) == \A k \in 1..NOps(s) : OK(i, k)
        sgs(i) == [k \in DOMAIN s.ss |-> OG(i, k)]
        At(i) ==
            If(~fin(i), "C19.Finite")
            \cup If(fin(i) /\ ~sane(i), "C19.Lipschitz")
            \cup If(sane(i) /\ prim /\ ~SignOK(cls[i], FF[i], M(i).sg), "C19.Sign")
            \cup If(sane(i) /\ prim /\ ~EuclidOK(FF[i], q, ref[i]), "C19.Euclid")
            \cup If(sane(i) /\ prim /\ \E j \in I : j > i /\ sane(j) /\ ~SkLipOK(FF[i], FF[j], q, td, Len2(VSub(PP[i], PP[j]))), "C19.Lipschitz")
            \cup If(sane(i) /\ isOp /\ opsFin(i) /\ (\/ ~SetOpOK(s.t, M(i).sg, sgs(i))
                                                      \/ (opr[i] /\ ~SignOK(cls[i], FF[i], M(i).sg))), "C19.SetOps")
            \cup If(sane(i) /\ isTr /\ opsFin(i) /\ (\/ Abs(FF[i] - OF(i, 1)) > 1 \/ M(i).sg # OG(i, 1)
                                                      \/ (opr[i] /\ ~SignOK(cls[i], FF[i], M(i).sg))), "C19.Translate")
        bad == UNION {{nm \o "/" \o M(i).part : nm \in At(i)} : i \in I}
        add == [k \in Keys |->
                 CASE k = "skel" -> 1
                   [] k = s.t -> 1
                   [] k = "sksamples" -> n
                   [] k = "skon" -> Count({i \in I : M(i).o = <<0, 0, 0>>})
                   [] k = "sksurf" -> Count({i \in I : cls[i] = 0})
                   [] k = "skeuclid" -> IF prim THEN Count({i \in I : ref[i].kind # "none"}) ELSE 0
                   [] k = "skinexact" -> IF td \in {1, 2, 4, 8} THEN 0 ELSE n
                   [] k = "sklerp" -> IF ln.via = "lerp" THEN 1 ELSE 0
                   [] k = "scaled" -> IF ln.e2 # 0 THEN 1 ELSE 0
                   [] OTHER -> 0]
    IN [bad |-> bad, add |-> add]

JudgeSkel(ln) ==
    IF ~SkWellFormed(ln) THEN [bad |-> {"Harness.Shape"}, add |-> [k \in Keys |-> 0]]
    ELSE LET s == ln.shape
             td == ln.td
             I == DOMAIN ln.smp
             isOp == s.t \in {"union", "inter", "sub"}
             isTr == s.t = "tr"
             P(i) == SkPoint(ln.smp[i], td)
             OC(i, k) == IF isTr THEN Cls(Scale(s.ss[1], td), VSub(P(i), VScale(td, s.o))) ELSE Cls(Scale(s.ss[k], td), P(i))
             PPv == [i \in I |-> P(i)] \o <<>>
             FFv == [i \in I |-> ln.smp[i].F] \o <<>>
             clsv == [i \in I |-> SkCls(s, ln.smp[i], td)] \o <<>>
             refv == [i \in I |-> IF isOp THEN NoRef ELSE SkRef(s, ln.smp[i], td)] \o <<>>
             oprv == IF isOp \/ isTr
                     THEN [i \in I |-> \A k \in DOMAIN s.ss : OC(i, k) # 0 /\ ln.smp[i].ops[3 * k - 1] = OC(i, k)] \o <<>>
                     ELSE <<>>
         IN CHOOSE r \in {SkResult(ln, pp, ff, c, e, o) : pp \in {PPv}, ff \in {FFv}, c \in {clsv}, e \in {refv}, o \in {oprv}} : TRUE

JudgeAny(ln) == IF "k" \in DOMAIN ln /\ ln.k = "skel" THEN JudgeSkel(ln) ELSE Judge(ln)

Init == l = 1 /\ cnt = [k \in Keys |-> 0]

Step ==
    /\ l <= Len(Trace)
    /\ \E j \in {JudgeAny(Trace[l])} :
          /\ IF j.bad = {} THEN TRUE ELSE PrintT(ToJson([l |-> l, bad |-> j.bad]))
          /\ cnt' = [k \in Keys |-> cnt[k] + j.add[k]]
          /\ IF l = Len(Trace) THEN PrintT(ToJson([stats |-> cnt'])) ELSE TRUE
    /\ l' = l + 1

Next == Step
Spec == Init /\ [][Next]_vars

TraceAccepted == TLCGet("stats").diameter - 1 = Len(Trace)
=============================================================================
