CONSTANTS
  Depth = 12
  MinLen = 1
SPECIFICATION Spec
INVARIANTS Classified ReaderDesign EmitLeaf
CHECK_DEADLOCK FALSE
