------------------------------- MODULE PcGen -------------------------------
(***************************************************************************)
(* Generator and design-level model for X05.                               *)
(*                                                                         *)
(* State: an abstract file gf (PcFormats), a crash point gk, the nominal   *)
(* cell table gc of gf.  Init enumerates every small file of every format: *)
(* COLMAP points (0..n points, no / one / many tracks, 64 bit ids beyond   *)
(* 2^53, special IEEE values), images (empty / ASCII / high-byte names,    *)
(* 0..2 observations, point ids of -1), cameras (every model of the table),*)
(* OpenSfM documents (0..2 reconstructions, three JSON styles), Potree     *)
(* metadata (attribute lists in several orders), hierarchies (every prefix *)
(* closed subset of a name universe x every choice of <= MaxPx chunk roots *)
(* x both chunk orders) and octree files (attribute orders x scales x node *)
(* profiles with negative coordinates, 8 and 16 bit colours, empty nodes,  *)
(* gaps).  The crash action lets one more byte survive.                    *)
(*                                                                         *)
(* Emit prints each file once (gk = 0).  Design-level invariants on the    *)
(* specification itself, for every (file, crash point):                    *)
(*   TilesInv     the layout law tiles the file, closed size forms hold    *)
(*   PrefixClosed cells wholly inside a prefix are a prefix of the cells   *)
(*   StrictLaw    no strict prefix of a binary file is complete; a JSON    *)
(*                document only lacks its final newline                    *)
(*   HierLaw      every node has exactly one real entry, every chunk root  *)
(*                one proxy entry; chunks tile the file; the first chunk   *)
(*                is the root's; masks are the children                    *)
(*   OctLaw       node byte ranges are those of the node's cells, ordered  *)
(*                and disjoint; "wholly present" by offsets = by cells     *)
(*   RecLaw       the closed form of "records wholly present" (COLMAP)     *)
(*                names record boundaries of the cell layout               *)
(*   Budget       all expected lattice numbers fit 31 bits                 *)
(***************************************************************************)
EXTENDS PcFormats, Json

CONSTANTS PtsN, TrackProfiles, ImgN, ImgProfiles, CamN, CamStarts, SfmRecs, SfmPts, Styles,
          AttrSets, UniverseId, MaxPx, BothOrders, Scales, NodeProfiles

VARIABLES gf, gk, gc
vars == <<gf, gk, gc>>

\* 64 bit images: 1.0, -2.5, 0.1, +Inf, NaN with payload, -0, all bytes distinct (twice), max, min normal, 3.0, -1e-3
Pal == <<"3ff0000000000000", "c004000000000000", "3fb999999999999a", "7ff0000000000000", "7ff8000000000001",
         "8000000000000000", "0102030405060708", "fffefdfcfbfaf9f8", "7fefffffffffffff", "0010000000000000",
         "4008000000000000", "bf50624dd2f1a9fc">>
Val(i) == Pal[(i % Len(Pal)) + 1]

\* ----------------------------------------------------------------- COLMAP --
Tracks(i, tk) ==
    CASE tk = 0 -> <<>>
      [] tk = 1 -> <<<<i, -1>>>>
      [] tk = 2 -> [t \in 1..i |-> IF t = 1 THEN <<2147483647, -2147483647>> ELSE <<100 * i + t, 7 * t>>]
CPoint(i, tk) ==
    [id |-> IF i = 2 THEN "ffffffffffffffff" ELSE IF i = 3 THEN "0020000000000001" ELSE Hex64(1000 * i + 7),
     idn |-> IF i \in {2, 3} THEN -1 ELSE 1000 * i + 7,
     p |-> <<Val(3 * i), Val(3 * i + 1), Val(3 * i + 2)>>,
     c |-> <<(37 * i) % 256, IF i = 1 THEN 255 ELSE 0, 128 + i>>,
     e |-> Val(i + 6), tr |-> Tracks(i, tk)]
PointFiles == {[fmt |-> "cpts", pts |-> [i \in 1..n |-> CPoint(i, tk)]] : n \in PtsN, tk \in TrackProfiles}

NameOf(i, pr) == CASE pr = 0 -> <<>> [] pr = 1 -> <<97 + i, 46, 106, 112, 103>> [] pr = 2 -> <<255, 128, 1, 32, 47, 200 + i>>
P2(i, k) == [x |-> Val(i + k), y |-> Val(i + 2 * k + 1), pid |-> IF k = 1 THEN "ffffffffffffffff" ELSE Hex64(50 * i + k)]
CImage(i, pr) ==
    [id |-> IF i = 2 THEN -5 ELSE 2147483000 + i, q |-> <<Val(i), Val(i + 1), Val(i + 2), Val(i + 3)>>,
     t |-> <<Val(i + 4), Val(i + 5), Val(i + 6)>>, cam |-> 300 * i + pr, name |-> NameOf(i, pr),
     p2 |-> [k \in 1..((pr + i) % 3) |-> P2(i, k)]]
ImageFiles == {[fmt |-> "cimg", imgs |-> [i \in 1..n |-> CImage(i, pr)]] : n \in ImgN, pr \in ImgProfiles}

CCamera(i, st) ==
    LET model == (st + i - 1) % 11 IN
    [id |-> IF i = 2 THEN -1 ELSE 40 * i, model |-> model, w |-> IF i = 1 THEN "0000000100000280" ELSE Hex64(640 * i),
     h |-> Hex64(480 + i), par |-> [k \in 1..NumParams(model) |-> Val(i + k)]]
CameraFiles == {[fmt |-> "ccam", cams |-> [i \in 1..n |-> CCamera(i, st)]] : n \in CamN, st \in CamStarts}

\* ---------------------------------------------------------------- OpenSfM --
\* coordinates on the lattice (negative, fractional, zero); colours 0..255 with a fractional one
OPt(r, k) == [key |-> 10 * r + k, p |-> <<65536 * k - 32768 * r, -(1000 * k + r), IF k = 2 THEN 0 ELSE 3 * k + r>>,
              c |-> <<65536 * ((60 * k + r) % 256), IF k = 1 THEN 255 * 65536 ELSE 0, IF k = 3 THEN 8355840 ELSE 65536 * k>>]
SfmFiles == {[fmt |-> "osfm", style |-> st,
              recs |-> [r \in 1..nr |-> [pts |-> [k \in 1..((np + r - 1) % 4) |-> OPt(r, k)], ncam |-> r % 2, nshot |-> (r + 1) % 2]]]
             : nr \in SfmRecs, np \in SfmPts, st \in Styles}

\* ----------------------------------------------------------------- Potree --
A(n, sz, ne, es, t) == [n |-> n, sz |-> sz, ne |-> ne, es |-> es, t |-> t]
Position == A("position", 12, 3, 4, "int32")
Rgb == A("rgb", 6, 3, 2, "uint16")
AttrSet(id) ==
    CASE id = 1 -> <<Position, Rgb>>
      [] id = 2 -> <<A("intensity", 2, 1, 2, "uint16"), Rgb, Position, A("classification", 1, 1, 1, "uint8")>>
      [] id = 3 -> <<Position, A("gps-time", 8, 1, 8, "double")>>
      [] id = 4 -> <<A("POSITION_CARTESIAN", 12, 3, 4, "int32"), A("RGBA", 8, 4, 2, "uint16")>>
      [] id = 5 -> <<A("classification", 1, 1, 1, "uint8"), Position, A("classification", 1, 1, 1, "uint8"), A("RGB", 6, 3, 2, "uint16"), Rgb>>
Meta(as, scale, first) ==
    [name |-> "cloud \"x\"", points |-> 1000 + as, first |-> first, step |-> 4, depth |-> 3,
     off |-> <<-32768, 65536, 98304>>, scale |-> <<scale, scale, scale>>, spacing |-> 81920,
     bmin |-> <<-65536, 0, 32768>>, bmax |-> <<65536, 131072, 163840>>, enc |-> "DEFAULT", attrs |-> AttrSet(as)]
\* (the scale is one number of the document: one scale per attribute list is enough)
ScaleFor(as) == LET s == SetToSortSeq(Scales, LAMBDA a, b : a < b) IN s[(as % Len(s)) + 1]
MetaFiles == {[fmt |-> "pmeta", style |-> st, meta |-> Meta(as, ScaleFor(as), 22 * as)] : as \in AttrSets, st \in Styles}

\* hierarchies: prefix closed subsets of the universe, chunk roots, chunk order
Universe ==
    CASE UniverseId = 1 -> {<<>>, <<0>>, <<5>>, <<0, 3>>, <<0, 6>>, <<0, 3, 1>>}
      [] UniverseId = 2 -> {<<>>, <<0>>, <<5>>, <<7>>, <<0, 3>>, <<0, 6>>, <<5, 5>>, <<0, 3, 1>>, <<0, 3, 4>>}
      [] UniverseId = 3 -> {<<>>} \cup {<<c>> : c \in 0..7} \cup {<<7, 0>>}
Parent(nm) == SubSeq(nm, 1, Len(nm) - 1)
Closed(S) == <<>> \in S /\ \A nm \in S : nm # <<>> => Parent(nm) \in S
Trees == {S \in SUBSET Universe : Closed(S)}
HNodeOf(S, px, nm) ==
    LET k == Base8(nm) + 3 * Len(nm)
        npts == ((37 * k + 5) % 1000) + 1
    IN [nm |-> nm, m |-> MaskOf({c \in 0..7 : Append(nm, c) \in S}), n |-> npts,
        bo |-> IF k % 5 = 4 THEN "00000001000000a0" ELSE Hex64(1000 * k),
        bs |-> IF k % 3 = 2 THEN Zero64 ELSE Hex64(18 * npts), px |-> nm \in px]
HierFile(S, px, ord) ==
    LET nodes == [i \in 1..Cardinality(S) |-> HNodeOf(S, px, SetToSortSeq(S, LAMBDA a, b : NameKey(a) < NameKey(b))[i])]
        f0 == [fmt |-> "phier", ord |-> ord, nodes |-> nodes, meta |-> Meta(1, 64, 0)]
    IN [f0 EXCEPT !.meta.first = ChunkSize(f0, <<>>)]
HierFiles == {HierFile(S, px, ord) : S \in Trees, px \in {P \in SUBSET Universe : Cardinality(P) <= MaxPx}, ord \in {"fwd", "rev"}}
\* (chunk roots outside S are ignored; rev differs from fwd only with two or more)
\* with BothOrders = FALSE a file with two or more chunk roots is generated in ONE of the two orders
\* (chosen by the parity of the roots' names), so both orders still occur across the files
HierFilesNorm == {f \in HierFiles : LET n == Len(Proxies(f)) IN
                    IF n < 2 THEN f.ord = "fwd"
                    ELSE BothOrders \/ ((f.ord = "rev") <=> (Sum([k \in 1..n |-> Base8(Proxies(f)[k])]) % 2 = 0))}

\* octree files
OPoints(pr, i) ==
    CASE pr = 0 -> <<>>
      [] pr = 1 -> IF i = 1 THEN <<[x |-> <<0, 1, 2>>, c |-> <<0, 255, 128, 7>>, fill |-> 17],
                                   [x |-> <<-1, -2, 100>>, c |-> <<65535, 256, 0, 9>>, fill |-> 18]>>
                   ELSE <<[x |-> <<8191, -8192, 5>>, c |-> <<255, 255, 255, 65535>>, fill |-> 19]>>
      [] pr = 2 -> IF i = 2 THEN <<>>
                   ELSE [p \in 1..(i) |-> [x |-> <<100 * p + i, -(7 * p), 8000 - p>>,
                                          c |-> <<256 * p + i, 300, 65280>>  \o <<1>>, fill |-> 20 + p]]
ONodes(pr) == [i \in 1..(IF pr = 0 THEN 1 ELSE pr + 1) |-> [gap |-> IF i = 2 THEN 3 ELSE 0, pts |-> OPoints(pr, i)]]
OctreeFiles == {[fmt |-> "pnode", meta |-> Meta(as, sc, 22), ons |-> ONodes(pr)] : as \in AttrSets \ {5}, sc \in Scales, pr \in NodeProfiles}

AllFiles == PointFiles \cup ImageFiles \cup CameraFiles \cup SfmFiles \cup MetaFiles \cup HierFilesNorm \cup OctreeFiles

\* ---------------------------------------------------------------- machine --
SLen == CellsLen(gc)
Init == gf \in AllFiles /\ gk = 0 /\ gc = NominalCells(gf)
Crash == gk < SLen /\ gk' = gk + 1 /\ UNCHANGED <<gf, gc>>
Spec == Init /\ [][Crash]_vars

Emit == gk # 0 \/ PrintT(ToJson(gf))

IsJson == gf.fmt \in {"osfm", "pmeta"}
TilesInv == gk = 0 => (Tiles(gc, SLen) /\ SizeLaw(gf, SLen))
PrefixClosed == LET w == Whole(gc, gk) IN w = 1..Cardinality(w)
Trailing == IF IsJson /\ gf.style = "pretty" THEN 1 ELSE 0
StrictLaw == gf.fmt # "pnode" => (SLen - ReqEnd(gc) = Trailing /\ (Complete(gc, gk) <=> gk >= SLen - Trailing))

EntryGroups == [e \in 1..(Len(gc) \div 5) |-> gc[5 * e].g]
HierLaw == (gf.fmt = "phier" /\ gk = 0) =>
    /\ HierWellFormed(gf) /\ BoxHalvable(gf)
    /\ \A e1, e2 \in DOMAIN EntryGroups : e1 # e2 => EntryGroups[e1] # EntryGroups[e2]
    /\ {EntryGroups[e] : e \in DOMAIN EntryGroups}
         = {NameStr(nm) : nm \in Names(gf)} \cup {NameStr(nm) \o "/proxy" : nm \in {x \in Names(gf) : IsPx(gf, x)}}
    /\ SLen = HierSize(gf)
    /\ ChunkOff(gf, <<>>) = 0 /\ gc[1].g = "r"
    /\ \A k \in DOMAIN ChunkOrder(gf) : LET r == ChunkOrder(gf)[k] IN
          /\ ChunkOff(gf, r) + ChunkSize(gf, r) = (IF k = Len(ChunkOrder(gf)) THEN SLen ELSE ChunkOff(gf, ChunkOrder(gf)[k + 1]))
          \* the chunk starts with the real entry of its root
          /\ gc[5 * (ChunkOff(gf, r) \div 22) + 1].g = NameStr(r)
    \* the pre-order walk reaches every node once
    /\ Len(PreOrder(gf, <<>>)) = Len(gf.nodes)

NodeCells(i) == {c \in DOMAIN gc : gc[c].g = "node" \o ToString(i - 1)}
OctLaw == gf.fmt = "pnode" =>
    /\ OctreeBudget(gf)
    /\ \A i \in DOMAIN gf.ons :
          /\ ONodeSize(gf, i) = FoldSeq(LAMBDA c, a : a + gc[c].s, 0, SetToSeq(NodeCells(i)))
          /\ NodeCells(i) # {} => (\A c \in NodeCells(i) : ONodeOff(gf, i) <= gc[c].o /\ End(gc[c]) <= ONodeOff(gf, i) + ONodeSize(gf, i))
          /\ (ONodeSize(gf, i) = 0 \/ ONodeOff(gf, i) + ONodeSize(gf, i) <= gk) <=> (NodeCells(i) \subseteq Whole(gc, gk))
          /\ i > 1 => ONodeOff(gf, i - 1) + ONodeSize(gf, i - 1) <= ONodeOff(gf, i)

\* the closed form of "records wholly present" names cell boundaries of the layout
RecLaw == (gk = 0 /\ gf.fmt \in {"cpts", "cimg"}) =>
    LET z == RecSizes(gf) IN
    /\ \A i \in DOMAIN z : \E c \in DOMAIN gc : End(gc[c]) = 8 + Sum(SubSeq(z, 1, i)) /\ gc[c].g \in {"ntrack", "track", "npoint", "point"}
    /\ 8 + Sum(z) = SLen
    /\ WholeRecs(gf, SLen) = Len(z) /\ WholeRecs(gf, SLen - 1) = (IF z = <<>> THEN 0 ELSE Len(z) - 1)

InBudget(x) == -1073741824 < x /\ x < 1073741824
Budget == gk = 0 =>
    /\ gf.fmt = "pnode" => \A i \in DOMAIN gf.ons : \A rel \in BOOLEAN : \A p \in DOMAIN NodePos(gf, i, rel) : \A c \in 1..3 :
                               InBudget(NodePos(gf, i, rel)[p][c].i)
    /\ gf.fmt = "osfm" => \A i \in DOMAIN SfmPoints(gf) : \A c \in 1..3 : InBudget(SfmPoints(gf)[i].p[c].i) /\ SfmPoints(gf)[i].c[c].i <= 255 * LQ
=============================================================================
