----------------------------- MODULE PlySeriesGen -----------------------------
(***************************************************************************)
(* Generator of the series cases of PlySeries (plans SIZE, DELIVERY,       *)
(* BYTES) and design-level checks of the laws: ModelLayouts (a layout's    *)
(* attributes are what PlyFormat!Denote recognises in its header),         *)
(* ModelIdentifies (content identifies the record; byte laws are onto),    *)
(* ModelUnitBits (UnitBits(b) is the correctly rounded b/255, proved by    *)
(* exact integer arithmetic for every byte).                               *)
(***************************************************************************)
EXTENDS PlySeries

(***************************************************************************)
(* Generator: plans over the dimensions.  Sizes / small sizes / deliveries *)
(* come from the configuration (the check rotates them with its seed).     *)
(***************************************************************************)
CONSTANTS Sizes,        \* the ladder for the SIZE plan
          DlvSizes,     \* record counts for the DELIVERY plan
          ByteSizes,    \* record counts (>= 256) for the EXACT-VALUE plan
          BigFaces      \* face count of the large face elements

DlvTable == <<
  [kind |-> "full", k |-> 0], [kind |-> "chunk", k |-> 1], [kind |-> "chunk", k |-> 2], [kind |-> "chunk", k |-> 3],
  [kind |-> "chunk", k |-> 7], [kind |-> "refill", k |-> 16], [kind |-> "refill", k |-> 4096], [kind |-> "bufio", k |-> 16],
  [kind |-> "bufio", k |-> 4096], [kind |-> "eofdata", k |-> 0], [kind |-> "file", k |-> 0] >>
Full == DlvTable[1]
Fmts == {"ascii", "binary_little_endian", "binary_big_endian"}
NoFaces == [on |-> FALSE, nf |-> 0, ct |-> "uchar", lt |-> "int", quads |-> FALSE]
Faces(nf, ct, lt, q) == [on |-> TRUE, nf |-> nf, ct |-> ct, lt |-> lt, quads |-> q]
Layouts(via) == IF via = "write" THEN WriteLayouts ELSE RefLayouts
\* the real writer stores faces as uchar count + int indices, triangles only
FaceChoices(via, n, big) ==
    IF n < 3 THEN {NoFaces}
    ELSE IF via = "write" THEN {NoFaces, Faces(IF big THEN BigFaces ELSE 5, "uchar", "int", FALSE)}
    ELSE {NoFaces} \cup {Faces(IF big THEN BigFaces ELSE 5, ct, lt, q) :
                            ct \in {"uchar", "int", "uint"}, lt \in {"int", "uint"}, q \in BOOLEAN}

Ser(plan, via, n, l, fc, fmt, dlv, mode) ==
    [kind |-> "ser", plan |-> plan, mode |-> mode, D |-> D0,
     ser |-> [via |-> via, n |-> n, lay |-> l, attrs |-> LayoutTable[l], faces |-> fc, fmt |-> fmt, dlv |-> dlv]]

\* SIZE: every size of the ladder x via x encoding (layout and faces rotate with the size), delivered in full
SizePlan ==
    {Ser("size", via, n, l, fc, fmt, Full, "lat") :
        via \in {"write", "ref"}, n \in Sizes, fmt \in Fmts,
        l \in {1, 2, 3, 4, 5}, fc \in {NoFaces, Faces(BigFaces, "uchar", "int", FALSE), Faces(BigFaces, "int", "uint", TRUE)}}
SizeKeep(c) ==
    LET s == c.ser
        ls == SetToSortSeq(Layouts(s.via), <)
    IN /\ s.lay = ls[(s.n % Len(ls)) + 1]
       /\ s.faces \in FaceChoices(s.via, s.n, TRUE)
       /\ (s.n % 2 = 0) = ~s.faces.on
       /\ (s.faces.on /\ s.via = "ref") => (s.faces.ct = "int")
\* DELIVERY: every delivery x encoding x count/index type x layout on files that cross several refills
DlvPlan ==
    {Ser("dlv", via, n, l, fc, fmt, DlvTable[d], "lat") :
        via \in {"write", "ref"}, n \in DlvSizes, fmt \in Fmts, l \in {1, 3, 4, 5}, d \in 2..Len(DlvTable),
        fc \in FaceChoices("ref", 3, TRUE) \cup FaceChoices("ref", 3, FALSE)}
LargeDlv == {n \in DlvSizes : n >= 256}
MinLargeDlv == IF LargeDlv = {} THEN 0 ELSE CHOOSE n \in LargeDlv : \A m \in LargeDlv : n <= m
DlvKeep(c) ==
    LET s == c.ser IN
    /\ s.lay \in Layouts(s.via)
    /\ s.faces \in FaceChoices(s.via, s.n, s.n >= 256)
    /\ (s.via = "write") => s.lay = 4
    /\ (s.via = "ref") => (s.lay = 3) = (s.n >= 256)        \* layouts 1 and 5 small, layout 3 (odd record size) large
    /\ (s.faces.on /\ s.faces.quads) => s.faces.lt = "uint"
    /\ (s.faces.on /\ ~s.faces.quads) => s.faces.lt = "int"
    \* large files: 4-byte counts under every delivery, 1-byte counts only under the buffered entry points
    /\ (s.n >= 256 /\ s.faces.on) => /\ s.faces.quads = (s.faces.ct = "uint")
                                     /\ (s.faces.ct = "uchar" => s.dlv.kind \in {"bufio", "file"})
    /\ (s.n >= 256 /\ ~s.faces.on) => s.dlv.kind \in {"chunk", "file"}
    \* several consecutive large sizes shift the face element through the residues of the 4096-byte period: only
    \* the deliveries with that period run on all of them (a count field across a refill boundary)
    /\ (s.n >= 256 /\ s.n # MinLargeDlv) => /\ (s.dlv.k = 4096 \/ s.dlv.kind = "file")
                                           /\ s.faces.on /\ s.faces.ct # "uchar" /\ s.fmt # "ascii"
\* BYTES: all 256 values of every 8-bit channel, bit-exact, every encoding, every layout, via both paths
BytePlan ==
    {Ser("byte", via, n, l, fc, fmt, dlv, "bits") :
        via \in {"write", "ref"}, n \in ByteSizes, fmt \in Fmts, l \in 1..Len(LayoutTable),
        fc \in {NoFaces, Faces(5, "uchar", "int", FALSE)}, dlv \in {Full, DlvTable[9]}}
ByteKeep(c) ==
    LET s == c.ser IN
    /\ s.lay \in Layouts(s.via)
    /\ s.faces.on = (s.lay % 2 = 0)
    /\ (s.dlv = Full) = (s.n % 2 = 0)

Cases == {c \in SizePlan : SizeKeep(c)} \cup {c \in DlvPlan : DlvKeep(c)} \cup {c \in BytePlan : ByteKeep(c)}

VARIABLE c
Init == c \in Cases
Next == UNCHANGED c
Spec == Init /\ [][Next]_c

\* design-level checks on the specification itself
ModelLayouts == LayoutDenotes(c.ser.attrs)
ModelIdentifies ==       \* Position identifies the record and every 8-bit law runs through all byte values
    /\ \A i \in 0..50 : \A j \in 0..50 : (Raw(i * 97, 1) = Raw(j * 97, 1) /\ Raw(i * 97, 2) = Raw(j * 97, 2)) => i = j
    /\ c.ser.n >= 256 => \A f \in {4, 6, 7} : {Raw(i, f) : i \in 0..255} = 0..255
\* the exact-value law against first principles: |255 * M - b * 2^(52+p)| * 2 < 255 for the mantissa M of UnitBits(b),
\* evaluated in base 2^16 digits (int32 safe)
Mant(u) == <<u[4], u[3], u[2], (u[1] % 16) + 16>>                    \* little endian digits of the 53 bit mantissa
ExpOf(u) == u[1] \div 16
RECURSIVE Carry(_, _, _)
Carry(ds, i, cy) == IF i > Len(ds) THEN (IF cy = 0 THEN <<>> ELSE <<cy>>)
                    ELSE <<(ds[i] + cy) % 65536>> \o Carry(ds, i + 1, (ds[i] + cy) \div 65536)
UnitBitsRight(b) ==
    LET u == UnitBits(b)
        p == 1023 - ExpOf(u)
        m == Mant(u)
        X == Carry([i \in 1..4 |-> 255 * m[i] + (IF i = 1 THEN 127 ELSE 0)], 1, 0)      \* 255 * M + 127
        t == b * Pow2(4 + p)                                                             \* b * 2^(52+p) = t * 65536^3
        Y == <<0, 0, 0, t % 65536, t \div 65536>>
        Xp == [i \in 1..5 |-> IF i <= Len(X) THEN X[i] ELSE 0]
    IN  \* 0 <= X - Y <= 254
        /\ Len(X) <= 5 /\ Xp[5] = Y[5] /\ Xp[4] = Y[4] /\ Xp[3] = 0 /\ Xp[2] = 0 /\ Xp[1] <= 254
ModelUnitBits == \A b \in 1..254 : UnitBitsRight(b)

Emit == PrintT(ToJson(c))
=============================================================================
