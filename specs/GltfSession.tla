----------------------------- MODULE GltfSession -----------------------------
(***************************************************************************)
(* C06 -- EXPORT HISTORIES within one process.                             *)
(*                                                                         *)
(* The property quantifies over scenes; the code under test, however, runs *)
(* in a process that exports many scenes one after the other, some of them *)
(* invalid.  Whatever the package keeps between two exports (a pool of     *)
(* payload buffers, caches, counters) is part of the state.  This module   *)
(* is the design-level state machine of that and the GENERATOR of the      *)
(* histories the harness executes in ONE process (vh gltf-session-exec).   *)
(*                                                                         *)
(* State                                                                   *)
(*   pool  [has, data]: the payload buffer the process keeps for the next  *)
(*         writer, data = its contents as a sequence of chunks             *)
(*         [x |-> export that wrote it, m |-> model, n |-> bytes]          *)
(*   hist  the exports so far; an export = [entry, shape, fk, pos]         *)
(*   docs  what every export returned: [ok, len, payload]                  *)
(*         len = buffer.byteLength the document declares (= bytes the      *)
(*         writer counted), payload = the chunks really behind it          *)
(* Export = entry point x scene shape x failure kind x position.           *)
(*   failure kinds (formats/gltf/writer.go, AddScene / AddMesh):           *)
(*     nilmesh      model.Mesh == nil: AddMesh fails BEFORE anything of    *)
(*                  the model is written                                   *)
(*     alphacutoff  AlphaCutoff set without AlphaMode MASK: AddMaterial    *)
(*                  fails BEFORE the model's mesh is written               *)
(*     anim         animations without a skeleton: detected AFTER the      *)
(*                  model's own mesh (and GPU instances) were written      *)
(*   the invalid model is inserted behind `pos` models of a valid shape;   *)
(*   DEPTH of a failure = number of models whose payload was already in    *)
(*   the buffer when the export failed (0: nothing written).               *)
(* Entry points: WriteBinary WriteText SaveBinary SaveText Save            *)
(*   FromScene+WriteGLB FromScene+ToGLTF (NewWriterFromScene, then the     *)
(*   method) AddScene+WriteGLB (NewWriter, AddScene, WriteGLB).            *)
(*                                                                         *)
(* Design constant PoolPolicy                                              *)
(*   "fresh"  every writer allocates its buffer (the tree as it is)        *)
(*   "reset"  buffers are recycled, always emptied before they go back     *)
(*   "dirty"  recycled; on the error path of NewWriterFromScene the buffer *)
(*            goes back as it is                                           *)
(* Contract (SessionContract): every VALID export of a history returns     *)
(* exactly the document a fresh process returns for its scene.             *)
(* TLC: fresh, reset satisfy it; dirty is refuted (failure at depth >= 1,  *)
(* then a valid export).                                                   *)
(* Verdicts on the code never come from this module: the histories it      *)
(* prints (Emit / EmitLeaf) are executed and judged by TraceGltfSession.   *)
(* int32 budget: chunk sizes < 1000, at most MaxLen * 5 chunks.            *)
(***************************************************************************)
EXTENDS Integers, Sequences, FiniteSets, TLC, Json

CONSTANTS PoolPolicy, Entries, ShapeIds, FailKinds, MaxPos, MaxLen

\* the pools of the scene generator (mesh 2, 5; materials; textures) are reused
W == INSTANCE GltfWriter WITH w <- 0, models <- <<>>, lights <- <<>>, MeshIds <- {}, MatIds <- {}, InstCounts <- {},
                              TrsKinds <- {}, MaxModels <- 0, MaxLights <- 0, Pad <- FALSE, DeepEq <- TRUE

A(ar, id) == [ar |-> ar, id |-> id]
\* every mesh leaves the offset 4-aligned (the open finding C06.Aligned is not what histories are about) and has
\* vector attributes only; the sizes differ, so leftovers of one scene never look like the payload of another
SMeshPool == <<
    W!MeshPool[2],                                                                                    \* 1: welded quad, 140 bytes
    [topo |-> "point", nv |-> 4, ni |-> 4, idx |-> <<3, 1, 0, 2>>, attrs |-> <<A(3, 1), A(4, 3)>>, vseed |-> 21],        \* 2: 120 bytes
    [topo |-> "triangle", nv |-> 6, ni |-> 6, idx |-> <<0, 1, 2, 3, 4, 5>>, attrs |-> <<A(3, 1), A(2, 4)>>, vseed |-> 22],  \* 3: 132 bytes
    W!MeshPool[5]                                                                                     \* 4: no primitive: skipped
>>
SMatPool == <<
    W!MatPool[1],                                                       \* 1
    W!MatPool[5],                                                       \* 2: MASK with a cutoff: valid
    [W!Plain EXCEPT !.name = 3, !.amode = 0, !.cutoff = 4],             \* 3: cutoff without a mode: INVALID
    [W!Plain EXCEPT !.name = 4, !.amode = 3, !.cutoff = 4]              \* 4: cutoff with BLEND: INVALID
>>

M(me, ma, ni) == [mesh |-> me, mat |-> ma, ninst |-> ni, anim |-> 0]
Shapes == <<
    <<M(1, 0, 0)>>,
    <<M(1, 1, 0), M(2, 0, 0)>>,
    <<M(2, 2, 2), M(4, 0, 0), M(3, 1, 0)>>,
    <<M(3, 0, 0), M(1, 1, 2), M(1, 2, 0)>>
>>
BadModel(fk, pos) == CASE fk = "nilmesh" -> M(0, 0, 0)
                       [] fk = "alphacutoff" -> M(1, 3 + (pos % 2), 0)
                       [] fk = "anim" -> [M(3, 0, 0) EXCEPT !.anim = 1]

EntryNames == {"WriteBinary", "WriteText", "SaveBinary", "SaveText", "Save", "FromScene+WriteGLB", "FromScene+ToGLTF",
               "AddScene+WriteGLB"}
KindOf(en) == IF en \in {"WriteText", "SaveText", "FromScene+ToGLTF"} THEN "text" ELSE "glb"
\* the writer comes from NewWriterFromScene (whose error path hands the buffer back)
ViaFromScene(en) == en # "AddScene+WriteGLB"
\* the entry point is done with the writer when it returns (the buffer can be recycled)
Releases(en) == en \in {"WriteBinary", "WriteText", "SaveBinary", "SaveText", "Save"}

(* ----------------------------- one export ------------------------------ *)
SubSeqSafe(s, a, b) == IF a > b THEN <<>> ELSE SubSeq(s, a, b)
SceneOf(e) ==
    LET sh == Shapes[e.shape] IN
    IF e.fk = "none" THEN sh
    ELSE SubSeqSafe(sh, 1, e.pos) \o <<BadModel(e.fk, e.pos)>> \o SubSeqSafe(sh, e.pos + 1, Len(sh))

VecBytes(mesh) == LET vs == SelectSeq(mesh.attrs, LAMBDA a : a.ar >= 2)
                      RECURSIVE Sum(_)
                      Sum(s) == IF s = <<>> THEN 0 ELSE Head(s).ar * (IF Head(s).id = 7 THEN 1 ELSE 4) + Sum(Tail(s))
                  IN mesh.nv * Sum(vs)
ModelBytes(m) ==
    IF m.mesh = 0 \/ SMeshPool[m.mesh].ni = 0 THEN 0
    ELSE VecBytes(SMeshPool[m.mesh]) + SMeshPool[m.mesh].ni * (IF SMeshPool[m.mesh].nv > 65535 THEN 4 ELSE 2)
         + (IF m.ninst > 0 THEN m.ninst * 40 ELSE 0)

\* index of the model the export fails at (0 = it does not fail)
FailsAt(e) == IF e.fk = "none" THEN 0 ELSE e.pos + 1
\* models whose payload is in the buffer when the export ends (a mesh pointer is written once)
RECURSIVE ChunksOf(_, _, _, _, _)
ChunksOf(x, sc, k, upto, seen) ==
    IF k > upto THEN <<>>
    ELSE LET m == sc[k]
             n == IF m.mesh \in seen THEN (IF m.ninst > 0 THEN m.ninst * 40 ELSE 0) ELSE ModelBytes(m)
         IN (IF n > 0 THEN <<[x |-> x, m |-> k, n |-> n]>> ELSE <<>>) \o ChunksOf(x, sc, k + 1, upto, seen \cup {m.mesh})
Written(x, e) ==
    LET sc == SceneOf(e)
        upto == IF e.fk = "none" THEN Len(sc) ELSE IF e.fk = "anim" THEN e.pos + 1 ELSE e.pos
    IN ChunksOf(x, sc, 1, upto, {})
RECURSIVE SumN(_)
SumN(s) == IF s = <<>> THEN 0 ELSE Head(s).n + SumN(Tail(s))
Depth(e) == Len(Written(0, e))

NoBuf == [has |-> FALSE, data |-> <<>>]
FreshDoc(x, e) == [ok |-> TRUE, len |-> SumN(Written(x, e)), payload |-> Written(x, e)]

VARIABLES pool, hist, docs
vars == <<pool, hist, docs>>

ExportAlts ==
    {[entry |-> en, shape |-> s, fk |-> "none", pos |-> 0] : en \in Entries, s \in ShapeIds}
    \cup {[entry |-> en, shape |-> s, fk |-> fk, pos |-> p] :
            en \in Entries, s \in ShapeIds, fk \in FailKinds, p \in 0..MaxPos}

Init == pool = NoBuf /\ hist = <<>> /\ docs = <<>>

Export(e) ==
    LET x == Len(hist) + 1
        base == IF PoolPolicy # "fresh" /\ pool.has THEN pool.data ELSE <<>>      \* sync.Pool.Get / new buffer
        own == Written(x, e)
        buf == base \o own              \* the writer counts from 0 and appends to whatever the buffer holds
    IN  /\ e.pos <= Len(Shapes[e.shape])
        /\ hist' = Append(hist, e)
        /\ IF e.fk # "none"
           THEN /\ docs' = Append(docs, [ok |-> FALSE, len |-> 0, payload |-> <<>>])
                /\ pool' = IF PoolPolicy = "fresh" \/ ~ViaFromScene(e.entry) THEN NoBuf
                           ELSE IF PoolPolicy = "reset" THEN [has |-> TRUE, data |-> <<>>]
                           ELSE [has |-> TRUE, data |-> buf]
           ELSE /\ docs' = Append(docs, [ok |-> TRUE, len |-> SumN(own), payload |-> buf])
                /\ pool' = IF PoolPolicy = "fresh" \/ ~Releases(e.entry) THEN NoBuf ELSE [has |-> TRUE, data |-> <<>>]

Next == Len(hist) < MaxLen /\ \E e \in ExportAlts : Export(e)
Spec == Init /\ [][Next]_vars

(* ----------------------------- the contract ---------------------------- *)
SessionContract == \A i \in DOMAIN docs : docs[i].ok => docs[i] = FreshDoc(i, hist[i])
\* an export that must fail fails, whatever happened before
SessionOutcome == \A i \in DOMAIN docs : docs[i].ok = (hist[i].fk = "none")

(* ----------------------------- generator output ------------------------ *)
ModelDesc(m, k) == [name |-> k, mesh |-> m.mesh, mat |-> m.mat, trs |-> W!NoTrs, inst |-> W!InstOf(m.ninst), anim |-> m.anim]
SceneDesc(e) ==
    LET sc == SceneOf(e) IN
    [tag |-> "session", vmode |-> "lattice", div |-> 8, meshes |-> SMeshPool, texs |-> W!TexPool, mats |-> SMatPool,
     models |-> [k \in DOMAIN sc |-> ModelDesc(sc[k], k)], lights |-> <<>>, kinds |-> <<KindOf(e.entry)>>, risk |-> <<>>]
ExportDesc(e) == [entry |-> e.entry, expect |-> IF e.fk = "none" THEN "OK" ELSE "FAIL",
                  fk |-> e.fk, fd |-> Depth(e), scene |-> SceneDesc(e)]
HistDesc == [session |-> [i \in DOMAIN hist |-> ExportDesc(hist[i])]]
\* a history worth executing ends with a valid export (every valid export in it is judged)
Complete == Len(hist) = MaxLen /\ hist[Len(hist)].fk = "none"
Emit == ~Complete \/ PrintT(ToJson(HistDesc))
\* -simulate evaluates invariants on every state of a walk: only the leaf prints
EmitLeaf == Emit
=============================================================================
