CONSTANTS
  MaxMeshes = 1
  Rich = TRUE
  MaxTris = 3
SPECIFICATION Spec
INVARIANTS WriterDesign PipelineDesign Emit RiskyEmit
CHECK_DEADLOCK FALSE
