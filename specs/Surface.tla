------------------------------ MODULE Surface ------------------------------
(***************************************************************************)
(* Closed / oriented / outward predicates on triangle lists (C09, C18).    *)
(*                                                                         *)
(* A combinatorial triangle is <<a, b, c>> over vertex identities (any     *)
(* values TLC can compare with one another: integers = vertex numbers or   *)
(* position classes, or integer triples = exact positions).                *)
(* A geometric triangle is <<P1, P2, P3>> with P = <<x, y, z>> integers    *)
(* (real coordinate * scale, rounded by the projection).                   *)
(*                                                                         *)
(*  Oriented(T)  no directed edge is used by two triangles                 *)
(*  Paired(T)    every directed edge has its opposite edge in the list     *)
(*  Oriented /\ Paired  <=>  every directed edge occurs exactly once and   *)
(*               its reverse exactly once: a closed, consistently          *)
(*               oriented surface (property text of C09 / C18)             *)
(*  NoDegenerate(T)  the three corners of every triangle are distinct      *)
(*  Vol6(G)      6 * signed volume = sum of det(P1,P2,P3), EXACT           *)
(*                                                                         *)
(* int32 budget of Vol6: |coordinate| <= CoordMax = 2^14.  A cross product *)
(* component is < 2^29; it is split at K = 2^14 before the dot product so  *)
(* no intermediate exceeds 3 * 2^29 < 2^31; the per-triangle determinant   *)
(* is carried as c2*K^2 + c1*K + c0 with 0 <= c1, c0 < K and the three     *)
(* columns are summed separately (c1, c0 columns stay below 2^31 for up to *)
(* 130 000 triangles; the c2 column is bounded by sum|det| / 2^28).        *)
(***************************************************************************)
EXTENDS Integers, Sequences, FiniteSets, SequencesExt, BigNat

CoordMax == 16384

(* ------------------------- combinatorics ------------------------------ *)
DirEdges(T) ==
    [i \in 1..(3 * Len(T)) |->
        LET t == T[((i - 1) \div 3) + 1]
            j == ((i - 1) % 3) + 1
        IN <<t[j], t[(j % 3) + 1]>>]

EdgeSet(T) == LET E == DirEdges(T) IN {E[i] : i \in DOMAIN E}

Oriented(T) == Cardinality(EdgeSet(T)) = 3 * Len(T)
Paired(T) == LET S == EdgeSet(T) IN \A e \in S : <<e[2], e[1]>> \in S
ClosedOriented(T) == Oriented(T) /\ Paired(T)

NoDegenerate(T) == \A i \in DOMAIN T : T[i][1] # T[i][2] /\ T[i][2] # T[i][3] /\ T[i][1] # T[i][3]

\* witnesses for diagnostics (a few offending edges)
Unpaired(T) == LET S == EdgeSet(T) IN {e \in S : <<e[2], e[1]>> \notin S}

(* ------------------------- geometry ----------------------------------- *)
VSub(p, q) == <<p[1] - q[1], p[2] - q[2], p[3] - q[3]>>
VAdd(p, q) == <<p[1] + q[1], p[2] + q[2], p[3] + q[3]>>
VScale(k, p) == <<k * p[1], k * p[2], k * p[3]>>
Dot(p, q) == p[1] * q[1] + p[2] * q[2] + p[3] * q[3]
Cross(p, q) == <<p[2] * q[3] - p[3] * q[2], p[3] * q[1] - p[1] * q[3], p[1] * q[2] - p[2] * q[1]>>
AbsI(x) == IF x < 0 THEN -x ELSE x

InBudget(p) == AbsI(p[1]) <= CoordMax /\ AbsI(p[2]) <= CoordMax /\ AbsI(p[3]) <= CoordMax
GeoInBudget(G) == \A i \in DOMAIN G : InBudget(G[i][1]) /\ InBudget(G[i][2]) /\ InBudget(G[i][3])

\* positions looked up by 0-based vertex id
Geo(T, pos) == [i \in DOMAIN T |-> <<pos[T[i][1] + 1], pos[T[i][2] + 1], pos[T[i][3] + 1]>>]

\* det(a, b, c) = c2*K^2 + c1*K + c0, 0 <= c1, c0 < K, exact
Det3(a, b, c) ==
    LET n == Cross(b, c)
        h == a[1] * (n[1] \div K) + a[2] * (n[2] \div K) + a[3] * (n[3] \div K)
        l == a[1] * (n[1] % K) + a[2] * (n[2] % K) + a[3] * (n[3] % K)
        m == (h % K) + (l \div K)            \* middle column before its own carry
    IN <<(h \div K) + (m \div K), m % K, l % K>>

\* column sums over all triangles, then carried: <<s2, s1, s0>> with 0 <= s1, s0 < K
Vol6Cols(G) ==
    LET raw == FoldLeft(LAMBDA acc, t : LET d == Det3(t[1], t[2], t[3])
                                        IN <<acc[1] + d[1], acc[2] + d[2], acc[3] + d[3]>>,
                        <<0, 0, 0>>, G)
        m == raw[2] + (raw[3] \div K)
    IN <<raw[1] + (m \div K), m % K, raw[3] % K>>

VolPositive(G) == LET v == Vol6Cols(G) IN v[1] > 0 \/ (v[1] = 0 /\ (v[2] > 0 \/ v[3] > 0))
VolNegative(G) == Vol6Cols(G)[1] < 0
\* 6V as a BigNat (only meaningful when the volume is not negative)
Vol6Nat(G) == LET v == Vol6Cols(G) IN <<v[3], v[2]>> \o FromInt(v[1])

\* geometric non-degeneracy: non-zero area (exact; edge vectors must stay below 2^15)
NonZeroArea(G) ==
    \A i \in DOMAIN G : Cross(VSub(G[i][2], G[i][1]), VSub(G[i][3], G[i][1])) # <<0, 0, 0>>

(***************************************************************************)
(* NormalSide: a supplied vertex normal n points to the outer side of an   *)
(* incident face: n . ((b - a) x (c - a)) > 0.  Only the sign matters.     *)
(* The edge vectors are taken at full resolution and, only when a triangle *)
(* is large, each is divided by its own power of two so that their         *)
(* components stay within 2^10 (a relative perturbation of the edge        *)
(* directions below 2^-9): cross components <= 2^21, normals are expected  *)
(* scaled to |n| <= 2^8, the dot product stays below 3 * 2^29.  (A first   *)
(* version coarsened the POSITIONS by 2^6; pole fans of 56 x 62 spheres    *)
(* then collapsed to zero area and were rejected - a false alarm.)         *)
(***************************************************************************)
MaxAbs3(p) == MaxI(AbsI(p[1]), MaxI(AbsI(p[2]), AbsI(p[3])))
RECURSIVE ShiftFor(_, _)
ShiftFor(m, d) == IF m \div d <= 1024 THEN d ELSE ShiftFor(m, 2 * d)
RDiv(x, d) == (x + d \div 2) \div d
\* Only the SIGN of n . (e1 x e2) is asked for, and it does not change when e1 and e2 are divided by
\* DIFFERENT positive numbers: each edge is scaled by its own power of two.  (With one common divisor
\* the short edge of a needle triangle - the pole fan of a 4 x 5462 sphere: 13 units against 12 500 -
\* was rounded to zero and the face lost its normal: a false alarm of the resolution ladder, round 5.)
\* ... and the corner the two edges start from is an end of the SHORTEST edge (a cyclic rotation keeps the
\* orientation): the two long edges of a needle are parallel to within the rounding, its short edge and
\* one long edge are not.
EdgeLen(g, k) == MaxAbs3(VSub(g[(k % 3) + 1], g[k]))
Rot(g, k) == <<g[k], g[(k % 3) + 1], g[((k + 1) % 3) + 1]>>
FromShortest(g) == Rot(g, CHOOSE k \in 1..3 : \A j \in 1..3 : EdgeLen(g, k) <= EdgeLen(g, j))
FaceNormalSmall(g0) ==
    LET g == FromShortest(g0)
        e1 == VSub(g[2], g[1])
        e2 == VSub(g[3], g[1])
        d1 == ShiftFor(MaxAbs3(e1), 1)
        d2 == ShiftFor(MaxAbs3(e2), 1)
    IN Cross(<<RDiv(e1[1], d1), RDiv(e1[2], d1), RDiv(e1[3], d1)>>, <<RDiv(e2[1], d2), RDiv(e2[2], d2), RDiv(e2[3], d2)>>)
NormalSide(g, n) == Dot(n, FaceNormalSmall(g)) > 0
=============================================================================
