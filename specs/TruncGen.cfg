CONSTANTS
  Encs = {"ascii", "le", "be"}
  PropSets = {1, 2, 3, 4}
  NV = {1, 3}
  FaceKinds = {"none", "tri1", "tri2uv", "alt", "quaduv"}
  StlN = {0, 1, 2}
  PtsN = {0, 1, 2, 3}
  PtsCols = {3, 4, 7}
  SplatN = {1, 2, 3}
  SpzN = {0, 1, 2}
  SpzVersions = {1, 2}
  SpzDegs = {0, 1, 2, 3}
  Frames = {"stored0", "stored7", "deflate"}
SPECIFICATION Spec
INVARIANTS Emit TilesInv PrefixClosed StrictLaw SplatLaw FrameLaw NonZero
CHECK_DEADLOCK FALSE
