\* current tree (material equality repaired, offsets as writer.go): everything but L2Aligned holds
CONSTANTS
  MeshIds = {1, 2, 3, 4, 5, 6, 9}
  MatIds = {0, 1, 2, 3, 4, 5, 6, 8, 11}
  InstCounts = {0, 1}
  TrsKinds = {0}
  MaxModels = 2
  MaxLights = 1
  Pad = FALSE
  DeepEq = TRUE
SPECIFICATION Spec
INVARIANTS L2All L2MatRef L2MatOnce
CHECK_DEADLOCK FALSE
