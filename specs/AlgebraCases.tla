---------------------------- MODULE AlgebraCases ----------------------------
(***************************************************************************)
(* Finite case families of C17 that are plain enumerations (every element  *)
(* is an initial state; TLC prints each once through Emit):                *)
(*   basis   all 256 ordered pairs of 4x4 basis matrices E_rc (decisive    *)
(*           for the entry-wise Add and the bilinear Multiply)             *)
(*   rotto   all ordered pairs of the 26 lattice directions {-1,0,1}^3\{0} *)
(*           (parallel and antiparallel pairs included)                    *)
(*   rotnear for each direction a: b at 1e-2 .. 1e-9 rad from a and from -a*)
(*   rotax   rotations about (non-unit) lattice axes by 90/120/180 degrees *)
(*   rotq    rotations about a coordinate axis by an angle with rational   *)
(*           sine and cosine (Pythagorean triples), vectors chosen so that *)
(*           the images are integral                                       *)
(*   trs     TRS triples: translation x group word x scale x constructor   *)
(*   mesh    mesh-level Rotate / Translate / Scale / ApplyTRS on lattice   *)
(*           meshes                                                        *)
(* Which families are enumerated is chosen by the constant Families.       *)
(***************************************************************************)
EXTENDS Algebra, Json

CONSTANTS Families, WordLen

VARIABLES c
vars == <<c>>

Dirs == {v \in {0 - 1, 0, 1} \X {0 - 1, 0, 1} \X {0 - 1, 0, 1} : v # <<0, 0, 0>>}

BasisCases == {[k |-> "mat2", a |-> Basis4(r1, c1), ad |-> 1, b |-> Basis4(r2, c2), bd |-> 1] :
                  r1 \in 1..4, c1 \in 1..4, r2 \in 1..4, c2 \in 1..4}

RotToCases == {[k |-> "rotto", a |-> a, b |-> b] : a \in Dirs, b \in Dirs}

\* b at the small angle en * 10^-ek from a (anti = 0) or from -a (anti = 1): the neighbourhoods of the
\* special cases of RotationTo
RotNearCases == {[k |-> "rotnear", a |-> a, en |-> n, ek |-> e, anti |-> x] :
                    a \in Dirs, n \in {1, 3}, e \in {2, 3, 4, 6, 9}, x \in {0, 1}}

\* axis (any positive multiple is the same axis), 2*cos(angle), orientation of the angle
RotAxCases ==
    {[k |-> "rotax", ax |-> V3Scale(a, m), c2 |-> 0 - 1, sg |-> s, vs |-> VProbes] :
         a \in {v \in Dirs : v[1] # 0 /\ v[2] # 0 /\ v[3] # 0}, m \in {1, 2}, s \in {0 - 1, 1}}       \* 120 degrees about a body diagonal
    \cup {[k |-> "rotax", ax |-> V3Scale(a, m), c2 |-> 0 - 2, sg |-> 1, vs |-> VProbes] :
         a \in {v \in Dirs : Cardinality({i \in 1..3 : v[i] = 0}) = 1}, m \in {1, 3}}                  \* 180 degrees about a face diagonal
    \cup {[k |-> "rotax", ax |-> V3Scale(a, m), c2 |-> cc, sg |-> s, vs |-> VProbes] :
         a \in {v \in Dirs : Cardinality({i \in 1..3 : v[i] = 0}) = 2}, m \in {1, 5},
         cc \in {0, 0 - 2}, s \in {0 - 1, 1}}                                                          \* 90 / 180 degrees about a coordinate axis

Triples == {<<3, 4, 5>>, <<4, 3, 5>>, <<5, 12, 13>>, <<0 - 3, 4, 5>>, <<3, 0 - 4, 5>>, <<0 - 12, 0 - 5, 13>>, <<8, 15, 17>>}
RotQCases == {[k |-> "rotq", axis |-> a, cn |-> t[1], sn |-> t[2], hy |-> t[3], am |-> m,
                   vs |-> [i \in DOMAIN VProbes |-> V3Scale(VProbes[i], t[3])]] :
                  a \in 1..3, t \in Triples, m \in {1, 4}}

RECURSIVE WordsL(_)
WordsL(n) == IF n = 0 THEN {<<>>}
             ELSE LET W == WordsL(n - 1) IN
                  W \cup {Append(w, [side |-> "R", axis |-> x.axis, sgn |-> x.sgn]) : w \in {u \in W : Len(u) = n - 1}, x \in Letters}
Words == WordsL(WordLen)

Ts == {<<0, 0, 0>>, <<1, 0 - 2, 3>>}
Ss == {<<1, 1, 1>>, <<2, 3, 0 - 1>>, <<0, 2, 2>>}
TRSCases ==
    {[k |-> "trs", ctor |-> "New", t |-> t, word |-> w, s |-> s, tr |-> tr, vs |-> VProbes] : t \in Ts, w \in Words, s \in Ss, tr \in {<<0, 0, 0>>, <<0 - 1, 4, 2>>}}
    \cup {[k |-> "trs", ctor |-> "Position", t |-> t, word |-> <<>>, s |-> <<1, 1, 1>>, tr |-> <<0, 0, 0>>, vs |-> VProbes] : t \in Ts}
    \cup {[k |-> "trs", ctor |-> "Scale", t |-> <<0, 0, 0>>, word |-> <<>>, s |-> s, tr |-> <<0, 0, 0>>, vs |-> VProbes] : s \in Ss}
    \cup {[k |-> "trs", ctor |-> "Rotation", t |-> <<0, 0, 0>>, word |-> w, s |-> <<1, 1, 1>>, tr |-> <<2, 0, 0>>, vs |-> VProbes] : w \in Words}

Pos1 == <<<<0, 0, 0>>, <<1, 0, 0>>, <<0, 2, 0>>, <<0, 0, 3>>, <<0 - 1, 4, 0 - 2>>>>
Pos2 == <<<<5, 5, 5>>, <<0 - 7, 0, 1>>>>
MeshCases ==
    {[k |-> "mesh", op |-> "Rotate", t |-> <<0, 0, 0>>, word |-> w, s |-> <<1, 1, 1>>, pos |-> p] : w \in Words, p \in {Pos1, Pos2}}
    \cup {[k |-> "mesh", op |-> "Translate", t |-> t, word |-> <<>>, s |-> <<1, 1, 1>>, pos |-> p] : t \in Ts \cup {<<0 - 3, 0, 8>>}, p \in {Pos1, Pos2}}
    \cup {[k |-> "mesh", op |-> "Scale", t |-> <<0, 0, 0>>, word |-> <<>>, s |-> s, pos |-> p] : s \in Ss, p \in {Pos1, Pos2}}
    \cup {[k |-> "mesh", op |-> "ApplyTRS", t |-> t, word |-> w, s |-> s, pos |-> Pos1] : t \in Ts, w \in Words, s \in Ss}

Cases ==
    (IF "basis" \in Families THEN BasisCases ELSE {})
    \cup (IF "rotto" \in Families THEN RotToCases ELSE {})
    \cup (IF "rotnear" \in Families THEN RotNearCases ELSE {})
    \cup (IF "rotax" \in Families THEN RotAxCases ELSE {})
    \cup (IF "rotq" \in Families THEN RotQCases ELSE {})
    \cup (IF "trs" \in Families THEN TRSCases ELSE {})
    \cup (IF "mesh" \in Families THEN MeshCases ELSE {})

Init == c \in Cases
Next == FALSE /\ c' = c
Spec == Init /\ [][Next]_vars

Emit == PrintT(ToJson(c))
=============================================================================
