CONSTANTS
  B = 3
  Blocks <- DefaultBlocks
SPECIFICATION Spec
INVARIANTS FetchRight CoverageExact
CHECK_DEADLOCK FALSE
