------------------------------- MODULE BigNat -------------------------------
(***************************************************************************)
(* Exact natural-number arithmetic beyond TLC's int32, and fixed-point     *)
(* sine on top of it.  Used by Surface.tla / Solids.tla so that volumes    *)
(* (products of three 15-bit coordinates, summed over thousands of         *)
(* triangles) and their closed-form references are computed EXACTLY.       *)
(*                                                                         *)
(* A natural is a little-endian sequence of limbs in 0..K-1, K = 2^14      *)
(* (trailing zero limbs allowed).  int32 budget: a column of Mul sums at   *)
(* most min(Len) limb products < 2^28 plus a carry < 2^18, so operands of  *)
(* up to 7 limbs (98 bits) are safe; MulSmall/DivSmall take a plain        *)
(* multiplier/divisor < 2^16.                                              *)
(***************************************************************************)
EXTENDS Integers, Sequences

K == 16384

Limb(a, i) == IF i <= Len(a) THEN a[i] ELSE 0
MaxI(x, y) == IF x >= y THEN x ELSE y

\* columns (non-negative ints) -> limbs
RECURSIVE NormR(_, _, _)
NormR(cols, i, c) ==
    IF i > Len(cols)
    THEN IF c = 0 THEN <<>> ELSE <<c % K>> \o NormR(cols, i, c \div K)
    ELSE LET t == cols[i] + c IN <<t % K>> \o NormR(cols, i + 1, t \div K)
Norm(cols) == NormR(cols, 1, 0)

FromInt(x) == Norm(<<x>>)                                  \* x >= 0
IsZero(a) == \A i \in DOMAIN a : a[i] = 0

Add(a, b) == Norm([i \in 1..MaxI(Len(a), Len(b)) |-> Limb(a, i) + Limb(b, i)])
MulSmall(a, m) == Norm([i \in 1..Len(a) |-> a[i] * m])     \* 0 <= m < 2^16

RECURSIVE ColSum(_, _, _, _)
ColSum(a, b, k, i) ==       \* sum of a[i]*b[k+1-i] over the valid i
    IF i > Len(a) \/ i > k THEN 0
    ELSE (IF k + 1 - i <= Len(b) THEN a[i] * b[k + 1 - i] ELSE 0) + ColSum(a, b, k, i + 1)
Mul(a, b) ==
    IF Len(a) = 0 \/ Len(b) = 0 THEN <<>>
    ELSE Norm([k \in 1..(Len(a) + Len(b) - 1) |-> ColSum(a, b, k, 1)])

RECURSIVE CmpR(_, _, _)
CmpR(a, b, i) ==
    IF i = 0 THEN 0
    ELSE IF Limb(a, i) > Limb(b, i) THEN 1
    ELSE IF Limb(a, i) < Limb(b, i) THEN -1
    ELSE CmpR(a, b, i - 1)
Cmp(a, b) == CmpR(a, b, MaxI(Len(a), Len(b)))
Leq(a, b) == Cmp(a, b) <= 0
Less(a, b) == Cmp(a, b) < 0

RECURSIVE SubR(_, _, _, _)
SubR(a, b, i, br) ==        \* a - b for a >= b
    IF i > Len(a) THEN <<>>
    ELSE LET t == a[i] - Limb(b, i) - br
         IN IF t < 0 THEN <<t + K>> \o SubR(a, b, i + 1, 1) ELSE <<t>> \o SubR(a, b, i + 1, 0)
Sub(a, b) == SubR(a, b, 1, 0)
AbsDiff(a, b) == IF Leq(b, a) THEN Sub(a, b) ELSE Sub(b, a)

RECURSIVE DivR(_, _, _, _)
DivR(a, d, i, rem) ==       \* limbs 1..i of floor(a / d), 0 < d < 2^16
    IF i = 0 THEN <<>>
    ELSE LET t == rem * K + a[i] IN DivR(a, d, i - 1, t % d) \o <<t \div d>>
DivSmall(a, d) == DivR(a, d, Len(a), 0)

ShiftR(a, n) == IF n >= Len(a) THEN <<>> ELSE SubSeq(a, n + 1, Len(a))   \* floor(a / K^n)
ShiftL(a, n) == [i \in 1..n |-> 0] \o a                                  \* a * K^n

(***************************************************************************)
(* Fixed point: a value x >= 0 is the natural floor(x * K^2) (28 fraction  *)
(* bits).  pi is taken as 355/113 (relative error 8.5e-8, far below every  *)
(* band used by the callers).  Sin is the Taylor series with positive and  *)
(* negative terms accumulated separately; every FixMul/DivSmall floors, so *)
(* the absolute error for 0 <= x <= pi is below 2^-22.                     *)
(***************************************************************************)
One == <<0, 0, 1>>
FixMul(a, b) == ShiftR(Mul(a, b), 2)

\* pi * p / q  (p, q positive ints, p < 2^14, q < 2^16).  DivSmall needs its divisor below 2^16 (remainder *
\* limb base stays in int32): for q >= 580 the division is done in two steps (one more unit in the last place).
PiFrac(p, q) == IF 113 * q < 65536 THEN DivSmall(MulSmall(MulSmall(One, 355), p), 113 * q)
                ELSE DivSmall(DivSmall(MulSmall(MulSmall(One, 355), p), 113), q)

RECURSIVE SinR(_, _, _, _, _, _)
SinR(x2, term, k, pos, neg, plus) ==
    IF IsZero(term) \/ k > 45 THEN (IF Leq(neg, pos) THEN Sub(pos, neg) ELSE <<>>)
    ELSE LET nt == DivSmall(FixMul(term, x2), (k + 1) * (k + 2))
         IN IF plus THEN SinR(x2, nt, k + 2, Add(pos, term), neg, FALSE)
            ELSE SinR(x2, nt, k + 2, pos, Add(neg, term), TRUE)
Sin(x) == SinR(FixMul(x, x), x, 1, <<>>, <<>>, TRUE)       \* 0 <= x <= pi
=============================================================================
