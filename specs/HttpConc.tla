------------------------------ MODULE HttpConc ------------------------------
(***************************************************************************)
(* X04, concurrent mode - generator of concurrent cases: after a prelude   *)
(* (executed sequentially) NC clients issue PerClient requests each, in    *)
(* parallel, against one handler.  The generator walks ONE serial order    *)
(* (so that later requests refer to what earlier ones made: a node another *)
(* client creates, a connection another client deletes); the real          *)
(* execution order is whatever the goroutines do, and TraceHttpConc looks  *)
(* for a serial order explaining it.  Every request records the node types *)
(* the generator assumed (ta, tb) and the array length (n): the request    *)
(* body is fixed before the clients start.                                 *)
(***************************************************************************)
EXTENDS HttpEdit

CONSTANTS NC, PerClient

TypeOr0(n) == IF n \in g.ids THEN g.type[n] ELSE 0
Typed(r, c) == [r EXCEPT !.ta = TypeOr0(r.a), !.tb = TypeOr0(r.b), !.n = ArrLen(r.b), !.cl = c]
Count(c) == Cardinality({i \in (PLen + 1)..Len(hist) : hist[i].cl = c})

ConcReads == {Rq("getgraph", 0, 0, 0)} \cup {Rq("getart", f, 0, 0) : f \in 1..2}
             \cup {Rq(k, a, 0, 0) : k \in {"getval", "getname"}, a \in {x \in g.ids : IsParam(g.type[x])}}
ConcPool(cls) ==
    CASE cls \in {1, 2, 3} -> ValidEdits
      [] cls = 4 -> {r \in InvalidEdits : r.kind \in {"connect", "connectarr", "delete", "disconnectarr", "setproducer"}
                                          /\ Reason(g, r) \in {"cycle", "self", "in-use", "unknown-node", "index"}}
      [] cls = 5 -> ConcReads
      [] OTHER -> PutPool \cup {r \in ValidEdits : r.kind \in {"create", "delete", "connectarr"}}

ConcNext ==
    \E c \in 1..NC :
        /\ Count(c) < PerClient
        /\ \E cls \in 1..6 : LET S == ConcPool(cls) IN S # {} /\ Step(Typed(RandomElement(S), c))
ConcSpec == HInit /\ [][ConcNext]_hvars

\* exhaustive variant (BFS): every pair of single requests of two clients at the prelude state
ConcAll == \E c \in 1..NC : Count(c) < PerClient /\ (\A d \in 1..(c - 1) : Count(d) = PerClient)
                            /\ \E r \in ValidEdits \cup ConcPool(4) \cup ConcReads \cup PutPool : Step(Typed(r, c))
ConcAllSpec == HInit /\ [][ConcAll]_hvars

Full == \A c \in 1..NC : Count(c) = PerClient
ConcPart == SubSeq(hist, PLen + 1, Len(hist))
EmitConc == ~Full \/ PrintT(ToJson([pre |-> SubSeq(hist, 1, PLen),
                                    progs |-> [c \in 1..NC |-> SelectSeq(ConcPart, LAMBDA x : x.cl = c)]]))
ViewConc == <<g, snap, hist>>
=============================================================================
