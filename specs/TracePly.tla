------------------------------ MODULE TracePly ------------------------------
(***************************************************************************)
(* Trace validation for the PLY family (C04, C08).                         *)
(* trace.ndjson lines, written by `vh ply-exec` from real executions:      *)
(*  {"k":"case","kind":"rt",  "mode","D","in":mesh,"src":mesh,"opts":o}    *)
(*        a mesh was built (src = its projection through public observers) *)
(*  {"k":"case","kind":"file","mode","D","spec":file}                      *)
(*        an abstract third-party file (from the generator)                *)
(*  {"k":"enc","fmt":e,"wr","file":parsed,"hdr":h,"rd","mesh":mesh}        *)
(*        rt  : real writer -> bytes -> reference parser (file),           *)
(*              ply.ReadHeader (hdr), ply.ReadMesh (rd, mesh)              *)
(*        file: reference encoder -> bytes -> the same three observations  *)
(* State: the current case and the decoded mesh of its first encoding.     *)
(* Each rejected line is printed as JSON {"l","id","bad":[{"p","why"}],    *)
(* "cls"}: violated predicates, what differs, class of the case.           *)
(***************************************************************************)
EXTENDS PlyFormat, Json

Trace == ndJsonDeserialize("trace.ndjson")

VARIABLES l, cur, first
vars == <<l, cur, first>>

NoCase == [k |-> "none", kind |-> "none"]
NoMesh == [topo |-> "NULL", idx |-> <<>>, attrs |-> <<>>, exact |-> TRUE]

Init == l = 1 /\ cur = NoCase /\ first = NoMesh

\* bad: set of [p |-> predicate name, why |-> set of strings]
Report(ln, bad, cls) ==
    IF bad = {} THEN TRUE
    ELSE PrintT(ToJson([l |-> l, id |-> ln.id, bad |-> bad, cls |-> cls]))

(***************************************************************************)
(* a case starts                                                           *)
(***************************************************************************)
CaseBad(ln) ==
    IF ln.kind = "rt"
    THEN (IF /\ ln.src.topo = ln.in.topo /\ ln.src.idx = ln.in.idx
             /\ Range(ln.src.attrs) = Range(ln.in.attrs)
             /\ (ln.mode = "lat" => ln.src.exact)
             /\ WellFormedMesh(MeshOf(ln.src))
          THEN {} ELSE {"Harness.Build"})
    ELSE (IF /\ HeaderOK([ln.spec EXCEPT !.fmt = "ascii"]) /\ BodyOK(ln.spec, ln.mode)
             /\ Denotable(ln.spec) /\ Representable(ln.spec, ln.mode, ln.D)
          THEN {} ELSE {"Harness.Grammar"})

CaseStep ==
    /\ l <= Len(Trace) /\ Trace[l].k = "case"
    /\ Report(Trace[l], {[p |-> x, why |-> {}] : x \in CaseBad(Trace[l])}, "-")
    /\ cur' = Trace[l]
    /\ first' = NoMesh
    /\ l' = l + 1

(***************************************************************************)
(* C04: one encoding of a round trip                                       *)
(***************************************************************************)
HeaderAgrees(h, f) ==      \* what ply.ReadHeader returned against the header in the bytes
    /\ h.ok
    /\ Len(h.elems) = (IF f.face THEN 2 ELSE 1)
    /\ h.elems[1].name = "vertex" /\ h.elems[1].n = f.nv
    /\ Len(h.elems[1].props) = Len(f.vprops)
    /\ \A i \in DOMAIN f.vprops :
          LET p == h.elems[1].props[i] IN ~p.list /\ p.n = f.vprops[i].n /\ p.t = Canon(f.vprops[i].t)
    /\ f.face =>
          /\ h.elems[2].name = "face" /\ h.elems[2].n = f.nf
          /\ Len(h.elems[2].props) = Len(f.flists)
          /\ \A i \in DOMAIN f.flists :
                LET p == h.elems[2].props[i] IN
                p.list /\ p.n = f.flists[i].n /\ p.ct = Canon(f.flists[i].ct) /\ p.lt = Canon(f.flists[i].lt)

B(p, why) == [p |-> p, why |-> why]

\* attribute names on which two projected meshes differ ("shape": topology or index list)
ProjDiff(a, b) ==
    (IF a.topo # b.topo \/ a.idx # b.idx THEN {"shape"} ELSE {})
    \cup {x.n : x \in (Range(a.attrs) \ Range(b.attrs)) \cup (Range(b.attrs) \ Range(a.attrs))}

RtBad(ln) ==
    LET src == MeshOf(cur.src)
        o == cur.opts
        f == ln.file
        wf == ln.wr = "OK" /\ WellFormedFile(f, cur.mode) /\ Denotable(f) /\ Representable(f, cur.mode, cur.D)
        d == Denote(f, cur.mode, cur.D)
        res == MeshOf(ln.mesh)
        exact == cur.mode = "lat" => ln.mesh.exact
        rdok == ln.rd = "OK"
        rdwhy == IF rdok THEN {"inexact"} ELSE {"read-" \o ln.rd}
    IN  (IF ln.wr # "OK" THEN {B("C04.WriteOk", {ln.wr})} ELSE {})
        \cup (IF ln.wr = "OK" /\ ~wf THEN {B("C04.WellFormedFile", {IF f.ok THEN "layout" ELSE f.err})} ELSE {})
        \cup (IF ln.wr = "OK" /\ f.ok /\ f.fmt # ln.fmt THEN {B("C04.FormatWritten", {f.fmt})} ELSE {})
        \cup (IF wf /\ ~(RoundTrip(src, d, o, cur.mode, cur.D) /\ (cur.mode = "lat" => f.exact))
              THEN {B("C04.FileDenotes", RoundTripDiff(src, d, o, cur.mode, cur.D)
                                         \cup (IF cur.mode = "lat" /\ ~f.exact THEN {"inexact"} ELSE {}))} ELSE {})
        \cup (IF ln.wr = "OK" /\ f.ok /\ ~HeaderAgrees(ln.hdr, f) THEN {B("C04.ReadHeader", {})} ELSE {})
        \cup (IF ln.wr = "OK" /\ f.ok /\ ln.hdr.ok /\ ln.hdr.fmt # f.fmt THEN {B("C04.HeaderFormat", {ln.hdr.fmt})} ELSE {})
        \cup (IF wf /\ ~(rdok /\ exact /\ SameMesh(res, d))
              THEN {B("C04.ReadsFile", IF rdok /\ exact THEN MeshDiff(res, d) ELSE rdwhy)} ELSE {})
        \cup (IF ln.wr = "OK" /\ ~(rdok /\ exact /\ RoundTrip(src, res, o, cur.mode, cur.D))
              THEN {B("C04.RoundTrip", IF rdok /\ exact THEN RoundTripDiff(src, res, o, cur.mode, cur.D) ELSE rdwhy)}
              ELSE {})
        \cup (IF rdok /\ first.topo # "NULL" /\ ProjDiff(ln.mesh, first) # {}
              THEN {B("C04.EncodingsAgree", ProjDiff(ln.mesh, first))} ELSE {})

RtCls(ln) == IF PointTexCoordUnclaimed(MeshOf(cur.src), cur.opts) THEN "point-texcoord-unclaimed" ELSE "-"

(***************************************************************************)
(* C08: one encoding of a third-party file                                 *)
(***************************************************************************)
SameContent(f, s) ==      \* the reference parser found in the bytes what the reference encoder was given
    /\ f.vprops = s.vprops /\ f.nv = s.nv /\ f.vrecs = s.vrecs
    /\ f.face = s.face /\ f.nf = s.nf /\ f.flists = s.flists /\ f.frecs = s.frecs

FileBad(ln) ==
    LET s == cur.spec
        d == Denote(s, cur.mode, cur.D)
        res == MeshOf(ln.mesh)
        exact == cur.mode = "lat" => ln.mesh.exact
    IN  (IF ~(ln.wr = "REF" /\ ln.file.ok /\ ln.file.fmt = ln.fmt /\ WellFormedFile(ln.file, cur.mode)
              /\ SameContent(ln.file, s) /\ (cur.mode = "lat" => ln.file.exact))
         THEN {B("Harness.Refenc", {})} ELSE {})
        \cup (IF ln.rd # "OK" THEN {B("C08.Loads", {ln.rd})} ELSE {})
        \cup (IF ln.rd = "OK" /\ ~(exact /\ WellFormedMesh(res) /\ SameMesh(res, d))
              THEN {B("C08.Denote", IF ~exact THEN {"inexact"} ELSE IF ~WellFormedMesh(res) THEN {"malformed"}
                                    ELSE MeshDiff(res, d))} ELSE {})

FileCls(ln) == IF MixedGroup(cur.spec) THEN "mixed-type-group" ELSE "-"

EncStep ==
    /\ l <= Len(Trace) /\ Trace[l].k = "enc"
    /\ LET ln == Trace[l] IN
       /\ IF cur.kind = "rt" THEN Report(ln, RtBad(ln), RtCls(ln))
          ELSE IF cur.kind = "file" THEN Report(ln, FileBad(ln), FileCls(ln))
          ELSE Report(ln, {[p |-> "Harness.NoCase", why |-> {}]}, "-")
       /\ first' = IF first.topo = "NULL" /\ ln.rd = "OK" THEN ln.mesh ELSE first
    /\ UNCHANGED cur
    /\ l' = l + 1

Next == CaseStep \/ EncStep
Spec == Init /\ [][Next]_vars

\* every line was consumed (one state per line plus the initial state)
TraceAccepted == TLCGet("stats").diameter - 1 = Len(Trace)
=============================================================================
