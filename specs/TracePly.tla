------------------------------ MODULE TracePly ------------------------------
(***************************************************************************)
(* Trace validation for the PLY family (C04, C08).                         *)
(* trace.ndjson lines, written by `vh ply-exec` from real executions:      *)
(*  {"k":"case","kind":"rt",  "mode","D","in":mesh,"src":mesh,"opts":o}    *)
(*        a mesh was built (src = its projection through public observers) *)
(*  {"k":"case","kind":"file","mode","D","spec":file}                      *)
(*        an abstract third-party file (from the generator)                *)
(*  {"k":"enc","fmt":e,"wr","file":parsed,"hdr":h,"rd","mesh":mesh}        *)
(*        rt  : real writer -> bytes -> reference parser (file),           *)
(*              ply.ReadHeader (hdr), ply.ReadMesh (rd, mesh)              *)
(*        file: reference encoder -> bytes -> the same three observations  *)
(* State: the current case and the decoded mesh of its first encoding.     *)
(* Each rejected line is printed as JSON {"l","id","bad":[{"p","why",      *)
(* "cls"}]}: violated predicate, what differs, class of known deviation.   *)
(***************************************************************************)
EXTENDS PlyFormat, Json

Trace == ndJsonDeserialize("trace.ndjson")

VARIABLES l, cur, first
vars == <<l, cur, first>>

NoCase == [k |-> "none", kind |-> "none"]
NoMesh == [topo |-> "NULL", idx |-> <<>>, attrs |-> <<>>, exact |-> TRUE]

Init == l = 1 /\ cur = NoCase /\ first = NoMesh

\* bad: set of [p |-> predicate name, why |-> set of strings, cls |-> set of classes of known deviation / "-"]
Report(ln, bad) ==
    IF bad = {} THEN TRUE
    ELSE PrintT(ToJson([l |-> l, id |-> ln.id, bad |-> bad]))

(***************************************************************************)
(* a case starts                                                           *)
(***************************************************************************)
CaseBad(ln) ==
    IF ln.kind = "rt"
    THEN (IF /\ ln.src.topo = ln.in.topo /\ ln.src.idx = ln.in.idx
             /\ Range(ln.src.attrs) = Range(ln.in.attrs)
             /\ (ln.mode = "lat" => ln.src.exact)
             /\ WellFormedMesh(MeshOf(ln.src))
          THEN {} ELSE {"Harness.Build"})
    ELSE (IF /\ HeaderOK([ln.spec EXCEPT !.fmt = "ascii"]) /\ BodyOK(ln.spec, ln.mode)
             /\ Denotable(ln.spec) /\ Representable(ln.spec, ln.mode, ln.D)
          THEN {} ELSE {"Harness.Grammar"})

CaseStep ==
    /\ l <= Len(Trace) /\ Trace[l].k = "case"
    /\ Report(Trace[l], {[p |-> x, why |-> {}, cls |-> {}] : x \in CaseBad(Trace[l])})
    /\ cur' = Trace[l]
    /\ first' = NoMesh
    /\ l' = l + 1

(***************************************************************************)
(* C04: one encoding of a round trip                                       *)
(***************************************************************************)
HeaderAgrees(h, f) ==      \* what ply.ReadHeader returned against the header in the bytes
    /\ h.ok
    /\ Len(h.elems) = (IF f.face THEN 2 ELSE 1)
    /\ h.elems[1].name = "vertex" /\ h.elems[1].n = f.nv
    /\ Len(h.elems[1].props) = Len(f.vprops)
    /\ \A i \in DOMAIN f.vprops :
          LET p == h.elems[1].props[i] IN ~p.list /\ p.n = f.vprops[i].n /\ p.t = Canon(f.vprops[i].t)
    /\ f.face =>
          /\ h.elems[2].name = "face" /\ h.elems[2].n = f.nf
          /\ Len(h.elems[2].props) = Len(f.flists)
          /\ \A i \in DOMAIN f.flists :
                LET p == h.elems[2].props[i] IN
                p.list /\ p.n = f.flists[i].n /\ p.ct = Canon(f.flists[i].ct) /\ p.lt = Canon(f.flists[i].lt)

B(p, why, cls) == [p |-> p, why |-> why, cls |-> cls]

(***************************************************************************)
(* Classes of KNOWN deviations.  Every name in a rejection's `why` is put  *)
(* into a class only if that class explains it exactly, "-" otherwise; the *)
(* checker treats a rejection as known only if no "-" remains.             *)
(***************************************************************************)
RawCls == "ascii-uchar-scalar-raw"      \* the ascii reader leaves single 8-bit scalars unnormalised (pinned by a test)

\* the scalar attribute n of observed mesh m is exactly file f's 8-bit column left raw (0..255)
RawAttr(m, f, n) ==
    LET dr == DenoteV(f, cur.mode, cur.D, TRUE)
        key == <<n, 1>>
    IN /\ cur.mode = "lat" /\ n \in UCharScalarAttrs(f)
       /\ key \in AttrKeys(dr) /\ key \in AttrKeys(m)
       /\ IF dr.hasuv THEN Len(m.idx) = Len(dr.idx) /\ CornerMatch(m, dr, key, cur.mode)
          ELSE AttrMatch(m, dr, key, cur.mode)
\* ... while in mesh m it is what f describes
GoodAttr(m, d, n) ==
    LET key == <<n, 1>> IN
    /\ key \in AttrKeys(d) /\ key \in AttrKeys(m)
    /\ IF d.hasuv THEN Len(m.idx) = Len(d.idx) /\ CornerMatch(m, d, key, cur.mode) ELSE AttrMatch(m, d, key, cur.mode)

RtBad(ln) ==
    LET src == MeshOf(cur.src)
        o == cur.opts
        f == ln.file
        wf0 == ln.wr = "OK" /\ WellFormedFile(f, cur.mode) /\ Denotable(f)
        \* a correct file of this case stays on the case's lattice and inside the int32 budget
        wf == wf0 /\ Representable(f, cur.mode, cur.D)
        d == Denote(f, cur.mode, cur.D)
        res == MeshOf(ln.mesh)
        exact == cur.mode = "lat" => ln.mesh.exact
        rdok == ln.rd = "OK"
        rdwhy == IF rdok THEN {"inexact"} ELSE {"read-" \o ln.rd}
        fileok == wf /\ RoundTrip(src, d, o, cur.mode, cur.D) /\ (cur.mode = "lat" => f.exact)
        ascii == ln.fmt = "ascii"
    IN  (IF ln.wr # "OK" THEN {B("C04.WriteOk", {ln.wr}, {})} ELSE {})
        \cup (IF ln.wr = "OK" /\ ~wf0 THEN {B("C04.WellFormedFile", {IF f.ok THEN "layout" ELSE f.err}, {})} ELSE {})
        \cup (IF wf0 /\ ~wf THEN {B("C04.FileDenotes", {"out-of-range"}, {})} ELSE {})
        \cup (IF ln.wr = "OK" /\ f.ok /\ f.fmt # ln.fmt THEN {B("C04.FormatWritten", {f.fmt}, {})} ELSE {})
        \cup (IF wf /\ ~fileok
              THEN LET diff == RoundTripDiff(src, d, o, cur.mode, cur.D)
                               \cup (IF cur.mode = "lat" /\ ~f.exact THEN {"inexact"} ELSE {})
                   IN {B("C04.FileDenotes", diff, {})} ELSE {})
        \cup (IF ln.wr = "OK" /\ f.ok /\ ~HeaderAgrees(ln.hdr, f) THEN {B("C04.ReadHeader", {}, {})} ELSE {})
        \cup (IF ln.wr = "OK" /\ f.ok /\ ln.hdr.ok /\ ln.hdr.fmt # f.fmt
              THEN {B("C04.HeaderFormat", {ln.hdr.fmt}, {})} ELSE {})
        \cup (IF wf /\ ~(rdok /\ exact /\ SameMesh(res, d, cur.mode))
              THEN LET diff == IF rdok /\ exact THEN MeshDiff(res, d, cur.mode) ELSE rdwhy
                   IN {B("C04.ReadsFile", diff,
                         {IF rdok /\ exact /\ ascii /\ RawAttr(res, f, n) THEN RawCls ELSE "-" : n \in diff})} ELSE {})
        \cup (IF ln.wr = "OK" /\ ~(rdok /\ exact /\ RoundTrip(src, res, o, cur.mode, cur.D))
              THEN LET diff == IF rdok /\ exact THEN RoundTripDiff(src, res, o, cur.mode, cur.D) ELSE rdwhy
                   IN {B("C04.RoundTrip", diff,
                         {IF rdok /\ exact /\ ascii /\ wf /\ RawAttr(res, f, n) /\ KeptOK(src, d, o, <<n, 1>>, cur.mode, cur.D)
                          THEN RawCls ELSE "-" : n \in diff})}
              ELSE {})
        \cup (IF rdok /\ first.topo # "NULL" /\ ProjDiff(ln.mesh, first, cur.mode) # {}
              THEN LET diff == ProjDiff(ln.mesh, first, cur.mode)
                   IN {B("C04.EncodingsAgree", diff,
                         {IF wf /\ exact /\ RawAttr(MeshOf(first), f, n) /\ GoodAttr(res, d, n) THEN RawCls ELSE "-" : n \in diff})}
              ELSE {})

(***************************************************************************)
(* C08: one encoding of a third-party file                                 *)
(***************************************************************************)
SameContent(f, s) ==      \* the reference parser found in the bytes what the reference encoder was given
    /\ f.vprops = s.vprops /\ f.nv = s.nv /\ f.vrecs = s.vrecs
    /\ f.face = s.face /\ f.nf = s.nf /\ f.flists = s.flists /\ f.frecs = s.frecs

FileBad(ln) ==
    LET s == cur.spec
        d == Denote(s, cur.mode, cur.D)
        res == MeshOf(ln.mesh)
        exact == cur.mode = "lat" => ln.mesh.exact
        mixed == MixedGroup(s)             \* documented as unsupported by the reader: a class of its own
    IN  (IF ~(ln.wr = "REF" /\ ln.file.ok /\ ln.file.fmt = ln.fmt /\ WellFormedFile(ln.file, cur.mode)
              /\ SameContent(ln.file, s) /\ (cur.mode = "lat" => ln.file.exact))
         THEN {B("Harness.Refenc", {}, {})} ELSE {})
        \cup (IF ln.rd # "OK" THEN {B("C08.Loads", {ln.rd}, IF mixed THEN {"mixed-type-group"} ELSE {})} ELSE {})
        \cup (IF ln.rd = "OK" /\ ~(exact /\ WellFormedMesh(res) /\ SameMesh(res, d, cur.mode))
              THEN LET diff == IF ~exact THEN {"inexact"} ELSE IF ~WellFormedMesh(res) THEN {"malformed"}
                               ELSE MeshDiff(res, d, cur.mode)
                   IN {B("C08.Denote", diff,
                         IF mixed THEN {"mixed-type-group"}
                         ELSE {IF exact /\ ln.fmt = "ascii" /\ RawAttr(res, s, n) THEN RawCls ELSE "-" : n \in diff})}
              ELSE {})

EncStep ==
    /\ l <= Len(Trace) /\ Trace[l].k = "enc"
    /\ LET ln == Trace[l] IN
       /\ IF cur.kind = "rt" THEN Report(ln, RtBad(ln))
          ELSE IF cur.kind = "file" THEN Report(ln, FileBad(ln))
          ELSE Report(ln, {[p |-> "Harness.NoCase", why |-> {}, cls |-> {}]})
       /\ first' = IF first.topo = "NULL" /\ ln.rd = "OK" THEN ln.mesh ELSE first
    /\ UNCHANGED cur
    /\ l' = l + 1

Next == CaseStep \/ EncStep
Spec == Init /\ [][Next]_vars

\* every line was consumed (one state per line plus the initial state)
TraceAccepted == TLCGet("stats").diameter - 1 = Len(Trace)
=============================================================================
