SPECIFICATION Spec
INVARIANTS Judge Stats
CHECK_DEADLOCK FALSE
