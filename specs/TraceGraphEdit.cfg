CONSTANTS Depth = 0 MaxNodes = 99 SaveOrder = "index"
CONSTANT Prelude <- PreludeEmpty
SPECIFICATION TSpec
POSTCONDITION TraceAccepted
CHECK_DEADLOCK FALSE
