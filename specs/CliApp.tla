------------------------------- MODULE CliApp -------------------------------
(***************************************************************************)
(* X08 - the command line of a polyform application (generator.App.Run,    *)
(* generator/cli) as a state machine over an abstract file system.         *)
(*                                                                         *)
(*   prog [graph-file] <command> [flags]                                   *)
(*                                                                         *)
(* PROGRAM  P = [steps, def, cur, flag, pn, hdr]                           *)
(*   steps  a GraphEdit prelude (C12 / X04 graph model: eight parameter    *)
(*          types, Concat / Fmt / Sum / Difference / Text nodes, array     *)
(*          inputs, producers): Graph(P) = ApplyAll(Empty, steps)          *)
(*   def    default value per node number (parameters; model integers)     *)
(*   cur    value set in the editor before the graph was saved (-1 none)   *)
(*   flag   CLI flag name per node number ("" = no CLI configuration)      *)
(*   pn     name of producer file b = pn[b], a sequence of path components *)
(*   hdr    name / version / description / author of the application       *)
(* The same program is run two ways: built in code (App{Files: ...}, only  *)
(* what the producers reach exists, values = defaults) or saved as a graph *)
(* document that an empty App loads from its first argument (all nodes,    *)
(* values = what the editor saved).                                        *)
(*                                                                         *)
(* INVOCATION  inv = [mode, gf, gfa, cmd, toks]; toks = the argument       *)
(* vector after the command as structured tokens (flag name, form -n=v /   *)
(* -n v / -n, one or two dashes, value as written + its model value;       *)
(* positional words; "--").  ParseFlags below IS the flag grammar.         *)
(*                                                                         *)
(* CONTRACT  Plan(P, F, inv, dh) for a file system of shape F: the class   *)
(* of the invocation (ok / reject / helpflag / uneval / clash), why, the   *)
(* files and directories an accepted invocation writes (with their         *)
(* content: Art of the X04 model under the flag-given values), and what    *)
(* goes to App.Out.  Everything else in the file system stays as it was; a *)
(* rejected invocation changes nothing.                                    *)
(*                                                                         *)
(* Artifacts are judged by VALUE with HttpEdit!Art (X04), so generate, zip *)
(* and the editor's GET /zip are held to one denotation.                   *)
(* int32 budget: node numbers < 100, values < 10: far below 2^31.          *)
(***************************************************************************)
EXTENDS Integers, Sequences, FiniteSets, TLC, Json, SequencesExt

HE == INSTANCE HttpEdit WITH Depth <- 1, Prelude <- <<>>, MaxNodes <- 99, SaveOrder <- "index", Pinned <- FALSE,
                             g <- 0, hist <- <<>>, snap <- 0, file <- 0

SeqSet(s) == {s[i] : i \in DOMAIN s}

(* ---------------- paths ----------------------------------------------------- *)
RECURSIVE Join(_)
Join(cs) == IF cs = <<>> THEN "" ELSE IF Len(cs) = 1 THEN cs[1] ELSE cs[1] \o "/" \o Join(Tail(cs))
DirsAbove(cs) == {SubSeq(cs, 1, k) : k \in 1..(Len(cs) - 1)}        \* proper and non-empty

\* --folder arguments: as written ("@SB@" = the sandbox directory) and where that is, relative to the sandbox
Folders == <<
    [arg |-> "out", norm |-> <<"out">>],
    [arg |-> "./deep/er//out2/", norm |-> <<"deep", "er", "out2">>],
    [arg |-> "@SB@/absout", norm |-> <<"absout">>],
    [arg |-> ".", norm |-> <<>>],
    [arg |-> "exist", norm |-> <<"exist">>],                      \* a directory that exists and holds another file
    [arg |-> "afile", norm |-> <<"afile">>],                      \* a regular file
    [arg |-> "afile/sub", norm |-> <<"afile", "sub">>],           \* below a regular file
    [arg |-> "with blank", norm |-> <<"with blank">>],
    [arg |-> "", norm |-> <<>>] >>
\* --out arguments
OutFiles == <<
    [arg |-> "o.out", norm |-> <<"o.out">>],
    [arg |-> "exist/o2.out", norm |-> <<"exist", "o2.out">>],
    [arg |-> "@SB@/abs.out", norm |-> <<"abs.out">>],
    [arg |-> "missing/o.out", norm |-> <<"missing", "o.out">>],   \* the folder does not exist
    [arg |-> "exist", norm |-> <<"exist">>],                      \* a directory
    [arg |-> "afile", norm |-> <<"afile">>],                      \* an existing file: replaced
    [arg |-> "n1.json", norm |-> <<"n1.json">>],
    [arg |-> "./exist/../n2.json", norm |-> <<"n2.json">>],
    [arg |-> "", norm |-> <<>>] >>                                \* empty: as if not given
\* graph-file arguments the generator uses: name -> [arg, status]
GraphArgs == [graph |-> "g.json", missing |-> "nofile.json", dir |-> "exist", garbage |-> "garbage.json"]

\* the initial sandbox
Fixture == <<[p |-> "exist", k |-> "d", c |-> ""], [p |-> "exist/stale.txt", k |-> "f", c |-> "stale"],
             [p |-> "afile", k |-> "f", c |-> "i am a file"], [p |-> "garbage.json", k |-> "f", c |-> "{\"nodes\": [1, 2"],
             [p |-> "g.json", k |-> "g", c |-> ""]>>
Shape0 == [dirs |-> {"exist"}, files |-> {"exist/stale.txt", "afile", "garbage.json", "g.json"}]

(* ---------------- programs -------------------------------------------------- *)
Graph(P) == HE!ApplyAll(HE!Empty, P.steps)
NoHdr == [name |-> "", ver |-> "", desc |-> "", auth |-> ""]

Cone(gr) == HE!Reach(gr, {q[2] : q \in gr.prod}, Cardinality(gr.ids))     \* the producers and what they depend on
RestrictTo(gr, S) ==
    [ids |-> S, type |-> [n \in S |-> gr.type[n]], name |-> [n \in S |-> gr.name[n]], desc |-> [n \in S |-> gr.desc[n]],
     val |-> [n \in S |-> gr.val[n]], single |-> [n \in S |-> gr.single[n]], arr |-> [n \in S |-> gr.arr[n]],
     prod |-> gr.prod, meta |-> {}]

\* the application an invocation runs on: its graph (val = the values before any flag) and its header.
\* dh = header of the document the first argument names when that is a document written by `new`
View(P, full, inv, dh) ==
    LET saved == [full EXCEPT !.val = [n \in full.ids |-> IF P.cur[n + 1] >= 0 THEN P.cur[n + 1] ELSE P.def[n + 1]]]
        coded == RestrictTo([full EXCEPT !.val = [n \in full.ids |-> P.def[n + 1]]], Cone(full))
    IN CASE inv.gf = "graph" -> [gr |-> saved, hdr |-> P.hdr]
         [] inv.gf = "newdoc" -> [gr |-> HE!Empty, hdr |-> dh]
         [] inv.gf = "none" /\ inv.mode = "code" -> [gr |-> coded, hdr |-> P.hdr]
         [] OTHER -> [gr |-> HE!Empty, hdr |-> NoHdr]

(* ---------------- flags ------------------------------------------------------ *)
Commands == {"new", "generate", "gen", "outline", "zip", "z", "mermaid", "swagger", "help", "h"}   \* ("edit" serves: not run)
Canon(cmd) == CASE cmd = "gen" -> "generate" [] cmd = "z" -> "zip" [] cmd \in {"h", ""} -> "help" [] OTHER -> cmd
CmdFlags(c) ==
    CASE c = "generate" -> {"folder"}
      [] c \in {"zip", "mermaid", "swagger"} -> {"out"}
      [] c = "new" -> {"name", "version", "description", "author", "out"}
      [] OTHER -> {}
ParsesFlags(c) == c # "help"

\* parameters the command line can set: those a producer depends on and that carry a CLI name
ParamFlagNodes(P, gr) == {n \in Cone(gr) : HE!IsParam(gr.type[n]) /\ P.flag[n + 1] # ""}
ParamFlagNames(P, gr) == {P.flag[n + 1] : n \in ParamFlagNodes(P, gr)}
NodeOfFlag(P, gr, nm) == CHOOSE n \in ParamFlagNodes(P, gr) : P.flag[n + 1] = nm
\* parameters with a CLI name that no producer depends on: whether their flag exists is left open
LooseFlagNames(P, gr) == {P.flag[n + 1] : n \in {m \in gr.ids \ Cone(gr) : HE!IsParam(gr.type[m]) /\ P.flag[m + 1] # ""}}
Clash(P, gr, c) ==
    \/ \E n1, n2 \in ParamFlagNodes(P, gr) : n1 # n2 /\ P.flag[n1 + 1] = P.flag[n2 + 1]
    \/ ParamFlagNames(P, gr) \cap CmdFlags(c) # {}
\* flag name -> kind: 1 string, 2 float, 3 int, 4 bool (the parameter types that have a CLI form)
KindOf(P, gr, c) ==
    [nm \in ParamFlagNames(P, gr) \cup CmdFlags(c) |-> IF nm \in CmdFlags(c) THEN 1 ELSE gr.type[NodeOfFlag(P, gr, nm)]]

\* The flag grammar (Go's flag package, which the commands use): tokens are consumed left to right; -n=v and -n v
\* set n (a later occurrence wins); a bool flag never takes the next word (-b v sets b and leaves v as a positional
\* word); a name that is not defined, a value that does not parse and a missing value end the parse with an error;
\* -h / -help (unless defined) ask for the usage text; the first positional word or "--" ends flag parsing -
\* words left over are not understood by any command.
RECURSIVE ParseFlags(_, _, _, _)
ParseFlags(kinds, toks, i, acc) ==
    IF i > Len(toks) THEN [st |-> "ok", why |-> "ok", asg |-> acc]
    ELSE LET t == toks[i] IN
      IF t.k = "end" THEN (IF i < Len(toks) THEN [st |-> "stray", why |-> "stray-argument", asg |-> acc]
                           ELSE [st |-> "ok", why |-> "ok", asg |-> acc])
      ELSE IF t.k = "pos" THEN [st |-> "stray", why |-> "stray-argument", asg |-> acc]
      ELSE IF t.n \notin DOMAIN kinds THEN
             (IF t.n \in {"h", "help"} THEN [st |-> "help", why |-> "help-flag", asg |-> acc]
              ELSE [st |-> "bad", why |-> "unknown-flag", asg |-> acc])
      ELSE LET kd == kinds[t.n]
               set(v) == [x \in DOMAIN acc \cup {t.n} |-> IF x = t.n THEN v ELSE acc[x]]
           IN IF kd = 4 THEN
                CASE t.form = "bare" -> ParseFlags(kinds, toks, i + 1, set(1))
                  [] t.form = "eq" -> IF t.vi \in {0, 1} THEN ParseFlags(kinds, toks, i + 1, set(t.vi))
                                      ELSE [st |-> "bad", why |-> "bad-value", asg |-> acc]
                  [] OTHER -> [st |-> "stray", why |-> "stray-argument", asg |-> set(1)]
              ELSE
                CASE t.form = "bare" -> IF i = Len(toks) THEN [st |-> "bad", why |-> "missing-value", asg |-> acc]
                                        ELSE [st |-> "unmodelled", why |-> "unmodelled", asg |-> acc]
                  [] kd \in {2, 3} /\ t.vi < 0 -> [st |-> "bad", why |-> "bad-value", asg |-> acc]
                  [] OTHER -> ParseFlags(kinds, toks, i + 1, set(t.vi))

\* values after the flags: the graph with val = flag value where a flag was given
WithFlags(P, gr, asg) ==
    [gr EXCEPT !.val = [n \in gr.ids |->
        IF n \in ParamFlagNodes(P, gr) /\ P.flag[n + 1] \in DOMAIN asg THEN asg[P.flag[n + 1]] ELSE gr.val[n]]]

\* how a model value is written on the command line
ValStr(kd, v) ==
    CASE kd = 1 -> HE!StrOfParam(v)
      [] kd = 2 -> IF v < 0 THEN "1.5x" ELSE HE!HalfStr(3 * v)
      [] kd = 3 -> IF v < 0 THEN "seven" ELSE ToString(v)
      [] OTHER -> IF v = 1 THEN "true" ELSE IF v = 0 THEN "false" ELSE "maybe"
\* ... and in a request body of the editor's API
ValJson(kd, v) == IF kd = 1 THEN "\"" \o HE!StrOfParam(v) \o "\"" ELSE ValStr(kd, v)
NewVal(k) == IF k = 0 THEN "" ELSE "New App " \o ToString(k)

(* ---------------- what an accepted command delivers ------------------------- *)
ProdName(P, b) == Join(P.pn[b])
\* the artifacts: producer name (components) and text
Arts(P, grE) == {[cs |-> P.pn[q[1]], text |-> HE!Art(grE, q[2])] : q \in grE.prod}
Entries(P, grE) == {<<Join(a.cs), a.text>> : a \in Arts(P, grE)}
Evaluable(grE) == \A q \in grE.prod : HE!Evaluable(grE, q[2])

\* F = [dirs, files]: the shape of the file system.  A path can be written if nothing above it is a file, it is
\* not a directory itself and (for --out: commands do not make folders for it) its folder exists.
Blocked(F, cs) == (\E pr \in DirsAbove(cs) : Join(pr) \in F.files) \/ Join(cs) \in F.dirs
OutBlocked(F, cs) == Blocked(F, cs) \/ (Len(cs) > 1 /\ Join(SubSeq(cs, 1, Len(cs) - 1)) \notin F.dirs)

NoFile == [p |-> "", kind |-> "none", text |-> "", ents |-> {}]
\* Plan: class, why, files written [p, kind, text, ents], directories that must exist afterwards, kind of App.Out
\* (full = Graph(P), handed in so that it is computed once per history)
PlanG(P, full, F, inv, dh) ==
    LET c == Canon(inv.cmd)
        view == View(P, full, inv, dh)
        gr == view.gr
        rej(why) == [class |-> "reject", why |-> why, files |-> {}, dirs |-> {}, out |-> "none", grE |-> gr, hdr |-> view.hdr, asg |-> <<>>]
    IN
    IF inv.gf = "missing" THEN rej("missing-graph")
    ELSE IF inv.gf = "dir" THEN rej("graph-is-dir")
    ELSE IF inv.gf = "garbage" THEN rej("garbage-graph")
    ELSE IF inv.cmd # "" /\ inv.cmd \notin Commands THEN rej("unknown-command")
    ELSE IF ~ParsesFlags(c) THEN
        [class |-> "ok", why |-> "ok", files |-> {}, dirs |-> {}, out |-> "help", grE |-> gr, hdr |-> view.hdr, asg |-> <<>>]
    ELSE
    LET pfn == ParamFlagNodes(P, gr)            \* (= the operators of the flags section, computed once)
        names == {P.flag[n + 1] : n \in pfn}
        clash == (\E n1, n2 \in pfn : n1 # n2 /\ P.flag[n1 + 1] = P.flag[n2 + 1]) \/ names \cap CmdFlags(c) # {}
        kinds == [nm \in names \cup CmdFlags(c) |->
                     IF nm \in CmdFlags(c) THEN 1 ELSE gr.type[CHOOSE n \in pfn : P.flag[n + 1] = nm]]
    IN
    IF clash THEN [rej("flag-clash") EXCEPT !.class = "clash"]
    ELSE
    LET ps == ParseFlags(kinds, inv.toks, 1, <<>>)
        grE == [gr EXCEPT !.val = [n \in gr.ids |->
                    IF n \in pfn /\ P.flag[n + 1] \in DOMAIN ps.asg THEN ps.asg[P.flag[n + 1]] ELSE gr.val[n]]]
        base == [class |-> "ok", why |-> "ok", files |-> {}, dirs |-> {}, out |-> "none", grE |-> grE, hdr |-> view.hdr, asg |-> ps.asg]
        outcs == IF "out" \in DOMAIN ps.asg THEN OutFiles[ps.asg["out"]].norm ELSE <<>>
        \* commands that write one document: to --out if given, else to App.Out
        one(kind, text, ents) ==
            IF outcs = <<>> THEN [base EXCEPT !.out = kind]
            ELSE IF OutBlocked(F, outcs) THEN rej("blocked-target")
            ELSE [base EXCEPT !.files = {[p |-> Join(outcs), kind |-> kind, text |-> text, ents |-> ents]}]
    IN
    IF ps.st = "unmodelled" THEN [rej("unmodelled") EXCEPT !.class = "unmodelled"]
    ELSE IF ps.st = "bad" THEN rej(ps.why)
    ELSE IF ps.st = "help" THEN [rej("help-flag") EXCEPT !.class = "helpflag"]
    ELSE IF ps.st = "stray" THEN rej("stray-argument")
    ELSE
    CASE c = "generate" ->
            LET fcs == IF "folder" \in DOMAIN ps.asg THEN Folders[ps.asg["folder"]].norm ELSE <<>>
                tg == {[cs |-> fcs \o a.cs, text |-> a.text] : a \in Arts(P, grE)}
            IN IF \E t \in tg : Blocked(F, t.cs) THEN rej("blocked-target")
               ELSE IF ~Evaluable(grE) THEN [rej("unevaluable-producer") EXCEPT !.class = "uneval"]
               ELSE [base EXCEPT !.files = {[p |-> Join(t.cs), kind |-> "text", text |-> t.text, ents |-> {}] : t \in tg},
                                 !.dirs = UNION {{Join(pr) : pr \in DirsAbove(t.cs)} : t \in tg}]
      [] c = "zip" ->
            IF outcs # <<>> /\ OutBlocked(F, outcs) THEN rej("blocked-target")
            ELSE IF ~Evaluable(grE) THEN [rej("unevaluable-producer") EXCEPT !.class = "uneval"]
            ELSE one("zip", "", Entries(P, grE))
      [] c = "new" -> one("new", "", {})
      [] c = "outline" -> [base EXCEPT !.out = "outline"]
      [] OTHER -> one(c, "", {})          \* mermaid, swagger
Plan(P, F, inv, dh) == PlanG(P, Graph(P), F, inv, dh)

\* the shape of the file system after an accepted invocation (generator side)
ShapeAfter(F, pl) ==
    IF pl.class # "ok" THEN F
    ELSE [dirs |-> F.dirs \cup pl.dirs, files |-> F.files \cup {f.p : f \in pl.files}]

(* ---------------- what the documents must show ------------------------------- *)
NameStr(k) == IF k = 0 THEN "" ELSE "nm" \o ToString(k)
NDeps(gr, n) == Cardinality({p \in 1..4 : gr.single[n][p] # 0 - 1}) + Len(gr.arr[n])
BagOfSeq(s) == [x \in SeqSet(s) |-> Cardinality({i \in DOMAIN s : s[i] = x})]
BagOver(S, f(_)) == [x \in {f(n) : n \in S} |-> Cardinality({n \in S : f(n) = x})]
ParamNodes(gr) == {n \in gr.ids : HE!IsParam(gr.type[n])}
Shown(t, v) == IF t <= 4 THEN v ELSE 0          \* values of the other parameter types are not projected

\* outline: exactly the producers, every parameter with default and current value, exactly the node types in
\* use (each once), every node with its number of inputs.  gr0 = before the flags (defaults), grE = after
OutlineOK(P, gr0def, grE, d) ==
    /\ d.kind = "outline"
    /\ SeqSet(d.prods) = {[name |-> ProdName(P, q[1]), t |-> grE.type[q[2]]] : q \in grE.prod}
    /\ Len(d.prods) = Cardinality(grE.prod)
    /\ LET row(n) == [t |-> grE.type[n], name |-> NameStr(grE.name[n]), def |-> Shown(grE.type[n], gr0def[n]),
                      cur |-> Shown(grE.type[n], grE.val[n])]
       IN BagOfSeq(d.params) = BagOver(ParamNodes(grE), row)
    /\ SeqSet(d.types) = {grE.type[n] : n \in grE.ids} /\ Len(d.types) = Cardinality({grE.type[n] : n \in grE.ids})
    /\ LET deg(n) == [t |-> grE.type[n], n |-> NDeps(grE, n)] IN BagOfSeq(d.nodes) = BagOver(grE.ids, deg)

\* names a reader must find: every producer, every named parameter a producer depends on
NamedParams(gr, S) == {NameStr(gr.name[n]) : n \in {m \in S : HE!IsParam(gr.type[m]) /\ gr.name[m] # 0}}
MermaidOK(P, grE, hdr, d) ==
    /\ d.kind = "mermaid" /\ d.name = hdr.name
    /\ {ProdName(P, q[1]) : q \in grE.prod} \cup NamedParams(grE, grE.ids) \subseteq SeqSet(d.labels)
SwaggerOK(P, grE, hdr, d) ==
    /\ d.kind = "swagger" /\ d.name = hdr.name /\ d.ver = hdr.ver /\ d.desc = hdr.desc
    /\ SeqSet(d.paths) = {"/producer/value/" \o ProdName(P, q[1]) : q \in grE.prod}
    /\ NamedParams(grE, Cone(grE)) \subseteq {d.props[i].prop : i \in DOMAIN d.props}
HelpOK(hdr, d) ==
    /\ d.kind = "help" /\ d.name = hdr.name /\ d.ver = (IF hdr.ver = "" THEN "(no version)" ELSE hdr.ver)
    /\ d.desc = hdr.desc /\ d.auth = hdr.auth
    /\ Commands \subseteq SeqSet(d.aliases)
\* new: the header given by the flags (defaults: name Graph, version v0.0.1), in a document the loader reads
NewHdr(asg) == [name |-> IF "name" \in DOMAIN asg THEN NewVal(asg["name"]) ELSE "Graph",
                ver |-> IF "version" \in DOMAIN asg THEN NewVal(asg["version"]) ELSE "v0.0.1",
                desc |-> IF "description" \in DOMAIN asg THEN NewVal(asg["description"]) ELSE "",
                auth |-> IF "author" \in DOMAIN asg THEN NewVal(asg["author"]) ELSE ""]
DocHdr(d) == [name |-> d.name, ver |-> d.ver, desc |-> d.desc, auth |-> d.auth]
NewOK(asg, d) == d.kind \in {"newdoc", "graphdoc"} /\ DocHdr(d) = NewHdr(asg)
ZipOK(ents, d) ==
    /\ d.kind = "zip" /\ d.zdup = 0 /\ Len(d.z) = Cardinality(ents)
    /\ {<<d.z[i].name, d.z[i].text>> : i \in DOMAIN d.z} = ents /\ \A i \in DOMAIN d.z : d.z[i].tx

DocOK(kind, P, gr0def, pl, d) ==
    CASE kind = "zip" -> ZipOK(Entries(P, pl.grE), d)
      [] kind = "outline" -> OutlineOK(P, gr0def, pl.grE, d)
      [] kind = "mermaid" -> MermaidOK(P, pl.grE, pl.hdr, d)
      [] kind = "swagger" -> SwaggerOK(P, pl.grE, pl.hdr, d)
      [] kind = "help" -> HelpOK(pl.hdr, d)
      [] kind = "new" -> NewOK(pl.asg, d)
      [] kind = "none" -> d.kind = "empty"
      [] OTHER -> FALSE
=============================================================================
