----------------------------- MODULE TraceSurf -----------------------------
(***************************************************************************)
(* Trace validation for the surface family (C09, C18).                     *)
(* trace.ndjson lines (written by `vh surf-exec`, which only executes real *)
(* polyform code and projects the result to integers):                     *)
(*   {"k":"reset"}                          cuts chains / shards           *)
(*   {"k":"grid", "case":scene, res, exact, tris, pos}                     *)
(*        a MarchGrid scene replayed into a real MarchingCanvas; pos in    *)
(*        units of 1/24 cell (world position * cpu * 24)                   *)
(*   {"k":"shape","case":shapes.., res, tris, pos, fd}                     *)
(*        union of marching.Sphere/Box/Line marched at case.cpu and        *)
(*        case.cut/1000; pos relative to case.org in 1/case.scale units,   *)
(*        fd[v] = (true union field at vertex v - threshold) * 1000,       *)
(*        off[v] = offset of vertex v from the nearest lattice point in    *)
(*        1e-5 cells                                                       *)
(*   {"k":"prim", "case":tuple, res, exact, tris, pos, cls, nrm}           *)
(*        one solid primitive; pos * case.scale, cls = position class of   *)
(*        every vertex (coincident positions merged at 1e-6), nrm = vertex *)
(*        normal * 256 (empty when the mesh has none).  These fields are   *)
(*        the observation made when the constructor returned.  `alt` holds *)
(*        every FURTHER observation of the same case that differs from it  *)
(*        (equal ones are not repeated, they would be judged the same):    *)
(*        why = "kept": the mesh value the caller still holds, projected   *)
(*        again after `after` later constructor calls of the same history; *)
(*        why = "conc": a result of the same call made while other         *)
(*        goroutines were constructing primitives (`peers` such calls).    *)
(*        Every observation must be the solid of the case's parameters.    *)
(* tris are 0-based vertex numbers of the returned mesh.                   *)
(*                                                                         *)
(* Every judgement is made here.  C09 is judged on the mesh's own vertex   *)
(* numbers (the final weld is part of the mechanism under test); C18 on    *)
(* position classes ("once coincident positions are merged").  A rejected  *)
(* line is printed as JSON {"l","bad",..}; lines are independent except    *)
(* for the resolution-doubling chains of C18 (state `prev`).  `cnt` counts *)
(* how often each predicate really had something to judge (vacuity guard,  *)
(* printed with the last line).                                            *)
(***************************************************************************)
EXTENDS MarchRef, Solids, TLC, Json

Trace == ndJsonDeserialize("trace.ndjson")

VARIABLES l, prev, cnt
vars == <<l, prev, cnt>>

NoPrev == [on |-> FALSE, case |-> [prim |-> "none"], deficit |-> <<>>]
Zero == [grid |-> 0, gridtris |-> 0, shape |-> 0, shapetris |-> 0, shapeverts |-> 0, prim |-> 0, skipped |-> 0,
         normals |-> 0, halves |-> 0, fine |-> 0, kept |-> 0, conc |-> 0, alts |-> 0, near |-> 0]

Init == l = 1 /\ prev = NoPrev /\ cnt = Zero

(* ------------------------- common ------------------------------------- *)
IndexOK(ln) ==
    \A i \in DOMAIN ln.tris :
        Len(ln.tris[i]) = 3 /\ \A j \in 1..3 : ln.tris[i][j] >= 0 /\ ln.tris[i][j] < Len(ln.pos)
UsedVerts(T) == {T[i][j] : i \in DOMAIN T, j \in 1..3}
Some(S) == IF S = {} THEN <<>> ELSE <<CHOOSE e \in S : TRUE>>

Topology(prop, T) ==
    (IF Oriented(T) THEN {} ELSE {prop \o ".Oriented"})
    \cup (IF Paired(T) THEN {} ELSE {prop \o ".Closed"})
    \cup (IF NoDegenerate(T) THEN {} ELSE {prop \o ".NoDegenerate"})

(* ------------------------- C09: lattice scenes ------------------------ *)
GridBad(ln) ==
    LET c == ln.case
        T == ln.tris
    IN IF ~FieldOK(c.samples, c.dflt, c.cut) THEN {"Harness.Case"}
       ELSE IF ln.res # "OK" THEN {"C09.Completes"}
       ELSE IF ~IndexOK(ln) THEN {"C09.WellFormed"}
       ELSE LET G == Geo(T, ln.pos)
                inside == InsidePts(c.samples, c.cut)
                ref == Ref(c.samples, c.dflt, c.cut)
            IN Topology("C09", T)
               \* a vertex outside the int32 budget is far outside every generated scene
               \cup (IF ~GeoInBudget(G) THEN {"C09.WithinCell"}
                     ELSE (IF T = <<>> \/ VolPositive(G) THEN {} ELSE {"C09.Outward"})
                          \cup (IF \A v \in UsedVerts(T) : OnCrossingEdge(inside, ln.pos[v + 1])
                                THEN {} ELSE {"C09.WithinCell"})
                          \* reference semantics: exactly the triangles of marching cubes with the
                          \* code's own table and linear interpolation, as a set modulo rotation
                          \cup (IF ln.exact /\ Len(T) = Cardinality(ref) /\ CanonSet(G) = ref
                                THEN {} ELSE {"C09.Ref"}))

(* ------------------------- C09: analytic shapes ----------------------- *)
MaxStrength(c) == LET S == {c.shapes[i].s : i \in DOMAIN c.shapes} IN CHOOSE s \in S : \A t \in S : t <= s
\* |f(v) - threshold| <= sqrt(3) * strength * cell, in 1/1000 units (1733/1000 > sqrt 3;
\* one unit of rounding of fd goes to the code's favour)
WithinCell(c, fd) == (AbsI(fd) - 1) * c.cpu * 1000 <= 1733 * MaxStrength(c)
ShapeBad(ln) ==
    LET c == ln.case
        T == ln.tris
    IN IF ln.res # "OK" THEN {"C09.Completes"}
       ELSE IF ~IndexOK(ln) \/ Len(ln.fd) # Len(ln.pos) \/ Len(ln.off) # Len(ln.pos) THEN {"C09.WellFormed"}
       ELSE LET G == Geo(T, ln.pos)
            IN Topology("C09", T)
               \* the case's scale maps twice the shapes' bounding box into the budget:
               \* a vertex outside it is farther from the isosurface than the shapes are wide
               \cup (IF ~GeoInBudget(G) THEN {"C09.WithinCell"}
                     ELSE IF T = <<>> \/ VolPositive(G) THEN {} ELSE {"C09.Outward"})
               \cup (IF \A v \in UsedVerts(T) : WithinCell(c, ln.fd[v + 1]) THEN {} ELSE {"C09.WithinCell"})

(***************************************************************************)
(* Classification of a rejected shape line (for the signature only, never  *)
(* for the verdict).  The marcher identifies surface vertices by their     *)
(* position rounded to 1e-4 cell (LookupOrAdd inside a block, the final    *)
(* weld across blocks).  Two different vertices closer than that to one    *)
(* lattice point are merged; if they lie on opposite sides of it the       *)
(* surface is pinched and a directed edge is used twice.  A line is        *)
(* classified "vertex-merge" when this is the whole story: pairing still   *)
(* holds and every doubly used directed edge has an end point within 1e-4  *)
(* cell of a lattice point (ln.off is in 1e-5 cells).  Anything else       *)
(* (flipped faces, merges farther from the lattice - the old world-unit    *)
(* weld -, holes) keeps the ordinary signature.                            *)
(***************************************************************************)
DoubleEdges(T) ==
    LET E == DirEdges(T)
        \* TLC enumerates a normalised set in sorted order, so equal edges are neighbours;
        \* `complete` re-checks that by counting, independently of the enumeration order
        s == SetToSeq({<<E[i][1], E[i][2], i>> : i \in DOMAIN E})
        adj == {i \in 1..(Len(s) - 1) : s[i][1] = s[i + 1][1] /\ s[i][2] = s[i + 1][2]}
    IN [edges |-> {<<s[i][1], s[i][2]>> : i \in adj},
        complete |-> Cardinality(EdgeSet(T)) + Cardinality(adj) = Len(E)]
AtLatticePoint(off) == \A j \in 1..3 : AbsI(off[j]) <= 10
ShapeClass(ln, bad) ==
    IF bad # {"C09.Oriented"} THEN "none"
    ELSE LET d == DoubleEdges(ln.tris)
         IN IF d.complete /\ d.edges # {}
               /\ \A e \in d.edges : AtLatticePoint(ln.off[e[1] + 1]) \/ AtLatticePoint(ln.off[e[2] + 1])
            THEN "vertex-merge" ELSE "none"

(* ------------------------- C18: primitives ---------------------------- *)
\* positions of the classes, classes being numbered in order of first appearance
\* One representative vertex per class through TLC's sorted sets (n log n; a fold appending to a sequence
\* is quadratic and takes a minute for the 100 000 vertices of a fine unwelded sphere).  TLC enumerates a
\* normalised set in sorted order, so the first pair of every run of <<class, vertex>> pairs is the class'
\* first vertex and the representatives come out in class order; ClassesSound does not rely on that: it
\* checks that representative k is of class k-1 and that EVERY vertex agrees with its class' position.
ClassReps(ln) ==
    LET s == SetToSeq({<<ln.cls[v], v>> : v \in DOMAIN ln.cls})
        firsts == {i \in DOMAIN s : i = 1 \/ s[i - 1][1] # s[i][1]}
    IN SetToSeq({s[i] : i \in firsts})
ClassPos(ln) == LET r == ClassReps(ln) IN [k \in DOMAIN r |-> ln.pos[r[k][2]]]
ClassesSound(ln, cpos) ==
    /\ Len(ln.cls) = Len(ln.pos)
    /\ LET r == ClassReps(ln) IN \A k \in DOMAIN r : r[k][1] = k - 1
    /\ \A v \in DOMAIN ln.cls :
          /\ ln.cls[v] >= 0 /\ ln.cls[v] < Len(cpos)
          /\ \A j \in 1..3 : AbsI(ln.pos[v][j] - cpos[ln.cls[v] + 1][j]) <= 1

PrimJudge(ln, pv) ==
    LET c == ln.case
        T == ln.tris
        none == [bad |-> {}, judged |-> FALSE, normals |-> FALSE, halves |-> FALSE, fine |-> FALSE,
                 deficit |-> <<>>, v6 |-> <<>>]
    IN IF ~Admissible(c) THEN none
       ELSE IF ~ScaleOK(c) THEN [none EXCEPT !.bad = {"Harness.Scale"}]
       ELSE IF ln.res # "OK" THEN [none EXCEPT !.bad = {"C18.Accepts"}]
       ELSE IF ~IndexOK(ln) \/ T = <<>> THEN [none EXCEPT !.bad = {"C18.WellFormed"}]
       ELSE
         LET cpos == ClassPos(ln)
         IN IF ~ClassesSound(ln, cpos) THEN [none EXCEPT !.bad = {"Harness.Classes"}]
            ELSE
              LET TC == [i \in DOMAIN T |-> <<ln.cls[T[i][1] + 1], ln.cls[T[i][2] + 1], ln.cls[T[i][3] + 1]>>]
                  G == Geo(TC, cpos)
                  budget == GeoInBudget(G)
                  outward == budget /\ VolPositive(G)
                  v6 == IF outward THEN Vol6Nat(G) ELSE <<>>
                  withN == HasClaimedNormals(c.prim) /\ Len(ln.nrm) = Len(ln.pos)
                  chained == c.chain > 1
                  linked == chained /\ pv.on /\ IsDoubling(pv.case, c)
              IN [bad |->
                    Topology("C18", TC)
                    \cup (IF outward \/ ~budget THEN {} ELSE {"C18.Outward"})
                    \* the scale maps the primitive's own extent to at most CoordMax: a position
                    \* outside the budget is off the surface (and must not reach the arithmetic)
                    \cup (IF budget /\ (c.prim \in Cubes => ln.exact)
                             /\ \A k \in UsedVerts(TC) : OnSurface(c, cpos[k + 1])
                          THEN {} ELSE {"C18.OnSurface"})
                    \cup (IF ~outward \/ VolumeMatches(c, v6) THEN {} ELSE {"C18.Volume"})
                    \cup (IF ~withN \/ ~budget
                             \/ \A i \in DOMAIN T : \A j \in 1..3 : NormalSide(G[i], ln.nrm[T[i][j] + 1])
                          THEN {} ELSE {"C18.NormalSide"})
                    \cup (IF chained /\ ~linked THEN {"Harness.Chain"} ELSE {})
                    \cup (IF ~outward \/ ~linked \/ Halves(pv.deficit, c, v6) THEN {} ELSE {"C18.Converges"})
                    \cup (IF ~outward \/ CloseWhenFine(c, v6) THEN {} ELSE {"C18.Converges"}),
                  judged |-> TRUE, normals |-> withN, halves |-> outward /\ linked,
                  fine |-> outward /\ Counts(c)[1] >= 32 /\ Counts(c)[2] >= 32,
                  deficit |-> IF outward THEN Deficit(c, v6) ELSE <<>>, v6 |-> v6]

\* a further observation of the same case, as a line of its own
AltLine(ln, a) == [ln EXCEPT !.res = a.res, !.exact = a.exact, !.tris = a.tris, !.pos = a.pos, !.cls = a.cls,
                             !.nrm = a.nrm]

(* ------------------------- actions ------------------------------------ *)
Report(bad, info) == IF bad = {} THEN TRUE ELSE PrintT(ToJson([l |-> l, bad |-> bad, info |-> info]))
AtEnd == IF l = Len(Trace) THEN PrintT(ToJson([stats |-> cnt'])) ELSE TRUE
B(x) == IF x THEN 1 ELSE 0

Reset ==
    /\ l <= Len(Trace) /\ Trace[l].k = "reset"
    /\ prev' = NoPrev /\ cnt' = cnt /\ AtEnd
    /\ l' = l + 1

Grid ==
    /\ l <= Len(Trace) /\ Trace[l].k = "grid"
    /\ LET ln == Trace[l]
           bad == GridBad(ln)
       IN /\ Report(bad, [unpaired |-> Some(Unpaired(ln.tris)), res |-> ln.res])
          /\ cnt' = [cnt EXCEPT !.grid = @ + 1, !.gridtris = @ + Len(ln.tris)]
    /\ prev' = prev /\ AtEnd
    /\ l' = l + 1

Shape ==
    /\ l <= Len(Trace) /\ Trace[l].k = "shape"
    /\ LET ln == Trace[l]
           bad == ShapeBad(ln)
       IN /\ Report(bad, [unpaired |-> Some(Unpaired(ln.tris)), res |-> ln.res, class |-> ShapeClass(ln, bad)])
          /\ cnt' = [cnt EXCEPT !.shape = @ + 1, !.shapetris = @ + Len(ln.tris),
                                !.shapeverts = @ + Cardinality(UsedVerts(ln.tris)),
                                \* vertices of grazing scenes within 1e-4 cell of a lattice point
                                \* (what those scenes are generated for; vacuity guard)
                                !.near = @ + (IF ln.case.flavour = "graze" /\ ln.res = "OK" /\ IndexOK(ln)
                                                 /\ Len(ln.off) = Len(ln.pos)
                                              THEN Cardinality({v \in UsedVerts(ln.tris) : AtLatticePoint(ln.off[v + 1])})
                                              ELSE 0)]
    /\ prev' = prev /\ AtEnd
    /\ l' = l + 1

Prim ==
    /\ l <= Len(Trace) /\ Trace[l].k = "prim"
    /\ LET ln == Trace[l]
           j == PrimJudge(ln, prev)
           \* the other observations of this case are judged by the same contract
           altbad == [i \in DOMAIN ln.alt |-> PrimJudge(AltLine(ln, ln.alt[i]), prev).bad]
           failing == {i \in DOMAIN ln.alt : altbad[i] # {}}
           allalt == UNION {altbad[i] : i \in failing}
           why == IF failing = {} THEN "" ELSE ln.alt[CHOOSE i \in failing : \A k \in failing : i <= k].why
       IN /\ Report(j.bad \cup allalt,
                    [v6 |-> j.v6, ref |-> Ref6V(ln.case), band |-> Band6(ln.case), res |-> ln.res,
                     \* predicates that only a later / concurrent observation violates, and which one
                     altonly |-> allalt \ j.bad, why |-> why, after |-> ln.after, peers |-> ln.peers])
          /\ prev' = IF ln.case.chain >= 1 /\ j.judged
                     THEN [on |-> TRUE, case |-> ln.case, deficit |-> j.deficit] ELSE prev
          /\ cnt' = [cnt EXCEPT !.prim = @ + B(j.judged), !.skipped = @ + B(~j.judged /\ j.bad = {}),
                                !.normals = @ + B(j.normals), !.halves = @ + B(j.halves), !.fine = @ + B(j.fine),
                                !.kept = @ + B(j.judged /\ ln.after > 0), !.conc = @ + B(j.judged /\ ln.peers > 0),
                                !.alts = @ + Len(ln.alt)]
    /\ AtEnd
    /\ l' = l + 1

Next == Reset \/ Grid \/ Shape \/ Prim
Spec == Init /\ [][Next]_vars

\* every line was consumed (one state per line plus the initial state)
TraceAccepted == TLCGet("stats").diameter - 1 = Len(Trace)
=============================================================================
