\* generator: sequences after which the hub AS FOUND has a ghost player, is gone in a panic or holds an unrepresentable state
CONSTANTS NC = 2 Cap = 1 Depth = 6 Variant = "pinned" Alphabet = {1, 3, 4, 6, 7, 8, 9}
SPECIFICATION Spec
INVARIANTS EmitPanic
CONSTRAINT StopPanic
VIEW View
CHECK_DEADLOCK FALSE
