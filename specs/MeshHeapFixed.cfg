CONSTANTS NSlots = 3 Depth = 5 Slack = 1 MaxArr = 10 CopyOnAppend = TRUE GoPolicy = FALSE MaxLen = 6 Acts = {"Share","Modify"}
SPECIFICATION Spec
INVARIANT Refines
CHECK_DEADLOCK FALSE
VIEW View
