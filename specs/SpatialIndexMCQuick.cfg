\* hand-runnable configuration of the design-level model (checks/c16.py writes its own per tier)
CONSTANTS
  Dim = 2
  MaxC = 1
  MaxNPoint = 3
  MaxNBox = 3
  MaxDepth = 2
  QStep = 1
  Variant = "code"
SPECIFICATION Spec
INVARIANTS SoundInv AgreeInv CoverInv AnswerInv
CHECK_DEADLOCK FALSE
