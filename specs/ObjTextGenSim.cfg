CONSTANTS
  Depth = 9
  MinFaces = 2
SPECIFICATION Spec
INVARIANTS ValidText ResaveDesign EmitLeaf
CHECK_DEADLOCK FALSE
