CONSTANTS Depth = 0 MaxNodes = 99 SaveOrder = "index" Pinned = FALSE
CONSTANT Prelude <- PreludeEmpty
SPECIFICATION TSpec
POSTCONDITION Report
CHECK_DEADLOCK FALSE
