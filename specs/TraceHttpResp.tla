--------------------------- MODULE TraceHttpResp ---------------------------
(***************************************************************************)
(* Judge of real response-phase histories (harness/httpfam/resp.go) against *)
(* the contract of HttpResp.tla:                                            *)
(*   upd(v)  -> 2xx; the parameter is v from its linearization point on     *)
(*   get(p)  -> 200, body = the artifact of producer p at the version of    *)
(*              the request's linearization point: exactly ONE run          *)
(*              [p, ver, 0, size[p]/16] (complete, unmixed), len = size[p]   *)
(*   zip     -> 200, entry of producer 1 then of producer 2, both whole and *)
(*              of the SAME version (one snapshot)                          *)
(* Per response (deterministic, evaluated over all lines in Report):        *)
(*   <P>.HttpWhole   the body is one whole artifact of the asked producer   *)
(*   <P>.HttpStatus  2xx                                                    *)
(*   <P>.HttpLength  a Content-Length header equals the bytes delivered     *)
(* Per history (search, pattern of TraceParamServer): <P>.HttpLinearizable  *)
(*   Lin(c) anywhere between c's invoke and response fixes the version the  *)
(*   answer must carry; the response line is consumable only with it.       *)
(* Lines: {"k":"reset","h","nc","size":[b1,b2],"init"}                      *)
(*        {"k":"inv","c","op","p","v"}  {"k":"resp","c","op","p","v","st",  *)
(*        "len","cl","runs":[{"p","v","i","n"}..]}   {"k":"hang"}           *)
(* Every field is present on every line (the harness writes a fixed record);*)
(* WellFormed is checked before any field is compared.  Needs -workers 1.   *)
(***************************************************************************)
EXTENDS Integers, Sequences, FiniteSets, TLC, Json

Trace == ndJsonDeserialize("trace.ndjson")
Rec == 16
NH == Cardinality({i \in DOMAIN Trace : Trace[i].k = "reset"})

VARIABLES l, pend, clean, hno, ver, size
tvars == <<l, pend, clean, hno, ver, size>>

NoPend == [op |-> "none", p |-> 0, v |-> 0, lin |-> FALSE, res |-> 0]
MaxC == 8
Line == Trace[l]

Fields == {"k", "h", "c", "op", "p", "v", "st", "len", "cl", "wr", "runs", "size", "nc", "init", "note"}
WellFormedLine(x) == /\ Fields \subseteq DOMAIN x
                     /\ x.k \in {"reset", "inv", "resp", "hang"}
                     /\ x.k = "reset" => Len(x.size) = 2
                     /\ x.k \in {"inv", "resp"} => x.c \in 1..MaxC /\ x.op \in {"upd", "get", "zip"}
                     /\ (x.k \in {"inv", "resp"} /\ x.op = "get") => x.p \in 1..2
                     /\ x.k = "resp" => \A i \in 1..Len(x.runs) : {"p", "v", "i", "n"} \subseteq DOMAIN x.runs[i]

\* ---- per response predicates -------------------------------------------------------------
WholeRun(r, p, sz) == r.p = p /\ r.i = 0 /\ r.n * Rec = sz
WholeRuns(x, sz) ==
    IF x.op = "get" THEN IF sz[x.p] = 0 THEN Len(x.runs) = 0
                         ELSE Len(x.runs) = 1 /\ WholeRun(x.runs[1], x.p, sz[x.p]) /\ x.len = sz[x.p]
    ELSE IF x.op = "zip" THEN /\ Len(x.runs) = 2 /\ WholeRun(x.runs[1], 1, sz[1]) /\ WholeRun(x.runs[2], 2, sz[2])
                              /\ x.runs[1].v = x.runs[2].v
    ELSE TRUE
\* what is wrong with a body that is not whole (discriminator of the signature)
Shape(x, sz) ==
    IF x.op = "zip" THEN (IF Len(x.runs) = 2 /\ \A i \in 1..2 : WholeRun(x.runs[i], i, sz[i]) THEN "two-versions" ELSE "entry-damaged")
    ELSE IF \E i \in 1..Len(x.runs) : x.runs[i].p # x.p /\ x.runs[i].p # 0 THEN "foreign-producer"
    ELSE IF Cardinality({x.runs[i].v : i \in {j \in 1..Len(x.runs) : x.runs[j].p # 0}}) > 1 THEN "two-versions"
    ELSE IF x.len < sz[x.p] THEN "truncated"
    ELSE IF x.len > sz[x.p] THEN "overlong"
    ELSE "reordered"
VerOf(x) == IF Len(x.runs) = 0 THEN 0 ELSE x.runs[1].v

SizeAt(i) == LET j == CHOOSE j \in 1..i : Trace[j].k = "reset" /\ \A m \in (j + 1)..i : Trace[m].k # "reset" IN Trace[j].size
HistAt(i) == Cardinality({j \in 1..i : Trace[j].k = "reset"})

LineBad(i) ==
    LET x == Trace[i] IN
    IF ~WellFormedLine(x) THEN {"IllFormed"}
    ELSE IF x.k # "resp" THEN {}
    ELSE (IF x.st >= 200 /\ x.st < 300 THEN {} ELSE {"HttpStatus"})
         \cup (IF x.cl = -1 \/ x.cl = x.len THEN {} ELSE {"HttpLength"})
         \cup (IF x.st >= 200 /\ x.st < 300 /\ ~WholeRuns(x, SizeAt(i)) THEN {"HttpWhole"} ELSE {})

\* ---- linearizability search --------------------------------------------------------------
TInit ==
    /\ l = 1 /\ pend = [c \in 1..MaxC |-> NoPend] /\ clean = TRUE /\ hno = 0 /\ ver = 1 /\ size = <<0, 0>>
    /\ \A h \in 1..NH : TLCSet(h, FALSE)

Mark == IF clean /\ hno > 0 THEN TLCSet(hno, TRUE) ELSE TRUE
Ok == l <= Len(Trace) /\ WellFormedLine(Line)

TReset ==
    /\ Ok /\ Line.k = "reset" /\ Mark
    /\ ver' = Line.init /\ size' = Line.size /\ pend' = [c \in 1..MaxC |-> NoPend]
    /\ clean' = TRUE /\ hno' = hno + 1 /\ l' = l + 1

TInv ==
    /\ Ok /\ Line.k = "inv" /\ pend[Line.c].op = "none"
    /\ pend' = [pend EXCEPT ![Line.c] = [op |-> Line.op, p |-> Line.p, v |-> Line.v, lin |-> FALSE, res |-> 0]]
    /\ UNCHANGED <<ver, size, clean, hno>> /\ l' = l + 1

Lin(c) ==
    /\ pend[c].op # "none" /\ ~pend[c].lin
    /\ IF pend[c].op = "upd"
       THEN ver' = pend[c].v /\ pend' = [pend EXCEPT ![c].lin = TRUE, ![c].res = pend[c].v]
       ELSE UNCHANGED ver /\ pend' = [pend EXCEPT ![c].lin = TRUE, ![c].res = ver]
    /\ UNCHANGED <<l, size, clean, hno>>

\* a response is explained by the linearization point if it carries that point's version; a response that is
\* not 2xx or not whole has no version to explain - it is reported by LineBad, the search goes on
TResp ==
    /\ Ok /\ Line.k = "resp" /\ pend[Line.c].lin
    /\ \/ Line.op = "upd"
       \/ ~(Line.st >= 200 /\ Line.st < 300 /\ WholeRuns(Line, size))
       \/ VerOf(Line) = pend[Line.c].res
    /\ pend' = [pend EXCEPT ![Line.c] = NoPend]
    /\ UNCHANGED <<ver, size, clean, hno>> /\ l' = l + 1

NextReset(i) == IF \E j \in i..Len(Trace) : Trace[j].k = "reset"
                THEN CHOOSE j \in i..Len(Trace) : Trace[j].k = "reset" /\ \A m \in i..(j - 1) : Trace[m].k # "reset"
                ELSE Len(Trace) + 1
Abandon ==
    /\ l <= Len(Trace) /\ (~WellFormedLine(Line) \/ Line.k # "reset") /\ clean
    /\ l' = NextReset(l) /\ clean' = FALSE
    /\ pend' = [c \in 1..MaxC |-> NoPend] /\ ver' = 1 /\ UNCHANGED <<hno, size>>

TEnd == l = Len(Trace) + 1 /\ Mark /\ UNCHANGED tvars

TNext == TReset \/ TInv \/ TResp \/ (\E c \in 1..MaxC : Lin(c)) \/ Abandon \/ TEnd
TSpec == TInit /\ [][TNext]_tvars

\* "hang" lines are never consumable: such a history is not passed
Report ==
    /\ \A i \in DOMAIN Trace :
          LET b == LineBad(i) IN
          b = {} \/ PrintT(ToJson([bad |-> b, l |-> i, h |-> HistAt(i),
                                   shape |-> IF "HttpWhole" \in b THEN Shape(Trace[i], SizeAt(i)) ELSE "-",
                                   op |-> IF b = {"IllFormed"} THEN "-" ELSE Trace[i].op]))
    /\ \A h \in 1..NH : TLCGet(h) \/ PrintT(ToJson([bad |-> {"HttpLinearizable"}, h |-> h, l |-> 0, shape |-> "-", op |-> "-"]))
=============================================================================
