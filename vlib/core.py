"""Shared orchestration helpers for the /verif checks (python3 stdlib only).

Responsibilities (DESIGN.md section 2):
  * rebuild the Go harness `vh` from /repo's *current working tree* (tag verif)
  * run TLC in a scratch directory (own -metadir, timeout, parsed statistics)
  * collect what TLC judged (JSON values printed by the specifications)
  * known-findings bookkeeping, VIOLATION / KNOWN-FINDING lines, evidence files

Exit codes: 0 property held on everything explored (possibly with KNOWN-FINDING
lines); 1 violation not listed in known_findings.jsonl; 2 infrastructure
failure (never a verdict).
"""
import fcntl
import json
import os
import re
import shutil
import subprocess
import sys
import time

VERIF = os.path.dirname(os.path.dirname(os.path.abspath(__file__)))
WORK = os.path.join(VERIF, ".work")
SPECS = os.path.join(VERIF, "specs")
HARNESS = os.path.join(VERIF, "harness")
REPO = os.environ.get("VERIF_REPO", "/repo")
REPLAYS = os.path.join(VERIF, "replays")
TLA_JAR = "/opt/veriftools/tla/tla2tools.jar"
TLA_CM = "/opt/veriftools/tla/CommunityModules-deps.jar"
NCPU = int(os.environ.get("VERIF_NCPU", "0") or 0) or os.cpu_count() or 4


class Infra(Exception):
    """Infrastructure failure: exit 2, never a violation."""


def goenv():
    env = dict(os.environ)
    env.update(GOFLAGS="-mod=mod", GOPROXY="off", GOSUMDB="off", GOTOOLCHAIN="local")
    return env


def log(*a):
    print(*a, file=sys.stderr, flush=True)


# --------------------------------------------------------------------------
# building the harness
# --------------------------------------------------------------------------

def build_vh(race=False):
    """(Re)build the harness binary against /repo's current working tree."""
    os.makedirs(os.path.join(WORK, "bin"), exist_ok=True)
    out = os.path.join(WORK, "bin", "vh-race" if race else "vh")
    lock = open(os.path.join(WORK, "build.lock"), "w")
    fcntl.flock(lock, fcntl.LOCK_EX)
    try:
        # harness module: replace polyform => REPO ; go.sum copied from the repo
        gomod = os.path.join(HARNESS, "go.mod")
        with open(gomod + ".in") as f:
            txt = f.read().replace("@REPO@", REPO)
        cur = open(gomod).read() if os.path.exists(gomod) else ""
        if cur != txt:
            with open(gomod, "w") as f:
                f.write(txt)
        shutil.copyfile(os.path.join(REPO, "go.sum"), os.path.join(HARNESS, "go.sum"))
        tmp = out + ".tmp.%d" % os.getpid()
        cmd = ["go", "build", "-tags", "verif", "-o", tmp]
        if race:
            cmd.insert(2, "-race")
        cmd.append("./cmd/vh")
        env = goenv()
        if race:
            env["CGO_ENABLED"] = "1"
        t0 = time.time()
        p = subprocess.run(cmd, cwd=HARNESS, env=env, stdout=subprocess.PIPE,
                           stderr=subprocess.STDOUT, text=True)
        if p.returncode != 0 and "is not in std" in p.stdout:
            # the Go build cache was cleaned under the running build (seen once): the toolchain itself is intact
            time.sleep(5)
            p = subprocess.run(cmd, cwd=HARNESS, env=env, stdout=subprocess.PIPE,
                               stderr=subprocess.STDOUT, text=True)
        if p.returncode != 0:
            # A tree that does not compile is not something a property check can judge.
            raise Infra("harness build failed:\n" + p.stdout[-4000:])
        os.replace(tmp, out)
        log("[build] %s in %.1fs" % (os.path.basename(out), time.time() - t0))
    finally:
        fcntl.flock(lock, fcntl.LOCK_UN)
        lock.close()
    return out


def run_vh(binary, args, *, stdin=None, timeout=600, env_extra=None, check=True):
    env = goenv()
    if env_extra:
        env.update(env_extra)
    try:
        p = subprocess.run([binary] + args, input=stdin, stdout=subprocess.PIPE,
                           stderr=subprocess.PIPE, text=True, timeout=timeout, env=env)
    except subprocess.TimeoutExpired:
        raise Infra("vh %s timed out after %ss" % (" ".join(args[:3]), timeout))
    if check and p.returncode != 0:
        raise Infra("vh %s failed (%d):\n%s" % (" ".join(args[:3]), p.returncode, p.stderr[-4000:]))
    return p


# --------------------------------------------------------------------------
# TLC
# --------------------------------------------------------------------------

class TlcResult:
    def __init__(self):
        self.rc = None
        self.out = ""
        self.generated = 0
        self.distinct = 0
        self.depth = 0
        self.values = []      # JSON values printed by the spec via PrintT(ToJson(..))
        self.violated = None  # name of violated invariant / property, if any
        self.wall = 0.0
        self.postcondition_failed = False


_STATS = re.compile(r"(\d+) states generated, (\d+) distinct states found")
_DEPTH = re.compile(r"The depth of the complete state graph search is (\d+)")
_INV = re.compile(r"Invariant (\S+) is violated")
_ACTP = re.compile(r"Action property (\S+) is violated")


def run_tlc(scratch, module, cfg, *, files=(), workers=None, timeout=600, simulate=None,
            depth=None, seed=None, heap="6g", extra=(), dfs_queue=False, coverage=False,
            specs_dir=SPECS):
    """Run TLC on specs/<module>.tla with specs/<cfg> inside `scratch`.

    files: extra (src, dstname) pairs copied into the scratch dir (traces etc).
    Returns TlcResult. Raises Infra on timeout / overflow / parse errors.
    """
    os.makedirs(scratch, exist_ok=True)
    for f in os.listdir(specs_dir):
        if f.endswith(".tla") or f.endswith(".cfg"):
            dst = os.path.join(scratch, f)
            if os.path.islink(dst) or os.path.exists(dst):
                os.remove(dst)
            os.symlink(os.path.join(specs_dir, f), dst)   # TLC only reads them; linking keeps shards cheap
    for src, dst in files:
        if os.path.abspath(src) != os.path.abspath(os.path.join(scratch, dst)):
            if os.path.islink(os.path.join(scratch, dst)):
                os.remove(os.path.join(scratch, dst))
            shutil.copyfile(src, os.path.join(scratch, dst))
    meta = os.path.join(scratch, "meta")
    shutil.rmtree(meta, ignore_errors=True)
    jopts = ["-XX:+UseParallelGC", "-Xmx" + heap, "-Xss512m"]
    if dfs_queue:
        jopts.append("-Dtlc2.tool.queue.IStateQueue=StateDeque")
    cmd = ["java"] + jopts + ["-cp", TLA_JAR + ":" + TLA_CM, "tlc2.TLC",
                              "-metadir", meta, "-config", cfg, "-noGenerateSpecTE",
                              "-workers", str(workers or 1)]
    if simulate:
        cmd += ["-simulate", simulate]
    if depth:
        cmd += ["-depth", str(depth)]
    if seed is not None:
        cmd += ["-seed", str(seed)]
    if coverage:
        cmd += ["-coverage", "1"]
    cmd += list(extra)
    cmd.append(module)
    t0 = time.time()
    outpath = os.path.join(scratch, "tlc.out")
    for attempt in (1, 2):
        with open(outpath, "w") as fo:
            try:
                p = subprocess.run(cmd, cwd=scratch, stdout=fo, stderr=subprocess.STDOUT,
                                   timeout=timeout)
            except subprocess.TimeoutExpired:
                raise Infra("TLC %s/%s timed out after %ss" % (module, cfg, timeout))
        if p.returncode in (137, 143, -9, -15) and attempt == 1:
            log("[tlc] %s/%s was killed from outside (rc %d): retrying once" % (module, cfg, p.returncode))
            shutil.rmtree(meta, ignore_errors=True)
            continue
        break
    r = TlcResult()
    r.rc = p.returncode
    r.wall = time.time() - t0
    with open(outpath, errors="replace") as f:
        r.out = f.read()
    for line in r.out.splitlines():
        if line.startswith('"') and line.endswith('"') and len(line) > 1:
            try:
                s = json.loads(line)
                if s.startswith("{") or s.startswith("["):
                    r.values.append(json.loads(s))
            except Exception:
                pass
    m = None
    for m in _STATS.finditer(r.out):
        pass
    if m:
        r.generated, r.distinct = int(m.group(1)), int(m.group(2))
    m = _DEPTH.search(r.out)
    if m:
        r.depth = int(m.group(1))
    m = _INV.search(r.out) or _ACTP.search(r.out)
    if m:
        r.violated = m.group(1)
    if "Overflow when computing" in r.out:
        raise Infra("TLC int32 overflow in %s/%s (see %s)" % (module, cfg, outpath))
    if "StackOverflowError" in r.out or "OutOfMemoryError" in r.out:
        raise Infra("TLC resource exhaustion in %s/%s (see %s)" % (module, cfg, outpath))
    if "Postcondition" in r.out and "violated" in r.out or "POSTCONDITION" in r.out and "violated" in r.out:
        r.postcondition_failed = True
    # rc 0 = ok, 12 = safety violation, 13 = liveness; anything else is an error in
    # the specification or the tooling and must not be mistaken for a verdict.
    if r.rc not in (0, 12, 13) and not r.postcondition_failed:
        raise Infra("TLC %s/%s exited %d (see %s):\n%s" % (module, cfg, r.rc, outpath, r.out[-3000:]))
    log("[tlc] %s/%s rc=%d gen=%d distinct=%d values=%d %.1fs" %
        (module, cfg, r.rc, r.generated, r.distinct, len(r.values), r.wall))
    return r


# --------------------------------------------------------------------------
# known findings, verdict and evidence
# --------------------------------------------------------------------------

def load_known():
    path = os.path.join(VERIF, "known_findings.txt")
    res = []
    if os.path.exists(path):
        for line in open(path):
            line = line.strip()
            if line.startswith("{"):      # open findings only; "fixed:" lines suppress nothing
                res.append(json.loads(line))
    return res


class Ctx:
    def __init__(self, pid, tier, seed):
        self.pid = pid
        self.tier = tier
        self.seed = seed
        self.t0 = time.time()
        self.work = os.path.join(WORK, pid)
        shutil.rmtree(self.work, ignore_errors=True)
        os.makedirs(self.work, exist_ok=True)
        self.states = 0
        self.transitions = 0
        self.traces = 0
        self.evaluations = 0
        self.nontrivial = 0
        self.samples = []
        self.extra = {}
        self.assumptions = []
        self.violations = []   # dicts: signature, what, replay (path)
        self.rule = ""
        self.level = "model_checking"
        self.exhaustive = False

    def scratch(self, name):
        d = os.path.join(self.work, name)
        os.makedirs(d, exist_ok=True)
        return d

    def add_tlc(self, r):
        self.states += r.distinct
        self.transitions += r.generated

    def sample(self, x, limit=4):
        if len(self.samples) < limit:
            self.samples.append(x)

    def violation(self, signature, what, replay_obj):
        """Register a violation; replay_obj is written to a replay file."""
        os.makedirs(os.path.join(REPLAYS, self.pid), exist_ok=True)
        n = len(self.violations)
        safe = re.sub(r"[^A-Za-z0-9_.-]+", "_", signature)[:80]
        path = os.path.join(REPLAYS, self.pid, "%s-%03d-%s.json" % (self.tier, n, safe))
        with open(path, "w") as f:
            json.dump({"property": self.pid, "signature": signature, "what": what,
                       "case": replay_obj}, f)
        self.violations.append({"signature": signature, "what": what, "replay": path})

    def finish(self):
        known = [k for k in load_known() if k.get("property") == self.pid]
        open_sigs = {k["signature"]: k for k in known if k.get("status") == "open"}
        printed_known = set()
        fresh = []
        for v in self.violations:
            k = open_sigs.get(v["signature"])
            if k is not None:
                if v["signature"] not in printed_known:
                    printed_known.add(v["signature"])
                    print("KNOWN-FINDING: property=%s %s [%s]" % (self.pid, k.get("what", v["what"]), v["signature"]))
            else:
                fresh.append(v)
        seen = set()
        for v in fresh:
            if v["signature"] in seen:
                continue
            seen.add(v["signature"])
            print("VIOLATION property=%s replay=%s" % (self.pid, v["replay"]))
            print("  signature=%s :: %s" % (v["signature"], v["what"]))
        cov = {
            "states": max(self.states, 0),
            "transitions": max(self.transitions, 0),
            "traces_validated_against_impl": self.traces,
            "samples": self.samples or ["(none)"],
            "evaluations": self.evaluations,
            "distinct_nontrivial": self.nontrivial,
            "rule": self.rule,
            "exhaustive": self.exhaustive,
            "known_findings_matched": sorted(printed_known),
        }
        cov.update(self.extra)
        ev = {
            "property_id": self.pid,
            "tier": self.tier,
            "seed": self.seed,
            "level": self.level,
            "coverage": cov,
            "assumptions": self.assumptions,
            "wall_s": round(time.time() - self.t0, 2),
            "violations": len(seen),
        }
        # checks of behaviour beyond the listed properties (ids X..) keep their evidence apart
        evdir = os.path.join(VERIF, "evidence_extra" if self.pid.startswith("X") else "evidence")
        os.makedirs(evdir, exist_ok=True)
        with open(os.path.join(evdir, self.pid + ".json"), "w") as f:
            json.dump(ev, f, indent=1, sort_keys=True)
            f.write("\n")
        if os.environ.get("VERIF_KEEP_WORK") != "1":
            shutil.rmtree(self.work, ignore_errors=True)
        return 1 if seen else 0


def write_ndjson(path, rows):
    with open(path, "w") as f:
        for r in rows:
            f.write(json.dumps(r, separators=(",", ":")))
            f.write("\n")


def read_ndjson(path):
    rows = []
    with open(path) as f:
        for line in f:
            line = line.strip()
            if line:
                rows.append(json.loads(line))
    return rows


# --------------------------------------------------------------------------
# sharded trace validation
# --------------------------------------------------------------------------

def shard_trace(lines, nshards, is_boundary):
    """Split raw ndjson lines into <= nshards lists, cutting only at boundaries
    (lines for which is_boundary(line) is true start a new unit)."""
    units = []
    for ln in lines:
        if is_boundary(ln) or not units:
            units.append([])
        units[-1].append(ln)
    total = sum(len(u) for u in units)
    target = max(1, total // max(1, nshards))
    shards, cur, n = [], [], 0
    for u in units:
        cur.extend(u)
        n += len(u)
        if n >= target and len(shards) < nshards - 1:
            shards.append(cur)
            cur, n = [], 0
    if cur:
        shards.append(cur)
    return shards


def validate_sharded(ctx, name, module, cfg, raw_lines, *, nshards=None, is_boundary=None,
                     timeout=1200, heap="3g", trace_name="trace.ndjson", check_consumed=True, dfs_queue=False):
    """Run the trace specification over raw ndjson lines, sharded over processes.

    Returns list of (shard_lines, TlcResult). A shard whose trace was not fully
    consumed (TraceAccepted postcondition) raises Infra unless the spec printed
    a rejection for it.
    """
    from concurrent.futures import ThreadPoolExecutor
    nshards = nshards or min(NCPU, 16)
    if is_boundary is None:
        is_boundary = lambda ln: ln.startswith('{"k":"reset"')
    shards = shard_trace(raw_lines, nshards, is_boundary)

    def one(i):
        d = ctx.scratch("%s-shard%02d" % (name, i))
        with open(os.path.join(d, trace_name), "w") as f:
            f.write("".join(shards[i]))
        return run_tlc(d, module, cfg, timeout=timeout, heap=heap, workers=1, dfs_queue=dfs_queue)

    with ThreadPoolExecutor(max_workers=min(len(shards), NCPU)) as ex:
        results = list(ex.map(one, range(len(shards))))
    out = []
    for sh, r in zip(shards, results):
        ctx.add_tlc(r)
        if check_consumed and (r.postcondition_failed or r.distinct != len(sh) + 1):
            raise Infra("trace shard of %s not fully consumed (%d states for %d lines)" %
                        (name, r.distinct, len(sh)))
        out.append((sh, r))
    return out
