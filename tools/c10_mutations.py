#!/usr/bin/env python3
"""Mutation smoke test for C10 (developer tool, not part of the check).

Applies realistic breaking changes to the repository worktree one at a time,
runs `./check C10 --tier quick`, records exit code and signatures, restores
the tree with `git checkout -- .`.

  VERIF_REPO=/path/to/repo python3 tools/c10_mutations.py [name ...]
"""
import os
import subprocess
import sys

HERE = os.path.dirname(os.path.dirname(os.path.abspath(__file__)))
REPO = os.environ.get("VERIF_REPO", "/repo")
MESH = "modeling/mesh.go"
CANVAS = "modeling/marching/canvas.go"


def nth(s, old, new, k):
    """replace the k-th (0-based) occurrence"""
    pos = -1
    for _ in range(k + 1):
        pos = s.index(old, pos + 1)
    return s[:pos] + new + s[pos + len(old):]


# name -> (file, function(source) -> mutated source, what)
MUTATIONS = {
    "remainder-lost": (MESH, lambda s: nth(s, "jobSize = len(data) - (workSize * i)", "jobSize = workSize", 0),
                       "ScanFloat3AttributeParallelWithPoolSize: last worker does not take the remainder"),
    "range-overlap": (MESH, lambda s: nth(s, "end := start + size\n\t\t\tfor i := start; i < end; i++ {\n\t\t\t\tmodified[i] = f(i, oldData[i])",
                                          "end := start + size + 1\n\t\t\tif end > len(oldData) {\n\t\t\t\tend = len(oldData)\n\t\t\t}\n\t\t\tfor i := start; i < end; i++ {\n\t\t\t\tmodified[i] = f(i, oldData[i])", 2),
                      "ModifyFloat1AttributeParallelWithPoolSize: ranges overlap by one element"),
    "wrong-output-slot": (MESH, lambda s: nth(s, "modified[i] = f(i, oldData[i])", "modified[len(oldData)-1-i] = f(i, oldData[i])", 1),
                          "ModifyFloat2AttributeParallelWithPoolSize: result written to the mirrored slot"),
    "captured-loop-var": (MESH, lambda s: nth(s, "\t\tgo func(start, size int) {\n\t\t\tdefer wg.Done()\n\t\t\tend := start + size\n\t\t\tfor i := start; i < end; i++ {\n\t\t\t\tf(i, data[i])\n\t\t\t}\n\t\t}(workSize*i, jobSize)",
                                              "\t\tgo func() {\n\t\t\tdefer wg.Done()\n\t\t\tstart, size := workSize*i, jobSize\n\t\t\tend := start + size\n\t\t\tfor i := start; i < end; i++ {\n\t\t\t\tf(i, data[i])\n\t\t\t}\n\t\t}()", 1),
                          "ScanFloat2AttributeParallelWithPoolSize: goroutine captures the loop variables (go 1.21 semantics)"),
    "no-join": (MESH, lambda s: nth(s, "\twg.Wait()\n\n\treturn m\n}\n\nfunc (m Mesh) ModifyFloat3Attribute(", "\treturn m\n}\n\nfunc (m Mesh) ModifyFloat3Attribute(", 0),
                "ScanFloat1AttributeParallelWithPoolSize: returns without waiting for the workers"),
    "foreign-value": (MESH, lambda s: nth(s, "modified[i] = f(i, oldData[i])", "modified[i] = f(i, oldData[start])", 0),
                      "ModifyFloat3AttributeParallelWithPoolSize: callback receives the first value of the worker's range"),
    "prim-size-as-end": (MESH, lambda s: s.replace("\t\t\tend := start + size\n\t\t\tswitch m.topology {", "\t\t\tend := size\n\t\t\tswitch m.topology {"),
                         "ScanPrimitivesParallelWithPoolSize: (start,size) handed to helpers that expect (start,end) (the pinned defect)"),
    "racy-counter": (MESH, lambda s: nth(s.replace("func (m Mesh) ModifyFloat3AttributeParallelWithPoolSize(", "var verifMutCounter int\n\nfunc (m Mesh) ModifyFloat3AttributeParallelWithPoolSize("),
                                         "modified[i] = f(i, oldData[i])", "verifMutCounter++\n\t\t\t\tmodified[i] = f(i, oldData[i])", 0),
                     "ModifyFloat3AttributeParallelWithPoolSize: workers bump an unsynchronised shared counter"),
    "field-read-outside-lock": (CANVAS, lambda s: s.replace("\tdata := d.float1Chunk_atomic(section, chunkPos)\n", "\tdata := d.float1Data[d.chunkIndex_atomic(section, chunkPos)]\n"),
                                "addFloat1Range: block fetched outside chunkMutex (the pinned race)"),
    "field-off-by-one": (CANVAS, lambda s: nth(s, "X: maxInt(chunkPos.X*marchingSectionSize, min.X),", "X: maxInt(chunkPos.X*marchingSectionSize, min.X) + 1,", 1),
                         "AddFieldParallel: every job starts one cell late in x"),
    "field-last-job-dropped": (CANVAS, lambda s: nth(s, "\tfor attribute, function := range field.Float1Functions {\n\t\tsection := d.getSection(attribute, Float1)\n\t\tfor _, chunkPos := range chunkSections {",
                                                     "\tfor attribute, function := range field.Float1Functions {\n\t\tsection := d.getSection(attribute, Float1)\n\t\tfor _, chunkPos := range chunkSections[:maxInt(1, len(chunkSections)-1)] {", 0),
                               "AddFieldParallel: the last block of a multi-block field is never queued"),
    "march-result-dropped": (CANVAS, lambda s: s.replace("\tfor _, blockMesh := range blockMeshes {\n", "\tfor _, blockMesh := range blockMeshes[:maxInt(1, len(blockMeshes)-1)] {\n"),
                             "marchFloat1Parallel: one block result of a multi-block canvas is not merged"),
    # ---- round 2: the class of the seeded changes C10-r2m1 / C10-r2m2 and neighbours of it
    "field2-whole-block-copy": (CANVAS, lambda s: s.replace("\t\tresultData := result.data\n", "\t\tresultData := result.data\n\t\tif len(resultData) == marchingSectionSizeCubed {\n\t\t\tcopy(data, resultData)\n\t\t\tcontinue\n\t\t}\n"),
                                "AddFieldParallel2: a job covering a whole block is copied over the block instead of added (seed C10-r2m1)"),
    "field-skip-empty-job": (CANVAS, lambda s: nth(s, "\t\t\tjobs <- job{\n", "\t\t\tif canvasSpaceChunkPos.X >= endPos.X || canvasSpaceChunkPos.Y >= endPos.Y || canvasSpaceChunkPos.Z >= endPos.Z {\n\t\t\t\tcontinue\n\t\t\t}\n\t\t\tjobs <- job{\n", 0),
                             "AddFieldParallel: a job without samples is not queued, its block never registered (seed C10-r2m2)"),
    "field2-skip-empty-result": (CANVAS, lambda s: s.replace("\t\tchunkPos := result.chunkPos\n\t\tdata := d.float1Data[d.chunkIndex_atomic(result.section, chunkPos)]\n", "\t\tchunkPos := result.chunkPos\n\t\tif len(result.data) == 0 {\n\t\t\tcontinue\n\t\t}\n\t\tdata := d.float1Data[d.chunkIndex_atomic(result.section, chunkPos)]\n"),
                                 "AddFieldParallel2: a result without samples is dropped before its block is registered"),
    "field-whole-block-assign": (CANVAS, lambda s: s.replace("\t\t\t\td.addFloat1Range(j.section, j.chunkPos, j.startPos, j.endPos, j.function)\n", "\t\t\t\tif j.endPos.Sub(j.startPos) == (modeling.VectorInt{X: marchingSectionSize, Y: marchingSectionSize, Z: marchingSectionSize}) {\n\t\t\t\t\tblock := d.float1Chunk_atomic(j.section, j.chunkPos)\n\t\t\t\t\tfor k := range block {\n\t\t\t\t\t\tblock[k] = 0\n\t\t\t\t\t}\n\t\t\t\t}\n\t\t\t\td.addFloat1Range(j.section, j.chunkPos, j.startPos, j.endPos, j.function)\n"),
                                 "AddFieldParallel: a worker clears a block before a job that covers it completely"),
    "march-merge-completion-order": (CANVAS, lambda s: s.replace("\t\tblockMeshes[result.job] = result.mesh\n", "\t\tblockMeshes[i] = result.mesh\n"),
                                     "marchFloat1Parallel: block meshes merged in the order the workers finish (the repaired defect; bit-exact cases, probabilistic)"),
    "field2-xz-swap": (CANVAS, lambda s: s.replace("function(vector3.New(xF, yF, zF))", "function(vector3.New(zF, yF, xF))"),
                       "AddFieldParallel2: field sampled at (z,y,x) (the pinned defect)"),
    "field2-jobs-per-block": (CANVAS, lambda s: s.replace("numJobs := len(chunkSections) * len(field.Float1Functions)", "numJobs := len(chunkSections)"),
                              "AddFieldParallel2: job count ignores the attributes (the pinned defect)"),
}


def main():
    names = sys.argv[1:] or list(MUTATIONS)
    rows = []
    for name in names:
        path, fn, what = MUTATIONS[name]
        full = os.path.join(REPO, path)
        src = open(full).read()
        mut = fn(src)
        if mut == src:
            rows.append((name, "NOT-APPLIED", "", what))
            continue
        open(full, "w").write(mut)
        try:
            env = dict(os.environ, VERIF_REPO=REPO)
            p = subprocess.run(["./check", "C10", "--tier", "quick"], cwd=HERE, env=env, stdout=subprocess.PIPE,
                               stderr=subprocess.PIPE, text=True, timeout=1500)
            sigs = sorted({ln.split("signature=")[1].split(" ::")[0] for ln in p.stdout.splitlines() if "signature=" in ln})
            infra = [ln for ln in p.stderr.splitlines() if ln.startswith("INFRA")]
            rows.append((name, "exit %d" % p.returncode, "; ".join(sigs) or "; ".join(infra)[:300], what))
        finally:
            subprocess.run(["git", "checkout", "--", "."], cwd=REPO, check=True)
        print("%-26s %-8s %s" % rows[-1][:3], flush=True)
    print()
    for r in rows:
        print("| %s | %s | %s | %s |" % (r[0], r[3], r[1], r[2]))


if __name__ == "__main__":
    main()
