#!/usr/bin/env python3
"""Mutation smoke for the PLY family (C04, C08), see NOTES-ply.md.

Applies one realistic breaking change at a time to the repository worktree (VERIF_REPO, must be a clean
git worktree), runs the quick check of the property, prints exit code and first signatures, and restores
the worktree with `git checkout -- .`.   usage: tools/ply_mutation_smoke.py [mutation-name ...]
"""
import subprocess, sys, os, json, time
REPO = os.environ.get("VERIF_REPO", "/repo")
VERIF = os.path.dirname(os.path.dirname(os.path.abspath(__file__)))
M = {
 # ---- C04 ----
 "c04-m1-binary-uv-by-corner-position": ("C04", "formats/ply/writer.go", [("texData.At(indices.At(i + 1)).ToFloat32()", "texData.At(i + 1).ToFloat32()")]),
 "c04-m2-vector3-endianness-branch": ("C04", "formats/ply/writer_vector3.go", [("if format == BinaryBigEndian {\n\t\tendian = binary.BigEndian", "if format == BinaryLittleEndian {\n\t\tendian = binary.BigEndian")]),
 "c04-m3-texcoord-count-byte": ("C04", "formats/ply/writer.go", [("buf[13] = 6", "buf[13] = 5")]),
 "c04-m4-ascii-float-4-decimals": ("C04", "formats/ply/writer_vector3.go", [("strconv.AppendFloat(av4pw.buf, v3.Y(), 'f', -1, 64)", "strconv.AppendFloat(av4pw.buf, v3.Y(), 'f', 4, 64)")]),
 "c04-m5-header-property-order": ("C04", "formats/ply/writer_vector3.go", [("ScalarProperty{PropertyName: v3pw.PlyPropertyY, Type: v3pw.Type},\n\t\tScalarProperty{PropertyName: v3pw.PlyPropertyZ, Type: v3pw.Type},", "ScalarProperty{PropertyName: v3pw.PlyPropertyZ, Type: v3pw.Type},\n\t\tScalarProperty{PropertyName: v3pw.PlyPropertyY, Type: v3pw.Type},")]),
 "c04-m6-ascii-uchar-floor": ("C04", "formats/ply/writer_vector3.go", [("v3 = av4pw.arr.At(i).Clamp(0, 1).Scale(255).Round()", "v3 = av4pw.arr.At(i).Clamp(0, 1).Scale(255).Floor()")]),
 "c04-m7-face-count-plus-one": ("C04", "formats/ply/writer.go", [("Count:      int64(mesh.PrimitiveCount()),", "Count:      int64(mesh.PrimitiveCount() + 1),")]),
 "c04-m8-readheader-list-count-type": ("C04", "formats/ply/reader.go", [("CountType:    ParseScalarPropertyType(contents[2]),\n\t\t\tListType:     ParseScalarPropertyType(contents[3]),", "CountType:    ParseScalarPropertyType(contents[3]),\n\t\t\tListType:     ParseScalarPropertyType(contents[2]),")]),
 "c04-m9-point-cloud-ignores-indices": ("C04", "formats/ply/writer.go", [("vertex = pointIndices.At(i)", "vertex = i")]),
 # ---- C08 ----
 "c08-r1-binary-offset-from-position": ("C08", "formats/ply/reader_vector3.go", [("\t\ttotalSize += scalar.Size()\n\t}\n\n\tif xOffset > -1 && yOffset > -1 && zOffset > -1 {\n\t\treturn &builtBinaryVector3PropertyReader{", "\t\ttotalSize += 4\n\t}\n\n\tif xOffset > -1 && yOffset > -1 && zOffset > -1 {\n\t\treturn &builtBinaryVector3PropertyReader{")]),
 "c08-r2-alias-uint8-missing": ("C08", "formats/ply/reader.go", [("\t\"uint8\": UChar,\n", "")]),
 "c08-r3-quad-fan-order": ("C08", "formats/ply/reader.go", [("\t\t// Tesselate the quad\n\t\tif points == 4 {\n\t\t\tindices = append(indices, indicesBuf[0], indicesBuf[2], indicesBuf[3])\n\t\t}\n\n\t\tif texCordProp > -1 {\n\t\t\tuvs = append(\n\t\t\t\tuvs,\n\t\t\t\tvector2.New(texBuf[0], texBuf[1]),\n\t\t\t\tvector2.New(texBuf[2], texBuf[3]),\n\t\t\t\tvector2.New(texBuf[4], texBuf[5]),\n\t\t\t)\n\n\t\t\t// Tesselate the quad\n\t\t\tif points == 4 {\n\t\t\t\tuvs = append(\n\t\t\t\t\tuvs,\n\t\t\t\t\tvector2.New(texBuf[0], texBuf[1]),\n\t\t\t\t\tvector2.New(texBuf[4], texBuf[5]),\n\t\t\t\t\tvector2.New(texBuf[6], texBuf[7]),\n\t\t\t\t)\n\t\t\t}\n\t\t}\n\t}\n\n\treturn indices, uvs, nil\n}\n", "\t\t// Tesselate the quad\n\t\tif points == 4 {\n\t\t\tindices = append(indices, indicesBuf[1], indicesBuf[2], indicesBuf[3])\n\t\t}\n\n\t\tif texCordProp > -1 {\n\t\t\tuvs = append(\n\t\t\t\tuvs,\n\t\t\t\tvector2.New(texBuf[0], texBuf[1]),\n\t\t\t\tvector2.New(texBuf[2], texBuf[3]),\n\t\t\t\tvector2.New(texBuf[4], texBuf[5]),\n\t\t\t)\n\n\t\t\t// Tesselate the quad\n\t\t\tif points == 4 {\n\t\t\t\tuvs = append(\n\t\t\t\t\tuvs,\n\t\t\t\t\tvector2.New(texBuf[0], texBuf[1]),\n\t\t\t\t\tvector2.New(texBuf[4], texBuf[5]),\n\t\t\t\t\tvector2.New(texBuf[6], texBuf[7]),\n\t\t\t\t)\n\t\t\t}\n\t\t}\n\t}\n\n\treturn indices, uvs, nil\n}\n")]),
 "c08-r4-crlf-not-eaten": ("C08", "formats/ply/reader.go", [("if buf[0] != '\\r' {\n\t\t\tdata.WriteByte(buf[0])\n\t\t}", "data.WriteByte(buf[0])")]),
 "c08-r5-int-count-type-one-byte": ("C08", "formats/ply/reader_list_binary.go", [("\tcase UChar:\n\t\t_, err := io.ReadFull(in, lpr.buf[:1])\n\t\treturn int32(lpr.buf[0]), err\n\n\tcase UInt, Int:", "\tcase UChar, Int:\n\t\t_, err := io.ReadFull(in, lpr.buf[:1])\n\t\treturn int32(lpr.buf[0]), err\n\n\tcase UInt:")]),
 "c08-r6-ascii-quad-uv-corner": ("C08", "formats/ply/reader.go", [("\t\t\t\tuvs = append(\n\t\t\t\t\tuvs,\n\t\t\t\t\tvector2.New(texBuf[0], texBuf[1]),\n\t\t\t\t\tvector2.New(texBuf[4], texBuf[5]),\n\t\t\t\t\tvector2.New(texBuf[6], texBuf[7]),\n\t\t\t\t)\n\t\t\t}\n\t\t}\n\n\t\ti++", "\t\t\t\tuvs = append(\n\t\t\t\t\tuvs,\n\t\t\t\t\tvector2.New(texBuf[0], texBuf[1]),\n\t\t\t\t\tvector2.New(texBuf[2], texBuf[3]),\n\t\t\t\t\tvector2.New(texBuf[6], texBuf[7]),\n\t\t\t\t)\n\t\t\t}\n\t\t}\n\n\t\ti++")]),
 "c08-r7-vector4-alpha-not-claimed": ("C08", "formats/ply/reader_vector4.go", [("\tif prop.Name() == bav3pr.plyPropertyW {\n\t\treturn true\n\t}\n\n\treturn false\n}\n\nfunc (bav3pr builtAsciiVector4PropertyReader) Read", "\treturn false\n}\n\nfunc (bav3pr builtAsciiVector4PropertyReader) Read")]),
 "c08-r8-binary-double-read-as-float": ("C08", "formats/ply/reader_vector1.go", [("v = math.Float64frombits(bv1pr.endian.Uint64(buf[bv1pr.offset:]))", "v = float64(float32(math.Float64frombits(bv1pr.endian.Uint64(buf[bv1pr.offset:]))))")]),
}
def sh(cmd, **kw):
    return subprocess.run(cmd, shell=True, text=True, stdout=subprocess.PIPE, stderr=subprocess.STDOUT, **kw)
names = sys.argv[1:] or list(M)
res = {}
for name in names:
    pid, path, reps = M[name]
    assert sh("git status --porcelain", cwd=REPO).stdout.strip() == "", "repo not clean"
    fp = os.path.join(REPO, path)
    s = open(fp).read()
    for a, b in reps:
        assert s.count(a) >= 1, (name, "pattern not found")
        s = s.replace(a, b, 1)
    open(fp, "w").write(s)
    try:
        b = sh("go build ./formats/ply/", cwd=REPO, env=dict(os.environ, GOFLAGS="-mod=mod", GOPROXY="off", GOSUMDB="off", GOTOOLCHAIN="local"))
        if b.returncode != 0:
            res[name] = "DOES-NOT-COMPILE " + b.stdout[-300:]
        else:
            t0 = time.time()
            r = sh("timeout 900 ./check %s --tier quick" % pid, cwd=VERIF, env=dict(os.environ, VERIF_REPO=REPO))
            sigs = [l.split("signature=")[1].split(" ::")[0] for l in r.stdout.splitlines() if "signature=" in l]
            res[name] = {"exit": r.returncode, "wall": round(time.time() - t0), "signatures": sigs[:6], "n": len(sigs)}
    finally:
        sh("git checkout -- .", cwd=REPO)
    print(name, json.dumps(res[name]), flush=True)
missed = [n for n, r in res.items() if not (isinstance(r, dict) and r["exit"] == 1)]
print("missed:", missed)
sys.exit(1 if missed else 0)
