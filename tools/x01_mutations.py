#!/usr/bin/env python3
"""Developer tool: mutation smoke for X01 (NOTES-xsync.md).

Applies each mutation to the repository worktree named by VERIF_REPO, runs
`./check X01 --tier quick`, records exit code and signatures, restores the file
(`git checkout -- <file>`). Usage: VERIF_REPO=/path/to/repo tools/x01_mutations.py [ids...]
"""
import os
import subprocess
import sys
import time

VERIF = os.path.dirname(os.path.dirname(os.path.abspath(__file__)))
REPO = os.environ.get("VERIF_REPO", "/repo")
SYNC = "generator/sync/sync.go"
INST = "generator/graph/instance.go"

MUTATIONS = [
    ("M01", "Data() hands out the internal map again", SYNC,
     "\treturn copyTree(sm.data)\n}", "\treturn sm.data\n}"),
    ("M02", "Get() hands out the internal nested map again", SYNC,
     "\tif nested, ok := data[key].(map[string]any); ok {\n\t\treturn copyTree(nested)\n\t}\n", ""),
    ("M03", "PathExists ignores the last path element again", SYNC,
     "\t_, ok := current[elements[len(elements)-1]]\n\treturn ok\n", "\treturn true\n"),
    ("M04", "copyTree copies the top level only (nested maps stay shared)", SYNC,
     "\t\t\tout[k] = copyTree(nested)\n", "\t\t\tout[k] = nested\n"),
    ("M05", "Set replaces a non-map element on the way instead of panicking", SYNC,
     "\t\t\tcasted, ok := v.(map[string]any)\n\t\t\tif !ok {\n\t\t\t\tpanic(fmt.Errorf(\"%s isn't a map\", key))\n\t\t\t}\n\t\t\tcurrent = casted\n\t\t} else {",
     "\t\t\tcasted, ok := v.(map[string]any)\n\t\t\tif !ok {\n\t\t\t\tcasted = make(map[string]any)\n\t\t\t\tcurrent[elements[i]] = casted\n\t\t\t}\n\t\t\tcurrent = casted\n\t\t} else {"),
    ("M06", "Set does not take the mutex", SYNC,
     "func (sm *NestedSyncMap) Set(key string, value any) {\n\tsm.mutex.Lock()\n\tdefer sm.mutex.Unlock()\n",
     "func (sm *NestedSyncMap) Set(key string, value any) {\n"),
    ("M07", "Delete of a map keeps it (only leaves are removed)", SYNC,
     "\tdata, key := sm.lookup(key)\n\tdelete(data, key)\n",
     "\tdata, key := sm.lookup(key)\n\tif _, isMap := data[key].(map[string]any); !isMap {\n\t\tdelete(data, key)\n\t}\n"),
    ("M08", "OverwriteData(nil) leaves a nil map behind", SYNC,
     "\tif data == nil {\n\t\tsm.data = make(map[string]any)\n\t} else {\n\t\tsm.data = data\n\t}\n", "\tsm.data = data\n"),
    ("M09", "Get answers nil instead of panicking on a missing parent (lookup made lenient for Get only)", SYNC,
     "\tdata, key := sm.lookup(key)\n\tif nested, ok := data[key].(map[string]any); ok {",
     "\tif !sm.pathOK(key) {\n\t\treturn nil\n\t}\n\tdata, key := sm.lookup(key)\n\tif nested, ok := data[key].(map[string]any); ok {"),
    ("M10", "Set creates the missing parents but forgets to link the first one", SYNC,
     "\t\t\tnewMap := make(map[string]any)\n\t\t\tcurrent[elements[i]] = newMap\n\t\t\tcurrent = newMap\n",
     "\t\t\tnewMap := make(map[string]any)\n\t\t\tif i > 0 {\n\t\t\t\tcurrent[elements[i]] = newMap\n\t\t\t}\n\t\t\tcurrent = newMap\n"),
    ("M11", "SyncMap.Set ignores a second write to the same key", SYNC,
     "\tsm.mutex.Lock()\n\tsm.data[key] = value\n\tsm.mutex.Unlock()\n",
     "\tsm.mutex.Lock()\n\tif _, ok := sm.data[key]; !ok {\n\t\tsm.data[key] = value\n\t}\n\tsm.mutex.Unlock()\n"),
    ("M12", "Instance.Schema type-asserts node metadata unchecked again", INST,
     "\t\tif data, ok := i.metadata.Get(metadataPath).(map[string]any); ok {\n\t\t\tmetadata = data\n\t\t}\n",
     "\t\tif data := i.metadata.Get(metadataPath); data != nil {\n\t\t\tmetadata = data.(map[string]any)\n\t\t}\n"),
    ("M13", "Data() copies without holding the mutex", SYNC,
     "func (sm *NestedSyncMap) Data() map[string]any {\n\tsm.mutex.Lock()\n\tdefer sm.mutex.Unlock()\n\n",
     "func (sm *NestedSyncMap) Data() map[string]any {\n"),
]

EXTRA = {  # helper needed by M09
    "M09": ("\nfunc (sm *NestedSyncMap) pathOK(key string) bool {\n\telements := strings.Split(key, \".\")\n\tcurrent := sm.data\n"
            "\tfor i := 0; i < len(elements)-1; i++ {\n\t\tcasted, ok := current[elements[i]].(map[string]any)\n\t\tif !ok {\n\t\t\treturn false\n\t\t}\n"
            "\t\tcurrent = casted\n\t}\n\treturn true\n}\n"),
}


def main():
    want = set(sys.argv[1:])
    rows = []
    for mid, what, rel, old, new in MUTATIONS:
        if want and mid not in want:
            continue
        path = os.path.join(REPO, rel)
        src = open(path).read()
        if src.count(old) != 1:
            print("%s: pattern found %d times - skipped" % (mid, src.count(old)))
            continue
        try:
            with open(path, "w") as f:
                f.write(src.replace(old, new) + EXTRA.get(mid, ""))
            t0 = time.time()
            p = subprocess.run([os.path.join(VERIF, "check"), "X01", "--tier", "quick"], cwd=VERIF,
                               stdout=subprocess.PIPE, stderr=subprocess.PIPE, text=True)
            sigs = sorted({ln.split("signature=")[1].split(" ::")[0] for ln in p.stdout.splitlines() if "signature=" in ln})
            infra = [ln for ln in p.stderr.splitlines() if ln.startswith("INFRA")]
            rows.append((mid, what, p.returncode, time.time() - t0, sigs, infra))
            print("%s exit=%d %.0fs %s\n   %s %s" % (mid, p.returncode, time.time() - t0, what, ", ".join(sigs)[:600], infra[:1]), flush=True)
        finally:
            subprocess.run(["git", "checkout", "--", rel], cwd=REPO, check=True)
    print()
    for mid, what, rc, dt, sigs, infra in rows:
        print("| %s | %s | %d | %s |" % (mid, what, rc, ", ".join(s.replace("X01.", "") for s in sigs)[:400]))


if __name__ == "__main__":
    main()
