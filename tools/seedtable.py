#!/usr/bin/env python3
"""Markdown table of /verif/seeded/*/meta.json (DESIGN.md section 11).

  tools/seedtable.py            print the table
  tools/seedtable.py --write    replace the text between the SEEDTABLE markers of DESIGN.md
"""
import glob, json, os, re, sys


def rows():
    out = []
    for f in sorted(glob.glob('/verif/seeded/*/meta.json')):
        m = json.load(open(f))
        name = os.path.basename(os.path.dirname(f))
        sig = ""
        for l in m.get("check_lines", []):
            if "signature=" in l:
                sig = l.split("signature=")[1].split(" ::")[0]
                break
        rnd = "1"
        mm = re.search(r"-r(\d)m", name)
        if mm:
            rnd = mm.group(1)
        if m.get("superseded_by"):
            caught = "superseded by %s" % m["superseded_by"]
        elif m.get("detected"):
            caught = "yes"
        elif m.get("caught_by"):
            caught = "by %s" % m["caught_by"]
        else:
            caught = "NO"
        out.append((name, m.get("property"), rnd, (m.get("summary") or "")[:150].replace("|", "/"),
                    (m.get("needs") or "")[:120].replace("|", "/"), caught, sig))
    return out


def table():
    lines = ["| seeded change | property | round | what it does | needs | caught by quick check | first signature |",
             "|---|---|---|---|---|---|---|"]
    rs = rows()
    for r in rs:
        lines.append("| %s | %s | %s | %s | %s | %s | `%s` |" % r)
    n = len(rs)
    yes = sum(1 for r in rs if r[5] == "yes")
    other = sum(1 for r in rs if r[5].startswith("by "))
    sup = sum(1 for r in rs if r[5].startswith("superseded"))
    no = sum(1 for r in rs if r[5] == "NO")
    lines.append("")
    lines.append("%d seeded changes kept: %d caught by the quick check of their property, %d caught by the check of a "
                 "neighbouring property, %d superseded, %d not caught." % (n, yes, other, sup, no))
    return "\n".join(lines)


if __name__ == "__main__":
    t = table()
    if "--write" in sys.argv:
        p = "/verif/DESIGN.md"
        s = open(p).read()
        b, e = "<!-- SEEDTABLE BEGIN -->", "<!-- SEEDTABLE END -->"
        if b not in s or e not in s:
            sys.exit("markers not found in DESIGN.md")
        s = s[:s.index(b) + len(b)] + "\n" + t + "\n" + s[s.index(e):]
        open(p, "w").write(s)
    else:
        print(t)
