#!/usr/bin/env python3
"""Prints a markdown table of /verif/seeded/*/meta.json (for DESIGN.md section 11)."""
import glob, json, os
rows = []
for f in sorted(glob.glob('/verif/seeded/*/meta.json')):
    m = json.load(open(f))
    name = os.path.basename(os.path.dirname(f))
    sig = ""
    for l in m.get("check_lines", []):
        if "signature=" in l:
            sig = l.split("signature=")[1].split(" ::")[0]
            break
    rows.append((name, m.get("property"), (m.get("summary") or "")[:150].replace("|", "/"), (m.get("needs") or "")[:120].replace("|", "/"),
                 "yes" if m.get("detected") else "NO", sig))
print("| seeded change | property | what it does | needs | caught by quick check | first signature |")
print("|---|---|---|---|---|---|")
for r in rows:
    print("| %s | %s | %s | %s | %s | `%s` |" % r)
