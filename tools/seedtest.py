#!/usr/bin/env python3
"""seedtest.py <PROP> <mutation_dir> [--tier quick] : confirm a seeded change and run the check against it.

Uses scratch worktrees (repo: /tmp/seedrun/<tag>/repo, framework: /tmp/seedrun/<tag>/verif at /verif HEAD) so /repo
itself is never touched. Writes /verif/seeded/<PROP>-<name>/ with patch.diff, demo, meta.json (incl. what was run).
"""
import json
import os
import re
import shutil
import subprocess
import sys

ENV = dict(os.environ, GOFLAGS="-mod=mod", GOPROXY="off", GOSUMDB="off", GOTOOLCHAIN="local")


def sh(cmd, cwd=None, env=None, timeout=3600):
    p = subprocess.run(cmd, shell=True, cwd=cwd, env=env or ENV, stdout=subprocess.PIPE, stderr=subprocess.STDOUT, text=True, timeout=timeout)
    return p.returncode, p.stdout


def main():
    prop, mdir = sys.argv[1], sys.argv[2].rstrip("/")
    tier = "quick"
    if "--tier" in sys.argv:
        tier = sys.argv[sys.argv.index("--tier") + 1]
    name = os.path.basename(mdir)
    if "--name" in sys.argv:
        name = sys.argv[sys.argv.index("--name") + 1]
    tag = "%s-%s" % (prop, name)
    base = "/tmp/seedrun/" + tag
    shutil.rmtree(base, ignore_errors=True)
    os.makedirs(base)
    repo = base + "/repo"
    verif = base + "/verif"
    ENV["GOCACHE"] = base + "/gocache"   # a fresh path rebuilds everything anyway; keep it out of the shared cache
    sh("git -C /repo worktree prune; git -C /verif worktree prune")
    rc, out = sh("git -C /repo worktree add -q --detach %s HEAD" % repo)
    assert rc == 0, out
    rc, out = sh("git -C /verif worktree add -q --detach %s HEAD" % verif)
    assert rc == 0, out
    res = {"property": prop, "name": name}
    try:
        patch = os.path.join(mdir, "patch.diff")
        meta = json.load(open(os.path.join(mdir, "meta.json")))
        demo = [f for f in os.listdir(mdir) if f.endswith("_test.go")]
        rc, out = sh("git apply --check %s" % patch, cwd=repo)
        res["applies"] = rc == 0
        if rc != 0:
            res["error"] = out[-500:]
            return res
        sh("git apply %s" % patch, cwd=repo)
        rc, out = sh("git diff --stat | tail -1", cwd=repo)
        res["diffstat"] = out.strip()
        rc, out = sh("go build ./...", cwd=repo)
        res["builds"] = rc == 0
        touched = sorted({os.path.dirname(l[6:].strip()) for l in open(patch) if l.startswith("+++ b/")})
        res["touched"] = touched
        rc, out = sh("go test -vet=off -count=1 " + " ".join("./%s/..." % t for t in touched), cwd=repo, timeout=2400)
        res["existing_tests_pass"] = rc == 0
        if rc != 0:
            res["existing_tests_output"] = out[-800:]
        # demo
        if demo:
            txt = open(os.path.join(mdir, demo[0])).read() + json.dumps(meta)
            m = re.search(r"([\w./-]+)/zz_demo_test\.go", txt)
            pkgdir = m.group(1).lstrip("./") if m else touched[0]
            pkgdir = re.sub(r"^.*?(?=(modeling|generator|nodes|formats|math|trees|rendering|refutil)/?)", "", pkgdir)
            tm = re.search(r"func (TestDemo\w*)", txt)
            tname = tm.group(1) if tm else "TestDemo"
            dst = os.path.join(repo, pkgdir, "zz_demo_test.go")
            shutil.copyfile(os.path.join(mdir, demo[0]), dst)
            rc1, out1 = sh("go test -vet=off -count=1 -run '%s' ./%s/" % (tname[:8], pkgdir), cwd=repo, timeout=1200)
            sh("git apply -R %s" % patch, cwd=repo)
            rc2, out2 = sh("go test -vet=off -count=1 -run '%s' ./%s/" % (tname[:8], pkgdir), cwd=repo, timeout=1200)
            res["demo_fails_with_patch"] = rc1 != 0
            res["demo_passes_without_patch"] = rc2 == 0
            if rc2 != 0:
                res["demo_clean_output"] = out2[-600:]
            os.remove(dst)
            sh("git apply %s" % patch, cwd=repo)
        # the check
        env = dict(ENV, VERIF_REPO=repo, VERIF_SEED=os.environ.get("VERIF_SEED", "1"))
        rc, out = sh("./check %s --tier %s" % (prop, tier), cwd=verif, env=env, timeout=7200)
        res["check_exit"] = rc
        res["check_lines"] = [l for l in out.splitlines() if l.startswith("VIOLATION") or l.startswith("  signature") or
                              l.startswith("INFRA") or l.startswith("KNOWN")][:12]
        res["detected"] = rc == 1
        # persist
        sd = "/verif/seeded/%s" % tag
        os.makedirs(sd, exist_ok=True)
        shutil.copyfile(patch, sd + "/patch.diff")
        for f in demo:
            shutil.copyfile(os.path.join(mdir, f), sd + "/" + f)
        meta.update({"property": prop, "confirmed": {k: res.get(k) for k in
                     ("applies", "builds", "existing_tests_pass", "demo_fails_with_patch", "demo_passes_without_patch")},
                     "ran": "tools/seedtest.py %s %s --tier %s (scratch worktrees; VERIF_REPO)" % (prop, mdir, tier),
                     "check_exit": rc, "check_lines": res["check_lines"], "detected": rc == 1,
                     "verif_commit": sh("git -C %s rev-parse --short HEAD" % verif)[1].strip()})
        json.dump(meta, open(sd + "/meta.json", "w"), indent=1)
        return res
    finally:
        sh("git -C /repo worktree remove --force %s" % repo)
        sh("git -C /verif worktree remove --force %s" % verif)
        shutil.rmtree(base, ignore_errors=True)


if __name__ == "__main__":
    r = main()
    print(json.dumps(r, indent=1))
