#!/usr/bin/env python3
"""Regenerates /verif/MANIFEST.json from the table below (keeps it schema-valid)."""
import json
import os

VERIF = os.path.dirname(os.path.dirname(os.path.abspath(__file__)))

BASE_OFF = ("cd /repo && for m in .; do (cd /repo/$m && GOFLAGS=-mod=mod GOPROXY=off GOSUMDB=off GOTOOLCHAIN=local "
            "go test -json -vet=off -count=1 -timeout 25m ./...); done")

MESH_NOTE = ("Trusted base: TLC; harness projection (public observers -> integers on the 1/1024 lattice + fingerprint of raw "
             "float bits); Go runtime slice growth as observed (risky shapes come from the MeshHeap model). Values off the "
             "lattice are judged only by frame/fingerprint, not by value.")

CHECKS = {
    "C01": dict(
        text=("TLA+ history machine MeshPool (contract) + MeshHeap (Go-slice heap model, finds capacity-dependent aliasing shapes); "
              "TLC generates histories (exhaustive to depth 3 over the operation instances incl. primitives, attribute windows and "
              "calls that must fail, simulation walks, risky shapes x sizes) and seeded large histories; further families: windows of "
              "one caller-owned array, pairs of generator calls with nearly equal parameters, every material list shape, distinct "
              "material objects under one name, magnitude ladders (weld cells up to 2^20, normals at 2^-e); all are executed on real "
              "modeling.Mesh values and the recorded trace is validated by "
              "TLC (TraceMeshPool): after every step every live slot is re-read through public observers and must be unchanged "
              "unless it is the destination."),
        note=MESH_NOTE, design="3/C01", technique="TLA+ spec + TLC trace validation of replayed histories"),
    "C02": dict(
        text=("Same pipeline as C01; TLC evaluates WellFormed (MeshValue.tla) on every real result of every admissible step, on every "
              "mesh of the pool after every step (PoolWellFormed) and checks closure of the specified operations on the model "
              "(invariant Closed); GenShapes.tla enumerates the parameter tuples of 21 generators (primitives, extrusions, repeat, "
              "triangulations, marching) incl. inadmissible ones: whatever is not rejected must be well formed."),
        note=MESH_NOTE, design="3/C02", technique="TLA+ spec + TLC trace validation of replayed histories"),
    "C03": dict(
        text=("Same pipeline as C01; TLC recomputes the reference result of every step with the TLA+ operator of that operation "
              "(MeshValue.tla) and compares under the operation's comparison class (exact / corner view) plus op-specific "
              "post-conditions; algebraic laws (flip-twice, weld-after-unweld, corner-view preservation) are invariants of MeshPool."),
        note=MESH_NOTE, design="3/C03", technique="TLA+ reference semantics + TLC trace validation"),
}

CHECKS["C11"] = dict(
    text=("NodeGraph.tla: contract-level state machine of the lazy cached graph (change events, cones, Dirty, symbolic from-scratch terms); "
          "NodeGraphImpl.tla: implementation-shaped model of depVersions/Outdated with arbitrary vs sorted dependency order (TLC: sorted "
          "refines the contract, map order violates Minimal but never NoStale). TLC enumerates histories (set/rewire/array add+del/read) "
          "over start shapes exhaustively to a bound, plus seeded histories on 8-node DAGs; each is executed several times on real "
          "nodes.Struct graphs (harness processors build the symbolic term and count executions; string and slice-valued parameters of "
          "both kinds - JSON messages incl. rejected ones, Set with the edit-in-place idiom - rotate over the repetitions; failing "
          "processors) and TraceNodeGraph judges every line: Fresh, Minimal, Once, Version."),
    note=("Trusted base: TLC; harness processors read all their inputs and count executions; parameter leaves are parameter.Value and "
          "nodes.Value; map-order nondeterminism is sampled by repetition, not enumerated."),
    design="3/C11", technique="TLA+ spec + TLC-generated histories replayed + TLC trace validation")
CHECKS["C13"] = dict(
    text=("ParamServer.tla: clients, producerLock and artifact evaluation split into leaf reads; with the lock TLC proves Atomic and "
          "MutualExclusion on the model, without it the same model generates torn-snapshot attack schedules. Schedules are imposed on "
          "real goroutines calling UpdateParameter/ParameterData/Artifact on a real graph.Instance (node processors block at harness "
          "gates). Every recorded invoke/response history (directed and free-running stress) is checked for linearizability against the "
          "sequential object by TLC (TraceParamServer: silent Lin steps, per-history acceptance registers). Failing and panicking "
          "producers, rejected updates, a CLI-initialised and a slice-valued parameter are part of the object; DeferUnlock = FALSE "
          "is refuted at design level (LockHeldByActive)."),
    note=("Trusted base: TLC; atomic-counter stamping of invoke/response; the Go race detector (auxiliary observer for the data-race "
          "clause) on the schedules actually executed; scheduler timeouts only influence which schedules are realised."),
    design="3/C13", technique="TLA+ linearizability trace validation + model-generated schedules on real goroutines")

CHECKS["C12"] = dict(
    text=("GraphEdit.tla: editor state machine (create, connect, array connect/disconnect, values, names, descriptions, producers, "
          "metadata, delete, continue-on-reloaded) with the contract of every operation and Save/Load as functions; TLC shows the "
          "round-trip law holds with index-ordered dependency lists and fails with the lexicographic order of the pinned code at "
          ">10 array inputs. TLC-generated histories (BFS from four preludes, 60-step simulation walks) and seeded random ones are "
          "executed on a real generator.App; after every step the app is saved, loaded into a fresh App and saved again; "
          "TraceGraphEdit judges Load, Reload (nodes, wiring incl. array order, values, names, producers, metadata as saved and as the "
          "applications show it), Artifacts, Resave (every combination of header fields) "
          "and checks the real graph against the model (vacuity guard). Shipped graph files go through load-save-load-save."),
    note=("Trusted base: TLC; projection of the App via Instance.Schema() and parameter accessors; hook App.VerifGraph (build tag verif). "
          "File/image parameters not exercised."),
    design="3/C12", technique="TLA+ spec + TLC-generated edit histories replayed + TLC trace validation")

CHECKS["C10"] = dict(
    text=("ParContract.tla (Visit(i) contract, triangle multisets), ParScan.tla (worker-pool partition; TLC refutes the pinned helper "
          "shape, proves the repaired one; generator of every interleaving for n<=8,w<=5 and sampled ones to n=40,w=17), ParField.tla "
          "(AddFieldParallel job queue / block list with NoRace; pinned shape refuted). TLC-chosen interleavings are imposed on the "
          "real goroutines by blocking harness callbacks; (index,value) events, outputs, evaluated lattice samples and marched "
          "triangle multisets are judged line by line by TracePar.tla against the sequential counterpart."),
    note=("Trusted base: TLC; gate controller (schedules are realised from the actually waiting set); Go race detector as auxiliary "
          "observer for the data-race clause on the executed schedules; marching compared on the Position attribute."),
    design="3/C10 and NOTES-c10.md", technique="TLA+ spec + TLC-generated schedules imposed on goroutines + TLC trace validation")

CHECKS["C06"] = dict(
    text=("GltfDoc.tla: glTF document tables with Valid (container/chunk arithmetic, index references, view and accessor ranges, "
          "component alignment, declared min/max, index values and width, equal attribute counts, extension declarations) and "
          "Denote/sharing predicates; GltfWriter.tla: implementation-shaped writer model (bytesWritten, dedup tables) on which TLC "
          "reproduces the unaligned-view, material-reference and material-once counterexamples and proves the repaired design. "
          "TLC-generated scene descriptors are written by the real WriteBinary/WriteText, parsed by an independent GLB/JSON/base64 "
          "parser and judged line by line by TraceGltf.tla."),
    note=("Trusted base: TLC; independent parser harness/gltffam; float32 images compared on bit patterns. Three open known findings "
          "(unaligned views after odd 16-bit index counts - pinned by the repository's own writer tests; scalar attributes not carried)."),
    design="3/C06 and NOTES-gltf.md", technique="TLA+ spec + TLC-generated scenes written by real code + TLC trace validation")

CHECKS["C17"] = dict(
    text=("Algebra.tla: exact integer algebra (cube rotation group as a state machine over signed permutation matrices, integer 3x3/4x4 "
          "matrices with Add/Mul/Det, unimodular walks, TRS, boxes); TLC explores the group/word graphs and checks the group laws on the "
          "spec, and generates words, matrix pairs (all 256 basis pairs), TRS and box cases that the harness executes with real "
          "quaternions, Matrix4x4, TRS, Mesh transforms and AABB; TraceAlgebra.tla judges exact lattice cases by equality and real "
          "(non-lattice) cases by residual bands proportional to magnitude."),
    note=("Trusted base: TLC; projection of reals to 1/1024 units with exactness flag; non-lattice laws decided by tolerance bands "
          "(DESIGN section 4)."),
    design="3/C17 and NOTES-alg.md", technique="TLA+ exact algebra + TLC-generated cases executed on real code + TLC trace validation")
CHECKS["C19"] = dict(
    text=("Sdf.tla: exact integer interior predicates of sphere, box, rounded box, capsule, rounded cone (hull of two balls), rounded "
          "cylinder, plane on a sample lattice, and the predicates Sign, Euclid, Lipschitz (all neighbouring lattice pairs and far "
          "pairs), SetOps, Translate on logged scaled values; SdfGen enumerates shape parameters; the real closures of math/sdf are "
          "sampled (every shape also at binary magnitudes 2^-40..2^40; a concurrent pass shares the closures of a case between 8 "
          "goroutines) and TraceSdf.tla judges every slab."),
    note=("Trusted base: TLC; values logged at 1/Q precision (Q <= 1000); Euclidean equality and Lipschitz within explicit integer "
          "bands; this property is the one furthest from TLA+'s home ground and is claimed at that stated strength."),
    design="3/C19 and NOTES-alg.md", technique="TLA+ exact point-set semantics + sampled real closures + TLC trace validation")

CHECKS["C05"] = dict(
    text=("ObjFormat.tla: OBJ statement machine (v/vt/vn pools, g, usemtl, four corner syntaxes), Denote(statements) and the writer "
          "contract (every index in range of its own pool, denotation equals the source list, re-save loses or invents no face); TLC "
          "enumerates mesh lists (attribute mixes, material partitions) and valid OBJ texts in every legal arrangement of g/usemtl; "
          "the real writer output is tokenised by an independent tokenizer and run through the statement machine by TraceObj.tla, the "
          "real reader is judged against Denote, and loaded meshes are re-saved and judged again."),
    note=("Trusted base: TLC; independent tokenizer in harness/objfam; float32 precision of coordinates. One open known finding "
          "(a zero-triangle mesh that is not last loses its group on read-back: needs a maintainer decision)."),
    design="3/C05 and NOTES-objstl.md", technique="TLA+ format machine + TLC-generated files/meshes + TLC trace validation")
CHECKS["C07"] = dict(
    text=("StlFormat.tla: binary STL record machine, SizeLaw (84 + 50 n, count field), Denote, writer contract (record i = corner "
          "positions of triangle i through the index as float32 bit patterns; facet normal = normalised mean of corner normals or the "
          "geometric normal) and reader contract; TLC enumerates index patterns / record lists (n = 0 included); real WriteMesh bytes "
          "are parsed by an independent parser and judged by TraceStl.tla; TLC-generated byte strings are read by the real reader and "
          "read-write-parse must reproduce the records."),
    note="Trusted base: TLC; independent STL parser/encoder in harness/stlfam; float32 images compared as two 16-bit halves.",
    design="3/C07 and NOTES-objstl.md", technique="TLA+ record machine + TLC-generated inputs + TLC trace validation")

CHECKS["C04"] = dict(
    text=("PlyFormat.tla: PLY header/body grammar, Denote(file), the writer contract (header describes the body: counts, property "
          "list, byte sizes; per-corner UVs through the index) and RoundTrip on corner views with 8-bit quantisation; TLC checks the "
          "layout rules on the spec for small meshes x three encodings x writer option sets and generates the cases; real ply.Write "
          "output is parsed by an independent parser and judged by TracePly.tla (WellFormedFile, Denote = source, encodings agree), "
          "the real reader is judged against the TLC-computed denotation."),
    note=("Trusted base: TLC; independent PLY parser/encoder in harness/plyfam; float32 fidelity on bit patterns. Open known findings: "
          "a single 8-bit scalar loads raw from ASCII but normalised from binary (the one-line repair breaks an existing test that "
          "pins the raw value)."),
    design="3/C04 and NOTES-ply.md", technique="TLA+ format grammar + TLC-generated meshes/options + TLC trace validation")
CHECKS["C08"] = dict(
    text=("PlyFormat.tla Denote for third-party files: any property order, type aliases, recognised groups, extra properties, comments, "
          "obj_info, CRLF, all list count/index types, triangle and quad faces; TLC generates header layouts and bodies (BFS small, "
          "-simulate wide); an independent encoder writes them in ascii / little / big endian, the real reader loads them and "
          "TracePly.tla compares with Denote."),
    note=("Trusted base: TLC; independent encoder written from the PLY specification. Open known findings: ascii 8-bit scalar raw "
          "(see C04) and groups whose members have different scalar types (documented as unsupported by the reader)."),
    design="3/C08 and NOTES-ply.md", technique="TLA+ format grammar + TLC-generated files + TLC trace validation")
CHECKS["C14"] = dict(
    text=("RecFile.tla / TruncFormats.tla: a file is a sequence of typed cells with byte spans; Cut(k) is a crash action; the allowed "
          "outcome set of a prefix (error, or the complete mesh only if every data cell is wholly present, or the fully contained "
          "splats for .splat) is computed by TLC; AsciiReader.tla reproduces the zero-filled-vertex and face-loop hang counterexamples "
          "of the pinned reader at design level. Independent encoders produce valid PLY (3 encodings), STL, SPZ, PTS and .splat files "
          "with cell spans; every byte offset (binary) / token boundary and header byte (ASCII) is cut and decoded by the real readers "
          "under a deadline; TraceTrunc.tla judges each (file, cut, outcome)."),
    note=("Trusted base: TLC; independent encoders with cell spans (harness/refenc); termination observed with a wall-clock deadline "
          "(auxiliary observer); a panic counts as not reporting an error."),
    design="3/C14 and NOTES-trunc.md", category="model_checking", technique="TLA+ crash-point model + exhaustive cut enumeration + TLC trace validation")
CHECKS["C15"] = dict(
    text=("SplatFormat.tla: .splat record layout and round-trip tolerance predicates in integer units; SPZ header and planar layout law "
          "Off(field,i,c) for versions 1/2, SH degrees 0-3, fractional bits, with TLC checking that the fields tile the stream; packed "
          "streams with distinct bytes and sign patterns are decoded by the real spz.Read and every decoded field is compared with the "
          "dequantisation of the byte the law names; .splat write/read and splat-PLY export are judged by TraceSplat.tla."),
    note="Trusted base: TLC; independent .splat/PLY parsers and SPZ stream builder; gzip framing from the standard library.",
    design="3/C15 and NOTES-trunc.md", technique="TLA+ layout law + TLC-generated streams + TLC trace validation")

CHECKS["C16"] = dict(
    text=("SpatialIndex.tla: contract (result set = exhaustive scan over per-element facts; closest = minimal squared distance, ties "
          "free; nearest ray hit = linear HitList) and TreeSound (every element in exactly one cell, cell bounds contain everything "
          "below); SpatialIndexMC: implementation-shaped traversal with pruning and best-first queue, on which TLC shows pruning is "
          "complete iff TreeSound and refutes the shared-loop-variable variant. Seeded and TLC-enumerated element sets (points, segments, "
          "triangles, spheres; clustered, coincident, single) on lattice coordinates; the real octree is dumped (hook), facts come from "
          "the element-level primitives over all elements, and TraceSpatial.tla judges every query of OctTree and BVH; a concurrent "
          "pass issues the queries of a batch from 8 goroutines on one tree."),
    note=("Trusted base: TLC; hook trees.VerifCells (build tag verif); lattice coordinates so squared distances are exact integers; "
          "'within a radius' is measured on element bounds as the library defines it."),
    design="3/C16 and NOTES-spatial.md", technique="TLA+ contract + dumped real structures + TLC trace validation")
CHECKS["C20"] = dict(
    text=("Delaunay.tla: exact integer Orient/InCircle determinants, GeneralPosition, UsesInput, SameWinding, PositiveArea, NoOverlap, "
          "EmptyCircle; DelaunayBW.tla: Bowyer-Watson state machine checked by TLC for every general-position sequence of <= 5 points "
          "on a 4x4 lattice (reproduces the fixed-margin super-triangle defect at design level). Real BowyerWatson runs on lattice "
          "point sets and their exact scaled/offset images (uniform, clustered, near-collinear hulls) and on anisotropic copies "
          "(aspect-ratio ladder 1.5:1..1000:1, judged in the stretched metric by Delaunay!JudgeS inside int32); TraceDelaunay.tla "
          "judges every triangulation on the small lattice coordinates; a concurrent pass makes the same calls from 8 goroutines."),
    note=("Trusted base: TLC; scaling by 2^k and offsets exact in float64; hull coverage is not in the statement and only counted; an "
          "all-empty run is reported as vacuous (exit 2), never as a pass."),
    design="3/C20 and NOTES-spatial.md", technique="TLA+ exact predicates + TLC-enumerated point sets + TLC trace validation")

CHECKS["C09"] = dict(
    text=("MarchTable.tla: the REAL 256-row table (exported by a hook, regenerated into MarchTableData.tla on every run) is checked "
          "exhaustively by TLC for T0-T4 (edges join inside/outside corners, in-cube pairing, face matching for all 12 288 case pairs, "
          "orientation on face segments); MarchGrid.tla: reference marching on small sign lattices with Closed/Oriented/PositiveVolume "
          "(Surface.tla), replayed into real canvases placed inside one block, across 100-cell block boundaries and at negative "
          "coordinates; seeded unions of spheres/boxes/lines at real positions are marched and TraceSurf.tla judges Closed, Oriented, "
          "NoDegenerate, 6V > 0 and |f(v)| within one cell."),
    note=("Trusted base: TLC; hook modeling/marching/verif_export.go (tables); cubeCornerPositions transcribed and bound by the replay. "
          "One open known finding: vertices identified by rounded position merge within 5e-5 cell of a lattice point and pinch the "
          "surface (repair = identify vertices by lattice edge, not small)."),
    design="3/C09 and NOTES-surf.md", technique="TLA+ table/lattice specs + TLC exhaustive table check + replay + TLC trace validation")
CHECKS["C18"] = dict(
    text=("Surface.tla predicates (Closed and Oriented on position classes, Outward 6V > 0, NormalSide, vertices on the analytic "
          "surface, rational volume bounds of the inscribed polyhedron and monotone approach to the analytic volume); TLC enumerates "
          "constructor parameter tuples (rows, columns, sides <= 8 exhaustively, sizes, UV options) plus seeded large counts; the real "
          "UVSphere / UVSphereUnwelded / Cube.Welded / Cube.UnweldedQuads / Cylinder / Hemisphere outputs are projected and judged by "
          "TraceSurf.tla."),
    note=("Trusted base: TLC; volume decided by rational bounds at the precision int32 allows (about 1-2 percent), not by equality "
          "with a closed form; hemisphere normals are not claimed by the statement."),
    design="3/C18 and NOTES-surf.md", technique="TLA+ surface predicates + TLC-enumerated parameters + TLC trace validation")

NOT_APPLICABLE = []


def main():
    props = [json.loads(l)["id"] for l in open(os.path.join(VERIF, "properties.jsonl"))]
    checks = []
    for pid in props:
        c = CHECKS.get(pid)
        if not c:
            continue
        checks.append({
            "property_id": pid,
            "quick_cmd": "./check %s --tier quick" % pid,
            "thorough_cmd": "./check %s --tier thorough" % pid,
            "evidence_file": "/verif/evidence/%s.json" % pid,
            "replay_cmd_template": "./check %s --replay {path}" % pid,
            "engine": "tlc",
            "level_claimed": {"category": c.get("category", "model_checking"), "text": c["text"],
                              "design_ref": "DESIGN.md section " + c["design"]},
            "level_note": c["note"],
            "technique": c["technique"],
        })
    claimed = {c["property_id"] for c in checks}
    na = [x for x in NOT_APPLICABLE if x["property_id"] not in claimed]
    for pid in props:
        if pid not in claimed and pid not in {x["property_id"] for x in na}:
            na.append({"property_id": pid, "reason": "check not built yet in this revision (planned, see DESIGN.md section 3)"})
    man = {
        "version": 1,
        "setup_cmd": "cd /verif && python3 tools/setup.py",
        "hooks": {
            "guard": "verif",
            "enable": "go build -tags verif (harness module /verif/harness with replace => /repo)",
            "baseline_off_cmd": BASE_OFF,
            "source_commits": ["fc07cc2", "0ec44c3", "589e4eb", "a59c8a3", "eea4351"],
            "add_only": True,
        },
        "engines": [
            {"name": "tlc", "path": "/opt/veriftools/tla/tla2tools.jar", "serves_properties": sorted(claimed),
             "kind_free_text": "TLC 1.8.0 model checker: exhaustive/simulation generation from TLA+ specs and trace validation"},
            {"name": "vh", "path": "/verif/harness", "serves_properties": sorted(claimed),
             "kind_free_text": "Go harness executing TLC-generated / seeded inputs on the real packages and projecting results"},
        ],
        "checks": checks,
        "not_applicable": na,
        "notes": "See DESIGN.md. known_findings.txt lists recorded and fixed defects.",
    }
    with open(os.path.join(VERIF, "MANIFEST.json"), "w") as f:
        json.dump(man, f, indent=1)
        f.write("\n")


if __name__ == "__main__":
    main()
