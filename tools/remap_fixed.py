#!/usr/bin/env python3
"""After cherry-picking fix commits from a family branch onto /repo main: rewrite the commit ids of the `fixed:` lines
of known_findings.txt that are not on main to the id of the main commit with the same subject."""
import subprocess, sys


def git(*a):
    return subprocess.run(["git", "-C", "/repo"] + list(a), stdout=subprocess.PIPE, stderr=subprocess.DEVNULL, text=True)


main = {}
for ln in git("log", "--format=%h\t%s", "main").stdout.splitlines():
    h, s = ln.split("\t", 1)
    main.setdefault(s, h)
out, n, bad = [], 0, 0
for ln in open("/verif/known_findings.txt"):
    if ln.startswith("fixed:"):
        parts = ln.split(" ", 3)
        sha = parts[2]
        if git("merge-base", "--is-ancestor", sha, "main").returncode != 0:
            subj = git("log", "-1", "--format=%s", sha).stdout.strip()
            if subj in main:
                parts[2] = main[subj]
                ln = " ".join(parts)
                n += 1
            else:
                bad += 1
                print("no commit on main for", sha, subj, file=sys.stderr)
    out.append(ln)
open("/verif/known_findings.txt", "w").writelines(out)
print("remapped %d, unresolved %d" % (n, bad))
