#!/usr/bin/env python3
"""Mutation smoke for X06 (run by hand): apply one realistic breaking change at a time to the
repository worktree, run the quick check, record exit code and reported signatures, restore.

usage: VERIF_REPO=/path/to/repo tools/mutation_xext.py [index ...]
"""
import os
import re
import subprocess
import sys

REPO = os.environ.get("VERIF_REPO", "/repo")
VERIF = os.path.dirname(os.path.dirname(os.path.abspath(__file__)))
E = "modeling/extrude/"
R = "modeling/repeat/"

MUTATIONS = [
    ("polygon: ring angle step 2pi/(sides+1)", E + "circle.go",
     "angleIncrement := (math.Pi * 2) / float64(sides)", "angleIncrement := (math.Pi * 2) / float64(sides+1)"),
    ("polygon: last quad of every strip missing", E + "circle.go",
     "for sideIndex := 0; sideIndex < sides; sideIndex++ {\n\t\t\ttopRight", "for sideIndex := 0; sideIndex < sides-1; sideIndex++ {\n\t\t\ttopRight"),
    ("polygon: closing strip joins the last ring to ring 1", E + "circle.go",
     "\t\t\tif closed {\n\t\t\t\ttop = 0", "\t\t\tif closed {\n\t\t\t\ttop = vertCount"),
    ("polygon: every ring uses the first point's thickness", E + "circle.go",
     "point.Scale(p.Thickness).Add(p.Point)", "point.Scale(points[0].Thickness).Add(p.Point)"),
    ("polygon: rings are not turned into the path direction", E + "circle.go",
     "rot := quaternion.RotationTo(lastDir, dir)\n\n\t\tfor sideIndex", "rot := quaternion.RotationTo(lastDir, lastDir)\n\t\t_ = dir\n\n\t\tfor sideIndex"),
    ("polygon: ring centred on the previous path point", E + "circle.go",
     "point.Scale(p.Thickness).Add(p.Point)", "point.Scale(p.Thickness).Add(points[max(i-1, 0)].Point)"),
    ("circle: Radii used when at least as long as the path", E + "circle.go",
     "varrying := len(c.Radii) == len(c.Path)", "varrying := len(c.Radii) >= len(c.Path)"),
    ("circle: ClosePath ignored again (fix 7ddcb1a reverted)", E + "circle.go",
     "return polygon(c.Resolution, points, c.ClosePath)", "return polygon(c.Resolution, points, false)"),
    ("spline: samples spaced by length/resolution", E + "circle.go",
     "inc := c.Spline.Length() / float64(c.SplineResolution-1)", "inc := c.Spline.Length() / float64(c.SplineResolution)"),
    ("polygon: UVs one short (loop over vertCount-1)", E + "circle.go",
     "\t\t\tfor sideIndex := 0; sideIndex < vertCount; sideIndex++ {\n\t\t\t\tpercentUsed", "\t\t\tfor sideIndex := 0; sideIndex < vertCount-1; sideIndex++ {\n\t\t\t\tpercentUsed"),
    ("polygon: winding flip test inverted (every tube consistently inside out)", E + "circle.go",
     "if dir.Dot(vertices[bottomLeft].Sub(pathPoint.Point)) < 0 {", "if dir.Dot(vertices[bottomLeft].Sub(pathPoint.Point)) > 0 {"),
    ("polygon: default winding reversed and flip removed", E + "circle.go",
     "\t\t\tif dir.Dot(vertices[bottomLeft].Sub(pathPoint.Point)) < 0 {", "\t\t\tif dir.Dot(vertices[bottomLeft].Sub(pathPoint.Point)) < 2 || true {"),
    ("tangent: middle rings use the leaving direction only", E + "extrusion_point.go",
     "directions[i] = sum.Normalized()", "directions[i] = out"),
    ("shape: seam quad uses slot 0 twice", E + "shape.go",
     "topLeft = top + sides - 1", "topLeft = top"),
    ("shape: closing strip wound the other way", E + "shape.go",
     "\t\t\ttris = append(\n\t\t\t\ttris,\n\n\t\t\t\tbottomLeft,\n\t\t\t\ttopLeft,\n\t\t\t\ttopRight,",
     "\t\t\tif top == 0 {\n\t\t\t\ttopLeft, bottomRight = bottomRight, topLeft\n\t\t\t}\n\t\t\ttris = append(\n\t\t\t\ttris,\n\n\t\t\t\tbottomLeft,\n\t\t\t\ttopLeft,\n\t\t\t\ttopRight,"),
    ("shape: middle rings perpendicular to the leaving segment", E + "shape.go",
     "dir = path[i+1].Sub(path[i]).Add(path[i].Sub(path[i-1]))", "dir = path[i+1].Sub(path[i])"),
    ("shape: ClosedShape does not close", E + "shape.go",
     "return makeShape(shape, path, true)", "return makeShape(shape, path, false)"),
    ("shape: stencil y scaled by 0.9 in ProjectFace", E + "util.go",
     "vector3.New(shape[i].X(), shape[i].Y(), 0)", "vector3.New(shape[i].X(), shape[i].Y()*0.9, 0)"),
    ("shape: straight-run fallback removed (fix 46912b7 reverted in effect)", E + "shape.go",
     "\t\tpers[i] = per\n\t}\n\n\tvertices", "\t\t_ = per\n\t}\n\n\tvertices"),
    ("shape: frame side not kept through opposite bends (fix 07412d7 reverted)", E + "shape.go",
     "if pers[i].Dot(pers[i-1]) < 0 {", "if pers[i].Dot(pers[i-1]) < -1e300 {"),
    ("polygon: frame not accumulated (lastRot = rot)", E + "circle.go",
     "lastRot = rot.Multiply(lastRot)", "lastRot = rot"),
    ("line: left edge at half the width", E + "line.go",
     "leftPoint := low.Sub(outDir)", "leftPoint := low.Sub(outDir.Scale(0.5))"),
    ("line: left side wound the other way", E + "line.go",
     "frontLeft, backLeft, backMiddle,", "frontLeft, backMiddle, backLeft,"),
    ("line: height ignored", E + "line.go",
     "low := p.Point.Add(p.Up.Scale(p.Height))", "low := p.Point"),
    ("screw: half the rotation", E + "screw.go",
     "rotInc := math.Pi * 2 * revolutions * segmentInc", "rotInc := math.Pi * revolutions * segmentInc"),
    ("screw: lift per segment = distance/segments", E + "screw.go",
     "posInc := axis.Scale(distance * segmentInc)", "posInc := axis.Scale(distance / float64(segments))"),
    ("screw: second triangle of every quad uses bottomLeft twice", E + "screw.go",
     "topRight, bottomRight, topLeft,", "topRight, bottomLeft, topLeft,"),
    ("repeat.Line: step = span/(inbetween+2)", R + "line.go",
     "inc := dir.DivByConstant(float64(inbetween + 1))", "inc := dir.DivByConstant(float64(inbetween + 2))"),
    ("repeat.Line: end point missing", R + "line.go",
     "\t\ttrs.Position(start),\n\t\ttrs.Position(end),", "\t\ttrs.Position(start),"),
    ("repeat.LineNode: Times=1 panics again (fix 6be0bcc reverted)", R + "line.go",
     "return LineExlusive(start, end, 1), nil", "LineExlusive(start, end, 1)"),
    ("repeat.Circle: copies not turned outward (angle instead of angle - pi/2)", R + "circle.go",
     "quaternion.FromTheta(angle-(math.Pi/2), vector3.Down[float64]())", "quaternion.FromTheta(angle, vector3.Down[float64]())"),
    ("repeat.Circle: angle step 2pi/(times+1)", R + "circle.go",
     "func Circle(times int, radius float64) []trs.TRS {\n\tangleIncrement := (1.0 / float64(times)) * 2.0 * math.Pi",
     "func Circle(times int, radius float64) []trs.TRS {\n\tangleIncrement := (1.0 / float64(times+1)) * 2.0 * math.Pi"),
    ("repeat.Fibonacci: azimuth starts one golden angle late", R + "fibonacci.go",
     "theta := phi * float64(i) // golden angle increment", "theta := phi * float64(i+1)"),
    ("repeat.Fibonacci: y from 1 to -1 over samples instead of samples-1", R + "fibonacci.go",
     "y = 1 - (float64(i)/float64(samples-1))*2.", "y = 1 - (float64(i)/float64(samples))*2."),
    ("repeat.Spline: in-between copies start at distance 0", R + "curve.go",
     "dist := inc * float64(i+1)\n\t\tdir := curve.Dir(dist)", "dist := inc * float64(i)\n\t\tdir := curve.Dir(dist)"),
    ("repeat.Spline: copies look against the curve", R + "curve.go",
     "\t\t\tcurve.At(dist),\n\t\t\tquaternion.RotationTo(vector3.Forward[float64](), dir),",
     "\t\t\tcurve.At(dist),\n\t\t\tquaternion.RotationTo(vector3.Forward[float64](), dir.Scale(-1)),"),
    ("repeat.Mesh: copies appended in reverse order", R + "repeat.go",
     "result = result.Append(mesh.ApplyTRS(transform))", "result = mesh.ApplyTRS(transform).Append(result)"),
    ("repeat.Mesh: first transform skipped", R + "repeat.go",
     "for _, transform := range transforms {", "for i, transform := range transforms {\n\t\tif i == 0 && len(transforms) > 1 {\n\t\t\tcontinue\n\t\t}"),
]


def main():
    want = [int(a) for a in sys.argv[1:]] or range(len(MUTATIONS))
    rows = []
    for i in want:
        name, rel, old, new = MUTATIONS[i]
        path = os.path.join(REPO, rel)
        src = open(path).read()
        if src.count(old) != 1:
            rows.append((i, name, "NOT-APPLIED (%d matches)" % src.count(old), ""))
            continue
        open(path, "w").write(src.replace(old, new))
        try:
            env = dict(os.environ, VERIF_REPO=REPO, VERIF_NCPU=os.environ.get("VERIF_NCPU", "6"))
            p = subprocess.run(["./check", "X06", "--tier", "quick"], cwd=VERIF, env=env, stdout=subprocess.PIPE,
                               stderr=subprocess.PIPE, text=True, timeout=1500)
            sigs = sorted(set(re.findall(r"signature=(\S+)", p.stdout)))
            info = "; ".join(sigs[:6]) + (" (+%d)" % (len(sigs) - 6) if len(sigs) > 6 else "")
            if p.returncode == 2:
                info = (p.stderr.strip().splitlines() or ["?"])[-1][:200]
            rows.append((i, name, "exit %d" % p.returncode, info))
        finally:
            subprocess.run(["git", "checkout", "--", rel], cwd=REPO, check=True)
        print("%2d | %s | %s | %s" % rows[-1], flush=True)
    missed = [r for r in rows if r[2] != "exit 1"]
    print("caught %d of %d" % (len(rows) - len(missed), len(rows)))


if __name__ == "__main__":
    main()
