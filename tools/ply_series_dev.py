#!/usr/bin/env python3
"""Development helper: run only the series stage of C04 / C08 (PlySeries) and print the rejections.
usage: VERIF_REPO=<tree> tools/ply_series_dev.py C08 [quick|thorough]"""
import json, os, sys, time
sys.path.insert(0, os.path.dirname(os.path.dirname(os.path.abspath(__file__))))
from vlib import core
from checks import plyfam
pid = sys.argv[1]
ctx = core.Ctx(pid + "-seriesdev", sys.argv[2] if len(sys.argv) > 2 else "quick", int(os.environ.get("VERIF_SEED", "1")))
t0 = time.time()
vh = core.build_vh()
cases, findings, raw = plyfam.run_series(ctx, vh, pid)
if os.environ.get("VERIF_SELFTEST") == "1":
    plyfam.self_test_series(ctx, raw, findings, pid)
    print(json.dumps(ctx.extra["series_selftest_rejected_by"]))
sigs = {}
for f in findings:
    sigs.setdefault(plyfam.signature(f), []).append((f["n"], f["at"], f["rerr"][:80]))
for s, v in sorted(sigs.items()):
    print(len(v), s, v[:3])
print(json.dumps(ctx.extra)[:1500])
print("cases", len(cases), "bytes of trace", sum(len(x) for x in raw), "wall %.1fs" % (time.time() - t0))
