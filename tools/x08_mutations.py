#!/usr/bin/env python3
"""Mutation smoke for X08: apply one change to a COPY of the repository, run the quick check of a copy of the framework,
record exit status and signatures in $B/muts.json, revert.  Usage: X08_MUT_BASE=<dir with repo/ and verif/> x08_mutations.py [ids]"""
import json, os, subprocess, sys, time
B = os.environ.get("X08_MUT_BASE", "/tmp/x08mut")   # holds copies: $B/repo (repository under test) and $B/verif (framework)
REPO = B + "/repo"
ENV = dict(os.environ, GOFLAGS="-mod=mod", GOPROXY="off", GOSUMDB="off", GOTOOLCHAIN="local", VERIF_REPO=REPO, VERIF_NCPU="6", VERIF_SEED="1")
APP = "generator/app.go"
MUTS = [
 ("m01", "Generate drops the sub-directories of a producer name (path.Base)", APP,
  "fp := path.Join(outputPath, name)", "fp := path.Join(outputPath, path.Base(name))"),
 ("m02", "Generate opens the file without truncating it (os.OpenFile O_WRONLY|O_CREATE)", APP,
  "f, err := os.Create(fp)", "f, err := os.OpenFile(fp, os.O_WRONLY|os.O_CREATE, 0o644)"),
 ("m03", "zip entry names: blanks replaced by underscores", APP,
  "filePath := path + file", "filePath := path + strings.ReplaceAll(file, \" \", \"_\")"),
 ("m04", "float flags are registered with default 0 instead of the parameter's value", "generator/parameter/value.go",
  "cli.value = set.Float64(cli.FlagName, (any(current)).(float64), cli.Usage)", "cli.value = set.Float64(cli.FlagName, 0, cli.Usage)"),
 ("m05", "cli.App.Run ignores the error of loading the graph file", "generator/cli/app.go",
  "err := a.ConfigProvided(firstArg)\n\tif err != nil {\n\t\treturn err\n\t}", "_ = a.ConfigProvided(firstArg)"),
 ("m06", "an unknown command after a graph file shows the help and succeeds", "generator/cli/app.go",
  "\treturn fmt.Errorf(\"unrecognized command %s\", firstArg)\n\n}", "\treturn commandMap[\"help\"].Run(runState)\n\n}"),
 ("m07", "outline no longer removes the node types that are not in use", APP,
  "if _, ok := usedTypes[schema.Types[i].Type]; !ok {", "if _, ok := usedTypes[schema.Types[i].Type]; !ok && false {"),
 ("m08", "generate's --folder defaults to out instead of the working directory", APP,
  'generateCmd.String("folder", ".", ', 'generateCmd.String("folder", "out", '),
 ("m09", "zip no longer rejects left-over words", APP,
  "if err := parseFlags(zipCmd, appState.Args); err != nil {", "if err := zipCmd.Parse(appState.Args); err != nil {"),
 ("m10", "swagger lists only the first parameter of a producer", "generator/app_swagger.go",
  "\t\tprops[paramName] = param.SwaggerProperty()\n", "\t\tprops[paramName] = param.SwaggerProperty()\n\t\tbreak\n"),
 ("m11", "help prints an empty version instead of (no version)", APP,
  'cliDetails.Version = "(no version)"', 'cliDetails.Version = ""'),
 ("m12", "Generate keeps evaluated artifacts in a package-level cache keyed by producer name (state leaks between runs)", APP,
  "\t\tart, err := evaluateProducer(a.graphInstance, name)\n\t\tif err != nil {\n\t\t\treturn err\n\t\t}\n\t\tartifacts[i] = art\n\t}\n\n\tfor i, name := range names {\n\t\tfp",
  "\t\tart, err := evaluateProducer(a.graphInstance, name)\n\t\tif err != nil {\n\t\t\treturn err\n\t\t}\n\t\tif old, ok := verifMutCache[name]; ok {\n\t\t\tart = old\n\t\t}\n\t\tverifMutCache[name] = art\n\t\tartifacts[i] = art\n\t}\n\n\tfor i, name := range names {\n\t\tfp"),
 ("m13", "new ignores --author", APP,
  'if authorFlag != nil && *authorFlag != "" {', 'if authorFlag != nil && *authorFlag != "" && false {'),
 ("m14", "mermaid --out creates the file but writes the chart to App.Out", APP,
  "\t\t\t\t\tout = f\n\t\t\t\t}\n\n\t\t\t\treturn WriteMermaid(*a, out)", "\t\t\t\t\t_ = f\n\t\t\t\t}\n\n\t\t\t\treturn WriteMermaid(*a, out)"),
 ("m15", "ApplySchema no longer takes the application name from the graph file", APP,
  'if graph.Name != "" {\n\t\ta.Name = graph.Name\n\t}', 'if graph.Name != "" {\n\t\t_ = graph.Name\n\t}'),
 ("m16", "Generate creates folders with mode 0600 (cannot be entered)", APP,
  "err := os.MkdirAll(filepath.Dir(fp), os.ModePerm)", "err := os.MkdirAll(filepath.Dir(fp), 0o600)"),
 ("m17", "the int flag's value is parsed but the parameter keeps its own (CliConfig[int] not stored)", "generator/parameter/value.go",
  "cli.value = set.Int(cli.FlagName, (any(current)).(int), cli.Usage)", "_ = set.Int(cli.FlagName, (any(current)).(int), cli.Usage)"),
 ("m18", "zip --out also writes the archive to App.Out", APP,
  "\t\t\t\t\t_, err = f.Write(archive.Bytes())\n\t\t\t\t\treturn err", "\t\t\t\t\t_, _ = appState.Out.Write(archive.Bytes())\n\t\t\t\t\t_, err = f.Write(archive.Bytes())\n\t\t\t\t\treturn err"),
]
EXTRA = {"m12": (APP, "//go:embed cli.tmpl", "var verifMutCache = map[string]artifact.Artifact{}\n\n//go:embed cli.tmpl"),
         "m03": (APP, 'import (\n\t"archive/zip"', 'import (\n\t"strings"\n\t"archive/zip"')}

def sh(cmd, cwd):
    return subprocess.run(cmd, shell=True, cwd=cwd, env=ENV, stdout=subprocess.PIPE, stderr=subprocess.STDOUT, text=True)

def main():
    only = sys.argv[1:]
    out = []
    for mid, what, f, old, new in MUTS:
        if only and mid not in only:
            continue
        sh("git checkout -- .", REPO)
        path = os.path.join(REPO, f)
        s = open(path).read()
        if old not in s:
            out.append({"id": mid, "what": what, "error": "pattern not found"})
            print(mid, "PATTERN NOT FOUND", flush=True)
            continue
        s = s.replace(old, new, 1)
        open(path, "w").write(s)
        if mid in EXTRA:
            ef, eo, en = EXTRA[mid]
            p2 = os.path.join(REPO, ef)
            s2 = open(p2).read()
            assert eo in s2
            open(p2, "w").write(s2.replace(eo, en, 1))
        b = sh("go build ./generator/...", REPO)
        if b.returncode != 0:
            out.append({"id": mid, "what": what, "error": "does not build: " + b.stdout[-300:]})
            print(mid, "BUILD FAILED", b.stdout[-300:], flush=True)
            continue
        t = sh("go test -vet=off -count=1 ./generator/... 2>&1 | grep -c '^FAIL'", REPO)
        t0 = time.time()
        r = sh("./check X08 --tier quick", B + "/verif")
        sigs = [l.split("signature=")[1].split(" :: ")[0] for l in r.stdout.splitlines() if "signature=" in l]
        rec = {"id": mid, "what": what, "exit": r.returncode, "signatures": sigs, "n": len(sigs), "wall": round(time.time() - t0), "repo_tests_failing_pkgs": t.stdout.strip()}
        if r.returncode == 2:
            rec["infra"] = r.stdout[-400:]
        out.append(rec)
        print(json.dumps(rec), flush=True)
        json.dump(out, open(B + "/muts.json", "w"), indent=1)
    sh("git checkout -- .", REPO)

main()
