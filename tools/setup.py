#!/usr/bin/env python3
"""setup_cmd: build the harness once from files on disk (offline)."""
import os
import sys

sys.path.insert(0, os.path.dirname(os.path.dirname(os.path.abspath(__file__))))
from vlib import core  # noqa: E402

os.makedirs(core.WORK, exist_ok=True)
try:
    core.build_vh()
except core.Infra as e:
    print(e)
    sys.exit(1)
print("setup ok")
