#!/usr/bin/env python3
"""Mutation smoke for the surface family (C09, C18). Not a registered command.

Applies one realistic breaking change at a time to the repository under test
(VERIF_REPO, must be a clean git worktree), runs the quick check, records the
exit code and the reported signatures, and restores the file with
`git checkout -- .`. Usage:

    VERIF_REPO=/path/to/polyform tools/mutation_surf.py [C09|C18] [name ...]
"""
import os
import subprocess
import sys

VERIF = os.path.dirname(os.path.dirname(os.path.abspath(__file__)))
REPO = os.environ.get("VERIF_REPO", "/repo")

# (property, name, file, old, new, what); old/new may be tuples of the same length (several sites of one change)
MUTATIONS = [
    ("C09", "table-row-winding", "modeling/marching/table.go",
     "\t{1, 8, 3, 9, 8, 1, -1, -1, -1, -1, -1, -1, -1, -1, -1, -1},",
     "\t{1, 8, 3, 9, 1, 8, -1, -1, -1, -1, -1, -1, -1, -1, -1, -1},",
     "one triangle of table row 3 with its winding reversed"),
    ("C09", "table-row-edge", "modeling/marching/table.go",
     "\t{0, 1, 9, -1, -1, -1, -1, -1, -1, -1, -1, -1, -1, -1, -1, -1},",
     "\t{0, 2, 9, -1, -1, -1, -1, -1, -1, -1, -1, -1, -1, -1, -1, -1},",
     "table row 2 uses cube edge 2 instead of 1"),
    ("C09", "edge-corner-table", "modeling/marching/table.go",
     "var cornerIndexBFromEdge = []int{\n\t1,\n\t2,\n\t3,\n\t0,",
     "var cornerIndexBFromEdge = []int{\n\t1,\n\t2,\n\t3,\n\t1,",
     "cube edge 3 ends at corner 1 instead of 0"),
    ("C09", "block-edge-axis-slip", "modeling/marching/canvas.go",
     "\t\t\t\t\t\tif pos.X != blockPosition.X {\n\t\t\t\t\t\t\tnewIndex.X = 0\n",
     "\t\t\t\t\t\tif pos.X != blockPosition.X {\n\t\t\t\t\t\t\tnewIndex.Y = 0\n",
     "corner fetched from the next block in x resets the y index"),
    ("C09", "no-final-weld", "modeling/marching/canvas.go",
     "\t\t\treturn marched.\n\t\t\t\tWeldByFloat3Attribute(attribute, 4).\n\t\t\t\tTransform(\n\t\t\t\t\tmeshops.ScaleAttribute3DTransformer{\n\t\t\t\t\t\tAttribute: attribute,\n\t\t\t\t\t\tAmount:    vector3.One[float64]().DivByConstant(d.cubesPerUnit),\n\t\t\t\t\t},\n\t\t\t\t)\n\t\t}\n\t}\n\tpanic(fmt.Errorf(\"canvas did not contain Float1 attribute %s\", attribute))\n}\n\nfunc (d MarchingCanvas) MarchParallel",
     "\t\t\treturn marched.\n\t\t\t\tTransform(\n\t\t\t\t\tmeshops.ScaleAttribute3DTransformer{\n\t\t\t\t\t\tAttribute: attribute,\n\t\t\t\t\t\tAmount:    vector3.One[float64]().DivByConstant(d.cubesPerUnit),\n\t\t\t\t\t},\n\t\t\t\t)\n\t\t}\n\t}\n\tpanic(fmt.Errorf(\"canvas did not contain Float1 attribute %s\", attribute))\n}\n\nfunc (d MarchingCanvas) MarchParallel",
     "block meshes are not welded together (seams stay open)"),
    ("C09", "weld-in-world-units", "modeling/marching/canvas.go",
     "\t\t\treturn marched.\n\t\t\t\tWeldByFloat3Attribute(attribute, 4).\n\t\t\t\tTransform(\n\t\t\t\t\tmeshops.ScaleAttribute3DTransformer{\n\t\t\t\t\t\tAttribute: attribute,\n\t\t\t\t\t\tAmount:    vector3.One[float64]().DivByConstant(d.cubesPerUnit),\n\t\t\t\t\t},\n\t\t\t\t)\n\t\t}\n\t}\n\tpanic(fmt.Errorf(\"canvas did not contain Float1 attribute %s\", attribute))\n}\n\nfunc (d MarchingCanvas) MarchParallel",
     "\t\t\treturn marched.\n\t\t\t\tTransform(\n\t\t\t\t\tmeshops.ScaleAttribute3DTransformer{\n\t\t\t\t\t\tAttribute: attribute,\n\t\t\t\t\t\tAmount:    vector3.One[float64]().DivByConstant(d.cubesPerUnit),\n\t\t\t\t\t},\n\t\t\t\t).\n\t\t\t\tWeldByFloat3Attribute(attribute, 3)\n\t\t}\n\t}\n\tpanic(fmt.Errorf(\"canvas did not contain Float1 attribute %s\", attribute))\n}\n\nfunc (d MarchingCanvas) MarchParallel",
     "the final weld done after scaling, to 0.001 world units (the defect repaired by 0769921)"),
    ("C09", "march-empty-panics", "modeling/marching/canvas.go",
     "\t\t\tmarched := d.marchFloat1(cutoff, sectionAttribute, section)\n\t\t\tif marched.PrimitiveCount() == 0 {\n\t\t\t\treturn marched\n\t\t\t}\n\t\t\t// Weld",
     "\t\t\tmarched := d.marchFloat1(cutoff, sectionAttribute, section).Transform(meshops.ScaleAttribute3DTransformer{Attribute: attribute, Amount: vector3.One[float64]()})\n\t\t\t// Weld",
     "the sequential marcher transforms an empty result (the defect repaired by c741ba1)"),
    ("C09", "march-on-attribute-scales-position", "modeling/marching/canvas.go",
     "\t\t\treturn marched.\n\t\t\t\tWeldByFloat3Attribute(attribute, 4).\n\t\t\t\tTransform(\n\t\t\t\t\tmeshops.ScaleAttribute3DTransformer{\n\t\t\t\t\t\tAttribute: attribute,\n\t\t\t\t\t\tAmount:    vector3.One[float64]().DivByConstant(d.cubesPerUnit),\n\t\t\t\t\t},\n\t\t\t\t)\n\t\t}\n\t}\n\tpanic(fmt.Errorf(\"canvas did not contain Float1 attribute %s\", attribute))\n}\n\nfunc (d MarchingCanvas) MarchParallel",
     "\t\t\treturn marched.\n\t\t\t\tWeldByFloat3Attribute(attribute, 4).\n\t\t\t\tTransform(\n\t\t\t\t\tmeshops.ScaleAttribute3DTransformer{\n\t\t\t\t\t\tAmount:    vector3.One[float64]().DivByConstant(d.cubesPerUnit),\n\t\t\t\t\t},\n\t\t\t\t)\n\t\t}\n\t}\n\tpanic(fmt.Errorf(\"canvas did not contain Float1 attribute %s\", attribute))\n}\n\nfunc (d MarchingCanvas) MarchParallel",
     "the scale step addresses Position instead of the marched attribute (the defect repaired by f7c1cf0)"),
    ("C09", "winding-flip", "modeling/marching/canvas.go",
     "\t\t\t\t\t\tLookupOrAdd(marchingWorkingData, v2),\n\t\t\t\t\t\tLookupOrAdd(marchingWorkingData, v3),",
     "\t\t\t\t\t\tLookupOrAdd(marchingWorkingData, v3),\n\t\t\t\t\t\tLookupOrAdd(marchingWorkingData, v2),",
     "every triangle emitted with reversed winding"),
    ("C09", "negative-chunk-truncation", "modeling/marching/canvas.go",
     "\t\tX: int(math.Floor(float64(x) / marchingSectionSize)),",
     "\t\tX: x / marchingSectionSize,",
     "block coordinate by truncating division (wrong below zero)"),
    ("C09", "interpolation-ignores-cutoff", "modeling/marching/canvas.go",
     "\treturn (cutoff - v1v) / (v2v - v1v)",
     "\treturn (0 - v1v) / (v2v - v1v)",
     "vertex placed at the zero crossing whatever the threshold"),
    ("C09", "sample-shift", "modeling/marching/canvas.go",
     "\t\t\t\t\tNew(float64(x), float64(y), float64(z)).\n\t\t\t\t\tDivByConstant(d.cubesPerUnit)\n\n\t\t\t\tshiftedPos",
     "\t\t\t\t\tNew(float64(x+1), float64(y), float64(z)).\n\t\t\t\t\tDivByConstant(d.cubesPerUnit)\n\n\t\t\t\tshiftedPos",
     "field sampled one cell to the side of where it is stored"),
    ("C09", "vertex-share-precision", "modeling/marching/canvas.go",
     "\tdistritized := modeling.Vector3ToInt(vert, 4)",
     "\tdistritized := modeling.Vector3ToInt(vert, 0)",
     "vertices shared inside a block by position rounded to whole cells"),
    ("C09", "final-weld-finer-than-block-sharing", "modeling/marching/canvas.go",
     "\t\t\tmarched := d.marchFloat1(cutoff, sectionAttribute, section)\n\t\t\tif marched.PrimitiveCount() == 0 {\n\t\t\t\t// same as MarchOnAttributeParallel: an empty surface has no\n\t\t\t\t// attribute to scale or weld\n\t\t\t\treturn marched\n\t\t\t}\n\t\t\t// Weld the block meshes while the vertices are still in canvas (cell)\n\t\t\t// units, with the precision LookupOrAdd uses inside a block. Welding\n\t\t\t// after scaling to world units (to 3 decimals) merged distinct\n\t\t\t// vertices of neighbouring edges as soon as a cell was not much\n\t\t\t// larger than 0.001 units, which pinched the surface.\n\t\t\treturn marched.\n\t\t\t\tWeldByFloat3Attribute(attribute, 4).",
     "\t\t\tmarched := d.marchFloat1(cutoff, sectionAttribute, section)\n\t\t\tif marched.PrimitiveCount() == 0 {\n\t\t\t\treturn marched\n\t\t\t}\n\t\t\treturn marched.\n\t\t\t\tWeldByFloat3Attribute(attribute, 5).",
     "sequential marcher welds the blocks to 5 decimals while a block shares vertices at 4 (seeded change C09-r2m2, sequential half)"),
    ("C09", "block-sharing-coarser-than-final-weld", "modeling/marching/canvas.go",
     "\tdistritized := modeling.Vector3ToInt(vert, 4)",
     "\tdistritized := modeling.Vector3ToInt(vert, 3)",
     "vertices shared inside a block at 3 decimals, blocks welded at 4"),
    ("C09", "interpolate-from-either-end", "modeling/marching/canvas.go",
     "\tif v2.X() < v1.X() || v2.Y() < v1.Y() || v2.Z() < v1.Z() {\n\t\tv1, v2 = v2, v1\n\t\tv1v, v2v = v2v, v1v\n\t}\n",
     "",
     "lattice edges interpolated from whichever end the table names (the defect repaired by c92dfdc): needs a vertex "
     "ON a rounding step of the vertex sharing and ~1e-12 relative floating-point luck - thorough finds it in some seeds, quick rarely"),
    ("C18", "sphere-top-fan-flipped", "modeling/primitives/sphere.go",
     "\t\ttris = append(tris, 0, i1, i0)\n",
     "\t\ttris = append(tris, 0, i0, i1)\n",
     "top pole fan of the welded sphere wound the other way"),
    ("C18", "sphere-seam-off-by-one", "modeling/primitives/sphere.go",
     "\t\t\ti2 := j1 + (i+1)%columns\n\t\t\ti3 := j1 + i\n\t\t\t// mesh.add_quad(Vertex(i0), Vertex(i1),\n\t\t\t// \tVertex(i2), Vertex(i3))\n\n\t\t\ttris = append(\n\t\t\t\ttris,\n\t\t\t\ti0, i1, i2,",
     "\t\t\ti2 := j1 + (i+2)%columns\n\t\t\ti3 := j1 + i\n\t\t\t// mesh.add_quad(Vertex(i0), Vertex(i1),\n\t\t\t// \tVertex(i2), Vertex(i3))\n\n\t\t\ttris = append(\n\t\t\t\ttris,\n\t\t\t\ti0, i1, i2,",
     "welded sphere quad strip picks the wrong lower-right vertex"),
    ("C18", "sphere-latitudes", "modeling/primitives/sphere.go",
     "\tfor i := 0; i < rows-1; i++ {\n\t\tphi := math.Pi * float64(i+1) / float64(rows)\n\t\tfor j := 0; j < columns; j++ {\n\t\t\ttheta := 2.0 * math.Pi * float64(j) / float64(columns)\n\t\t\tx := math.Sin(phi) * math.Cos(theta)\n\t\t\ty := math.Cos(phi)\n\t\t\tz := math.Sin(phi) * math.Sin(theta)\n\t\t\tpositions = append(",
     "\tfor i := 0; i < rows-1; i++ {\n\t\tphi := math.Pi * float64(i+1) / float64(rows+1)\n\t\tfor j := 0; j < columns; j++ {\n\t\t\ttheta := 2.0 * math.Pi * float64(j) / float64(columns)\n\t\t\tx := math.Sin(phi) * math.Cos(theta)\n\t\t\ty := math.Cos(phi)\n\t\t\tz := math.Sin(phi) * math.Sin(theta)\n\t\t\tpositions = append(",
     "welded sphere rings at latitudes k*pi/(rows+1): still inscribed and closed, wrong polyhedron"),
    ("C18", "cylinder-bottom-not-rotated", "modeling/primitives/cylinder.go",
     "\t\t\t\t\tAttribute: modeling.PositionAttribute,\n\t\t\t\t\tAmount:    quaternion.FromTheta(math.Pi, vector3.New(1., 0., 0.)),",
     "\t\t\t\t\tAttribute: modeling.PositionAttribute,\n\t\t\t\t\tAmount:    quaternion.FromTheta(0, vector3.New(1., 0., 0.)),",
     "bottom cap translated but not turned over"),
    ("C18", "cylinder-ring-radius", "modeling/primitives/cylinder.go",
     "\t\tvertices[(sideIndex*2)+1] = vector3.New(math.Cos(angle)*c.Radius, -halfHeight, math.Sin(angle)*c.Radius)",
     "\t\tvertices[(sideIndex*2)+1] = vector3.New(math.Cos(angle), -halfHeight, math.Sin(angle))",
     "lower ring of the side strip not scaled by the radius"),
    ("C18", "cylinder-side-normals-inward", "modeling/primitives/cylinder.go",
     "\t\tnormals[sideIndex*2] = vector3.New(math.Cos(angle), .1, math.Sin(angle)).Normalized()",
     "\t\tnormals[sideIndex*2] = vector3.New(-math.Cos(angle), .1, -math.Sin(angle)).Normalized()",
     "upper side normals point at the axis"),
    ("C18", "cube-quads-left-face-misplaced", "modeling/primitives/cube.go",
     "\t).Translate(vector3.New(-halfW, 0., 0.))",
     "\t).Translate(vector3.New(-halfD, 0., 0.))",
     "left quad placed at -depth/2 instead of -width/2"),
    ("C18", "cube-welded-face-flipped", "modeling/primitives/cube.go",
     "\t// Top\n\t2, 3, 7,\n",
     "\t// Top\n\t2, 7, 3,\n",
     "one triangle of the welded cube's top face reversed"),
    ("C18", "hemisphere-cap-flipped", "modeling/primitives/hemisphere.go",
     "\t\ttris = append(tris, 0, i0, i1)\n",
     "\t\ttris = append(tris, 0, i1, i0)\n",
     "flat face of the hemisphere wound the other way"),
    ("C18", "unwelded-sphere-bottom-fan", "modeling/primitives/sphere.go",
     "\t\t\tcalculatedPositions[v1i],\n\t\t\tcalculatedPositions[i0],\n\t\t\tcalculatedPositions[i1],",
     "\t\t\tcalculatedPositions[v1i],\n\t\t\tcalculatedPositions[i1],\n\t\t\tcalculatedPositions[i0],",
     "bottom fan of the unwelded sphere wound the other way"),
    ("C18", "welded-sphere-package-level-buffer", "modeling/primitives/sphere.go",
     ("func UVSphere(radius float64, rows, columns int) modeling.Mesh {\n", "\tpositions := make([]vector3.Float64, 0)\n"),
     ("var uvSpherePositions []vector3.Float64\n\nfunc UVSphere(radius float64, rows, columns int) modeling.Mesh {\n",
      "\tpositions := uvSpherePositions[:0]\n\tdefer func() { uvSpherePositions = positions[:0] }()\n"),
     "welded sphere builds its vertex list in a package-level buffer that the returned mesh keeps (seeded change C18-r2m1)"),
    ("C18", "unwelded-sphere-package-level-scratch", "modeling/primitives/sphere.go",
     ("func UVSphereUnwelded(radius float64, rows, columns int) modeling.Mesh {\n", "\tcalculatedPositions := make([]vector3.Float64, 0)\n"),
     ("var unweldedRing []vector3.Float64\n\nfunc UVSphereUnwelded(radius float64, rows, columns int) modeling.Mesh {\n",
      "\tcalculatedPositions := unweldedRing[:0]\n\tdefer func() { unweldedRing = calculatedPositions[:0] }()\n"),
     "unwelded sphere computes its ring positions in a package-level scratch buffer: wrong only under concurrent calls (seeded change C18-r2m2)"),
]


def sh(cmd, **kw):
    return subprocess.run(cmd, stdout=subprocess.PIPE, stderr=subprocess.STDOUT, text=True, **kw)


def main():
    args = sys.argv[1:]
    props = [a for a in args if a in ("C09", "C18")] or ["C09", "C18"]
    names = [a for a in args if a not in ("C09", "C18")]
    if sh(["git", "status", "--porcelain"], cwd=REPO).stdout.strip():
        sys.exit("repository worktree %s is not clean" % REPO)
    rows = []
    for prop, name, rel, old, new, what in MUTATIONS:
        if prop not in props or (names and name not in names):
            continue
        path = os.path.join(REPO, rel)
        src = open(path).read()
        olds, news = (old, new) if isinstance(old, tuple) else ((old,), (new,))
        counts = [src.count(o) for o in olds]
        if counts != [1] * len(olds):
            rows.append((prop, name, "NOT-APPLIED (patterns found %s times)" % counts, ""))
            continue
        try:
            mutated = src
            for o, n in zip(olds, news):
                mutated = mutated.replace(o, n)
            open(path, "w").write(mutated)
            p = sh([os.path.join(VERIF, "check"), prop, "--tier", "quick"], cwd=VERIF)
            sigs = sorted(set(l.split("::")[0].strip().replace("signature=", "") for l in p.stdout.splitlines()
                              if l.strip().startswith("signature=")))
            infra = [l for l in p.stdout.splitlines() if l.startswith("INFRA-FAILURE")]
            rows.append((prop, name, "exit %d" % p.returncode, "; ".join(sigs[:6]) + (" ..." if len(sigs) > 6 else "")
                         + (" " + infra[0][:160] if infra else "")))
        finally:
            sh(["git", "checkout", "--", "."], cwd=REPO)
        print("%s %-32s %-8s %s   [%s]" % (rows[-1][0], rows[-1][1], rows[-1][2], rows[-1][3], what), flush=True)
    missed = [r for r in rows if r[2] != "exit 1"]
    print("%d mutations, %d detected (exit 1), %d other" % (len(rows), len(rows) - len(missed), len(missed)))


if __name__ == "__main__":
    main()
