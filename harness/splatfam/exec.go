// Package splatfam executes the gaussian-splat codecs of polyform on
// generated inputs (C15) and projects what they did into the integer units of
// SplatFormat.tla. It only executes and projects; TraceSplat.tla judges.
//
// Projections (no comparisons, no expected values):
//   - float32 fidelity: IEEE bit pattern of float32(x) as two 16 bit halves,
//     plus a flag "x is exactly that float32";
//   - dyadic values (SPZ positions): normal form m*2^e with m odd, or nan/inf;
//   - rational dequantised fields: round(x*U) for the unit U the specification
//     names, plus a flag "x*U is that integer";
//   - byte-coded .splat fields in 1/1000 of an 8-bit step (the unit the
//     property speaks in): colour (fdc*SH_C0+0.5)*255, opacity
//     sigmoid(o)*255, rotation r*128+128; scale in units of 2^-20.
package splatfam

import (
	"bufio"
	"bytes"
	"encoding/json"
	"fmt"
	"io"
	"math"
	"math/rand"
	"os"
	"reflect"
	"strconv"
	"strings"

	"github.com/EliCDavis/polyform/formats/ply"
	"github.com/EliCDavis/polyform/formats/splat"
	"github.com/EliCDavis/polyform/formats/spz"
	"github.com/EliCDavis/polyform/modeling"
	"github.com/EliCDavis/vector/vector3"
	"github.com/EliCDavis/vector/vector4"

	"verifharness/refenc"
)

// SH_C0 of the 3DGS colour convention (the .splat format's published constant).
const shC0 = 0.28209479177387814

// Case is one generated input: an SPZ stream description or a splat cloud.
type Case struct {
	Id    int    `json:"id"`
	Kind  string `json:"kind"` // spz | cloud
	Hdr   []int  `json:"hdr"`
	Pay   []int  `json:"pay"`
	Frame string `json:"frame"`
	Blk   int    `json:"blk"`
	// Pat names the index function TLC built Pay from ("" for seeded random bytes): the
	// trace then carries the name instead of the bytes. Per: period (in points) the
	// observation may be logged with. Dl: delivery of the file (see pieces). La, Lg: the
	// array / granularity a size-ladder stream was generated for (echoed).
	Pat string `json:"pat"`
	Per int    `json:"per"`
	Dl  int    `json:"dl"`
	La  string `json:"la"`
	Lg  int    `json:"lg"`
	// cloud: integer codes in 1/Unit (TLC) or floats (seeded generator)
	Unit    int      `json:"unit"`
	Splats  []ISplat `json:"splats"`
	FSplats []FSplat `json:"fsplats"`
	FRest   int      `json:"frest"`  // number of f_rest_k scalar attributes
	Normal  bool     `json:"normal"` // cloud carries normals
}

type ISplat struct {
	P []int `json:"p"`
	S []int `json:"s"`
	C []int `json:"c"`
	A int   `json:"a"`
	R []int `json:"r"`
}

type FSplat struct {
	P []float64 `json:"p"`
	S []float64 `json:"s"`
	C []float64 `json:"c"`
	A float64   `json:"a"`
	R []float64 `json:"r"`
}

const sat = 1 << 30

func satRound(x float64) int {
	if math.IsNaN(x) {
		return -sat
	}
	r := math.Round(x)
	if r > sat {
		return sat
	}
	if r < -sat {
		return -sat
	}
	return int(r)
}

// unit projects x to round(x*u) with an exactness flag (1/0).
func unit(x, u float64) (int, int) {
	y := x * u
	q := satRound(y)
	ex := 0
	if math.Abs(y-float64(q)) <= 1e-9*math.Max(1, math.Abs(y)) && q > -sat && q < sat {
		ex = 1
	}
	return q, ex
}

// dyadic projects x to [kind, m, e]: x = m*2^e with m odd (kind 0), nan (1),
// +inf (2), -inf (3); kind 4 when the odd mantissa needs more than 31 bits.
func dyadic(x float64) []int {
	switch {
	case math.IsNaN(x):
		return []int{1, 0, 0}
	case math.IsInf(x, 1):
		return []int{2, 0, 0}
	case math.IsInf(x, -1):
		return []int{3, 0, 0}
	case x == 0:
		return []int{0, 0, 0}
	}
	frac, exp := math.Frexp(x)
	m := int64(frac * (1 << 53))
	e := exp - 53
	for m%2 == 0 {
		m /= 2
		e++
	}
	if m >= 1<<31 || m <= -(1<<31) {
		return []int{4, 0, 0}
	}
	return []int{0, int(m), e}
}

// f32 projects x to the bit pattern of float32(x) as [hi16, lo16].
func f32(x float64) []int {
	b := math.Float32bits(float32(x))
	return []int{int(b >> 16), int(b & 0xffff)}
}

func f32ex(x float64) []int {
	f := float32(x)
	b := math.Float32bits(f)
	ex := 0
	if float64(f) == x {
		ex = 1
	}
	return []int{int(b >> 16), int(b & 0xffff), ex}
}

func bits32(b uint32) []int { return []int{int(b >> 16), int(b & 0xffff)} }

func sigmoid(x float64) float64 { return 1 / (1 + math.Exp(-x)) }

// ------------------------------------------------------------------ SPZ ---

type spzDec struct {
	N      int       `json:"n"`
	Hdr    []int     `json:"hdr"`
	Lens   []int     `json:"lens"`   // Position, Opacity, FDC, Scale, Rotation
	ShLens []int     `json:"shlens"` // SH_0, SH_1, ...
	Other  []string  `json:"other"`
	Pos    [][][]int `json:"pos"`
	Alpha  [][]int   `json:"alpha"`
	Color  [][]int   `json:"color"`
	Scale  [][]int   `json:"scale"`
	Rot    [][]int   `json:"rot"`
	Sh     [][][]int `json:"sh"`
	// entries [i, value] of the arrays above that were dropped from them because
	// i >= per; only those that differ from entry i-per are listed (lossless:
	// entry i is the listed one, else entry i-per)
	XPos   []interface{} `json:"xpos"`
	XAlpha []interface{} `json:"xalpha"`
	XColor []interface{} `json:"xcolor"`
	XScale []interface{} `json:"xscale"`
	XRot   []interface{} `json:"xrot"`
	XSh    []interface{} `json:"xsh"`
}

// periodic keeps the first per entries and lists [i, entry] for every later
// entry that differs from entry i-per (per <= 0: everything is kept).
func periodic[T any](all []T, per int) ([]T, []interface{}) {
	exc := []interface{}{}
	if per <= 0 || len(all) <= per {
		return all, exc
	}
	for i := per; i < len(all); i++ {
		if !reflect.DeepEqual(all[i], all[i-per]) {
			exc = append(exc, []interface{}{i, all[i]})
		}
	}
	return all[:per], exc
}

// pieces delivers data as an io.Reader may: at most g bytes per Read, every
// piece ending at a multiple of g (dl = g), optionally the last piece together
// with io.EOF (dl = 100000 + g). dl = 0: a plain bytes.Reader.
type pieces struct {
	data    []byte
	off, g  int
	eofWith bool
}

func (p *pieces) Read(b []byte) (int, error) {
	if p.off >= len(p.data) {
		return 0, io.EOF
	}
	if len(b) == 0 {
		return 0, nil
	}
	n := p.g - p.off%p.g
	if n > len(b) {
		n = len(b)
	}
	if n > len(p.data)-p.off {
		n = len(p.data) - p.off
	}
	copy(b, p.data[p.off:p.off+n])
	p.off += n
	if p.eofWith && p.off == len(p.data) {
		return n, io.EOF
	}
	return n, nil
}

func deliver(data []byte, dl int) io.Reader {
	if dl <= 0 {
		return bytes.NewReader(data)
	}
	if dl >= 100000 {
		return &pieces{data: data, g: dl - 100000, eofWith: true}
	}
	return &pieces{data: data, g: dl}
}

type spzLine struct {
	K     string `json:"k"`
	Id    int    `json:"id"`
	Hdr   []int  `json:"hdr"`
	Pay   []int  `json:"pay"`
	Pat   string `json:"pat"`
	Per   int    `json:"per"`
	PLen  int    `json:"plen"` // length and byte sum of the payload that was really encoded
	PSum  int    `json:"psum"`
	Dl    int    `json:"dl"`
	La    string `json:"la"`
	Lg    int    `json:"lg"`
	Frame string `json:"frame"`
	Ok    bool   `json:"ok"`
	Msg   string `json:"msg"`
	Dec   spzDec `json:"dec"`
}

func emptySpzDec() spzDec {
	return spzDec{Hdr: []int{}, Lens: []int{}, ShLens: []int{}, Other: []string{}, Pos: [][][]int{}, Alpha: [][]int{},
		Color: [][]int{}, Scale: [][]int{}, Rot: [][]int{}, Sh: [][][]int{},
		XPos: []interface{}{}, XAlpha: []interface{}{}, XColor: []interface{}{}, XScale: []interface{}{},
		XRot: []interface{}{}, XSh: []interface{}{}}
}

func v3units(v vector3.Float64, u float64) []int {
	a, ea := unit(v.X(), u)
	b, eb := unit(v.Y(), u)
	c, ec := unit(v.Z(), u)
	return []int{a, b, c, ea & eb & ec}
}

func runSpz(c Case) (line spzLine) {
	line = spzLine{K: "spz", Id: c.Id, Hdr: c.Hdr, Pay: c.Pay, Frame: c.Frame, Dec: emptySpzDec(),
		Pat: c.Pat, Per: c.Per, Dl: c.Dl, La: c.La, Lg: c.Lg, PLen: len(c.Pay)}
	for _, b := range c.Pay {
		line.PSum += b & 0xff
	}
	if c.Pat != "" {
		line.Pay = []int{} // the judge recomputes the bytes from the pattern name
	}
	stream, _, err := refenc.SpzStream(c.Hdr, c.Pay)
	if err != nil {
		panic(err)
	}
	var file []byte
	if c.Frame == "deflate" {
		file = refenc.GzipDeflate(stream)
	} else {
		file, _ = refenc.GzipStored(stream, c.Blk)
	}
	defer func() {
		if r := recover(); r != nil {
			line.Ok = false
			line.Msg = "panic: " + fmt.Sprint(r)
			line.Dec = emptySpzDec()
		}
	}()
	cloud, err := spz.Read(deliver(file, c.Dl))
	if err != nil || cloud == nil {
		line.Msg = fmt.Sprint(err)
		return line
	}
	line.Ok = true
	m := cloud.Mesh
	d := emptySpzDec()
	d.N = m.AttributeLength()
	h := cloud.Header
	d.Hdr = []int{int(h.Version), int(h.NumPoints), int(h.ShDegree), int(h.FractionalBits)}
	known := map[string]bool{}
	len3 := func(name string) int {
		known[name] = true
		if !m.HasFloat3Attribute(name) {
			return 0
		}
		return m.Float3Attribute(name).Len()
	}
	lp := len3(modeling.PositionAttribute)
	la := 0
	known[modeling.OpacityAttribute] = true
	if m.HasFloat1Attribute(modeling.OpacityAttribute) {
		la = m.Float1Attribute(modeling.OpacityAttribute).Len()
	}
	lc := len3(modeling.FDCAttribute)
	ls := len3(modeling.ScaleAttribute)
	lr := 0
	known[modeling.RotationAttribute] = true
	if m.HasFloat4Attribute(modeling.RotationAttribute) {
		lr = m.Float4Attribute(modeling.RotationAttribute).Len()
	}
	d.Lens = []int{lp, la, lc, ls, lr}
	nsh := 0
	for m.HasFloat3Attribute("SH_" + strconv.Itoa(nsh)) {
		name := "SH_" + strconv.Itoa(nsh)
		known[name] = true
		d.ShLens = append(d.ShLens, m.Float3Attribute(name).Len())
		nsh++
	}
	for _, group := range [][]string{m.Float1Attributes(), m.Float2Attributes(), m.Float3Attributes(), m.Float4Attributes()} {
		for _, name := range group {
			if !known[name] {
				d.Other = append(d.Other, name)
			}
		}
	}
	for i := 0; i < lp; i++ {
		v := m.Float3Attribute(modeling.PositionAttribute).At(i)
		d.Pos = append(d.Pos, [][]int{dyadic(v.X()), dyadic(v.Y()), dyadic(v.Z())})
	}
	for i := 0; i < la; i++ {
		q, ex := unit(m.Float1Attribute(modeling.OpacityAttribute).At(i), 255)
		d.Alpha = append(d.Alpha, []int{q, ex})
	}
	for i := 0; i < lc; i++ {
		d.Color = append(d.Color, v3units(m.Float3Attribute(modeling.FDCAttribute).At(i), 153))
	}
	for i := 0; i < ls; i++ {
		d.Scale = append(d.Scale, v3units(m.Float3Attribute(modeling.ScaleAttribute).At(i), 16))
	}
	for i := 0; i < lr; i++ {
		v := m.Float4Attribute(modeling.RotationAttribute).At(i)
		x, ex := unit(v.X(), 255)
		y, ey := unit(v.Y(), 255)
		z, ez := unit(v.Z(), 255)
		w, _ := unit(v.W(), 16320)
		d.Rot = append(d.Rot, []int{x, y, z, w, ex & ey & ez})
	}
	// SH per point: sh[i][d]
	minLen := -1
	for _, l := range d.ShLens {
		if minLen < 0 || l < minLen {
			minLen = l
		}
	}
	for i := 0; i < minLen; i++ {
		row := [][]int{}
		for k := 0; k < nsh; k++ {
			row = append(row, v3units(m.Float3Attribute("SH_"+strconv.Itoa(k)).At(i), 128))
		}
		d.Sh = append(d.Sh, row)
	}
	d.Pos, d.XPos = periodic(d.Pos, c.Per)
	d.Alpha, d.XAlpha = periodic(d.Alpha, c.Per)
	d.Color, d.XColor = periodic(d.Color, c.Per)
	d.Scale, d.XScale = periodic(d.Scale, c.Per)
	d.Rot, d.XRot = periodic(d.Rot, c.Per)
	d.Sh, d.XSh = periodic(d.Sh, c.Per)
	line.Dec = d
	return line
}

// --------------------------------------------------------------- clouds ---

func floats(c Case) []FSplat {
	if c.Unit == 0 {
		return c.FSplats
	}
	u := float64(c.Unit)
	out := []FSplat{}
	conv := func(v []int) []float64 {
		r := make([]float64, len(v))
		for i, x := range v {
			r[i] = float64(x) / u
		}
		return r
	}
	for _, s := range c.Splats {
		out = append(out, FSplat{P: conv(s.P), S: conv(s.S), C: conv(s.C), A: float64(s.A) / u, R: conv(s.R)})
	}
	return out
}

type cloudData struct {
	mesh   modeling.Mesh
	splats []FSplat
	rest   [][]float64 // f_rest_k[i]
	normal []vector3.Float64
}

func buildCloud(c Case) cloudData {
	sp := floats(c)
	n := len(sp)
	pos, scl, fdc := make([]vector3.Float64, n), make([]vector3.Float64, n), make([]vector3.Float64, n)
	op := make([]float64, n)
	rot := make([]vector4.Float64, n)
	for i, s := range sp {
		pos[i] = vector3.New(s.P[0], s.P[1], s.P[2])
		scl[i] = vector3.New(s.S[0], s.S[1], s.S[2])
		fdc[i] = vector3.New(s.C[0], s.C[1], s.C[2])
		op[i] = s.A
		rot[i] = vector4.New(s.R[0], s.R[1], s.R[2], s.R[3])
	}
	v3 := map[string][]vector3.Float64{modeling.PositionAttribute: pos, modeling.ScaleAttribute: scl, modeling.FDCAttribute: fdc}
	v1 := map[string][]float64{modeling.OpacityAttribute: op}
	cd := cloudData{splats: sp}
	rng := rand.New(rand.NewSource(int64(c.Id)*7919 + 17))
	if c.Normal && n > 0 {
		cd.normal = make([]vector3.Float64, n)
		for i := range cd.normal {
			cd.normal[i] = vector3.New(rng.NormFloat64(), rng.NormFloat64(), rng.NormFloat64())
		}
		v3[modeling.NormalAttribute] = cd.normal
	}
	if n > 0 {
		for k := 0; k < c.FRest; k++ {
			col := make([]float64, n)
			for i := range col {
				col[i] = rng.NormFloat64() * 0.3
			}
			cd.rest = append(cd.rest, col)
			v1["f_rest_"+strconv.Itoa(k)] = col
		}
	}
	cd.mesh = modeling.NewPointCloud(map[string][]vector4.Float64{modeling.RotationAttribute: rot}, v3, nil, v1, nil)
	return cd
}

type splatVals struct {
	P [][]int `json:"p"`
	S []int   `json:"s"`
	C []int   `json:"c"`
	A int     `json:"a"`
	R []int   `json:"r"`
}

type splatRec struct {
	P  [][]int `json:"p"`
	SL []int   `json:"sl"`
	C  []int   `json:"c"`
	A  int     `json:"a"`
	R  []int   `json:"r"`
}

type splatLine struct {
	K      string      `json:"k"`
	Id     int         `json:"id"`
	N      int         `json:"n"`
	WErr   bool        `json:"werr"`
	NBytes int         `json:"nbytes"`
	Rest   int         `json:"rest"`
	Orig   []splatVals `json:"orig"`
	Rec    []splatRec  `json:"rec"`
	RErr   bool        `json:"rerr"`
	DecN   int         `json:"decn"`
	Dec    []splatVals `json:"dec"`
	Dl     int         `json:"dl"`
	Msg    string      `json:"msg"`
}

const q20 = 1 << 20

func milli(x float64) int { return satRound(x * 1000) }

func projectSplat(p, s, c []float64, a float64, r []float64, exact bool) splatVals {
	v := splatVals{P: [][]int{}, S: []int{}, C: []int{}, R: []int{}}
	for k := 0; k < 3; k++ {
		if exact {
			v.P = append(v.P, f32ex(p[k]))
		} else {
			v.P = append(v.P, f32(p[k]))
		}
		v.S = append(v.S, satRound(s[k]*q20))
		v.C = append(v.C, milli((c[k]*shC0+0.5)*255))
	}
	v.A = milli(sigmoid(a) * 255)
	for k := 0; k < 4; k++ {
		v.R = append(v.R, milli(r[k]*128+128))
	}
	return v
}

func runSplat(c Case, cd cloudData) (line splatLine) {
	line = splatLine{K: "splat", Id: c.Id, Dl: c.Dl, N: len(cd.splats), Orig: []splatVals{}, Rec: []splatRec{}, Dec: []splatVals{}}
	for _, s := range cd.splats {
		line.Orig = append(line.Orig, projectSplat(s.P, s.S, s.C, s.A, s.R, false))
	}
	var buf bytes.Buffer
	func() {
		defer func() {
			if r := recover(); r != nil {
				line.WErr = true
				line.Msg = "write panic: " + fmt.Sprint(r)
			}
		}()
		if err := splat.Write(&buf, cd.mesh); err != nil {
			line.WErr = true
			line.Msg = "write: " + err.Error()
		}
	}()
	data := buf.Bytes()
	line.NBytes = len(data)
	recs, rest := refenc.ParseSplat(data)
	line.Rest = rest
	for _, r := range recs {
		pr := splatRec{P: [][]int{}, SL: []int{}, C: []int{}, R: []int{}}
		for k := 0; k < 3; k++ {
			pr.P = append(pr.P, bits32(r.Pos[k]))
			pr.SL = append(pr.SL, satRound(math.Log(float64(math.Float32frombits(r.Scale[k])))*q20))
			pr.C = append(pr.C, int(r.RGBA[k]))
		}
		pr.A = int(r.RGBA[3])
		for k := 0; k < 4; k++ {
			pr.R = append(pr.R, int(r.Rot[k]))
		}
		line.Rec = append(line.Rec, pr)
	}
	func() {
		defer func() {
			if r := recover(); r != nil {
				line.RErr = true
				line.Msg += " read panic: " + fmt.Sprint(r)
				line.Dec = []splatVals{}
			}
		}()
		m, err := splat.Read(deliver(data, c.Dl))
		if err != nil {
			line.RErr = true
			line.Msg += " read: " + err.Error()
		}
		line.DecN = m.AttributeLength()
		if line.DecN == 0 {
			return
		}
		for _, need := range []string{modeling.PositionAttribute, modeling.ScaleAttribute, modeling.FDCAttribute} {
			if !m.HasFloat3Attribute(need) {
				line.RErr = true
				line.Msg += " read: missing " + need
				return
			}
		}
		if !m.HasFloat1Attribute(modeling.OpacityAttribute) || !m.HasFloat4Attribute(modeling.RotationAttribute) {
			line.RErr = true
			line.Msg += " read: missing opacity/rotation"
			return
		}
		for i := 0; i < line.DecN; i++ {
			p := m.Float3Attribute(modeling.PositionAttribute).At(i)
			s := m.Float3Attribute(modeling.ScaleAttribute).At(i)
			col := m.Float3Attribute(modeling.FDCAttribute).At(i)
			r := m.Float4Attribute(modeling.RotationAttribute).At(i)
			line.Dec = append(line.Dec, projectSplat([]float64{p.X(), p.Y(), p.Z()}, []float64{s.X(), s.Y(), s.Z()},
				[]float64{col.X(), col.Y(), col.Z()}, m.Float1Attribute(modeling.OpacityAttribute).At(i),
				[]float64{r.X(), r.Y(), r.Z(), r.W()}, true))
		}
	}()
	return line
}

// ------------------------------------------------------ splat PLY export ---

type attrVals struct {
	A  string    `json:"a"`
	Ar int       `json:"ar"`
	N  int       `json:"n"`
	V  [][][]int `json:"v"` // [vertex][component] = [hi, lo(, exact)]
}

type propVals struct {
	N string  `json:"n"`
	T string  `json:"t"`
	V [][]int `json:"v"`
}

type plyHdr struct {
	Fmt   string `json:"fmt"`
	NVert int    `json:"nvert"`
	NElem int    `json:"nelem"`
	Lists int    `json:"lists"`
	First string `json:"first"`
}

type splyLine struct {
	K       string     `json:"k"`
	Id      int        `json:"id"`
	N       int        `json:"n"`
	WErr    bool       `json:"werr"`
	Orig    []attrVals `json:"orig"`
	PErr    bool       `json:"perr"`
	Hdr     plyHdr     `json:"hdr"`
	Props   []propVals `json:"props"`
	BodyLen int        `json:"bodylen"`
	RErr    bool       `json:"rerr"`
	DecN    int        `json:"decn"`
	DecTopo string     `json:"dectopo"`
	Dec     []attrVals `json:"dec"`
	Dl      int        `json:"dl"`
	Msg     string     `json:"msg"`
}

func meshAttrs(m modeling.Mesh, exact bool) []attrVals {
	out := []attrVals{}
	pr := func(x float64) []int {
		if exact {
			return f32ex(x)
		}
		return f32(x)
	}
	for _, name := range m.Float1Attributes() {
		it := m.Float1Attribute(name)
		a := attrVals{A: name, Ar: 1, N: it.Len(), V: [][][]int{}}
		for i := 0; i < it.Len(); i++ {
			a.V = append(a.V, [][]int{pr(it.At(i))})
		}
		out = append(out, a)
	}
	for _, name := range m.Float2Attributes() {
		it := m.Float2Attribute(name)
		a := attrVals{A: name, Ar: 2, N: it.Len(), V: [][][]int{}}
		for i := 0; i < it.Len(); i++ {
			v := it.At(i)
			a.V = append(a.V, [][]int{pr(v.X()), pr(v.Y())})
		}
		out = append(out, a)
	}
	for _, name := range m.Float3Attributes() {
		it := m.Float3Attribute(name)
		a := attrVals{A: name, Ar: 3, N: it.Len(), V: [][][]int{}}
		for i := 0; i < it.Len(); i++ {
			v := it.At(i)
			a.V = append(a.V, [][]int{pr(v.X()), pr(v.Y()), pr(v.Z())})
		}
		out = append(out, a)
	}
	for _, name := range m.Float4Attributes() {
		it := m.Float4Attribute(name)
		a := attrVals{A: name, Ar: 4, N: it.Len(), V: [][][]int{}}
		for i := 0; i < it.Len(); i++ {
			v := it.At(i)
			a.V = append(a.V, [][]int{pr(v.X()), pr(v.Y()), pr(v.Z()), pr(v.W())})
		}
		out = append(out, a)
	}
	return out
}

func runSplatPly(c Case, cd cloudData) (line splyLine) {
	line = splyLine{K: "sply", Id: c.Id, Dl: c.Dl, N: len(cd.splats), Orig: meshAttrs(cd.mesh, false), Props: []propVals{}, Dec: []attrVals{}}
	var buf bytes.Buffer
	func() {
		defer func() {
			if r := recover(); r != nil {
				line.WErr = true
				line.Msg = "write panic: " + fmt.Sprint(r)
			}
		}()
		if err := (ply.SplatPly{Mesh: cd.mesh}).Write(&buf); err != nil {
			line.WErr = true
			line.Msg = "write: " + err.Error()
		}
	}()
	data := buf.Bytes()
	h, err := refenc.ParsePlyHeader(data)
	if err != nil {
		line.PErr = true
		line.Msg += " parse: " + err.Error()
	} else {
		line.Hdr.Fmt = h.Format
		line.Hdr.NElem = len(h.Elements)
		for _, e := range h.Elements {
			for _, p := range e.Props {
				if p.List {
					line.Hdr.Lists++
				}
			}
		}
		if len(h.Elements) > 0 {
			line.Hdr.First = h.Elements[0].Name
			line.Hdr.NVert = h.Elements[0].Count
			cols, bodyLen, ok := refenc.PlyFloatColumns(data, h)
			line.BodyLen = bodyLen
			for j, p := range h.Elements[0].Props {
				pv := propVals{N: p.Name, T: p.Type, V: [][]int{}}
				if ok {
					for _, b := range cols[j] {
						pv.V = append(pv.V, bits32(b))
					}
				}
				line.Props = append(line.Props, pv)
			}
			if !ok {
				line.PErr = true
				line.Msg += " parse: vertex element is not a table of floats covering the body"
			}
		} else {
			line.BodyLen = len(data) - h.BodyOff
		}
	}
	func() {
		defer func() {
			if r := recover(); r != nil {
				line.RErr = true
				line.Msg += " read panic: " + fmt.Sprint(r)
				line.Dec = []attrVals{}
			}
		}()
		m, err := ply.ReadMesh(deliver(data, c.Dl))
		if err != nil || m == nil {
			line.RErr = true
			line.Msg += " read: " + fmt.Sprint(err)
			return
		}
		line.DecN = m.AttributeLength()
		line.DecTopo = m.Topology().String()
		line.Dec = meshAttrs(*m, true)
	}()
	line.Msg = strings.TrimSpace(line.Msg)
	return line
}

// RunCases executes generated cases and writes the trace.
func RunCases(in, out string) error {
	fi, err := os.Open(in)
	if err != nil {
		return err
	}
	defer fi.Close()
	fo, err := os.Create(out)
	if err != nil {
		return err
	}
	defer fo.Close()
	w := bufio.NewWriterSize(fo, 1<<20)
	defer w.Flush()
	enc := json.NewEncoder(w)
	sc := bufio.NewScanner(fi)
	sc.Buffer(make([]byte, 1<<20), 1<<28)
	n := 0
	for sc.Scan() {
		if len(bytes.TrimSpace(sc.Bytes())) == 0 {
			continue
		}
		var c Case
		if err := json.Unmarshal(sc.Bytes(), &c); err != nil {
			return fmt.Errorf("case %d: %w", n, err)
		}
		n++
		switch c.Kind {
		case "spz":
			if c.Hdr == nil {
				c.Hdr = []int{}
			}
			if c.Pay == nil {
				c.Pay = []int{}
			}
			if err := enc.Encode(runSpz(c)); err != nil {
				return err
			}
		case "cloud":
			cd := buildCloud(c)
			if err := enc.Encode(runSplat(c, cd)); err != nil {
				return err
			}
			if err := enc.Encode(runSplatPly(c, cd)); err != nil {
				return err
			}
		default:
			return fmt.Errorf("case %d: unknown kind %q", n, c.Kind)
		}
	}
	return sc.Err()
}
