package splatfam

import (
	"bufio"
	"encoding/json"
	"math"
	"math/rand"
	"os"

	"verifharness/refenc"
)

// GenRandom writes seeded cases at sizes TLC does not enumerate: SPZ streams
// with random headers and random bytes in the packed arrays, and splat clouds
// of 0..maxn splats with finite random attributes.
func GenRandom(out string, seed int64, nspz, nclouds, maxn int) error {
	rng := rand.New(rand.NewSource(seed))
	fo, err := os.Create(out)
	if err != nil {
		return err
	}
	defer fo.Close()
	w := bufio.NewWriter(fo)
	defer w.Flush()
	enc := json.NewEncoder(w)
	id := 200000
	for i := 0; i < nspz; i++ {
		version := 1 + rng.Intn(2)
		n := rng.Intn(maxn + 1)
		if i < 4 {
			n = i // always 0, 1, 2, 3
		}
		deg := rng.Intn(4)
		fb := rng.Intn(256) // the whole declared range of the 8 bit field
		psz := 3
		if version == 1 {
			psz = 2
		}
		total := n*3*psz + n*10 + n*refenc.SpzShDim(deg)*3
		pay := make([]int, total)
		for b := range pay {
			pay[b] = rng.Intn(256)
		}
		c := Case{Id: id, Kind: "spz", Hdr: []int{version, n, deg, fb}, Pay: pay,
			Frame: []string{"stored", "deflate"}[rng.Intn(2)], Blk: []int{0, 11, 300}[rng.Intn(3)],
			Dl: []int{0, 0, 1, 5, 64, 100003}[rng.Intn(6)]}
		id++
		if err := enc.Encode(c); err != nil {
			return err
		}
	}
	f32exact := func(x float64) float64 { return float64(float32(x)) }
	for i := 0; i < nclouds; i++ {
		n := rng.Intn(maxn + 1)
		if i < 3 {
			n = i
		}
		c := Case{Id: id, Kind: "cloud", Unit: 0, FSplats: []FSplat{}, FRest: []int{0, 0, 9, 24, 45}[rng.Intn(5)], Normal: rng.Intn(3) == 0,
			Dl: []int{0, 0, 1, 5, 64, 100003}[rng.Intn(6)]}
		id++
		for s := 0; s < n; s++ {
			fs := FSplat{P: make([]float64, 3), S: make([]float64, 3), C: make([]float64, 3), R: make([]float64, 4)}
			for k := 0; k < 3; k++ {
				p := (rng.Float64()*2 - 1) * math.Pow(10, float64(rng.Intn(5)))
				if rng.Intn(2) == 0 {
					p = f32exact(p)
				}
				fs.P[k] = p
				fs.S[k] = rng.Float64()*18 - 12
				fs.C[k] = rng.Float64()*8 - 4 // beyond the displayable range on both sides
				if rng.Intn(8) == 0 {
					fs.C[k] = []float64{-0.5 / shC0, 0.5 / shC0, 0}[rng.Intn(3)]
				}
			}
			fs.A = rng.Float64()*24 - 12
			switch rng.Intn(4) {
			case 0: // axis aligned unit quaternion: a component is exactly +-1
				fs.R[rng.Intn(4)] = []float64{1, -1}[rng.Intn(2)]
			case 1: // arbitrary components in [-1, 1]
				for k := range fs.R {
					fs.R[k] = rng.Float64()*2 - 1
				}
			default: // random unit quaternion
				norm := 0.0
				for k := range fs.R {
					fs.R[k] = rng.NormFloat64()
					norm += fs.R[k] * fs.R[k]
				}
				for k := range fs.R {
					fs.R[k] /= math.Sqrt(norm)
				}
			}
			c.FSplats = append(c.FSplats, fs)
		}
		if err := enc.Encode(c); err != nil {
			return err
		}
	}
	return nil
}
