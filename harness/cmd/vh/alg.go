package main

import (
	"flag"

	"verifharness/algfam"
)

func init() {
	commands["alg-exec"] = func(args []string) error {
		fs := flag.NewFlagSet("alg-exec", flag.ExitOnError)
		in := fs.String("in", "", "cases ndjson")
		out := fs.String("out", "", "trace ndjson")
		_ = fs.Parse(args)
		return algfam.RunCases(*in, *out)
	}
}
