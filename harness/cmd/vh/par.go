package main

import (
	"flag"

	"verifharness/parfam"
)

func init() {
	commands["par-exec"] = func(args []string) error {
		fs := flag.NewFlagSet("par-exec", flag.ExitOnError)
		in := fs.String("in", "", "cases ndjson")
		out := fs.String("out", "", "trace ndjson (appended)")
		skip := fs.Int("skip", 0, "skip the first k cases")
		_ = fs.Parse(args)
		return parfam.RunCases(*in, *out, *skip)
	}
}
