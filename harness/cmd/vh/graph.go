package main

import (
	"flag"

	"verifharness/graphfam"
)

func init() {
	commands["ng-exec"] = func(args []string) error {
		fs := flag.NewFlagSet("ng-exec", flag.ExitOnError)
		in := fs.String("in", "", "histories ndjson")
		out := fs.String("out", "", "trace ndjson")
		reps := fs.Int("reps", 1, "repetitions of each history")
		procs := fs.Int("procs", 1, "number of fresh process images the histories are spread over")
		from := fs.Int("from", 0, "first history (child mode)")
		to := fs.Int("to", -1, "one past the last history (child mode)")
		_ = fs.Parse(args)
		return graphfam.RunNodeGraph(*in, *out, *reps, *procs, *from, *to)
	}
	commands["ng-random"] = func(args []string) error {
		fs := flag.NewFlagSet("ng-random", flag.ExitOnError)
		out := fs.String("out", "", "histories ndjson")
		seed := fs.Int64("seed", 1, "seed")
		n := fs.Int("n", 10, "histories")
		steps := fs.Int("steps", 100, "steps")
		np := fs.Int("np", 4, "params")
		nn := fs.Int("nn", 8, "nodes")
		_ = fs.Parse(args)
		return graphfam.GenNodeGraph(*out, *seed, *n, *steps, *np, *nn)
	}
}

func init() {
	commands["ps-exec"] = func(args []string) error {
		fs := flag.NewFlagSet("ps-exec", flag.ExitOnError)
		in := fs.String("in", "", "cases ndjson")
		out := fs.String("out", "", "trace ndjson")
		_ = fs.Parse(args)
		return graphfam.RunParamServer(*in, *out)
	}
	commands["ps-stress"] = func(args []string) error {
		fs := flag.NewFlagSet("ps-stress", flag.ExitOnError)
		out := fs.String("out", "", "cases ndjson")
		seed := fs.Int64("seed", 1, "seed")
		n := fs.Int("n", 20, "cases")
		clients := fs.Int("clients", 4, "max clients")
		ops := fs.Int("ops", 4, "ops per client")
		_ = fs.Parse(args)
		return graphfam.GenParamServerStress(*out, *seed, *n, *clients, *ops)
	}
}

func init() {
	commands["ge-exec"] = func(args []string) error {
		fs := flag.NewFlagSet("ge-exec", flag.ExitOnError)
		in := fs.String("in", "", "histories ndjson")
		out := fs.String("out", "", "trace ndjson")
		stride := fs.Int("stride", 1, "save/reload/evaluate only after every stride-th step (and the last)")
		_ = fs.Parse(args)
		return graphfam.RunGraphEdit(*in, *out, *stride)
	}
	commands["ge-random"] = func(args []string) error {
		fs := flag.NewFlagSet("ge-random", flag.ExitOnError)
		out := fs.String("out", "", "histories ndjson")
		seed := fs.Int64("seed", 1, "seed")
		n := fs.Int("n", 10, "histories")
		steps := fs.Int("steps", 60, "steps")
		_ = fs.Parse(args)
		return graphfam.GenGraphEdit(*out, *seed, *n, *steps)
	}
	commands["ge-files"] = func(args []string) error {
		fs := flag.NewFlagSet("ge-files", flag.ExitOnError)
		out := fs.String("out", "", "trace ndjson")
		_ = fs.Parse(args)
		return graphfam.RunGraphFiles(fs.Args(), *out)
	}
	commands["ge-alltypes"] = func(args []string) error {
		fs := flag.NewFlagSet("ge-alltypes", flag.ExitOnError)
		out := fs.String("out", "", "trace ndjson")
		chunk := fs.Int("chunk", 12, "nodes per application")
		_ = fs.Parse(args)
		return graphfam.RunAllTypes(*out, *chunk)
	}
	commands["ge-fileedits"] = func(args []string) error {
		fs := flag.NewFlagSet("ge-fileedits", flag.ExitOnError)
		out := fs.String("out", "", "trace ndjson")
		maxp := fs.Int("maxparams", 60, "parameters edited per file")
		_ = fs.Parse(args)
		return graphfam.RunFileEdits(fs.Args(), *out, *maxp)
	}
}
