package main

import (
	"flag"

	"verifharness/roomfam"
)

func init() {
	commands["room-exec"] = func(args []string) error {
		fs := flag.NewFlagSet("room-exec", flag.ExitOnError)
		in := fs.String("in", "", "cases ndjson")
		out := fs.String("out", "", "trace ndjson")
		_ = fs.Parse(args)
		return roomfam.Exec(*in, *out)
	}
	commands["room-random"] = func(args []string) error {
		fs := flag.NewFlagSet("room-random", flag.ExitOnError)
		out := fs.String("out", "", "cases ndjson")
		seed := fs.Int64("seed", 1, "seed")
		n := fs.Int("n", 20, "hub cases")
		steps := fs.Int("steps", 40, "events per hub case (upper bound)")
		codec := fs.Int("codec", 20, "codec cases")
		crowd := fs.Int("crowd", 0, "crowd cases (more than 255 connections)")
		_ = fs.Parse(args)
		return roomfam.Random(*out, *seed, *n, *steps, *codec, *crowd)
	}
	commands["room-shapes"] = func(args []string) error {
		fs := flag.NewFlagSet("room-shapes", flag.ExitOnError)
		in := fs.String("in", "", "TLC-enumerated shapes ndjson")
		out := fs.String("out", "", "codec cases ndjson")
		seed := fs.Int64("seed", 1, "seed")
		_ = fs.Parse(args)
		return roomfam.FillShapes(*in, *out, *seed)
	}
}
