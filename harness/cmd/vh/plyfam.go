package main

import (
	"flag"
	"os"

	"verifharness/plyfam"
)

func init() {
	commands["ply-exec"] = func(args []string) error {
		fs := flag.NewFlagSet("ply-exec", flag.ExitOnError)
		in := fs.String("in", "", "cases ndjson")
		out := fs.String("out", "", "trace ndjson")
		dump := fs.String("dump", "", "optional directory receiving every byte string given to the reader")
		skip := fs.Int("skip", 0, "cases already executed (continuation after a timeout)")
		timeouts := fs.Int("timeouts", 0, "cases that hit the deadline so far (continuation)")
		_ = fs.Parse(args)
		_ = os.Remove(*out + ".aborted")
		return plyfam.RunCases(*in, *out, *dump, *skip, *timeouts)
	}
	commands["ply-random"] = func(args []string) error {
		fs := flag.NewFlagSet("ply-random", flag.ExitOnError)
		out := fs.String("out", "", "cases ndjson")
		kind := fs.String("kind", "rt", "rt | file")
		seed := fs.Int64("seed", 1, "seed")
		n := fs.Int("n", 10, "cases")
		maxv := fs.Int("maxv", 20, "max vertices")
		_ = fs.Parse(args)
		return plyfam.GenRandom(*out, *kind, *seed, *n, *maxv)
	}
}
