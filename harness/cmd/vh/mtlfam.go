package main

import (
	"flag"

	"verifharness/mtlfam"
)

func init() {
	commands["mtl-exec"] = func(args []string) error {
		fs := flag.NewFlagSet("mtl-exec", flag.ExitOnError)
		in := fs.String("in", "", "cases ndjson")
		out := fs.String("out", "", "trace ndjson")
		sandbox := fs.String("sandbox", "", "scratch directory for the cases that touch the file system")
		keep := fs.String("keep", "", "directory to keep the produced files in (optional)")
		_ = fs.Parse(args)
		return mtlfam.RunCases(*in, *out, *sandbox, *keep)
	}
	commands["mtl-random"] = func(args []string) error {
		fs := flag.NewFlagSet("mtl-random", flag.ExitOnError)
		out := fs.String("out", "", "cases ndjson")
		seed := fs.Int64("seed", 1, "seed")
		nmw := fs.Int("nmw", 10, "seeded material-list cases (write + read in memory)")
		nsv := fs.Int("nsv", 10, "seeded Save/Load cases")
		nmr := fs.Int("nmr", 10, "seeded MTL texts")
		maxmeshes := fs.Int("maxmeshes", 4, "max meshes per case")
		maxranges := fs.Int("maxranges", 8, "max material ranges per mesh")
		maxblocks := fs.Int("maxblocks", 12, "max newmtl blocks per text")
		_ = fs.Parse(args)
		return mtlfam.GenRandom(*out, *seed, *nmw, *nsv, *nmr, *maxmeshes, *maxranges, *maxblocks)
	}
}
