package main

import (
	"flag"

	"verifharness/objstl"
)

func init() {
	commands["obj-exec"] = func(args []string) error {
		fs := flag.NewFlagSet("obj-exec", flag.ExitOnError)
		in := fs.String("in", "", "cases ndjson")
		out := fs.String("out", "", "trace ndjson")
		keep := fs.String("keep", "", "directory to keep the OBJ texts in (optional)")
		budget := fs.Int("budget", 0, "stop (with a stop line) when the run has taken this many seconds; 0: never")
		_ = fs.Parse(args)
		return objstl.RunObjCases(*in, *out, *keep, *budget)
	}
	commands["obj-random"] = func(args []string) error {
		fs := flag.NewFlagSet("obj-random", flag.ExitOnError)
		out := fs.String("out", "", "cases ndjson")
		seed := fs.Int64("seed", 1, "seed")
		nwr := fs.Int("nwr", 10, "seeded write cases")
		nld := fs.Int("nld", 10, "random text cases")
		maxtris := fs.Int("maxtris", 12, "max triangles per mesh")
		maxstmts := fs.Int("maxstmts", 60, "max extra statements per text")
		_ = fs.Parse(args)
		return objstl.GenObjRandom(*out, *seed, *nwr, *nld, *maxtris, *maxstmts)
	}
}

func init() {
	commands["stl-exec"] = func(args []string) error {
		fs := flag.NewFlagSet("stl-exec", flag.ExitOnError)
		in := fs.String("in", "", "cases ndjson")
		out := fs.String("out", "", "trace ndjson")
		keep := fs.String("keep", "", "directory to keep the STL files in (optional)")
		budget := fs.Int("budget", 0, "stop (with a stop line) when the run has taken this many seconds; 0: never")
		_ = fs.Parse(args)
		return objstl.RunStlCases(*in, *out, *keep, *budget)
	}
	commands["stl-random"] = func(args []string) error {
		fs := flag.NewFlagSet("stl-random", flag.ExitOnError)
		out := fs.String("out", "", "cases ndjson")
		seed := fs.Int64("seed", 1, "seed")
		nsw := fs.Int("nsw", 10, "seeded mesh cases")
		nsr := fs.Int("nsr", 10, "seeded record-list cases")
		nsb := fs.Int("nsb", 0, "seeded record-list cases for the record-level API (stl.Read / stl.Write)")
		maxtris := fs.Int("maxtris", 200, "max triangles")
		_ = fs.Parse(args)
		return objstl.GenStlRandom(*out, *seed, *nsw, *nsr, *nsb, *maxtris)
	}
}
