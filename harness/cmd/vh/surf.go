package main

import (
	"flag"

	"verifharness/surf"
)

func init() {
	commands["surf-tables"] = func(args []string) error {
		fs := flag.NewFlagSet("surf-tables", flag.ExitOnError)
		out := fs.String("out", "", "tables json")
		_ = fs.Parse(args)
		return surf.DumpTables(*out)
	}
	commands["surf-exec"] = func(args []string) error {
		fs := flag.NewFlagSet("surf-exec", flag.ExitOnError)
		in := fs.String("in", "", "cases ndjson")
		out := fs.String("out", "", "trace ndjson")
		par := fs.Int("par", 4, "parallel executions")
		rounds := fs.Int("rounds", 30, "rounds of a concurrent group")
		_ = fs.Parse(args)
		return surf.RunCases(*in, *out, *par, *rounds)
	}
	commands["surf-random"] = func(args []string) error {
		fs := flag.NewFlagSet("surf-random", flag.ExitOnError)
		out := fs.String("out", "", "cases ndjson")
		kind := fs.String("kind", "shape", "shape | prim")
		seed := fs.Int64("seed", 1, "seed")
		n := fs.Int("n", 10, "cases")
		maxCells := fs.Int("maxcells", 12, "shape: largest radius/half size in cells")
		maxCount := fs.Int("maxcount", 64, "prim: largest row/column/side count")
		_ = fs.Parse(args)
		return surf.GenRandom(*out, *kind, *seed, *n, *maxCells, *maxCount)
	}
}
