package main

import (
	"flag"

	"verifharness/splatfam"
)

func init() {
	commands["splat-exec"] = func(args []string) error {
		fs := flag.NewFlagSet("splat-exec", flag.ExitOnError)
		in := fs.String("in", "", "cases ndjson")
		out := fs.String("out", "", "trace ndjson")
		_ = fs.Parse(args)
		return splatfam.RunCases(*in, *out)
	}
	commands["splat-random"] = func(args []string) error {
		fs := flag.NewFlagSet("splat-random", flag.ExitOnError)
		out := fs.String("out", "", "cases ndjson")
		seed := fs.Int64("seed", 1, "seed")
		nspz := fs.Int("nspz", 20, "spz streams")
		nclouds := fs.Int("nclouds", 20, "splat clouds")
		maxn := fs.Int("maxn", 50, "max splats")
		_ = fs.Parse(args)
		return splatfam.GenRandom(*out, *seed, *nspz, *nclouds, *maxn)
	}
}
