// vh: the verification harness binary. Sub-commands execute TLC-generated or
// seeded inputs on the real polyform packages and write projected traces.
package main

import (
	"fmt"
	"os"
)

type command func(args []string) error

var commands = map[string]command{}

func main() {
	if len(os.Args) < 2 {
		fmt.Fprintln(os.Stderr, "usage: vh <command> [args]")
		os.Exit(64)
	}
	c, ok := commands[os.Args[1]]
	if !ok {
		fmt.Fprintln(os.Stderr, "unknown command", os.Args[1])
		os.Exit(64)
	}
	if err := c(os.Args[2:]); err != nil {
		fmt.Fprintln(os.Stderr, "vh:", err)
		os.Exit(3)
	}
}
