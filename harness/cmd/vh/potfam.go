package main

import (
	"flag"

	"verifharness/potfam"
)

func init() {
	commands["pot-exec"] = func(args []string) error {
		fs := flag.NewFlagSet("pot-exec", flag.ExitOnError)
		in := fs.String("in", "", "abstract files ndjson")
		out := fs.String("out", "", "trace ndjson")
		dir := fs.String("dir", "", "scratch directory for the path-based entry points")
		j := fs.Int("j", 4, "files in parallel")
		maxCuts := fs.Int("maxcuts", 0, "sample at most this many cut points per file (0: all)")
		seed := fs.Int64("seed", 1, "seed of the sample")
		only := fs.Int("only", -1, "execute only this cut point (replay)")
		_ = fs.Parse(args)
		return potfam.RunCases(*in, *out, *dir, *j, *maxCuts, *seed, *only)
	}
	commands["pot-random"] = func(args []string) error {
		fs := flag.NewFlagSet("pot-random", flag.ExitOnError)
		out := fs.String("out", "", "abstract files ndjson")
		seed := fs.Int64("seed", 1, "seed")
		n := fs.Int("n", 16, "files")
		maxn := fs.Int("maxn", 12, "max records")
		_ = fs.Parse(args)
		return potfam.GenRandom(*out, *seed, *n, *maxn)
	}
}
