package main

import (
	"flag"

	"verifharness/sdffam"
)

func init() {
	commands["sdf-exec"] = func(args []string) error {
		fs := flag.NewFlagSet("sdf-exec", flag.ExitOnError)
		in := fs.String("in", "", "cases ndjson")
		out := fs.String("out", "", "trace ndjson")
		seed := fs.Int64("seed", 1, "seed of the far sample points")
		far := fs.Int("far", 24, "number of far sample points per case (0 = none)")
		idbase := fs.Int("idbase", 0, "index of the first case (seeds the far points)")
		par := fs.Int("par", 1, "goroutines evaluating the shared closures at the same time")
		_ = fs.Parse(args)
		return sdffam.RunCases(*in, *out, *seed, *far, *idbase, *par)
	}
	commands["sdf-random"] = func(args []string) error {
		fs := flag.NewFlagSet("sdf-random", flag.ExitOnError)
		out := fs.String("out", "", "cases ndjson")
		seed := fs.Int64("seed", 1, "seed")
		n := fs.Int("n", 10, "cases")
		_ = fs.Parse(args)
		return sdffam.GenRandom(*out, *seed, *n)
	}
	commands["sdf-skel"] = func(args []string) error {
		fs := flag.NewFlagSet("sdf-skel", flag.ExitOnError)
		in := fs.String("in", "", "skeleton cases ndjson (SdfSkel.tla)")
		out := fs.String("out", "", "trace ndjson")
		_ = fs.Parse(args)
		return sdffam.RunSkel(*in, *out)
	}
}
