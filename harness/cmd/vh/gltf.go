package main

import (
	"flag"

	"verifharness/gltffam"
)

func init() {
	commands["gltf-exec"] = func(args []string) error {
		fs := flag.NewFlagSet("gltf-exec", flag.ExitOnError)
		in := fs.String("in", "", "scene descriptors ndjson")
		out := fs.String("out", "", "trace ndjson")
		_ = fs.Parse(args)
		return gltffam.RunCases(*in, *out)
	}
	commands["gltf-session-exec"] = func(args []string) error {
		fs := flag.NewFlagSet("gltf-session-exec", flag.ExitOnError)
		in := fs.String("in", "", "export histories ndjson (specs/GltfSession.tla)")
		out := fs.String("out", "", "trace ndjson (one line per export)")
		_ = fs.Parse(args)
		return gltffam.RunSessions(*in, *out)
	}
	commands["gltf-random"] = func(args []string) error {
		fs := flag.NewFlagSet("gltf-random", flag.ExitOnError)
		out := fs.String("out", "", "scene descriptors ndjson")
		seed := fs.Int64("seed", 1, "seed")
		n := fs.Int("n", 10, "scenes")
		maxv := fs.Int("maxv", 40, "max vertices of a mesh")
		big := fs.Int("big", 0, "number of additional index-width threshold scenes (65535/65536 vertices)")
		nsp := fs.Int("special", 0, "number of additional scenes with special IEEE values (NaN, Inf, -0, float32 limits)")
		mid := fs.Int("mid", 0, "number of additional scenes with a mesh of a power-of-two-ish size (seed-rotated)")
		_ = fs.Parse(args)
		return gltffam.GenRandom(*out, *seed, *n, *maxv, *big, *nsp, *mid)
	}
	commands["gltf-dump"] = func(args []string) error {
		fs := flag.NewFlagSet("gltf-dump", flag.ExitOnError)
		in := fs.String("in", "", "one scene descriptor (json)")
		kind := fs.String("kind", "glb", "glb | text")
		out := fs.String("out", "", "output file")
		_ = fs.Parse(args)
		return gltffam.Dump(*in, *kind, *out)
	}
}
