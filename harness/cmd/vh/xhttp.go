package main

import (
	"flag"

	"verifharness/httpfam"
)

func init() {
	commands["xh-exec"] = func(args []string) error {
		fs := flag.NewFlagSet("xh-exec", flag.ExitOnError)
		in := fs.String("in", "", "request histories ndjson")
		out := fs.String("out", "", "trace ndjson")
		base := fs.Int("base", 0, "number of the first history (for chunked runs)")
		_ = fs.Parse(args)
		return httpfam.RunHistories(*in, *out, *base)
	}
	commands["xh-conc"] = func(args []string) error {
		fs := flag.NewFlagSet("xh-conc", flag.ExitOnError)
		in := fs.String("in", "", "concurrent cases ndjson")
		out := fs.String("out", "", "trace ndjson")
		deadline := fs.Int("deadline", 20000, "per-case deadline in ms")
		_ = fs.Parse(args)
		return httpfam.RunConc(*in, *out, *deadline)
	}
	commands["xh-conc-worker"] = func(args []string) error {
		fs := flag.NewFlagSet("xh-conc-worker", flag.ExitOnError)
		in := fs.String("in", "", "concurrent cases ndjson")
		out := fs.String("out", "", "trace ndjson (appended)")
		progress := fs.String("progress", "", "progress file")
		from := fs.Int("from", 0, "first case")
		deadline := fs.Int("deadline", 20000, "per-case deadline in ms")
		_ = fs.Parse(args)
		return httpfam.RunConcWorker(*in, *out, *progress, *from, *deadline)
	}
	commands["xh-resp"] = func(args []string) error {
		fs := flag.NewFlagSet("xh-resp", flag.ExitOnError)
		in := fs.String("in", "", "response-phase cases ndjson (specs/HttpResp.tla)")
		out := fs.String("out", "", "trace ndjson")
		_ = fs.Parse(args)
		return httpfam.RunResp(*in, *out)
	}
}
