package main

import (
	"flag"

	"verifharness/syncfam"
)

func init() {
	commands["xsync-exec"] = func(args []string) error {
		fs := flag.NewFlagSet("xsync-exec", flag.ExitOnError)
		in := fs.String("in", "", "histories ndjson")
		out := fs.String("out", "", "trace ndjson")
		_ = fs.Parse(args)
		return syncfam.RunSeq(*in, *out)
	}
	commands["xsync-random"] = func(args []string) error {
		fs := flag.NewFlagSet("xsync-random", flag.ExitOnError)
		out := fs.String("out", "", "histories ndjson")
		seed := fs.Int64("seed", 1, "seed")
		n := fs.Int("n", 10, "histories")
		steps := fs.Int("steps", 40, "steps per history")
		_ = fs.Parse(args)
		return syncfam.GenSeqRandom(*out, *seed, *n, *steps)
	}
	commands["xsync-conc"] = func(args []string) error {
		fs := flag.NewFlagSet("xsync-conc", flag.ExitOnError)
		in := fs.String("in", "", "cases ndjson")
		out := fs.String("out", "", "trace ndjson")
		reps := fs.Int("reps", 1, "repetitions of each case")
		_ = fs.Parse(args)
		return syncfam.RunConc(*in, *out, *reps)
	}
	commands["xsync-stress"] = func(args []string) error {
		fs := flag.NewFlagSet("xsync-stress", flag.ExitOnError)
		out := fs.String("out", "", "cases ndjson")
		seed := fs.Int64("seed", 1, "seed")
		n := fs.Int("n", 20, "cases")
		kind := fs.String("kind", "map", "map | app")
		clients := fs.Int("clients", 4, "max clients")
		ops := fs.Int("ops", 4, "ops per client")
		proj := fs.String("proj", "now", "now | late")
		_ = fs.Parse(args)
		return syncfam.GenConcStress(*out, *seed, *n, *kind, *clients, *ops, *proj)
	}
}
