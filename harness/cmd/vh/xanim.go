package main

import (
	"flag"

	"verifharness/xanimfam"
)

func init() {
	commands["xanim-exec"] = func(args []string) error {
		fs := flag.NewFlagSet("xanim-exec", flag.ExitOnError)
		in := fs.String("in", "", "scene descriptors ndjson")
		out := fs.String("out", "", "trace ndjson")
		_ = fs.Parse(args)
		return xanimfam.RunCases(*in, *out)
	}
	commands["xanim-random"] = func(args []string) error {
		fs := flag.NewFlagSet("xanim-random", flag.ExitOnError)
		out := fs.String("out", "", "scene descriptors ndjson")
		seed := fs.Int64("seed", 1, "seed")
		n := fs.Int("n", 10, "scenes")
		maxv := fs.Int("maxv", 12, "max vertices of a mesh")
		maxj := fs.Int("maxj", 8, "max joints of a skeleton")
		maxf := fs.Int("maxf", 8, "max key frames of a sequence")
		_ = fs.Parse(args)
		return xanimfam.GenRandom(*out, *seed, *n, *maxv, *maxj, *maxf)
	}
	commands["xanim-dump"] = func(args []string) error {
		fs := flag.NewFlagSet("xanim-dump", flag.ExitOnError)
		in := fs.String("in", "", "one scene descriptor (json)")
		kind := fs.String("kind", "glb", "glb | text")
		out := fs.String("out", "", "output file")
		_ = fs.Parse(args)
		return xanimfam.Dump(*in, *kind, *out)
	}
}
