package main

import (
	"flag"

	"verifharness/delaunay"
)

func init() {
	commands["dt-exec"] = func(args []string) error {
		fs := flag.NewFlagSet("dt-exec", flag.ExitOnError)
		in := fs.String("in", "", "cases ndjson")
		out := fs.String("out", "", "trace ndjson")
		par := fs.Int("par", 1, "number of goroutines calling at the same time")
		_ = fs.Parse(args)
		return delaunay.Run(*in, *out, *par)
	}
	commands["dt-aspect"] = func(args []string) error {
		fs := flag.NewFlagSet("dt-aspect", flag.ExitOnError)
		out := fs.String("out", "", "cases ndjson")
		seed := fs.Int64("seed", 1, "seed")
		per := fs.Int("per", 2, "sets per aspect ratio and orientation")
		maxa := fs.Float64("max", 1000, "largest aspect ratio")
		_ = fs.Parse(args)
		return delaunay.GenAspect(*out, *seed, *per, *maxa)
	}
	commands["dt-random"] = func(args []string) error {
		fs := flag.NewFlagSet("dt-random", flag.ExitOnError)
		out := fs.String("out", "", "cases ndjson")
		seed := fs.Int64("seed", 1, "seed")
		n := fs.Int("n", 100, "cases")
		maxn := fs.Int("maxn", 30, "max points per case")
		_ = fs.Parse(args)
		return delaunay.GenRandom(*out, *seed, *n, *maxn)
	}
}
