package main

import (
	"flag"

	"verifharness/clifam"
)

func init() {
	commands["cli-exec"] = func(args []string) error {
		fs := flag.NewFlagSet("cli-exec", flag.ExitOnError)
		in := fs.String("in", "", "cases ndjson (specs/CliGen.tla)")
		out := fs.String("out", "", "trace ndjson")
		work := fs.String("work", "", "directory for the sandboxes (under the check's work directory)")
		base := fs.Int("base", 0, "number of the first case (for chunked runs)")
		deadline := fs.Int("deadline", 60000, "deadline of one child process in ms")
		_ = fs.Parse(args)
		return clifam.RunCases(*in, *out, *work, *base, *deadline)
	}
	commands["cli-child"] = func(args []string) error {
		fs := flag.NewFlagSet("cli-child", flag.ExitOnError)
		dir := fs.String("dir", "", "case directory")
		sandbox := fs.String("sandbox", "", "sandbox directory")
		h := fs.Int("h", 0, "case number")
		from := fs.Int("from", 0, "first invocation to run")
		_ = fs.Parse(args)
		return clifam.RunChild(*dir, *sandbox, *h, *from)
	}
}
