package main

import (
	"flag"
	"fmt"

	"verifharness/truncfam"
)

func init() {
	commands["trunc-worker"] = func(args []string) error { return truncfam.Worker() }
	commands["trunc-exec"] = func(args []string) error {
		fs := flag.NewFlagSet("trunc-exec", flag.ExitOnError)
		in := fs.String("in", "", "abstract files ndjson")
		out := fs.String("out", "", "trace ndjson")
		j := fs.Int("j", 4, "parallel worker processes")
		maxCuts := fs.Int("maxcuts", 0, "sample at most this many cut points per file (0: all)")
		seed := fs.Int64("seed", 1, "seed of the sample")
		only := fs.Int("only", -1, "execute only this cut point (replay)")
		rk := fs.Int("rk", -1, "hand every decoder this reader kind (replay; default: the kinds rotate over the files)")
		_ = fs.Parse(args)
		truncfam.PinRk = *rk
		return truncfam.RunCases(*in, *out, *j, *maxCuts, *seed, *only)
	}
	commands["trunc-random"] = func(args []string) error {
		fs := flag.NewFlagSet("trunc-random", flag.ExitOnError)
		out := fs.String("out", "", "abstract files ndjson")
		seed := fs.Int64("seed", 1, "seed")
		n := fs.Int("n", 14, "files")
		maxv := fs.Int("maxv", 20, "max elements")
		_ = fs.Parse(args)
		return truncfam.GenRandom(*out, *seed, *n, *maxv)
	}
	commands["trunc-files"] = func(args []string) error {
		fs := flag.NewFlagSet("trunc-files", flag.ExitOnError)
		out := fs.String("out", "", "trace ndjson")
		j := fs.Int("j", 4, "parallel worker processes")
		maxCuts := fs.Int("maxcuts", 200, "sample at most this many cut points per file")
		seed := fs.Int64("seed", 1, "seed of the sample")
		only := fs.Int("only", -1, "execute only this cut point (replay)")
		rk := fs.Int("rk", -1, "hand every decoder this reader kind (replay; default: the kinds rotate over the files)")
		_ = fs.Parse(args)
		truncfam.PinRk = *rk
		return truncfam.RunFiles(fs.Args(), *out, *j, *maxCuts, *seed, *only)
	}
	commands["trunc-write"] = func(args []string) error {
		fs := flag.NewFlagSet("trunc-write", flag.ExitOnError)
		dir := fs.String("dir", "", "output directory")
		seed := fs.Int64("seed", 1, "seed")
		nv := fs.Int("nv", 30, "vertices")
		_ = fs.Parse(args)
		paths, err := truncfam.WriteReal(*dir, *seed, *nv)
		for _, p := range paths {
			fmt.Println(p)
		}
		return err
	}
}
