package main

import (
	"flag"

	"verifharness/extfam"
)

func init() {
	commands["ext-exec"] = func(args []string) error {
		fs := flag.NewFlagSet("ext-exec", flag.ExitOnError)
		in := fs.String("in", "", "cases ndjson")
		out := fs.String("out", "", "trace ndjson")
		par := fs.Int("par", 4, "parallel executions")
		_ = fs.Parse(args)
		return extfam.RunCases(*in, *out, *par)
	}
	commands["ext-random"] = func(args []string) error {
		fs := flag.NewFlagSet("ext-random", flag.ExitOnError)
		out := fs.String("out", "", "cases ndjson")
		seed := fs.Int64("seed", 1, "seed")
		n := fs.Int("n", 10, "cases")
		maxPts := fs.Int("maxpts", 8, "largest number of path points")
		_ = fs.Parse(args)
		return extfam.GenRandom(*out, *seed, *n, *maxPts)
	}
}
