package main

import (
	"flag"

	"verifharness/meshfam"
)

func init() {
	commands["mesh-exec"] = func(args []string) error {
		fs := flag.NewFlagSet("mesh-exec", flag.ExitOnError)
		in := fs.String("in", "", "histories ndjson")
		out := fs.String("out", "", "trace ndjson")
		_ = fs.Parse(args)
		return meshfam.RunHistories(*in, *out)
	}
	commands["mesh-random"] = func(args []string) error {
		fs := flag.NewFlagSet("mesh-random", flag.ExitOnError)
		out := fs.String("out", "", "histories ndjson")
		seed := fs.Int64("seed", 1, "seed")
		n := fs.Int("n", 10, "histories")
		steps := fs.Int("steps", 40, "steps per history")
		slots := fs.Int("slots", 5, "slots")
		maxv := fs.Int("maxv", 12, "max vertices of a base mesh")
		_ = fs.Parse(args)
		return meshfam.GenRandom(*out, *seed, *n, *steps, *slots, *maxv)
	}
	commands["gen-exec"] = func(args []string) error {
		fs := flag.NewFlagSet("gen-exec", flag.ExitOnError)
		in := fs.String("in", "", "cases ndjson")
		out := fs.String("out", "", "trace ndjson")
		_ = fs.Parse(args)
		return meshfam.RunGenerators(*in, *out)
	}
}
