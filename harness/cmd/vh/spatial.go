package main

import (
	"flag"

	"verifharness/spatial"
)

func init() {
	commands["spatial-exec"] = func(args []string) error {
		fs := flag.NewFlagSet("spatial-exec", flag.ExitOnError)
		in := fs.String("in", "", "cases ndjson")
		out := fs.String("out", "", "trace ndjson")
		seed := fs.Int64("seed", 1, "seed of the BVH axis choices")
		par := fs.Int("par", 1, "goroutines issuing the queries of a batch at the same time")
		_ = fs.Parse(args)
		return spatial.Run(*in, *out, *seed, *par)
	}
	commands["spatial-random"] = func(args []string) error {
		fs := flag.NewFlagSet("spatial-random", flag.ExitOnError)
		out := fs.String("out", "", "cases ndjson")
		seed := fs.Int64("seed", 1, "seed")
		n := fs.Int("n", 50, "cases")
		maxn := fs.Int("maxn", 40, "max elements per case")
		nq := fs.Int("nq", 8, "queries of each kind per case")
		_ = fs.Parse(args)
		return spatial.GenRandom(*out, *seed, *n, *maxn, *nq)
	}
}
