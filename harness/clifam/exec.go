package clifam

import (
	"bufio"
	"bytes"
	"encoding/json"
	"errors"
	"fmt"
	"net/http"
	"net/http/httptest"
	"os"
	"os/exec"
	"path/filepath"
	"strings"
	"time"

	"github.com/EliCDavis/polyform/generator"
	"github.com/EliCDavis/polyform/generator/artifact"
	"github.com/EliCDavis/polyform/generator/parameter"
	"github.com/EliCDavis/polyform/generator/schema"
	"github.com/EliCDavis/polyform/nodes"

	"verifharness/graphfam"
)

// Hdr is the header of an application (strings; "" = absent).
type Hdr struct {
	Name string `json:"name"`
	Ver  string `json:"ver"`
	Desc string `json:"desc"`
	Auth string `json:"auth"`
}

// Prog is a program of specs/CliApp.tla: a GraphEdit prelude plus what the
// command line adds to it (defaults, flag names, producer names, header).
type Prog struct {
	Steps []graphfam.GEStep `json:"steps"`
	Def   []int             `json:"def"`  // default value per node number (parameters)
	Cur   []int             `json:"cur"`  // value set in the editor before the graph was saved (-1: none)
	Flag  []string          `json:"flag"` // CLI flag name per node number ("" = no CLI configuration)
	Pn    [][]string        `json:"pn"`   // name of producer file b is the path components pn[b-1]
	Hdr   Hdr               `json:"hdr"`
}

// Tok is one token after the command.
type Tok struct {
	K    string `json:"k"`    // flag | pos | end
	N    string `json:"n"`    // flag name
	Form string `json:"form"` // eq: -n=v | sp: -n v | bare: -n
	Dash int    `json:"dash"`
	V    string `json:"v"` // the value as written ("@SB@" stands for the sandbox directory)
	Vi   int    `json:"vi"`
}

// Inv is one invocation.
type Inv struct {
	Mode string `json:"mode"` // code: App built in code from the program | bare: empty App (polyform's own main)
	Gf   string `json:"gf"`   // what the first argument is (model's name for it)
	Gfa  string `json:"gfa"`  // the first argument as written ("" = none)
	Cmd  string `json:"cmd"`  // "" = none; "@http" = the same application behind the editor's HTTP API
	Toks []Tok  `json:"toks"`
}

// Fix is one entry of the initial sandbox.
type Fix struct {
	P string `json:"p"`
	K string `json:"k"` // d | f | g (the program saved as a graph document)
	C string `json:"c"`
}

type Case struct {
	P    Prog   `json:"P"`
	Fix  []Fix  `json:"fix"`
	Invs []Inv  `json:"invs"`
	Tag  string `json:"tag,omitempty"`
}

// Line is one trace line.
type Line struct {
	K    string   `json:"k"` // reset | inv
	H    int      `json:"h"`
	I    int      `json:"i"`
	P    Prog     `json:"P"`
	Inv  Inv      `json:"inv"`
	Argv []string `json:"argv"`
	Res  string   `json:"res"`  // ok | err | panic | exit | timeout
	Code int      `json:"code"` // exit status (res = exit)
	Fs   []Ent    `json:"fs"`   // the sandbox after the invocation
	Oa   Doc      `json:"oa"`   // what was written to App.Out
	Os   Doc      `json:"os"`   // what was written to the process's stdout
	Ne   int      `json:"ne"`   // bytes written to the process's stderr
	Note string   `json:"note"`
	Pid  int      `json:"pid"` // process that ran it (invocations of one process share package-level state)
}

func emptyInv() Inv { return Inv{Toks: []Tok{}} }

func normProg(p *Prog) {
	if p.Steps == nil {
		p.Steps = []graphfam.GEStep{}
	}
	if p.Def == nil {
		p.Def = []int{}
	}
	if p.Cur == nil {
		p.Cur = []int{}
	}
	if p.Flag == nil {
		p.Flag = []string{}
	}
	if p.Pn == nil {
		p.Pn = [][]string{}
	}
}

// --------------------------------------------------------------------------
// building applications
// --------------------------------------------------------------------------

func at[T any](s []T, i int, zero T) T {
	if i >= 0 && i < len(s) {
		return s[i]
	}
	return zero
}

// decorate sets default value and CLI configuration of parameter node k.
func decorate(n nodes.Node, t, def int, flagName string) error {
	vj := graphfam.GEValueJSON(t, def)
	switch p := n.(type) {
	case *parameter.String:
		if err := json.Unmarshal(vj, &p.DefaultValue); err != nil {
			return err
		}
		if flagName != "" {
			p.CLI = &parameter.CliConfig[string]{FlagName: flagName, Usage: "string parameter"}
		}
	case *parameter.Float64:
		if err := json.Unmarshal(vj, &p.DefaultValue); err != nil {
			return err
		}
		if flagName != "" {
			p.CLI = &parameter.CliConfig[float64]{FlagName: flagName, Usage: "float parameter"}
		}
	case *parameter.Int:
		if err := json.Unmarshal(vj, &p.DefaultValue); err != nil {
			return err
		}
		if flagName != "" {
			p.CLI = &parameter.CliConfig[int]{FlagName: flagName, Usage: "int parameter"}
		}
	case *parameter.Bool:
		if err := json.Unmarshal(vj, &p.DefaultValue); err != nil {
			return err
		}
		if flagName != "" {
			p.CLI = &parameter.CliConfig[bool]{FlagName: flagName, Usage: "bool parameter"}
		}
	default:
		if flagName != "" {
			return fmt.Errorf("no CLI configuration for parameter type %d in this harness", t)
		}
	}
	return nil
}

// build replays the program's prelude on a scratch application. asFile: the
// state the editor would save (current values applied); otherwise the nodes
// are as a program constructs them in code (defaults only).
func build(p Prog, asFile bool) (*generator.App, error) {
	app := &generator.App{Name: p.Hdr.Name, Version: p.Hdr.Ver, Description: p.Hdr.Desc}
	if p.Hdr.Auth != "" {
		app.Authors = []schema.Author{{Name: p.Hdr.Auth}}
	}
	inst := app.VerifGraph()
	for i, st := range p.Steps {
		if st.Op == "setval" {
			return nil, fmt.Errorf("step %d: programs carry values in def / cur, not in setval steps", i)
		}
		if !graphfam.GEApplyEdit(app, st) {
			return nil, fmt.Errorf("step %d (%s %d %d %d) failed", i, st.Op, st.A, st.B, st.C)
		}
	}
	sch := inst.Schema()
	for id, ni := range sch.Nodes {
		k := graphfam.GENodeNum(id)
		t, ok := graphfam.GETypeId(ni.Type)
		if !ok {
			return nil, fmt.Errorf("node %s has a type outside the model", id)
		}
		if t > 8 {
			continue
		}
		if err := decorate(inst.Node(id), t, at(p.Def, k, 0), at(p.Flag, k, "")); err != nil {
			return nil, err
		}
		if cur := at(p.Cur, k, -1); asFile && cur >= 0 {
			if _, err := inst.UpdateParameter(id, graphfam.GEValueJSON(t, cur)); err != nil {
				return nil, err
			}
		}
	}
	// producers: GraphEdit names them file<b>.txt, the program names them pn[b-1]
	for name, pr := range sch.Producers {
		b := graphfam.GEStrInv("file", strings.TrimSuffix(name, ".txt"))
		if b < 1 || b > len(p.Pn) {
			return nil, fmt.Errorf("producer %q has no name in the program", name)
		}
		if want := strings.Join(p.Pn[b-1], "/"); want != name {
			inst.SetNodeAsProducer(pr.NodeID, want)
		}
	}
	return app, nil
}

// codeApp is the application as a program declares it: App{Files: ...} over nodes built in code.
func codeApp(p Prog) (*generator.App, error) {
	scratch, err := build(p, false)
	if err != nil {
		return nil, err
	}
	inst := scratch.VerifGraph()
	app := &generator.App{Name: p.Hdr.Name, Version: p.Hdr.Ver, Description: p.Hdr.Desc, Authors: scratch.Authors,
		Files: map[string]nodes.NodeOutput[artifact.Artifact]{}}
	for _, name := range inst.ProducerNames() {
		app.Files[name] = inst.Producer(name)
	}
	return app, nil
}

// --------------------------------------------------------------------------
// the child: runs invocations from..end of one case in the sandbox
// --------------------------------------------------------------------------

func render(inv Inv, sandbox string) []string {
	sub := func(s string) string { return strings.ReplaceAll(s, "@SB@", sandbox) }
	argv := []string{"prog"}
	if inv.Gfa != "" {
		argv = append(argv, sub(inv.Gfa))
	}
	if inv.Cmd != "" {
		argv = append(argv, inv.Cmd)
	}
	for _, t := range inv.Toks {
		switch t.K {
		case "flag":
			name := strings.Repeat("-", t.Dash) + t.N
			switch t.Form {
			case "eq":
				argv = append(argv, name+"="+sub(t.V))
			case "sp":
				argv = append(argv, name, sub(t.V))
			default:
				argv = append(argv, name)
			}
		case "end":
			argv = append(argv, "--")
		default:
			argv = append(argv, sub(t.V))
		}
	}
	return argv
}

func setup(c Case, sandbox string) error {
	for _, f := range c.Fix {
		p := filepath.Join(sandbox, filepath.FromSlash(f.P))
		switch f.K {
		case "d":
			if err := os.MkdirAll(p, 0o755); err != nil {
				return err
			}
		case "f":
			if err := os.WriteFile(p, []byte(f.C), 0o644); err != nil {
				return err
			}
		case "g":
			app, err := build(c.P, true)
			if err != nil {
				return err
			}
			if err := os.WriteFile(p, app.Schema(), 0o644); err != nil {
				return err
			}
		default:
			return fmt.Errorf("fixture kind %q", f.K)
		}
	}
	return nil
}

type childPaths struct{ dir string }

func (c childPaths) oa(i int) string     { return filepath.Join(c.dir, "oa."+itoa(i)) }
func (c childPaths) so(i int) string     { return filepath.Join(c.dir, "so."+itoa(i)) }
func (c childPaths) se(i int) string     { return filepath.Join(c.dir, "se."+itoa(i)) }
func (c childPaths) progress() string    { return filepath.Join(c.dir, "progress") }
func (c childPaths) lines() string       { return filepath.Join(c.dir, "lines.ndjson") }
func (c childPaths) caseFile() string    { return filepath.Join(c.dir, "case.json") }
func (c childPaths) mark(s string) error { return os.WriteFile(c.progress(), []byte(s), 0o644) }
func (c childPaths) readMark() (string, error) {
	b, err := os.ReadFile(c.progress())
	return string(b), err
}

func readDoc(path string) (Doc, int) {
	b, err := os.ReadFile(path)
	if err != nil {
		return emptyDoc(), 0
	}
	return ProjectBytes(b), len(b)
}

// compose builds the trace line of invocation i from what is on disk.
func compose(cp childPaths, sandbox string, h, i int, inv Inv, argv []string, res string, code int, note string, pid int) Line {
	ln := Line{K: "inv", H: h, I: i, Inv: inv, Argv: argv, Res: res, Code: code, Note: note, Pid: pid}
	normProg(&ln.P)
	ln.Oa, _ = readDoc(cp.oa(i))
	ln.Os, _ = readDoc(cp.so(i))
	_, ln.Ne = readDoc(cp.se(i))
	ln.Fs = Snapshot(sandbox)
	if len(ln.Note) > 300 {
		ln.Note = ln.Note[:300]
	}
	return ln
}

// httpZip: the same application behind the editor's HTTP API: parameter
// values are posted instead of given as flags, then GET /zip.
func httpZip(app *generator.App, inv Inv, out *os.File) (err error) {
	defer func() {
		if r := recover(); r != nil {
			err = fmt.Errorf("PANIC: %v", r)
		}
	}()
	h, herr := app.VerifHandler("")
	if herr != nil {
		return herr
	}
	do := func(method, path string, body []byte) (int, []byte) {
		req := httptest.NewRequest(method, "http://verif.local"+path, bytes.NewReader(body))
		rec := httptest.NewRecorder()
		h.ServeHTTP(rec, req)
		return rec.Code, rec.Body.Bytes()
	}
	for _, t := range inv.Toks {
		if st, body := do(http.MethodPost, "/parameter/value/"+t.N, []byte(t.V)); st != 200 {
			return fmt.Errorf("POST /parameter/value/%s: %d %s", t.N, st, body)
		}
	}
	st, body := do(http.MethodGet, "/zip", nil)
	if st != 200 {
		return fmt.Errorf("GET /zip: %d %s", st, body)
	}
	_, werr := out.Write(body)
	return werr
}

// RunChild executes invocations from.. of the case in dir/case.json; every
// completed invocation appends its line to dir/lines.ndjson. If the code under
// test ends the process (flag.ExitOnError, a fatal error) the parent finds the
// progress mark "start <i>" and composes the line itself.
func RunChild(dir, sandbox string, h, from int) error {
	cp := childPaths{dir}
	data, err := os.ReadFile(cp.caseFile())
	if err != nil {
		return err
	}
	var c Case
	if err := json.Unmarshal(data, &c); err != nil {
		return err
	}
	if err := os.Chdir(sandbox); err != nil {
		return err
	}
	lf, err := os.OpenFile(cp.lines(), os.O_APPEND|os.O_CREATE|os.O_WRONLY, 0o644)
	if err != nil {
		return err
	}
	defer lf.Close()
	realOut, realErr := os.Stdout, os.Stderr
	for i := from; i < len(c.Invs); i++ {
		inv := c.Invs[i]
		if inv.Toks == nil {
			inv.Toks = []Tok{}
		}
		argv := render(inv, sandbox)
		var app *generator.App
		if inv.Mode == "code" {
			if app, err = codeApp(c.P); err != nil {
				return fmt.Errorf("invocation %d: %w", i, err)
			}
		} else {
			app = &generator.App{}
		}
		oa, err := os.Create(cp.oa(i))
		if err != nil {
			return err
		}
		so, err := os.Create(cp.so(i))
		if err != nil {
			return err
		}
		se, err := os.Create(cp.se(i))
		if err != nil {
			return err
		}
		app.Out = oa
		if err := cp.mark("start " + itoa(i)); err != nil {
			return err
		}
		os.Stdout, os.Stderr = so, se
		res, note := "ok", ""
		func() {
			defer func() {
				if r := recover(); r != nil {
					res, note = "panic", fmt.Sprintf("%v", r)
				}
			}()
			var rerr error
			if inv.Cmd == "@http" {
				if inv.Gfa != "" {
					fileData, ferr := os.ReadFile(inv.Gfa)
					if ferr != nil {
						rerr = ferr
					} else {
						app.VerifGraph()
						rerr = app.ApplySchema(fileData)
					}
				}
				if rerr == nil {
					rerr = httpZip(app, inv, oa)
				}
			} else {
				rerr = app.Run(argv)
			}
			if rerr != nil {
				res, note = "err", rerr.Error()
				if strings.HasPrefix(note, "PANIC: ") {
					res = "panic"
				}
			}
		}()
		os.Stdout, os.Stderr = realOut, realErr
		oa.Close()
		so.Close()
		se.Close()
		// back to the sandbox whatever the command did to the working directory (a change is visible
		// to the next invocation's relative paths only through the tree, which is what we record)
		wd, _ := os.Getwd()
		if wd != sandbox {
			note += " [cwd changed to " + wd + "]"
			_ = os.Chdir(sandbox)
		}
		ln := compose(cp, sandbox, h, i, inv, argv, res, 0, note, os.Getpid())
		b, err := json.Marshal(ln)
		if err != nil {
			return err
		}
		if _, err := lf.Write(append(b, '\n')); err != nil {
			return err
		}
		if err := cp.mark("done " + itoa(i)); err != nil {
			return err
		}
	}
	return nil
}

// --------------------------------------------------------------------------
// the parent
// --------------------------------------------------------------------------

func runCase(self string, w *bufio.Writer, work string, h int, c Case, deadline time.Duration) error {
	dir := filepath.Join(work, "c"+itoa(h))
	sandbox := filepath.Join(dir, "sb")
	if err := os.MkdirAll(sandbox, 0o755); err != nil {
		return err
	}
	defer func() {
		// directories the code under test made unusable must not survive the run
		_ = filepath.Walk(sandbox, func(p string, info os.FileInfo, err error) error {
			if err == nil && info.IsDir() {
				_ = os.Chmod(p, 0o755)
			}
			return nil
		})
		_ = os.RemoveAll(dir)
	}()
	sandbox, _ = filepath.EvalSymlinks(sandbox)
	cp := childPaths{dir}
	normProg(&c.P)
	if c.Invs == nil {
		c.Invs = []Inv{}
	}
	data, err := json.Marshal(c)
	if err != nil {
		return err
	}
	if err := os.WriteFile(cp.caseFile(), data, 0o644); err != nil {
		return err
	}
	if err := setup(c, sandbox); err != nil {
		return fmt.Errorf("case %d: %w", h, err)
	}
	enc := json.NewEncoder(w)
	reset := Line{K: "reset", H: h, P: c.P, Inv: emptyInv(), Argv: []string{}, Fs: Snapshot(sandbox), Oa: emptyDoc(), Os: emptyDoc()}
	if err := enc.Encode(reset); err != nil {
		return err
	}
	from := 0
	for from < len(c.Invs) {
		_ = cp.mark("spawn")
		cmd := exec.Command(self, "cli-child", "-dir", dir, "-sandbox", sandbox, "-h", itoa(h), "-from", itoa(from))
		var stderr bytes.Buffer
		cmd.Stderr = &stderr
		cmd.Stdout = nil
		if err := cmd.Start(); err != nil {
			return err
		}
		done := make(chan error, 1)
		go func() { done <- cmd.Wait() }()
		timedOut := false
		var werr error
		select {
		case werr = <-done:
		case <-time.After(deadline):
			timedOut = true
			_ = cmd.Process.Kill()
			werr = <-done
		}
		// lines of the invocations the child completed
		if b, err := os.ReadFile(cp.lines()); err == nil {
			if _, err := w.Write(b); err != nil {
				return err
			}
			_ = os.Remove(cp.lines())
		}
		mark, _ := cp.readMark()
		var st string
		var i int
		_, _ = fmt.Sscanf(mark, "%s %d", &st, &i)
		if st != "start" {
			if werr != nil || timedOut {
				return fmt.Errorf("case %d: child failed outside an invocation (%s, %v): %s", h, mark, werr, stderr.String())
			}
			break // all done
		}
		// the process ended inside invocation i
		inv := c.Invs[i]
		if inv.Toks == nil {
			inv.Toks = []Tok{}
		}
		res, code := "exit", 0
		var ee *exec.ExitError
		if timedOut {
			res = "timeout"
		} else if errors.As(werr, &ee) {
			code = ee.ExitCode()
		}
		note := ""
		if b, err := os.ReadFile(cp.se(i)); err == nil {
			note = string(b)
			if strings.Contains(note, "goroutine ") && (strings.HasPrefix(note, "panic:") || strings.HasPrefix(note, "fatal error:") || strings.Contains(note, "\npanic:")) {
				res = "panic" // died with a Go stack trace (not recoverable in the child: another goroutine, fatal error)
			}
		}
		ln := compose(cp, sandbox, h, i, inv, render(inv, sandbox), res, code, note, cmd.Process.Pid)
		if err := enc.Encode(ln); err != nil {
			return err
		}
		from = i + 1
	}
	return nil
}

// RunCases executes the cases of `in` and writes the trace to `out`.
func RunCases(in, out, work string, base int, deadlineMs int) error {
	self, err := os.Executable()
	if err != nil {
		return err
	}
	fi, err := os.Open(in)
	if err != nil {
		return err
	}
	defer fi.Close()
	fo, err := os.Create(out)
	if err != nil {
		return err
	}
	defer fo.Close()
	w := bufio.NewWriterSize(fo, 1<<20)
	defer w.Flush()
	if work, err = filepath.Abs(work); err != nil {
		return err
	}
	if err := os.MkdirAll(work, 0o755); err != nil {
		return err
	}
	sc := bufio.NewScanner(fi)
	sc.Buffer(make([]byte, 1<<20), 1<<26)
	h := base
	for sc.Scan() {
		if len(bytes.TrimSpace(sc.Bytes())) == 0 {
			continue
		}
		var c Case
		if err := json.Unmarshal(sc.Bytes(), &c); err != nil {
			return fmt.Errorf("case %d: %w", h, err)
		}
		if err := runCase(self, w, work, h, c, time.Duration(deadlineMs)*time.Millisecond); err != nil {
			return err
		}
		h++
	}
	return sc.Err()
}
