// Package clifam drives the command line of a polyform application
// (generator.App.Run) in child processes inside a sandbox directory and
// projects what happened: outcome / exit status, what was written to App.Out
// and to the process's stdout, and the whole sandbox tree after every
// invocation. It only executes and projects; specs/TraceCli.tla judges (X08).
package clifam

import (
	"archive/zip"
	"bytes"
	"encoding/json"
	"io"
	"io/fs"
	"math"
	"os"
	"path/filepath"
	"regexp"
	"sort"
	"strconv"
	"strings"
	"unicode/utf8"

	"verifharness/graphfam"
)

// ZEnt is one archive entry.
type ZEnt struct {
	Name string `json:"name"`
	Text string `json:"text"`
	Tx   bool   `json:"tx"` // text holds the complete content
}

// PParam is a parameter as a document (outline) shows it.
type PParam struct {
	T    int    `json:"t"`
	Name string `json:"name"`
	Def  int    `json:"def"`
	Cur  int    `json:"cur"`
}

// PProd is a producer as a document (outline) shows it.
type PProd struct {
	Name string `json:"name"`
	T    int    `json:"t"` // type number of the producing node (-1 unknown, -2 node not listed)
}

// PDeg is (node type, number of dependencies) of one node.
type PDeg struct {
	T int `json:"t"`
	N int `json:"n"`
}

// PProp is a property of a swagger definition.
type PProp struct {
	Def  string `json:"def"`
	Prop string `json:"prop"`
}

// Doc is the projection of a byte string a command produced (App.Out, the
// process's stdout, or a file found in the sandbox). Every field is always
// present; which ones carry information depends on Kind.
type Doc struct {
	N    int    `json:"n"`
	Dg   []int  `json:"dg"`  // digest of the bytes
	Dgs  []int  `json:"dgs"` // digest of the sorted lines (order of map iteration does not matter)
	Kind string `json:"kind"`
	// empty | zip | badzip | outline | swagger | graphdoc | newdoc | json | mermaid | help | text | binary
	T  string `json:"t"`  // content, if short text
	Tx bool   `json:"tx"` // T is the complete content
	// zip
	Z    []ZEnt `json:"z"`
	Zdup int    `json:"zdup"` // entries whose name occurs more than once
	// outline
	Prods  []PProd  `json:"prods"`
	Params []PParam `json:"params"`
	Types  []int    `json:"types"` // node types listed under "types"
	Nodes  []PDeg   `json:"nodes"`
	// swagger
	Paths []string `json:"paths"`
	Props []PProp  `json:"props"`
	// mermaid
	Labels []string `json:"labels"`
	// header fields: help (first line), mermaid (title), swagger (info), graphdoc / newdoc
	Name string `json:"name"`
	Ver  string `json:"ver"`
	Desc string `json:"desc"`
	Auth string `json:"auth"`
	// help: aliases listed
	Aliases []string `json:"aliases"`
}

func emptyDoc() Doc {
	return Doc{Dg: []int{0, 0, 0}, Dgs: []int{0, 0, 0}, Kind: "empty", Z: []ZEnt{}, Prods: []PProd{}, Params: []PParam{},
		Types: []int{}, Nodes: []PDeg{}, Paths: []string{}, Props: []PProp{}, Labels: []string{}, Aliases: []string{}}
}

func shortText(b []byte) (string, bool) {
	if len(b) > 400 || !utf8.Valid(b) {
		return "", false
	}
	for _, c := range b {
		if c < 0x20 && c != '\n' && c != '\t' {
			return "", false
		}
	}
	return string(b), true
}

func sortedLinesDigest(b []byte) []int {
	lines := strings.Split(string(b), "\n")
	sort.Strings(lines)
	return graphfam.GEHash3([]byte(strings.Join(lines, "\n")))
}

// invValue maps a JSON parameter value back to the model integer (-1: not in the image).
func invValue(t int, raw json.RawMessage) int {
	switch t {
	case 1:
		var s string
		if json.Unmarshal(raw, &s) == nil {
			return graphfam.GEStrInv("s", s)
		}
	case 2:
		var f float64
		if json.Unmarshal(raw, &f) == nil {
			v := f / 1.5
			if v == math.Round(v) && math.Abs(v) < 1e6 {
				return int(v)
			}
		}
	case 3:
		var i int
		if json.Unmarshal(raw, &i) == nil {
			return i
		}
	case 4:
		var b bool
		if json.Unmarshal(raw, &b) == nil {
			if b {
				return 1
			}
			return 0
		}
	default:
		return 0 // types the command line cannot set: value not projected
	}
	return -1
}

var mermaidLabel = regexp.MustCompile(`^\t(?:subgraph )?Node-\d+\[(.*)\]$`)
var helpCmd = regexp.MustCompile(`^\s+\w+: (.*)$`)

// ProjectBytes classifies and projects a byte string.
func ProjectBytes(b []byte) Doc {
	d := emptyDoc()
	d.N = len(b)
	if len(b) == 0 {
		d.Tx = true // the complete content is the empty text
		return d
	}
	d.Dg = graphfam.GEHash3(b)
	d.Dgs = sortedLinesDigest(b)
	d.T, d.Tx = shortText(b)
	if bytes.HasPrefix(b, []byte("PK")) {
		zr, err := zip.NewReader(bytes.NewReader(b), int64(len(b)))
		if err != nil {
			d.Kind = "badzip"
			return d
		}
		d.Kind = "zip"
		seen := map[string]int{}
		for _, f := range zr.File {
			e := ZEnt{Name: f.Name}
			seen[f.Name]++
			if rc, err := f.Open(); err == nil {
				data, rerr := io.ReadAll(rc)
				rc.Close()
				if rerr == nil {
					e.Text, e.Tx = shortText(data)
				}
			}
			d.Z = append(d.Z, e)
		}
		for _, n := range seen {
			if n > 1 {
				d.Zdup += n
			}
		}
		sort.Slice(d.Z, func(i, j int) bool { return d.Z[i].Name < d.Z[j].Name })
		return d
	}
	trim := bytes.TrimLeft(b, " \t\r\n")
	if len(trim) > 0 && trim[0] == '{' {
		var top map[string]json.RawMessage
		if json.Unmarshal(b, &top) == nil {
			switch {
			case top["swagger"] != nil:
				projectSwagger(&d, b)
			case top["types"] != nil:
				projectOutline(&d, b)
			case top["data"] != nil:
				d.Kind = "graphdoc"
				projectHeader(&d, top["data"])
			case top["producers"] != nil || top["name"] != nil || top["nodes"] != nil:
				d.Kind = "newdoc"
				projectHeader(&d, b)
			default:
				d.Kind = "json"
			}
			return d
		}
	}
	if !utf8.Valid(b) {
		d.Kind = "binary"
		return d
	}
	s := string(b)
	switch {
	case strings.HasPrefix(s, "---\ntitle:"):
		d.Kind = "mermaid"
		for _, ln := range strings.Split(s, "\n") {
			if strings.HasPrefix(ln, "title: ") && d.Name == "" {
				d.Name = strings.TrimPrefix(ln, "title: ")
			}
			if m := mermaidLabel.FindStringSubmatch(ln); m != nil {
				d.Labels = append(d.Labels, m[1])
			}
		}
		sort.Strings(d.Labels)
	case strings.Contains(s, "COMMANDS:"):
		d.Kind = "help"
		lines := strings.Split(s, "\n")
		if i := strings.Index(lines[0], " - "); i >= 0 {
			d.Name, d.Ver = lines[0][:i], strings.TrimSpace(lines[0][i+3:])
		}
		if len(lines) > 1 {
			d.Desc = strings.TrimSpace(lines[1])
		}
		inAuthors, inCmds := false, false
		for _, ln := range lines[2:] {
			switch {
			case strings.HasPrefix(ln, "AUTHORS:"):
				inAuthors = true
			case strings.HasPrefix(ln, "COMMANDS:"):
				inAuthors, inCmds = false, true
			case inAuthors && d.Auth == "" && strings.TrimSpace(ln) != "":
				d.Auth = strings.TrimSpace(ln)
			case inCmds:
				if m := helpCmd.FindStringSubmatch(ln); m != nil {
					d.Aliases = append(d.Aliases, strings.Fields(m[1])...)
				}
			}
		}
		sort.Strings(d.Aliases)
	default:
		d.Kind = "text"
	}
	return d
}

func projectHeader(d *Doc, raw []byte) {
	var h struct {
		Name        string `json:"name"`
		Version     string `json:"version"`
		Description string `json:"description"`
		Authors     []struct {
			Name string `json:"name"`
		} `json:"authors"`
	}
	if json.Unmarshal(raw, &h) != nil {
		return
	}
	d.Name, d.Ver, d.Desc = h.Name, h.Version, h.Description
	if len(h.Authors) > 0 {
		d.Auth = h.Authors[0].Name
	}
}

func projectSwagger(d *Doc, b []byte) {
	d.Kind = "swagger"
	var s struct {
		Info struct {
			Title       string `json:"title"`
			Description string `json:"description"`
			Version     string `json:"version"`
		} `json:"info"`
		Paths       map[string]json.RawMessage `json:"paths"`
		Definitions map[string]struct {
			Properties map[string]json.RawMessage `json:"properties"`
		} `json:"definitions"`
	}
	if json.Unmarshal(b, &s) != nil {
		d.Kind = "json"
		return
	}
	d.Name, d.Desc, d.Ver = s.Info.Title, s.Info.Description, s.Info.Version
	for p := range s.Paths {
		d.Paths = append(d.Paths, p)
	}
	sort.Strings(d.Paths)
	for dn, def := range s.Definitions {
		for pn := range def.Properties {
			d.Props = append(d.Props, PProp{Def: dn, Prop: pn})
		}
	}
	sort.Slice(d.Props, func(i, j int) bool {
		if d.Props[i].Def != d.Props[j].Def {
			return d.Props[i].Def < d.Props[j].Def
		}
		return d.Props[i].Prop < d.Props[j].Prop
	})
}

func projectOutline(d *Doc, b []byte) {
	d.Kind = "outline"
	var o struct {
		Producers map[string]struct {
			NodeID string `json:"nodeID"`
		} `json:"producers"`
		Nodes map[string]struct {
			Type         string            `json:"type"`
			Dependencies []json.RawMessage `json:"dependencies"`
			Parameter    *struct {
				Name         string          `json:"name"`
				DefaultValue json.RawMessage `json:"defaultValue"`
				CurrentValue json.RawMessage `json:"currentValue"`
			} `json:"parameter"`
		} `json:"nodes"`
		Types []struct {
			Type string `json:"type"`
		} `json:"types"`
	}
	if json.Unmarshal(b, &o) != nil {
		d.Kind = "json"
		return
	}
	typeNum := func(key string) int {
		if t, ok := graphfam.GETypeId(key); ok {
			return t
		}
		return -1
	}
	for name, p := range o.Producers {
		t := -2
		if n, ok := o.Nodes[p.NodeID]; ok {
			t = typeNum(n.Type)
		}
		d.Prods = append(d.Prods, PProd{Name: name, T: t})
	}
	sort.Slice(d.Prods, func(i, j int) bool { return d.Prods[i].Name < d.Prods[j].Name })
	for _, n := range o.Nodes {
		t := typeNum(n.Type)
		d.Nodes = append(d.Nodes, PDeg{T: t, N: len(n.Dependencies)})
		if n.Parameter != nil {
			d.Params = append(d.Params, PParam{T: t, Name: n.Parameter.Name, Def: invValue(t, n.Parameter.DefaultValue), Cur: invValue(t, n.Parameter.CurrentValue)})
		}
	}
	sort.Slice(d.Nodes, func(i, j int) bool {
		if d.Nodes[i].T != d.Nodes[j].T {
			return d.Nodes[i].T < d.Nodes[j].T
		}
		return d.Nodes[i].N < d.Nodes[j].N
	})
	sort.Slice(d.Params, func(i, j int) bool {
		a, c := d.Params[i], d.Params[j]
		if a.T != c.T {
			return a.T < c.T
		}
		if a.Name != c.Name {
			return a.Name < c.Name
		}
		if a.Def != c.Def {
			return a.Def < c.Def
		}
		return a.Cur < c.Cur
	})
	for _, t := range o.Types {
		d.Types = append(d.Types, typeNum(t.Type))
	}
	sort.Ints(d.Types)
}

// Ent is one entry of the sandbox tree.
type Ent struct {
	P string `json:"p"` // path relative to the sandbox, slash separated
	K string `json:"k"` // f regular file | d directory | o anything else
	M int    `json:"m"` // permission bits
	D Doc    `json:"d"` // projected content (regular files)
}

// Snapshot walks the sandbox.
func Snapshot(root string) []Ent {
	out := []Ent{}
	listed := map[string]bool{}
	_ = filepath.WalkDir(root, func(p string, de fs.DirEntry, err error) error {
		if p == root {
			return nil
		}
		rel, _ := filepath.Rel(root, p)
		rel = filepath.ToSlash(rel)
		if listed[rel] { // a directory that can not be read is reported a second time with the error
			return nil
		}
		listed[rel] = true
		e := Ent{P: rel, K: "o", M: -1, D: emptyDoc()}
		if err != nil {
			out = append(out, e)
			return nil
		}
		info, ierr := de.Info()
		if ierr != nil {
			out = append(out, e)
			return nil
		}
		e.M = int(info.Mode().Perm())
		switch {
		case info.Mode().IsDir():
			e.K = "d"
		case info.Mode().IsRegular():
			e.K = "f"
			if data, rerr := os.ReadFile(p); rerr == nil {
				e.D = ProjectBytes(data)
			} else {
				e.D.Kind = "unreadable"
			}
		}
		out = append(out, e)
		return nil
	})
	sort.Slice(out, func(i, j int) bool { return out[i].P < out[j].P })
	return out
}

func itoa(i int) string { return strconv.Itoa(i) }
