package algfam

import (
	"math"
	"math/rand"

	"github.com/EliCDavis/polyform/math/geometry"
	"github.com/EliCDavis/polyform/math/mat"
	"github.com/EliCDavis/polyform/math/quaternion"
	"github.com/EliCDavis/polyform/math/trs"
	"github.com/EliCDavis/vector/vector3"
)

// Cases of kind "real" (binding B2): seeded non-lattice inputs.  Laws that
// relate two REAL computations are logged as residuals (difference * 1e12,
// clipped) together with the magnitude the tolerance is proportional to; TLC
// decides whether the residuals are inside the band.  No comparison is made
// here.
//
// Binary magnitude (round 2): a case may carry an exponent e and a unit
// exponent ue.  The inputs named in each law below are multiplied by 2^e
// (exact), the residuals and the magnitude are logged in units of 2^ue (so the
// band stays relative to the magnitude of the inputs); which ue belongs to
// which law is Algebra.tla's RealDeg, written into the case by the generator
// and checked again by the judge.

type realCase struct {
	K    string `json:"k"`
	Law  string `json:"law"`
	Seed int64  `json:"seed"`
	I    int    `json:"i"`
	E    int    `json:"e"`
	Ue   int    `json:"ue"`
}

type resLine struct {
	K    string `json:"k"`
	Law  string `json:"law"`
	Res  []int  `json:"res"`
	Mag  int    `json:"mag"`
	Nan  bool   `json:"nan"`
	Seed int64  `json:"seed"`
	I    int    `json:"i"`
	E    int    `json:"e"`
	Ue   int    `json:"ue"`
	Id   int    `json:"id"`
}

type boxRealLine struct {
	K    string  `json:"k"`
	Lo   []int   `json:"lo"`
	Hi   []int   `json:"hi"`
	Pts  [][]int `json:"pts"`
	Pc   []bool  `json:"pc"`
	Qs   [][]int `json:"qs"`
	Qc   []bool  `json:"qc"`
	Cp   [][]int `json:"cp"`
	Nan  bool    `json:"nan"`
	Seed int64   `json:"seed"`
	I    int     `json:"i"`
	E    int     `json:"e"`
	Ue   int     `json:"ue"`
	Id   int     `json:"id"`
}

type rotNearCase struct {
	K    string `json:"k"`
	A    []int  `json:"a"`
	En   int    `json:"en"`
	Ek   int    `json:"ek"`
	Anti int    `json:"anti"`
}

// execRotNear: b is the unit vector at the angle en*10^-ek from a^ (or from
// -a^), built with plain float arithmetic (not with the code under test); the
// line records RotationTo(a^, b).Rotate(a^) - b as a residual.
func execRotNear(c rotNearCase, id int) resLine {
	ln := resLine{K: "res", Law: "C17.RotationToNear", Res: []int{}, Mag: 1, Id: id}
	failed := guard(func() {
		a := vi(c.A).Normalized()
		e := vector3.New(1., 0., 0.) // the coordinate axis least aligned with a
		if math.Abs(a.Y()) < math.Abs(a.X()) && math.Abs(a.Y()) <= math.Abs(a.Z()) {
			e = vector3.New(0., 1., 0.)
		} else if math.Abs(a.Z()) < math.Abs(a.X()) && math.Abs(a.Z()) < math.Abs(a.Y()) {
			e = vector3.New(0., 0., 1.)
		}
		p := a.Cross(e).Normalized()
		eps := float64(c.En) * math.Pow(10, -float64(c.Ek))
		b := a.Scale(math.Cos(eps)).Add(p.Scale(math.Sin(eps))).Normalized()
		if c.Anti != 0 {
			b = b.Scale(-1)
		}
		ln.Res = residual3(quaternion.RotationTo(a, b).Rotate(a), b, &ln.Nan)
	})
	if failed {
		ln.Nan = true
	}
	return ln
}

func rvec(r *rand.Rand, span float64) vector3.Float64 {
	return vector3.New((r.Float64()*2-1)*span, (r.Float64()*2-1)*span, (r.Float64()*2-1)*span)
}

func raxis(r *rand.Rand) vector3.Float64 {
	for {
		v := rvec(r, 3)
		if v.Length() > 0.05 {
			return v
		}
	}
}

func rquat(r *rand.Rand) quaternion.Quaternion {
	return quaternion.FromTheta((r.Float64()*2-1)*2*math.Pi, raxis(r))
}

func rmat(r *rand.Rand, span float64, affine bool) mat.Matrix4x4 {
	a := make([]float64, 16)
	for i := range a {
		a[i] = (r.Float64()*2 - 1) * span
	}
	if affine {
		a[12], a[13], a[14], a[15] = 0, 0, 0, 1
	}
	return matOf(a)
}

func maxAbs(m mat.Matrix4x4) float64 {
	x := 0.0
	for _, v := range matArr(m) {
		x = math.Max(x, math.Abs(v))
	}
	return x
}

func ceilMag(x float64) int {
	if math.IsNaN(x) || math.IsInf(x, 0) || x > 9e5 {
		return 900000
	}
	return int(math.Ceil(x)) + 1
}

func sign(x int) int {
	if x < 0 {
		return -1
	}
	if x > 0 {
		return 1
	}
	return 0
}

func scaleMat(m mat.Matrix4x4, e int, rows, cols int) mat.Matrix4x4 {
	a := matArr(m)
	f := p2(e)
	out := make([]float64, 16)
	for k, x := range a {
		if k/4 < rows && k%4 < cols {
			x *= f
		}
		out[k] = x
	}
	return matOf(out)
}

func execReal(c realCase, id int, emit func(any)) {
	r := rand.New(rand.NewSource(c.Seed*1000003 + int64(c.I)*7919 + int64(len(c.Law))))
	ln := resLine{K: "res", Law: c.Law, Res: []int{}, Mag: 1, Seed: c.Seed, I: c.I, E: c.E, Ue: c.Ue, Id: id}
	u := p2(-c.Ue) // residuals are logged in units of 2^ue
	add3 := func(a, b vector3.Float64) { ln.Res = append(ln.Res, residual3(sc3(a, -c.Ue), sc3(b, -c.Ue), &ln.Nan)...) }
	failed := guard(func() {
		switch c.Law {
		case "C17.QuatLengthReal": // |q.Rotate(v)| = |v|                                   (v * 2^e)
			q, v := rquat(r), sc3(rvec(r, 100), c.E)
			ln.Res = append(ln.Res, residual((q.Rotate(v).Length()-v.Length())*u, &ln.Nan))
			ln.Mag = ceilMag(v.Length() * u)
		case "C17.QuatComposeReal": // (q1*q2).Rotate(v) = q1.Rotate(q2.Rotate(v))          (v * 2^e)
			q1, q2, v := rquat(r), rquat(r), sc3(rvec(r, 100), c.E)
			add3(q1.Multiply(q2).Rotate(v), q1.Rotate(q2.Rotate(v)))
			ln.Mag = ceilMag(v.Length() * u)
		case "C17.QuatAxisFixed": // a rotation fixes its (non-unit) axis                   (axis * 2^e)
			ax := sc3(raxis(r), c.E)
			q := quaternion.FromTheta((r.Float64()*2-1)*2*math.Pi, ax)
			add3(q.Rotate(ax), ax)
			ln.Mag = ceilMag(ax.Length() * u)
		case "C17.RotationToReal": // RotationTo(a,b).Rotate(a) = b for unit a, b
			a, b := raxis(r).Normalized(), raxis(r).Normalized()
			add3(quaternion.RotationTo(a, b).Rotate(a), b)
			ln.Mag = 1
		case "C17.MatInverseReal": // A * A^-1 = A^-1 * A = I      (all of A, or only its linear 3x3 part, * 2^e: dimensionless)
			var a mat.Matrix4x4
			affine := false
			for {
				affine = r.Intn(2) == 0
				a = rmat(r, 4, affine)
				if math.Abs(a.Determinant()) >= 0.5 {
					break
				}
			}
			if affine && r.Intn(2) == 0 && c.E >= -20 && c.E <= 20 {
				// small (large) scale, translation of ordinary size; the condition number of such a
				// matrix grows like 2^|e|, beyond 2^20 it is not a well conditioned input any more
				a = scaleMat(a, c.E, 3, 3)
			} else {
				a = scaleMat(a, c.E, 4, 4)
			}
			inv := a.Inverse()
			id4 := matArr(mat.Identity())
			for i, x := range matArr(a.Multiply(inv)) {
				ln.Res = append(ln.Res, residual(x-id4[i], &ln.Nan))
			}
			for i, x := range matArr(inv.Multiply(a)) {
				ln.Res = append(ln.Res, residual(x-id4[i], &ln.Nan))
			}
			ln.Mag = ceilMag(4 * maxAbs(a) * maxAbs(inv))
		case "C17.MatMulAssoc": // (A*B).MulPosition(v) = A.MulPosition(B.MulPosition(v)) for affine A, B   (rows 1-3 of A * 2^e)
			a, b, v := rmat(r, 4, true), rmat(r, 4, true), rvec(r, 10)
			ln.Mag = ceilMag(16 * maxAbs(a) * maxAbs(b) * (v.Length() + 1))
			a = scaleMat(a, c.E, 3, 4)
			add3(a.Multiply(b).MulPosition(v), a.MulPosition(b.MulPosition(v)))
		case "C17.MatDetMul": // det(A*B) = det(A) * det(B)                                 (A * 2^e: degree 4)
			a, b := rmat(r, 2, false), rmat(r, 2, false)
			ln.Mag = ceilMag(math.Abs(a.Determinant()*b.Determinant()) + 24*math.Pow(maxAbs(a)*maxAbs(b)*4, 4)/256)
			a = scaleMat(a, c.E, 4, 4)
			da, db := a.Determinant(), b.Determinant()
			ln.Res = append(ln.Res, residual((a.Multiply(b).Determinant()-da*db)*u, &ln.Nan))
		case "C17.MatAddReal": // (A+B).MulPosition(v) = A.MulPosition(v) + B.MulPosition(v) - (0,0,0) ; and (A+B)+C = A+(B+C)   (A, B, C * 2^e)
			a, b, cc, v := rmat(r, 4, false), rmat(r, 4, false), rmat(r, 4, false), rvec(r, 10)
			ln.Mag = ceilMag(8 * (maxAbs(a) + maxAbs(b) + maxAbs(cc)) * (v.Length() + 1))
			a, b, cc = scaleMat(a, c.E, 4, 4), scaleMat(b, c.E, 4, 4), scaleMat(cc, c.E, 4, 4)
			add3(a.Add(b).MulPosition(v), a.MulPosition(v).Add(b.MulPosition(v)))
			l, rr := matArr(a.Add(b).Add(cc)), matArr(a.Add(b.Add(cc)))
			for i := range l {
				ln.Res = append(ln.Res, residual((l[i]-rr[i])*u, &ln.Nan))
			}
		case "C17.TRSReal": // Transform(v) = q.Rotate(s o v) + t ; array forms agree           (t, s * 2^e)
			t, q, s, v := rvec(r, 50), rquat(r), rvec(r, 3), rvec(r, 20)
			ln.Mag = ceilMag(t.Length() + 3*s.Length()*v.Length())
			t, s = sc3(t, c.E), sc3(s, c.E)
			x := trs.New(t, q, s)
			add3(x.Transform(v), q.Rotate(s.MultByVector(v)).Add(t))
			add3(x.TransformArray([]vector3.Float64{v})[0], x.Transform(v))
			cp := []vector3.Float64{v}
			x.TransformInPlace(cp)
			add3(cp[0], x.Transform(v))
		case "C17.MeshReal": // mesh-level transforms move every position as the transform moves the point   (positions, t * 2^e)
			n := 1 + r.Intn(6)
			pos := make([]vector3.Float64, n)
			for i := range pos {
				pos[i] = sc3(rvec(r, 20), c.E)
			}
			t, q, s := sc3(rvec(r, 50), c.E), rquat(r), rvec(r, 3)
			m := latticeMesh(pos)
			x := trs.New(t, q, s)
			rot, tra, sca, app := meshPositions(m.Rotate(q)), meshPositions(m.Translate(t)), meshPositions(m.Scale(s)), meshPositions(m.ApplyTRS(x))
			for _, l := range []int{len(rot), len(tra), len(sca), len(app)} { // a wrong count is far outside any band
				ln.Res = append(ln.Res, sign(l-n)*1000000000)
			}
			for i := 0; i < n && i < len(rot) && i < len(tra) && i < len(sca) && i < len(app); i++ {
				add3(rot[i], q.Rotate(pos[i]))
				add3(tra[i], pos[i].Add(t))
				add3(sca[i], pos[i].MultByVector(s))
				add3(app[i], x.Transform(pos[i]))
			}
			ln.Mag = ceilMag(50 + 3*3*2*35)
		case "C17.BoxReal": //                                                              (all points * 2^e, units of 2^(ue-16))
			bl := boxRealLine{K: "boxreal", Lo: []int{0, 0, 0}, Hi: []int{0, 0, 0}, Pts: [][]int{}, Pc: []bool{}, Qs: [][]int{},
				Qc: []bool{}, Cp: [][]int{}, Seed: c.Seed, I: c.I, E: c.E, Ue: c.Ue, Id: id}
			const S = 65536
			sc := func(v vector3.Float64) []int {
				out := make([]int, 3)
				for i, x := range []float64{v.X(), v.Y(), v.Z()} {
					if math.IsNaN(x) || math.IsInf(x, 0) {
						bl.Nan = true
						continue
					}
					out[i] = int(math.Max(-(1<<30), math.Min(1<<30, math.Round(x*u*S))))
				}
				return out
			}
			n := 2 + r.Intn(6)
			pts := make([]vector3.Float64, n)
			for i := range pts {
				pts[i] = sc3(rvec(r, 50), c.E)
			}
			k := 1 + r.Intn(n)
			box := geometry.NewAABBFromPoints(pts[:k]...)
			for _, p := range pts[k:] {
				if r.Intn(3) == 0 {
					box.EncapsulateBounds(geometry.NewAABB(p, vector3.Zero[float64]()))
				} else {
					box.EncapsulatePoint(p)
				}
			}
			bl.Lo, bl.Hi = sc(box.Min()), sc(box.Max())
			for _, p := range pts {
				bl.Pts = append(bl.Pts, sc(p))
				bl.Pc = append(bl.Pc, box.Contains(p))
			}
			for i := 0; i < 8; i++ {
				q := sc3(rvec(r, 70), c.E)
				bl.Qs = append(bl.Qs, sc(q))
				bl.Qc = append(bl.Qc, box.Contains(q))
				bl.Cp = append(bl.Cp, sc(box.ClosestPoint(q)))
			}
			emit(bl)
			return
		default:
			panic("unknown law " + c.Law)
		}
	})
	if c.Law == "C17.BoxReal" && !failed {
		return
	}
	if failed {
		ln.Nan = true
	}
	emit(ln)
}
