package algfam

import (
	"math"
	"math/rand"

	"github.com/EliCDavis/polyform/math/geometry"
	"github.com/EliCDavis/polyform/math/mat"
	"github.com/EliCDavis/polyform/math/quaternion"
	"github.com/EliCDavis/polyform/math/trs"
	"github.com/EliCDavis/vector/vector3"
)

// Cases of kind "real" (binding B2): seeded non-lattice inputs.  Laws that
// relate two REAL computations are logged as residuals (difference * 1e12,
// clipped) together with the magnitude the tolerance is proportional to; TLC
// decides whether the residuals are inside the band.  No comparison is made
// here.

type realCase struct {
	K    string `json:"k"`
	Law  string `json:"law"`
	Seed int64  `json:"seed"`
	I    int    `json:"i"`
}

type resLine struct {
	K    string `json:"k"`
	Law  string `json:"law"`
	Res  []int  `json:"res"`
	Mag  int    `json:"mag"`
	Nan  bool   `json:"nan"`
	Seed int64  `json:"seed"`
	I    int    `json:"i"`
	Id   int    `json:"id"`
}

type boxRealLine struct {
	K    string  `json:"k"`
	Lo   []int   `json:"lo"`
	Hi   []int   `json:"hi"`
	Pts  [][]int `json:"pts"`
	Pc   []bool  `json:"pc"`
	Qs   [][]int `json:"qs"`
	Qc   []bool  `json:"qc"`
	Cp   [][]int `json:"cp"`
	Nan  bool    `json:"nan"`
	Seed int64   `json:"seed"`
	I    int     `json:"i"`
	Id   int     `json:"id"`
}

type rotNearCase struct {
	K    string `json:"k"`
	A    []int  `json:"a"`
	En   int    `json:"en"`
	Ek   int    `json:"ek"`
	Anti int    `json:"anti"`
}

// execRotNear: b is the unit vector at the angle en*10^-ek from a^ (or from
// -a^), built with plain float arithmetic (not with the code under test); the
// line records RotationTo(a^, b).Rotate(a^) - b as a residual.
func execRotNear(c rotNearCase, id int) resLine {
	ln := resLine{K: "res", Law: "C17.RotationToNear", Res: []int{}, Mag: 1, Id: id}
	failed := guard(func() {
		a := vi(c.A).Normalized()
		e := vector3.New(1., 0., 0.) // the coordinate axis least aligned with a
		if math.Abs(a.Y()) < math.Abs(a.X()) && math.Abs(a.Y()) <= math.Abs(a.Z()) {
			e = vector3.New(0., 1., 0.)
		} else if math.Abs(a.Z()) < math.Abs(a.X()) && math.Abs(a.Z()) < math.Abs(a.Y()) {
			e = vector3.New(0., 0., 1.)
		}
		p := a.Cross(e).Normalized()
		eps := float64(c.En) * math.Pow(10, -float64(c.Ek))
		b := a.Scale(math.Cos(eps)).Add(p.Scale(math.Sin(eps))).Normalized()
		if c.Anti != 0 {
			b = b.Scale(-1)
		}
		ln.Res = residual3(quaternion.RotationTo(a, b).Rotate(a), b, &ln.Nan)
	})
	if failed {
		ln.Nan = true
	}
	return ln
}

func rvec(r *rand.Rand, span float64) vector3.Float64 {
	return vector3.New((r.Float64()*2-1)*span, (r.Float64()*2-1)*span, (r.Float64()*2-1)*span)
}

func raxis(r *rand.Rand) vector3.Float64 {
	for {
		v := rvec(r, 3)
		if v.Length() > 0.05 {
			return v
		}
	}
}

func rquat(r *rand.Rand) quaternion.Quaternion {
	return quaternion.FromTheta((r.Float64()*2-1)*2*math.Pi, raxis(r))
}

func rmat(r *rand.Rand, span float64, affine bool) mat.Matrix4x4 {
	a := make([]float64, 16)
	for i := range a {
		a[i] = (r.Float64()*2 - 1) * span
	}
	if affine {
		a[12], a[13], a[14], a[15] = 0, 0, 0, 1
	}
	return matOf(a)
}

func maxAbs(m mat.Matrix4x4) float64 {
	x := 0.0
	for _, v := range matArr(m) {
		x = math.Max(x, math.Abs(v))
	}
	return x
}

func ceilMag(x float64) int {
	if math.IsNaN(x) || math.IsInf(x, 0) || x > 9e5 {
		return 900000
	}
	return int(math.Ceil(x)) + 1
}

func execReal(c realCase, id int, emit func(any)) {
	r := rand.New(rand.NewSource(c.Seed*1000003 + int64(c.I)*7919 + int64(len(c.Law))))
	ln := resLine{K: "res", Law: c.Law, Res: []int{}, Mag: 1, Seed: c.Seed, I: c.I, Id: id}
	add3 := func(a, b vector3.Float64) { ln.Res = append(ln.Res, residual3(a, b, &ln.Nan)...) }
	failed := guard(func() {
		switch c.Law {
		case "C17.QuatLengthReal": // |q.Rotate(v)| = |v|
			q, v := rquat(r), rvec(r, 100)
			ln.Res = append(ln.Res, residual(q.Rotate(v).Length()-v.Length(), &ln.Nan))
			ln.Mag = ceilMag(v.Length())
		case "C17.QuatComposeReal": // (q1*q2).Rotate(v) = q1.Rotate(q2.Rotate(v))
			q1, q2, v := rquat(r), rquat(r), rvec(r, 100)
			add3(q1.Multiply(q2).Rotate(v), q1.Rotate(q2.Rotate(v)))
			ln.Mag = ceilMag(v.Length())
		case "C17.QuatAxisFixed": // a rotation fixes its (non-unit) axis
			ax := raxis(r)
			q := quaternion.FromTheta((r.Float64()*2-1)*2*math.Pi, ax)
			add3(q.Rotate(ax), ax)
			ln.Mag = ceilMag(ax.Length())
		case "C17.RotationToReal": // RotationTo(a,b).Rotate(a) = b for unit a, b
			a, b := raxis(r).Normalized(), raxis(r).Normalized()
			add3(quaternion.RotationTo(a, b).Rotate(a), b)
			ln.Mag = 1
		case "C17.MatInverseReal": // A * A^-1 = A^-1 * A = I
			var a mat.Matrix4x4
			for {
				a = rmat(r, 4, r.Intn(2) == 0)
				if math.Abs(a.Determinant()) >= 0.5 {
					break
				}
			}
			inv := a.Inverse()
			id4 := matArr(mat.Identity())
			for i, x := range matArr(a.Multiply(inv)) {
				ln.Res = append(ln.Res, residual(x-id4[i], &ln.Nan))
			}
			for i, x := range matArr(inv.Multiply(a)) {
				ln.Res = append(ln.Res, residual(x-id4[i], &ln.Nan))
			}
			ln.Mag = ceilMag(4 * maxAbs(a) * maxAbs(inv))
		case "C17.MatMulAssoc": // (A*B).MulPosition(v) = A.MulPosition(B.MulPosition(v)) for affine A, B
			a, b, v := rmat(r, 4, true), rmat(r, 4, true), rvec(r, 10)
			add3(a.Multiply(b).MulPosition(v), a.MulPosition(b.MulPosition(v)))
			ln.Mag = ceilMag(16 * maxAbs(a) * maxAbs(b) * (v.Length() + 1))
		case "C17.MatDetMul": // det(A*B) = det(A) * det(B)
			a, b := rmat(r, 2, false), rmat(r, 2, false)
			da, db := a.Determinant(), b.Determinant()
			ln.Res = append(ln.Res, residual(a.Multiply(b).Determinant()-da*db, &ln.Nan))
			ln.Mag = ceilMag(math.Abs(da*db) + 24*math.Pow(maxAbs(a)*maxAbs(b)*4, 4)/256)
		case "C17.MatAddReal": // (A+B).MulPosition(v) = A.MulPosition(v) + B.MulPosition(v) - (0,0,0) ; and (A+B)+C = A+(B+C)
			a, b, cc, v := rmat(r, 4, false), rmat(r, 4, false), rmat(r, 4, false), rvec(r, 10)
			add3(a.Add(b).MulPosition(v), a.MulPosition(v).Add(b.MulPosition(v)))
			l, rr := matArr(a.Add(b).Add(cc)), matArr(a.Add(b.Add(cc)))
			for i := range l {
				ln.Res = append(ln.Res, residual(l[i]-rr[i], &ln.Nan))
			}
			ln.Mag = ceilMag(8 * (maxAbs(a) + maxAbs(b) + maxAbs(cc)) * (v.Length() + 1))
		case "C17.TRSReal": // Transform(v) = q.Rotate(s o v) + t ; array forms agree
			t, q, s, v := rvec(r, 50), rquat(r), rvec(r, 3), rvec(r, 20)
			x := trs.New(t, q, s)
			add3(x.Transform(v), q.Rotate(s.MultByVector(v)).Add(t))
			add3(x.TransformArray([]vector3.Float64{v})[0], x.Transform(v))
			cp := []vector3.Float64{v}
			x.TransformInPlace(cp)
			add3(cp[0], x.Transform(v))
			ln.Mag = ceilMag(t.Length() + 3*s.Length()*v.Length())
		case "C17.MeshReal": // mesh-level transforms move every position as the transform moves the point
			n := 1 + r.Intn(6)
			pos := make([]vector3.Float64, n)
			for i := range pos {
				pos[i] = rvec(r, 20)
			}
			t, q, s := rvec(r, 50), rquat(r), rvec(r, 3)
			m := latticeMesh(pos)
			x := trs.New(t, q, s)
			rot, tra, sca, app := meshPositions(m.Rotate(q)), meshPositions(m.Translate(t)), meshPositions(m.Scale(s)), meshPositions(m.ApplyTRS(x))
			ln.Res = append(ln.Res, len(rot)-n, len(tra)-n, len(sca)-n, len(app)-n)
			for i := 0; i < n && i < len(rot) && i < len(tra) && i < len(sca) && i < len(app); i++ {
				add3(rot[i], q.Rotate(pos[i]))
				add3(tra[i], pos[i].Add(t))
				add3(sca[i], pos[i].MultByVector(s))
				add3(app[i], x.Transform(pos[i]))
			}
			ln.Mag = ceilMag(50 + 3*3*2*35)
		case "C17.BoxReal":
			bl := boxRealLine{K: "boxreal", Lo: []int{0, 0, 0}, Hi: []int{0, 0, 0}, Pts: [][]int{}, Pc: []bool{}, Qs: [][]int{},
				Qc: []bool{}, Cp: [][]int{}, Seed: c.Seed, I: c.I, Id: id}
			const S = 65536
			sc := func(v vector3.Float64) []int {
				out := make([]int, 3)
				for i, x := range []float64{v.X(), v.Y(), v.Z()} {
					if math.IsNaN(x) || math.IsInf(x, 0) {
						bl.Nan = true
						continue
					}
					out[i] = int(math.Max(-(1<<30), math.Min(1<<30, math.Round(x*S))))
				}
				return out
			}
			n := 2 + r.Intn(6)
			pts := make([]vector3.Float64, n)
			for i := range pts {
				pts[i] = rvec(r, 50)
			}
			k := 1 + r.Intn(n)
			box := geometry.NewAABBFromPoints(pts[:k]...)
			for _, p := range pts[k:] {
				if r.Intn(3) == 0 {
					box.EncapsulateBounds(geometry.NewAABB(p, vector3.Zero[float64]()))
				} else {
					box.EncapsulatePoint(p)
				}
			}
			bl.Lo, bl.Hi = sc(box.Min()), sc(box.Max())
			for _, p := range pts {
				bl.Pts = append(bl.Pts, sc(p))
				bl.Pc = append(bl.Pc, box.Contains(p))
			}
			for i := 0; i < 8; i++ {
				q := rvec(r, 70)
				bl.Qs = append(bl.Qs, sc(q))
				bl.Qc = append(bl.Qc, box.Contains(q))
				bl.Cp = append(bl.Cp, sc(box.ClosestPoint(q)))
			}
			emit(bl)
			return
		default:
			panic("unknown law " + c.Law)
		}
	})
	if c.Law == "C17.BoxReal" && !failed {
		return
	}
	if failed {
		ln.Nan = true
	}
	emit(ln)
}
